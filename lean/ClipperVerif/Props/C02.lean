/-
C02 — axis-parallel inputs are clipped exactly.

The real engine's output on rectilinear input is judged by the executable checker `RectCheck.rectCheck`
(Model/RectCheck.lean), which looks at ONE probe point per grid cell.  The theorems here lift its verdict to
every point of the plane: winding numbers of rectilinear closed paths are constant on the cells of the grid
of vertex coordinates (`windR_cell_const`), hence a `true` verdict implies the pointwise specification of the
Boolean operation at every rational point (`rectCheck_sound`).

Points of the plane: a rational point `p / k` is represented as the integer point `p` against the paths
scaled by the positive integer `k` (`scalePaths k`).  `k = 1` gives lattice points, `k = 2` the cell centres.
Because the Spec's winding number uses a half-open rule, the statements hold even ON grid lines (a point on a
grid line behaves like the cell above / to the right of it), so no "off the grid lines" hypothesis is needed;
the off-grid form asked for in DESIGN.md is the special case `windR_cell_const_between`.
-/
import ClipperVerif.Lemmas.RectCheck
import ClipperVerif.Lemmas.RectArea
namespace Clipper.Props.C02
open Clipper Clipper.RectCheck

/-- `p` and `q` are on the same side of every grid line `x = g` (g ∈ xs) and `y = g` (g ∈ ys). -/
def SameCell (xs ys : List Int) (p q : Pt) : Prop :=
  (∀ g ∈ xs, (p.x < g ↔ q.x < g)) ∧ (∀ g ∈ ys, (p.y < g ↔ q.y < g))

instance (xs ys : List Int) (p q : Pt) : Decidable (SameCell xs ys p q) := by
  unfold SameCell; infer_instance

theorem scalePaths_one (ps : Paths) : scalePaths 1 ps = ps := by
  have h : Pt.scale 1 = id := by funext a; cases a; simp [Pt.scale]
  have h2 : scalePath 1 = id := by funext p; simp [scalePath, h]
  simp [scalePaths, h2]

/-- **Winding numbers of rectilinear closed paths are constant on grid cells.**
If every path of `P` is closed and rectilinear, two points lying on the same side of every line through a
vertex coordinate have the same winding number: the crossing contribution of an axis-parallel edge depends
only on comparisons of the point with vertex coordinates. -/
theorem windR_cell_const {P : Paths} (hr : isRectilinear P = true) {p q : Pt}
    (h : SameCell (xsOf P) (ysOf P) p q) : wind P p = wind P q := by
  have e1 := wind_scale_rect 1 p hr
  have e2 := wind_scale_rect 1 q hr
  rw [scalePaths_one] at e1 e2
  rw [e1, e2]
  apply windB_congr
  · intro g hg
    have := h.1 g hg
    simp only [locX, Int.one_mul]
    rw [Bool.eq_iff_iff]; simpa using this
  · intro g hg
    have := h.2 g hg
    simp only [locY, Int.one_mul]
    rw [Bool.eq_iff_iff]; simpa using this

/-- The form of DESIGN.md: two points strictly inside the same open grid cell `(x0,x1) × (y0,y1)` (no vertex
coordinate strictly between `x0` and `x1`, nor between `y0` and `y1`) have equal winding numbers. -/
theorem windR_cell_const_between {P : Paths} (hr : isRectilinear P = true) {p q : Pt} {x0 x1 y0 y1 : Int}
    (hx : ∀ g ∈ xsOf P, g ≤ x0 ∨ x1 ≤ g) (hy : ∀ g ∈ ysOf P, g ≤ y0 ∨ y1 ≤ g)
    (hp : x0 < p.x ∧ p.x < x1 ∧ y0 < p.y ∧ p.y < y1) (hq : x0 < q.x ∧ q.x < x1 ∧ y0 < q.y ∧ q.y < y1) :
    wind P p = wind P q := by
  apply windR_cell_const hr
  constructor
  · intro g hg; have := hx g hg; omega
  · intro g hg; have := hy g hg; omega

example : (∀ g ∈ xsOf [[⟨0,0⟩, ⟨4,0⟩, ⟨4,4⟩, ⟨0,4⟩]], g ≤ 0 ∨ 4 ≤ g) ∧
    wind [[⟨0,0⟩, ⟨4,0⟩, ⟨4,4⟩, ⟨0,4⟩]] ⟨1, 3⟩ = wind [[⟨0,0⟩, ⟨4,0⟩, ⟨4,4⟩, ⟨0,4⟩]] ⟨3, 1⟩ := by decide

/-- Beyond the extremes: two points to the left of / below (etc.) all vertex coordinates in the same way. The
unbounded cells are covered by `windR_cell_const`; this instance says the outer region left of all vertices is
one cell. -/
theorem windR_cell_const_left {P : Paths} (hr : isRectilinear P = true) {p q : Pt}
    (hp : ∀ g ∈ xsOf P, p.x < g) (hq : ∀ g ∈ xsOf P, q.x < g) (hy : ∀ g ∈ ysOf P, (p.y < g ↔ q.y < g)) :
    wind P p = wind P q := by
  apply windR_cell_const hr
  exact ⟨fun g hg => ⟨fun _ => hq g hg, fun _ => hp g hg⟩, hy⟩

example : isRectilinear [[⟨0,0⟩, ⟨4,0⟩, ⟨4,4⟩, ⟨2,4⟩, ⟨2,2⟩, ⟨0,2⟩]] = true ∧
    SameCell (xsOf [[⟨0,0⟩, ⟨4,0⟩, ⟨4,4⟩, ⟨2,4⟩, ⟨2,2⟩, ⟨0,2⟩]]) (ysOf [[⟨0,0⟩, ⟨4,0⟩, ⟨4,4⟩, ⟨2,4⟩, ⟨2,2⟩, ⟨0,2⟩]])
      ⟨3, 3⟩ ⟨2, 2⟩ := by decide

/-- **Discrete Green theorem for rectilinear closed paths.**  Twice the shoelace area of a rectilinear closed
path set equals the sum, over the bounded cells of any strictly increasing grid containing all vertex
coordinates, of (winding number at the cell centre) · 2 · width · height.  (`gaps` lists the doubled mid point
and the width of every bounded grid interval; centres are taken in doubled coordinates.) -/
theorem shoelace_cells {P : Paths} (hr : isRectilinear P = true) {xs ys : List Int}
    (hx : xs.Pairwise (· < ·)) (hy : ys.Pairwise (· < ·))
    (vx : ∀ g ∈ xsOf P, g ∈ xs) (vy : ∀ g ∈ ysOf P, g ∈ ys) :
    shoelace2s P = ((gaps xs).map (fun gx => ((gaps ys).map (fun gy =>
        wind (scalePaths 2 P) ⟨gx.1, gy.1⟩ * (2 * (gx.2 * gy.2)))).sum)).sum :=
  (cellSum_paths hx hy hr vx vy).symm

example : shoelace2s [[⟨0,0⟩, ⟨4,0⟩, ⟨4,4⟩, ⟨2,4⟩, ⟨2,2⟩, ⟨0,2⟩]] = 24 ∧
    ((gaps [0, 2, 4]).map (fun gx => ((gaps [0, 2, 4]).map (fun gy =>
      wind (scalePaths 2 [[⟨0,0⟩, ⟨4,0⟩, ⟨4,4⟩, ⟨2,4⟩, ⟨2,2⟩, ⟨0,2⟩]]) ⟨gx.1, gy.1⟩ * (2 * (gx.2 * gy.2)))).sum)).sum = 24 := by
  decide

-- the hypotheses of `shoelace_cells` on that input: rectilinear, strictly increasing grid, coordinates in it
example : isRectilinear [[⟨0,0⟩, ⟨4,0⟩, ⟨4,4⟩, ⟨2,4⟩, ⟨2,2⟩, ⟨0,2⟩]] = true ∧
    ([0, 2, 4] : List Int).Pairwise (· < ·) ∧
    (∀ g ∈ xsOf [[⟨0,0⟩, ⟨4,0⟩, ⟨4,4⟩, ⟨2,4⟩, ⟨2,2⟩, ⟨0,2⟩]], g ∈ ([0, 2, 4] : List Int)) ∧
    (∀ g ∈ ysOf [[⟨0,0⟩, ⟨4,0⟩, ⟨4,4⟩, ⟨2,4⟩, ⟨2,2⟩, ⟨0,2⟩]], g ∈ ([0, 2, 4] : List Int)) := by decide

-- a self-overlapping walk with a zero-width section: both sides are 8
example : shoelace2s [[⟨0,0⟩, ⟨2,0⟩, ⟨2,2⟩, ⟨4,2⟩, ⟨2,2⟩, ⟨0,2⟩]] = 8 ∧
    ((gaps [0, 2, 4]).map (fun gx => ((gaps [0, 2]).map (fun gy =>
      wind (scalePaths 2 [[⟨0,0⟩, ⟨2,0⟩, ⟨2,2⟩, ⟨4,2⟩, ⟨2,2⟩, ⟨0,2⟩]]) ⟨gx.1, gy.1⟩ * (2 * (gx.2 * gy.2)))).sum)).sum = 8 := by
  decide

theorem mem_gaps_mids {g : Int × Int} : ∀ {l : List Int}, g ∈ gaps l → g.1 ∈ mids l
  | [], h => by simp [gaps] at h
  | [_], h => by simp [gaps] at h
  | a :: b :: r, h => by
    simp only [gaps, List.mem_cons] at h
    simp only [mids, List.mem_cons]
    rcases h with h | h
    · left; rw [h]
    · right; exact mem_gaps_mids h

theorem mem_gaps_probes {g : Int × Int} {l : List Int} (h : g ∈ gaps l) : g.1 ∈ probes l := by
  cases l with
  | nil => simp [gaps] at h
  | cons a r => simp only [probes]; exact List.mem_cons_of_mem _ (mem_gaps_mids h)

/-- **The area clause is a consequence of the cell clause.**  If the solution is rectilinear and its winding
number at every probed cell centre is what the operation prescribes, then twice its shoelace area equals twice
the exact area of the selected cells — clause (d) of the checker follows from clauses (a) and (c) by
`shoelace_cells`; the checker still evaluates it (exact integers) as a cross-check. -/
theorem area_of_cells {ct : ClipType} {fr : FillRule} {rev : Bool} {subj clip sol : Paths}
    (ho : isRectilinear sol = true)
    (hcells : (cellCentres (gridXs subj clip sol) (gridYs subj clip sol)).all
      (cellOk ct fr rev (scalePaths 2 subj) (scalePaths 2 clip) (scalePaths 2 sol)) = true) :
    shoelace2s sol = selArea2 ct fr rev subj clip (gridXs subj clip sol) (gridYs subj clip sol) := by
  rw [shoelace_cells ho (sorted_sortU _) (sorted_sortU _)
      (xs := gridXs subj clip sol) (ys := gridYs subj clip sol)
      (by intro g hg; exact mem_sortU.mpr (by simp [hg]))
      (by intro g hg; exact mem_sortU.mpr (by simp [hg]))]
  unfold selArea2
  apply congrArg
  apply List.map_congr_left
  intro gx hgx
  apply congrArg
  apply List.map_congr_left
  intro gy hgy
  have hcell := List.all_eq_true.mp hcells ⟨gx.1, gy.1⟩
    (mem_cellCentres (mem_gaps_probes hgx) (mem_gaps_probes hgy))
  unfold cellOk at hcell
  rw [eq_of_beq hcell]

/-- transfer from an arbitrary rational point to the probe of its cell -/
theorem wind_probe_eq {X : Paths} (hr : isRectilinear X = true) {xs ys : List Int}
    (sx : ∀ g ∈ xsOf X, g ∈ xs) (sy : ∀ g ∈ ysOf X, g ∈ ys) {k : Int} {p : Pt} {cx cy : Int}
    (hx : ∀ g ∈ xs, locX k p g = decide (cx < 2 * g)) (hy : ∀ g ∈ ys, locY k p g = decide (cy < 2 * g)) :
    wind (scalePaths k X) p = wind (scalePaths 2 X) ⟨cx, cy⟩ := by
  rw [wind_scale_rect k p hr, wind_scale_rect 2 ⟨cx, cy⟩ hr]
  apply windB_congr
  · intro g hg; rw [hx g (sx g hg)]; rfl
  · intro g hg; rw [hy g (sy g hg)]; rfl

/-- **Soundness of the checker for all points of the plane.**
If `rectCheck ct fr rev subj clip sol` answers `true` then
(a) subject, clip and solution are closed rectilinear path sets,
(b) every solution vertex has an x that is the x of an input vertex and a y that is the y of an input vertex,
(c) at EVERY rational point `p / k` of the plane (not only the probed cell centres; `k = 1`: every lattice
    point) the solution's winding number is `±1` (sign by `rev`) if the Boolean operation selects the point
    from the subject / clip winding numbers, and `0` otherwise,
(d) twice the solution's shoelace area equals twice the exact area of the selected cells. -/
theorem rectCheck_sound {ct : ClipType} {fr : FillRule} {rev : Bool} {subj clip sol : Paths}
    (h : rectCheck ct fr rev subj clip sol = true) :
    isRectilinear subj = true ∧ isRectilinear clip = true ∧ isRectilinear sol = true ∧
    (∀ path ∈ sol, ∀ v ∈ path, v.x ∈ xsOf subj ++ xsOf clip ∧ v.y ∈ ysOf subj ++ ysOf clip) ∧
    (∀ k : Int, 0 < k → ∀ p : Pt,
      wind (scalePaths k sol) p =
        if inR ct fr (wind (scalePaths k subj) p) (wind (scalePaths k clip) p) then (if rev then -1 else 1) else 0) ∧
    shoelace2s sol = selArea2 ct fr rev subj clip (gridXs subj clip sol) (gridYs subj clip sol) := by
  unfold rectCheck at h
  simp only [Bool.and_eq_true] at h
  obtain ⟨⟨⟨⟨⟨hs, hc⟩, ho⟩, hprov⟩, hcells⟩, harea⟩ := h
  refine ⟨hs, hc, ho, ?_, ?_, ?_⟩
  · intro path hp v hv
    unfold provenance at hprov
    simp only [Bool.and_eq_true, List.all_eq_true, List.contains_iff_mem, mem_sortU] at hprov
    exact ⟨hprov.1 v.x (mem_xsOf.mpr ⟨path, hp, v, hv, rfl⟩), hprov.2 v.y (mem_ysOf.mpr ⟨path, hp, v, hv, rfl⟩)⟩
  · intro k hk p
    obtain ⟨cx, hcx, hx⟩ := exists_probe (mono_locX hk p) (sorted_sortU (xsOf subj ++ (xsOf clip ++ xsOf sol)))
    obtain ⟨cy, hcy, hy⟩ := exists_probe (mono_locY hk p) (sorted_sortU (ysOf subj ++ (ysOf clip ++ ysOf sol)))
    have hcell := List.all_eq_true.mp hcells ⟨cx, cy⟩ (mem_cellCentres hcx hcy)
    unfold cellOk at hcell
    have hcell' := eq_of_beq hcell
    have mx : ∀ (X : Paths), (∀ g ∈ xsOf X, g ∈ xsOf subj ++ (xsOf clip ++ xsOf sol)) →
        ∀ g ∈ xsOf X, g ∈ gridXs subj clip sol := by
      intro X hX g hg; exact mem_sortU.mpr (hX g hg)
    have my : ∀ (X : Paths), (∀ g ∈ ysOf X, g ∈ ysOf subj ++ (ysOf clip ++ ysOf sol)) →
        ∀ g ∈ ysOf X, g ∈ gridYs subj clip sol := by
      intro X hX g hg; exact mem_sortU.mpr (hX g hg)
    rw [wind_probe_eq ho (mx sol (by intro g hg; simp [hg])) (my sol (by intro g hg; simp [hg])) hx hy,
        wind_probe_eq hs (mx subj (by intro g hg; simp [hg])) (my subj (by intro g hg; simp [hg])) hx hy,
        wind_probe_eq hc (mx clip (by intro g hg; simp [hg])) (my clip (by intro g hg; simp [hg])) hx hy]
    exact hcell'
  · exact eq_of_beq harea

/-- `rectCheck_sound` at lattice points (`k = 1`). -/
theorem rectCheck_sound_lattice {ct : ClipType} {fr : FillRule} {rev : Bool} {subj clip sol : Paths}
    (h : rectCheck ct fr rev subj clip sol = true) (p : Pt) :
    wind sol p = if inR ct fr (wind subj p) (wind clip p) then (if rev then -1 else 1) else 0 := by
  have := (rectCheck_sound h).2.2.2.2.1 1 (by decide) p
  simpa only [scalePaths_one] using this

/-! Non-vacuity: the checker accepts a correct solution of two overlapping squares and rejects corrupted ones. -/
section Examples
def sqA : Paths := [[⟨0,0⟩, ⟨2,0⟩, ⟨2,2⟩, ⟨0,2⟩]]
def sqB : Paths := [[⟨1,1⟩, ⟨3,1⟩, ⟨3,3⟩, ⟨1,3⟩]]

example : rectCheck .intersection .evenOdd false sqA sqB [[⟨1,1⟩, ⟨2,1⟩, ⟨2,2⟩, ⟨1,2⟩]] = true := by decide
example : rectCheck .union .nonZero false sqA sqB
    [[⟨0,0⟩, ⟨2,0⟩, ⟨2,1⟩, ⟨3,1⟩, ⟨3,3⟩, ⟨1,3⟩, ⟨1,2⟩, ⟨0,2⟩]] = true := by decide
example : rectCheck .xor .nonZero true sqA sqB
    [[⟨0,2⟩, ⟨1,2⟩, ⟨1,1⟩, ⟨2,1⟩, ⟨2,0⟩, ⟨0,0⟩], [⟨1,3⟩, ⟨3,3⟩, ⟨3,1⟩, ⟨2,1⟩, ⟨2,2⟩, ⟨1,2⟩]] = true := by decide
-- wrong region (one cell too many)
example : rectCheck .intersection .evenOdd false sqA sqB [[⟨1,1⟩, ⟨2,1⟩, ⟨2,3⟩, ⟨1,3⟩]] = false := by decide
-- right region, wrong orientation
example : rectCheck .intersection .evenOdd false sqA sqB [[⟨1,2⟩, ⟨2,2⟩, ⟨2,1⟩, ⟨1,1⟩]] = false := by decide
-- right region traced twice (winding number 2)
example : rectCheck .intersection .evenOdd false sqA sqB
    [[⟨1,1⟩, ⟨2,1⟩, ⟨2,2⟩, ⟨1,2⟩], [⟨1,1⟩, ⟨2,1⟩, ⟨2,2⟩, ⟨1,2⟩]] = false := by decide
-- not rectilinear (a diagonal closing edge)
example : rectCheck .intersection .evenOdd false sqA sqB [[⟨1,1⟩, ⟨2,1⟩, ⟨2,2⟩]] = false := by decide
-- empty solution where a cell is selected
example : rectCheck .intersection .evenOdd false sqA sqB [] = false := by decide
end Examples

end Clipper.Props.C02
