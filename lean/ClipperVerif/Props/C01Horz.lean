/-
C01 — HORIZONTAL EDGES IN THE SWEEP: what `ClipperBase::DoHorizontal` and the scanline-level loop `while (PopHorz(e)) DoHorizontal(*e);`
do to the active edge list (model `Model/SweepHorz.lean`, tied to the compiled member function call by call: `harness/C01horz.cpp`,
records `HORZCALL`).  The scanbeam theorems of `Props/C01Sweep.lean` assume that no input edge is horizontal (`AllUp`); this file covers
what the engine does with the horizontal ones, between `DoTopOfScanbeam(y)` / `InsertLocalMinimaIntoAEL(y)` and the next scanbeam.

 1. `doHorizontal_terminates`          the call returns by itself and never needs a vertex that is not there (also a C10 obligation);
                                       `walk_visits_each_once`, `doHorizontal_turns_bounded`;
 2. `doHorizontal_events_are_crossings` the edges swapped with the horizontal are exactly the AEL edges whose x at the scanline lies
                                       strictly between the two ends of the horizontal run, in walk order, each once;
 3. `doHorizontal_keeps_sorted`        a sorted AEL stays sorted, the horizontal's successor standing at the far end of the run (or the
                                       horizontal and its maxima pair gone); `horzPhase_keeps_sorted` for the scanline-level loop;
                                       `beam_with_horizontals_keeps_sorted`: the hypothesis `AelAt` of `scanbeam_keeps_sorted` is
                                       re-established after the horizontal phase, so the next scanbeam is sorted at all three stages;
                                       `sweep_with_horizontals_keeps_sorted`: in the replay model of the whole sweep WITH horizontal
                                       edges (`Model/SweepHorzReplay.lean`) the AEL is sorted by `curr_x` at every observable stage;
 4. `horizontal_phase_region`          the bookkeeping events derived from the geometry are accepted by `Model.run` and keep the
                                       invariant of `Props/C01.lean` (wind counts = prefix sums, hot ⇔ contributing).

Hypotheses (all decidable, `Model/SweepHorz.lean`): `CallOK` — the AEL is sorted by `curr_x`, the horizontal stands at its `bot`, the
horizontal run of its bound is strictly monotone (no 180-degree spike, no zero-length piece), the run leaves the scanline, and if it ends
in a local maximum the other edge ending there is ahead; `CallGP` (for 2. only) — the edges ahead are strictly sorted and strictly
ahead of the start, and none stands exactly at the far end of the run except the maxima pair, which stands exactly there.  These are
general position extended to horizontals: no vertex of another bound on the end points of the run, no overlapping end points.
-/
import ClipperVerif.Lemmas.SweepHorz
import ClipperVerif.Lemmas.SweepHorzReplay
import ClipperVerif.Lemmas.SweepHorzEvents
import ClipperVerif.Props.C01Sweep
import ClipperVerif.Lemmas.C01Region
import ClipperVerif.Props.C01
namespace Clipper.Props.C01Horz
open Clipper Clipper.Model Clipper.Model.SweepHorz Clipper.Lemmas.SweepHorz Clipper.Lemmas.SweepHorzEvents
open Clipper.Model.SweepOrder (SEdge AllUp NextOK Near BeamOK AliveAbove boundsOf far xlt beamStep ltAbove ltBelow)

/-! ## tie T: the hand-written `updateEdge` against the regenerated `UpdateEdgeIntoAEL`
(`ResetHorzDirection` and `IsHorizontal` are used by the model as generated; `TrimHorz` is `Model/TrimHorz.lean`, bridged in
`Props/Bridges/CleanUp.lean` / `Trim.lean`) -/

/-- C++ `ClipperBase::UpdateEdgeIntoAEL` (the skeleton regenerated from the source, for an unjoined closed edge): the new `bot`, `top`,
`curr_x` are those of hand `updateEdge`, and `TrimHorz(e, preserve_collinear_)` is called exactly when `updateEdge` calls `trim` -/
theorem updateEdge_bridge (pc : Bool) (e : HEdge) (v : HV) (rest : List HV) (hr : e.rest = v :: rest) :
    let g := Gen.UpdateEdgeIntoAEL (e_NextVertex_pt_x := v.pt.x) (e_NextVertex_pt_y := v.pt.y) (e_bot_x := e.bot.x) (e_bot_y := e.bot.y)
      (e_join_with := .noJoin) (e_local_min_is_open := false) (e_top_x := e.top.x) (e_top_y := e.top.y) (preserve_collinear_ := pc)
    let e1 : HEdge := ⟨e.id, ⟨g.1, g.2.1⟩, ⟨g.2.2.2.1, g.2.2.2.2.1⟩, g.2.2.1, v.id, v.isMax, rest⟩
    updateEdge pc e = some (if ("TrimHorz(e,·)", [if pc then (1 : Int) else 0]) ∈ g.2.2.2.2.2 then trim pc e1 else e1) := by
  unfold updateEdge
  rw [hr]
  simp only [Gen.UpdateEdgeIntoAEL, Gen.UpdateEdgeIntoAEL.m1, Gen.UpdateEdgeIntoAEL.m2, Gen.IsJoined, Gen.IsHorizontal, Gen.IsOpen,
    HEdge.isHorz]
  have hpt : ∀ p : Pt, (⟨p.x, p.y⟩ : Pt) = p := fun p => by cases p; rfl
  by_cases h : v.pt.y = e.top.y <;> cases pc <;> simp [h, hpt] <;> rw [← h, hpt]

/-! ## 1. termination -/

/-- **doHorizontal_terminates.**  For every AEL, every `PreserveCollinear`, every `TopX`: if the popped edge is in the AEL and the
horizontal run of its bound leaves the scanline within the supplied vertices (`Leaves`: true of one full turn of any vertex ring that
is not completely flat, and `AddPaths` drops completely flat closed paths), the model of `DoHorizontal` returns without fault: the
`while (true)` loop over consecutive horizontals ends by itself within the fuel `rest.length + 1` (each turn moves `vertex_top` at
least one vertex along the run: `doHorizontal_turns_bounded`), `NextVertex` / `TrimHorz` / `GetCurrYMaximaVertex` never need a vertex
beyond the supplied ones, the maxima pair is there when the walk stops at it.  (The inner `while (e)` loop is a structural recursion
over the neighbours: `walk_visits_each_once`.) -/
theorem doHorizontal_terminates (pc : Bool) (topx : HEdge → Int → Int) (ael : List HEdge) (hid : Nat) (L : List HEdge) (h : HEdge)
    (R : List HEdge) (hsp : splitAt hid [] ael = some (L, h, R)) (hl : Leaves h) :
    (doHorizontal pc topx ael hid).fault = false := by
  unfold doHorizontal
  rw [hsp]
  exact outer_nofault pc topx _ _ L h R [] (by have := flatLen_le h.top.y h.rest; omega) hl

/-- **the walk visits each AEL neighbour at most once**: the edges passed followed by the edges not passed are the neighbours ahead,
in order — nothing is lost, duplicated or reordered, so one walk emits at most one swap per neighbour -/
theorem walk_visits_each_once (topx : HEdge → Int → Int) (s : Seg) (nbrs : List HEdge) :
    (walk topx s nbrs).1 ++ (walk topx s nbrs).2.2 = nbrs ∧
      (walkEvents s.l2r 0 0 (walk topx s nbrs).1).length ≤ nbrs.length := by
  refine ⟨walk_partition topx s nbrs, ?_⟩
  have := congrArg List.length (walk_partition topx s nbrs)
  simp only [List.length_append] at this
  simp only [walkEvents, List.length_map, List.length_zipIdx]
  omega

/-- **the outer loop consumes bound vertices**: ANY fuel beyond the number of supplied vertices on the scanline (the length of the
horizontal run) gives a fault-free result — the number of turns of `while (true)` is at most that number plus one -/
theorem doHorizontal_turns_bounded (pc : Bool) (topx : HEdge → Int → Int) (vmax : Option Nat) (fuel : Nat) (L : List HEdge) (h : HEdge)
    (R : List HEdge) (evs : List Ev) (hf : (flatRun h).length < fuel) (hl : Leaves h) :
    (outer pc topx vmax fuel L h R evs).fault = false :=
  outer_nofault pc topx vmax fuel L h R evs hf hl

/-- non-vacuity: a horizontal `(2,5) → (10,5)` whose bound continues to `(10,0)`: one turn, no fault -/
example : (doHorizontal false (fun _ _ => 0)
    [⟨0, ⟨0, 9⟩, ⟨0, 0⟩, 0, 100, false, []⟩, ⟨1, ⟨2, 5⟩, ⟨10, 5⟩, 2, 11, false, [⟨12, ⟨10, 0⟩, true⟩, ⟨13, ⟨2, 9⟩, false⟩]⟩] 1).fault = false := by decide

/-! ## 3. sortedness (2. follows from it) -/

/-- what a call leaves behind, for a strictly monotone run in direction `d`: `P` = the edges passed, `Q` = the other edges ahead; the
horizontal survives as `hf` — same `Active`, no longer horizontal, standing at the far end of the run — or leaves with the maxima pair -/
def CallShape (d : Bool) (L : List HEdge) (h : HEdge) (R : List HEdge) (res : Res) (P Q : List HEdge) : Prop :=
  (∃ hf, res.ael = aelSurv d L R P Q hf ∧ res.evs = walkEvents d L.length h.id P ∧ hf.id = h.id ∧ hf.currX = runEnd h ∧
      hf.bot = ⟨runEnd h, h.top.y⟩ ∧ hf.isHorz = false) ∨
  (∃ p t, Q = p :: t ∧ some p.vtop = currYMaximaVertex h ∧ res.ael = aelMax d L R P t ∧
      res.evs = walkEvents d L.length h.id P ++ [evMax d L P t h.id p.id])

/-- **doHorizontal_keeps_sorted.**  Hypotheses `CallOK d L h R` (the AEL `L.reverse ++ h :: R` is sorted by `curr_x`, horizontals
standing at their `curr_x`; `h` stands at its `bot`; its run is strictly monotone in direction `d`; the run leaves the scanline; if it
ends in a local maximum the other edge ending there is ahead).  Then the call returns without fault, the AEL after it is again sorted
by `curr_x`, and it is the old AEL with `h` moved past a prefix `P` of the edges ahead and replaced by its successor `hf` — the same
`Active`, not horizontal, `bot` = the far end of the run, `curr_x` = its x — or, at a maximum, with `h` and the first edge not passed
(the maxima pair) removed.  No edge other than `h` moves; the events are one swap per edge of `P`, in walk order, then the removal. -/
theorem doHorizontal_keeps_sorted (pc : Bool) (topx : HEdge → Int → Int) (ael : List HEdge) (hid : Nat) (L : List HEdge) (h : HEdge)
    (R : List HEdge) (d : Bool) (hsp : splitAt hid [] ael = some (L, h, R)) (ok : CallOK d L h R) :
    let res := doHorizontal pc topx ael hid
    res.fault = false ∧ SortedX res.ael ∧
      ∃ P Q, ahead d L R = P ++ Q ∧ (∀ p ∈ P, some p.vtop ≠ currYMaximaVertex h) ∧ CallShape d L h R res P Q := by
  intro res
  have hm := outer_mono pc topx (currYMaximaVertex h) d (h.rest.length + 1) L h R []
    (by have := flatLen_le h.top.y h.rest; omega) ok.leaves ok.atBot ok.mono ok.sorted (fun v hv => ok.pair v hv)
  have hres : res = outer pc topx (currYMaximaVertex h) (h.rest.length + 1) L h R [] := by
    show doHorizontal pc topx ael hid = _
    unfold doHorizontal; rw [hsp]
  rw [← hres] at hm
  obtain ⟨P, Q, e1, e2, e3, e4, e5⟩ := hm
  refine ⟨e3, e4, P, Q, e1, e2, ?_⟩
  simpa [CallShape] using e5

/-! ## 2. the swapped edges are exactly the crossings -/

/-- **doHorizontal_events_are_crossings.**  Hypotheses `CallOK` and `CallGP` (general position at the two ends of the run).  Let
`x0 = h.curr_x` (where the horizontal starts) and `x1 = runEnd h` (where the whole run of consecutive horizontals ends).  Then the
intersect events of the call are exactly one `IntersectEdges` + `SwapPositionsInAEL` of `h` with every AEL edge whose `curr_x` lies
STRICTLY between `x0` and `x1`, in walk order (AEL order left to right, reversed AEL order right to left), each once, at consecutive
positions — followed by the removal of the maxima pair if the run ends in a local maximum, and by nothing else. -/
theorem doHorizontal_events_are_crossings (pc : Bool) (topx : HEdge → Int → Int) (ael : List HEdge) (hid : Nat) (L : List HEdge)
    (h : HEdge) (R : List HEdge) (d : Bool) (hsp : splitAt hid [] ael = some (L, h, R)) (ok : CallOK d L h R) (gp : CallGP d L h R) :
    let res := doHorizontal pc topx ael hid
    let X := if d then ael.filter (between d h.currX (runEnd h)) else (ael.filter (between d h.currX (runEnd h))).reverse
    res.evs = walkEvents d L.length h.id X ∨
      ∃ (p : HEdge) (t : List HEdge), some p.vtop = currYMaximaVertex h ∧
        res.evs = walkEvents d L.length h.id X ++ [evMax d L X t h.id p.id] := by
  intro res X
  obtain ⟨_, hsort, P, Q, hpq, hpv, hshape⟩ := doHorizontal_keeps_sorted pc topx ael hid L h R d hsp ok
  obtain ⟨hz, _⟩ := splitAt_spec hid ael [] L h R hsp
  simp only [List.reverse_nil, List.nil_append] at hz
  obtain ⟨s1, s2, s3⟩ := sortedX_zip ok.sorted
  -- the edges strictly between, among the edges ahead
  have hXa : X = (ahead d L R).filter (between d h.currX (runEnd h)) := by
    show (if d then ael.filter _ else (ael.filter _).reverse) = _
    rw [hz]
    unfold zip
    cases d
    · simp only [Bool.false_eq_true, if_false, ahead, List.filter_append, List.filter_cons, List.reverse_append]
      have hR : R.filter (between false h.currX (runEnd h)) = [] := by
        rw [List.filter_eq_nil_iff]; intro a ha
        have := s3 a ha
        simp only [between, fwd, Bool.false_eq_true, if_false, decide_eq_true_eq]; omega
      have hh : between false h.currX (runEnd h) h = false := by
        simp only [between, fwd, Bool.false_eq_true, if_false, decide_eq_false_iff_not]; omega
      rw [hR, hh]
      simp [List.filter_reverse]
    · simp only [if_true, ahead, List.filter_append, List.filter_cons]
      have hL : L.reverse.filter (between true h.currX (runEnd h)) = [] := by
        rw [List.filter_eq_nil_iff]; intro a ha
        have := s2 a (List.mem_reverse.1 ha)
        simp only [between, fwd, if_true, decide_eq_true_eq]; omega
      have hh : between true h.currX (runEnd h) h = false := by
        simp only [between, fwd, if_true, decide_eq_false_iff_not]; omega
      rw [hL, hh]
      simp
  -- `P` is that list
  have hPX : P = X := by
    rw [hXa, hpq]
    symm
    rcases hshape with ⟨hf, a1, _, _, a4, _, _⟩ | ⟨p, t, a1, a2, _, _⟩
    · -- the horizontal survives at `runEnd h`: sortedness of the result bounds `P` and `Q`
      rw [a1] at hsort
      apply filter_split
      · intro a ha
        have hb := gp.beyond a (by rw [hpq]; exact List.mem_append_left _ ha)
        have hn := gp.noTie a (by rw [hpq]; exact List.mem_append_left _ ha) (hpv a ha)
        unfold SortedX aelSurv at hsort
        cases d
        · simp only [Bool.false_eq_true, if_false] at hsort
          have : hf.currX ≤ a.currX := by
            have := (List.pairwise_append.1 hsort).2.1
            exact (List.pairwise_cons.1 this).1 a (List.mem_append_left _ (List.mem_reverse.2 ha))
          simp only [between, fwd, Bool.false_eq_true, if_false, decide_eq_true_eq] at hb ⊢
          omega
        · simp only [if_true] at hsort
          have : a.currX ≤ hf.currX :=
            (List.pairwise_append.1 hsort).2.2 a (List.mem_append_right _ ha) hf (by simp)
          simp only [between, fwd, if_true, decide_eq_true_eq] at hb ⊢
          omega
      · intro a ha
        unfold SortedX aelSurv at hsort
        cases d
        · simp only [Bool.false_eq_true, if_false] at hsort
          have : a.currX ≤ hf.currX :=
            (List.pairwise_append.1 hsort).2.2 a (List.mem_reverse.2 ha) hf (by simp)
          simp only [between, fwd, Bool.false_eq_true, if_false, decide_eq_false_iff_not]
          omega
        · simp only [if_true] at hsort
          have : hf.currX ≤ a.currX := by
            have := (List.pairwise_append.1 hsort).2.1
            exact (List.pairwise_cons.1 this).1 a ha
          simp only [between, fwd, if_true, decide_eq_false_iff_not]
          omega
    · -- the maxima pair `p` stands at `runEnd h`: strict sortedness of the edges ahead bounds `P` and `t`
      have hst := gp.strict
      rw [hpq, a1] at hst
      have hpe := gp.pairAtEnd p (by rw [hpq, a1]; simp) a2
      rw [a1]
      apply filter_split
      · intro a ha
        have hb := gp.beyond a (by rw [hpq]; exact List.mem_append_left _ ha)
        have := (List.pairwise_append.1 hst).2.2 a ha p (by simp)
        rw [hpe] at this
        simp only [between, decide_eq_true_eq]
        exact ⟨hb, this⟩
      · intro a ha
        simp only [between, decide_eq_false_iff_not, not_and]
        intro _
        rcases List.mem_cons.1 ha with rfl | ha
        · rw [hpe]; unfold fwd; cases d <;> simp
        · have := (List.pairwise_cons.1 (List.pairwise_append.1 hst).2.1).1 a ha
          rw [hpe] at this
          unfold fwd at this ⊢
          cases d <;> simp at this ⊢ <;> omega
  rcases hshape with ⟨hf, _, a2, _⟩ | ⟨p, t, _, a2, _, a4⟩
  · left; rw [← hPX]; exact a2
  · right; exact ⟨p, t, a2, by rw [← hPX]; exact a4⟩

/-! ### non-vacuity -/

private def eA : HEdge := ⟨0, ⟨0, 9⟩, ⟨0, 0⟩, 0, 100, false, []⟩
/-- `(2,5) → (10,5)`, then the bound goes on to `(10,0)` -/
private def eH : HEdge := ⟨1, ⟨2, 5⟩, ⟨10, 5⟩, 2, 11, false, [⟨12, ⟨10, 0⟩, true⟩, ⟨13, ⟨2, 9⟩, false⟩]⟩
private def eB : HEdge := ⟨2, ⟨4, 9⟩, ⟨6, 1⟩, 5, 101, false, []⟩
private def eC : HEdge := ⟨3, ⟨12, 9⟩, ⟨12, 0⟩, 12, 102, false, []⟩
/-- the same horizontal split into two collinear pieces `(2,5) → (4,5) → (10,5)` (PreserveCollinear keeps the vertex) -/
private def eH2 : HEdge := ⟨1, ⟨2, 5⟩, ⟨4, 5⟩, 2, 10, false, [⟨11, ⟨10, 5⟩, false⟩, ⟨12, ⟨10, 0⟩, true⟩, ⟨13, ⟨2, 9⟩, false⟩]⟩
/-- a flat top `(12,5) → (3,5)`, the vertex `(3,5)` being the local maximum where the edge `eM` ends too -/
private def eT : HEdge := ⟨4, ⟨12, 5⟩, ⟨3, 5⟩, 12, 20, true, [⟨21, ⟨3, 9⟩, false⟩]⟩
private def eM : HEdge := ⟨5, ⟨1, 9⟩, ⟨3, 5⟩, 3, 20, true, []⟩

/-- the hypotheses hold for an intermediate horizontal walking left to right past one edge … -/
example : splitAt 1 [] [eA, eH, eB, eC] = some ([eA], eH, [eB, eC]) ∧ CallOK true [eA] eH [eB, eC] ∧ CallGP true [eA] eH [eB, eC] := by
  decide
/-- … the model swaps it with exactly that edge and puts its successor at `x = 10` -/
example : let r := doHorizontal true (fun _ _ => 0) [eA, eH, eB, eC] 1
    r.evs = [.isect 1 1 2] ∧ r.ael.map (fun e => (e.id, e.currX, e.bot, e.top)) =
      [(0, 0, ⟨0, 9⟩, ⟨0, 0⟩), (2, 5, ⟨4, 9⟩, ⟨6, 1⟩), (1, 10, ⟨10, 5⟩, ⟨10, 0⟩), (3, 12, ⟨12, 9⟩, ⟨12, 0⟩)] := by decide
/-- two consecutive collinear horizontals (two turns of the outer loop with PreserveCollinear on, one after `TrimHorz` merged them
with it off — the harness's `UpdateEdgeIntoAEL` did that before the call): same crossing, same result -/
example : CallOK true [eA] eH2 [eB, eC] ∧ CallGP true [eA] eH2 [eB, eC] ∧
    (doHorizontal true (fun _ _ => 0) [eA, eH2, eB, eC] 1).evs = [.isect 1 1 2] ∧ runEnd eH2 = 10 := by decide
/-- a flat top walking right to left to its maxima pair, past one edge: one swap, then both leave -/
example : CallOK false [eB, eM, eA] eT [] ∧ CallGP false [eB, eM, eA] eT [] ∧
    (doHorizontal false (fun _ _ => 0) [eA, eM, eB, eT] 4).evs = [.isect 2 2 4, .removePair 1 5 4] ∧
    (doHorizontal false (fun _ _ => 0) [eA, eM, eB, eT] 4).ael.map (·.id) = [0, 2] := by decide

/-! ## 3b. the scanline-level loop and the next scanbeam -/

/-- **horzPhase_keeps_sorted.**  The loop `while (PopHorz(e)) DoHorizontal(*e);` over the stack `sel` (top first): if the AEL is sorted by
`curr_x` and every call meets `CallOK` on the AEL the calls before it left (`PhaseOK`, decidable), the loop returns without fault and
the AEL after it is sorted by `curr_x`. -/
theorem horzPhase_keeps_sorted (pc : Bool) (topx : HEdge → Int → Int) : ∀ (sel : List Nat) (ael : List HEdge), SortedX ael →
    PhaseOK pc topx ael sel → (horzPhase pc topx ael sel).fault = false ∧ SortedX (horzPhase pc topx ael sel).ael := by
  intro sel
  induction sel with
  | nil => intro ael hs _; exact ⟨rfl, hs⟩
  | cons hid sel ih =>
    intro ael hs ⟨hc, hp⟩
    unfold CallOKAt at hc
    cases hsp : splitAt hid [] ael with
    | none => rw [hsp] at hc; exact absurd hc (fun h => h)
    | some t =>
      obtain ⟨L, h, R⟩ := t
      rw [hsp] at hc
      simp only at hc
      have key : (doHorizontal pc topx ael hid).fault = false ∧ SortedX (doHorizontal pc topx ael hid).ael := by
        rcases hc with hc | hc
        · obtain ⟨a, b, _⟩ := doHorizontal_keeps_sorted pc topx ael hid L h R true hsp hc; exact ⟨a, b⟩
        · obtain ⟨a, b, _⟩ := doHorizontal_keeps_sorted pc topx ael hid L h R false hsp hc; exact ⟨a, b⟩
      obtain ⟨i1, i2⟩ := ih _ key.2 hp
      simp only [horzPhase]
      exact ⟨by rw [key.1, i1]; rfl, i2⟩

open Clipper.Lemmas.SweepOrder in
/-- a list of non-horizontal sweep edges sorted by their rounded x-coordinates at the scanline `y`, any two of them more than one
unit apart there, is strictly sorted by EXACT x at `y` -/
theorem sortedX_to_exact (edges : List SEdge) (cx : SEdge → Int → Int) (y : Int) (hup : AllUp edges) (hn : Near cx)
    (l : List HEdge) (hs : SortedX l) (hmem : ∀ e ∈ l, e.toS ∈ edges ∧ AliveAbove y e.toS ∧ e.currX = cx e.toS y)
    (hgp : l.Pairwise (fun a b => far y a.toS b.toS)) :
    (l.map HEdge.toS).Pairwise (fun a b => xlt y a b ∧ far y a b) := by
  rw [List.pairwise_map]
  refine (List.Pairwise.and_mem.1 (hs.and hgp)).imp ?_
  intro a b ⟨ha, hb, hle, hf⟩
  obtain ⟨a1, a2, a3⟩ := hmem a ha
  obtain ⟨b1, b2, b3⟩ := hmem b hb
  have ua := hup _ a1; have ub := hup _ b1
  have ra : a.toS.top.y ≤ y ∧ y ≤ a.toS.bot.y := by unfold AliveAbove at a2; omega
  have rb : b.toS.top.y ≤ y ∧ y ≤ b.toS.bot.y := by unfold AliveAbove at b2; omega
  refine ⟨?_, hf⟩
  rcases xlt_or_of_far ua ub hf with h | h
  · exact h
  · exfalso
    have := near_strict hn ub ua rb ra (xltBy1_of_far_of_xlt ub ua (far_symm hf) h)
    rw [← a3, ← b3] at this
    omega

/-- **beam_with_horizontals_keeps_sorted** (composition with `Props/C01Sweep.scanbeam_keeps_sorted`).  `edges` = the NON-horizontal
input edges (`AllUp`), `next`, `mins`, `valid`, `cx` as in the scanbeam model.  At the scanline `y` the engine holds the AEL `ael`
(horizontal edges standing at their `curr_x`) and the stack `sel` of horizontals.  ASSUMED: `ael` is sorted by `curr_x`, every call of
the loop meets `CallOK` (`PhaseOK`); and of the AEL the loop LEAVES (`res.ael`, computed by the model: decidable hypotheses): every
edge is a non-horizontal input edge that continues above `y`, not a bound of a local minimum of `y` if it starts there, standing at its
rounded x (`curr_x = cx · y`), any two more than one unit apart at `y` (general position on the scanline, now including the points
where the horizontals' successors start); `BeamOK` for the next scanbeam `[y', y]`.
PROVED: the loop is fault-free; what it leaves is exactly the hypothesis `AelAt` of `scanbeam_keeps_sorted` — strictly sorted by exact
x at `y`, all more than one unit apart —; hence the next scanbeam is sorted at all three stages: after `InsertLocalMinimaIntoAEL(y)` in
the exact order just above `y`, after `DoIntersections(y')` in the exact order just below `y'`, after `DoTopOfScanbeam(y')` as `AelAt`
says for `y'` (as far as that scanbeam model goes: its own top-of-scanbeam step and local minima are those without horizontal edges). -/
theorem beam_with_horizontals_keeps_sorted (edges : List SEdge) (valid : Int → SEdge → SEdge → Bool) (cx : SEdge → Int → Int)
    (next : SEdge → Option SEdge) (mins : Int → List (SEdge × SEdge)) (pc : Bool) (topx : HEdge → Int → Int)
    (ael : List HEdge) (sel : List Nat) (y y' : Int)
    (hup : AllUp edges) (hnx : NextOK edges next mins) (hn : Near cx) (hs : SortedX ael) (hph : PhaseOK pc topx ael sel)
    (hmem : ∀ e ∈ (horzPhase pc topx ael sel).ael,
      e.toS ∈ edges ∧ AliveAbove y e.toS ∧ (e.bot.y = y → e.toS ∉ boundsOf (mins y)) ∧ e.currX = cx e.toS y)
    (hgp : (horzPhase pc topx ael sel).ael.Pairwise (fun a b => far y a.toS b.toS))
    (hb : BeamOK edges valid next mins y y') :
    let res := horzPhase pc topx ael sel
    let a0 := res.ael.map HEdge.toS
    res.fault = false ∧ Clipper.Props.C01Sweep.AelAt edges mins y a0 ∧
    (let s := beamStep valid cx next mins a0 y y'
     (s.inserted.Pairwise (ltAbove y) ∧ (∀ e, e ∈ s.inserted ↔ e ∈ a0 ∨ e ∈ boundsOf (mins y))) ∧
     (s.afterIsect.Perm s.inserted ∧ s.afterIsect.Pairwise (ltBelow y')) ∧
     Clipper.Props.C01Sweep.AelAt edges mins y' s.afterTop) := by
  intro res a0
  obtain ⟨f1, f2⟩ := horzPhase_keeps_sorted pc topx sel ael hs hph
  have hat : Clipper.Props.C01Sweep.AelAt edges mins y a0 := by
    refine ⟨sortedX_to_exact edges cx y hup hn res.ael f2 (fun e he => ⟨(hmem e he).1, (hmem e he).2.1, (hmem e he).2.2.2⟩) hgp, ?_⟩
    intro e he
    obtain ⟨x, hx, rfl⟩ := List.mem_map.1 he
    exact ⟨(hmem x hx).1, (hmem x hx).2.1, (hmem x hx).2.2.1⟩
  refine ⟨f1, hat, ?_⟩
  obtain ⟨c1, ⟨c2, _, c3⟩, c4⟩ := Clipper.Props.C01Sweep.scanbeam_keeps_sorted edges valid cx next mins a0 y y' hup hnx hn hb hat
  exact ⟨c1, ⟨c2, c3⟩, c4⟩

/-! ## 3c. the whole sweep with horizontal edges (the replay model `Model/SweepHorzReplay.lean`) -/

/-- the AEL after every single call of the loop is sorted -/
theorem horzPhaseTrace_sorted (pc : Bool) (topx : HEdge → Int → Int) : ∀ (sel : List Nat) (ael : List HEdge), SortedX ael →
    PhaseOK pc topx ael sel → ∀ r ∈ horzPhaseTrace pc topx ael sel, r.fault = false ∧ SortedX r.ael := by
  intro sel
  induction sel with
  | nil => intro ael _ _ r hr; simp [horzPhaseTrace] at hr
  | cons hid sel ih =>
    intro ael hs ⟨hc, hp⟩ r hr
    have h1 := horzPhase_keeps_sorted pc topx [hid] ael hs ⟨hc, trivial⟩
    simp only [horzPhase, Bool.or_false, List.append_nil] at h1
    simp only [horzPhaseTrace, List.mem_cons] at hr
    rcases hr with rfl | hr
    · exact h1
    · exact ih _ h1.2 hp r hr

open Clipper.Model.SweepHorzReplay Clipper.Lemmas.SweepHorzReplay in
/-- **sweep_with_horizontals_keeps_sorted.**  The replay model of `ExecuteInternal` WITH horizontal edges
(`Model/SweepHorzReplay.sweepX`: `InsertLocalMinimaIntoAEL` with horizontal bounds and the regenerated `IsValidAelOrder`, the horizontal
phase, `DoIntersections`, `DoTopOfScanbeam` with pending maxima / `UpdateEdgeIntoAEL` / `TrimHorz`, the horizontal phase again — tied to
the engine by replaying whole real sweeps from the input paths alone, `SWEEPHORZ`).  ASSUMED: `TopX(e, top.y) = top.x` and `TopX` does not
read `curr_x` (true of the C++ expression); the two bounds of a local minimum are created at the same `curr_x`; every call of both
horizontal phases of every scanline meets `CallOK` on the AEL the model has at that point (`SweepPhasesOK`, decidable: the driver decides
it for every replayed sweep).  PROVED: at EVERY observable stage of the sweep — after the insertions, after every single `DoHorizontal`,
after `DoIntersections`, after `DoTopOfScanbeam`, on every scanline — the AEL is sorted by `curr_x` (horizontal edges standing at their
`curr_x`).  No hypothesis on the other steps: `IsValidAelOrder` never contradicts a strict `curr_x` comparison, `DoIntersections` is a
sort, `DoTopOfScanbeam` replaces edges in place at the same `curr_x`. -/
theorem sweep_with_horizontals_keeps_sorted (pc : Bool) (topx : HEdge → Int → Int) (info : Nat → Info)
    (mins : Int → List (HEdge × HEdge)) (ht : ∀ e : HEdge, topx e e.top.y = e.top.x)
    (hcx : ∀ (e : HEdge) (c y : Int), topx { e with currX := c } y = topx e y)
    (hmins : ∀ y, ∀ p ∈ mins y, p.1.currX = p.2.currX) :
    ∀ (ys : List Int) (ael : List HEdge), SortedX ael → SweepPhasesOK pc topx info mins ael ys →
      ∀ st ∈ sweepX pc topx info mins ael ys, SortedX st.ael := by
  intro ys
  induction ys with
  | nil => intro ael _ _ st hst; simp [sweepX] at hst
  | cons y0 rest ih =>
    intro ael hs hok st hst
    unfold SweepPhasesOK at hok
    obtain ⟨hB, hrest⟩ := hok
    have s1 : SortedX (insertMinsH info ael (mins y0)) := insertMinsH_sortedX info _ _ hs (hmins y0)
    have hphase : ∀ (a : List HEdge) (sel : List Nat), SortedX a → PhaseOK pc topx a sel →
        ∀ st ∈ phaseStages pc topx a sel, SortedX st.ael := by
      intro a sel ha hp st hst
      unfold phaseStages at hst
      obtain ⟨q, hq, rfl⟩ := List.mem_map.1 hst
      exact (horzPhaseTrace_sorted pc topx sel a ha hp q.1 (List.of_mem_zip hq).1).2
    cases rest with
    | nil =>
      simp only [sweepX, List.mem_cons] at hst
      rcases hst with rfl | hst
      · exact s1
      · exact hphase _ _ s1 hB st hst
    | cons y1 rest =>
      simp only at hrest
      obtain ⟨hA, hnext⟩ := hrest
      have s3 : SortedX (doIntersectionsH topx y1 (horzPhase pc topx (insertMinsH info ael (mins y0)) (selAfterInsert (mins y0))).ael) :=
        doIntersectionsH_sortedX _ _ _
      have s4 : SortedX (topOfBeamH pc topx y1 (doIntersectionsH topx y1 (horzPhase pc topx (insertMinsH info ael (mins y0)) (selAfterInsert (mins y0))).ael)) :=
        topOfBeamH_sortedX pc topx y1 _ (doIntersectionsH_topKey topx y1 _ ht (fun e c => hcx e c y1))
      have s5 := (horzPhase_keeps_sorted pc topx _ _ s4 hA).2
      rw [sweepX_cons_cons] at hst
      simp only [List.mem_cons, List.mem_append] at hst
      rcases hst with h0 | hst
      · rcases h0 with h1 | rfl | rfl | hst
        · rcases h1 with rfl | hst
          · exact s1
          · exact hphase _ _ s1 hB st hst
        · exact s3
        · exact s4
        · exact hphase _ _ s4 hA st hst
      · exact ih _ s5 hnext st hst

/-! ### non-vacuity of the whole-sweep and composition theorems -/

section Examples
open Clipper.Model.SweepHorzReplay Clipper.Model.SweepOrder

/-- a square (two horizontal edges: a flat bottom at a local minimum, a flat top at a local maximum) and a triangle through it -/
private def sq : Path := [⟨0, 0⟩, ⟨100, 0⟩, ⟨100, 100⟩, ⟨0, 100⟩]
private def tr : Path := [⟨20, 110⟩, ⟨45, -20⟩, ⟨130, 90⟩]
private def exMs := allMins dxLtE (build [sq] [tr]).lms

/-- the hypotheses of `sweep_with_horizontals_keeps_sorted` hold for this input (`TopX` = the exact instance `topXE`) … -/
theorem square_triangle_hyp :
    SweepPhasesOK true topXE (infoOf exMs) (minsOf exMs) [] (build [sq] [tr]).ys ∧
      (∀ y ∈ (build [sq] [tr]).ys, ∀ p ∈ minsOf exMs y, p.1.currX = p.2.currX) := by decide +kernel

/-- … and this is the sweep the model computes: per stage the AEL by `Active` identity (`2 * slot + (wind_dx > 0)`; 6, 7 = the bounds of the
square's local minimum `(0,100)`, 8, 9 = those of the triangle's `(20,110)`) and the number of events.  The flat bottom `H 6` (a bound of the
local minimum, heading right) walks past the two triangle edges; the flat top `H 7` walks right past them to its maxima pair 6: two swaps
and the removal -/
example : (replay true topXE dxLtE [sq] [tr]).map (fun st => match st with
      | .ins y a => ("I", y, a, 0) | .horz h a e => ("H", (h : Int), a, e.length) | .isect y a => ("X", y, a, 0) | .top y a => ("T", y, a, 0)) =
    [("I", 110, [9, 8], 0), ("X", 100, [9, 8], 0), ("T", 100, [9, 8], 0),
     ("I", 100, [7, 6, 9, 8], 0), ("H", 6, [7, 9, 8, 6], 2),
     ("X", 90, [7, 9, 6, 8], 0), ("T", 90, [7, 9, 6, 8], 0), ("I", 90, [7, 9, 6, 8], 0),
     ("X", 0, [7, 9, 8, 6], 0), ("T", 0, [7, 9, 8, 6], 0), ("H", 7, [9, 8], 3), ("I", 0, [9, 8], 0),
     ("X", -20, [9, 8], 0), ("T", -20, [], 0), ("I", -20, [], 0)] := by decide +kernel

/-- the AEL of the first examples after the horizontal `eH` has been processed, as sweep edges: the universe `edges` of the next scanbeam -/
private def exEdges : List SEdge := [eA.toS, eB.toS, ⟨1, ⟨10, 5⟩, ⟨10, 0⟩⟩, eC.toS]

/-- every hypothesis of `beam_with_horizontals_keeps_sorted` (but `Near rhe`, which is `rhe_near`) holds for the scanline `y = 5` with the
AEL `[eA, eH, eB, eC]`, the stack `[1]` and the next scanbeam `[1, 5]` -/
example : AllUp exEdges ∧ NextOK exEdges (fun _ => none) (fun _ => []) ∧ SortedX [eA, eH, eB, eC] ∧
    PhaseOK true topXE [eA, eH, eB, eC] [1] ∧
    (∀ e ∈ (horzPhase true topXE [eA, eH, eB, eC] [1]).ael,
      e.toS ∈ exEdges ∧ AliveAbove 5 e.toS ∧ (e.bot.y = 5 → e.toS ∉ boundsOf ((fun _ => []) (5 : Int))) ∧ e.currX = rhe e.toS 5) ∧
    (horzPhase true topXE [eA, eH, eB, eC] [1]).ael.Pairwise (fun a b => far 5 a.toS b.toS) ∧
    BeamOK exEdges (validGen rhe default) (fun _ => none) (fun _ => []) 5 1 := by decide +kernel

end Examples

/-! ## 4. the bookkeeping model accepts the derived events -/

/-- a labelling of the `Active`s by identity: (`local_min->polytype`, `wind_dx`) — the fields of `Model/Ael` that never change -/
abbrev ALab := Nat → PathType × Int

/-- the key (path type, open flag, `wind_dx`) of an `Active` under a labelling (closed paths) -/
def kOf (lab : ALab) (e : HEdge) : PathType × Bool × Int := ((lab e.id).1, false, (lab e.id).2)

/-- the bookkeeping state `l` follows the AEL `ael`: same length, same order, same keys (`Tracks` of `Model/SweepEvents`) -/
def TracksH (lab : ALab) (l : Ael) (ael : List HEdge) : Prop := l.map Clipper.Model.SweepEvents.key = ael.map (kOf lab)

instance (lab : ALab) (l : Ael) (ael : List HEdge) : Decidable (TracksH lab l ael) := by unfold TracksH; infer_instance

/-- the maxima pair of `h` belongs to the same path and runs the other way -/
def PairLab (lab : ALab) (d : Bool) (L : List HEdge) (h : HEdge) (R : List HEdge) : Prop :=
  ∀ p ∈ ahead d L R, some p.vtop = currYMaximaVertex h → (lab p.id).1 = (lab h.id).1 ∧ (lab p.id).2 = -(lab h.id).2
instance (lab : ALab) (d : Bool) (L : List HEdge) (h : HEdge) (R : List HEdge) : Decidable (PairLab lab d L h R) := by
  unfold PairLab; infer_instance

open Clipper.Model.SweepEvents (swapAt applySwaps key) in
open Clipper.Lemmas.C01Region in
/-- **doHorizontal_events_accepted.**  Hypotheses: `CallOK`; the bookkeeping state `l` of `Model/Ael.lean` follows the AEL under a
labelling of the `Active`s (`TracksH`); the maxima pair, if the run ends in a maximum, has the same path type and the opposite
`wind_dx` (`PairLab`); `l` satisfies the invariant `Inv` of `Props/C01.lean` (stored wind counts = encodings of the winding sums to
the left, hot ⇔ contributing); the clip type is not `NoClip`.  Then the events DERIVED by the model of `DoHorizontal` — one
`intersect` per edge passed, at the position the geometry dictates, then `removePair` — are all accepted by `Model.run` (no position
out of range, the removal meets a maxima pair), the state after them again follows the AEL after the call, and `Inv` holds: with
`coverage_1d`, the hot edges still delimit exactly the region `inR ct fr` on the scanline. -/
theorem doHorizontal_events_accepted (cfg : Cfg) (hct : cfg.ct ≠ .noClip) (pc : Bool) (topx : HEdge → Int → Int) (ael : List HEdge)
    (hid : Nat) (L : List HEdge) (h : HEdge) (R : List HEdge) (d : Bool) (hsp : splitAt hid [] ael = some (L, h, R))
    (ok : CallOK d L h R) (lab : ALab) (l : Ael) (htr : TracksH lab l ael) (hpl : PairLab lab d L h R) (hinv : Inv cfg l) :
    ∃ l', runEvents cfg l (doHorizontal pc topx ael hid).evs = some l' ∧ Inv cfg l' ∧
      TracksH lab l' (doHorizontal pc topx ael hid).ael := by
  obtain ⟨_, _, P, Q, hpq, _, hshape⟩ := doHorizontal_keeps_sorted pc topx ael hid L h R d hsp ok
  obtain ⟨hz, _⟩ := splitAt_spec hid ael [] L h R hsp
  simp only [List.reverse_nil, List.nil_append] at hz
  unfold TracksH at htr ⊢
  unfold runEvents
  -- the swaps, on the AEL itself
  have hsw : applySwaps ((List.range P.length).map (fun j => if d then L.length + j else L.length - 1 - j)) ael =
      some (if d then L.reverse ++ P ++ h :: Q else Q.reverse ++ h :: (P.reverse ++ R)) := by
    rw [hz]; unfold zip
    cases d
    · simp only [ahead, Bool.false_eq_true, if_false] at hpq ⊢
      subst hpq
      have := applySwaps_walk_r2l P Q.reverse h R (P ++ Q).length (by simp; omega)
      simpa using this
    · simp only [ahead, if_true] at hpq ⊢
      subst hpq
      exact applySwaps_walk_l2r P L.reverse h Q L.length (by simp)
  have hsw' := congrArg (Option.map (List.map (kOf lab))) hsw
  rw [← applySwaps_map, ← htr] at hsw'
  simp only [Option.map_some] at hsw'
  obtain ⟨l1, hr1, hk1⟩ := run_intersects cfg _ l _ hsw'
  rw [← walkEvents_ops d L.length h.id P] at hr1
  rcases hshape with ⟨hf, a1, a2, a3, _⟩ | ⟨p, t, a1, a2, a3, a4⟩
  · refine ⟨l1, by rw [a2]; exact hr1, Clipper.Props.C01.inv_run cfg hct _ l l1 hinv hr1, ?_⟩
    rw [hk1, a1]
    have hkf : kOf lab hf = kOf lab h := by simp [kOf, a3]
    cases d <;> simp [aelSurv, hkf]
  · have hp := hpl p (by rw [hpq, a1]; simp) a2
    subst a1
    have hrm : ∃ l2, Clipper.Model.removePair (if d then L.length + P.length else t.length) l1 = some l2 ∧
        l2.map key = (aelMax d L R P t).map (kOf lab) := by
      cases d
      · simp only [Bool.false_eq_true, if_false] at hk1 ⊢
        have := removePair_tracks t.length l1 (t.reverse.map (kOf lab)) ((P.reverse ++ R).map (kOf lab)) (lab p.id).1 false (lab p.id).2
          (by rw [hk1]; simp [kOf, hp.1, hp.2]) (by simp)
        obtain ⟨l2, e1, e2⟩ := this
        exact ⟨l2, e1, by rw [e2]; simp [aelMax]⟩
      · simp only [if_true] at hk1 ⊢
        have := removePair_tracks (L.length + P.length) l1 ((L.reverse ++ P).map (kOf lab)) (t.map (kOf lab)) (lab h.id).1 false (lab h.id).2
          (by rw [hk1]; simp [kOf, hp.1, hp.2]) (by simp)
        obtain ⟨l2, e1, e2⟩ := this
        exact ⟨l2, e1, by rw [e2]; simp [aelMax]⟩
    obtain ⟨l2, e1, e2⟩ := hrm
    have hrun : Clipper.Model.run cfg l ((doHorizontal pc topx ael hid).evs.map Ev.toOp) = some l2 := by
      rw [a4, List.map_append, run_append, hr1]
      simp only [Option.bind_some, List.map_cons, List.map_nil, Clipper.Model.run]
      have : Clipper.Model.step cfg l1 (evMax d L P t h.id p.id).toOp = some l2 := by
        cases d
        · simpa [evMax, Ev.toOp, Clipper.Model.step] using e1
        · simpa [evMax, Ev.toOp, Clipper.Model.step] using e1
      rw [this]
    exact ⟨l2, hrun, Clipper.Props.C01.inv_run cfg hct _ l l2 hinv hrun, by rw [e2, a3]⟩

/-- the hypotheses of `horizontal_phase_region`: for every call of the loop, on the AEL the calls before it left, `CallOK` in one of
the two directions and `PairLab` -/
def PhaseLabOK (lab : ALab) (pc : Bool) (topx : HEdge → Int → Int) : List HEdge → List Nat → Prop
  | _, [] => True
  | ael, hid :: sel =>
    (∃ L h R d, splitAt hid [] ael = some (L, h, R) ∧ CallOK d L h R ∧ PairLab lab d L h R) ∧
      PhaseLabOK lab pc topx (doHorizontal pc topx ael hid).ael sel

open Clipper.Lemmas.C01Region in
/-- **horizontal_phase_region.**  The whole loop `while (PopHorz(e)) DoHorizontal(*e);`: under `PhaseLabOK`, from a bookkeeping state
that follows the AEL and satisfies `Inv`, the concatenated derived events of all calls are accepted by `Model.run`, and the state
after the loop follows the AEL after the loop and satisfies `Inv` (every closed edge stores the encodings of the winding sums to its
left and is hot exactly when it is contributing: `coverage_1d` applies on the scanline after the horizontal phase). -/
theorem horizontal_phase_region (cfg : Cfg) (hct : cfg.ct ≠ .noClip) (pc : Bool) (topx : HEdge → Int → Int) (lab : ALab) :
    ∀ (sel : List Nat) (ael : List HEdge) (l : Ael), PhaseLabOK lab pc topx ael sel → TracksH lab l ael → Inv cfg l →
      ∃ l', runEvents cfg l (horzPhase pc topx ael sel).evs = some l' ∧ Inv cfg l' ∧ TracksH lab l' (horzPhase pc topx ael sel).ael := by
  intro sel
  induction sel with
  | nil => intro ael l _ htr hinv; exact ⟨l, rfl, hinv, htr⟩
  | cons hid sel ih =>
    intro ael l ⟨⟨L, h, R, d, hsp, ok, hpl⟩, hrest⟩ htr hinv
    obtain ⟨l1, r1, i1, t1⟩ := doHorizontal_events_accepted cfg hct pc topx ael hid L h R d hsp ok lab l htr hpl hinv
    obtain ⟨l2, r2, i2, t2⟩ := ih _ l1 hrest t1 i1
    refine ⟨l2, ?_, i2, t2⟩
    unfold runEvents at r1 r2 ⊢
    simp only [horzPhase, List.map_append]
    rw [run_append, r1]
    exact r2

/-- non-vacuity of `doHorizontal_events_accepted`: the flat top of the examples above under Union / NonZero.  Subject edges; the flat
top `eT` (`wind_dx = 1`) and its pair `eM` (`wind_dx = -1`) bound the filled region, `eB` runs inside it -/
example : let lab : ALab := fun i => if i = 4 then (.subject, 1) else if i = 5 then (.subject, -1) else if i = 0 then (.clip, -1) else (.clip, 1)
    let l : Ael := [⟨.clip, false, -1, -1, 0, true⟩, ⟨.subject, false, -1, -1, -1, false⟩, ⟨.clip, false, 1, -1, -1, false⟩, ⟨.subject, false, 1, -1, 0, true⟩]
    TracksH lab l [eA, eM, eB, eT] ∧ PairLab lab false [eB, eM, eA] eT [] ∧ checkInv ⟨.union, .nonZero⟩ l = true ∧
      runEvents ⟨.union, .nonZero⟩ l (doHorizontal false (fun _ _ => 0) [eA, eM, eB, eT] 4).evs =
        some [⟨.clip, false, -1, -1, 0, true⟩, ⟨.clip, false, 1, -1, 0, true⟩] := by
  decide

end Clipper.Props.C01Horz
