/-
C11, success clause: "`Execute` returns true for every set of paths and every clip type and fill rule".

In `clipper.engine.cpp` the *only* assignment `succeeded_ = false` during a sweep is in `AddLocalMaxPoly`: two closed hot edges that meet at a
local maximum (or at a crossing treated as one, or at a join) are both the front edge or both the back edge of their output records.
`Model/AelSides.lean` models the bookkeeping that decides this (`outrec`, front/back, `join_with`, on top of the winding/hotness model of
C01) with that event as a *fault value*; two more fault values stand for the neighbouring ways the same code could misbehave
(`IsFront` on a null `outrec`; `JoinOutrecPaths` called by `CheckJoinLeft/Right` on two edges of the same side).

Proved here, for **every** event list from the empty AEL (any number of edges, any positions, any interleaving of closed subject / clip
and open edges, joins and splits anywhere the model accepts them), every clip type except `NoClip` (which never sweeps) and every fill rule:

* `sinv_step`, `sinv_reachable`  — the side invariant `SInv` holds after every accepted event: the C01 invariant on the erased list; a closed
  edge is (logically) hot iff it owns a record or is joined, never both; joined edges are adjacent (`Right`,`Left`) pairs; and
  **reading the closed edges that own a record from left to right, `IsFront` is true, false, true, false, …** (the `k`-th hot edge is a
  front edge iff `k` is even: an outer contour's left edge and a hole's right edge are front edges);
* `execute_never_fails`          — no event list reaches a fault: `AddLocalMaxPoly` never sees two fronts or two backs, so `succeeded_` stays true;
* `erase_step`                   — forgetting the new fields turns each step of this model into the step of the C01 model (`Model.step`),
  so nothing proved about the old model is lost and the old trace tie `AELVERIFY` is a projection of the new one `AELSIDES`;
* `adjacent_hot_sides_differ`    — the classical statement: two adjacent closed edges that own records are never on the same side.

What the theorems do **not** cover (trusted base of the tie, checked on every trace by `harness/C11sides.cpp`):
the event list of a real sweep is one the model accepts (positions in range, maxima pairs adjacent, no local minimum inserted between the
two edges of a joined pair), and the pointer structure `outrec->front_edge/back_edge` is consistent with the edge-centric `(id, front)`
representation (`checkRecs`, and the C++-side pointer check in `harness/aelsides.h`).
-/
import ClipperVerif.Lemmas.AelSides
namespace Clipper.Props.C11Sides
open Clipper Clipper.Model

/-! ## (1) the executable checker decides the invariant -/

/-- `Model.checkSInv` (run by the driver after every replayed event of a real sweep) decides `SInv` -/
theorem checkSInv_iff (cfg : Cfg) (s : SState) : checkSInv cfg s = true ↔ SInv cfg s := by
  unfold checkSInv SInv
  simp only [Bool.and_eq_true, C01.checkInv_iff]
  constructor
  · intro ⟨⟨⟨h1, h2⟩, h3⟩, h4⟩; exact ⟨h1, h2, h3, h4⟩
  · intro ⟨h1, h2, h3, h4⟩; exact ⟨⟨⟨h1, h2⟩, h3⟩, h4⟩

/-! ## (2) every event keeps the invariant and none faults -/

/-- one event: accepted ⇒ the invariant holds again (and the representation invariant `RecsOK` is carried along); and it is never a fault -/
theorem stepS_spec (cfg : Cfg) (hct : cfg.ct ≠ .noClip) (s : SState) (op : SOp) (h : SInv cfg s) :
    StepOK (stepS cfg s op) (fun s' => SInv cfg s' ∧ Recs s s') := by
  obtain ⟨hinv, hside⟩ := h
  have base : ∀ (o : Op) (r : Except Err SState),
      StepOK r (fun s' => Side s'.ael ∧ step cfg (erase s.ael) o = some (erase s'.ael) ∧ Recs s s') →
      StepOK r (fun s' => SInv cfg s' ∧ Recs s s') := by
    intro o r hr
    refine stepOK_mono _ _ _ hr ?_
    intro s' ⟨h1, h2, h3⟩
    exact ⟨⟨C01.inv_step cfg hct _ _ o hinv h2, h1⟩, h3⟩
  have same : ∀ (r : Except Err SState),
      StepOK r (fun s' => Side s'.ael ∧ erase s'.ael = erase s.ael ∧ Recs s s') → StepOK r (fun s' => SInv cfg s' ∧ Recs s s') := by
    intro r hr
    refine stepOK_mono _ _ _ hr ?_
    intro s' ⟨h1, h2, h3⟩
    exact ⟨⟨by rw [h2]; exact hinv, h1⟩, h3⟩
  cases op with
  | base o =>
    cases o with
    | insertPair pos pt isOpen dxLeft => exact base (.insertPair pos pt isOpen dxLeft) _ (insertPairS_spec cfg pos pt isOpen dxLeft s hside)
    | insertOne pos pt dx => exact base (.insertOne pos pt dx) _ (insertOneS_spec cfg pos pt dx s hside)
    | intersect i => exact base (.intersect i) _ (intersectS_spec cfg i s hside)
    | removePair i => exact base (.removePair i) _ (removePairS_spec cfg i s hside hinv)
    | removeOne i => exact base (.removeOne i) _ (removeOneS_spec i s hside)
  | join i => exact same _ (joinS_spec i s hside)
  | split i => exact same _ (splitS_spec i s hside)

/-- **sinv_step.** Every accepted event preserves the side invariant. -/
theorem sinv_step (cfg : Cfg) (hct : cfg.ct ≠ .noClip) (s s' : SState) (op : SOp)
    (h : SInv cfg s) (hs : stepS cfg s op = .ok s') : SInv cfg s' := by
  have := stepS_spec cfg hct s op h
  rw [hs] at this; exact this.1

/-- **step_never_faults.** From a state satisfying the invariant no event makes `AddLocalMaxPoly` see two front edges or two back edges
(`sidesEqual`, the only way `Execute` returns false), makes `IsFront`/`Split` dereference a null pointer (`nullDeref`), or makes
`CheckJoinLeft/Right` join two edges of the same side (`joinSameSide`). -/
theorem step_never_faults (cfg : Cfg) (hct : cfg.ct ≠ .noClip) (s : SState) (op : SOp) (h : SInv cfg s) (f : Fault) :
    stepS cfg s op ≠ .error (.fault f) := by
  intro hs
  have := stepS_spec cfg hct s op h
  rw [hs] at this; exact this

theorem runS_spec (cfg : Cfg) (hct : cfg.ct ≠ .noClip) (ops : List SOp) : ∀ (s : SState), SInv cfg s →
    StepOK (runS cfg s ops) (fun s' => SInv cfg s' ∧ Recs s s') := by
  induction ops with
  | nil => intro s h; exact ⟨h, fun hr => hr⟩
  | cons op ops ih =>
    intro s h
    have h1 := stepS_spec cfg hct s op h
    simp only [runS]
    cases hs : stepS cfg s op with
    | ok s1 =>
      rw [hs] at h1
      exact stepOK_mono _ _ _ (ih s1 h1.1) (fun s' ⟨k1, k2⟩ => ⟨k1, fun hr => k2 (h1.2 hr)⟩)
    | error e =>
      rw [hs] at h1
      cases e with
      | reject => trivial
      | fault f => exact h1.elim

theorem sinv_empty (cfg : Cfg) : SInv cfg SState.empty :=
  ⟨by simp [SState.empty, erase, Model.Inv, InvFrom], by simp [SState.empty, Side, joinOKFrom, altFrom]⟩

/-- **sinv_reachable.** After every sequence of events from the empty AEL the side invariant holds; in particular the hot closed edges,
read from left to right, are alternately front and back edges of their output records, starting with a front edge. -/
theorem sinv_reachable (cfg : Cfg) (hct : cfg.ct ≠ .noClip) (ops : List SOp) (s : SState)
    (hr : runS cfg SState.empty ops = .ok s) : SInv cfg s := by
  have := runS_spec cfg hct ops SState.empty (sinv_empty cfg)
  rw [hr] at this; exact this.1

/-- **recs_reachable.** The edge-centric representation stays faithful: in every reachable state all record indices in use are below the
number of records created, and no two edges claim the same side (front / back) of the same record — i.e. `outrec->front_edge` and
`outrec->back_edge` are well-defined single edges, which is what the C++ pointer structure provides by construction. -/
theorem recs_reachable (cfg : Cfg) (hct : cfg.ct ≠ .noClip) (ops : List SOp) (s : SState)
    (hr : runS cfg SState.empty ops = .ok s) : RecsOK s.next s.ael := by
  have := runS_spec cfg hct ops SState.empty (sinv_empty cfg)
  rw [hr] at this
  exact this.2 (by intro k; simp [SState.empty, cnt])

/-- `Model.checkRecs` (run by the driver after every replayed event) decides `RecsOK` -/
theorem checkRecs_decides (s : SState) : checkRecs s = true ↔ RecsOK s.next s.ael := checkRecs_iff s

/-- **execute_never_fails.** No sequence of events from the empty AEL — any length, any positions, any clip type other than `NoClip`,
any fill rule — reaches the state in which `AddLocalMaxPoly` sets `succeeded_ = false` (nor one of the two neighbouring faults):
a sweep can be rejected by the model as ill-formed, it can never fail. -/
theorem execute_never_fails (cfg : Cfg) (hct : cfg.ct ≠ .noClip) (ops : List SOp) (f : Fault) :
    runS cfg SState.empty ops ≠ .error (.fault f) := by
  intro hr
  have := runS_spec cfg hct ops SState.empty (sinv_empty cfg)
  rw [hr] at this; exact this

/-! ## (3) the new model refines the C01 model -/

/-- **erase_step.** Forgetting `join_with` and the output records, an accepted event of this model is the same event of `Model.step`
(and `join` / `split` are invisible there). -/
theorem erase_step (cfg : Cfg) (s s' : SState) (op : SOp) (h : SInv cfg s) (hs : stepS cfg s op = .ok s') :
    match op with
    | .base o => step cfg (erase s.ael) o = some (erase s'.ael)
    | .join _ => erase s'.ael = erase s.ael
    | .split _ => erase s'.ael = erase s.ael := by
  obtain ⟨hinv, hside⟩ := h
  cases op with
  | base o =>
    cases o with
    | insertPair pos pt isOpen dxLeft =>
      have := insertPairS_spec cfg pos pt isOpen dxLeft s hside
      simp only [stepS] at hs; rw [hs] at this; exact this.2.1
    | insertOne pos pt dx =>
      have := insertOneS_spec cfg pos pt dx s hside
      simp only [stepS] at hs; rw [hs] at this; exact this.2.1
    | intersect i =>
      have := intersectS_spec cfg i s hside
      simp only [stepS] at hs; rw [hs] at this; exact this.2.1
    | removePair i =>
      have := removePairS_spec cfg i s hside hinv
      simp only [stepS] at hs; rw [hs] at this; exact this.2.1
    | removeOne i =>
      have := removeOneS_spec i s hside
      simp only [stepS] at hs; rw [hs] at this; exact this.2.1
  | join i =>
    have := joinS_spec i s hside
    simp only [stepS] at hs; rw [hs] at this; exact this.2.1
  | split i =>
    have := splitS_spec i s hside
    simp only [stepS] at hs; rw [hs] at this; exact this.2.1

/-! ## (4) the classical statement -/

/-- **adjacent_hot_sides_differ.** In every reachable state two adjacent closed edges that both own an output record are a front edge and a
back edge — the pair `AddLocalMaxPoly`, `CheckJoinLeft/Right` and `SwapOutrecs` may be handed. -/
theorem adjacent_hot_sides_differ (cfg : Cfg) (hct : cfg.ct ≠ .noClip) (ops : List SOp) (s : SState)
    (hr : runS cfg SState.empty ops = .ok s) (pre rest : List SEdge) (a b : SEdge) (ra rb : Rec)
    (hl : s.ael = pre ++ a :: b :: rest) (ha : a.e.isOpen = false) (hb : b.e.isOpen = false)
    (hra : a.orec = some ra) (hrb : b.orec = some rb) : ra.front ≠ rb.front := by
  have hs := (sinv_reachable cfg hct ops s hr).side
  have hl' : s.ael = pre ++ [a, b] ++ rest := by simp [hl]
  rw [hl'] at hs
  obtain ⟨p, q, p2, q2, _, _, _, hq2, _⟩ := (side_ctx _ _ _).mp hs
  rw [altRun_two, tracked_closed a ha, tracked_closed b hb, hra, hrb] at hq2
  simp only [Option.map_some, alt2] at hq2
  revert hq2; cases ra.front <;> cases rb.front <;> cases q <;> simp

/-- **front_iff_unfilled_left.** The geometric meaning of the two sides.  In every reachable state, for a closed edge `x` that owns an output
record: `x` is the record's *front* edge **iff** the gap immediately to its left is *outside* the result region `inR ct fr Ws Wc`
(`Ws`, `Wc` the subject / clip winding sums of the edges to its left) — and then, `x` being hot, i.e. a boundary of the region
(C01 `coverage_1d`), the gap to its right is inside.  So a front edge has the filled region on its right (the left edge of an outer
contour, the right edge of a hole), a back edge has it on its left. -/
theorem front_iff_unfilled_left (cfg : Cfg) (hct : cfg.ct ≠ .noClip) (ops : List SOp) (s : SState)
    (hr : runS cfg SState.empty ops = .ok s) (pre rest : List SEdge) (x : SEdge) (r : Rec)
    (hl : s.ael = pre ++ x :: rest) (hx : x.e.isOpen = false) (hrx : x.orec = some r) :
    r.front = !inR cfg.ct cfg.fr (sumT .subject (erase pre)) (sumT .clip (erase pre)) := by
  obtain ⟨hinv, hside⟩ := sinv_reachable cfg hct ops s hr
  have hl' : s.ael = pre ++ [x] ++ rest := by simp [hl]
  rw [hl'] at hside
  obtain ⟨p, q, p2, q2, hp, hq, hp2, hq2, _, _, l1, l2, _⟩ := (side_ctx _ _ _).mp hside
  -- `x` owns a record, hence is not joined, hence the prefix does not end inside a joined pair
  have hxj : x.join = .none := by
    simp [localOK, hx, hrx] at l2; exact l2.2
  have hpf : p = false := by
    cases p <;> simp [joinRun, hxj] at hp2 ⊢
  subst hpf
  have hfq : r.front = q := by
    simp only [altRun, tracked, hx, hrx, Bool.false_eq_true, if_false, Option.map_some] at hq2
    split at hq2
    next h => exact h
    next => cases hq2
  have hpar := hot_parity pre false true false q hp hq l1
  have hcov := C01.coverage_1d cfg (erase s.ael) hinv pre.length
  have htake : (erase s.ael).take pre.length = erase pre := by
    rw [hl]; simp [erase]
  rw [htake] at hcov
  rw [hcov, hfq]
  have : decide (hotCount (erase pre) % 2 = 1) = (hotCount (erase pre) % 2 == 1) := by
    cases h : (hotCount (erase pre) % 2 == 1) <;> simp at h ⊢ <;> exact h
  rw [this, hpar]
  cases q <;> rfl

/-! ## (5) non-vacuity -/

/-- the fault of an outcome, if it is one -/
def faultOf : Except Err SState → Option Fault
  | .error (.fault f) => some f
  | _ => none
def rejected : Except Err SState → Bool
  | .error .reject => true
  | _ => false

/-- two overlapping squares (subject x∈[0,10], clip x∈[5,15], see `Props/C01.lean`), Intersection / NonZero, to the end of the sweep -/
def squares : List SOp :=
  [ .base (.insertPair 0 .subject false (-1)),   -- S- S+
    .base (.insertPair 1 .clip false (-1)),      -- S- C- C+ S+
    .base (.intersect 2),                        -- S- C- S+ C+
    .base (.intersect 0),                        -- subject ends first: S- passes C-
    .base (.removePair 1),                       -- S-,S+ leave
    .base (.removePair 0) ]                      -- C-,C+ leave

example : (runS ⟨.intersection, .nonZero⟩ SState.empty squares).toOption.map (fun s => (s.ael.length, s.next)) = some (0, 1) := by decide
example : (runS ⟨.union, .nonZero⟩ SState.empty squares).toOption.map (fun s => (s.ael.length, s.next)) = some (0, 1) := by decide
/-- Union after three events: one record (index 0) whose front edge is the subject's left edge and whose back edge, after `SwapOutrecs` at the
crossing, is the clip's right edge -/
example : (runS ⟨.union, .nonZero⟩ SState.empty (squares.take 3)).toOption.map (fun s => s.ael.map (·.orec)) =
    some [some ⟨0, true⟩, none, none, some ⟨0, false⟩] := by decide
/-- Xor / EvenOdd after the crossing (`AddLocalMaxPoly` + `AddLocalMinPoly`, record 1 has been closed): two regions side by side, each with its left
edge as front edge -/
example : (runS ⟨.xor, .evenOdd⟩ SState.empty (squares.take 3)).toOption.map (fun s => s.ael.map (·.orec)) =
    some [some ⟨0, true⟩, some ⟨0, false⟩, some ⟨2, true⟩, some ⟨2, false⟩] := by decide
example : (runS ⟨.xor, .evenOdd⟩ SState.empty (squares.take 3)).toOption.map (checkSInv ⟨.xor, .evenOdd⟩) = some true := by decide

/-- a joined pair: two subject squares sharing the edge x = 10 (Union): the shared edges are inserted hot, `CheckJoinLeft` joins them
(records merge into the lower index), `Split` gives them a fresh record again with sides taken from the hot edge to the left -/
def sharedEdge : List SOp :=
  [ .base (.insertPair 0 .subject false (-1)),   -- A- A+
    .base (.insertPair 2 .subject false (-1)),   -- A- A+ B- B+
    .join 1,                                     -- A+,B- joined
    .split 2 ]                                   -- Split(B-)
example : (runS ⟨.union, .nonZero⟩ SState.empty (sharedEdge.take 3)).toOption.map (fun s => s.ael.map (fun x => (x.join, x.orec))) =
    some [(.none, some ⟨0, true⟩), (.right, none), (.left, none), (.none, some ⟨0, false⟩)] := by decide
example : (runS ⟨.union, .nonZero⟩ SState.empty sharedEdge).toOption.map (fun s => s.ael.map (fun x => (x.join, x.orec))) =
    some [(.none, some ⟨0, true⟩), (.none, some ⟨2, false⟩), (.none, some ⟨2, true⟩), (.none, some ⟨0, false⟩)] := by decide
example : (runS ⟨.union, .nonZero⟩ SState.empty sharedEdge).toOption.map (checkSInv ⟨.union, .nonZero⟩) = some true := by decide

/-- the fault value is not decoration: from a state that violates the alternation (two front edges meeting at a maximum) the model reports
exactly the event that makes `Execute` return false … -/
def twoFronts : SState :=
  { ael := [⟨⟨.subject, false, -1, -1, 0, true⟩, .none, some ⟨0, true⟩⟩, ⟨⟨.subject, false, 1, -1, 0, true⟩, .none, some ⟨1, true⟩⟩], next := 2 }
example : faultOf (stepS ⟨.union, .nonZero⟩ twoFronts (.base (.removePair 0))) = some .sidesEqual := by decide
example : faultOf (stepS ⟨.union, .nonZero⟩ twoFronts (.join 0)) = some .joinSameSide := by decide
/-- … and the checker rejects that state (so a real trace passing through it would be reported before the fault) -/
example : checkSInv ⟨.union, .nonZero⟩ twoFronts = false := by decide
/-- one edge of a maxima pair hot, the other cold: `IsFront` on a null `outrec` -/
example : faultOf (stepS ⟨.union, .nonZero⟩
    { ael := [⟨⟨.subject, false, -1, -1, 0, true⟩, .none, some ⟨0, true⟩⟩, ⟨⟨.subject, false, 1, -1, 0, false⟩, .none, none⟩], next := 1 }
    (.base (.removePair 0))) = some .nullDeref := by decide
/-- the hypothesis `ct ≠ NoClip` is needed: under `NoClip` (which the engine never sweeps) the invariant is lost at the first crossing of
different path types -/
example : (runS ⟨.noClip, .nonZero⟩ SState.empty (squares.take 3)).toOption.map (checkSInv ⟨.noClip, .nonZero⟩) = some false := by decide
/-- an insertion between the two edges of a joined pair is rejected, not silently accepted -/
example : rejected (runS ⟨.union, .nonZero⟩ SState.empty (sharedEdge.take 3 ++ [.base (.insertPair 2 .clip false 1)])) = true := by decide

end Clipper.Props.C11Sides
