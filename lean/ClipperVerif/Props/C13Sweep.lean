/-
C13 — REPRESENTATION INDEPENDENCE AND SET ALGEBRA OF THE MODEL SWEEP  (corollaries of `Props/C01Region.scanline_region`).

`Props/C13.lean`, `Props/C13Spec.lean` prove C13's invariances for the SPEC (`wind_perm`, `wind_rotate`, `wind_dup`, `wind_closing`,
`wind_reverse`, `wind_translate`, `inR_symm`, `inR_neg`, `xor_eq_union_minus_inter`, `diff_inter_partition`).  `Props/C01Region.lean`
proves that the model sweep (`Model/SweepOrder.lean`, `Model/SweepEvents.lean`: scanbeams, `InsertLocalMinimaIntoAEL`, `DoIntersections`,
`DoTopOfScanbeam` driving the bookkeeping model of `Model/Ael.lean`) marks as hot, on every scanline strictly inside a scanbeam,
exactly the edges that bound the region `inR ct fr (wind subj p) (wind clip p)`.  This file puts the two together: the hot intervals of
the MODEL SWEEP have C13's invariances.

A scanline of a sweep is packaged as `Scan subj clip yn yd`: the decidable hypotheses of `scanline_region` for the input
(`Built.Hyp`, `Built.HypR`, `Near cx`), a scanbeam of the derived run and a rational height `yn/yd` strictly inside it.
`s.Inside cfg xn`: the bookkeeping model accepts the derived event list up to that scanline and an ODD number of its hot edges is
strictly left of `(xn/yd, yn/yd)` — by `Scan.inside_iff_interval` the point lies between the `(2j+1)`-th and the `(2j+2)`-th hot edge.

EVERY theorem below takes a `Scan` for EACH of the two presentations / inputs as a hypothesis (both must satisfy the hypotheses of
`scanline_region`; that these hypotheses are themselves invariant under the transformation is NOT proved here) and a point that lies
on no edge of either scanline.

 1. `sweep_same_winding` / `sweep_presentation_independent`  path order, start rotation, duplicate vertex, closing vertex (and their
     compositions and inverses: the relation `SamePresentation`);  `sweep_path_order`, `sweep_start_rotation`, `sweep_duplicate_vertex`,
     `sweep_closing_vertex` are the four instances;
 2. `sweep_subject_clip_swap`  Intersection, Union, Xor; Difference is not symmetric (`example`);
 3. `sweep_reversal`           reversing every path: EvenOdd and NonZero unchanged, Positive and Negative exchanged;
 4. `sweep_set_algebra`        Xor = Union minus Intersection; Difference and Intersection partition the subject region
                               (`sweep_diff_inter_is_subject`: the subject region as the Union sweep of the subject alone);
 5. `sweep_translation`, `sweep_scaling`  the translated (integer-scaled) input's sweep at the translated (scaled) point;
 6. `sweep_after_addPaths`, `sweep_rings_region`  (1) for the pipeline "model of `AddPaths_` (`Model/AddPathsRings.addPath`), then model
     sweep of the rings it builds": `build` expects rings without consecutive duplicates, so a `Scan` of a path that still HAS a duplicate
     or closing vertex does not exist (`example`) and the instances `sweep_duplicate_vertex` / `sweep_closing_vertex` of (1) are vacuous
     for the present `build`; through `AddPaths_` they are not (`windPath_ring`: the ring winds as the path does).
NOT here: mirroring and transposition (the transposed sweep runs along the other axis: its scanlines are the columns of the
original; `Props/C13Spec.wind_transpose` is the Spec statement), and everything `scanline_region` does not cover (horizontal edges,
rounding of crossings, the output polygons — see the head of `Props/C01Region.lean`).
-/
import ClipperVerif.Props.C01Region
import ClipperVerif.Props.C13
import ClipperVerif.Props.C13Spec
import ClipperVerif.Props.C13AddPaths
namespace Clipper.Props.C13Sweep
open Clipper Clipper.Model Clipper.Model.AelOrder Clipper.Model.SweepOrder Clipper.Model.SweepEvents
open Clipper.Lemmas.SweepOrder Clipper.WindSpec Clipper.Props.C01Region

/-! ## a scanline of the model sweep -/

/-- **A scanline of the model sweep of `(subj, clip)` at the rational height `yn/yd`**: everything `scanline_region` assumes.
`cx` (`TopX`) within 1/2 of the exact x; the decidable hypotheses `Built.Hyp` (no horizontal edge, general position at every scanline)
and `Built.HypR` (structural facts of the event data) for `build (subj ++ clip)`; `r` a scanbeam of the derived run
(`pre`, `post`: the scanbeams before and after it); `yd > 0` and `yn/yd` STRICTLY inside the scanbeam `[r.snap.y1, r.snap.y0]`.
The clip type and fill rule are not part of it: one `Scan` serves every `Cfg`. -/
structure Scan (subj clip : Paths) (yn yd : Int) where
  cx : SEdge → Int → Int
  info : SEdge → OInfo
  near : Near cx
  hyp : (build (subj ++ clip)).Hyp (validGen cx info)
  hypR : Built.HypR (build (subj ++ clip)) (labOf subj clip)
  pre : List BeamRun
  r : BeamRun
  post : List BeamRun
  runs : beamRuns (validGen cx info) cx (build (subj ++ clip)).next (build (subj ++ clip)).mins (labOf subj clip) []
      (build (subj ++ clip)).ys = pre ++ r :: post
  hd : 0 < yd
  lo : r.snap.y1 * yd < yn
  hi : yn < r.snap.y0 * yd

namespace Scan
variable {subj clip : Paths} {yn yd : Int}

/-- the derived event list up to the scanline: all scanbeams before `r`, the insertions of `r`, the virtual `DoIntersections` at the
height `yn/yd` (as in `scanline_region`) -/
def events (s : Scan subj clip yn yd) : List Op :=
  s.pre.flatMap BeamRun.events ++ s.r.evIns ++ heightSwaps yn yd s.r.snap.inserted

/-- the edges that cross the scanline, left to right -/
def order (s : Scan subj clip yn yd) : List SEdge := sortedAt yn yd s.r.snap.inserted

/-- the point `(xn/yd, yn/yd)` lies on no edge that crosses the scanline -/
def Off (s : Scan subj clip yn yd) (xn : Int) : Prop := ∀ e ∈ s.r.snap.inserted, ¬ onEdgeLine e xn yn yd
instance (s : Scan subj clip yn yd) (xn : Int) : Decidable (s.Off xn) := by unfold Off; infer_instance

/-- the bookkeeping model accepts the events up to the scanline and an ODD number of hot edges of the resulting state is strictly
left of `(xn/yd, yn/yd)`: the point is inside the hot intervals of the scanline (`inside_iff_interval`) -/
def Inside (s : Scan subj clip yn yd) (cfg : Cfg) (xn : Int) : Prop :=
  ∃ lY, Model.run cfg [] s.events = some lY ∧ insideHot (hotEdges lY s.order) xn yn yd = true

/-- … accepts the events and an EVEN number of hot edges is strictly left of the point -/
def Outside (s : Scan subj clip yn yd) (cfg : Cfg) (xn : Int) : Prop :=
  ∃ lY, Model.run cfg [] s.events = some lY ∧ insideHot (hotEdges lY s.order) xn yn yd = false

/-- the events up to the scanline are accepted (so `Inside` is never false for want of a state: `not_inside_iff`) -/
theorem accepted (s : Scan subj clip yn yd) (cfg : Cfg) (hct : cfg.ct ≠ .noClip) :
    ∃ lY, Model.run cfg [] s.events = some lY ∧ Inv cfg lY ∧ Tracks (labOf subj clip) lY s.order := by
  obtain ⟨lY, h1, h2, h3, _⟩ := scanline_region subj clip cfg hct s.cx s.near s.info s.hyp s.hypR s.pre s.r s.post s.runs
    yn yd s.hd s.lo s.hi
  exact ⟨lY, h1, h3, h2⟩

theorem not_inside_iff (s : Scan subj clip yn yd) (cfg : Cfg) (hct : cfg.ct ≠ .noClip) (xn : Int) :
    ¬ s.Inside cfg xn ↔ s.Outside cfg xn := by
  obtain ⟨lY, h1, _⟩ := s.accepted cfg hct
  constructor
  · intro h
    refine ⟨lY, h1, ?_⟩
    cases hb : insideHot (hotEdges lY s.order) xn yn yd
    · rfl
    · exact absurd ⟨lY, h1, hb⟩ h
  · rintro ⟨l, hl, ho⟩ ⟨l', hl', hi⟩
    rw [hl] at hl'; cases hl'
    rw [ho] at hi; cases hi

/-- **`scanline_region` in these words**: the point is inside the hot intervals iff it is in the region C01 defines -/
theorem inside_iff (s : Scan subj clip yn yd) (cfg : Cfg) (hct : cfg.ct ≠ .noClip) (xn : Int) (hoff : s.Off xn) :
    s.Inside cfg xn ↔ inR cfg.ct cfg.fr (windQ subj xn yn yd) (windQ clip xn yn yd) = true := by
  obtain ⟨lY, h1, _, _, _, _, _, h7⟩ := scanline_region subj clip cfg hct s.cx s.near s.info s.hyp s.hypR s.pre s.r s.post s.runs
    yn yd s.hd s.lo s.hi
  constructor
  · rintro ⟨l, hl, hin⟩
    have hl' : Model.run cfg [] (s.pre.flatMap BeamRun.events ++ s.r.evIns ++ heightSwaps yn yd s.r.snap.inserted) = some l := hl
    rw [h1] at hl'; cases hl'
    rw [← h7 xn hoff]; exact hin
  · intro h
    exact ⟨lY, h1, by rw [← h]; exact h7 xn hoff⟩

/-- `Inside` in the words of the property (`scanline_region_intervals`): the hot edges of the scanline are even in number and the
point lies strictly right of the `(2j+1)`-th and not right of the `(2j+2)`-th for some `j` -/
theorem inside_iff_interval (s : Scan subj clip yn yd) (cfg : Cfg) (hct : cfg.ct ≠ .noClip) (xn : Int) (hoff : s.Off xn) :
    s.Inside cfg xn ↔
      ∃ lY, Model.run cfg [] s.events = some lY ∧ (hotEdges lY s.order).length % 2 = 0 ∧
        ∃ j, ∃ (hj : 2 * j + 1 < (hotEdges lY s.order).length),
          leftOfPt (hotEdges lY s.order)[2 * j] xn yn yd ∧ ¬ leftOfPt (hotEdges lY s.order)[2 * j + 1] xn yn yd := by
  obtain ⟨lY, h1, _, hev, h4⟩ := scanline_region_intervals subj clip cfg hct s.cx s.near s.info s.hyp s.hypR s.pre s.r s.post s.runs
    yn yd s.hd s.lo s.hi
  rw [s.inside_iff cfg hct xn hoff, ← h4 xn hoff]
  constructor
  · intro h; exact ⟨lY, h1, hev, h⟩
  · rintro ⟨l, hl, _, h⟩
    have hl' : Model.run cfg [] (s.pre.flatMap BeamRun.events ++ s.r.evIns ++ heightSwaps yn yd s.r.snap.inserted) = some l := hl
    rw [h1] at hl'; cases hl'
    exact h

/-- `Inside` as a computation (used by the `example`s to evaluate both sides) -/
def insideB (s : Scan subj clip yn yd) (cfg : Cfg) (xn : Int) : Bool :=
  match Model.run cfg [] s.events with
  | some lY => insideHot (hotEdges lY s.order) xn yn yd
  | none => false

theorem insideB_iff (s : Scan subj clip yn yd) (cfg : Cfg) (xn : Int) : s.insideB cfg xn = true ↔ s.Inside cfg xn := by
  unfold insideB Inside
  cases Model.run cfg [] s.events with
  | none => simp
  | some l => simp

instance (s : Scan subj clip yn yd) (cfg : Cfg) (xn : Int) : Decidable (s.Inside cfg xn) :=
  decidable_of_iff _ (s.insideB_iff cfg xn)

/-- the sweep with `TopX` = exact x rounded half to even (`rhe`) and the default `OInfo`: the scanline at `yn/yd` in the `i`-th scanbeam -/
def ofIndex (subj clip : Paths) (yn yd : Int) (i : Nat)
    (h : (build (subj ++ clip)).Hyp (validGen rhe default)) (hR : Built.HypR (build (subj ++ clip)) (labOf subj clip))
    (hi : i < (beamRuns (validGen rhe default) rhe (build (subj ++ clip)).next (build (subj ++ clip)).mins (labOf subj clip) []
      (build (subj ++ clip)).ys).length) (hd : 0 < yd)
    (lo : ((beamRuns (validGen rhe default) rhe (build (subj ++ clip)).next (build (subj ++ clip)).mins (labOf subj clip) []
      (build (subj ++ clip)).ys).getD i default).snap.y1 * yd < yn)
    (hi' : yn < ((beamRuns (validGen rhe default) rhe (build (subj ++ clip)).next (build (subj ++ clip)).mins (labOf subj clip) []
      (build (subj ++ clip)).ys).getD i default).snap.y0 * yd) : Scan subj clip yn yd :=
  ⟨rhe, default, rhe_near, h, hR, _, _, _, split_at _ i hi, hd, lo, hi'⟩

end Scan

/-! ## (1) presentations with the same winding numbers -/

/-- the two path sets wind equally often around every RATIONAL point: around every integer point after scaling both by any `k`
(`windQ ps xn yn k` is `wind (mapPaths (Pt.scale k) ps) ⟨xn, yn⟩`); `k = 1`: every integer point (`SameWinding.int`) -/
def SameWinding (ps qs : Paths) : Prop := ∀ (k : Int) (p : Pt), wind (mapPaths (Pt.scale k) ps) p = wind (mapPaths (Pt.scale k) qs) p

theorem SameWinding.refl (ps : Paths) : SameWinding ps ps := fun _ _ => rfl
theorem SameWinding.symm {ps qs : Paths} (h : SameWinding ps qs) : SameWinding qs ps := fun k p => (h k p).symm
theorem SameWinding.trans {ps qs rs : Paths} (h : SameWinding ps qs) (h' : SameWinding qs rs) : SameWinding ps rs :=
  fun k p => (h k p).trans (h' k p)

theorem mapPaths_scale_one (ps : Paths) : mapPaths (Pt.scale 1) ps = ps := by
  have : Pt.scale 1 = id := by funext a; simp [Pt.scale]
  simp [mapPaths, this]

/-- in particular the winding numbers around every integer point agree -/
theorem SameWinding.int {ps qs : Paths} (h : SameWinding ps qs) (p : Pt) : wind ps p = wind qs p := by
  have := h 1 p
  rwa [mapPaths_scale_one, mapPaths_scale_one] at this

theorem SameWinding.windQ {ps qs : Paths} (h : SameWinding ps qs) (xn yn yd : Int) : windQ ps xn yn yd = windQ qs xn yn yd :=
  h yd ⟨xn, yn⟩

/-- path order (`wind_perm`) -/
theorem sameWinding_perm {ps qs : Paths} (h : ps.Perm qs) : SameWinding ps qs :=
  fun _ p => C13Spec.wind_perm (h.map _) p
/-- start vertex of one path (`wind_rotate`) -/
theorem sameWinding_rotate (ps₁ ps₂ : Paths) (l₁ l₂ : List Pt) : SameWinding (ps₁ ++ (l₂ ++ l₁) :: ps₂) (ps₁ ++ (l₁ ++ l₂) :: ps₂) := by
  intro k p
  simp only [mapPaths, List.map_append, List.map_cons]
  exact C13Spec.wind_rotate _ _ _ _ p
/-- a vertex repeated in place (`wind_dup`) -/
theorem sameWinding_dup (ps₁ ps₂ : Paths) (l₁ l₂ : List Pt) (a : Pt) :
    SameWinding (ps₁ ++ (l₁ ++ a :: a :: l₂) :: ps₂) (ps₁ ++ (l₁ ++ a :: l₂) :: ps₂) := by
  intro k p
  simp only [mapPaths, List.map_append, List.map_cons]
  exact C13Spec.wind_dup _ _ _ _ _ p
/-- the first vertex repeated at the end (`wind_closing`) -/
theorem sameWinding_closing (ps₁ ps₂ : Paths) (a : Pt) (rest : List Pt) :
    SameWinding (ps₁ ++ (a :: rest ++ [a]) :: ps₂) (ps₁ ++ (a :: rest) :: ps₂) := by
  intro k p
  simp only [mapPaths, List.map_append, List.map_cons, List.cons_append, List.map_nil]
  exact C13Spec.wind_closing _ _ _ _ p

/-- **the changes of presentation C13 lists** (exactly those with a `wind_…` lemma in `Props/C13Spec.lean`), closed under
composition and inverse: path order, start vertex of a path, a vertex repeated in place, an explicit closing vertex -/
inductive SamePresentation : Paths → Paths → Prop
  | order {ps qs : Paths} : ps.Perm qs → SamePresentation ps qs
  | start (ps₁ ps₂ : Paths) (l₁ l₂ : List Pt) : SamePresentation (ps₁ ++ (l₂ ++ l₁) :: ps₂) (ps₁ ++ (l₁ ++ l₂) :: ps₂)
  | dup (ps₁ ps₂ : Paths) (l₁ l₂ : List Pt) (a : Pt) : SamePresentation (ps₁ ++ (l₁ ++ a :: a :: l₂) :: ps₂) (ps₁ ++ (l₁ ++ a :: l₂) :: ps₂)
  | closing (ps₁ ps₂ : Paths) (a : Pt) (rest : List Pt) : SamePresentation (ps₁ ++ (a :: rest ++ [a]) :: ps₂) (ps₁ ++ (a :: rest) :: ps₂)
  | symm {ps qs : Paths} : SamePresentation ps qs → SamePresentation qs ps
  | trans {ps qs rs : Paths} : SamePresentation ps qs → SamePresentation qs rs → SamePresentation ps rs

theorem SamePresentation.refl (ps : Paths) : SamePresentation ps ps := .order (List.Perm.refl ps)

theorem SamePresentation.sameWinding {ps qs : Paths} (h : SamePresentation ps qs) : SameWinding ps qs := by
  induction h with
  | order h => exact sameWinding_perm h
  | start ps₁ ps₂ l₁ l₂ => exact sameWinding_rotate ps₁ ps₂ l₁ l₂
  | dup ps₁ ps₂ l₁ l₂ a => exact sameWinding_dup ps₁ ps₂ l₁ l₂ a
  | closing ps₁ ps₂ a rest => exact sameWinding_closing ps₁ ps₂ a rest
  | symm _ ih => exact ih.symm
  | trans _ _ ih₁ ih₂ => exact ih₁.trans ih₂

/-- **sweep_same_winding** (the general form of representation independence).  `(subj, clip)` and `(subj', clip')`: two inputs whose
subjects wind equally often around every rational point, and whose clips do.  `s`, `s'`: a scanline of the model sweep of each at the
SAME height `yn/yd` (strictly inside a scanbeam of BOTH sweeps; both inputs satisfy the hypotheses of `scanline_region`).  Then for
every clip type but NoClip, every fill rule and every `xn` with `(xn/yd, yn/yd)` on no edge of either: the point is inside the hot
intervals of the first sweep IFF it is inside those of the second.  (The two sweeps need not have the same edges, the same scanbeams,
the same `TopX` or the same event lists.) -/
theorem sweep_same_winding {subj clip subj' clip' : Paths} {yn yd : Int} (s : Scan subj clip yn yd) (s' : Scan subj' clip' yn yd)
    (hS : SameWinding subj subj') (hC : SameWinding clip clip') (cfg : Cfg) (hct : cfg.ct ≠ .noClip)
    (xn : Int) (hoff : s.Off xn) (hoff' : s'.Off xn) :
    s.Inside cfg xn ↔ s'.Inside cfg xn := by
  rw [s.inside_iff cfg hct xn hoff, s'.inside_iff cfg hct xn hoff', hS.windQ, hC.windQ]

/-- **sweep_presentation_independent** — C13: "the set of solution paths is identical when the order of paths is changed, a path's
start vertex is rotated, duplicate or closing vertices are inserted", at the level of the MODEL SWEEP and of the region its hot edges
bound: if `subj'` is obtained from `subj`, and `clip'` from `clip`, by any sequence of these changes (or their inverses), then on every
common scanline (hypotheses of `scanline_region` for both presentations) and every point on no edge of either, the point is inside the
hot intervals of the one sweep iff it is inside those of the other. -/
theorem sweep_presentation_independent {subj clip subj' clip' : Paths} {yn yd : Int} (s : Scan subj clip yn yd)
    (s' : Scan subj' clip' yn yd) (hS : SamePresentation subj subj') (hC : SamePresentation clip clip') (cfg : Cfg)
    (hct : cfg.ct ≠ .noClip) (xn : Int) (hoff : s.Off xn) (hoff' : s'.Off xn) :
    s.Inside cfg xn ↔ s'.Inside cfg xn :=
  sweep_same_winding s s' hS.sameWinding hC.sameWinding cfg hct xn hoff hoff'

/-- **path order** (`wind_perm`): the subject paths and the clip paths each listed in another order -/
theorem sweep_path_order {subj clip subj' clip' : Paths} {yn yd : Int} (s : Scan subj clip yn yd) (s' : Scan subj' clip' yn yd)
    (hS : subj.Perm subj') (hC : clip.Perm clip') (cfg : Cfg) (hct : cfg.ct ≠ .noClip) (xn : Int) (hoff : s.Off xn)
    (hoff' : s'.Off xn) : s.Inside cfg xn ↔ s'.Inside cfg xn :=
  sweep_presentation_independent s s' (.order hS) (.order hC) cfg hct xn hoff hoff'

/-- **start vertex** (`wind_rotate`): one subject path listed from another start vertex (for a clip path: `sweep_presentation_independent`
with `.refl` for the subject) -/
theorem sweep_start_rotation {ps₁ ps₂ clip : Paths} {l₁ l₂ : List Pt} {yn yd : Int}
    (s : Scan (ps₁ ++ (l₂ ++ l₁) :: ps₂) clip yn yd) (s' : Scan (ps₁ ++ (l₁ ++ l₂) :: ps₂) clip yn yd) (cfg : Cfg)
    (hct : cfg.ct ≠ .noClip) (xn : Int) (hoff : s.Off xn) (hoff' : s'.Off xn) : s.Inside cfg xn ↔ s'.Inside cfg xn :=
  sweep_presentation_independent s s' (.start ps₁ ps₂ l₁ l₂) (.refl clip) cfg hct xn hoff hoff'

/-- **duplicate vertex** (`wind_dup`).  NOTE: `build` takes the vertex rings as `AddPaths_` leaves them, i.e. WITHOUT consecutive
duplicates (`Props/C13AddPaths.addPath_dup`: the ring is the same with and without the duplicate); fed a path that still has one it
makes a zero-length edge and `Built.Hyp` fails (`example` below), so no `Scan` of the first kind exists for the present `build`: this
instance is VACUOUS as it stands; the non-vacuous form is `sweep_after_addPaths` (section 6). -/
theorem sweep_duplicate_vertex {ps₁ ps₂ clip : Paths} {l₁ l₂ : List Pt} {a : Pt} {yn yd : Int}
    (s : Scan (ps₁ ++ (l₁ ++ a :: a :: l₂) :: ps₂) clip yn yd) (s' : Scan (ps₁ ++ (l₁ ++ a :: l₂) :: ps₂) clip yn yd) (cfg : Cfg)
    (hct : cfg.ct ≠ .noClip) (xn : Int) (hoff : s.Off xn) (hoff' : s'.Off xn) : s.Inside cfg xn ↔ s'.Inside cfg xn :=
  sweep_presentation_independent s s' (.dup ps₁ ps₂ l₁ l₂ a) (.refl clip) cfg hct xn hoff hoff'

/-- **closing vertex** (`wind_closing`).  The same NOTE applies (`Props/C13AddPaths.addPath_closing`): vacuous for the present
`build`; non-vacuous form `sweep_after_addPaths`. -/
theorem sweep_closing_vertex {ps₁ ps₂ clip : Paths} {a : Pt} {rest : List Pt} {yn yd : Int}
    (s : Scan (ps₁ ++ (a :: rest ++ [a]) :: ps₂) clip yn yd) (s' : Scan (ps₁ ++ (a :: rest) :: ps₂) clip yn yd) (cfg : Cfg)
    (hct : cfg.ct ≠ .noClip) (xn : Int) (hoff : s.Off xn) (hoff' : s'.Off xn) : s.Inside cfg xn ↔ s'.Inside cfg xn :=
  sweep_presentation_independent s s' (.closing ps₁ ps₂ a rest) (.refl clip) cfg hct xn hoff hoff'

/-! ## (2) subject and clip exchanged -/

/-- **sweep_subject_clip_swap** — C13: "… or subject and clip are swapped for Intersection, Union and Xor".  `s`: a scanline of the
sweep of `(subj, clip)`; `s'`: a scanline at the same height of the sweep of `(clip, subj)` (the same paths with the path types
exchanged; hypotheses of `scanline_region` for both).  For Intersection, Union and Xor, every fill rule and every point of the
scanline on no edge of either: inside the hot intervals of the one iff inside those of the other (`inR_symm`). -/
theorem sweep_subject_clip_swap {subj clip : Paths} {yn yd : Int} (s : Scan subj clip yn yd) (s' : Scan clip subj yn yd) (cfg : Cfg)
    (hct : cfg.ct ≠ .noClip) (hdf : cfg.ct ≠ .difference) (xn : Int) (hoff : s.Off xn) (hoff' : s'.Off xn) :
    s.Inside cfg xn ↔ s'.Inside cfg xn := by
  rw [s.inside_iff cfg hct xn hoff, s'.inside_iff cfg hct xn hoff', C13.inR_symm cfg.ct hdf]

/-! ## (3) every path reversed -/

theorem windQ_reverse (ps : Paths) (xn yn yd : Int) : windQ (ps.map List.reverse) xn yn yd = -windQ ps xn yn yd := by
  unfold windQ
  have : (ps.map List.reverse).map (fun p => p.map (Pt.scale yd)) = (ps.map (fun p => p.map (Pt.scale yd))).map List.reverse := by
    simp [List.map_map, Function.comp_def, List.map_reverse]
  rw [this, C13Spec.wind_reverse]

/-- **sweep_reversal** — C13: "reversing all paths does not change EvenOdd/NonZero results and swaps Positive with Negative".
`s`: a scanline of the sweep of `(subj, clip)`; `s'`: a scanline at the same height of the sweep of the input with EVERY path
reversed.  For every clip type but NoClip, every fill rule `fr` and every point on no edge of either: inside the hot intervals of the
first sweep under `fr` iff inside those of the reversed sweep under `flipFr fr` (`flipFr` fixes EvenOdd and NonZero and exchanges
Positive and Negative; `wind_reverse`, `inR_neg`). -/
theorem sweep_reversal {subj clip : Paths} {yn yd : Int} (s : Scan subj clip yn yd)
    (s' : Scan (subj.map List.reverse) (clip.map List.reverse) yn yd) (ct : ClipType) (hct : ct ≠ .noClip) (fr : FillRule)
    (xn : Int) (hoff : s.Off xn) (hoff' : s'.Off xn) :
    s.Inside ⟨ct, fr⟩ xn ↔ s'.Inside ⟨ct, flipFr fr⟩ xn := by
  rw [s.inside_iff ⟨ct, fr⟩ hct xn hoff, s'.inside_iff ⟨ct, flipFr fr⟩ hct xn hoff', windQ_reverse, windQ_reverse]
  simp only [C13.inR_neg]

/-- the four fill rules spelled out: EvenOdd and NonZero intervals unchanged, Positive and Negative exchanged -/
theorem sweep_reversal_rules {subj clip : Paths} {yn yd : Int} (s : Scan subj clip yn yd)
    (s' : Scan (subj.map List.reverse) (clip.map List.reverse) yn yd) (ct : ClipType) (hct : ct ≠ .noClip)
    (xn : Int) (hoff : s.Off xn) (hoff' : s'.Off xn) :
    (s.Inside ⟨ct, .evenOdd⟩ xn ↔ s'.Inside ⟨ct, .evenOdd⟩ xn) ∧ (s.Inside ⟨ct, .nonZero⟩ xn ↔ s'.Inside ⟨ct, .nonZero⟩ xn) ∧
    (s.Inside ⟨ct, .positive⟩ xn ↔ s'.Inside ⟨ct, .negative⟩ xn) ∧ (s.Inside ⟨ct, .negative⟩ xn ↔ s'.Inside ⟨ct, .positive⟩ xn) :=
  ⟨sweep_reversal s s' ct hct .evenOdd xn hoff hoff', sweep_reversal s s' ct hct .nonZero xn hoff hoff',
   sweep_reversal s s' ct hct .positive xn hoff hoff', sweep_reversal s s' ct hct .negative xn hoff hoff'⟩

/-! ## (4) set algebra on one scanline -/

/-- **sweep_set_algebra** — C13: "Xor equals Union minus Intersection, Difference and Intersection partition the subject".  ONE input,
one scanline `s` of its model sweep (the scanbeams, edges and their order do not depend on the clip type; the hot flags do), one point
on no edge; the bookkeeping model run under the four clip types with one fill rule:
 * inside the Xor intervals  ⟺  inside the Union intervals and not inside the Intersection intervals;
 * inside the Difference intervals or inside the Intersection intervals  ⟺  the point is in the subject region
   (`inFill fr (wind subj p)`; as a sweep of the subject alone: `sweep_diff_inter_is_subject`);
 * never inside both the Difference and the Intersection intervals. -/
theorem sweep_set_algebra {subj clip : Paths} {yn yd : Int} (s : Scan subj clip yn yd) (fr : FillRule) (xn : Int) (hoff : s.Off xn) :
    (s.Inside ⟨.xor, fr⟩ xn ↔ s.Inside ⟨.union, fr⟩ xn ∧ ¬ s.Inside ⟨.intersection, fr⟩ xn) ∧
    (s.Inside ⟨.difference, fr⟩ xn ∨ s.Inside ⟨.intersection, fr⟩ xn ↔ inFill fr (windQ subj xn yn yd) = true) ∧
    ¬ (s.Inside ⟨.difference, fr⟩ xn ∧ s.Inside ⟨.intersection, fr⟩ xn) := by
  rw [s.inside_iff ⟨.xor, fr⟩ (by simp) xn hoff, s.inside_iff ⟨.union, fr⟩ (by simp) xn hoff,
    s.inside_iff ⟨.intersection, fr⟩ (by simp) xn hoff, s.inside_iff ⟨.difference, fr⟩ (by simp) xn hoff]
  have hx := C13.xor_eq_union_minus_inter fr (windQ subj xn yn yd) (windQ clip xn yn yd)
  obtain ⟨hp, hq⟩ := C13.diff_inter_partition fr (windQ subj xn yn yd) (windQ clip xn yn yd)
  simp only []
  rw [hx, ← hp]
  revert hq
  cases inR .union fr (windQ subj xn yn yd) (windQ clip xn yn yd) <;>
    cases inR .intersection fr (windQ subj xn yn yd) (windQ clip xn yn yd) <;>
    cases inR .difference fr (windQ subj xn yn yd) (windQ clip xn yn yd) <;> simp

theorem inFill_zero (fr : FillRule) : inFill fr 0 = false := by cases fr <;> rfl

/-- **sweep_diff_inter_is_subject** — "Difference and Intersection partition the subject", with the subject region itself read off a
sweep: `s` a scanline of the sweep of `(subj, clip)`, `s₀` a scanline at the same height of the sweep of the subject ALONE (no clip
paths) under Union.  For every point on no edge of either: inside the Difference intervals or inside the Intersection intervals of
the first  ⟺  inside the Union intervals of the second; and the first two exclude each other. -/
theorem sweep_diff_inter_is_subject {subj clip : Paths} {yn yd : Int} (s : Scan subj clip yn yd) (s₀ : Scan subj [] yn yd)
    (fr : FillRule) (xn : Int) (hoff : s.Off xn) (hoff₀ : s₀.Off xn) :
    (s.Inside ⟨.difference, fr⟩ xn ∨ s.Inside ⟨.intersection, fr⟩ xn ↔ s₀.Inside ⟨.union, fr⟩ xn) ∧
    ¬ (s.Inside ⟨.difference, fr⟩ xn ∧ s.Inside ⟨.intersection, fr⟩ xn) := by
  obtain ⟨_, h2, h3⟩ := sweep_set_algebra s fr xn hoff
  refine ⟨?_, h3⟩
  rw [h2, s₀.inside_iff ⟨.union, fr⟩ (by simp) xn hoff₀]
  have : windQ [] xn yn yd = 0 := rfl
  simp only [this, inR, inFill_zero, Bool.or_false]

/-! ## (5) translation and integer scaling -/

theorem scale_add (k : Int) (a d : Pt) : Pt.scale k (a.add d) = (Pt.scale k a).add (Pt.scale k d) := by
  simp only [Pt.scale, Pt.add, Int.mul_add]

theorem windQ_translate (d : Pt) (ps : Paths) (xn yn yd : Int) :
    windQ (C13Spec.translate d ps) (xn + yd * d.x) (yn + yd * d.y) yd = windQ ps xn yn yd := by
  unfold windQ
  have h1 : (C13Spec.translate d ps).map (fun p => p.map (Pt.scale yd)) =
      C13Spec.translate (Pt.scale yd d) (ps.map (fun p => p.map (Pt.scale yd))) := by
    simp [C13Spec.translate, mapPaths, List.map_map, Function.comp_def, scale_add]
  have h2 : (⟨xn + yd * d.x, yn + yd * d.y⟩ : Pt) = (⟨xn, yn⟩ : Pt).add (Pt.scale yd d) := rfl
  rw [h1, h2, C13Spec.wind_translate]

/-- **sweep_translation** — C13: "translating … the input transforms the result accordingly".  `s`: a scanline at the height `yn/yd`
of the sweep of `(subj, clip)`; `s'`: a scanline at the height `yn/yd + d.y` of the sweep of the input translated by the integer
vector `d`.  For every clip type but NoClip, every fill rule and every point on no edge: `(xn/yd, yn/yd)` is inside the hot intervals
of the first iff `(xn/yd + d.x, yn/yd + d.y)` is inside those of the second (`wind_translate`). -/
theorem sweep_translation {subj clip : Paths} {yn yd : Int} (d : Pt) (s : Scan subj clip yn yd)
    (s' : Scan (C13Spec.translate d subj) (C13Spec.translate d clip) (yn + yd * d.y) yd) (cfg : Cfg) (hct : cfg.ct ≠ .noClip)
    (xn : Int) (hoff : s.Off xn) (hoff' : s'.Off (xn + yd * d.x)) :
    s.Inside cfg xn ↔ s'.Inside cfg (xn + yd * d.x) := by
  rw [s.inside_iff cfg hct xn hoff, s'.inside_iff cfg hct _ hoff', windQ_translate, windQ_translate]

theorem scale_scale (k m : Int) (a : Pt) : Pt.scale m (Pt.scale k a) = Pt.scale k (Pt.scale m a) := by
  simp only [Pt.scale, Pt.mk.injEq]
  constructor <;> rw [← Int.mul_assoc, ← Int.mul_assoc, Int.mul_comm m k]

theorem windQ_scale {k : Int} (hk : 0 < k) (ps : Paths) (xn yn yd : Int) :
    windQ (C13Spec.scale k ps) (k * xn) (k * yn) yd = windQ ps xn yn yd := by
  unfold windQ
  have h1 : (C13Spec.scale k ps).map (fun p => p.map (Pt.scale yd)) =
      C13Spec.scale k (ps.map (fun p => p.map (Pt.scale yd))) := by
    simp [C13Spec.scale, mapPaths, List.map_map, Function.comp_def, scale_scale]
  have h2 : (⟨k * xn, k * yn⟩ : Pt) = Pt.scale k ⟨xn, yn⟩ := rfl
  rw [h1, h2, C13Spec.wind_scale hk]

/-- **sweep_scaling** — C13: "integer-scaling the input transforms the result accordingly".  `s`: a scanline at the height `yn/yd` of
the sweep of `(subj, clip)`; `s'`: a scanline at the height `k·yn/yd` of the sweep of the input scaled by the integer `k > 0`.  The
point `(xn/yd, yn/yd)` is inside the hot intervals of the first iff `(k·xn/yd, k·yn/yd)` is inside those of the second. -/
theorem sweep_scaling {subj clip : Paths} {yn yd : Int} {k : Int} (hk : 0 < k) (s : Scan subj clip yn yd)
    (s' : Scan (C13Spec.scale k subj) (C13Spec.scale k clip) (k * yn) yd) (cfg : Cfg) (hct : cfg.ct ≠ .noClip)
    (xn : Int) (hoff : s.Off xn) (hoff' : s'.Off (k * xn)) :
    s.Inside cfg xn ↔ s'.Inside cfg (k * xn) := by
  rw [s.inside_iff cfg hct xn hoff, s'.inside_iff cfg hct _ hoff', windQ_scale hk, windQ_scale hk]

/-! ## (6) duplicate and closing vertices through the model of `AddPaths_`

`build` expects the vertex rings as `AddPaths_` leaves them.  `Model/AddPathsRings.addPath false path` is the model of what `AddPaths_`
does with one closed path (`Props/C13AddPaths.addPath_ring`: consecutive duplicates skipped, a closing vertex dropped, nothing linked
for fewer than two distinct vertices); `ringsOf` applies it to every path.  The pipeline "`AddPaths_` model, then model sweep" accepts
paths WITH duplicate and closing vertices, and for it the duplicate / closing-vertex clauses of C13 are not vacuous. -/
open Clipper.Model.AddPathsRings Clipper.Lemmas.AddPathsRings in
/-- the vertex rings the model of `AddPaths_` builds from closed paths -/
def ringsOf (ps : Paths) : Paths := ps.map (fun p => (addPath false p).pts)

section rings
open Clipper.Model.AddPathsRings Clipper.Lemmas.AddPathsRings

theorem stutter_map (f : Pt → Pt) {r l : List Pt} (h : Stutter r l) : Stutter (r.map f) (l.map f) := by
  induction h with
  | nil => exact .nil
  | cons a _ ih => exact .cons _ ih
  | dup a _ ih => exact .dup _ ih

theorem chain_stutter (p : Pt) {r l : List Pt} (h : Stutter r l) (a z : Pt) :
    ((chain a l z).map (fun e => crossing p e.1 e.2)).sum = ((chain a r z).map (fun e => crossing p e.1 e.2)).sum := by
  induction h generalizing a with
  | nil => rfl
  | cons b _ ih => simp only [chain, List.map_cons, List.sum_cons, ih b]
  | dup b _ ih =>
    rw [← ih a]
    simp only [chain, List.map_cons, List.sum_cons, C13Spec.crossing_self]
    omega

theorem windPath_stutter (p : Pt) {r l : List Pt} (h : Stutter r l) : windPath l p = windPath r p := by
  induction h with
  | nil => rfl
  | cons a h _ =>
    unfold windPath
    rw [edgesOf_cons, edgesOf_cons]
    exact chain_stutter p h a a
  | dup a _ ih => rw [C13Spec.windPath_dup_head, ih]

/-- the ring `AddPaths_` builds from a closed path winds as often around every point as the path, under every vertex map -/
theorem windPath_ring (f : Pt → Pt) (path : Path) (p : Pt) :
    windPath ((addPath false path).pts.map f) p = windPath (path.map f) p := by
  have hr := C13AddPaths.addPath_ring false path
  simp only at hr
  obtain ⟨_, _, _, hsmall, hbig⟩ := hr
  rw [windPath_stutter p (stutter_map f (pushPts_stutter path))]
  by_cases hlen : (pushPts none path).length < 2
  · rw [(hsmall hlen).1]
    match hv : pushPts none path, hlen with
    | [], _ => rfl
    | [a], _ =>
      simp only [List.map_cons, List.map_nil, windPath, edgesOf_cons, chain, List.sum_cons, List.sum_nil, C13Spec.crossing_self]
      rfl
    | _ :: _ :: _, h => simp at h; omega
  · have h2 : 2 ≤ (pushPts none path).length := by omega
    rw [(hbig h2).1]
    generalize pushPts none path = vs at h2
    split
    · rename_i hc
      have hne : vs ≠ [] := by intro h; subst h; simp at h2
      have hsplit := (List.dropLast_concat_getLast hne).symm
      match hd : vs.dropLast with
      | [] =>
        have := congrArg List.length hd
        simp at this; omega
      | a :: t =>
        rw [hd] at hsplit
        have hx : vs.getLast hne = a := by
          have h1 : vs.getLast? = some (vs.getLast hne) := List.getLast?_eq_some_getLast hne
          have h2' : vs.head? = some a := by rw [hsplit]; rfl
          rw [hc.2, h2'] at h1
          exact (Option.some.inj h1).symm
        rw [hx] at hsplit
        rw [hsplit]
        simp only [List.map_append, List.map_cons, List.map_nil]
        exact (C13Spec.windPath_closing (f a) (t.map f) p).symm
    · rfl


/-- the rings of `AddPaths_` wind around every rational point as often as the paths they were made from -/
theorem sameWinding_rings (ps : Paths) : SameWinding (ringsOf ps) ps := by
  intro k p
  simp only [wind, mapPaths, ringsOf, List.map_map, Function.comp_def, windPath_ring]

/-- **sweep_rings_region** — `scanline_region` for the pipeline `AddPaths_` model + model sweep, in terms of the paths AS GIVEN
(duplicates, closing vertices and all): on a scanline of the sweep of the rings, a point on no edge is inside the hot intervals iff
`inR ct fr (wind subj p) (wind clip p)` for the ORIGINAL paths. -/
theorem sweep_rings_region {subj clip : Paths} {yn yd : Int} (s : Scan (ringsOf subj) (ringsOf clip) yn yd) (cfg : Cfg)
    (hct : cfg.ct ≠ .noClip) (xn : Int) (hoff : s.Off xn) :
    s.Inside cfg xn ↔ inR cfg.ct cfg.fr (windQ subj xn yn yd) (windQ clip xn yn yd) = true := by
  rw [s.inside_iff cfg hct xn hoff, (sameWinding_rings subj).windQ, (sameWinding_rings clip).windQ]

/-- **sweep_after_addPaths** — C13's presentation clause for the pipeline `AddPaths_` model + model sweep: `subj'` from `subj` and `clip'`
from `clip` by path order, start rotation, duplicate vertices, closing vertices (any sequence, either direction).  `s`, `s'`: a scanline
at the same height of the model sweep of the rings `AddPaths_` builds from each presentation (hypotheses of `scanline_region` for both
ring sets).  A point on no edge of either is inside the hot intervals of the one iff inside those of the other. -/
theorem sweep_after_addPaths {subj clip subj' clip' : Paths} {yn yd : Int} (s : Scan (ringsOf subj) (ringsOf clip) yn yd)
    (s' : Scan (ringsOf subj') (ringsOf clip') yn yd) (hS : SamePresentation subj subj') (hC : SamePresentation clip clip')
    (cfg : Cfg) (hct : cfg.ct ≠ .noClip) (xn : Int) (hoff : s.Off xn) (hoff' : s'.Off xn) :
    s.Inside cfg xn ↔ s'.Inside cfg xn :=
  sweep_same_winding s s' ((sameWinding_rings subj).trans (hS.sameWinding.trans (sameWinding_rings subj').symm))
    ((sameWinding_rings clip).trans (hC.sameWinding.trans (sameWinding_rings clip').symm)) cfg hct xn hoff hoff'

end rings

/-! ## non-vacuity: the two crossing triangles of `Props/C01Region.lean` in several presentations

`A = (0,40) (30,3) (-30,11)`, `B = (-10,33) (-31,0) (34,20)`; the scanline `y = 59/2` lies strictly inside the second scanbeam `[20, 33]`,
between its three crossings.  On it `A` covers `-10.86 < x < 8.51` and `B` covers `-12.23 < x < 1.85`.  The hypotheses of
`scanline_region` are decided for every presentation (`decide +kernel`), so each theorem above is applied to real `Scan`s; the
sampled points are `x = xn/2`. -/

private def triA : Path := [⟨0, 40⟩, ⟨30, 3⟩, ⟨-30, 11⟩]
private def triB : Path := [⟨-10, 33⟩, ⟨-31, 0⟩, ⟨34, 20⟩]
/-- the same triangles listed from other start vertices -/
private def triA' : Path := [⟨30, 3⟩, ⟨-30, 11⟩, ⟨0, 40⟩]
private def triB' : Path := [⟨34, 20⟩, ⟨-10, 33⟩, ⟨-31, 0⟩]

/-- `(A, B)`, second scanbeam, `y = 59/2` -/
private def sAB : Scan [triA] [triB] 59 2 :=
  .ofIndex _ _ 59 2 1 (by decide +kernel) (by decide +kernel) (by decide +kernel) (by decide) (by decide +kernel) (by decide +kernel)
/-- both triangles rotated -/
private def sRot : Scan [triA'] [triB'] 59 2 :=
  .ofIndex _ _ 59 2 1 (by decide +kernel) (by decide +kernel) (by decide +kernel) (by decide) (by decide +kernel) (by decide +kernel)
/-- only `A` rotated -/
private def sRotA : Scan [triA'] [triB] 59 2 :=
  .ofIndex _ _ 59 2 1 (by decide +kernel) (by decide +kernel) (by decide +kernel) (by decide) (by decide +kernel) (by decide +kernel)
/-- subject and clip exchanged -/
private def sBA : Scan [triB] [triA] 59 2 :=
  .ofIndex _ _ 59 2 1 (by decide +kernel) (by decide +kernel) (by decide +kernel) (by decide) (by decide +kernel) (by decide +kernel)
/-- both triangles as subject paths, in the two orders -/
private def sAB0 : Scan [triA, triB] [] 59 2 :=
  .ofIndex _ _ 59 2 1 (by decide +kernel) (by decide +kernel) (by decide +kernel) (by decide) (by decide +kernel) (by decide +kernel)
private def sBA0 : Scan [triB, triA] [] 59 2 :=
  .ofIndex _ _ 59 2 1 (by decide +kernel) (by decide +kernel) (by decide +kernel) (by decide) (by decide +kernel) (by decide +kernel)
/-- every path reversed -/
private def sRev : Scan ([triA].map List.reverse) ([triB].map List.reverse) 59 2 :=
  .ofIndex _ _ 59 2 1 (by decide +kernel) (by decide +kernel) (by decide +kernel) (by decide) (by decide +kernel) (by decide +kernel)
/-- the subject alone: `y = 59/2` lies in its first scanbeam `[11, 40]` -/
private def sA : Scan [triA] [] 59 2 :=
  .ofIndex _ _ 59 2 0 (by decide +kernel) (by decide +kernel) (by decide +kernel) (by decide) (by decide +kernel) (by decide +kernel)
/-- translated by `(5, -7)`: the scanline `y = 59/2 - 7 = 45/2` -/
private def sTr : Scan (C13Spec.translate ⟨5, -7⟩ [triA]) (C13Spec.translate ⟨5, -7⟩ [triB]) (59 + 2 * (-7)) 2 :=
  .ofIndex _ _ _ 2 1 (by decide +kernel) (by decide +kernel) (by decide +kernel) (by decide) (by decide +kernel) (by decide +kernel)
/-- scaled by 3: the scanline `y = 3 · 59/2` -/
private def sSc : Scan (C13Spec.scale 3 [triA]) (C13Spec.scale 3 [triB]) (3 * 59) 2 :=
  .ofIndex _ _ _ 2 1 (by decide +kernel) (by decide +kernel) (by decide +kernel) (by decide) (by decide +kernel) (by decide +kernel)

/-- the 12 sample points `x = (4 i − 27)/2`, `i < 12`, i.e. `x = −13.5, −11.5, …, 8.5`: none on an edge of any of the presentations -/
private def samples : List Int := (List.range 12).map (fun (i : Nat) => 4 * (i : Int) - 27)
example : ∀ xn ∈ samples, sAB.Off xn ∧ sRot.Off xn ∧ sRotA.Off xn ∧ sBA.Off xn ∧ sAB0.Off xn ∧ sBA0.Off xn ∧ sRev.Off xn ∧ sA.Off xn := by
  decide +kernel

example : ∀ xn ∈ samples, sTr.Off (xn + 2 * 5) ∧ sSc.Off (3 * xn) := by decide +kernel

/-- the edge identities along the scanline differ between the presentations (the sweeps are not literally the same objects) -/
example : idsOf sAB.order = [3, 2, 5, 0] ∧ idsOf sRot.order = [4, 1, 3, 2] ∧ idsOf sBA.order = [0, 5, 2, 3] ∧
    idsOf sRev.order = [4, 2, 5, 1] := by decide +kernel

/-- (1) `sweep_start_rotation`, `sweep_presentation_independent` and `sweep_path_order` applied -/
example (cfg : Cfg) (hct : cfg.ct ≠ .noClip) (xn : Int) (h : sRotA.Off xn) (h' : sAB.Off xn) :
    sRotA.Inside cfg xn ↔ sAB.Inside cfg xn :=
  sweep_start_rotation (ps₁ := []) (ps₂ := []) (l₁ := [⟨0, 40⟩]) (l₂ := [⟨30, 3⟩, ⟨-30, 11⟩]) sRotA sAB cfg hct xn h h'
example (cfg : Cfg) (hct : cfg.ct ≠ .noClip) (xn : Int) (h : sRot.Off xn) (h' : sAB.Off xn) :
    sRot.Inside cfg xn ↔ sAB.Inside cfg xn :=
  sweep_presentation_independent sRot sAB (.start [] [] [⟨0, 40⟩] [⟨30, 3⟩, ⟨-30, 11⟩])
    (.symm (.start [] [] [⟨34, 20⟩] [⟨-10, 33⟩, ⟨-31, 0⟩])) cfg hct xn h h'
example (cfg : Cfg) (hct : cfg.ct ≠ .noClip) (xn : Int) (h : sAB0.Off xn) (h' : sBA0.Off xn) :
    sAB0.Inside cfg xn ↔ sBA0.Inside cfg xn :=
  sweep_path_order sAB0 sBA0 (List.Perm.swap _ _ _) (List.Perm.refl _) cfg hct xn h h'
/-- … and both sides evaluated: Union/NonZero of `(A, B)` and of the rotated presentation; EvenOdd self-union of `[A, B]`, `[B, A]` -/
example : samples.map (fun xn => decide (sAB.Inside ⟨.union, .nonZero⟩ xn)) = false :: List.replicate 11 true ∧
    samples.map (fun xn => decide (sRot.Inside ⟨.union, .nonZero⟩ xn)) = false :: List.replicate 11 true ∧
    samples.map (fun xn => decide (sAB0.Inside ⟨.union, .evenOdd⟩ xn)) = [false, true] ++ List.replicate 6 false ++ List.replicate 4 true ∧
    samples.map (fun xn => decide (sBA0.Inside ⟨.union, .evenOdd⟩ xn)) = [false, true] ++ List.replicate 6 false ++ List.replicate 4 true := by
  decide +kernel

/-- a path that still has a duplicate (or closing) vertex is outside the hypotheses of `scanline_region`: `build` models the rings
after `AddPaths_` removed them (NOTE at `sweep_duplicate_vertex`) -/
example : ¬ (build ([[⟨0, 40⟩, ⟨0, 40⟩, ⟨30, 3⟩, ⟨-30, 11⟩]] ++ [triB])).Hyp (validGen rhe default) := by decide +kernel
example : ¬ (build ([triA ++ [⟨0, 40⟩]] ++ [triB])).Hyp (validGen rhe default) := by decide +kernel

/-- (2) `sweep_subject_clip_swap` applied -/
example (cfg : Cfg) (hct : cfg.ct ≠ .noClip) (hdf : cfg.ct ≠ .difference) (xn : Int) (h : sAB.Off xn) (h' : sBA.Off xn) :
    sAB.Inside cfg xn ↔ sBA.Inside cfg xn := sweep_subject_clip_swap sAB sBA cfg hct hdf xn h h'
example : samples.map (fun xn => decide (sAB.Inside ⟨.xor, .nonZero⟩ xn)) = [false, true] ++ List.replicate 6 false ++ List.replicate 4 true ∧
    samples.map (fun xn => decide (sBA.Inside ⟨.xor, .nonZero⟩ xn)) = [false, true] ++ List.replicate 6 false ++ List.replicate 4 true := by
  decide +kernel
/-- **Difference is not symmetric**: the point `(5, 59/2)` (in `A`, not in `B`) is inside the Difference intervals of the sweep of
`(A, B)` and outside those of the sweep of `(B, A)`; `(−23/2, 59/2)` the other way round -/
example : sAB.Off 10 ∧ sBA.Off 10 ∧ sAB.Inside ⟨.difference, .nonZero⟩ 10 ∧ ¬ sBA.Inside ⟨.difference, .nonZero⟩ 10 ∧
    sAB.Off (-23) ∧ sBA.Off (-23) ∧ ¬ sAB.Inside ⟨.difference, .nonZero⟩ (-23) ∧ sBA.Inside ⟨.difference, .nonZero⟩ (-23) := by
  decide +kernel

/-- (3) `sweep_reversal` applied -/
example (ct : ClipType) (hct : ct ≠ .noClip) (fr : FillRule) (xn : Int) (h : sAB.Off xn) (h' : sRev.Off xn) :
    sAB.Inside ⟨ct, fr⟩ xn ↔ sRev.Inside ⟨ct, flipFr fr⟩ xn := sweep_reversal sAB sRev ct hct fr xn h h'
/-- `A` is positively, `B` negatively oriented here: Union/Positive is `A`, Union/Negative is `B`; for the reversed input the other
way round (so the exchange of the two fill rules is necessary, not only sufficient) -/
example : samples.map (fun xn => decide (sAB.Inside ⟨.union, .positive⟩ xn)) = false :: List.replicate 7 true ++ List.replicate 4 false ∧
    samples.map (fun xn => decide (sRev.Inside ⟨.union, .negative⟩ xn)) = false :: List.replicate 7 true ++ List.replicate 4 false ∧
    samples.map (fun xn => decide (sAB.Inside ⟨.union, .negative⟩ xn)) = [false, false] ++ List.replicate 10 true ∧
    samples.map (fun xn => decide (sRev.Inside ⟨.union, .positive⟩ xn)) = [false, false] ++ List.replicate 10 true := by
  decide +kernel

/-- (4) `sweep_set_algebra`, `sweep_diff_inter_is_subject` applied, and the five sweeps evaluated -/
example (fr : FillRule) (xn : Int) (h : sAB.Off xn) (h₀ : sA.Off xn) :
    (sAB.Inside ⟨.xor, fr⟩ xn ↔ sAB.Inside ⟨.union, fr⟩ xn ∧ ¬ sAB.Inside ⟨.intersection, fr⟩ xn) ∧
    (sAB.Inside ⟨.difference, fr⟩ xn ∨ sAB.Inside ⟨.intersection, fr⟩ xn ↔ sA.Inside ⟨.union, fr⟩ xn) ∧
    ¬ (sAB.Inside ⟨.difference, fr⟩ xn ∧ sAB.Inside ⟨.intersection, fr⟩ xn) :=
  ⟨(sweep_set_algebra sAB fr xn h).1, (sweep_diff_inter_is_subject sAB sA fr xn h h₀).1, (sweep_set_algebra sAB fr xn h).2.2⟩
example : samples.map (fun xn => decide (sAB.Inside ⟨.intersection, .nonZero⟩ xn)) = [false, false] ++ List.replicate 6 true ++ List.replicate 4 false ∧
    samples.map (fun xn => decide (sAB.Inside ⟨.difference, .nonZero⟩ xn)) = List.replicate 8 false ++ List.replicate 4 true ∧
    samples.map (fun xn => decide (sA.Inside ⟨.union, .nonZero⟩ xn)) = [false, false] ++ List.replicate 10 true := by
  decide +kernel

/-- (5) `sweep_translation`, `sweep_scaling` applied and evaluated (Xor/NonZero at the translated / scaled sample points) -/
example (cfg : Cfg) (hct : cfg.ct ≠ .noClip) (xn : Int) (h : sAB.Off xn) (h' : sTr.Off (xn + 2 * 5)) :
    sAB.Inside cfg xn ↔ sTr.Inside cfg (xn + 2 * 5) := sweep_translation ⟨5, -7⟩ sAB sTr cfg hct xn h h'
example (cfg : Cfg) (hct : cfg.ct ≠ .noClip) (xn : Int) (h : sAB.Off xn) (h' : sSc.Off (3 * xn)) :
    sAB.Inside cfg xn ↔ sSc.Inside cfg (3 * xn) := sweep_scaling (by decide) sAB sSc cfg hct xn h h'
example : samples.map (fun xn => decide (sTr.Inside ⟨.xor, .nonZero⟩ (xn + 2 * 5))) = [false, true] ++ List.replicate 6 false ++ List.replicate 4 true ∧
    samples.map (fun xn => decide (sSc.Inside ⟨.xor, .nonZero⟩ (3 * xn))) = [false, true] ++ List.replicate 6 false ++ List.replicate 4 true := by
  decide +kernel

/-- (6) `A` with a vertex repeated twice and the start vertex repeated at the end, `B` with an explicit closing vertex: what the model of
`AddPaths_` makes of them is accepted by the sweep model … -/
private def triAd : Path := [⟨0, 40⟩, ⟨30, 3⟩, ⟨30, 3⟩, ⟨30, 3⟩, ⟨-30, 11⟩, ⟨0, 40⟩]
private def triBc : Path := [⟨-10, 33⟩, ⟨-31, 0⟩, ⟨34, 20⟩, ⟨-10, 33⟩]
example : ringsOf [triAd] = [triA] ∧ ringsOf [triBc] = [triB] := by decide +kernel
private def sRing : Scan (ringsOf [triAd]) (ringsOf [triBc]) 59 2 :=
  .ofIndex _ _ 59 2 1 (by decide +kernel) (by decide +kernel) (by decide +kernel) (by decide) (by decide +kernel) (by decide +kernel)
private def sRing0 : Scan (ringsOf [triA']) (ringsOf [triB]) 59 2 :=
  .ofIndex _ _ 59 2 1 (by decide +kernel) (by decide +kernel) (by decide +kernel) (by decide) (by decide +kernel) (by decide +kernel)
/-- … and `sweep_after_addPaths` applies: duplicates `(30,3)` twice, closing vertices, `A` rotated -/
example (cfg : Cfg) (hct : cfg.ct ≠ .noClip) (xn : Int) (h : sRing.Off xn) (h' : sRing0.Off xn) :
    sRing.Inside cfg xn ↔ sRing0.Inside cfg xn :=
  sweep_after_addPaths sRing sRing0
    (.trans (.closing [] [] ⟨0, 40⟩ [⟨30, 3⟩, ⟨30, 3⟩, ⟨30, 3⟩, ⟨-30, 11⟩])
      (.trans (.dup [] [] [⟨0, 40⟩] [⟨30, 3⟩, ⟨-30, 11⟩] ⟨30, 3⟩)
        (.trans (.dup [] [] [⟨0, 40⟩] [⟨-30, 11⟩] ⟨30, 3⟩) (.symm (.start [] [] [⟨0, 40⟩] [⟨30, 3⟩, ⟨-30, 11⟩])))))
    (.closing [] [] ⟨-10, 33⟩ [⟨-31, 0⟩, ⟨34, 20⟩]) cfg hct xn h h'
example : (∀ xn ∈ samples, sRing.Off xn ∧ sRing0.Off xn) ∧
    samples.map (fun xn => decide (sRing.Inside ⟨.intersection, .nonZero⟩ xn)) = [false, false] ++ List.replicate 6 true ++ List.replicate 4 false ∧
    samples.map (fun xn => decide (sRing0.Inside ⟨.intersection, .nonZero⟩ xn)) = [false, false] ++ List.replicate 6 true ++ List.replicate 4 false := by
  decide +kernel

end Clipper.Props.C13Sweep
