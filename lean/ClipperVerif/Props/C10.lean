/-
C10 — no input can crash, hang or corrupt memory.

This property is partial by nature.  What can be a theorem is proved here for *modelled* code:
  (i)   the unbounded scan of `ProcessIntersectList` always finds a node inside the list, and the loop ends
        after as many swaps as there are inversions (combinatorial model of AEL order vs. intersect nodes);
  (ii)  freedom from signed overflow for |coordinate| ≤ 2^29 of every `int64_t` intermediate of the generated integer
        functions, the exact condition under which `TopX`'s product fits (and that it does not in general: known finding);
  (iii) `AddPaths_` never writes beyond the vertex array it allocates;
  (iv)  an index of the fault-freedom / termination theorems proved in the other slices (see `Audit/C10.lean`).
Heap discipline of the compiled code, real time/memory bounds and the allocation-failure clause are exercised at run
time by `harness/C10.cpp` under ASan/UBSan/LSan; no Lean model can exhibit them.
Helper lemmas: `Lemmas/Inversions.lean`, `Lemmas/IntersectList.lean`; models: `Model/IntersectList.lean`, `Model/AddPaths.lean`.
-/
import ClipperVerif.Lemmas.Inversions
import ClipperVerif.Lemmas.IntersectList
import ClipperVerif.Model.AddPaths
import ClipperVerif.Model.Geom
import ClipperVerif.Generated.Core
import ClipperVerif.Generated.Portable
import ClipperVerif.Generated.Engine
import ClipperVerif.Generated.RectClip
namespace Clipper.Props.C10
open Clipper Clipper.Lemmas.Inversions

/-! ## (i) `ProcessIntersectList`: `while (!EdgesAdjacentInAEL(*node_iter2)) ++node_iter2;`

`π` = current left-to-right order of the active edges, each named by its rank in the order required at the top of
the scanbeam; the intersect nodes still to be processed are the inversions of `π`.  `invPairs`, `invCount`:
`Lemmas/Inversions.lean`. -/

/-- **`adjacent_inversion_exists`.**  If the set `N` of inversions of `π` is not empty (equivalently `π` is not yet in
target order), then some pair of `N` is adjacent in `π`; and exchanging an adjacent inverted pair `a, b` yields a list
whose inversions are those of `π` minus exactly that pair: as multisets `N = (a,b) :: N'`, the count drops by one,
and (distinct keys) `(a,b)` itself is no longer an inversion. -/
theorem adjacent_inversion_exists (π : List Nat) (hN : invPairs π ≠ []) :
    ∃ l₁ a b l₂, π = l₁ ++ a :: b :: l₂ ∧ b < a ∧ (a, b) ∈ invPairs π ∧
      (invPairs π).Perm ((a, b) :: invPairs (l₁ ++ b :: a :: l₂)) ∧
      invCount π = invCount (l₁ ++ b :: a :: l₂) + 1 ∧
      (π.Nodup → (a, b) ∉ invPairs (l₁ ++ b :: a :: l₂)) := by
  obtain ⟨l₁, a, b, l₂, he, hlt⟩ := exists_adjacent_inversion π hN
  subst he
  have hp := invPairs_swap_perm l₁ l₂ a b hlt
  exact ⟨l₁, a, b, l₂, rfl, hlt, hp.symm.subset (List.mem_cons_self ..), hp, invCount_swap l₁ l₂ a b hlt,
    swapped_pair_gone l₁ l₂ a b⟩

/-- `N ≠ ∅` in terms of `List.Pairwise`: there is an inversion iff the list is not sorted. -/
theorem has_inversion_iff_not_sorted (π : List Nat) : invPairs π ≠ [] ↔ ¬ π.Pairwise (· ≤ ·) :=
  not_congr (invPairs_eq_nil_iff π)

/-- an inversion is exactly a pair in the wrong order: `x` before `y` in `π` with `y < x` -/
theorem inversion_iff (π : List Nat) (x y : Nat) : (x, y) ∈ invPairs π ↔ (y < x ∧ [x, y].Sublist π) :=
  mem_invPairs π x y

/-- **The scan stays inside the list.**  Whenever the remaining node list is (a permutation of) the inversions of the
current order and is not empty, it contains a node whose edges are adjacent — so the unbounded
`while (!EdgesAdjacentInAEL(*node_iter2)) ++node_iter2` stops at an element of `intersect_nodes_`. -/
theorem scan_finds_node (π : List Nat) (nodes : List (Nat × Nat)) (hinv : nodes.Perm (invPairs π)) (hne : nodes ≠ []) :
    ∃ n ∈ nodes, ∃ l₁ l₂, π = l₁ ++ n.1 :: n.2 :: l₂ ∧ n.2 < n.1 := by
  have hN : invPairs π ≠ [] := fun h => hne (List.Perm.eq_nil (h ▸ hinv))
  obtain ⟨l₁, a, b, l₂, he, hlt, hm, _⟩ := adjacent_inversion_exists π hN
  exact ⟨(a, b), hinv.symm.subset hm, l₁, l₂, he, hlt⟩

/-- **The loop invariant is kept and the loop ends.**  Processing an adjacent node (exchanging its two edges in the AEL)
leaves exactly the inversions of the new order in the remaining node list, which is one shorter; after `invCount π`
such steps no node is left and the order is the target order. -/
theorem step_preserves_invariant (l₁ l₂ : List Nat) (a b : Nat) (nodes : List (Nat × Nat)) (hlt : b < a)
    (hinv : nodes.Perm (invPairs (l₁ ++ a :: b :: l₂))) :
    (nodes.erase (a, b)).Perm (invPairs (l₁ ++ b :: a :: l₂)) ∧ (nodes.erase (a, b)).length + 1 = nodes.length := by
  have hp := hinv.trans (invPairs_swap_perm l₁ l₂ a b hlt)
  have hm : (a, b) ∈ nodes := hp.symm.subset (List.mem_cons_self ..)
  refine ⟨?_, ?_⟩
  · have := (List.perm_cons_erase hm).symm.trans hp
    exact List.Perm.cons_inv this
  · rw [List.length_erase_of_mem hm]
    have : 0 < nodes.length := List.length_pos_of_mem hm
    omega

/-- no inversions left ⇒ the edges are in target order (`List.Pairwise (· ≤ ·)`) -/
theorem done_iff_sorted (π : List Nat) : invCount π = 0 ↔ π.Pairwise (· ≤ ·) := by
  rw [invCount_eq_length, List.length_eq_zero_iff, invPairs_eq_nil_iff]

/-- **The modelled loop of `ProcessIntersectList` commits no out-of-range read and terminates.**  `process` is the
executable model (`Model/IntersectList.lean`: the `for` loop, the unbounded inner `while` as `scanSwap`, which returns
`none` when the iterator would pass `end()`, `std::swap` of the two nodes, `SwapPositionsInAEL`).  Started on distinct
keys with a node list that is any permutation (any processing order `std::sort` may produce) of the inversions of the
AEL order, it returns `.ok π'` — never `.error scanPastEnd` — and `π'` is the same edges in target order.
Premise not proved here: that `BuildIntersectList` produces exactly the inversions (design item **S**; the H4 probe
would check it on real runs). -/
theorem processIntersectList_no_fault (π : List Nat) (nodes : List (Nat × Nat)) (hnd : π.Nodup)
    (hinv : nodes.Perm (invPairs π)) :
    ∃ π', Clipper.Model.IntersectList.process nodes.length π nodes = .ok π' ∧ π'.Pairwise (· ≤ ·) ∧ π'.Perm π :=
  Clipper.Lemmas.IntersectList.process_ok nodes.length π nodes rfl hnd hinv

/-- non-vacuity of the hypotheses, and the model does fault when the premise is violated (a node that is not an
inversion and never becomes adjacent): -/
example : [2, 0, 1].Nodup ∧ [(2, 1), (2, 0)].Perm (invPairs [2, 0, 1]) ∧
    Clipper.Model.IntersectList.process 2 [2, 0, 1] [(2, 1), (2, 0)] = .ok [0, 1, 2] ∧
    Clipper.Model.IntersectList.process 1 [0, 1, 2] [(0, 2)] = .error .scanPastEnd :=
  ⟨by decide, by decide, rfl, rfl⟩

/-- non-vacuity: the order `[2, 0, 1]` has the inversions `(2,0), (2,1)`; `(2,0)` is adjacent, `(2,1)` is not, and after
exchanging `2, 0` the only inversion left is `(2,1)`, which now is adjacent. -/
example : invPairs [2, 0, 1] = [(2, 0), (2, 1)] ∧ invPairs [0, 2, 1] = [(2, 1)] ∧ invCount [2, 0, 1] = 2 := by decide

/-! ## (iii) `AddPaths_`: writes stay inside `new Vertex[total_vertex_count]` -/
section AddPaths
open Clipper.Model.AddPaths

theorem changes_le (prev : Pt) (l : List Pt) : changes prev l ≤ l.length := by
  induction l generalizing prev with
  | nil => simp [changes]
  | cons b t ih =>
    simp only [changes, List.length_cons]
    split
    · have := ih prev; omega
    · have := ih b; omega

/-- a path never occupies more cells than it has points -/
theorem written_le (p : List Pt) : written p ≤ p.length := by
  cases p with
  | nil => simp [written]
  | cons a t => have := changes_le a t; simp [written]; omega

theorem cursor_bound (paths : List (List Pt)) (c : Cur) (n : Nat) (hv : c.v ≤ n) (hh : c.hi ≤ n) :
    (paths.foldl stepPath c).v ≤ n + total paths ∧ (paths.foldl stepPath c).hi ≤ n + total paths := by
  induction paths generalizing c n with
  | nil => simpa [total] using ⟨hv, hh⟩
  | cons p ps ih =>
    have hw := written_le p
    have h := ih (stepPath c p) (n + p.length)
      (by simp only [stepPath]; split <;> omega)
      (by simp only [stepPath]; split <;> omega)
    simp only [List.foldl_cons, total, List.map_cons, List.sum_cons] at h ⊢
    omega

/-- **`addPaths_vertex_count`.**  For every list of paths (empty paths, single points, runs of duplicates, paths that
are skipped without advancing the cursor included) every cell written lies below `total_vertex_count`, the size of
the array allocated; the cursor itself also never passes it. -/
theorem addPaths_vertex_count (paths : List (List Pt)) :
    (cursor paths).hi ≤ total paths ∧ (cursor paths).v ≤ total paths := by
  have := cursor_bound paths ⟨0, 0⟩ 0 (Nat.le_refl 0) (Nat.le_refl 0)
  simp only [Nat.zero_add] at this
  exact ⟨this.2, this.1⟩

/-- the early return `if (total_vertex_count == 0) return;` is taken exactly when nothing would be written -/
theorem addPaths_nothing_written_of_total_zero (paths : List (List Pt)) (h : total paths = 0) : (cursor paths).hi = 0 := by
  have := (addPaths_vertex_count paths).1; omega

/-- non-vacuity: an all-equal path (skipped, cursor not advanced) followed by a triangle with a duplicate -/
example : cursor [[⟨1, 1⟩, ⟨1, 1⟩], [⟨0, 0⟩, ⟨0, 0⟩, ⟨5, 0⟩, ⟨0, 5⟩]] = ⟨3, 3⟩ ∧
    total [[⟨1, 1⟩, ⟨1, 1⟩], [⟨0, 0⟩, ⟨0, 0⟩, ⟨5, 0⟩, ⟨0, 5⟩]] = 6 := by decide
end AddPaths

/-! ## (ii) no signed overflow up to 2^29 -/

/-- the value is representable in `int64_t` -/
def inI64 (v : Int) : Prop := -9223372036854775808 ≤ v ∧ v ≤ 9223372036854775807

/-- a coordinate within the stated range -/
def C29 (v : Int) : Prop := -536870912 ≤ v ∧ v ≤ 536870912

theorem diff_bound {a b : Int} (ha : C29 a) (hb : C29 b) : -1073741824 ≤ a - b ∧ a - b ≤ 1073741824 := by
  unfold C29 at ha hb; omega

theorem sum_bound {a b : Int} (ha : C29 a) (hb : C29 b) : -1073741824 ≤ a + b ∧ a + b ≤ 1073741824 := by
  unfold C29 at ha hb; omega

/-- product of two values of magnitude ≤ 2^30 has magnitude ≤ 2^60 -/
theorem mul_bound {a b : Int} (ha : -1073741824 ≤ a ∧ a ≤ 1073741824) (hb : -1073741824 ≤ b ∧ b ≤ 1073741824) :
    -1152921504606846976 ≤ a * b ∧ a * b ≤ 1152921504606846976 := by
  have h1 : a.natAbs ≤ 1073741824 := by omega
  have h2 : b.natAbs ≤ 1073741824 := by omega
  have h3 : (a * b).natAbs ≤ 1073741824 * 1073741824 := by
    rw [Int.natAbs_mul]; exact Nat.mul_le_mul h1 h2
  have h4 : (1073741824 : Nat) * 1073741824 = 1152921504606846976 := by decide
  omega

theorem inI64_of_2p60 {v : Int} (h : -1152921504606846976 ≤ v ∧ v ≤ 1152921504606846976) : inI64 v := by
  unfold inI64; omega

/-- **`CrossProductSign` / `IsCollinear` (128-bit build).**  The four `int64_t` differences have magnitude ≤ 2^30 and the
two products (computed in `__int128` there) have magnitude ≤ 2^60: they would even fit `int64_t`. -/
theorem crossProductSign_intermediates (x1 y1 x2 y2 x3 y3 : Int)
    (h : C29 x1 ∧ C29 y1 ∧ C29 x2 ∧ C29 y2 ∧ C29 x3 ∧ C29 y3) :
    inI64 (x2 - x1) ∧ inI64 (y3 - y2) ∧ inI64 (y2 - y1) ∧ inI64 (x3 - x2) ∧
    inI64 ((x2 - x1) * (y3 - y2)) ∧ inI64 ((y2 - y1) * (x3 - x2)) := by
  obtain ⟨h1, h2, h3, h4, h5, h6⟩ := h
  have a := diff_bound h3 h1; have b := diff_bound h6 h4; have c := diff_bound h4 h2; have d := diff_bound h5 h3
  refine ⟨?_, ?_, ?_, ?_, inI64_of_2p60 (mul_bound a b), inI64_of_2p60 (mul_bound c d)⟩ <;> unfold inI64 <;> omega

/-- the generated `CrossProductSign` is the sign of the difference of exactly those two products, so under the bound its
value is decided by `int64_t`-representable quantities -/
theorem crossProductSign_spec (x1 y1 x2 y2 x3 y3 : Int) :
    Clipper.Gen.CrossProductSign x1 y1 x2 y2 x3 y3 =
      (if (x2 - x1) * (y3 - y2) > (y2 - y1) * (x3 - x2) then 1 else if (x2 - x1) * (y3 - y2) < (y2 - y1) * (x3 - x2) then -1 else 0) := by
  simp [Clipper.Gen.CrossProductSign]

/-- **portable branch** (`std::abs`, then `Multiply` on `uint64_t`): `std::abs` is applied to values of magnitude ≤ 2^30
(never `INT64_MIN`, for which it is undefined), its result is representable, and the products of the absolute values
are below 2^61 (so the high word of `Multiply` is 0 and nothing wraps). -/
theorem portable_abs_intermediates (x1 y1 x2 y2 x3 y3 : Int)
    (h : C29 x1 ∧ C29 y1 ∧ C29 x2 ∧ C29 y2 ∧ C29 x3 ∧ C29 y3) :
    let a := x2 - x1; let b := y3 - y2; let c := y2 - y1; let d := x3 - x2
    a ≠ -9223372036854775808 ∧ b ≠ -9223372036854775808 ∧ c ≠ -9223372036854775808 ∧ d ≠ -9223372036854775808 ∧
    inI64 (Clipper.Gen.iabs a) ∧ inI64 (Clipper.Gen.iabs b) ∧ inI64 (Clipper.Gen.iabs c) ∧ inI64 (Clipper.Gen.iabs d) ∧
    Clipper.Gen.iabs a * Clipper.Gen.iabs b < 2305843009213693952 ∧ Clipper.Gen.iabs c * Clipper.Gen.iabs d < 2305843009213693952 := by
  obtain ⟨h1, h2, h3, h4, h5, h6⟩ := h
  have a := diff_bound h3 h1; have b := diff_bound h6 h4; have c := diff_bound h4 h2; have d := diff_bound h5 h3
  have iab : ∀ v : Int, -1073741824 ≤ v ∧ v ≤ 1073741824 → -1073741824 ≤ Clipper.Gen.iabs v ∧ Clipper.Gen.iabs v ≤ 1073741824 := by
    intro v hv; unfold Clipper.Gen.iabs; split <;> omega
  have m1 := mul_bound (iab _ a) (iab _ b)
  have m2 := mul_bound (iab _ c) (iab _ d)
  have ia := iab _ a; have ib := iab _ b; have ic := iab _ c; have id := iab _ d
  refine ⟨by omega, by omega, by omega, by omega, ?_, ?_, ?_, ?_, by omega, by omega⟩ <;> unfold inI64 <;> omega

/-- **`PtsReallyClose`**: the two differences fed to `std::abs` have magnitude ≤ 2^30 -/
theorem ptsReallyClose_intermediates (x1 y1 x2 y2 : Int) (h : C29 x1 ∧ C29 y1 ∧ C29 x2 ∧ C29 y2) :
    inI64 (x1 - x2) ∧ inI64 (y1 - y2) ∧ x1 - x2 ≠ -9223372036854775808 ∧ y1 - y2 ≠ -9223372036854775808 ∧
    inI64 (Clipper.Gen.iabs (x1 - x2)) ∧ inI64 (Clipper.Gen.iabs (y1 - y2)) := by
  obtain ⟨h1, h2, h3, h4⟩ := h
  have a := diff_bound h1 h3; have b := diff_bound h2 h4
  unfold inI64 Clipper.Gen.iabs
  refine ⟨by omega, by omega, by omega, by omega, ?_, ?_⟩ <;> split <;> omega

/-- **`Area`**: for each shoelace term `(it2->y + it1->y) * (it2->x - it1->x)` the sum and the difference (the `int64_t`
operations) have magnitude ≤ 2^30, and the term itself (a `double` product in C++) has magnitude ≤ 2^60 < 2^61. -/
theorem areaTerm_intermediates (p2 p1 : Pt) (h : C29 p2.x ∧ C29 p2.y ∧ C29 p1.x ∧ C29 p1.y) :
    inI64 (p2.y + p1.y) ∧ inI64 (p2.x - p1.x) ∧
    -2305843009213693952 < Clipper.Model.areaTerm p2 p1 ∧ Clipper.Model.areaTerm p2 p1 < 2305843009213693952 := by
  obtain ⟨h1, h2, h3, h4⟩ := h
  have s := sum_bound h2 h4; have d := diff_bound h1 h3
  have m := mul_bound s d
  unfold Clipper.Model.areaTerm inI64
  refine ⟨by omega, by omega, by omega, by omega⟩

/-- The remaining generated integer functions perform no arithmetic on coordinates: `GetLocation`, `GetEdgesForPt`,
`IsHeadingClockwise`, `HasHorzOverlap`, `HasVertOverlap`, `IsContributingClosed/Open` only compare; the location helpers
compute on enum values 0..4: `(loc + delta) % 4` with `delta ∈ {1, 3}` stays within `0..7` before the remainder. -/
theorem location_arith_small (loc : Nat) (hl : loc ≤ 4) (delta : Nat) (hd : delta = 1 ∨ delta = 3) :
    loc + delta ≤ 7 ∧ (loc + delta) % 4 < 4 := by omega

/-- **`no_overflow_2p29`** — the clauses above collected: with every coordinate in [-2^29, 2^29] each `int64_t`
intermediate of `CrossProductSign`/`IsCollinear` (both code paths), `PtsReallyClose` and `Area` is representable. -/
theorem no_overflow_2p29 (x1 y1 x2 y2 x3 y3 : Int) (h : C29 x1 ∧ C29 y1 ∧ C29 x2 ∧ C29 y2 ∧ C29 x3 ∧ C29 y3) :
    (inI64 (x2 - x1) ∧ inI64 (y3 - y2) ∧ inI64 (y2 - y1) ∧ inI64 (x3 - x2) ∧
      inI64 ((x2 - x1) * (y3 - y2)) ∧ inI64 ((y2 - y1) * (x3 - x2))) ∧
    (inI64 (x1 - x2) ∧ inI64 (y1 - y2)) ∧
    (inI64 (y2 + y1) ∧ inI64 (x2 - x1) ∧ inI64 (Clipper.Model.areaTerm ⟨x2, y2⟩ ⟨x1, y1⟩)) := by
  have hc := crossProductSign_intermediates x1 y1 x2 y2 x3 y3 h
  obtain ⟨h1, h2, h3, h4, h5, h6⟩ := h
  have hp := ptsReallyClose_intermediates x1 y1 x2 y2 ⟨h1, h2, h3, h4⟩
  have ha := areaTerm_intermediates ⟨x2, y2⟩ ⟨x1, y1⟩ ⟨h3, h4, h1, h2⟩
  refine ⟨hc, ⟨hp.1, hp.2.1⟩, ha.1, ha.2.1, ?_⟩
  unfold inI64; omega

example : C29 536870912 ∧ C29 (-536870912) ∧ C29 0 := by unfold C29; omega

/-! ### `TopX`: `bot.x + static_cast<int64_t>(nearbyint(dx * (currentY - bot.y)))`, `dx = (top.x - bot.x) / (top.y - bot.y)`

A statement "the cast is in range for |coordinate| ≤ 2^62" is **not provable — it is false** (known finding
`kf.ub.topx_overflow*`).  What holds: the exact value of the product is `Δx·Δy / ΔyE` (`Δx = top.x − bot.x`,
`ΔyE = top.y − bot.y ≠ 0`, `Δy = currentY − bot.y`), it fits `int64_t` iff `|Δx·Δy| < 2^63·|ΔyE|`; this is guaranteed
while `currentY` lies within the edge's own y-range, and for arbitrary `currentY` when coordinates are ≤ 2^30. -/

/-- the precise condition, as a definition over the exact rational value -/
def TopXFits (dX dYE dY : Int) : Prop := (dX * dY).natAbs < 9223372036854775808 * dYE.natAbs

/-- inside the edge's own y-range (`|Δy| ≤ |ΔyE|`) the product is at most `|Δx|`: fits whenever `Δx` itself does -/
theorem topX_fits_inside_edge (dX dYE dY : Int) (hE : dYE ≠ 0) (hin : dY.natAbs ≤ dYE.natAbs)
    (hx : dX.natAbs < 9223372036854775808) : TopXFits dX dYE dY := by
  unfold TopXFits
  rw [Int.natAbs_mul]
  have hpos : 0 < dYE.natAbs := Int.natAbs_pos.mpr hE
  calc dX.natAbs * dY.natAbs ≤ dX.natAbs * dYE.natAbs := Nat.mul_le_mul_left _ hin
    _ < 9223372036854775808 * dYE.natAbs := Nat.mul_lt_mul_of_pos_right hx hpos

/-- for coordinates of magnitude ≤ 2^30 (differences ≤ 2^31) the product fits for **every** `currentY`, also outside the
edge's y-range (this is the bound the harness uses for general random input) -/
theorem topX_fits_2p30 (dX dYE dY : Int) (hE : dYE ≠ 0) (hx : dX.natAbs ≤ 2147483648) (hy : dY.natAbs ≤ 2147483648) :
    TopXFits dX dYE dY := by
  unfold TopXFits
  rw [Int.natAbs_mul]
  have hpos : 1 ≤ dYE.natAbs := Int.natAbs_pos.mpr hE
  have h1 : dX.natAbs * dY.natAbs ≤ 2147483648 * 2147483648 := Nat.mul_le_mul hx hy
  have h2 : (2147483648 : Nat) * 2147483648 = 4611686018427387904 := by decide
  have h3 : 9223372036854775808 * 1 ≤ 9223372036854775808 * dYE.natAbs := Nat.mul_le_mul_left _ hpos
  omega

/-- **the condition fails inside the documented range**: an edge with `Δx = 2^35`, `ΔyE = 1`, asked for its x at
`Δy = 2^35` (cf. the harness witness `kf.ub.topx_overflow.2p35`: coordinates ≤ 2^35) -/
theorem topX_does_not_fit_witness : ¬ TopXFits 34359738368 1 34359738368 := by
  unfold TopXFits; decide

end Clipper.Props.C10
