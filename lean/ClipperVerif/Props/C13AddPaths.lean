/-
C13 (representation independence), C12 (which minima a path set yields), C10 (content of the sizing claim):
theorems about the model of `AddPaths_` / `AddLocMin` (Model/AddPathsRings.lean; clipper.engine.cpp:602-714).

Vocabulary (definitions in Lemmas/AddPathsRings.lean): `pushPts none path` = the points the point loop writes;
`NoAdjDup` / `CycNoAdjDup` = no two (cyclic) neighbours equal; `Stutter r l` = `l` is `r` with elements repeated in place;
`ringOf` = the written points minus an explicit closing vertex (closed paths); `IsRot a b` = `a = x ++ y`, `b = y ++ x`;
`closedFlagsAt v others` / `specW` = the flags of a vertex of a closed ring in the code's sense (see `minima_are_minima`);
`minIdx 0 flags` = the indices flagged `LocalMin`, ascending.

The y axis points down: a local *minimum* is a bottom vertex (locally largest `y`), where the sweep starts two bounds.
-/
import ClipperVerif.Lemmas.AddPathsRings
import ClipperVerif.Lemmas.History
import ClipperVerif.Generated.Engine
namespace Clipper.Props.C13AddPaths
open Clipper Clipper.Model.AddPathsRings Clipper.Lemmas.AddPathsRings

/-! ## (1) the ring -/

/-- **written_spec.**  The point loop writes a subsequence of the path in which no two consecutive points are equal, and the
path is that subsequence with points repeated in place: exactly the consecutive duplicates are skipped (the three facts
determine the written list uniquely: `pushPts_of_stutter`, `pushPts_of_noAdjDup`). -/
theorem written_spec (path : List Pt) :
    (pushPts none path).Sublist path ∧ NoAdjDup (pushPts none path) ∧ Stutter (pushPts none path) path :=
  ⟨pushPts_sublist none path, pushPts_noAdjDup path, pushPts_stutter path⟩

/-- uniqueness: any duplicate-free `r` of which the path is a stutter is what the loop writes -/
theorem written_unique (r path : List Pt) (h : Stutter r path) (hr : NoAdjDup r) : pushPts none path = r := by
  rw [pushPts_of_stutter h, pushPts_of_noAdjDup r hr]

/-- **addPath_ring.**  With `vs` the path minus consecutive duplicates: `cnt = |vs|` slots are written.
Fewer than two distinct consecutive vertices: nothing is linked (no ring, no flags, no minima; the slot is given back).
Otherwise the ring is `vs` for an open path, and for a closed path `vs` without its last vertex if that repeats the
first (`vs` otherwise); it has at least two vertices, as many flags as vertices, no two neighbours equal — cyclically for a
closed path — and every minimum index is a valid ring index. -/
theorem addPath_ring (isOpen : Bool) (path : List Pt) :
    let vs := pushPts none path
    let o := addPath isOpen path
    o.cnt = vs.length ∧ o.flags.length = o.pts.length ∧ (∀ m ∈ o.minima, m < o.pts.length) ∧
    (vs.length < 2 → o.pts = [] ∧ o.flags = [] ∧ o.minima = [] ∧ o.used = 0) ∧
    (2 ≤ vs.length →
      o.pts = (if isOpen = false ∧ vs.getLast? = vs.head? then vs.dropLast else vs) ∧ 2 ≤ o.pts.length ∧ o.used = vs.length ∧
      o.pts.head? = vs.head? ∧ (if isOpen then NoAdjDup o.pts else CycNoAdjDup o.pts)) := by
  intro vs o
  have hs := addPath_sizes isOpen path
  refine ⟨hs.1, hs.2.1, hs.2.2.2.1, ?_, ?_⟩
  · intro h
    have ho : o = addPath isOpen path := rfl
    rw [ho, addPath_short isOpen path h]; simp [PathOut.used]
  · intro h
    obtain ⟨r0, rtl, hr, hne, heq⟩ := addPath_long isOpen path h
    have hpts : o.pts = ringOf isOpen vs := by
      show (addPath isOpen path).pts = _
      rw [heq, hr]; split <;> rfl
    have hn : NoAdjDup vs := pushPts_noAdjDup path
    have hused : o.used = vs.length := by
      show (addPath isOpen path).used = _
      have : (addPath isOpen path).pts = r0 :: rtl := by rw [← hr]; exact hpts
      unfold PathOut.used; rw [this, hs.1]; rfl
    cases isOpen with
    | true =>
      rw [ringOf_open] at hpts
      refine ⟨by simpa using hpts, by rw [hpts]; exact h, hused, by rw [hpts], ?_⟩
      simp only [if_true]; rw [hpts]; exact hn
    | false =>
      have hc := ringOf_closed_spec vs hn h
      refine ⟨?_, by rw [hpts]; exact hc.1, hused, by rw [hpts]; exact hc.2.2, ?_⟩
      · rw [hpts]; unfold ringOf; simp
      · simp only [Bool.false_eq_true, if_false]; rw [hpts]; exact hc.2.1

example : (addPath false [⟨0,0⟩, ⟨0,0⟩, ⟨4,0⟩, ⟨4,4⟩, ⟨4,4⟩, ⟨0,0⟩]).pts = [⟨0,0⟩, ⟨4,0⟩, ⟨4,4⟩] := by decide
example : (addPath true [⟨0,0⟩, ⟨0,0⟩, ⟨4,0⟩, ⟨4,4⟩, ⟨4,4⟩, ⟨0,0⟩]).pts = [⟨0,0⟩, ⟨4,0⟩, ⟨4,4⟩, ⟨0,0⟩] := by decide
example : (addPath false [⟨1,1⟩, ⟨1,1⟩, ⟨1,1⟩]).pts = [] ∧ (addPath false [⟨1,1⟩, ⟨1,1⟩, ⟨1,1⟩]).cnt = 1 := by decide

/-! ## (3) duplicates and the closing vertex -/

/-- **addPath_dup.**  Repeating a vertex in place, anywhere in the path, open or closed, changes nothing at all: same slot
count, same ring, same flags, same minima. -/
theorem addPath_dup (isOpen : Bool) (l₁ : List Pt) (a : Pt) (l₂ : List Pt) :
    addPath isOpen (l₁ ++ a :: a :: l₂) = addPath isOpen (l₁ ++ a :: l₂) :=
  addPath_congr isOpen (pushPts_insert_dup none l₁ a l₂)

/-- the same for any number of repetitions at any number of places -/
theorem addPath_stutter (isOpen : Bool) {r l : List Pt} (h : Stutter r l) : addPath isOpen l = addPath isOpen r :=
  addPath_congr isOpen (pushPts_of_stutter h)

example : Stutter [⟨0,0⟩, ⟨4,0⟩, ⟨4,4⟩] [⟨0,0⟩, ⟨0,0⟩, ⟨4,0⟩, ⟨4,4⟩, ⟨4,4⟩, ⟨4,4⟩] :=
  .dup _ (.cons _ (.cons _ (.dup _ (.dup _ (.cons _ .nil)))))

/-- **addPath_closing.**  Appending the first vertex to a closed path that has at least three distinct consecutive
vertices and does not already end in its first vertex leaves ring, flags and minima unchanged; one more slot is written
(and stays unlinked). -/
theorem addPath_closing (a : Pt) (l : List Pt)
    (h3 : 3 ≤ (pushPts none (a :: l)).length) (hlast : (pushPts none (a :: l)).getLast? ≠ some a) :
    let o := addPath false (a :: l)
    let o' := addPath false (a :: l ++ [a])
    o'.pts = o.pts ∧ o'.flags = o.flags ∧ o'.minima = o.minima ∧ o'.cnt = o.cnt + 1 := by
  intro o o'
  have hvs : pushPts none (a :: l ++ [a]) = pushPts none (a :: l) ++ [a] := by
    have hk : lastKept none (a :: l) ≠ some a := by
      rw [← pushPts_getLast]; simpa using hlast
    have := pushPts_concat none (a :: l) a
    simpa [hk] using this
  obtain ⟨r0, rtl, hr, _, heq⟩ := addPath_long false (a :: l) (by omega)
  obtain ⟨r0', rtl', hr', _, heq'⟩ := addPath_long false (a :: l ++ [a]) (by rw [hvs]; simp)
  have hring : ringOf false (pushPts none (a :: l) ++ [a]) = pushPts none (a :: l) :=
    ringOf_false_concat_eq _ a (by simp)
  have hring0 : ringOf false (pushPts none (a :: l)) = pushPts none (a :: l) := by
    unfold ringOf; simp at hlast ⊢; intro h; exact absurd h hlast
  rw [hvs, hring] at hr'
  rw [hring0] at hr
  have hrr : r0' :: rtl' = r0 :: rtl := by rw [← hr, ← hr']
  obtain ⟨h1, h2⟩ := List.cons.inj hrr
  subst h1 h2
  have hc1 : noMinimaCase false (pushPts none (a :: l)).length = false := noMinimaCase_of_three _ _ h3
  have hc2 : noMinimaCase false (pushPts none (a :: l ++ [a])).length = false :=
    noMinimaCase_of_three _ _ (by rw [hvs, List.length_append]; omega)
  have ho : o = addPath false (a :: l) := rfl
  have ho' : o' = addPath false (a :: l ++ [a]) := rfl
  rw [ho, ho', heq, heq', hc1, hc2, hvs]
  simp

example : 3 ≤ (pushPts none [⟨0,0⟩, ⟨4,0⟩, ⟨4,4⟩]).length ∧ (pushPts none [(⟨0,0⟩ : Pt), ⟨4,0⟩, ⟨4,4⟩]).getLast? ≠ some ⟨0,0⟩ := by decide

/-- **closing_two_vertex_quirk** (the property fails here).  `cnt` counts a dropped closing vertex, so line 651
(`cnt == 2 && !is_open`) lets the two-vertex ring of `[A, B, A]` through to the minima search while `[A, B]` and the
rotation `[B, A, A]` — the same closed path — get no minima.  (With the public API the extra pair of coincident bounds adds
vertices to other polygons' results: harness record `kf.two-vertex-ring.execute`.) -/
theorem closing_two_vertex_quirk :
    (addPath false [⟨0,0⟩, ⟨5,5⟩]).minima = [] ∧ (addPath false [⟨5,5⟩, ⟨0,0⟩, ⟨0,0⟩]).minima = [] ∧
    (addPath false [⟨0,0⟩, ⟨5,5⟩, ⟨0,0⟩]).minima = [1] ∧
    (addPath false [⟨0,0⟩, ⟨5,5⟩]).pts = (addPath false [⟨0,0⟩, ⟨5,5⟩, ⟨0,0⟩]).pts := by decide

/-- in general: a closed path with exactly two written vertices gets no minima -/
theorem closed_two_written_no_minima (path : List Pt) (h : (pushPts none path).length = 2) :
    (addPath false path).minima = [] ∧ (addPath false path).flags = (addPath false path).pts.map (fun _ => VFlags.empty) := by
  obtain ⟨r0, rtl, _, _, heq⟩ := addPath_long false path (by omega)
  rw [heq, h]; simp [noMinimaCase]

/-! ## (4) what the flags mean -/

/-- **minima_are_flagged.**  `AddLocMin`'s "only once" guard never discards anything: the minima appended for a path are
exactly the ring vertices that end up flagged `LocalMin`, each once, in ring order. -/
theorem minima_are_flagged (isOpen : Bool) (path : List Pt) :
    (addPath isOpen path).minima = minIdx 0 (addPath isOpen path).flags := by
  by_cases h : (pushPts none path).length < 2
  · rw [addPath_short isOpen path h]; rfl
  · obtain ⟨r0, rtl, _, _, heq⟩ := addPath_long isOpen path (by omega)
    rw [heq]
    split
    · simp only
      rw [minIdx_all_empty]
      intro f hf
      simp only [List.mem_map] at hf
      obtain ⟨_, _, rfl⟩ := hf; rfl
    · exact findMinima_minima isOpen r0 rtl

/-- **minima_are_minima (closed paths).**  For a closed path of at least three written vertices the flags are, vertex by
vertex, `closedFlagsAt v (the other vertices in ring order)`:
`LocalMin` iff the ring arrives at `v` *downwards* — the nearest preceding vertex with a different `y`, found by walking
backwards around the ring, has smaller `y` — and leaves it upwards (`next.y < v.y`); `LocalMax` iff it arrives upwards and
leaves downwards (`next.y > v.y`).  So of a horizontal run at the bottom (top) exactly the *last* vertex in ring order is
the local minimum (maximum); a completely flat ring has no flags; no vertex is `OpenStart`/`OpenEnd`. -/
theorem minima_are_minima_closed (path : List Pt) (h : 3 ≤ (pushPts none path).length) :
    (addPath false path).flags = specW (addPath false path).pts [] := by
  obtain ⟨r0, rtl, _, hne, heq⟩ := addPath_long false path (by omega)
  have hc : noMinimaCase false (pushPts none path).length = false := noMinimaCase_of_three _ _ h
  rw [heq, hc]
  exact closed_flags_spec r0 rtl hne

example : (addPath false [⟨0,5⟩, ⟨3,5⟩, ⟨6,5⟩, ⟨6,0⟩, ⟨0,0⟩]).flags.map VFlags.bits = [0, 0, 8, 0, 4] := by decide
example : (addPath false [⟨3,5⟩, ⟨6,5⟩, ⟨6,0⟩, ⟨0,0⟩, ⟨0,5⟩]).flags.map VFlags.bits = [0, 8, 0, 4, 0] := by decide

/-- **minima_are_minima (open paths).**  For an open path of at least two written vertices the flags are, vertex by
vertex, `openFlagsAt (vertices before) v (vertices after)`:
* the first vertex is `OpenStart`, and a `LocalMin` if the first later vertex with a different `y` lies above it (smaller `y`)
  or the whole path is flat, else a `LocalMax` — horizontal edges at the start are looked through;
* the last vertex is `OpenEnd`, and a `LocalMax` if the path arrives at it upwards (`dirAt`: last non-horizontal edge; a flat
  path counts as going up), else a `LocalMin`;
* an interior vertex is a `LocalMax` iff the path arrives upwards and the next vertex is lower (`next.y > v.y`), a `LocalMin` iff it
  arrives downwards and the next vertex is higher: of an interior horizontal run at an extremum the last vertex carries the flag. -/
theorem minima_are_minima_open (path : List Pt) (h : 2 ≤ (pushPts none path).length) :
    (addPath true path).flags = specOpen [] (addPath true path).pts := by
  obtain ⟨r0, rtl, _, hne, heq⟩ := addPath_long true path h
  have hc : noMinimaCase true (pushPts none path).length = false := by
    unfold noMinimaCase
    have h1 : ¬ (pushPts none path).length < 2 := by omega
    simp [h1]
  rw [heq, hc]
  exact open_flags_spec r0 rtl hne

example : (addPath true [⟨0,5⟩, ⟨3,5⟩, ⟨6,5⟩, ⟨6,0⟩, ⟨0,0⟩]).flags.map VFlags.bits = [9, 0, 0, 0, 6] := by decide
example : (addPath true [⟨0,0⟩, ⟨3,0⟩, ⟨6,0⟩]).flags.map VFlags.bits = [9, 0, 6] := by decide
example : (addPath true [⟨0,0⟩, ⟨3,5⟩, ⟨6,5⟩, ⟨9,0⟩]).flags.map VFlags.bits = [5, 0, 8, 6] := by decide

/-- **extrema_alternate (closed paths).**  Going round a closed ring, `LocalMax` and `LocalMin` vertices alternate — also across
the start vertex — no vertex is both, and there are equally many of each. -/
theorem extrema_alternate_closed (path : List Pt) (h : 3 ≤ (pushPts none path).length) :
    let fl := (addPath false path).flags
    Alt (events fl) ∧ (events fl ≠ [] → (events fl).head? ≠ (events fl).getLast?) ∧
    (∀ f ∈ fl, ¬ (f.localMax = true ∧ f.localMin = true)) ∧
    (fl.filter (·.localMax)).length = (fl.filter (·.localMin)).length := by
  intro fl
  have hexcl : ∀ f ∈ fl, ¬ (f.localMax = true ∧ f.localMin = true) := by
    show ∀ f ∈ (addPath false path).flags, _
    rw [minima_are_minima_closed path h]; exact specW_excl _ _
  obtain ⟨r0, rtl, _, _, heq⟩ := addPath_long false path (by omega)
  have hfl : fl = (findMinima false r0 rtl).1 := by
    show (addPath false path).flags = _
    rw [heq, noMinimaCase_of_three _ _ h]; rfl
  obtain ⟨g, hg⟩ := closed_flags_alt r0 rtl
  rw [← hfl] at hg
  obtain ⟨ha, hc, hl⟩ := altEnd_spec g g _ hg
  have hcnt := events_count fl hexcl
  refine ⟨ha, ?_, hexcl, by omega⟩
  intro hne
  rw [(hl hne).1, (hl hne).2]; cases g <;> simp

/-- **extrema_alternate (open paths).**  Along an open path the start vertex, the interior extrema and the end vertex alternate
between `LocalMin` and `LocalMax`; no vertex is both; so the two counts differ by at most one. -/
theorem extrema_alternate_open (path : List Pt) (h : 2 ≤ (pushPts none path).length) :
    let fl := (addPath true path).flags
    Alt (events fl) ∧ (∀ f ∈ fl, ¬ (f.localMax = true ∧ f.localMin = true)) ∧
    (fl.filter (·.localMax)).length ≤ (fl.filter (·.localMin)).length + 1 ∧
    (fl.filter (·.localMin)).length ≤ (fl.filter (·.localMax)).length + 1 := by
  intro fl
  have hexcl : ∀ f ∈ fl, ¬ (f.localMax = true ∧ f.localMin = true) := by
    show ∀ f ∈ (addPath true path).flags, _
    rw [minima_are_minima_open path h]; exact specOpen_excl _ _
  obtain ⟨r0, rtl, _, hne, heq⟩ := addPath_long true path h
  have hfl : fl = (findMinima true r0 rtl).1 := by
    show (addPath true path).flags = _
    have hc : noMinimaCase true (pushPts none path).length = false := by
      unfold noMinimaCase
      have h1 : ¬ (pushPts none path).length < 2 := by omega
      simp [h1]
    rw [heq, hc]; rfl
  obtain ⟨gEnd, hg⟩ := open_flags_alt r0 rtl hne
  rw [← hfl] at hg
  obtain ⟨ha, hc, _⟩ := altEnd_spec _ gEnd _ hg
  have hcnt := events_count fl hexcl
  refine ⟨ha, hexcl, ?_, ?_⟩ <;> (rw [← hcnt.1, ← hcnt.2]; split at hc <;> split at hc <;> omega)

/-! ## (2) rotating the start vertex -/

/-- **addPath_rotate.**  Starting a closed path at another vertex (`l₁ ++ l₂` ↦ `l₂ ++ l₁`), for a ring of at least three
vertices: the ring is the same cyclic sequence read from another start, and the flags move with their vertices. -/
theorem addPath_rotate (l₁ l₂ : List Pt) (h3 : 3 ≤ (addPath false (l₁ ++ l₂)).pts.length) :
    ∃ x y : List Pt,
      (addPath false (l₁ ++ l₂)).pts = x ++ y ∧ (addPath false (l₂ ++ l₁)).pts = y ++ x ∧
      (addPath false (l₁ ++ l₂)).flags = specW x y ++ specW y x ∧ (addPath false (l₂ ++ l₁)).flags = specW y x ++ specW x y := by
  have key : ∀ p : List Pt, 3 ≤ (cdedup p).length →
      (addPath false p).pts = cdedup p ∧ (addPath false p).flags = specW (cdedup p) [] := by
    intro p hp
    have hle := ringOf_length_le false (pushPts none p)
    have hvs : 3 ≤ (pushPts none p).length := by unfold cdedup at hp; omega
    have hr := (addPath_ring false p).2.2.2.2 (by omega)
    have hpts : (addPath false p).pts = cdedup p := by
      rw [hr.1]; unfold cdedup ringOf; simp
    exact ⟨hpts, by rw [minima_are_minima_closed p hvs, hpts]⟩
  have hA : (addPath false (l₁ ++ l₂)).pts = cdedup (l₁ ++ l₂) := by
    by_cases hs : (pushPts none (l₁ ++ l₂)).length < 2
    · rw [addPath_short false _ hs] at h3; simp at h3
    · have hr := (addPath_ring false (l₁ ++ l₂)).2.2.2.2 (by omega)
      rw [hr.1]; unfold cdedup ringOf; simp
  have hrot := cdedup_rotate l₁ l₂
  have h3A : 3 ≤ (cdedup (l₁ ++ l₂)).length := hA ▸ h3
  have h3B : 3 ≤ (cdedup (l₂ ++ l₁)).length := hrot.length_eq ▸ h3A
  obtain ⟨x, y, hx, hy⟩ := hrot
  refine ⟨x, y, ?_, ?_, ?_, ?_⟩
  · rw [(key _ h3A).1, hx]
  · rw [(key _ h3B).1, hy]
  · rw [(key _ h3A).2, hx, specW_append]; simp
  · rw [(key _ h3B).2, hy, specW_append]; simp

example : 3 ≤ (addPath false ([⟨0,5⟩, ⟨3,5⟩] ++ [⟨6,5⟩, ⟨6,0⟩, ⟨0,0⟩])).pts.length := by decide

/-- the multiset of (point, flags) pairs of the ring — in particular the set of local minima points — is unchanged -/
theorem addPath_rotate_perm (l₁ l₂ : List Pt) (h3 : 3 ≤ (addPath false (l₁ ++ l₂)).pts.length) :
    ((addPath false (l₁ ++ l₂)).ring).Perm ((addPath false (l₂ ++ l₁)).ring) := by
  obtain ⟨x, y, h1, h2, h3', h4⟩ := addPath_rotate l₁ l₂ h3
  unfold PathOut.ring
  rw [h1, h2, h3', h4]
  rw [List.zip_append (by rw [specW_length]), List.zip_append (by rw [specW_length])]
  exact List.perm_append_comm

/-- the minima points of a path are the points of its ring flagged `LocalMin`, in ring order -/
theorem minimaPts_eq (isOpen : Bool) (path : List Pt) :
    minimaPts (addPath isOpen path) = (((addPath isOpen path).ring).filter (fun pf => pf.2.localMin)).map (·.1) := by
  unfold minimaPts PathOut.ring
  rw [minima_are_flagged]
  exact minIdx_filterMap_get [] _ _ (addPath_ring isOpen path).2.1.symm

/-- **addPath_rotate, minima.**  The local minima of the rotated path are the same points (as a multiset; their order of
appending is rotated with the ring). -/
theorem addPath_rotate_minima (l₁ l₂ : List Pt) (h3 : 3 ≤ (addPath false (l₁ ++ l₂)).pts.length) :
    (minimaPts (addPath false (l₁ ++ l₂))).Perm (minimaPts (addPath false (l₂ ++ l₁))) := by
  rw [minimaPts_eq, minimaPts_eq]
  exact ((addPath_rotate_perm l₁ l₂ h3).filter _).map _

example : minimaPts (addPath false ([⟨0,5⟩, ⟨3,5⟩] ++ [⟨6,5⟩, ⟨6,0⟩, ⟨0,0⟩])) = [⟨6,5⟩] ∧
    minimaPts (addPath false ([⟨6,5⟩, ⟨6,0⟩, ⟨0,0⟩] ++ [⟨0,5⟩, ⟨3,5⟩])) = [⟨6,5⟩] := by decide

/-- two-vertex rings are the exception (same closed path, different minima) -/
theorem addPath_rotate_two_vertex_quirk :
    (addPath false ([⟨0,0⟩] ++ [⟨5,5⟩, ⟨0,0⟩])).minima ≠ [] ∧ (addPath false ([⟨5,5⟩, ⟨0,0⟩] ++ [⟨0,0⟩])).minima = [] := by decide


/-! ## (6) totality and index safety -/

/-- **addPaths_no_fault.**  For every input (empty list, empty paths, one-point paths, all-equal points, flat paths, …):
the model is total by structural recursion — each loop of the C++ walks a ring once; and in its result
* nothing is allocated iff the total vertex count is zero; otherwise every path has a record;
* every slot a path writes (`base … base + cnt - 1`, including the single slot of a path that is then given back, and an
  unlinked closing vertex) lies inside the `total_vertex_count` slots allocated  — the content of C10's sizing claim;
* a ring never has more vertices than slots written, has one flag word per vertex, and every minimum names a vertex of
  its ring (`locMinsOf` drops nothing) whose slot lies inside the array. -/
theorem addPaths_no_fault (pt : PathType) (isOpen : Bool) (paths : List (List Pt)) :
    let out := addPaths pt isOpen paths
    (out.allocates = decide ((paths.map List.length).sum ≠ 0)) ∧
    (out.allocates = true → out.total = (paths.map List.length).sum ∧ out.recs.length = paths.length) ∧
    (∀ r ∈ out.recs,
      r.base + r.out.cnt ≤ out.total ∧ r.out.flags.length = r.out.pts.length ∧ r.out.pts.length ≤ r.out.cnt ∧
      (∀ m ∈ r.out.minima, m < r.out.pts.length) ∧ r.minima.length = r.out.minima.length) ∧
    (∀ m ∈ out.minima, m.slot < out.total) := by
  intro out
  have hout : out = addPaths pt isOpen paths := rfl
  generalize out = out at hout ⊢
  unfold addPaths at hout
  by_cases h0 : (paths.map List.length).sum = 0
  · simp only [h0, if_true] at hout
    subst hout
    simp [h0, Out.minima]
  · simp only [h0, if_false] at hout
    have hrec : ∀ r ∈ out.recs,
        r.base + r.out.cnt ≤ out.total ∧ r.out.flags.length = r.out.pts.length ∧ r.out.pts.length ≤ r.out.cnt ∧
        (∀ m ∈ r.out.minima, m < r.out.pts.length) ∧ r.minima.length = r.out.minima.length := by
      intro r hr
      rw [hout] at hr ⊢
      simp only at hr ⊢
      have hb := addPathsFrom_bounds pt isOpen 0 0 paths r hr
      obtain ⟨p, _, hp, hm⟩ := addPathsFrom_recs pt isOpen 0 0 paths r hr
      have hs := addPath_sizes isOpen p
      rw [hm, hp]
      exact ⟨by rw [hp] at hb; omega, hs.2.1, hs.2.2.1, hs.2.2.2.1, locMinsOf_length _ _ _ _ _⟩
    refine ⟨by rw [hout]; simp [h0], fun _ => by rw [hout]; simp [addPathsFrom_length], hrec, ?_⟩
    intro m hm
    unfold Out.minima at hm
    simp only [List.mem_flatMap] at hm
    obtain ⟨r, hr, hmr⟩ := hm
    have hR := hrec r hr
    have hr' : r ∈ addPathsFrom pt isOpen 0 0 paths := by rw [hout] at hr; exact hr
    obtain ⟨p, _, hp, hmm⟩ := addPathsFrom_recs pt isOpen 0 0 paths r hr'
    rw [hmm] at hmr
    obtain ⟨_, hslot, hidx, _⟩ := locMinsOf_slot pt isOpen r.no r.base r.out m hmr
    have := hR.2.2.2.1 m.idx hidx
    rw [hslot]; omega

/-- the degenerate inputs, evaluated -/
example : addPaths .subject false [] = {} ∧ addPaths .subject false [[], []] = {} := by decide
example : (addPaths .subject false [[⟨1,1⟩]]).recs.map (·.out.cnt) = [1] ∧ (addPaths .subject false [[⟨1,1⟩]]).minima = [] := by decide
example : ((addPaths .clip true [[⟨1,1⟩], [⟨0,0⟩, ⟨0,0⟩], [⟨0,0⟩, ⟨3,0⟩, ⟨6,0⟩]]).recs.map (·.base)) = [0, 0, 0] := by decide


/-! ## (5) the sorted minima list does not depend on path order -/

/-- the C12 history model's `LocalMin` for a minimum, `vid` naming its vertex -/
def toHist (vid : MinV → Nat) (m : MinV) : Clipper.Model.History.LocalMin := ⟨m.pt.y, m.pt.x, m.polytype, m.isOpen, vid m⟩

/-- the order `std::stable_sort(…, LocMinSorter())` sorts by, on minima that carry their ring -/
def leV (a b : MinV) : Bool := !(Clipper.Gen.LocMinSorter b.pt.x b.pt.y a.pt.x a.pt.y)

/-- it is the history model's order (which `Props/C12.lean` `lmBefore_is_generated` ties to the same generated comparator) -/
theorem leV_eq_locMinLe (vid : MinV → Nat) (a b : MinV) :
    leV a b = Clipper.Model.History.locMinLe (toHist vid a) (toHist vid b) := by
  unfold leV Clipper.Model.History.locMinLe Clipper.Model.History.locMinBefore Clipper.Gen.LocMinSorter toHist
  by_cases h : a.pt.y = b.pt.y
  · simp [h]
  · simp [h]

theorem leV_trans (a b c : MinV) : leV a b = true → leV b c = true → leV a c = true := by
  rw [leV_eq_locMinLe (fun _ => 0), leV_eq_locMinLe (fun _ => 0), leV_eq_locMinLe (fun _ => 0)]
  exact Clipper.Lemmas.History.locMinLe_trans _ _ _

theorem leV_total (a b : MinV) : (leV a b || leV b a) = true := by
  rw [leV_eq_locMinLe (fun _ => 0), leV_eq_locMinLe (fun _ => 0)]
  exact Clipper.Lemmas.History.locMinLe_total _ _

/-- sorting the history model's list is sorting the minima and relabelling: `Model.History.stableSort` sees only (y, x) -/
theorem stableSort_toHist (vid : MinV → Nat) (l : List MinV) :
    Clipper.Model.History.stableSort (l.map (toHist vid)) = (l.mergeSort leV).map (toHist vid) := by
  unfold Clipper.Model.History.stableSort
  exact (List.map_mergeSort (fun a _ b _ => leV_eq_locMinLe vid a b)).symm

/-- **sorted_minima_perm.**  If the minima of a call lie at pairwise distinct points (distinct sort keys (y, x)), the stably
sorted minima list — each minimum with its ring, flags and position in the ring, i.e. everything the sweep reaches from the
`LocalMinima` — is the same for every order of the paths.  (With equal keys `stable_sort` keeps the order of addition, which
does depend on path order: `sorted_minima_perm_needs_distinct`.) -/
theorem sorted_minima_perm (pt : PathType) (isOpen : Bool) (ps ps' : List (List Pt)) (hperm : ps.Perm ps')
    (hd : (minimaV (addPaths pt isOpen ps)).Pairwise (fun a b => a.pt ≠ b.pt)) :
    (minimaV (addPaths pt isOpen ps)).mergeSort leV = (minimaV (addPaths pt isOpen ps')).mergeSort leV := by
  have hp : (minimaV (addPaths pt isOpen ps)).Perm (minimaV (addPaths pt isOpen ps')) := by
    rw [minimaV_addPaths, minimaV_addPaths]
    exact hperm.flatMap_right _
  generalize minimaV (addPaths pt isOpen ps) = A at hd hp
  generalize minimaV (addPaths pt isOpen ps') = B at hp
  have hAB : (A.mergeSort leV).Perm (B.mergeSort leV) :=
    (List.mergeSort_perm A leV).trans (hp.trans (List.mergeSort_perm B leV).symm)
  refine List.Perm.eq_of_pairwise (le := fun a b => leV a b = true) ?_
    (List.pairwise_mergeSort leV_trans leV_total A) (List.pairwise_mergeSort leV_trans leV_total B) hAB
  intro a b ha hb hab hba
  have haA : a ∈ A := (List.mergeSort_perm A leV).mem_iff.mp ha
  have hbA : b ∈ A := hp.mem_iff.mpr ((List.mergeSort_perm B leV).mem_iff.mp hb)
  -- equal keys
  have hkey : a.pt = b.pt := by
    rw [leV_eq_locMinLe (fun _ => 0), Clipper.Lemmas.History.locMinLe_iff] at hab hba
    simp only [toHist] at hab hba
    have hx : a.pt.x = b.pt.x := by omega
    have hy : a.pt.y = b.pt.y := by omega
    cases ha' : a.pt; cases hb' : b.pt; simp_all
  -- distinct elements of A have distinct points
  by_cases hEq : a = b
  · exact hEq
  · exfalso
    rcases List.mem_iff_append.mp haA with ⟨s, t, rfl⟩
    rcases List.mem_append.mp hbA with hb1 | hb1
    · have h := (List.pairwise_append.mp hd).2.2 b hb1 a (by simp)
      exact h hkey.symm
    · rcases List.mem_cons.mp hb1 with rfl | hb2
      · exact hEq rfl
      · have h := (List.pairwise_cons.mp (List.pairwise_append.mp hd).2.1).1 b hb2
        exact h hkey

example : (minimaV (addPaths .subject false [[⟨0,0⟩, ⟨4,4⟩, ⟨8,0⟩], [⟨20,1⟩, ⟨24,5⟩, ⟨28,1⟩]])).Pairwise (fun a b => a.pt ≠ b.pt) := by decide

/-- the corollary for the C12 history model: whatever names (`vid`) the two calls give the vertices, the two sorted
`LocalMin` lists are the images of one and the same sorted list of minima-with-rings. -/
theorem sorted_minima_perm_history (pt : PathType) (isOpen : Bool) (ps ps' : List (List Pt)) (hperm : ps.Perm ps')
    (hd : (minimaV (addPaths pt isOpen ps)).Pairwise (fun a b => a.pt ≠ b.pt)) (vid vid' : MinV → Nat) :
    ∃ sorted : List MinV,
      Clipper.Model.History.stableSort ((minimaV (addPaths pt isOpen ps)).map (toHist vid)) = sorted.map (toHist vid) ∧
      Clipper.Model.History.stableSort ((minimaV (addPaths pt isOpen ps')).map (toHist vid')) = sorted.map (toHist vid') :=
  ⟨_, stableSort_toHist vid _, by rw [stableSort_toHist, ← sorted_minima_perm pt isOpen ps ps' hperm hd]⟩

/-- without distinct keys the order of coincident minima follows the path order (witness) -/
theorem sorted_minima_perm_needs_distinct :
    (minimaV (addPaths .subject false [[⟨0,0⟩, ⟨4,4⟩, ⟨8,0⟩], [⟨1,0⟩, ⟨4,4⟩, ⟨7,0⟩]])).mergeSort leV ≠
    (minimaV (addPaths .subject false [[⟨1,0⟩, ⟨4,4⟩, ⟨7,0⟩], [⟨0,0⟩, ⟨4,4⟩, ⟨8,0⟩]])).mergeSort leV := by
  rw [List.mergeSort_of_pairwise (le := leV) (by decide), List.mergeSort_of_pairwise (le := leV) (by decide)]
  decide

end Clipper.Props.C13AddPaths
