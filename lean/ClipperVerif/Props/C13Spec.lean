/-
C13 (Spec level) — the winding number of the Spec is independent of representation and transforms as it
should under the maps used by the C13 metamorphic checks.  These are theorems about `Clipper.wind`
(Spec/Basic.lean), not about the engine: they justify comparing the engine's outputs on two representations
of the same geometry against ONE region predicate.

The half-open rule (an edge owns its lower end point) is not symmetric under `y ↦ −y`, and the ray towards +x
is not symmetric under `x ↦ −x`; the two mirror theorems therefore carry the weakest hypotheses under which
they are true (`p.y` is no vertex ordinate, resp. `p` is on no edge that spans its ordinate), with
counterexamples showing the hypotheses cannot be dropped.
-/
import ClipperVerif.Lemmas.WindSpec
namespace Clipper.Props.C13Spec
open Clipper Clipper.WindSpec

def translate (d : Pt) (ps : Paths) : Paths := mapPaths (fun a => a.add d) ps
def scale (k : Int) (ps : Paths) : Paths := mapPaths (Pt.scale k) ps
def mirX (a : Pt) : Pt := ⟨-a.x, a.y⟩
def mirY (a : Pt) : Pt := ⟨a.x, -a.y⟩

/-! ### translation and scaling -/

theorem cross_translate (d a b p : Pt) : cross (a.add d) (b.add d) (p.add d) = cross a b p := by
  simp only [cross, Pt.add]
  rw [show b.x + d.x - (a.x + d.x) = b.x - a.x by omega, show p.y + d.y - (a.y + d.y) = p.y - a.y by omega,
      show b.y + d.y - (a.y + d.y) = b.y - a.y by omega, show p.x + d.x - (a.x + d.x) = p.x - a.x by omega]

theorem crossing_translate (d a b p : Pt) : crossing (p.add d) (a.add d) (b.add d) = crossing p a b := by
  unfold crossing
  rw [cross_translate]
  simp only [Pt.add, Int.add_le_add_iff_right, Int.add_lt_add_iff_right]

/-- **Translation.** Translating the paths and the point by the same vector keeps the winding number. -/
theorem wind_translate (d : Pt) (ps : Paths) (p : Pt) : wind (translate d ps) (p.add d) = wind ps p := by
  have := wind_map (fun a => a.add d) ps p (p.add d) 1
    (by intro _ _ a _ b _; rw [crossing_translate]; omega)
  simpa [translate] using this

theorem cross_scale (k : Int) (a b p : Pt) :
    cross (Pt.scale k a) (Pt.scale k b) (Pt.scale k p) = (k * k) * cross a b p := by
  simp only [cross, Pt.scale]; grind

theorem crossing_scale {k : Int} (hk : 0 < k) (a b p : Pt) :
    crossing (Pt.scale k p) (Pt.scale k a) (Pt.scale k b) = crossing p a b := by
  unfold crossing
  rw [cross_scale]
  have hkk : 0 < k * k := Int.mul_pos hk hk
  have h1 : (k * k) * cross a b p > 0 ↔ cross a b p > 0 := (sign_mul hkk).1
  have h2 : (k * k) * cross a b p < 0 ↔ cross a b p < 0 := (sign_mul hkk).2
  simp only [Pt.scale, Int.mul_le_mul_left hk, Int.mul_lt_mul_left hk, h1, h2]

/-- **Scaling** by a positive integer keeps the winding number. -/
theorem wind_scale {k : Int} (hk : 0 < k) (ps : Paths) (p : Pt) :
    wind (scale k ps) (Pt.scale k p) = wind ps p := by
  have := wind_map (Pt.scale k) ps p (Pt.scale k p) 1
    (by intro _ _ a _ b _; rw [crossing_scale hk]; omega)
  simpa [scale] using this

example : wind (scale 3 [[⟨0,0⟩, ⟨2,0⟩, ⟨0,2⟩]]) (Pt.scale 3 ⟨0, 1⟩) = 1 := by decide

/-! ### mirrors -/

theorem cross_mirY (a b p : Pt) : cross (mirY a) (mirY b) (mirY p) = -cross a b p := by
  simp only [cross, mirY]; grind

theorem crossing_mirY {a b p : Pt} (ha : p.y ≠ a.y) (hb : p.y ≠ b.y) :
    crossing (mirY p) (mirY a) (mirY b) = -crossing p a b := by
  unfold crossing
  rw [cross_mirY]
  simp only [mirY]
  by_cases h1 : a.y ≤ p.y ∧ p.y < b.y
  · have n : ¬ (-a.y ≤ -p.y ∧ -p.y < -b.y) := by omega
    have m : (-b.y ≤ -p.y ∧ -p.y < -a.y) := by omega
    simp only [h1, n, m, and_self, if_true, if_false]
    split <;> split <;> omega
  · by_cases h2 : b.y ≤ p.y ∧ p.y < a.y
    · have m : (-a.y ≤ -p.y ∧ -p.y < -b.y) := by omega
      simp only [h1, h2, m, and_self, if_true, if_false]
      split <;> split <;> omega
    · have n : ¬ (-a.y ≤ -p.y ∧ -p.y < -b.y) := by omega
      have m : ¬ (-b.y ≤ -p.y ∧ -p.y < -a.y) := by omega
      simp only [h1, h2, n, m, if_false]; rfl

/-- **Mirror `y ↦ −y`** (orientation reversing): the winding number is negated, provided the point's ordinate
is not the ordinate of a vertex (the half-open rule owns lower end points, which the mirror turns into upper
ones). -/
theorem wind_mirrorY (ps : Paths) (p : Pt) (h : ∀ path ∈ ps, ∀ v ∈ path, p.y ≠ v.y) :
    wind (mapPaths mirY ps) (mirY p) = -wind ps p := by
  have := wind_map mirY ps p (mirY p) (-1)
    (by intro path hp a ha b hb; rw [crossing_mirY (h path hp a ha) (h path hp b hb)]; omega)
  rw [this]; omega

example : (∀ path ∈ ([[⟨0,0⟩, ⟨4,0⟩, ⟨0,2⟩, ⟨-4, 0⟩]] : Paths), ∀ v ∈ path, (⟨-1, 1⟩ : Pt).y ≠ v.y) ∧
    wind (mapPaths mirY [[⟨0,0⟩, ⟨4,0⟩, ⟨0,2⟩, ⟨-4, 0⟩]]) (mirY ⟨-1, 1⟩) = -1 := by decide

/-- the hypothesis of `wind_mirrorY` cannot be dropped: a point level with the apex of a triangle -/
example : wind (mapPaths mirY [[⟨0,0⟩, ⟨4,0⟩, ⟨0,2⟩, ⟨-4, 0⟩]]) (mirY ⟨-1, 0⟩) ≠ -wind [[⟨0,0⟩, ⟨4,0⟩, ⟨0,2⟩, ⟨-4,0⟩]] ⟨-1, 0⟩ := by
  decide

/-- `p` lies on no edge that spans its ordinate (half-open): the exact condition under which the ray towards
−x counts the same winding number as the ray towards +x.  Implied by "p is on no edge". -/
def OffSpan (ps : Paths) (p : Pt) : Prop :=
  ∀ path ∈ ps, ∀ e ∈ edgesOf path,
    ((e.1.y ≤ p.y ∧ p.y < e.2.y) ∨ (e.2.y ≤ p.y ∧ p.y < e.1.y)) → cross e.1 e.2 p ≠ 0

/-- 1 if the vertex is strictly above the horizontal line through `p` -/
def above (p v : Pt) : Int := if p.y < v.y then 1 else 0

theorem cross_mirX (a b p : Pt) : cross (mirX a) (mirX b) (mirX p) = -cross a b p := by
  simp only [cross, mirX]; grind

/-- the mirrored ray counts the spanning edges on the other side: together with the original count they
make up the net number of level crossings, which telescopes -/
theorem crossing_mirX {a b p : Pt}
    (h : ((a.y ≤ p.y ∧ p.y < b.y) ∨ (b.y ≤ p.y ∧ p.y < a.y)) → cross a b p ≠ 0) :
    crossing (mirX p) (mirX a) (mirX b) = -1 * crossing p a b + (above p b - above p a) := by
  unfold crossing above
  rw [cross_mirX]
  simp only [mirX]
  by_cases h1 : a.y ≤ p.y ∧ p.y < b.y
  · have := h (Or.inl h1)
    have hb : p.y < b.y := h1.2
    have ha : ¬ p.y < a.y := by omega
    simp only [h1, ha, and_self, if_true, if_false]
    split <;> split <;> omega
  · by_cases h2 : b.y ≤ p.y ∧ p.y < a.y
    · have := h (Or.inr h2)
      have ha : p.y < a.y := h2.2
      have hb : ¬ p.y < b.y := by omega
      simp only [h2, hb, and_self, if_true, if_false]
      split <;> split <;> omega
    · simp only [h1, h2, if_false]
      split <;> split <;> omega

theorem windPath_mirrorX (path : Path) (p : Pt)
    (h : ∀ e ∈ edgesOf path, ((e.1.y ≤ p.y ∧ p.y < e.2.y) ∨ (e.2.y ≤ p.y ∧ p.y < e.1.y)) → cross e.1 e.2 p ≠ 0) :
    windPath (path.map mirX) (mirX p) = -windPath path p := by
  unfold windPath
  rw [edgesOf_map, List.map_map]
  have : (List.map ((fun e => crossing (mirX p) e.1 e.2) ∘ fun e => (mirX e.1, mirX e.2)) (edgesOf path))
      = List.map (fun e => -1 * crossing p e.1 e.2 + (above p e.2 - above p e.1)) (edgesOf path) := by
    apply List.map_congr_left
    intro e he
    exact crossing_mirX (h e he)
  rw [this, sum_map_add, sum_map_mul_left, edges_telescope (above p)]
  omega

/-- **Mirror `x ↦ −x`** (orientation reversing): the winding number is negated wherever the point lies on no
edge spanning its ordinate.  (The mirrored ray points the other way; that both rays count the same number is
the closedness of the paths.) -/
theorem wind_mirrorX (ps : Paths) (p : Pt) (h : OffSpan ps p) :
    wind (mapPaths mirX ps) (mirX p) = -wind ps p := by
  unfold wind mapPaths
  rw [List.map_map]
  have : List.map ((fun path => windPath path (mirX p)) ∘ fun p => List.map mirX p) ps
      = List.map (fun path => -1 * windPath path p) ps := by
    apply List.map_congr_left
    intro path hp
    simp only [Function.comp_def]
    rw [windPath_mirrorX path p (h path hp)]; omega
  rw [this, sum_map_mul_left]; omega

instance (ps : Paths) (p : Pt) : Decidable (OffSpan ps p) := by unfold OffSpan; infer_instance

example : OffSpan [[⟨0,0⟩, ⟨4,0⟩, ⟨4,4⟩, ⟨0,4⟩]] ⟨1, 2⟩ ∧
    wind (mapPaths mirX [[⟨0,0⟩, ⟨4,0⟩, ⟨4,4⟩, ⟨0,4⟩]]) (mirX ⟨1, 2⟩) = -1 := by decide

/-- the hypothesis of `wind_mirrorX` cannot be dropped: a point on the left edge of a square -/
example : wind (mapPaths mirX [[⟨0,0⟩, ⟨4,0⟩, ⟨4,4⟩, ⟨0,4⟩]]) (mirX ⟨0, 2⟩) ≠ -wind [[⟨0,0⟩, ⟨4,0⟩, ⟨4,4⟩, ⟨0,4⟩]] ⟨0, 2⟩ := by
  decide

/-! ### representation changes -/

/-- **Path order.** -/
theorem wind_perm {ps qs : Paths} (h : ps.Perm qs) (p : Pt) : wind ps p = wind qs p :=
  sum_perm (h.map _)

/-- **Start vertex.** Rotating the vertex list of a closed path keeps its winding number. -/
theorem windPath_rotate (l₁ l₂ : List Pt) (p : Pt) : windPath (l₂ ++ l₁) p = windPath (l₁ ++ l₂) p :=
  sum_perm ((edgesOf_rotate_perm l₁ l₂).map _)

theorem wind_rotate (ps₁ ps₂ : Paths) (l₁ l₂ : List Pt) (p : Pt) :
    wind (ps₁ ++ (l₂ ++ l₁) :: ps₂) p = wind (ps₁ ++ (l₁ ++ l₂) :: ps₂) p := by
  simp only [wind, List.map_append, List.map_cons, windPath_rotate]

theorem crossing_self (p a : Pt) : crossing p a a = 0 := by
  unfold crossing
  have n : ¬ (a.y ≤ p.y ∧ p.y < a.y) := by omega
  simp only [n, if_false]

theorem windPath_dup_head (a : Pt) (l : List Pt) (p : Pt) : windPath (a :: a :: l) p = windPath (a :: l) p := by
  unfold windPath
  rw [edgesOf_cons, edgesOf_cons]
  simp only [chain, List.map_cons, List.sum_cons, crossing_self]
  omega

/-- **Duplicate vertex.** Repeating a vertex anywhere in a closed path keeps its winding number. -/
theorem windPath_dup (l₁ l₂ : List Pt) (a : Pt) (p : Pt) :
    windPath (l₁ ++ a :: a :: l₂) p = windPath (l₁ ++ a :: l₂) p := by
  rw [windPath_rotate (a :: a :: l₂) l₁, windPath_rotate (a :: l₂) l₁]
  exact windPath_dup_head a (l₂ ++ l₁) p

/-- **Explicit closing vertex.** Appending a copy of the first vertex keeps the winding number. -/
theorem windPath_closing (a : Pt) (rest : List Pt) (p : Pt) :
    windPath (a :: rest ++ [a]) p = windPath (a :: rest) p := by
  have := windPath_rotate [a] (a :: rest) p
  rw [this]
  exact windPath_dup_head a rest p

theorem wind_dup (ps₁ ps₂ : Paths) (l₁ l₂ : List Pt) (a : Pt) (p : Pt) :
    wind (ps₁ ++ (l₁ ++ a :: a :: l₂) :: ps₂) p = wind (ps₁ ++ (l₁ ++ a :: l₂) :: ps₂) p := by
  simp only [wind, List.map_append, List.map_cons, windPath_dup]

theorem wind_closing (ps₁ ps₂ : Paths) (a : Pt) (rest : List Pt) (p : Pt) :
    wind (ps₁ ++ (a :: rest ++ [a]) :: ps₂) p = wind (ps₁ ++ (a :: rest) :: ps₂) p := by
  simp only [wind, List.map_append, List.map_cons, windPath_closing]

example : windPath ([⟨0,0⟩, ⟨2,0⟩] ++ ⟨2,2⟩ :: ⟨2,2⟩ :: [⟨0,2⟩]) ⟨1,1⟩ = 1 := by decide

/-! ### reversal -/

theorem cross_swap (a b p : Pt) : cross b a p = -cross a b p := by
  simp only [cross]; grind

theorem crossing_swap (p a b : Pt) : crossing p b a = -crossing p a b := by
  unfold crossing
  rw [cross_swap]
  by_cases h1 : a.y ≤ p.y ∧ p.y < b.y
  · have n : ¬ (b.y ≤ p.y ∧ p.y < a.y) := by omega
    simp only [h1, n, and_self, if_true, if_false]
    split <;> split <;> omega
  · by_cases h2 : b.y ≤ p.y ∧ p.y < a.y
    · simp only [h1, h2, and_self, if_true, if_false]
      split <;> split <;> omega
    · simp only [h1, h2, if_false]; rfl

theorem chain_reverse (a z : Pt) (l : List Pt) :
    ((chain a l z).reverse).map (fun e => (e.2, e.1)) = chain z l.reverse a := by
  induction l generalizing a with
  | nil => rfl
  | cons b r ih =>
    simp only [chain, List.reverse_cons, List.map_append, List.map_cons, List.map_nil, ih]
    rw [chain_append]; rfl

/-- **Reversal.** Reversing the vertex order of a closed path negates its winding number (so reversing all
paths keeps EvenOdd / NonZero fillings and exchanges Positive with Negative, see `inFill_neg`). -/
theorem windPath_reverse (path : Path) (p : Pt) : windPath path.reverse p = -windPath path p := by
  cases path with
  | nil => rfl
  | cons a rest =>
    rw [List.reverse_cons, windPath_rotate [a] rest.reverse p]
    unfold windPath
    rw [List.singleton_append, edgesOf_cons, edgesOf_cons, ← chain_reverse, List.map_map]
    rw [sum_perm ((List.reverse_perm (chain a rest a)).map _)]
    have : ∀ e ∈ chain a rest a, ((fun e : Pt × Pt => crossing p e.1 e.2) ∘ fun e => (e.2, e.1)) e
        = -1 * crossing p e.1 e.2 := by
      intro e _
      simp only [Function.comp_def]
      rw [crossing_swap]; omega
    rw [List.map_congr_left this, sum_map_mul_left]
    omega

theorem wind_reverse (ps : Paths) (p : Pt) : wind (ps.map List.reverse) p = -wind ps p := by
  unfold wind
  rw [List.map_map]
  have : ∀ path ∈ ps, ((fun path => windPath path p) ∘ List.reverse) path = -1 * windPath path p := by
    intro path _
    simp only [Function.comp_def]
    rw [windPath_reverse]; omega
  rw [List.map_congr_left this, sum_map_mul_left]
  omega

/-- negating the winding number keeps EvenOdd and NonZero fillings and exchanges Positive with Negative -/
theorem inFill_neg (w : Int) :
    inFill .evenOdd (-w) = inFill .evenOdd w ∧ inFill .nonZero (-w) = inFill .nonZero w ∧
    inFill .positive (-w) = inFill .negative w ∧ inFill .negative (-w) = inFill .positive w := by
  simp only [inFill]
  refine ⟨?_, ?_, ?_, ?_⟩ <;> (rw [Bool.eq_iff_iff]; simp <;> omega)

example : windPath ([⟨0,0⟩, ⟨2,0⟩, ⟨0,2⟩] : Path).reverse ⟨0, 1⟩ = -1 := by decide

/-! ### `OffSpan` follows from "on no edge" -/

theorem between_of_prop {dx dy t u : Int} (hdy : 0 < dy) (ht0 : 0 ≤ t) (ht : t < dy) (h : dx * t = dy * u)
    (hdx : 0 ≤ dx) : 0 ≤ u ∧ u ≤ dx := by
  constructor
  · apply Int.le_of_not_gt
    intro hu
    have h1 : dy * u < 0 := Int.mul_neg_of_pos_of_neg hdy hu
    have h2 : 0 ≤ dx * t := Int.mul_nonneg hdx ht0
    omega
  · apply Int.le_of_not_gt
    intro hu
    have h1 : dy * (dx + 1) ≤ dy * u := Int.mul_le_mul_of_nonneg_left (by omega) (Int.le_of_lt hdy)
    have h2 : dx * t ≤ dx * dy := Int.mul_le_mul_of_nonneg_left (Int.le_of_lt ht) hdx
    rw [Int.mul_add, Int.mul_one, Int.mul_comm dy dx] at h1
    omega

theorem span_between {a b p : Pt} (hs : a.y ≤ p.y ∧ p.y < b.y) (hc : cross a b p = 0) :
    min a.x b.x ≤ p.x ∧ p.x ≤ max a.x b.x := by
  unfold cross at hc
  have h : (b.x - a.x) * (p.y - a.y) = (b.y - a.y) * (p.x - a.x) := by omega
  by_cases hdx : 0 ≤ b.x - a.x
  · have := between_of_prop (by omega) (by omega) (by omega) h hdx
    omega
  · have h' : (-(b.x - a.x)) * (p.y - a.y) = (b.y - a.y) * (-(p.x - a.x)) := by
      rw [Int.neg_mul, Int.mul_neg, h]
    have := between_of_prop (by omega) (by omega) (by omega) h' (by omega)
    omega

/-- A point that is on no edge (the Spec's `onBoundary` is false for every path) satisfies `OffSpan`. -/
theorem offSpan_of_not_onBoundary {ps : Paths} {p : Pt} (h : ∀ path ∈ ps, onBoundary path p = false) :
    OffSpan ps p := by
  intro path hp e he hspan hc
  have hb := h path hp
  unfold onBoundary at hb
  have hseg := List.any_eq_false.mp hb e he
  apply hseg
  unfold onSeg
  rcases hspan with hs | hs
  · have := span_between hs hc
    simp only [hc, Bool.and_eq_true, decide_eq_true_eq, beq_self_eq_true, true_and]
    omega
  · have hc' : cross e.2 e.1 p = 0 := by rw [cross_swap, hc]; rfl
    have := span_between hs hc'
    simp only [hc, Bool.and_eq_true, decide_eq_true_eq, beq_self_eq_true, true_and]
    omega

/-- `wind_mirrorX` for points on no edge. -/
theorem wind_mirrorX_offBoundary (ps : Paths) (p : Pt) (h : ∀ path ∈ ps, onBoundary path p = false) :
    wind (mapPaths mirX ps) (mirX p) = -wind ps p :=
  wind_mirrorX ps p (offSpan_of_not_onBoundary h)

end Clipper.Props.C13Spec
