/-
C13 (Spec level) — the winding number of the Spec is independent of representation and transforms as it
should under the maps used by the C13 metamorphic checks.  These are theorems about `Clipper.wind`
(Spec/Basic.lean), not about the engine: they justify comparing the engine's outputs on two representations
of the same geometry against ONE region predicate.

The half-open rule (an edge owns its lower end point) is not symmetric under `y ↦ −y`, and the ray towards +x
is not symmetric under `x ↦ −x`; the two mirror theorems therefore carry the weakest hypotheses under which
they are true (`p.y` is no vertex ordinate, resp. `p` is on no edge that spans its ordinate), with
counterexamples showing the hypotheses cannot be dropped.
-/
import ClipperVerif.Lemmas.WindSpec
namespace Clipper.Props.C13Spec
open Clipper Clipper.WindSpec

def translate (d : Pt) (ps : Paths) : Paths := mapPaths (fun a => a.add d) ps
def scale (k : Int) (ps : Paths) : Paths := mapPaths (Pt.scale k) ps
def mirX (a : Pt) : Pt := ⟨-a.x, a.y⟩
def mirY (a : Pt) : Pt := ⟨a.x, -a.y⟩

/-! ### translation and scaling -/

theorem cross_translate (d a b p : Pt) : cross (a.add d) (b.add d) (p.add d) = cross a b p := by
  simp only [cross, Pt.add]
  rw [show b.x + d.x - (a.x + d.x) = b.x - a.x by omega, show p.y + d.y - (a.y + d.y) = p.y - a.y by omega,
      show b.y + d.y - (a.y + d.y) = b.y - a.y by omega, show p.x + d.x - (a.x + d.x) = p.x - a.x by omega]

theorem crossing_translate (d a b p : Pt) : crossing (p.add d) (a.add d) (b.add d) = crossing p a b := by
  unfold crossing
  rw [cross_translate]
  simp only [Pt.add, Int.add_le_add_iff_right, Int.add_lt_add_iff_right]

/-- **Translation.** Translating the paths and the point by the same vector keeps the winding number. -/
theorem wind_translate (d : Pt) (ps : Paths) (p : Pt) : wind (translate d ps) (p.add d) = wind ps p := by
  have := wind_map (fun a => a.add d) ps p (p.add d) 1
    (by intro _ _ a _ b _; rw [crossing_translate]; omega)
  simpa [translate] using this

theorem cross_scale (k : Int) (a b p : Pt) :
    cross (Pt.scale k a) (Pt.scale k b) (Pt.scale k p) = (k * k) * cross a b p := by
  simp only [cross, Pt.scale]; grind

theorem crossing_scale {k : Int} (hk : 0 < k) (a b p : Pt) :
    crossing (Pt.scale k p) (Pt.scale k a) (Pt.scale k b) = crossing p a b := by
  unfold crossing
  rw [cross_scale]
  have hkk : 0 < k * k := Int.mul_pos hk hk
  have h1 : (k * k) * cross a b p > 0 ↔ cross a b p > 0 := (sign_mul hkk).1
  have h2 : (k * k) * cross a b p < 0 ↔ cross a b p < 0 := (sign_mul hkk).2
  simp only [Pt.scale, Int.mul_le_mul_left hk, Int.mul_lt_mul_left hk, h1, h2]

/-- **Scaling** by a positive integer keeps the winding number. -/
theorem wind_scale {k : Int} (hk : 0 < k) (ps : Paths) (p : Pt) :
    wind (scale k ps) (Pt.scale k p) = wind ps p := by
  have := wind_map (Pt.scale k) ps p (Pt.scale k p) 1
    (by intro _ _ a _ b _; rw [crossing_scale hk]; omega)
  simpa [scale] using this

example : wind (scale 3 [[⟨0,0⟩, ⟨2,0⟩, ⟨0,2⟩]]) (Pt.scale 3 ⟨0, 1⟩) = 1 := by decide

/-! ### mirrors -/

theorem cross_mirY (a b p : Pt) : cross (mirY a) (mirY b) (mirY p) = -cross a b p := by
  simp only [cross, mirY]; grind

theorem crossing_mirY {a b p : Pt} (ha : p.y ≠ a.y) (hb : p.y ≠ b.y) :
    crossing (mirY p) (mirY a) (mirY b) = -crossing p a b := by
  unfold crossing
  rw [cross_mirY]
  simp only [mirY]
  by_cases h1 : a.y ≤ p.y ∧ p.y < b.y
  · have n : ¬ (-a.y ≤ -p.y ∧ -p.y < -b.y) := by omega
    have m : (-b.y ≤ -p.y ∧ -p.y < -a.y) := by omega
    simp only [h1, n, m, and_self, if_true, if_false]
    split <;> split <;> omega
  · by_cases h2 : b.y ≤ p.y ∧ p.y < a.y
    · have m : (-a.y ≤ -p.y ∧ -p.y < -b.y) := by omega
      simp only [h1, h2, m, and_self, if_true, if_false]
      split <;> split <;> omega
    · have n : ¬ (-a.y ≤ -p.y ∧ -p.y < -b.y) := by omega
      have m : ¬ (-b.y ≤ -p.y ∧ -p.y < -a.y) := by omega
      simp only [h1, h2, n, m, if_false]; rfl

/-- **Mirror `y ↦ −y`** (orientation reversing): the winding number is negated, provided the point's ordinate
is not the ordinate of a vertex (the half-open rule owns lower end points, which the mirror turns into upper
ones). -/
theorem wind_mirrorY (ps : Paths) (p : Pt) (h : ∀ path ∈ ps, ∀ v ∈ path, p.y ≠ v.y) :
    wind (mapPaths mirY ps) (mirY p) = -wind ps p := by
  have := wind_map mirY ps p (mirY p) (-1)
    (by intro path hp a ha b hb; rw [crossing_mirY (h path hp a ha) (h path hp b hb)]; omega)
  rw [this]; omega

example : (∀ path ∈ ([[⟨0,0⟩, ⟨4,0⟩, ⟨0,2⟩, ⟨-4, 0⟩]] : Paths), ∀ v ∈ path, (⟨-1, 1⟩ : Pt).y ≠ v.y) ∧
    wind (mapPaths mirY [[⟨0,0⟩, ⟨4,0⟩, ⟨0,2⟩, ⟨-4, 0⟩]]) (mirY ⟨-1, 1⟩) = -1 := by decide

/-- the hypothesis of `wind_mirrorY` cannot be dropped: a point level with the apex of a triangle -/
example : wind (mapPaths mirY [[⟨0,0⟩, ⟨4,0⟩, ⟨0,2⟩, ⟨-4, 0⟩]]) (mirY ⟨-1, 0⟩) ≠ -wind [[⟨0,0⟩, ⟨4,0⟩, ⟨0,2⟩, ⟨-4,0⟩]] ⟨-1, 0⟩ := by
  decide

/-- `p` lies on no edge that spans its ordinate (half-open): the exact condition under which the ray towards
−x counts the same winding number as the ray towards +x.  Implied by "p is on no edge". -/
def OffSpan (ps : Paths) (p : Pt) : Prop :=
  ∀ path ∈ ps, ∀ e ∈ edgesOf path,
    ((e.1.y ≤ p.y ∧ p.y < e.2.y) ∨ (e.2.y ≤ p.y ∧ p.y < e.1.y)) → cross e.1 e.2 p ≠ 0

/-- 1 if the vertex is strictly above the horizontal line through `p` -/
def above (p v : Pt) : Int := if p.y < v.y then 1 else 0

theorem cross_mirX (a b p : Pt) : cross (mirX a) (mirX b) (mirX p) = -cross a b p := by
  simp only [cross, mirX]; grind

/-- the mirrored ray counts the spanning edges on the other side: together with the original count they
make up the net number of level crossings, which telescopes -/
theorem crossing_mirX {a b p : Pt}
    (h : ((a.y ≤ p.y ∧ p.y < b.y) ∨ (b.y ≤ p.y ∧ p.y < a.y)) → cross a b p ≠ 0) :
    crossing (mirX p) (mirX a) (mirX b) = -1 * crossing p a b + (above p b - above p a) := by
  unfold crossing above
  rw [cross_mirX]
  simp only [mirX]
  by_cases h1 : a.y ≤ p.y ∧ p.y < b.y
  · have := h (Or.inl h1)
    have hb : p.y < b.y := h1.2
    have ha : ¬ p.y < a.y := by omega
    simp only [h1, ha, and_self, if_true, if_false]
    split <;> split <;> omega
  · by_cases h2 : b.y ≤ p.y ∧ p.y < a.y
    · have := h (Or.inr h2)
      have ha : p.y < a.y := h2.2
      have hb : ¬ p.y < b.y := by omega
      simp only [h2, hb, and_self, if_true, if_false]
      split <;> split <;> omega
    · simp only [h1, h2, if_false]
      split <;> split <;> omega

theorem windPath_mirrorX (path : Path) (p : Pt)
    (h : ∀ e ∈ edgesOf path, ((e.1.y ≤ p.y ∧ p.y < e.2.y) ∨ (e.2.y ≤ p.y ∧ p.y < e.1.y)) → cross e.1 e.2 p ≠ 0) :
    windPath (path.map mirX) (mirX p) = -windPath path p := by
  unfold windPath
  rw [edgesOf_map, List.map_map]
  have : (List.map ((fun e => crossing (mirX p) e.1 e.2) ∘ fun e => (mirX e.1, mirX e.2)) (edgesOf path))
      = List.map (fun e => -1 * crossing p e.1 e.2 + (above p e.2 - above p e.1)) (edgesOf path) := by
    apply List.map_congr_left
    intro e he
    exact crossing_mirX (h e he)
  rw [this, sum_map_add, sum_map_mul_left, edges_telescope (above p)]
  omega

/-- **Mirror `x ↦ −x`** (orientation reversing): the winding number is negated wherever the point lies on no
edge spanning its ordinate.  (The mirrored ray points the other way; that both rays count the same number is
the closedness of the paths.) -/
theorem wind_mirrorX (ps : Paths) (p : Pt) (h : OffSpan ps p) :
    wind (mapPaths mirX ps) (mirX p) = -wind ps p := by
  unfold wind mapPaths
  rw [List.map_map]
  have : List.map ((fun path => windPath path (mirX p)) ∘ fun p => List.map mirX p) ps
      = List.map (fun path => -1 * windPath path p) ps := by
    apply List.map_congr_left
    intro path hp
    simp only [Function.comp_def]
    rw [windPath_mirrorX path p (h path hp)]; omega
  rw [this, sum_map_mul_left]; omega

instance (ps : Paths) (p : Pt) : Decidable (OffSpan ps p) := by unfold OffSpan; infer_instance

example : OffSpan [[⟨0,0⟩, ⟨4,0⟩, ⟨4,4⟩, ⟨0,4⟩]] ⟨1, 2⟩ ∧
    wind (mapPaths mirX [[⟨0,0⟩, ⟨4,0⟩, ⟨4,4⟩, ⟨0,4⟩]]) (mirX ⟨1, 2⟩) = -1 := by decide

/-- the hypothesis of `wind_mirrorX` cannot be dropped: a point on the left edge of a square -/
example : wind (mapPaths mirX [[⟨0,0⟩, ⟨4,0⟩, ⟨4,4⟩, ⟨0,4⟩]]) (mirX ⟨0, 2⟩) ≠ -wind [[⟨0,0⟩, ⟨4,0⟩, ⟨4,4⟩, ⟨0,4⟩]] ⟨0, 2⟩ := by
  decide

/-! ### representation changes -/

/-- **Path order.** -/
theorem wind_perm {ps qs : Paths} (h : ps.Perm qs) (p : Pt) : wind ps p = wind qs p :=
  sum_perm (h.map _)

/-- **Start vertex.** Rotating the vertex list of a closed path keeps its winding number. -/
theorem windPath_rotate (l₁ l₂ : List Pt) (p : Pt) : windPath (l₂ ++ l₁) p = windPath (l₁ ++ l₂) p :=
  sum_perm ((edgesOf_rotate_perm l₁ l₂).map _)

theorem wind_rotate (ps₁ ps₂ : Paths) (l₁ l₂ : List Pt) (p : Pt) :
    wind (ps₁ ++ (l₂ ++ l₁) :: ps₂) p = wind (ps₁ ++ (l₁ ++ l₂) :: ps₂) p := by
  simp only [wind, List.map_append, List.map_cons, windPath_rotate]

theorem crossing_self (p a : Pt) : crossing p a a = 0 := by
  unfold crossing
  have n : ¬ (a.y ≤ p.y ∧ p.y < a.y) := by omega
  simp only [n, if_false]

theorem windPath_dup_head (a : Pt) (l : List Pt) (p : Pt) : windPath (a :: a :: l) p = windPath (a :: l) p := by
  unfold windPath
  rw [edgesOf_cons, edgesOf_cons]
  simp only [chain, List.map_cons, List.sum_cons, crossing_self]
  omega

/-- **Duplicate vertex.** Repeating a vertex anywhere in a closed path keeps its winding number. -/
theorem windPath_dup (l₁ l₂ : List Pt) (a : Pt) (p : Pt) :
    windPath (l₁ ++ a :: a :: l₂) p = windPath (l₁ ++ a :: l₂) p := by
  rw [windPath_rotate (a :: a :: l₂) l₁, windPath_rotate (a :: l₂) l₁]
  exact windPath_dup_head a (l₂ ++ l₁) p

/-- **Explicit closing vertex.** Appending a copy of the first vertex keeps the winding number. -/
theorem windPath_closing (a : Pt) (rest : List Pt) (p : Pt) :
    windPath (a :: rest ++ [a]) p = windPath (a :: rest) p := by
  have := windPath_rotate [a] (a :: rest) p
  rw [this]
  exact windPath_dup_head a rest p

theorem wind_dup (ps₁ ps₂ : Paths) (l₁ l₂ : List Pt) (a : Pt) (p : Pt) :
    wind (ps₁ ++ (l₁ ++ a :: a :: l₂) :: ps₂) p = wind (ps₁ ++ (l₁ ++ a :: l₂) :: ps₂) p := by
  simp only [wind, List.map_append, List.map_cons, windPath_dup]

theorem wind_closing (ps₁ ps₂ : Paths) (a : Pt) (rest : List Pt) (p : Pt) :
    wind (ps₁ ++ (a :: rest ++ [a]) :: ps₂) p = wind (ps₁ ++ (a :: rest) :: ps₂) p := by
  simp only [wind, List.map_append, List.map_cons, windPath_closing]

example : windPath ([⟨0,0⟩, ⟨2,0⟩] ++ ⟨2,2⟩ :: ⟨2,2⟩ :: [⟨0,2⟩]) ⟨1,1⟩ = 1 := by decide

/-! ### reversal -/

theorem cross_swap (a b p : Pt) : cross b a p = -cross a b p := by
  simp only [cross]; grind

theorem crossing_swap (p a b : Pt) : crossing p b a = -crossing p a b := by
  unfold crossing
  rw [cross_swap]
  by_cases h1 : a.y ≤ p.y ∧ p.y < b.y
  · have n : ¬ (b.y ≤ p.y ∧ p.y < a.y) := by omega
    simp only [h1, n, and_self, if_true, if_false]
    split <;> split <;> omega
  · by_cases h2 : b.y ≤ p.y ∧ p.y < a.y
    · simp only [h1, h2, and_self, if_true, if_false]
      split <;> split <;> omega
    · simp only [h1, h2, if_false]; rfl

theorem chain_reverse (a z : Pt) (l : List Pt) :
    ((chain a l z).reverse).map (fun e => (e.2, e.1)) = chain z l.reverse a := by
  induction l generalizing a with
  | nil => rfl
  | cons b r ih =>
    simp only [chain, List.reverse_cons, List.map_append, List.map_cons, List.map_nil, ih]
    rw [chain_append]; rfl

/-- **Reversal.** Reversing the vertex order of a closed path negates its winding number (so reversing all
paths keeps EvenOdd / NonZero fillings and exchanges Positive with Negative, see `inFill_neg`). -/
theorem windPath_reverse (path : Path) (p : Pt) : windPath path.reverse p = -windPath path p := by
  cases path with
  | nil => rfl
  | cons a rest =>
    rw [List.reverse_cons, windPath_rotate [a] rest.reverse p]
    unfold windPath
    rw [List.singleton_append, edgesOf_cons, edgesOf_cons, ← chain_reverse, List.map_map]
    rw [sum_perm ((List.reverse_perm (chain a rest a)).map _)]
    have : ∀ e ∈ chain a rest a, ((fun e : Pt × Pt => crossing p e.1 e.2) ∘ fun e => (e.2, e.1)) e
        = -1 * crossing p e.1 e.2 := by
      intro e _
      simp only [Function.comp_def]
      rw [crossing_swap]; omega
    rw [List.map_congr_left this, sum_map_mul_left]
    omega

theorem wind_reverse (ps : Paths) (p : Pt) : wind (ps.map List.reverse) p = -wind ps p := by
  unfold wind
  rw [List.map_map]
  have : ∀ path ∈ ps, ((fun path => windPath path p) ∘ List.reverse) path = -1 * windPath path p := by
    intro path _
    simp only [Function.comp_def]
    rw [windPath_reverse]; omega
  rw [List.map_congr_left this, sum_map_mul_left]
  omega

/-- negating the winding number keeps EvenOdd and NonZero fillings and exchanges Positive with Negative -/
theorem inFill_neg (w : Int) :
    inFill .evenOdd (-w) = inFill .evenOdd w ∧ inFill .nonZero (-w) = inFill .nonZero w ∧
    inFill .positive (-w) = inFill .negative w ∧ inFill .negative (-w) = inFill .positive w := by
  simp only [inFill]
  refine ⟨?_, ?_, ?_, ?_⟩ <;> (rw [Bool.eq_iff_iff]; simp <;> omega)

example : windPath ([⟨0,0⟩, ⟨2,0⟩, ⟨0,2⟩] : Path).reverse ⟨0, 1⟩ = -1 := by decide

/-! ### `OffSpan` follows from "on no edge" -/

theorem between_of_prop {dx dy t u : Int} (hdy : 0 < dy) (ht0 : 0 ≤ t) (ht : t < dy) (h : dx * t = dy * u)
    (hdx : 0 ≤ dx) : 0 ≤ u ∧ u ≤ dx := by
  constructor
  · apply Int.le_of_not_gt
    intro hu
    have h1 : dy * u < 0 := Int.mul_neg_of_pos_of_neg hdy hu
    have h2 : 0 ≤ dx * t := Int.mul_nonneg hdx ht0
    omega
  · apply Int.le_of_not_gt
    intro hu
    have h1 : dy * (dx + 1) ≤ dy * u := Int.mul_le_mul_of_nonneg_left (by omega) (Int.le_of_lt hdy)
    have h2 : dx * t ≤ dx * dy := Int.mul_le_mul_of_nonneg_left (Int.le_of_lt ht) hdx
    rw [Int.mul_add, Int.mul_one, Int.mul_comm dy dx] at h1
    omega

theorem span_between {a b p : Pt} (hs : a.y ≤ p.y ∧ p.y < b.y) (hc : cross a b p = 0) :
    min a.x b.x ≤ p.x ∧ p.x ≤ max a.x b.x := by
  unfold cross at hc
  have h : (b.x - a.x) * (p.y - a.y) = (b.y - a.y) * (p.x - a.x) := by omega
  by_cases hdx : 0 ≤ b.x - a.x
  · have := between_of_prop (by omega) (by omega) (by omega) h hdx
    omega
  · have h' : (-(b.x - a.x)) * (p.y - a.y) = (b.y - a.y) * (-(p.x - a.x)) := by
      rw [Int.neg_mul, Int.mul_neg, h]
    have := between_of_prop (by omega) (by omega) (by omega) h' (by omega)
    omega

/-- A point that is on no edge (the Spec's `onBoundary` is false for every path) satisfies `OffSpan`. -/
theorem offSpan_of_not_onBoundary {ps : Paths} {p : Pt} (h : ∀ path ∈ ps, onBoundary path p = false) :
    OffSpan ps p := by
  intro path hp e he hspan hc
  have hb := h path hp
  unfold onBoundary at hb
  have hseg := List.any_eq_false.mp hb e he
  apply hseg
  unfold onSeg
  rcases hspan with hs | hs
  · have := span_between hs hc
    simp only [hc, Bool.and_eq_true, decide_eq_true_eq, beq_self_eq_true, true_and]
    omega
  · have hc' : cross e.2 e.1 p = 0 := by rw [cross_swap, hc]; rfl
    have := span_between hs hc'
    simp only [hc, Bool.and_eq_true, decide_eq_true_eq, beq_self_eq_true, true_and]
    omega

/-- `wind_mirrorX` for points on no edge. -/
theorem wind_mirrorX_offBoundary (ps : Paths) (p : Pt) (h : ∀ path ∈ ps, onBoundary path p = false) :
    wind (mapPaths mirX ps) (mirX p) = -wind ps p :=
  wind_mirrorX ps p (offSpan_of_not_onBoundary h)

/-! ### transposition `x ↔ y`: the winding number does not depend on the direction of the ray

`transpose` turns the ray towards +x (half-open in y) into the ray towards +y (half-open in x) and reverses
orientation.  That both rays count the same winding number is not an edge-by-edge fact: the two counts of one edge
differ by the increment of a *potential* — the indicator of the open quadrant between the two rays — so the difference
telescopes to zero around a closed path (`edges_telescope`). -/

def transposePt (a : Pt) : Pt := ⟨a.y, a.x⟩
def transpose (ps : Paths) : Paths := mapPaths transposePt ps

/-- Contribution of the directed edge `a → b` to the winding number around `p` counted on the ray towards **+y**
(half-open rule in x: an edge owns its left end point, not its right one); counter-clockwise positive as `crossing`. -/
def crossingV (p a b : Pt) : Int :=
  if b.x ≤ p.x ∧ p.x < a.x then (if cross a b p > 0 then 1 else 0)
  else if a.x ≤ p.x ∧ p.x < b.x then (if cross a b p < 0 then -1 else 0)
  else 0

/-- winding number of a closed path counted on the vertical ray -/
def windPathV (path : Path) (p : Pt) : Int := ((edgesOf path).map (fun e => crossingV p e.1 e.2)).sum
def windV (ps : Paths) (p : Pt) : Int := (ps.map (fun path => windPathV path p)).sum

/-- 1 in the open quadrant right of and above `p` (the sector swept counter-clockwise from the ray towards +x to the
ray towards +y; points on either ray are outside, matching the two half-open rules) -/
def quadI (p v : Pt) : Int := if p.x < v.x ∧ p.y < v.y then 1 else 0

theorem cross_transpose (a b p : Pt) : cross (transposePt a) (transposePt b) (transposePt p) = -cross a b p := by
  simp only [cross, transposePt]; grind

/-- transposing the picture is counting on the vertical ray, with the orientation reversed (an identity of definitions) -/
theorem crossing_transpose (p a b : Pt) : crossing (transposePt p) (transposePt a) (transposePt b) = -crossingV p a b := by
  unfold crossing crossingV
  rw [cross_transpose]
  simp only [transposePt]
  by_cases h1 : a.x ≤ p.x ∧ p.x < b.x
  · have n : ¬ (b.x ≤ p.x ∧ p.x < a.x) := by omega
    simp only [h1, n, and_self, if_true, if_false]
    split <;> split <;> omega
  · by_cases h2 : b.x ≤ p.x ∧ p.x < a.x
    · simp only [h1, h2, and_self, if_true, if_false]
      split <;> split <;> omega
    · simp only [h1, h2, if_false]; rfl

/-- the nine sign patterns of two factors with the sign of the product -/
theorem prod_cases (x y : Int) :
    (x < 0 ∧ y < 0 ∧ 0 < x * y) ∨ (x < 0 ∧ y = 0 ∧ x * y = 0) ∨ (x < 0 ∧ 0 < y ∧ x * y < 0) ∨
    (x = 0 ∧ y < 0 ∧ x * y = 0) ∨ (x = 0 ∧ y = 0 ∧ x * y = 0) ∨ (x = 0 ∧ 0 < y ∧ x * y = 0) ∨
    (0 < x ∧ y < 0 ∧ x * y < 0) ∨ (0 < x ∧ y = 0 ∧ x * y = 0) ∨ (0 < x ∧ 0 < y ∧ 0 < x * y) := by
  rcases Int.lt_trichotomy x 0 with hx | hx | hx <;> rcases Int.lt_trichotomy y 0 with hy | hy | hy
  · exact Or.inl ⟨hx, hy, Int.mul_pos_of_neg_of_neg hx hy⟩
  · exact Or.inr (Or.inl ⟨hx, hy, by rw [hy, Int.mul_zero]⟩)
  · exact Or.inr (Or.inr (Or.inl ⟨hx, hy, Int.mul_neg_of_neg_of_pos hx hy⟩))
  · exact Or.inr (Or.inr (Or.inr (Or.inl ⟨hx, hy, by rw [hx, Int.zero_mul]⟩)))
  · exact Or.inr (Or.inr (Or.inr (Or.inr (Or.inl ⟨hx, hy, by rw [hx, Int.zero_mul]⟩))))
  · exact Or.inr (Or.inr (Or.inr (Or.inr (Or.inr (Or.inl ⟨hx, hy, by rw [hx, Int.zero_mul]⟩)))))
  · exact Or.inr (Or.inr (Or.inr (Or.inr (Or.inr (Or.inr (Or.inl ⟨hx, hy, Int.mul_neg_of_pos_of_neg hx hy⟩))))))
  · exact Or.inr (Or.inr (Or.inr (Or.inr (Or.inr (Or.inr (Or.inr (Or.inl ⟨hx, hy, by rw [hy, Int.mul_zero]⟩)))))))
  · exact Or.inr (Or.inr (Or.inr (Or.inr (Or.inr (Or.inr (Or.inr (Or.inr ⟨hx, hy, Int.mul_pos hx hy⟩)))))))

/-- the local lemma in coordinates relative to `p` (`u`, `v` = x, y of `a − p` and `b − p`): 81 sign patterns, each linear -/
theorem crossing_core (u1 v1 u2 v2 : Int)
    (hoff : ¬ (u1 * v2 - u2 * v1 = 0 ∧ min u1 u2 ≤ 0 ∧ 0 ≤ max u1 u2 ∧ min v1 v2 ≤ 0 ∧ 0 ≤ max v1 v2)) :
    (if v1 ≤ 0 ∧ 0 < v2 then (if u1 * v2 - u2 * v1 > 0 then 1 else 0)
      else if v2 ≤ 0 ∧ 0 < v1 then (if u1 * v2 - u2 * v1 < 0 then -1 else 0) else 0)
    - (if u2 ≤ 0 ∧ 0 < u1 then (if u1 * v2 - u2 * v1 > 0 then 1 else 0)
      else if u1 ≤ 0 ∧ 0 < u2 then (if u1 * v2 - u2 * v1 < 0 then -1 else 0) else (0:Int))
    = (if 0 < u2 ∧ 0 < v2 then 1 else 0) - (if 0 < u1 ∧ 0 < v1 then 1 else (0:Int)) := by
  rcases prod_cases u1 v2 with ⟨h1, h2, h3⟩ | ⟨h1, h2, h3⟩ | ⟨h1, h2, h3⟩ | ⟨h1, h2, h3⟩ | ⟨h1, h2, h3⟩ | ⟨h1, h2, h3⟩ | ⟨h1, h2, h3⟩ | ⟨h1, h2, h3⟩ | ⟨h1, h2, h3⟩ <;>
  rcases prod_cases u2 v1 with ⟨k1, k2, k3⟩ | ⟨k1, k2, k3⟩ | ⟨k1, k2, k3⟩ | ⟨k1, k2, k3⟩ | ⟨k1, k2, k3⟩ | ⟨k1, k2, k3⟩ | ⟨k1, k2, k3⟩ | ⟨k1, k2, k3⟩ | ⟨k1, k2, k3⟩ <;>
  (generalize u1 * v2 = m1 at *; generalize u2 * v1 = m2 at *; omega)

/-- `cross a b p` is the cross product of the vectors from `p` to `a` and from `p` to `b` -/
theorem cross_rel (a b p : Pt) : cross a b p = (a.x - p.x) * (b.y - p.y) - (b.x - p.x) * (a.y - p.y) := by
  simp only [cross]; grind

/-- **The local lemma.**  For a segment that does not contain `p`, the count on the horizontal ray and the count on the
vertical ray differ by the increment of the quadrant indicator. -/
theorem crossing_sub_crossingV {a b p : Pt} (h : onSeg p a b = false) :
    crossing p a b - crossingV p a b = quadI p b - quadI p a := by
  have hoff : ¬ (cross a b p = 0 ∧ min a.x b.x ≤ p.x ∧ p.x ≤ max a.x b.x ∧ min a.y b.y ≤ p.y ∧ p.y ≤ max a.y b.y) := by
    rintro ⟨h0, h1, h2, h3, h4⟩
    simp [onSeg, h0, h1, h2, h3, h4] at h
  rw [cross_rel] at hoff
  have key := crossing_core (a.x - p.x) (a.y - p.y) (b.x - p.x) (b.y - p.y) (by
    intro ⟨h0, h1, h2, h3, h4⟩; exact hoff ⟨h0, by omega, by omega, by omega, by omega⟩)
  have e1 : (a.y - p.y ≤ 0 ∧ 0 < b.y - p.y) ↔ (a.y ≤ p.y ∧ p.y < b.y) := by omega
  have e2 : (b.y - p.y ≤ 0 ∧ 0 < a.y - p.y) ↔ (b.y ≤ p.y ∧ p.y < a.y) := by omega
  have e3 : (b.x - p.x ≤ 0 ∧ 0 < a.x - p.x) ↔ (b.x ≤ p.x ∧ p.x < a.x) := by omega
  have e4 : (a.x - p.x ≤ 0 ∧ 0 < b.x - p.x) ↔ (a.x ≤ p.x ∧ p.x < b.x) := by omega
  have e5 : (0 < b.x - p.x ∧ 0 < b.y - p.y) ↔ (p.x < b.x ∧ p.y < b.y) := by omega
  have e6 : (0 < a.x - p.x ∧ 0 < a.y - p.y) ↔ (p.x < a.x ∧ p.y < a.y) := by omega
  simp only [e1, e2, e3, e4, e5, e6] at key
  unfold crossing crossingV quadI
  rw [cross_rel]
  exact key

/-- **Ray-direction independence, one path.**  For a closed path and a point on none of its edges, the vertical ray
counts the same winding number as the horizontal ray. -/
theorem windPathV_eq_windPath (path : Path) (p : Pt) (h : onBoundary path p = false) :
    windPathV path p = windPath path p := by
  have hedge : ∀ e ∈ edgesOf path, crossingV p e.1 e.2 = crossing p e.1 e.2 - (quadI p e.2 - quadI p e.1) := by
    intro e he
    have hs : onSeg p e.1 e.2 = false := by
      have := List.any_eq_false.mp h e he
      simpa using this
    have := crossing_sub_crossingV hs
    omega
  unfold windPathV windPath
  rw [List.map_congr_left hedge, sum_map_sub, edges_telescope (quadI p)]
  omega

/-- **Ray-direction independence.**  For closed paths and a point on no edge, `windV` (ray towards +y, half-open in x)
equals `wind` (ray towards +x, half-open in y). -/
theorem windV_eq_wind (ps : Paths) (p : Pt) (h : ∀ path ∈ ps, onBoundary path p = false) : windV ps p = wind ps p := by
  unfold windV wind
  congr 1
  apply List.map_congr_left
  intro path hp
  exact windPathV_eq_windPath path p (h path hp)

/-- transposing a path and the point is counting on the vertical ray with the sign reversed (no hypothesis) -/
theorem windPath_transposePt (path : Path) (p : Pt) :
    windPath (path.map transposePt) (transposePt p) = -windPathV path p := by
  unfold windPath windPathV
  rw [edgesOf_map, List.map_map]
  have : ∀ e ∈ edgesOf path,
      ((fun e : Pt × Pt => crossing (transposePt p) e.1 e.2) ∘ fun e => (transposePt e.1, transposePt e.2)) e
        = -1 * crossingV p e.1 e.2 := by
    intro e _
    simp only [Function.comp_def]
    rw [crossing_transpose]; omega
  rw [List.map_congr_left this, sum_map_mul_left]
  omega

theorem wind_transpose_eq_windV (ps : Paths) (p : Pt) : wind (transpose ps) (transposePt p) = -windV ps p := by
  unfold wind windV transpose mapPaths
  rw [List.map_map]
  have : ∀ path ∈ ps, ((fun path => windPath path (transposePt p)) ∘ fun q => List.map transposePt q) path
      = -1 * windPathV path p := by
    intro path _
    simp only [Function.comp_def]
    rw [windPath_transposePt]; omega
  rw [List.map_congr_left this, sum_map_mul_left]
  omega

/-- **Transposition `x ↔ y`** (orientation reversing): for every set of closed paths and every point that lies on no
edge, the winding number of the transposed paths around the transposed point is the negative of the original one. -/
theorem wind_transpose (ps : Paths) (p : Pt) (h : ∀ path ∈ ps, onBoundary path p = false) :
    wind (transpose ps) (transposePt p) = -wind ps p := by
  rw [wind_transpose_eq_windV, windV_eq_wind ps p h]

/-- hence transposition keeps EvenOdd / NonZero fillings and exchanges Positive with Negative -/
theorem inFill_transpose (ps : Paths) (p : Pt) (h : ∀ path ∈ ps, onBoundary path p = false) :
    inFill .evenOdd (wind (transpose ps) (transposePt p)) = inFill .evenOdd (wind ps p) ∧
    inFill .nonZero (wind (transpose ps) (transposePt p)) = inFill .nonZero (wind ps p) ∧
    inFill .positive (wind (transpose ps) (transposePt p)) = inFill .negative (wind ps p) ∧
    inFill .negative (wind (transpose ps) (transposePt p)) = inFill .positive (wind ps p) := by
  rw [wind_transpose ps p h]; exact inFill_neg _

/-- non-vacuity: a self-overlapping path (winding number 2 at the point) and a second path around it; the point is level
with vertices in x and in y and lies on the supporting line of an edge, but on no edge -/
example :
    (∀ path ∈ ([[⟨0,0⟩, ⟨6,0⟩, ⟨6,6⟩, ⟨0,6⟩, ⟨0,0⟩, ⟨4,0⟩, ⟨4,4⟩, ⟨0,4⟩], [⟨1,1⟩, ⟨3,2⟩, ⟨9,2⟩, ⟨9,9⟩, ⟨1,9⟩]] : Paths),
      onBoundary path ⟨2, 2⟩ = false) ∧
    wind [[⟨0,0⟩, ⟨6,0⟩, ⟨6,6⟩, ⟨0,6⟩, ⟨0,0⟩, ⟨4,0⟩, ⟨4,4⟩, ⟨0,4⟩], [⟨1,1⟩, ⟨3,2⟩, ⟨9,2⟩, ⟨9,9⟩, ⟨1,9⟩]] ⟨2, 2⟩ = 3 ∧
    wind (transpose [[⟨0,0⟩, ⟨6,0⟩, ⟨6,6⟩, ⟨0,6⟩, ⟨0,0⟩, ⟨4,0⟩, ⟨4,4⟩, ⟨0,4⟩], [⟨1,1⟩, ⟨3,2⟩, ⟨9,2⟩, ⟨9,9⟩, ⟨1,9⟩]])
      (transposePt ⟨2, 2⟩) = -3 := by decide

/-- the hypothesis cannot be dropped: a point on the diagonal edge of a triangle counts as outside for the horizontal
ray (the edges to its right own it) and as inside for the vertical one -/
example : wind (transpose [[⟨0,0⟩, ⟨4,4⟩, ⟨0,4⟩]]) (transposePt ⟨2, 2⟩) ≠ -wind [[⟨0,0⟩, ⟨4,4⟩, ⟨0,4⟩]] ⟨2, 2⟩ := by
  decide

/-- the two counts of a single edge do differ (it is only the sum around a closed path that agrees) -/
example : crossing ⟨0,0⟩ ⟨1,-1⟩ ⟨1,1⟩ = 1 ∧ crossingV ⟨0,0⟩ ⟨1,-1⟩ ⟨1,1⟩ = 0 := by decide

end Clipper.Props.C13Spec
