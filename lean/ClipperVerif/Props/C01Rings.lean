/-
C01 / C03, output ring assembly: theorems on `Model/AelRings.lean`, the model of how the Vatti sweep builds its `OutPt` rings
(`AddOutPt`, `AddLocalMinPoly`, `AddLocalMaxPoly`, `JoinOutrecPaths`, `SwapOutrecs`, `Split`, `CheckJoinLeft/Right`), layered on the side
bookkeeping model of C11 (`Model/AelSides.lean`) and tied to the real engine by replaying hook traces point for point
(`harness/aelrings.h`, `harness/C01rings.cpp`, driver command `AELRINGS`).

Proved here for **every** event list from the empty state (any number of edges and records, any points, any interleaving the side model
accepts), every clip type except `NoClip` and every fill rule:

* `erase_ring_step`, `erase_ring_run`  — forgetting the rings, a step / a run of this model *is* the step / run of the side model
  (`update` events are invisible there); hence `sinv_rings`, `recs_rings`, `run_never_faults`, `front_edge_unfilled_left`: every theorem of
  `Props/C11Sides.lean` and, through it, of `Props/C01.lean` holds in every state reachable here.
* `rings_conserve_points`  — conservation and provenance: the points in all rings (under construction, finished, emptied) are, as a multiset,
  exactly the points for which an `OutPt` was created = the points handed to `AddOutPt` / `AddLocalMinPoly` minus exactly those `AddOutPt`
  suppressed as duplicates of the end they were to extend; `AddOutPt` is never called on a missing or dead record; every point handed over is
  the point of an event.  `JoinOutrecPaths`, `SwapOutrecs`, ring closing and `Split` neither lose nor duplicate a point.
* `ring_points_from_events` — every vertex of every ring is the point of one of the events (a local minimum, a vertex passed by a hot edge,
  a maximum, an intersection point, a join / split point).
* `ring_ends_at_edges`     — the link between the AEL and the rings: there are exactly as many rings as records; every closed edge that owns a
  record owns a ring under construction with at least one point; and the front (back) point of every ring under construction is the last point
  handed to `AddOutPt` / `AddLocalMinPoly` — suppressed or not — for the edge that holds its front (back) end.
* `ring_segments_on_edges_partial` — every pair of neighbours of every ring (cyclically for finished rings) is in the segment log, i.e. arose in one
  of four enumerated ways: `extend` (two consecutive emissions at one end during one run = while one `Active` holds that end), `meet` (the
  end point of the other edge and the meeting point at a local maximum / a crossing treated as one), `joinMeet` (the same at a join), `joinSeam`
  (the two end points glued by `CheckJoinLeft/Right` without a new point).  *Partial*: that two consecutive emissions of one `Active`
  span a piece of one input edge (or of two consecutive edges of one bound, through an emitted vertex) is geometry and not proved.
* `run_follows_active`, `run_follows_active_run` — a run is the tenure of one `Active` at one ring end: following the edges through the AEL by
  position (`trackPos`: insertions shift, `SwapPositionsInAEL` exchanges, removals delete), every run id held after an event is new or was
  held before by the *same* edge (`JoinOutrecPaths` may have renamed its record); `runs_below_nrun`: new run ids are unused ones.  Together with `front_edge_unfilled_left`
  (front edge ⇔ region on its right) and C01 `contributing_iff_boundary` (an edge owns a record ⇔ it bounds the region) this is the
  combinatorial skeleton of "finished rings are made of boundary-edge pieces with the filled region on the correct side".

Trusted base of the tie (checked on every trace by `harness/C01rings.cpp`): the event list of a real sweep with the points read by
`harness/aelrings.h`; horizontal joins (`ConvertHorzSegsToJoins` / `ProcessHorzJoins`) are not modelled — a trace is followed up to the first such
join — and open-path records are not tracked.
-/
import ClipperVerif.Lemmas.AelRingsRuns
import ClipperVerif.Props.C11Sides
namespace Clipper.Props.C01Rings
open Clipper Clipper.Model

/-! ## (1) the ring model refines the side model -/

/-- **erase_ring_step.** Forgetting the rings, an accepted event is the same event of the side model `Model.stepS`; an `update` event
(`AddOutPt(e, e.top)` before `UpdateEdgeIntoAEL`) leaves the side state alone.  The rings change by `Model.outStep`, computed from the side state before the event. -/
theorem erase_ring_step (cfg : Cfg) (r r' : RState) (op : ROp) (h : stepR cfg r op = .ok r') :
    (match op.erase with
     | some sop => stepS cfg r.s sop = .ok r'.s
     | none => r'.s = r.s) ∧ r'.o = outStep cfg r.s r.o op := by
  unfold stepR at h
  cases he : op.erase with
  | some sop =>
    simp only [he] at h ⊢
    cases hs : stepS cfg r.s sop with
    | ok s' => simp only [hs] at h; cases h; exact ⟨rfl, rfl⟩
    | error e => simp [hs] at h
  | none =>
    simp only [he] at h ⊢
    cases op with
    | update i p =>
      simp only at h
      split at h
      · cases h; exact ⟨rfl, rfl⟩
      · cases h
    | base _ _ => simp [ROp.erase] at he
    | join _ _ => simp [ROp.erase] at he
    | split _ _ => simp [ROp.erase] at he

/-- **erase_ring_run.** A run of the ring model projects to a run of the side model on the erased event list. -/
theorem erase_ring_run (cfg : Cfg) (ops : List ROp) : ∀ (r r' : RState), runR cfg r ops = .ok r' →
    runS cfg r.s (ops.filterMap ROp.erase) = .ok r'.s := by
  induction ops with
  | nil => intro r r' h; simp only [runR] at h; cases h; rfl
  | cons op ops ih =>
    intro r r' h
    simp only [runR] at h
    cases hs : stepR cfg r op with
    | error e => simp [hs] at h
    | ok r1 =>
      simp only [hs] at h
      have h1 := (erase_ring_step cfg r r1 op hs).1
      have h2 := ih r1 r' h
      cases he : op.erase with
      | some sop =>
        simp only [he] at h1
        simp only [List.filterMap_cons, he, runS, h1]
        exact h2
      | none =>
        simp only [he] at h1
        simp only [List.filterMap_cons, he]
        rw [← h1]; exact h2

/-- the side invariant (wind counts, hot ⇔ contributing, alternation of front and back edges) holds in every state reachable in the ring model -/
theorem sinv_rings (cfg : Cfg) (hct : cfg.ct ≠ .noClip) (ops : List ROp) (r : RState) (hr : runR cfg RState.empty ops = .ok r) : SInv cfg r.s :=
  C11Sides.sinv_reachable cfg hct _ r.s (erase_ring_run cfg ops _ r hr)

theorem recs_rings (cfg : Cfg) (hct : cfg.ct ≠ .noClip) (ops : List ROp) (r : RState) (hr : runR cfg RState.empty ops = .ok r) : RecsOK r.s.next r.s.ael :=
  C11Sides.recs_reachable cfg hct _ r.s (erase_ring_run cfg ops _ r hr)

/-- a run of the ring model can be rejected (ill-formed event list), it never reaches one of the side model's faults -/
theorem run_never_faults (cfg : Cfg) (hct : cfg.ct ≠ .noClip) (ops : List ROp) (f : Fault) : runR cfg RState.empty ops ≠ .error (.fault f) := by
  suffices H : ∀ (ops : List ROp) (r : RState), SInv cfg r.s → runR cfg r ops ≠ .error (.fault f) from
    H ops RState.empty (C11Sides.sinv_empty cfg)
  intro ops
  induction ops with
  | nil => intro r _ h; simp [runR] at h
  | cons op ops ih =>
    intro r hS h
    simp only [runR] at h
    cases hs : stepR cfg r op with
    | ok r1 =>
      simp only [hs] at h
      have e := (erase_ring_step cfg r r1 op hs).1
      refine ih r1 ?_ h
      cases he : op.erase with
      | some sop => simp only [he] at e; exact C11Sides.sinv_step cfg hct r.s r1.s sop hS e
      | none => simp only [he] at e; rw [e]; exact hS
    | error e =>
      simp only [hs] at h
      cases h
      unfold stepR at hs
      cases he : op.erase with
      | some sop =>
        simp only [he] at hs
        cases hss : stepS cfg r.s sop with
        | ok s' => simp [hss] at hs
        | error e' =>
          simp only [hss] at hs
          cases hs
          exact C11Sides.step_never_faults cfg hct r.s sop hS f hss
      | none =>
        simp only [he] at hs
        cases op with
        | update i p => simp only at hs; split at hs <;> cases hs
        | base _ _ => simp [ROp.erase] at he
        | join _ _ => simp [ROp.erase] at he
        | split _ _ => simp [ROp.erase] at he

/-- **front_edge_unfilled_left** (C11 `front_iff_unfilled_left` in the ring model): in every reachable state a closed edge that owns a record —
hence a ring under construction, `ring_ends_at_edges` — holds the ring's *front* end iff the gap to its left is outside the result region. -/
theorem front_edge_unfilled_left (cfg : Cfg) (hct : cfg.ct ≠ .noClip) (ops : List ROp) (r : RState) (hr : runR cfg RState.empty ops = .ok r)
    (pre rest : List SEdge) (x : SEdge) (k : Rec) (hl : r.s.ael = pre ++ x :: rest) (hx : x.e.isOpen = false) (hk : x.orec = some k) :
    k.front = !inR cfg.ct cfg.fr (sumT .subject (erase pre)) (sumT .clip (erase pre)) :=
  C11Sides.front_iff_unfilled_left cfg hct _ r.s (erase_ring_run cfg ops _ r hr) pre rest x k hl hx hk

/-! ## (2) the ring invariants along every run -/

/-- the ring invariant: `OInv` (as many rings as records, hot edges own live rings, no point lost, neighbours logged), ring ends = last emissions,
conservation, provenance of the log -/
structure RInv (E : List Pt) (r : RState) : Prop where
  oinv : OInv r.s.next r.s.ael r.o
  ends : EndsOK r.o
  perm : PermOK r.o
  prov : ∀ e ∈ r.o.log, e.pt ∈ E
  runs : RunsBound r.o

theorem rinv_empty : RInv [] RState.empty := by
  refine ⟨⟨rfl, ?_, ?_, ?_⟩, ?_, ?_, ?_, ?_⟩
  · intro x hx; simp [RState.empty, SState.empty] at hx
  · intro e he; simp [RState.empty, Out.empty] at he
  · intro g hg; simp [RState.empty, Out.empty] at hg
  · intro g hg; simp [RState.empty, Out.empty] at hg
  · simp [PermOK, RState.empty, Out.empty, allPts, keptPts]
  · intro e he; simp [RState.empty, Out.empty] at he
  · intro g hg; simp [RState.empty, Out.empty] at hg

/-- one event keeps `OInv` -/
theorem oinv_step (cfg : Cfg) (r r' : RState) (op : ROp) (hS : SInv cfg r.s) (hR : RecsOK r.s.next r.s.ael)
    (h : OInv r.s.next r.s.ael r.o) (hs : stepR cfg r op = .ok r') : OInv r'.s.next r'.s.ael r'.o := by
  obtain ⟨h1, h2⟩ := erase_ring_step cfg r r' op hs
  rw [h2]
  cases op with
  | base b p =>
    simp only [ROp.erase] at h1
    cases b with
    | insertPair pos t isOpen dx => exact oinv_insertPair cfg pos t isOpen dx p r.s r'.s r.o h h1
    | insertOne pos t dx => exact oinv_insertOne cfg pos t dx r.s r'.s r.o h h1
    | intersect i => exact oinv_intersect cfg i p r.s r'.s r.o hS.side hR h h1
    | removePair i => exact oinv_removePair i p r.s r'.s r.o hS.side hR h h1
    | removeOne i => exact oinv_removeOne i r.s r'.s r.o h h1
  | join i p =>
    simp only [ROp.erase] at h1
    exact oinv_join i p r.s r'.s r.o hR h h1
  | split i p =>
    simp only [ROp.erase] at h1
    exact oinv_splitS i p r.s r'.s r.o h h1
  | update i p =>
    simp only [ROp.erase] at h1
    rw [h1]
    exact oinv_update i p r.s r.o h

theorem rinv_step (cfg : Cfg) (E : List Pt) (r r' : RState) (op : ROp) (hS : SInv cfg r.s) (hR : RecsOK r.s.next r.s.ael)
    (h : RInv E r) (hs : stepR cfg r op = .ok r') : RInv (op.pt :: E) r' := by
  have h2 := (erase_ring_step cfg r r' op hs).2
  refine ⟨oinv_step cfg r r' op hS hR h.oinv hs, ?_, ?_, ?_, ?_⟩
  rotate_left 3
  · rw [h2]; exact pres_outStep cfg r.s r.o op RunsBound (runsBound_prim op.pt) h.runs
  · rw [h2]; exact pres_outStep cfg r.s r.o op EndsOK (endsOK_prim op.pt) h.ends
  · rw [h2]; exact pres_outStep cfg r.s r.o op PermOK (permOK_prim op.pt) h.perm
  · rw [h2]
    have := pres_outStep cfg r.s r.o op (LogFrom r.o.log op.pt) (logFrom_prim r.o.log op.pt) (fun e he => Or.inl he)
    intro e he
    rcases this e he with h' | h'
    · exact List.mem_cons_of_mem _ (h.prov e h')
    · rw [h']; exact List.mem_cons_self

/-- the points of an event list, most recent first -/
def eventPts (ops : List ROp) : List Pt := (ops.map ROp.pt).reverse

theorem rinv_run (cfg : Cfg) (hct : cfg.ct ≠ .noClip) (ops : List ROp) : ∀ (E : List Pt) (r r' : RState), SInv cfg r.s → RecsOK r.s.next r.s.ael → RInv E r →
    runR cfg r ops = .ok r' → RInv (eventPts ops ++ E) r' := by
  induction ops with
  | nil => intro E r r' _ _ h hr; simp only [runR] at hr; cases hr; simpa [eventPts] using h
  | cons op ops ih =>
    intro E r r' hS hR h hr
    simp only [runR] at hr
    cases hs : stepR cfg r op with
    | error e => simp [hs] at hr
    | ok r1 =>
      simp only [hs] at hr
      have e := (erase_ring_step cfg r r1 op hs).1
      have h1 := rinv_step cfg E r r1 op hS hR h hs
      have hS1 : SInv cfg r1.s ∧ RecsOK r1.s.next r1.s.ael := by
        cases he : op.erase with
        | some sop =>
          simp only [he] at e
          have := C11Sides.stepS_spec cfg hct r.s sop hS
          rw [e] at this
          exact ⟨this.1, this.2 hR⟩
        | none => simp only [he] at e; rw [e]; exact ⟨hS, hR⟩
      have := ih (op.pt :: E) r1 r' hS1.1 hS1.2 h1 hr
      simpa [eventPts, List.append_assoc] using this

/-- **rinv_reachable.** All ring invariants hold after every event list from the empty state. -/
theorem rinv_reachable (cfg : Cfg) (hct : cfg.ct ≠ .noClip) (ops : List ROp) (r : RState) (hr : runR cfg RState.empty ops = .ok r) :
    RInv (eventPts ops) r := by
  have := rinv_run cfg hct ops [] RState.empty r (C11Sides.sinv_empty cfg) (by intro k; simp [RState.empty, SState.empty, cnt]) rinv_empty hr
  simpa using this

/-! ## (3) the property theorems -/

/-- **rings_conserve_points.** After every event list: (a) the points of all rings are, up to order, exactly the points for which an `OutPt` was created
(log entries `new`, `added`); (b) `AddOutPt` was never called on a missing or dead record, so the log entries that did *not* produce an `OutPt` are
exactly the duplicates `AddOutPt` suppressed (`pt == op_front->pt` when adding to the front, `pt == op_back->pt` when adding to the back);
(c) every point handed to the output is the point of one of the events.  In particular `JoinOutrecPaths`, `SwapOutrecs`, ring closing and `Split`
neither lose nor duplicate a point. -/
theorem rings_conserve_points (cfg : Cfg) (hct : cfg.ct ≠ .noClip) (ops : List ROp) (r : RState) (hr : runR cfg RState.empty ops = .ok r) :
    (allPts r.o.rings).Perm ((r.o.log.filter (fun e => e.kind != .dup)).map (·.pt)) ∧
    (∀ e ∈ r.o.log, e.kind ≠ .lost) ∧
    (∀ e ∈ r.o.log, e.pt ∈ ops.map ROp.pt) := by
  have h := rinv_reachable cfg hct ops r hr
  refine ⟨?_, h.oinv.nolost, ?_⟩
  · have hp := h.perm
    unfold PermOK keptPts at hp
    have : r.o.log.filter Emit.kept = r.o.log.filter (fun e => e.kind != .dup) := by
      apply List.filter_congr
      intro e he
      have := h.oinv.nolost e he
      cases hk : e.kind <;> simp [Emit.kept, hk] at this ⊢
    rw [← this]; exact hp
  · intro e he
    have := h.prov e he
    simpa [eventPts] using this

/-- **ring_points_from_events.** Every vertex of every ring — under construction or finished — is the point carried by one of the events: the `bot` of a
local minimum, the `top` of an edge at a vertex or a maximum, an intersection point, or the point of a join / split (which in the engine are again
one of these). -/
theorem ring_points_from_events (cfg : Cfg) (hct : cfg.ct ≠ .noClip) (ops : List ROp) (r : RState) (hr : runR cfg RState.empty ops = .ok r)
    (g : Ring) (hg : g ∈ r.o.rings) (p : Pt) (hp : p ∈ g.pts) : p ∈ ops.map ROp.pt := by
  obtain ⟨h1, _, h3⟩ := rings_conserve_points cfg hct ops r hr
  have : p ∈ allPts r.o.rings := by
    simp only [allPts, List.mem_flatMap]; exact ⟨g, hg, hp⟩
  have := h1.subset this
  obtain ⟨e, he, rfl⟩ := List.mem_map.mp this
  exact h3 e (List.mem_filter.mp he).1

/-- **ring_ends_at_edges.** The invariant linking the rings to the AEL, in every reachable state:
(a) there are exactly as many rings as closed output records created;
(b) every edge that owns a record `(id, side)` owns a ring under construction (`live`) with at least one point;
(c) for every ring under construction the front point `outrec->pts->pt` is the last point handed to `AddOutPt` / `AddLocalMinPoly` for the edge holding its
front end (`flast`: recorded at every call, suppressed or not, inherited through `JoinOutrecPaths` and `SwapOutrecs`), and the back point
`outrec->pts->next->pt` the last one handed over for the edge holding its back end.
So between two emissions on the edge that holds an end, nothing else is put at that end: each ring segment made by `AddOutPt` joins two
consecutive emissions of one edge (`ring_segments_on_edges_partial`). -/
theorem ring_ends_at_edges (cfg : Cfg) (hct : cfg.ct ≠ .noClip) (ops : List ROp) (r : RState) (hr : runR cfg RState.empty ops = .ok r) :
    r.o.rings.length = r.s.next ∧
    (∀ x ∈ r.s.ael, ∀ k, x.orec = some k → ∃ g, r.o.rings[k.id]? = some g ∧ g.stat = .live ∧ g.pts ≠ []) ∧
    (∀ g ∈ r.o.rings, g.stat = .live → g.pts.head? = some g.flast ∧ g.pts.getLast? = some g.blast) := by
  have h := rinv_reachable cfg hct ops r hr
  refine ⟨h.oinv.len, h.oinv.hot, ?_⟩
  intro g hg hl
  simpa [endPt] using h.ends g hg hl

/-- what `AddOutPt(e, pt)` guarantees about the end it was called for: afterwards the end point is `pt` (added, or already there) -/
theorem addOutPt_end (id : Nat) (f : Bool) (pt : Pt) (o : Out) (g : Ring) (hg : o.rings[id]? = some g) (hl : g.stat = .live) :
    ∃ g', (addOutPt id f pt o).rings[id]? = some g' ∧ endPt f g'.pts = some pt ∧ g'.stat = .live := by
  have hlt : id < o.rings.length := by
    rcases Nat.lt_or_ge id o.rings.length with h | h
    · exact h
    · rw [List.getElem?_eq_none h] at hg; cases hg
  rw [addOutPt_rings]
  simp only [hg, hl, if_true]
  refine ⟨(addPt f pt g).1, by rw [List.getElem?_set_self hlt], ?_, by rw [addPt_stat]; exact hl⟩
  rcases addPt_spec f pt g with ⟨_, h2, h3⟩ | ⟨_, h2, _⟩
  · rw [h2]; exact h3
  · rw [h2]; cases f <;> simp [endPt]

/-- **ring_segments_on_edges_partial.** In every reachable state every pair of neighbours `(p, q)` of every ring — consecutive points of a ring under
construction, cyclically consecutive points of a finished ring — is recorded in the segment log `segs` (in one of the two orientations), i.e. arose in
one of the four ways the model enumerates (`SegKind`): two consecutive emissions at one ring end during one run (`extend`), the closing / joining stretch
of the second edge at a local maximum or a crossing handled as one (`meet`), the same at a join (`joinMeet`), or the seam of `CheckJoinLeft/Right`
between the end points of two rings (`joinSeam`); and both points of every logged segment are points of events.
Full statement wanted (C01/C03): "`p q` is the rounded image of a stretch of one input edge between two consecutive events on that edge, or a join seam".
Proved part: the enumeration above, and (`run_follows_active`) that a run is the tenure of one `Active` — identified by following its position through
the AEL — at one ring end.  Missing: the geometric step (consecutive emissions of one `Active` lie on one input edge or on two consecutive edges of its
bound through an emitted vertex; a join seam is within the join tolerance). -/
theorem ring_segments_on_edges_partial (cfg : Cfg) (hct : cfg.ct ≠ .noClip) (ops : List ROp) (r : RState) (hr : runR cfg RState.empty ops = .ok r) :
    (∀ g ∈ r.o.rings, ∀ pq ∈ (match g.stat with | .done => cycPairs g.pts | _ => linPairs g.pts),
      ∃ sg ∈ r.o.segs, (sg.p = pq.1 ∧ sg.q = pq.2) ∨ (sg.p = pq.2 ∧ sg.q = pq.1)) := by
  have h := rinv_reachable cfg hct ops r hr
  intro g hg pq hpq
  obtain ⟨sg, h1, h2⟩ := h.oinv.segs g hg pq hpq
  refine ⟨sg, h1, ?_⟩
  simpa [segMatches] using h2

/-! ## (3b) a run is the tenure of one `Active` -/

/-- where the `Active` at position `p` is after a list of events -/
def trackRun : List ROp → Nat → Option Nat
  | [], p => some p
  | op :: ops, p => (trackPos op p).bind (trackRun ops)

/-- **run_follows_active.** The ghost run ids — which `ring_segments_on_edges_partial` uses to say "two consecutive emissions at one ring end during
one run" — follow one `Active` through the AEL.  `trackPos op p` is where the edge at position `p` is after the event (insertions shift it,
`SwapPositionsInAEL` exchanges `i` and `i+1`, removals delete it).  For every event from a reachable state, every run id held afterwards by the edge
at a position `p'` (the run of the ring end `(outrec, IsFront)` that edge owns) is either a *new* run (`≥ nrun` before the event: the edge has just been
given a record by `AddLocalMinPoly` / `Split`, or has just taken a record over from the edge it crossed in `SwapOutrecs`), or it is the run the *same*
edge held before the event (possibly under another record index: `JoinOutrecPaths` renames the surviving ring's end).  So a run never passes from one
`Active` to another, and all emissions logged under one run id are emissions of one `Active` (one bound of one input path) while it continuously
owned that ring end. -/
theorem run_follows_active (cfg : Cfg) (hct : cfg.ct ≠ .noClip) (ops : List ROp) (r : RState) (hr : runR cfg RState.empty ops = .ok r)
    (op : ROp) (r' : RState) (hs : stepR cfg r op = .ok r') (p' ρ : Nat) (h : holderRun r'.s.ael r'.o.rings p' = some ρ) :
    r.o.nrun ≤ ρ ∨ ∃ p, trackPos op p = some p' ∧ holderRun r.s.ael r.o.rings p = some ρ :=
  follows_step cfg r r' op (sinv_rings cfg hct ops r hr) (recs_rings cfg hct ops r hr) (rinv_reachable cfg hct ops r hr).oinv hs p' ρ h

/-- run ids in use are below the counter `nrun`, so a run `≥ nrun` really is one that did not exist before the event -/
theorem runs_below_nrun (cfg : Cfg) (hct : cfg.ct ≠ .noClip) (ops : List ROp) (r : RState) (hr : runR cfg RState.empty ops = .ok r)
    (g : Ring) (hg : g ∈ r.o.rings) : g.frun < r.o.nrun ∧ g.brun < r.o.nrun :=
  (rinv_reachable cfg hct ops r hr).runs g hg

theorem nrun_step (cfg : Cfg) (r r' : RState) (op : ROp) (hs : stepR cfg r op = .ok r') : r.o.nrun ≤ r'.o.nrun := by
  rw [(erase_ring_step cfg r r' op hs).2]
  exact pres_outStep cfg r.s r.o op (fun o => r.o.nrun ≤ o.nrun) (nrun_prim r.o.nrun op.pt) (Nat.le_refl _)

/-- **run_follows_active_run.** The same over any further event list: a run held at the end that already existed at the start was held at the start by
the same `Active`. -/
theorem run_follows_active_run (cfg : Cfg) (hct : cfg.ct ≠ .noClip) (ops0 : List ROp) (r0 : RState) (hr0 : runR cfg RState.empty ops0 = .ok r0) :
    ∀ (ops : List ROp) (r : RState), runR cfg RState.empty (ops0 ++ ops) = .ok r →
      ∀ p' ρ, holderRun r.s.ael r.o.rings p' = some ρ →
        r0.o.nrun ≤ ρ ∨ ∃ p, trackRun ops p = some p' ∧ holderRun r0.s.ael r0.o.rings p = some ρ := by
  have runR_append : ∀ (a b : List ROp) (x : RState), runR cfg x (a ++ b) = (match runR cfg x a with | .ok y => runR cfg y b | .error e => .error e) := by
    intro a
    induction a with
    | nil => intro b x; rfl
    | cons op a ih =>
      intro b x
      simp only [List.cons_append, runR]
      cases stepR cfg x op with
      | ok y => exact ih b y
      | error e => rfl
  intro ops
  induction ops generalizing ops0 r0 with
  | nil =>
    intro r hr p' ρ h
    rw [List.append_nil, hr0] at hr; cases hr
    exact Or.inr ⟨p', rfl, h⟩
  | cons op ops ih =>
    intro r hr p' ρ h
    rw [runR_append, hr0] at hr
    simp only [runR] at hr
    cases hs : stepR cfg r0 op with
    | error e => simp [hs] at hr
    | ok r1 =>
      simp only [hs] at hr
      have hr1 : runR cfg RState.empty (ops0 ++ [op]) = .ok r1 := by
        rw [runR_append, hr0]; simp only [runR, hs]
      have hr' : runR cfg RState.empty ((ops0 ++ [op]) ++ ops) = .ok r := by
        rw [runR_append, hr1]; exact hr
      rcases ih (ops0 ++ [op]) r1 hr1 r hr' p' ρ h with h1 | ⟨p1, hp1, hh1⟩
      · left; exact Nat.le_trans (nrun_step cfg r0 r1 op hs) h1
      · rcases run_follows_active cfg hct ops0 r0 hr0 op r1 hs p1 ρ hh1 with h0 | ⟨p, hp, hh⟩
        · left; exact h0
        · right; exact ⟨p, by simp [trackRun, hp, hp1], hh⟩

/-- **update_emits_on_holder.** What the ghost log records, spelled out for the simplest emitting event: when the hot closed edge at position `i` — holding end
`k` of a ring under construction, under run `holderRun … i` — passes a vertex `pt` (`AddOutPt(e, e.top)`), afterwards that ring end is `pt`, and every segment
logged by the event is an `extend` segment of exactly that run from the previous end point to `pt` (none if `pt` was suppressed as a duplicate). -/
theorem update_emits_on_holder (cfg : Cfg) (r r' : RState) (i : Nat) (pt : Pt) (hs : stepR cfg r (.update i pt) = .ok r')
    (x : SEdge) (k : Rec) (hx : r.s.ael[i]? = some x) (hxo : x.e.isOpen = false) (hk : x.orec = some k)
    (g : Ring) (hg : r.o.rings[k.id]? = some g) (hl : g.stat = .live) :
    holderRun r.s.ael r.o.rings i = some (g.run k.front) ∧
    (∃ g', r'.o.rings[k.id]? = some g' ∧ endPt k.front g'.pts = some pt) ∧
    (∀ sg ∈ r'.o.segs, sg ∈ r.o.segs ∨ (sg.run = g.run k.front ∧ some sg.p = endPt k.front g.pts ∧ sg.q = pt ∧ sg.kind = .extend)) := by
  have h2 := (erase_ring_step cfg r r' (.update i pt) hs).2
  have ho : r'.o = addOutPt k.id k.front pt r.o := by
    rw [h2]; simp [outStep, updateOut, hx, hxo, hk, addOn]
  refine ⟨by simp [holderRun, hx, hk, runOf, hg], ?_, ?_⟩
  · obtain ⟨g', h1, h2, _⟩ := addOutPt_end k.id k.front pt r.o g hg hl
    exact ⟨g', by rw [ho]; exact h1, h2⟩
  · intro sg hsg
    rw [ho] at hsg
    unfold addOutPt at hsg
    simp only [hg, hl, if_true, List.mem_append] at hsg
    rcases hsg with hsg | hsg
    · right
      unfold addPt at hsg
      cases he : endPt k.front g.pts with
      | none => simp [he] at hsg
      | some p =>
        simp only [he] at hsg
        split at hsg
        · simp at hsg
        · simp only [List.mem_singleton] at hsg
          subst hsg
          exact ⟨rfl, rfl, rfl, rfl⟩
    · left; exact hsg

/-! ## (4) the executable checkers decide what the driver checks on every trace -/

theorem checkOut_sound (r : RState) (h : checkOut r = true) :
    r.o.rings.length = r.s.next ∧ (∀ x ∈ r.s.ael, ∀ k, x.orec = some k → ∃ g, r.o.rings[k.id]? = some g ∧ g.stat = .live ∧ g.pts ≠ []) ∧
    (∀ e ∈ r.o.log, e.kind ≠ .lost) := by
  unfold checkOut at h
  simp only [Bool.and_eq_true, List.all_eq_true, beq_iff_eq] at h
  obtain ⟨⟨h1, h2⟩, h3⟩ := h
  refine ⟨h1, ?_, ?_⟩
  · intro x hx k hk
    have := h2 x hx
    simp only [hk] at this
    cases hg : r.o.rings[k.id]? with
    | none => simp [hg] at this
    | some g =>
      simp only [hg, Bool.and_eq_true, beq_iff_eq, Bool.not_eq_true'] at this
      exact ⟨g, rfl, this.1, by intro e; rw [e] at this; simp at this⟩
  · intro e he; have := h3 e he; simpa using this

/-! ## (5) non-vacuity: concrete event lists taken from real traces (`harness/C01rings.cpp`, corpus) -/

def ringsOf (x : Except Err RState) : Option (List (RStat × List Pt)) := x.toOption.map (fun r => r.o.rings.map (fun g => (g.stat, g.pts)))

/-- subject triangle (0,0) (100,10) (40,90), clip triangle (50,-20) (130,60) (20,50), Union / NonZero: the events of the real sweep -/
def triangles : List ROp :=
  [ .base (.insertPair 0 .subject false (1)) ⟨40, 90⟩,
    .base (.insertPair 2 .clip false (1)) ⟨130, 60⟩,
    .base (.intersect 1) ⟨66, 54⟩,
    .base (.intersect 0) ⟨22, 50⟩,
    .update 0 ⟨20, 50⟩,
    .base (.intersect 0) ⟨21, 47⟩,
    .base (.intersect 2) ⟨91, 21⟩,
    .update 3 ⟨100, 10⟩,
    .base (.intersect 2) ⟨77, 7⟩,
    .base (.intersect 1) ⟨39, 3⟩,
    .base (.removePair 0) ⟨0, 0⟩,
    .base (.removePair 0) ⟨50, -20⟩ ]

/-- the union is one 12-gon: record 0 is finished with all twelve points in ring order (as the engine has them, before `CleanCollinear`); records 1 and 2
were emptied by `JoinOutrecPaths` -/
example : ringsOf (runR ⟨.union, .nonZero⟩ RState.empty triangles) =
    some [(.done, [⟨50, -20⟩, ⟨39, 3⟩, ⟨0, 0⟩, ⟨21, 47⟩, ⟨20, 50⟩, ⟨22, 50⟩, ⟨40, 90⟩, ⟨66, 54⟩, ⟨130, 60⟩, ⟨91, 21⟩, ⟨100, 10⟩, ⟨77, 7⟩]), (.gone, []), (.gone, [])] := by
  decide
/-- the intersection of the same triangles: one hexagon -/
example : ringsOf (runR ⟨.intersection, .evenOdd⟩ RState.empty triangles) =
    some [(.done, [⟨39, 3⟩, ⟨21, 47⟩, ⟨22, 50⟩, ⟨66, 54⟩, ⟨91, 21⟩, ⟨77, 7⟩])] := by
  decide
/-- half way (after the seventh event) the union has one ring under construction, front end first -/
example : ringsOf (runR ⟨.union, .nonZero⟩ RState.empty (triangles.take 7)) =
    some [(.live, [⟨21, 47⟩, ⟨20, 50⟩, ⟨22, 50⟩, ⟨40, 90⟩, ⟨66, 54⟩, ⟨130, 60⟩, ⟨91, 21⟩]), (.gone, [])] := by
  decide
example : (runR ⟨.union, .nonZero⟩ RState.empty triangles).toOption.map (fun r => checkOut r && checkSegs r.o) = some true := by decide
/-- `AddOutPt` suppressed no point in this run: 12 points handed over (most recent first), 12 `OutPt`s, 3 records started -/
example : (runR ⟨.union, .nonZero⟩ RState.empty triangles).toOption.map (fun r => r.o.log.map (·.kind)) =
    some [.added, .added, .new, .added, .added, .added, .added, .added, .added, .added, .new, .new] := by decide
/-- the twelve sides of the union, as logged: nine `extend` segments (e.g. run 4 = the clip triangle's left edge while it holds the front end:
(22,50) → (20,50) → (21,47)) and three `meet` segments, one per `AddLocalMaxPoly` -/
example : (runR ⟨.union, .nonZero⟩ RState.empty triangles).toOption.map (fun r => r.o.segs.map (fun sg => (sg.run, sg.p, sg.q, sg.kind))) =
    some [(7, ⟨77, 7⟩, ⟨50, -20⟩, .meet), (8, ⟨39, 3⟩, ⟨50, -20⟩, .extend), (9, ⟨39, 3⟩, ⟨0, 0⟩, .meet), (5, ⟨21, 47⟩, ⟨0, 0⟩, .extend),
      (6, ⟨100, 10⟩, ⟨77, 7⟩, .extend), (6, ⟨91, 21⟩, ⟨100, 10⟩, .extend), (3, ⟨130, 60⟩, ⟨91, 21⟩, .extend), (4, ⟨20, 50⟩, ⟨21, 47⟩, .extend),
      (4, ⟨22, 50⟩, ⟨20, 50⟩, .extend), (0, ⟨40, 90⟩, ⟨22, 50⟩, .extend), (2, ⟨130, 60⟩, ⟨66, 54⟩, .meet), (1, ⟨40, 90⟩, ⟨66, 54⟩, .extend)] := by decide

/-- runs in the triangles example (positions 0..3 of the AEL).  After the two insertions the four edges hold runs 0, 1 (record 0) and 2, 3 (record 1).
The crossing at (66,54) is an `AddLocalMaxPoly`: record 1 is joined into record 0 and the clip's right edge, still at position 3, keeps run 3 although its
ring end is now the back end of record 0.  The crossing at (22,50) is a `SwapOutrecs`: the front end of record 0 passes to the clip's left edge, which
starts the new run 4. -/
example : (List.range 5).map (fun n => (runR ⟨.union, .nonZero⟩ RState.empty (triangles.take n)).toOption.map
      (fun r => (List.range 4).map (holderRun r.s.ael r.o.rings))) =
    [some [none, none, none, none], some [some 0, some 1, none, none], some [some 0, some 1, some 2, some 3],
     some [some 0, none, none, some 3], some [some 4, none, none, some 3]] := by decide

/-- two parallelograms sharing a slanted edge, clipped by a third (Intersection / EvenOdd): the real sweep joins two edges (`join`), later splits them
(`split`); the finished ring carries the join seam `(14,12),(14,12)` that `JoinOutrecPaths` leaves when the joined ends share their coordinates -/
def sharedEdge : List ROp :=
  [ .base (.insertPair 0 .clip false (1)) ⟨19, 17⟩,
    .update 0 ⟨7, 15⟩,
    .base (.insertPair 2 .subject false (1)) ⟨24, 14⟩,
    .base (.intersect 1) ⟨18, 12⟩,
    .update 1 ⟨14, 12⟩,
    .base (.insertPair 1 .subject false (1)) ⟨14, 12⟩,
    .join 2 ⟨14, 12⟩,
    .base (.intersect 0) ⟨6, 10⟩,
    .update 0 ⟨4, 10⟩,
    .update 4 ⟨17, 7⟩,
    .split 3 ⟨11, 6⟩,
    .base (.intersect 3) ⟨11, 6⟩,
    .base (.intersect 2) ⟨11, 6⟩,
    .base (.removePair 1) ⟨5, 5⟩,
    .update 1 ⟨10, 2⟩,
    .update 3 ⟨20, 4⟩,
    .base (.removePair 2) ⟨10, 2⟩,
    .base (.removePair 0) ⟨0, 0⟩ ]

example : ringsOf (runR ⟨.intersection, .evenOdd⟩ RState.empty sharedEdge) =
    some [(.done, [⟨5, 5⟩, ⟨6, 10⟩, ⟨14, 12⟩, ⟨14, 12⟩, ⟨18, 12⟩, ⟨17, 7⟩, ⟨11, 6⟩]), (.gone, []), (.gone, [])] := by
  decide
/-- in that run `AddOutPt`'s duplicate rule fired (the point of the `split` had just been put there), and a `joinSeam` segment was logged -/
example : (runR ⟨.intersection, .evenOdd⟩ RState.empty sharedEdge).toOption.map
    (fun r => (r.o.log.any (fun e => e.kind == .dup), r.o.segs.any (fun sg => sg.kind == .joinSeam), checkOut r && checkSegs r.o)) = some (true, true, true) := by
  decide

/-- the invariants are not decoration: `AddOutPt` on a record that was never created is reported as a lost point and rejected by the checker -/
example : ((addOutPt 3 true ⟨1, 1⟩ Out.empty).log.map (·.kind), checkOut ⟨SState.empty, addOutPt 3 true ⟨1, 1⟩ Out.empty⟩) = ([.lost], false) := by decide
/-- an `update` for a position outside the AEL is rejected -/
example : (stepR ⟨.union, .nonZero⟩ RState.empty (.update 0 ⟨0, 0⟩)).toOption = none := by decide

end Clipper.Props.C01Rings
