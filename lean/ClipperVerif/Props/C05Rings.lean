/-
C05, assembly of the OPEN solution paths: theorems on `Model/AelOpenRings.lean`, the model of how the Vatti sweep builds the open output records
(`StartOpenPath`, the open branches of `IntersectEdges` / `AddLocalMinPoly` / `AddLocalMaxPoly` / `JoinOutrecPaths`, `AddOutPt` on open records, the
`IsOpenEnd` branches of `DoMaxima` / `DoHorizontal`, `BuildPath64` for open records), layered on the ring model of C01 (`Model/AelRings.lean`) and tied to the
real engine by replaying hook traces record for record (`harness/aelopenrings.h`, `harness/C05rings.cpp`, driver command `AELOPENRINGS`).

Proved here for **every** event list from the empty state in which open paths are subject paths (any number of edges and records, any points, any
interleaving the model accepts), every clip type except `NoClip` and every fill rule:

* `erase_open_rings_step`, `erase_open_rings_run` — forgetting the open layer, a step / run of this model *is* the step / run of the ring model of
  `Props/C01Rings.lean` (hence of the side model of C11 and the AEL model of C01 / C05): everything proved there holds in every state reachable here;
  `open_layer_in_sync`: the open layer's own copy of the bookkeeping fields equals the ring model's.
* `open_inv_reachable` — the invariant of the open layer: an open edge owns a record iff it is hot, `IsFront ⇔ wind_dx > 0`, no two edges hold the same end of a
  record, every held record is live and non-empty, an end of a record is free iff no edge holds it, and a free end's point is the point of its mark.
* `open_max_never_bad` — `AddLocalMaxPoly` on open edges never meets two front or two back edges (the `succeeded_ = false` path) and never sees a maxima pair with
  exactly one hot edge (null `outrec`): uses C05 `open_toggle_inv` (hot ⇔ `keepOpen` at the position).
* `open_rings_conserve_points` — conservation and provenance: the points of all open records are, as a multiset, exactly the points handed to `AddOutPt` /
  `StartOpenPath` / `AddLocalMinPoly` on open edges minus exactly the duplicates `AddOutPt` suppressed; none is lost; and every one of them is the point of an
  event *on an open edge* (a local minimum or end vertex of an open path, a vertex passed by a hot open edge, a crossing of an open with a closed edge, a local
  maximum or end vertex of an open path) — never of an event among closed edges only.
* `open_path_is_monotone_piece_partial` — every pair of neighbours of every open record is in the open segment log with kind `extend` (two consecutive
  emissions at one end during one run) or `meet` (a local maximum of the open path); no `joinMeet` / `joinSeam` / closing segment exists for open records, no open
  record is ever closed into a ring; and every consecutive pair of every final solution path (`BuildPath64`, either value of `ReverseSolution`) is such a pair with
  two different points, in path order or exactly reversed.
* `open_piece_ends` — C05's headline at model level: a finished open record starts and ends at the points of its two marks, and each mark was made by an event
  visited by the run which is either the start / end vertex of an input open path (`insertOne` contributing / `removeOne` of a hot edge) or a crossing of the
  open edge with a closed edge at which `IntersectEdges` reaches "toggle contribution" (`IsCut`); `cut_iff_keep_changes`: in a reachable state that happens exactly
  when `keepOpen` differs between the two sides of the closed edge; `sweep_end_all_finished`: with an empty AEL every record that has points is finished;
  `solution_path_ends`: the end points survive `BuildPath64`.

* `open_run_follows_active`, `open_runs_below_nrun`, `open_update_emits_on_holder` — a run is the tenure of one `Active` (one bound of one input open path) at one end of
  an open record: following the edges through the AEL by position, every run id held after an event is new or was held before by the *same* edge; so an `extend`
  segment joins two consecutive emissions on one stretch of the input polyline.

*Partial* (as for closed rings, `ring_segments_on_edges_partial`): that two consecutive emissions of one `Active` lie on one input edge is geometry and not proved;
the points of the events are inputs of the model.  Trusted base of the tie: the event list of a real sweep with the points read by `harness/aelopenrings.h`.
-/
import ClipperVerif.Lemmas.AelOpenRingsRuns
import ClipperVerif.Props.C01Rings
import ClipperVerif.Props.C05
namespace Clipper.Props.C05Rings
open Clipper Clipper.Model

/-! ## (1) the open layer refines the ring model -/

/-- **erase_open_rings_step.** Forgetting the open layer, an accepted event is the same event of the ring model `Model.stepR` (a `locMinX` event is an
`intersect`); the open layer changes by `Model.openStep`. -/
theorem erase_open_rings_step (cfg : Cfg) (st st' : OState) (op : OOp) (h : stepO cfg st op = .ok st') :
    stepR cfg st.r op.erase = .ok st'.r ∧ openStep cfg st.x op = some st'.x := by
  unfold stepO at h
  cases hr : stepR cfg st.r op.erase with
  | error e => simp [hr] at h
  | ok r' =>
    simp only [hr] at h
    cases hx : openStep cfg st.x op with
    | none => simp [hx] at h
    | some x' => simp only [hx] at h; cases h; exact ⟨rfl, rfl⟩

/-- **erase_open_rings_run.** A run of this model projects to a run of the ring model. -/
theorem erase_open_rings_run (cfg : Cfg) (ops : List OOp) : ∀ (st st' : OState), runO cfg st ops = .ok st' →
    runR cfg st.r (ops.map OOp.erase) = .ok st'.r := by
  induction ops with
  | nil => intro st st' h; simp only [runO] at h; cases h; rfl
  | cons op ops ih =>
    intro st st' h
    simp only [runO] at h
    cases hs : stepO cfg st op with
    | error e => simp [hs] at h
    | ok st1 =>
      simp only [hs] at h
      have h1 := (erase_open_rings_step cfg st st1 op hs).1
      simp only [List.map_cons, runR, h1]
      exact ih st1 st' h

/-- the closed rings of a run of this model are those of the ring model: e.g. conservation of closed ring points (`C01Rings.rings_conserve_points`) carries over -/
theorem closed_rings_conserve_points (cfg : Cfg) (hct : cfg.ct ≠ .noClip) (ops : List OOp) (st : OState) (hr : runO cfg OState.empty ops = .ok st) :
    (allPts st.r.o.rings).Perm ((st.r.o.log.filter (fun e => e.kind != .dup)).map (·.pt)) :=
  (C01Rings.rings_conserve_points cfg hct _ st.r (erase_open_rings_run cfg ops OState.empty st hr)).1

/-! ## (2) the invariants along every run -/

/-- the `(state before, event)` pairs of the accepted events of a run -/
def visits (cfg : Cfg) : OState → List OOp → List (OState × OOp)
  | _, [] => []
  | st, op :: ops =>
    match stepO cfg st op with
    | .ok st' => (st, op) :: visits cfg st' ops
    | .error _ => []

/-- open paths are subject paths (`AddOpenSubject`; premise of C05 `open_toggle_inv`) -/
def OpsOK (ops : List OOp) : Prop := ∀ op ∈ ops, ∀ b, op.base = some b → C05.OpOK b

/-- everything that holds in a reachable state; `T` = the events visited so far -/
structure Reach (cfg : Cfg) (T : List (OState × OOp)) (st : OState) : Prop where
  sinv : SInv cfg st.r.s
  sync : erase st.x.ol = erase st.r.s.ael
  openinv : C05.OpenInv cfg (erase st.x.ol)
  xinv : XInv st.x
  bad : st.x.bad = false
  ends : EndsOK st.x.oo
  perm : PermOK st.x.oo
  kinds : SegKindsOK st.x.oo
  nodone : NoDone st.x.oo
  runs : RunsBound st.x.oo
  logprov : ∀ e ∈ st.x.oo.log, ∃ v ∈ T, v.2.pt = e.pt ∧ IsOpenEv v.1.x v.2
  markprov : ∀ k f m, markAt st.x.om k f = some m → ∃ v ∈ T, MarkEv cfg v.1.x v.2 m

theorem base_erase (op : OOp) : (match op.base with | some b => op.erase.erase = some (.base b) | none => ∀ b, op.erase.erase ≠ some (.base b)) := by
  cases op with
  | locMinX i p e3 => rfl
  | ev o =>
    cases o with
    | base b p => rfl
    | join i p => intro b h; simp [OOp.base, OOp.erase, ROp.erase] at h
    | split i p => intro b h; simp [OOp.base, OOp.erase, ROp.erase] at h
    | update i p => intro b h; simp [OOp.base, OOp.erase, ROp.erase] at h

/-- two adjacent open edges are both hot or both cold when every open edge is hot exactly where `keepOpen` holds -/
theorem maxPairHot_of_openInv (keep : Int → Int → Bool) (x : OX) (h : InvOpenFrom keep 0 0 (erase x.ol)) (op : OOp) : MaxPairHot x op := by
  cases op with
  | locMinX i p e3 => trivial
  | ev o =>
    cases o with
    | join i p => trivial
    | split i p => trivial
    | update i p => trivial
    | base b p =>
      cases b with
      | removePair i =>
        intro a b rest hd hao hbo
        have hl := window_split _ _ _ _ _ hd
        rw [hl, erase_append, erase_cons, erase_cons, invOpenFrom_append] at h
        have h2 := h.2
        simp only [InvOpenFrom] at h2
        have := h2.2.1 hbo
        rw [contrib_open _ a.e hao, contrib_open _ a.e hao, Int.add_zero, Int.add_zero] at this
        rw [h2.1 hao, this]
      | insertPair _ _ _ _ => trivial
      | insertOne _ _ _ => trivial
      | intersect _ => trivial
      | removeOne _ => trivial

/-- one accepted event keeps everything -/
theorem reach_step (cfg : Cfg) (hct : cfg.ct ≠ .noClip) (T : List (OState × OOp)) (st st' : OState) (op : OOp) (hop : ∀ b, op.base = some b → C05.OpOK b)
    (h : Reach cfg T st) (hs : stepO cfg st op = .ok st') : Reach cfg (T ++ [(st, op)]) st' := by
  obtain ⟨hR, hX⟩ := erase_open_rings_step cfg st st' op hs
  have hE := openStep_erase cfg st.x st'.x op hX
  have hrs := (C01Rings.erase_ring_step cfg st.r st'.r op.erase hR).1
  have hb := base_erase op
  -- the side model's step, the two erased AELs, the open-edge invariant
  have part1 : SInv cfg st'.r.s ∧ erase st'.x.ol = erase st'.r.s.ael ∧ C05.OpenInv cfg (erase st'.x.ol) := by
    cases hbo : op.base with
    | some b =>
      simp only [hbo] at hE hb
      simp only [hb] at hrs
      have e1 := C11Sides.erase_step cfg st.r.s st'.r.s (.base b) h.sinv hrs
      simp only at e1
      rw [← h.sync, hE] at e1
      exact ⟨C11Sides.sinv_step cfg hct _ _ _ h.sinv hrs, (Option.some.inj e1), C05.open_toggle_step cfg hct _ _ b (hop b hbo) h.openinv hE⟩
    | none =>
      simp only [hbo] at hE hb
      cases hee : op.erase.erase with
      | none =>
        simp only [hee] at hrs
        rw [hrs, hE]; exact ⟨h.sinv, h.sync, h.openinv⟩
      | some sop =>
        simp only [hee] at hrs
        have e1 := C11Sides.erase_step cfg st.r.s st'.r.s sop h.sinv hrs
        cases sop with
        | base b => exact absurd hee (hb b)
        | join i => simp only at e1; rw [hE, e1]; exact ⟨C11Sides.sinv_step cfg hct _ _ _ h.sinv hrs, h.sync, h.openinv⟩
        | split i => simp only at e1; rw [hE, e1]; exact ⟨C11Sides.sinv_step cfg hct _ _ _ h.sinv hrs, h.sync, h.openinv⟩
  have hx := xinv_openStep cfg st.x st'.x op h.xinv (maxPairHot_of_openInv _ st.x h.openinv.2.1 op) hX
  have memT : ∀ v ∈ T, v ∈ T ++ [(st, op)] := fun v hv => List.mem_append_left _ hv
  have memNew : (st, op) ∈ T ++ [(st, op)] := List.mem_append_right _ List.mem_cons_self
  refine ⟨part1.1, part1.2.1, part1.2.2, hx.1, by rw [hx.2]; exact h.bad, ?_, ?_, ?_, ?_, ?_, ?_, ?_⟩
  · exact pres_openStep cfg st.x st'.x op EndsOK (OPrim.of (endsOK_prim op.pt)) h.ends hX
  · exact pres_openStep cfg st.x st'.x op PermOK (OPrim.of (permOK_prim op.pt)) h.perm hX
  · exact pres_openStep cfg st.x st'.x op SegKindsOK (segKinds_prim op.pt) h.kinds hX
  · exact pres_openStep cfg st.x st'.x op NoDone (noDone_prim op.pt) h.nodone hX
  · exact pres_openStep cfg st.x st'.x op RunsBound (OPrim.of (runsBound_prim op.pt)) h.runs hX
  · intro e he
    rcases log_step cfg st.x st'.x op hX e he with h1 | ⟨h1, h2⟩
    · obtain ⟨v, hv, hp⟩ := h.logprov e h1
      exact ⟨v, memT v hv, hp⟩
    · exact ⟨(st, op), memNew, h1.symm, h2⟩
  · intro k f m hm
    rcases mark_step cfg st.x st'.x op hX k f m hm with ⟨k', f', h1⟩ | h1
    · obtain ⟨v, hv, hp⟩ := h.markprov k' f' m h1
      exact ⟨v, memT v hv, hp⟩
    · exact ⟨(st, op), memNew, h1⟩

theorem reach_run (cfg : Cfg) (hct : cfg.ct ≠ .noClip) (ops : List OOp) : ∀ (T : List (OState × OOp)) (st st' : OState), OpsOK ops → Reach cfg T st →
    runO cfg st ops = .ok st' → Reach cfg (T ++ visits cfg st ops) st' := by
  induction ops with
  | nil => intro T st st' _ h hr; simp only [runO] at hr; cases hr; simpa [visits] using h
  | cons op ops ih =>
    intro T st st' hops h hr
    simp only [runO] at hr
    cases hs : stepO cfg st op with
    | error e => simp [hs] at hr
    | ok st1 =>
      simp only [hs] at hr
      have h1 := reach_step cfg hct T st st1 op (hops op List.mem_cons_self) h hs
      have := ih (T ++ [(st, op)]) st1 st' (fun o ho => hops o (List.mem_cons_of_mem _ ho)) h1 hr
      simpa [visits, hs, List.append_assoc] using this

theorem reach_empty (cfg : Cfg) : Reach cfg [] OState.empty := by
  refine ⟨C11Sides.sinv_empty cfg, rfl, ?_, xinv_empty, rfl, ?_, ?_, ?_, ?_, ?_, ?_, ?_⟩
  · refine ⟨by simp [OState.empty, OX.empty, erase, Model.Inv, InvFrom], by simp [OState.empty, OX.empty, erase, InvOpenFrom], ?_⟩
    intro e he; simp [OState.empty, OX.empty, erase] at he
  · intro g hg; simp [OState.empty, OX.empty, Out.empty] at hg
  · simp [PermOK, OState.empty, OX.empty, Out.empty, allPts, keptPts]
  · intro sg hsg; simp [OState.empty, OX.empty, Out.empty] at hsg
  · intro g hg; simp [OState.empty, OX.empty, Out.empty] at hg
  · intro g hg; simp [OState.empty, OX.empty, Out.empty] at hg
  · intro e he; simp [OState.empty, OX.empty, Out.empty] at he
  · intro k f m hm; simp [OState.empty, OX.empty, markAt] at hm

/-- **reach_reachable.** All invariants hold after every event list from the empty state. -/
theorem reach_reachable (cfg : Cfg) (hct : cfg.ct ≠ .noClip) (ops : List OOp) (hops : OpsOK ops) (st : OState) (hr : runO cfg OState.empty ops = .ok st) :
    Reach cfg (visits cfg OState.empty ops) st := by
  have := reach_run cfg hct ops [] OState.empty st hops (reach_empty cfg) hr
  simpa using this

/-! ## (3) the property theorems -/

/-- **open_layer_in_sync.** The open layer's copy of the bookkeeping fields (`wind_cnt`, `wind_cnt2`, hot flag, …) is the ring model's, and it satisfies
C05's invariant: every open edge is hot exactly when `keepOpen` holds at its position. -/
theorem open_layer_in_sync (cfg : Cfg) (hct : cfg.ct ≠ .noClip) (ops : List OOp) (hops : OpsOK ops) (st : OState) (hr : runO cfg OState.empty ops = .ok st) :
    erase st.x.ol = erase st.r.s.ael ∧ C05.OpenInv cfg (erase st.x.ol) :=
  ⟨(reach_reachable cfg hct ops hops st hr).sync, (reach_reachable cfg hct ops hops st hr).openinv⟩

/-- **open_inv_reachable.** In every reachable state:
(a) a closed edge carries no open record; an open edge has `wind_dx = ±1`, owns a record exactly when it is hot, and is then the record's front edge iff `wind_dx > 0`;
(b) no two edges hold the same end of a record and record indices are below the number of records created;
(c) every held record is live with at least one point; there are as many mark pairs as records;
(d) an end of a live record is marked free exactly when no edge holds it, and the point at a free end is the point of its mark. -/
theorem open_inv_reachable (cfg : Cfg) (hct : cfg.ct ≠ .noClip) (ops : List OOp) (hops : OpsOK ops) (st : OState) (hr : runO cfg OState.empty ops = .ok st) :
    (∀ y ∈ st.x.ol, OLocal y) ∧ RecsOK st.x.oo.rings.length st.x.ol ∧
    (∀ y ∈ st.x.ol, ∀ k, y.orec = some k → ∃ g, st.x.oo.rings[k.id]? = some g ∧ g.stat = .live ∧ g.pts ≠ []) ∧ st.x.om.length = st.x.oo.rings.length ∧
    (∀ k g, st.x.oo.rings[k]? = some g → g.stat = .live → ∀ f,
      (markAt st.x.om k f = none ↔ ∃ y ∈ st.x.ol, y.orec = some ⟨k, f⟩) ∧ (∀ m, markAt st.x.om k f = some m → endPt f g.pts = some m.pt)) := by
  have h := (reach_reachable cfg hct ops hops st hr).xinv
  refine ⟨h.loc, h.recs.uniq, ?_, h.recs.mlen, ?_⟩
  · intro y hy k hk
    exact h.recs.live (k.id, k.front) (cnt_pos_of_mem _ _ y hy (keyOf_of_orec y k hk))
  · intro k g hg hl f
    have := h.recs.marks k g hg hl f
    refine ⟨?_, this.2⟩
    rw [this.1]
    constructor
    · intro hc
      have : ∀ l : List SEdge, 1 ≤ cnt (k, f) l → ∃ y ∈ l, y.orec = some ⟨k, f⟩ := by
        intro l
        induction l with
        | nil => intro h0; simp [cnt] at h0
        | cons y t ih =>
          intro h0
          simp only [cnt] at h0
          by_cases e : keyOf y = some (k, f)
          · refine ⟨y, List.mem_cons_self, ?_⟩
            unfold keyOf at e
            cases ho : y.orec with
            | none => rw [ho] at e; simp at e
            | some r => rw [ho] at e; simp at e; cases r; simp at e; simp [e.1, e.2]
          · simp only [e, if_false, Nat.zero_add] at h0
            obtain ⟨y', hy', hh⟩ := ih h0
            exact ⟨y', List.mem_cons_of_mem _ hy', hh⟩
      exact this _ hc
    · rintro ⟨y, hy, ho⟩
      exact cnt_pos_of_mem _ _ y hy (keyOf_of_orec y _ ho)

/-- **open_max_never_bad.** No event list reaches a state in which `AddLocalMaxPoly` on two open edges finds `IsFront(e1) == IsFront(e2)` (the only way an
open path makes `Execute` return false) or a maxima pair of open edges with exactly one hot edge (`IsFront` on a null `outrec`, or a record left with a dangling
edge pointer). -/
theorem open_max_never_bad (cfg : Cfg) (hct : cfg.ct ≠ .noClip) (ops : List OOp) (hops : OpsOK ops) (st : OState) (hr : runO cfg OState.empty ops = .ok st) :
    st.x.bad = false :=
  (reach_reachable cfg hct ops hops st hr).bad

/-- **open_rings_conserve_points.** After every event list: (a) the points of all open records are, up to order, exactly the points for which an `OutPt` was created
on an open record (log entries `new`, `added`), i.e. the points handed over minus exactly the duplicates `AddOutPt` suppressed — `JoinOutrecPaths` and the `SetSides`
branch of `IntersectEdges` neither lose nor duplicate a point; (b) `AddOutPt` is never called for an open edge without a live record; (c) provenance: every point
handed to an open record is the point of an event of the run that concerns an *open* edge (`IsOpenEv`: a local minimum / end vertex of an open path, a vertex
passed by an open edge, a crossing of an open and a closed edge, a local maximum / end vertex of an open path) — no event among closed edges puts a point into an open record. -/
theorem open_rings_conserve_points (cfg : Cfg) (hct : cfg.ct ≠ .noClip) (ops : List OOp) (hops : OpsOK ops) (st : OState) (hr : runO cfg OState.empty ops = .ok st) :
    (allPts st.x.oo.rings).Perm ((st.x.oo.log.filter (fun e => e.kind != .dup)).map (·.pt)) ∧
    (∀ e ∈ st.x.oo.log, e.kind ≠ .lost) ∧
    (∀ e ∈ st.x.oo.log, ∃ v ∈ visits cfg OState.empty ops, v.2.pt = e.pt ∧ IsOpenEv v.1.x v.2) := by
  have h := reach_reachable cfg hct ops hops st hr
  refine ⟨?_, h.xinv.recs.nolost, h.logprov⟩
  have hp := h.perm
  unfold PermOK keptPts at hp
  have : st.x.oo.log.filter Emit.kept = st.x.oo.log.filter (fun e => e.kind != .dup) := by
    apply List.filter_congr
    intro e he
    have := h.xinv.recs.nolost e he
    cases hk : e.kind <;> simp [Emit.kept, hk] at this ⊢
  rw [← this]; exact hp

/-- every point of every open record is the point of an event on an open edge -/
theorem open_ring_points_from_open_events (cfg : Cfg) (hct : cfg.ct ≠ .noClip) (ops : List OOp) (hops : OpsOK ops) (st : OState) (hr : runO cfg OState.empty ops = .ok st)
    (g : Ring) (hg : g ∈ st.x.oo.rings) (p : Pt) (hp : p ∈ g.pts) : ∃ v ∈ visits cfg OState.empty ops, v.2.pt = p ∧ IsOpenEv v.1.x v.2 := by
  obtain ⟨h1, _, h3⟩ := open_rings_conserve_points cfg hct ops hops st hr
  have : p ∈ allPts st.x.oo.rings := by simp only [allPts, List.mem_flatMap]; exact ⟨g, hg, hp⟩
  have := h1.subset this
  obtain ⟨e, he, rfl⟩ := List.mem_map.mp this
  exact h3 e (List.mem_filter.mp he).1

/-- the pairs of a built path are pairs of the record, in order or reversed, with different points -/
theorem buildOpenPath_pairs (rev : Bool) (pts P : List Pt) (h : buildOpenPath rev pts = some P) (pq : Pt × Pt) (hpq : pq ∈ linPairs P) :
    pq.1 ≠ pq.2 ∧ (pq ∈ linPairs pts ∨ (pq.2, pq.1) ∈ linPairs pts) := by
  unfold buildOpenPath at h
  split at h
  · cases h
  · cases h
  · cases h
    have := dedup_pairs _ pq hpq
    refine ⟨this.2, ?_⟩
    cases rev
    · right
      simp only [Bool.false_eq_true, if_false] at this
      exact (mem_linPairs_reverse _ pq.1 pq.2).mp this.1
    · left; simpa using this.1

/-- **open_path_is_monotone_piece_partial.** In every reachable state
(a) every pair of neighbours `(p, q)` of every open record is recorded in the open segment log (in one of the two orientations) with kind `extend` — two
consecutive emissions at one end of the record during one run, i.e. while one `Active` (one stretch of one bound of one input open path) holds that end — or
`meet` — the stretch of the second edge up to a local maximum of the open path, glued by `JoinOutrecPaths`; no other kind exists for open records, and no open record
is ever closed into a ring;
(b) every consecutive pair of every path `BuildPath64` makes from an open record, for either value of `ReverseSolution`, is a pair of neighbours of that record in
record order or exactly reversed, with two different points.
Full statement wanted (C05): "each piece is a stretch of one input open path".  Proved part: the enumeration above.  Missing (as for closed rings): the geometric step
that consecutive emissions of one `Active` lie on one input edge, or on two consecutive edges of its bound through an emitted vertex. -/
theorem open_path_is_monotone_piece_partial (cfg : Cfg) (hct : cfg.ct ≠ .noClip) (ops : List OOp) (hops : OpsOK ops) (st : OState) (hr : runO cfg OState.empty ops = .ok st) :
    (∀ g ∈ st.x.oo.rings, g.stat ≠ .done ∧ ∀ pq ∈ linPairs g.pts,
      ∃ sg ∈ st.x.oo.segs, ((sg.p = pq.1 ∧ sg.q = pq.2) ∨ (sg.p = pq.2 ∧ sg.q = pq.1)) ∧ (sg.kind = .extend ∨ sg.kind = .meet)) ∧
    (∀ rev, ∀ P ∈ openSolution rev st.x.oo.rings, ∃ g ∈ st.x.oo.rings, buildOpenPath rev g.pts = some P ∧
      ∀ pq ∈ linPairs P, pq.1 ≠ pq.2 ∧ (pq ∈ linPairs g.pts ∨ (pq.2, pq.1) ∈ linPairs g.pts)) := by
  have h := reach_reachable cfg hct ops hops st hr
  refine ⟨?_, ?_⟩
  · intro g hg
    have hnd := h.nodone g hg
    refine ⟨hnd, ?_⟩
    intro pq hpq
    have hp : pq ∈ pairsOf g := by
      unfold pairsOf
      cases hs : g.stat with
      | done => exact absurd hs hnd
      | live => exact hpq
      | gone => exact hpq
    obtain ⟨sg, h1, h2⟩ := h.xinv.recs.segs g hg pq hp
    exact ⟨sg, h1, by simpa [segMatches] using h2, h.kinds sg h1⟩
  · intro rev P hP
    unfold openSolution at hP
    obtain ⟨g, hg, hb⟩ := List.mem_filterMap.mp hP
    exact ⟨g, hg, hb, fun pq hpq => buildOpenPath_pairs rev g.pts P hb pq hpq⟩

/-- **open_piece_ends** (C05's headline at model level).  In every reachable state, for every open record that has points and both ends free (a *finished* piece):
its first point is the point of its front mark, its last point the point of its back mark, and each of the two marks was made by an event the run visited,
which (`MarkEv`) is
* `pathStart`: an `insertOne` — `InsertLocalMinimaIntoAEL` for an end vertex of an input open path — that was contributing (`StartOpenPath`), or
* `pathStop`: a `removeOne` — `DoMaxima` / `DoHorizontal` at `IsOpenEnd` — of a hot open edge, or
* `cutStart` / `cutStop`: an `intersect` of an open edge with a closed edge at which `IntersectEdges` reaches "toggle contribution" (`IsCut`: the three
  `return`s fail), the open edge being cold / hot before.
So pieces begin and end only at ends of input paths and at crossings where the open edge's hot state toggles; `cut_iff_keep_changes` says when that is. -/
theorem open_piece_ends (cfg : Cfg) (hct : cfg.ct ≠ .noClip) (ops : List OOp) (hops : OpsOK ops) (st : OState) (hr : runO cfg OState.empty ops = .ok st)
    (k : Nat) (g : Ring) (mf mb : Mark) (hg : st.x.oo.rings[k]? = some g) (hl : g.stat = .live)
    (hf : markAt st.x.om k true = some mf) (hb : markAt st.x.om k false = some mb) :
    g.pts.head? = some mf.pt ∧ g.pts.getLast? = some mb.pt ∧
    (∃ v ∈ visits cfg OState.empty ops, MarkEv cfg v.1.x v.2 mf) ∧ (∃ v ∈ visits cfg OState.empty ops, MarkEv cfg v.1.x v.2 mb) := by
  have h := reach_reachable cfg hct ops hops st hr
  have m1 := (h.xinv.recs.marks k g hg hl true).2 mf hf
  have m2 := (h.xinv.recs.marks k g hg hl false).2 mb hb
  exact ⟨by simpa [endPt] using m1, by simpa [endPt] using m2, h.markprov k true mf hf, h.markprov k false mb hb⟩

/-- **sweep_end_all_finished.** When the AEL is empty (the sweep is over) every open record that still has points is finished: both ends are marked. -/
theorem sweep_end_all_finished (cfg : Cfg) (hct : cfg.ct ≠ .noClip) (ops : List OOp) (hops : OpsOK ops) (st : OState) (hr : runO cfg OState.empty ops = .ok st)
    (hempty : st.x.ol = []) (k : Nat) (g : Ring) (hg : st.x.oo.rings[k]? = some g) (hl : g.stat = .live) :
    ∃ mf mb, markAt st.x.om k true = some mf ∧ markAt st.x.om k false = some mb := by
  have h := reach_reachable cfg hct ops hops st hr
  have key : ∀ f, ∃ m, markAt st.x.om k f = some m := by
    intro f
    have := (h.xinv.recs.marks k g hg hl f).1
    cases hm : markAt st.x.om k f with
    | some m => exact ⟨m, rfl⟩
    | none =>
      have := this.mp hm
      rw [hempty] at this; simp [cnt] at this
  obtain ⟨mf, h1⟩ := key true
  obtain ⟨mb, h2⟩ := key false
  exact ⟨mf, mb, h1, h2⟩

/-- **solution_path_ends.** `BuildPath64` keeps the two end points: the path made from a record starts at the record's front point and ends at its back point when
`ReverseSolution` is set, and the other way round when it is not — with `open_piece_ends`: every open solution path starts and ends at the points of the record's two marks. -/
theorem solution_path_ends (rev : Bool) (pts P : List Pt) (h : buildOpenPath rev pts = some P) :
    P.head? = (if rev then pts.head? else pts.getLast?) ∧ P.getLast? = (if rev then pts.getLast? else pts.head?) := by
  unfold buildOpenPath at h
  split at h
  · cases h
  · cases h
  · cases h
    rw [dedup_head, dedup_getLast]
    cases rev <;> simp

/-- a record with fewer than two `OutPt`s gives no path (`!op || op->next == op`); every other record gives one with at least one point -/
theorem buildOpenPath_none_iff (rev : Bool) (pts : List Pt) : buildOpenPath rev pts = none ↔ pts.length ≤ 1 := by
  unfold buildOpenPath
  split <;> simp
  next h1 h2 =>
    cases pts with
    | nil => exact absurd rfl h1
    | cons a t =>
      cases t with
      | nil => exact absurd rfl (h2 a)
      | cons b t' => simp

/-- **cut_iff_keep_changes.** In every reachable state, for an open edge next to a closed edge (in either order) — the situation of an `intersect` event on them —
`IntersectEdges` reaches "toggle contribution" exactly when C05's keep rule differs between the two sides of the closed edge: `keepOpen` of the winding sums to the
left of the pair against `keepOpen` of those sums plus the closed edge's contribution.  So (`open_piece_ends`) a piece is cut at a crossing iff the keep rule changes there. -/
theorem cut_iff_keep_changes (cfg : Cfg) (hct : cfg.ct ≠ .noClip) (ops : List OOp) (hops : OpsOK ops) (st : OState) (hr : runO cfg OState.empty ops = .ok st)
    (pre rest : List SEdge) (a b : SEdge) (hl : st.x.ol = pre ++ a :: b :: rest) (eo ec : SEdge) (hoc : (eo = a ∧ ec = b) ∨ (eo = b ∧ ec = a))
    (ho : eo.e.isOpen = true) (hc : ec.e.isOpen = false) :
    openToggles cfg ec.e = (keepOpen cfg.ct cfg.fr (sumT .subject (erase pre)) (sumT .clip (erase pre)) !=
      keepOpen cfg.ct cfg.fr (sumT .subject (erase pre) + contrib .subject ec.e) (sumT .clip (erase pre) + contrib .clip ec.e)) := by
  have h := (reach_reachable cfg hct ops hops st hr).openinv.1
  unfold Model.Inv at h
  rw [hl, erase_append, erase_cons, erase_cons, invFrom_append] at h
  have h2 := h.2
  simp only [Int.zero_add, InvFrom] at h2
  have htog : openToggles cfg ec.e = toggles cfg ec.e := by
    unfold openToggles toggles
    by_cases h1 : iabs ec.e.wc = 1
    · simp [h1]
    · simp [h1]
  rw [htog]
  rcases hoc with ⟨rfl, rfl⟩ | ⟨rfl, rfl⟩
  · have := h2.2.1 hc
    rw [contrib_open _ eo.e ho, contrib_open _ eo.e ho, Int.add_zero, Int.add_zero] at this
    exact toggles_iff cfg hct ec.e _ _ hc this
  · exact toggles_iff cfg hct ec.e _ _ hc (h2.1 hc)

/-! ## (3b) a run is the tenure of one `Active`, for open records too -/

/-- **open_run_follows_active.** The ghost run ids of the open records — `open_path_is_monotone_piece_partial` says "`extend` = two consecutive emissions at one end of a
record during one run" — follow one `Active` through the AEL: for every event from a reachable state, every run id held afterwards by the open edge at position `p'`
is either *new* (`≥ nrun` before the event: `StartOpenPath`, `AddLocalMinPoly`, or the `SetSides` branch of `IntersectEdges` handing a free end to the edge) or it is
the run the *same* edge held before the event (`OOp.track`: insertions shift, `SwapPositionsInAEL` exchanges, removals delete; `JoinOutrecPaths` may have renamed its
record).  So all emissions logged under one run id of an open record are emissions of one `Active`, i.e. of one bound of one input open path: an `extend` segment
joins two consecutive emissions on one stretch of the input polyline. -/
theorem open_run_follows_active (cfg : Cfg) (hct : cfg.ct ≠ .noClip) (ops : List OOp) (hops : OpsOK ops) (st : OState) (hr : runO cfg OState.empty ops = .ok st)
    (op : OOp) (st' : OState) (hs : stepO cfg st op = .ok st') (p' ρ : Nat) (h : holderRun st'.x.ol st'.x.oo.rings p' = some ρ) :
    st.x.oo.nrun ≤ ρ ∨ ∃ p, op.track p = some p' ∧ holderRun st.x.ol st.x.oo.rings p = some ρ :=
  follows_openStep cfg st.x st'.x op (reach_reachable cfg hct ops hops st hr).xinv (erase_open_rings_step cfg st st' op hs).2 p' ρ h

/-- run ids in use are below the counter, so a run `≥ nrun` really is one that did not exist before the event -/
theorem open_runs_below_nrun (cfg : Cfg) (hct : cfg.ct ≠ .noClip) (ops : List OOp) (hops : OpsOK ops) (st : OState) (hr : runO cfg OState.empty ops = .ok st)
    (g : Ring) (hg : g ∈ st.x.oo.rings) : g.frun < st.x.oo.nrun ∧ g.brun < st.x.oo.nrun :=
  (reach_reachable cfg hct ops hops st hr).runs g hg

/-- **open_update_emits_on_holder.** What the ghost log records, for the simplest emitting event: when the hot open edge at position `i` — holding end `k` of record
`k.id` under run `holderRun … i` — passes a vertex `pt` of its bound (`AddOutPt(e, e.top)` before `UpdateEdgeIntoAEL`), afterwards that end of the record is `pt`, and
every segment the event logs is an `extend` segment of exactly that run from the previous end point to `pt` (none if `pt` was suppressed as a duplicate). -/
theorem open_update_emits_on_holder (cfg : Cfg) (st st' : OState) (i : Nat) (pt : Pt) (hs : stepO cfg st (.ev (.update i pt)) = .ok st')
    (y : SEdge) (k : Rec) (hy : st.x.ol[i]? = some y) (hyo : y.e.isOpen = true) (hk : y.orec = some k)
    (g : Ring) (hg : st.x.oo.rings[k.id]? = some g) (hl : g.stat = .live) :
    holderRun st.x.ol st.x.oo.rings i = some (g.run k.front) ∧
    (∃ g', st'.x.oo.rings[k.id]? = some g' ∧ endPt k.front g'.pts = some pt) ∧
    (∀ sg ∈ st'.x.oo.segs, sg ∈ st.x.oo.segs ∨ (sg.run = g.run k.front ∧ some sg.p = endPt k.front g.pts ∧ sg.q = pt ∧ sg.kind = .extend)) := by
  have hX := (erase_open_rings_step cfg st st' _ hs).2
  have ho : st'.x.oo = addOutPt k.id k.front pt st.x.oo := by
    simp only [openStep, oUpdate, hy, hyo, if_true, hk, Option.some.injEq] at hX
    rw [← hX]
  refine ⟨by simp [holderRun, hy, hk, runOf, hg], ?_, ?_⟩
  · obtain ⟨g', h1, h2, _⟩ := C01Rings.addOutPt_end k.id k.front pt st.x.oo g hg hl
    exact ⟨g', by rw [ho]; exact h1, h2⟩
  · intro sg hsg
    rw [ho] at hsg
    unfold addOutPt at hsg
    simp only [hg, hl, if_true, List.mem_append] at hsg
    rcases hsg with hsg | hsg
    · right
      unfold addPt at hsg
      cases he : endPt k.front g.pts with
      | none => simp [he] at hsg
      | some p =>
        simp only [he] at hsg
        split at hsg
        · simp at hsg
        · simp only [List.mem_singleton] at hsg
          subst hsg
          exact ⟨rfl, rfl, rfl, rfl⟩
    · left; exact hsg

/-! ## (4) the executable checkers decide what the driver checks on every trace -/

theorem olocalOK_iff (y : SEdge) (hdx : y.e.isOpen = true → (y.e.dx = 1 ∨ y.e.dx = -1)) : olocalOK y = true ↔ OLocal y := by
  unfold olocalOK OLocal
  cases ho : y.e.isOpen
  · simp [ho]
  · simp only [ho, if_true, Bool.and_eq_true, beq_iff_eq, true_implies, Bool.true_eq_false, false_implies, true_and]
    constructor
    · rintro ⟨h1, h2, h3⟩
      refine ⟨h1, hdx ho, h2, ?_⟩
      intro k hk; rw [hk] at h3; simpa using h3
    · rintro ⟨h1, _, h2, h3⟩
      refine ⟨h1, h2, ?_⟩
      cases hk : y.orec with
      | none => rfl
      | some k => simpa using h3 k hk

/-! ## (5) non-vacuity: a polyline crossing a square (events of the real sweep, `harness/C05rings.cpp`, corpus.segment-through-square)

Clip square (0,0) (100,3) (103,101) (2,98) (slightly skew: general position), open subject segment (-50,40) → (160,61).  The sweep runs from large y to small y. -/

def segmentThroughSquare : List OOp :=
  [ .ev (.base (.insertPair 0 .clip false 1) ⟨103, 101⟩),    -- the square's bottom vertex: two closed edges
    .ev (.update 0 ⟨2, 98⟩),
    .ev (.base (.insertOne 2 .subject (-1)) ⟨160, 61⟩),      -- the segment's lower end, right of the square: one open edge
    .ev (.base (.intersect 1) ⟨101, 55⟩),                    -- it crosses the square's right edge …
    .ev (.base (.intersect 0) ⟨0, 45⟩),                      -- … and its left edge
    .ev (.base (.removeOne 0) ⟨-50, 40⟩),                    -- the segment's upper end
    .ev (.update 1 ⟨100, 3⟩),
    .ev (.base (.removePair 0) ⟨0, 0⟩) ]

example : OpsOK segmentThroughSquare := by
  intro op hop b hb
  simp only [segmentThroughSquare, List.mem_cons, List.not_mem_nil, or_false] at hop
  rcases hop with rfl | rfl | rfl | rfl | rfl | rfl | rfl | rfl <;> simp [OOp.base] at hb <;> subst hb <;> simp [C05.OpOK]

def openOf (x : Except Err OState) (rev : Bool) : Option (List (List Pt)) := x.toOption.map (fun st => openSolution rev st.x.oo.rings)
def recsOf (x : Except Err OState) : Option (List (RStat × List Pt × Option Mark × Option Mark)) :=
  x.toOption.map (fun st => (List.range st.x.oo.rings.length).filterMap (fun k =>
    (st.x.oo.rings[k]?).map (fun g => (g.stat, g.pts, markAt st.x.om k true, markAt st.x.om k false))))

/-- Intersection: the inside piece, from the crossing with the right edge to the crossing with the left edge (as the engine returns it, `ReverseSolution` off) -/
example : openOf (runO ⟨.intersection, .evenOdd⟩ OState.empty segmentThroughSquare) false = some [[⟨0, 45⟩, ⟨101, 55⟩]] := by decide
example : openOf (runO ⟨.intersection, .evenOdd⟩ OState.empty segmentThroughSquare) true = some [[⟨101, 55⟩, ⟨0, 45⟩]] := by decide
/-- … one record: started by a cut (the open edge, held at the back end since `wind_dx < 0`, became hot at (101,55): the front end is free from the start), ended by a cut -/
example : recsOf (runO ⟨.intersection, .evenOdd⟩ OState.empty segmentThroughSquare) =
    some [(.live, [⟨101, 55⟩, ⟨0, 45⟩], some ⟨⟨101, 55⟩, .cutStart⟩, some ⟨⟨0, 45⟩, .cutStop⟩)] := by decide
/-- Difference: the two outside pieces: from the segment's lower end to the right edge, and from the left edge to the segment's upper end -/
example : openOf (runO ⟨.difference, .nonZero⟩ OState.empty segmentThroughSquare) false = some [[⟨101, 55⟩, ⟨160, 61⟩], [⟨-50, 40⟩, ⟨0, 45⟩]] := by decide
example : recsOf (runO ⟨.difference, .nonZero⟩ OState.empty segmentThroughSquare) =
    some [(.live, [⟨160, 61⟩, ⟨101, 55⟩], some ⟨⟨160, 61⟩, .pathStart⟩, some ⟨⟨101, 55⟩, .cutStop⟩),
          (.live, [⟨0, 45⟩, ⟨-50, 40⟩], some ⟨⟨0, 45⟩, .cutStart⟩, some ⟨⟨-50, 40⟩, .pathStop⟩)] := by decide
/-- Union (no closed subject): outside the clip region, the same two pieces; Xor likewise -/
example : openOf (runO ⟨.union, .nonZero⟩ OState.empty segmentThroughSquare) false = some [[⟨101, 55⟩, ⟨160, 61⟩], [⟨-50, 40⟩, ⟨0, 45⟩]] := by decide
/-- half way (after the first crossing) the Intersection piece is under construction: the open edge (position 1) holds the back end of record 0 -/
example : (runO ⟨.intersection, .evenOdd⟩ OState.empty (segmentThroughSquare.take 4)).toOption.map (fun st => (st.x.ol.map (·.orec), checkOpen st)) =
    some ([none, some ⟨0, false⟩, none], true) := by decide
example : (runO ⟨.difference, .nonZero⟩ OState.empty segmentThroughSquare).toOption.map (fun st => checkOpen st && checkSegs st.x.oo) = some true := by decide

/-- runs in the segment example, Difference (positions 0..2 of the AEL after each of the first five events): the open edge is inserted at position 2 holding the back end
of record 0 under run 1 (`StartOpenPath`), it keeps that run until it is cut at (101,55), and the second piece starts under the new run 3 at (0,45) -/
example : (List.range 6).map (fun n => (runO ⟨.difference, .nonZero⟩ OState.empty (segmentThroughSquare.take n)).toOption.map
      (fun st => (List.range 3).map (holderRun st.x.ol st.x.oo.rings))) =
    [some [none, none, none], some [none, none, none], some [none, none, none], some [none, none, some 1], some [none, none, none], some [some 3, none, none]] := by decide

/-- a polyline with a local minimum, entirely inside the square (events of the real sweep, corpus.polyline-inside): open subject (20,20) → (50,70) → (80,30).
Intersection keeps all of it: `AddLocalMinPoly` makes one record with both ends held (front end by the edge with `wind_dx > 0`), the two end vertices release them -/
def polylineInside : List OOp :=
  [ .ev (.base (.insertPair 0 .clip false 1) ⟨103, 101⟩),
    .ev (.update 0 ⟨2, 98⟩),
    .ev (.base (.insertPair 1 .subject true (-1)) ⟨50, 70⟩),   -- the local minimum of the open path: two open edges
    .ev (.base (.removeOne 2) ⟨80, 30⟩),
    .ev (.base (.removeOne 1) ⟨20, 20⟩),
    .ev (.update 1 ⟨100, 3⟩),
    .ev (.base (.removePair 0) ⟨0, 0⟩) ]

example : (runO ⟨.intersection, .evenOdd⟩ OState.empty (polylineInside.take 3)).toOption.map (fun st => (st.x.ol.map (·.orec), st.x.oo.rings.map (·.pts), checkOpen st)) =
    some ([none, some ⟨0, false⟩, some ⟨0, true⟩, none], [[⟨50, 70⟩]], true) := by decide
example : openOf (runO ⟨.intersection, .evenOdd⟩ OState.empty polylineInside) true = some [[⟨80, 30⟩, ⟨50, 70⟩, ⟨20, 20⟩]] := by decide
example : recsOf (runO ⟨.intersection, .evenOdd⟩ OState.empty polylineInside) =
    some [(.live, [⟨80, 30⟩, ⟨50, 70⟩, ⟨20, 20⟩], some ⟨⟨80, 30⟩, .pathStop⟩, some ⟨⟨20, 20⟩, .pathStop⟩)] := by decide
/-- Difference keeps nothing of it -/
example : openOf (runO ⟨.difference, .evenOdd⟩ OState.empty polylineInside) true = some [] := by decide

/-- the invariants are not decoration: an open edge that is hot without a record is rejected by the checker -/
example : olocalOK ⟨⟨.subject, true, 1, 0, 0, true⟩, .none, none⟩ = false := by decide
/-- a local maximum whose two open edges hold the two ends of one record is rejected -/
example : (runO ⟨.difference, .nonZero⟩ OState.empty
    [ .ev (.base (.insertPair 0 .subject true 1) ⟨0, 10⟩), .ev (.base (.removePair 0) ⟨0, 0⟩) ]).toOption.isNone = true := by decide
/-- `BuildPath64`: consecutive duplicates are dropped, a single `OutPt` gives no path, two equal `OutPt`s give a one-point path -/
example : buildOpenPath true [⟨0, 0⟩, ⟨0, 0⟩, ⟨5, 1⟩, ⟨5, 1⟩, ⟨9, 9⟩] = some [⟨0, 0⟩, ⟨5, 1⟩, ⟨9, 9⟩] := by decide
example : buildOpenPath false [⟨0, 0⟩, ⟨5, 1⟩, ⟨9, 9⟩] = some [⟨9, 9⟩, ⟨5, 1⟩, ⟨0, 0⟩] := by decide
example : buildOpenPath false [⟨3, 4⟩] = none := by decide
example : buildOpenPath true [⟨3, 4⟩, ⟨3, 4⟩] = some [⟨3, 4⟩] := by decide

end Clipper.Props.C05Rings
