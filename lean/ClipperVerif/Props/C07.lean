/-
C07 — open-path offsetting: theorems about the control frame (`ClipperVerif/Model/OffsetFrame.lean`).

Proved here: index safety of `OffsetPolygon/OffsetOpenJoined/OffsetOpenPath` for paths with at least one point
and the out-of-range read they commit on an empty path; the normal reversal of `OffsetOpenPath` hands the
backward pass the normals of the reversed path; for groups that are not `Polygon` the whole frame is the same for
+delta and -delta; locality of the frame — false on the current tree (two witnesses), true under hypotheses that
exclude the two state leaks.  The shape of the stroke itself (width, caps) is decided at spec level by
`STROKECHECK` (`ClipperVerif/Spec/Offset.lean`, harness/C07.cpp), not by a theorem.
-/
import ClipperVerif.Lemmas.OffsetFrame
namespace Clipper.Props.C07
open Clipper Clipper.OffsetFrame

/-! ### index safety -/

/-- For a path with at least one point (normals built by `BuildNormals`) every `path[·]` / `norms[·]` read of
`OffsetPolygon`, `OffsetOpenJoined`, `OffsetOpenPath` (including the `OffsetPoint` calls and the reversal loop)
is in range. -/
theorem open_indices_safe (g : Geo N) (jt : JoinType) (et : EndType) (tl gd : Rat) (path : Path)
    (h : 1 ≤ path.length) :
    (∃ es, offsetPolygon g jt tl gd path (buildNormals g path) = .ok es)
    ∧ (∃ es, offsetOpenJoined g jt tl gd path (buildNormals g path) = .ok es)
    ∧ (∃ es, offsetOpenPath g jt et tl gd path (buildNormals g path) = .ok es) :=
  ⟨offsetPolygon_ok g jt tl gd path _ (buildNormals_length g path),
   offsetOpenJoined_ok g jt tl gd path _ (buildNormals_length g path) h,
   offsetOpenPath_ok g jt et tl gd path _ (buildNormals_length g path) h⟩

example : 1 ≤ ([⟨0, 0⟩, ⟨10, 0⟩] : Path).length := by decide

theorem offsetByEndType_safe (g : Geo N) (jt : JoinType) (et : EndType) (tl gd : Rat) (path : Path)
    (h : 1 ≤ path.length) : ∃ es, offsetByEndType g jt et tl gd path = .ok es := by
  have hs := open_indices_safe g jt et tl gd path h
  unfold offsetByEndType
  simp only
  split
  · exact hs.1
  · split
    · exact hs.2.1
    · exact hs.2.2

/-- …hence the per-path body of `DoGroupOffset` never faults on a non-empty path, whatever `end_type_` is. -/
theorem doPath_safe (g : Geo N) (jt : JoinType) (grpEt et : EndType) (tl gd : Rat) (path : Path)
    (h : 1 ≤ path.length) : ∃ r, doPath g jt grpEt tl gd et path = .ok r := by
  unfold doPath
  split
  · exact ⟨_, rfl⟩
  · obtain ⟨es, he⟩ := offsetByEndType_safe g jt (endTypeFor jt grpEt et path.length) tl gd path h
    simp only [he]
    exact ⟨_, rfl⟩

/-- The fault the code commits: on an EMPTY path `OffsetOpenPath` reads `path[0]` (cap) and
`OffsetOpenJoined` reads `norms[0]` of the empty normal vector; `OffsetPolygon` reads nothing. -/
theorem empty_path_faults (g : Geo N) (jt : JoinType) (et : EndType) (tl gd : Rat) :
    offsetOpenPath g jt et tl gd [] (buildNormals g []) = .error .oob
    ∧ offsetOpenJoined g jt tl gd [] (buildNormals g []) = .error .oob
    ∧ offsetPolygon g jt tl gd [] (buildNormals g []) = .ok [.endPath] := by
  refine ⟨rfl, rfl, rfl⟩

/-- So `open_indices_safe` is false without its hypothesis: an empty path in a group whose end type is Butt,
Square, Round or Joined makes `DoGroupOffset` read out of range (DESIGN.md §9 item 6; Joined is the same defect
through `norms[0]`). -/
theorem empty_path_group_faults (g : Geo N) (jt : JoinType) (grpEt : EndType) (tl gd : Rat)
    (h : grpEt ≠ .polygon) : doPath g jt grpEt tl gd grpEt [] = .error .oob := by
  cases grpEt <;> first | exact absurd rfl h | rfl

/-! ### normal reversal -/

/-- After the "reverse normals" block of `OffsetOpenPath` (`norms[i] = -norms[i-1]` downwards, then
`norms[0] = norms[highI]`) the entries the end cap and the backward pass read, `norms[1 … highI]`, are the
normals `BuildNormals` would compute for the reversed path, at the mirrored positions.  `GetUnitNormal` is
antisymmetric (`hanti`): it negates exact integer differences before the same floating-point operations. -/
theorem reverse_normals (g : Geo N) (hanti : ∀ a b, g.unitNormal b a = g.neg (g.unitNormal a b))
    (path : Path) (h2 : 2 ≤ path.length) :
    ∃ ns', reverseNorms g (path.length - 1) (buildNormals g path) = .ok ns'
      ∧ ns'.length = path.length
      ∧ ∀ m, 1 ≤ m → m ≤ path.length - 1 →
          ns'[m]? = (buildNormals g path.reverse)[path.length - 1 - m]? := by
  have hl := buildNormals_length g path
  obtain ⟨ns', h0, hlen, hm, _⟩ := reverseNorms_spec g (path.length - 1) (buildNormals g path) (by omega) (by omega)
  refine ⟨ns', h0, by omega, ?_⟩
  intro m h1 hmle
  have hmlt : m < path.length := by omega
  rw [hm m h1 hmle, buildNormals_reverse_getElem? g path m h1 hmlt,
    buildNormals_getElem? g path (m - 1) (by omega)]
  simp only [Option.map_some]
  have e : m - 1 + 1 = m := by omega
  simp only [e]
  rw [hanti (path[m - 1]'(by omega)) (path[m]'hmlt)]

/-! ### +delta / -delta -/

theorem rabs_neg (x : Rat) : rabs (-x) = rabs x := by
  unfold rabs
  split <;> split <;> grind

/-- the part of a frame that reaches the clean-up union -/
def core (f : Frame N) : Raw N × FillRule × Bool × Bool := (f.raw, f.fill, f.reverse, f.preserveCollinear)

def negD (s : St) : St := { s with delta := -s.delta }

theorem groupSetup_negD (arc : Rat) (grp : Group) (st : St) (h : grp.et ≠ .polygon) :
    groupSetup arc grp (negD st) = negD (groupSetup arc grp st) := by
  simp [groupSetup, negD, h, rabs_neg]

theorem doGroupOffset_negD (g : Geo N) (arc : Rat) (grp : Group) (st : St) (h : grp.et ≠ .polygon) :
    doGroupOffset g arc grp (negD st) =
      match doGroupOffset g arc grp st with
      | .error e => .error e
      | .ok (s, es) => .ok (negD s, es) := by
  simp only [doGroupOffset, groupSetup_negD arc grp st h]
  have e1 : (negD (groupSetup arc grp st)).tempLim = (groupSetup arc grp st).tempLim := rfl
  have e2 : (negD (groupSetup arc grp st)).groupDelta = (groupSetup arc grp st).groupDelta := rfl
  have e3 : (negD (groupSetup arc grp st)).et = (groupSetup arc grp st).et := rfl
  rw [e1, e2, e3]
  cases doPaths g grp.jt grp.et (groupSetup arc grp st).tempLim (groupSetup arc grp st).groupDelta
    (groupSetup arc grp st).et grp.paths with
  | error e => rfl
  | ok r => rfl

theorem doGroups_negD (g : Geo N) (arc : Rat) (groups : List Group) (h : ∀ grp ∈ groups, grp.et ≠ .polygon) :
    ∀ st, doGroups g arc (negD st) groups =
      match doGroups g arc st groups with
      | .error e => .error e
      | .ok (s, es) => .ok (negD s, es) := by
  induction groups with
  | nil => intro st; rfl
  | cons grp gs ih =>
    intro st
    simp only [doGroups, doGroupOffset_negD g arc grp st (h grp (by simp))]
    cases doGroupOffset g arc grp st with
    | error e => rfl
    | ok r =>
      obtain ⟨s1, es1⟩ := r
      simp only [ih (fun x hx => h x (by simp [hx])) s1]
      cases doGroups g arc s1 gs with
      | error e => rfl
      | ok r2 => rfl

theorem checkReverse_false (groups : List Group) (h : ∀ grp ∈ groups, grp.et ≠ .polygon) :
    checkReverseOrientation groups = false := by
  induction groups with
  | nil => rfl
  | cons grp gs ih =>
    simp only [checkReverseOrientation, h grp (by simp), if_false]
    exact ih (fun x hx => h x (by simp [hx]))

/-- For groups whose end type is not `Polygon` (Joined, Butt, Square, Round) the frame — every primitive call
with every argument, the fill rule and the orientation flag of the union — is identical for `+delta` and
`-delta`; faults, if any, are the same too. -/
theorem open_delta_symm (g : Geo N) (prm : Params) (groups : List Group) (delta : Rat)
    (h : ∀ grp ∈ groups, grp.et ≠ .polygon) :
    (match executeInternal g prm groups (-delta) with
      | .error e => Except.error e
      | .ok f => .ok (f.map core))
    = (match executeInternal g prm groups delta with
      | .error e => Except.error e
      | .ok f => .ok (f.map core)) := by
  have hinit : initSt prm (-delta) = negD (initSt prm delta) := by simp [initSt, negD]
  unfold executeInternal
  rw [rabs_neg, hinit, doGroups_negD g prm.arcTolerance groups h]
  by_cases hg : groups.isEmpty = true
  · simp [hg]
  · by_cases hd : rabs delta < 1 / 2
    · simp [hg, hd]
    · simp only [hg, hd, if_false, Bool.false_eq_true]
      cases doGroups g prm.arcTolerance (initSt prm delta) groups with
      | error e => rfl
      | ok r =>
        obtain ⟨s, es⟩ := r
        simp only
        by_cases he : es.any Emit.isEnd = true
        · simp [he, core]
        · simp [he]

example : ∀ grp ∈ [mkGroup [[⟨0, 0⟩, ⟨10, 0⟩, ⟨10, 10⟩]] .round .butt], grp.et ≠ .polygon := by decide

/-! ### locality of the frame -/

/-- the signed delta a group would use if it depended on the group and the call's delta only -/
def localGd (delta : Rat) (grp : Group) : Rat :=
  if grp.et = .polygon then (if grp.isReversed then -delta else delta) else rabs delta

/-- what one path would emit if nothing but the path and its group's parameters mattered:
`end_type_` is the group's end type on entry -/
def localPath (g : Geo N) (tl delta : Rat) (grp : Group) (path : Path) : Except Fault (List (Emit N)) :=
  match doPath g grp.jt grp.et tl (localGd delta grp) grp.et path with
  | .error e => .error e
  | .ok (_, es) => .ok es

def localFrame (g : Geo N) (prm : Params) (groups : List Group) (delta : Rat) : Except Fault (List (Emit N)) :=
  mapE (fun grp => mapE (localPath g (initSt prm delta).tempLim delta grp) grp.paths) groups

/-- the emits of the real frame -/
def realFrame (g : Geo N) (prm : Params) (groups : List Group) (delta : Rat) : Except Fault (List (Emit N)) :=
  match doGroups g prm.arcTolerance (initSt prm delta) groups with
  | .error e => .error e
  | .ok (_, es) => .ok es

/-- FULL STATEMENT (C07 "does not depend on which other paths are offset in the same call", C12): the calls
issued for a path depend only on that path and on its group's parameters. -/
def FrameLocal (g : Geo N) (prm : Params) (groups : List Group) (delta : Rat) : Prop :=
  realFrame g prm groups delta = localFrame g prm groups delta

/-- a concrete geometry for witnesses: unnormalised right-hand normals, sign of cross / dot as sine / cosine -/
def geoZ : Geo Pt where
  unitNormal a b := ⟨b.y - a.y, a.x - b.x⟩
  neg := Pt.neg
  sinA n1 n2 := ((n1.x * n2.y - n1.y * n2.x).sign : Int)
  cosA n1 n2 := ((n1.x * n2.x + n1.y * n2.y).sign : Int)

def prm0 : Params := ⟨2, 0, false, false⟩

def emitCount : Except Fault (List (Emit Pt)) → Nat
  | .ok es => es.length
  | .error _ => 0

/-- `frame_local` is FALSE on the current tree, witness 1 (DESIGN.md §9 item 3): in a Joined group the
2-point path {(0,0),(100,0)} sets `end_type_` to Square, and the following triangle
{(1000,1000),(1100,1000),(1100,1100)} is offset by `OffsetOpenPath` (5 emits) instead of `OffsetOpenJoined` (8). -/
theorem frame_local_false_endtype :
    ¬ FrameLocal geoZ prm0
        [mkGroup [[⟨0, 0⟩, ⟨100, 0⟩], [⟨1000, 1000⟩, ⟨1100, 1000⟩, ⟨1100, 1100⟩]] .miter .joined] 10 := by
  intro h
  have := congrArg emitCount h
  revert this
  decide +kernel

/-- witness 2 (DESIGN.md §9 item 4): a Polygon group without any point replaces `delta_` by its absolute
value, so the next group's shrink by 10 is carried out as an inflate (`group_delta_ = +10`). -/
theorem frame_local_false_delta :
    ¬ FrameLocal geoZ prm0
        [mkGroup [[]] .miter .polygon, mkGroup [[⟨0, 0⟩, ⟨100, 0⟩, ⟨100, 100⟩, ⟨0, 100⟩]] .miter .polygon] (-10) := by
  intro h
  have := congrArg (fun r => match r with
    | .ok es => es.map (fun (e : Emit Pt) => match e with | Emit.miter _ _ _ _ gd => gd | Emit.concave _ _ _ gd => gd | _ => (0 : Rat))
    | .error _ => []) h
  revert this
  decide +kernel

theorem endTypeFor_same (jt : JoinType) (grpEt : EndType) (n : Nat) (h : ¬ (n = 2 ∧ grpEt = .joined)) :
    endTypeFor jt grpEt grpEt n = grpEt := by
  simp [endTypeFor, h]

theorem doPath_et (g : Geo N) (jt : JoinType) (grpEt : EndType) (tl gd : Rat) (path : Path)
    (h : ¬ (path.length = 2 ∧ grpEt = .joined)) (r : EndType × List (Emit N))
    (hr : doPath g jt grpEt tl gd grpEt path = .ok r) : r.1 = grpEt := by
  unfold doPath at hr
  split at hr
  · injection hr with hr; rw [← hr]
  · rw [endTypeFor_same jt grpEt path.length h] at hr
    simp only at hr
    split at hr
    · cases hr
    · injection hr with hr; rw [← hr]

theorem doPaths_local (g : Geo N) (jt : JoinType) (grpEt : EndType) (tl gd : Rat) (ps : List Path)
    (h : ∀ p ∈ ps, ¬ (p.length = 2 ∧ grpEt = .joined)) :
    doPaths g jt grpEt tl gd grpEt ps =
      match mapE (fun p => match doPath g jt grpEt tl gd grpEt p with
                  | .error e => .error e
                  | .ok (_, es) => .ok es) ps with
      | .error e => .error e
      | .ok es => .ok (grpEt, es) := by
  induction ps with
  | nil => rfl
  | cons p ps ih =>
    simp only [doPaths, mapE]
    cases hdp : doPath g jt grpEt tl gd grpEt p with
    | error e => rfl
    | ok r =>
      obtain ⟨et1, es1⟩ := r
      have het : et1 = grpEt := doPath_et g jt grpEt tl gd p (h p (by simp)) _ hdp
      rw [het]
      simp only
      rw [ih (fun x hx => h x (by simp [hx]))]
      cases mapE (fun p => match doPath g jt grpEt tl gd grpEt p with
                  | .error e => .error e
                  | .ok (_, es) => .ok es) ps <;> rfl

theorem groupSetup_local (arc : Rat) (grp : Group) (st : St)
    (h : grp.et = .polygon → grp.lowest.isSome = true) :
    (groupSetup arc grp st).delta = st.delta ∧ (groupSetup arc grp st).tempLim = st.tempLim
      ∧ (groupSetup arc grp st).groupDelta = localGd st.delta grp ∧ (groupSetup arc grp st).et = grp.et := by
  by_cases hp : grp.et = .polygon
  · have := h hp
    cases hl : grp.lowest with
    | none => rw [hl] at this; cases this
    | some i => simp [groupSetup, localGd, hp, hl]
  · simp [groupSetup, localGd, hp]

theorem doGroupOffset_local (g : Geo N) (arc : Rat) (grp : Group) (st : St)
    (h1 : ∀ p ∈ grp.paths, ¬ (p.length = 2 ∧ grp.et = .joined))
    (h2 : grp.et = .polygon → grp.lowest.isSome = true) :
    ∃ st1 : St, st1.delta = st.delta ∧ st1.tempLim = st.tempLim ∧
      doGroupOffset g arc grp st =
        match mapE (localPath g st.tempLim st.delta grp) grp.paths with
        | .error e => .error e
        | .ok es => .ok (st1, es) := by
  obtain ⟨e1, e2, e3, e4⟩ := groupSetup_local arc grp st h2
  refine ⟨{ groupSetup arc grp st with et := grp.et }, e1, e2, ?_⟩
  have hl : localPath g st.tempLim st.delta grp =
      fun p => match doPath g grp.jt grp.et st.tempLim (localGd st.delta grp) grp.et p with
        | .error e => .error e
        | .ok (_, es) => .ok es := by funext p; rfl
  unfold doGroupOffset
  simp only
  rw [e2, e3, e4, doPaths_local g grp.jt grp.et st.tempLim (localGd st.delta grp) grp.paths h1, hl]
  cases mapE (fun p => match doPath g grp.jt grp.et st.tempLim (localGd st.delta grp) grp.et p with
        | .error e => .error e
        | .ok (_, es) => .ok es) grp.paths <;> rfl

theorem doGroups_local (g : Geo N) (arc : Rat) (tl delta : Rat) (groups : List Group)
    (h1 : ∀ grp ∈ groups, ∀ p ∈ grp.paths, ¬ (p.length = 2 ∧ grp.et = .joined))
    (h2 : ∀ grp ∈ groups, grp.et = .polygon → grp.lowest.isSome = true) :
    ∀ st : St, st.delta = delta → st.tempLim = tl →
      (match doGroups g arc st groups with
        | .error e => Except.error e
        | .ok (_, es) => .ok es)
      = mapE (fun grp => mapE (localPath g tl delta grp) grp.paths) groups := by
  induction groups with
  | nil => intro st _ _; rfl
  | cons grp gs ih =>
    intro st hd ht
    obtain ⟨st1, hd1, ht1, hgo⟩ := doGroupOffset_local g arc grp st (h1 grp (by simp)) (h2 grp (by simp))
    simp only [doGroups, mapE]
    rw [hgo, hd, ht]
    cases mapE (localPath g tl delta grp) grp.paths with
    | error e => rfl
    | ok es1 =>
      simp only
      have := ih (fun x hx => h1 x (by simp [hx])) (fun x hx => h2 x (by simp [hx])) st1
        (hd1.trans hd) (ht1.trans ht)
      rw [← this]
      cases doGroups g arc st1 gs with
      | error e => rfl
      | ok r => rfl

/-- `frame_local`, the part that holds on the current tree: when no Joined group contains a 2-point path and
every Polygon group has at least one point, every path is offset exactly as its own group's parameters
dictate (same primitives, same arguments, same faults).  Missing for the full statement: the two excluded
situations, which are the state leaks `end_type_` (not restored after the 2-point override) and `delta_`
(overwritten by `std::abs(delta_)`); the proved negations above are their witnesses. -/
theorem frame_local_partial (g : Geo N) (prm : Params) (groups : List Group) (delta : Rat)
    (h1 : ∀ grp ∈ groups, ∀ p ∈ grp.paths, ¬ (p.length = 2 ∧ grp.et = .joined))
    (h2 : ∀ grp ∈ groups, grp.et = .polygon → grp.lowest.isSome = true) :
    FrameLocal g prm groups delta := by
  unfold FrameLocal realFrame localFrame
  exact doGroups_local g prm.arcTolerance (initSt prm delta).tempLim delta groups h1 h2 (initSt prm delta) rfl rfl

/-- non-vacuity: a Joined group of two triangles and a Polygon group satisfy the hypotheses -/
example :
    let groups := [mkGroup [[⟨0, 0⟩, ⟨100, 0⟩, ⟨50, 80⟩], [⟨500, 0⟩, ⟨600, 0⟩, ⟨550, 80⟩]] .miter .joined,
                   mkGroup [[⟨0, 0⟩, ⟨10, 0⟩, ⟨10, 10⟩]] .round .polygon]
    (∀ grp ∈ groups, ∀ p ∈ grp.paths, ¬ (p.length = 2 ∧ grp.et = .joined))
      ∧ (∀ grp ∈ groups, grp.et = .polygon → grp.lowest.isSome = true) := by decide

end Clipper.Props.C07
