/-
C07 — open-path offsetting: theorems about the control frame (`ClipperVerif/Model/OffsetFrame.lean`).

Proved here: index safety of `OffsetPolygon/OffsetOpenJoined/OffsetOpenPath` for paths with at least one point,
empty paths are skipped without any read, hence the whole frame is fault free for every input (`frame_safe`);
the normal reversal of `OffsetOpenPath` hands the backward pass the normals of the reversed path; for groups that
are not `Polygon` the whole frame is the same for +delta and -delta, and an insignificant delta returns nothing
for them; locality of the frame (`frame_local`): the calls issued for a path depend only on that path and on its
group's parameters.  The shape of the stroke itself (width, caps) is decided at spec level by `STROKECHECK`
(`ClipperVerif/Spec/Offset.lean`, harness/C07.cpp), not by a theorem.
-/
import ClipperVerif.Lemmas.OffsetFrame
namespace Clipper.Props.C07
open Clipper Clipper.OffsetFrame

/-! ### index safety -/

/-- For a path with at least one point (normals built by `BuildNormals`) every `path[·]` / `norms[·]` read of
`OffsetPolygon`, `OffsetOpenJoined`, `OffsetOpenPath` (including the `OffsetPoint` calls and the reversal loop)
is in range. -/
theorem open_indices_safe (g : Geo N) (jt : JoinType) (et : EndType) (tl gd : Rat) (path : Path)
    (h : 1 ≤ path.length) :
    (∃ es, offsetPolygon g jt tl gd path (buildNormals g path) = .ok es)
    ∧ (∃ es, offsetOpenJoined g jt tl gd path (buildNormals g path) = .ok es)
    ∧ (∃ es, offsetOpenPath g jt et tl gd path (buildNormals g path) = .ok es) :=
  ⟨offsetPolygon_ok g jt tl gd path _ (buildNormals_length g path),
   offsetOpenJoined_ok g jt tl gd path _ (buildNormals_length g path) h,
   offsetOpenPath_ok g jt et tl gd path _ (buildNormals_length g path) h⟩

example : 1 ≤ ([⟨0, 0⟩, ⟨10, 0⟩] : Path).length := by decide

theorem offsetByEndType_safe (g : Geo N) (jt : JoinType) (et : EndType) (tl gd : Rat) (path : Path)
    (h : 1 ≤ path.length) : ∃ es, offsetByEndType g jt et tl gd path = .ok es := by
  have hs := open_indices_safe g jt et tl gd path h
  unfold offsetByEndType
  simp only
  split
  · exact hs.1
  · split
    · exact hs.2.1
    · exact hs.2.2

/-- `DoGroupOffset` skips an empty path: no read, no primitive call, `end_type_` untouched. -/
theorem empty_path_no_call (g : Geo N) (jt : JoinType) (grpEt et : EndType) (tl gd : Rat) :
    doPath g jt grpEt tl gd et [] = .ok (et, []) := rfl

/-- The per-path body of `DoGroupOffset` never reads out of range — for EVERY path (empty, single point, two or
more points) and whatever `end_type_` is. -/
theorem doPath_safe (g : Geo N) (jt : JoinType) (grpEt et : EndType) (tl gd : Rat) (path : Path) :
    ∃ r, doPath g jt grpEt tl gd et path = .ok r := by
  match path with
  | [] => exact ⟨_, rfl⟩
  | [pt] => exact ⟨_, rfl⟩
  | a :: b :: rest =>
    obtain ⟨es, he⟩ := offsetByEndType_safe g jt (endTypeFor jt grpEt (a :: b :: rest).length) tl gd (a :: b :: rest)
      (by simp)
    simp only [doPath, he]
    exact ⟨_, rfl⟩

theorem doPaths_safe (g : Geo N) (jt : JoinType) (grpEt : EndType) (tl gd : Rat) (ps : List Path) :
    ∀ et, ∃ r, doPaths g jt grpEt tl gd et ps = .ok r := by
  induction ps with
  | nil => intro et; exact ⟨_, rfl⟩
  | cons p ps ih =>
    intro et
    obtain ⟨⟨et1, es1⟩, h1⟩ := doPath_safe g jt grpEt et tl gd p
    obtain ⟨⟨et2, es2⟩, h2⟩ := ih et1
    simp only [doPaths, h1, h2]
    exact ⟨_, rfl⟩

theorem doGroups_safe (g : Geo N) (arc : Rat) (groups : List Group) :
    ∀ st, ∃ r, doGroups g arc st groups = .ok r := by
  induction groups with
  | nil => intro st; exact ⟨_, rfl⟩
  | cons grp gs ih =>
    intro st
    obtain ⟨⟨et1, es1⟩, h1⟩ := doPaths_safe g grp.jt grp.et (groupSetup arc grp st).tempLim
      (groupSetup arc grp st).groupDelta grp.paths (groupSetup arc grp st).et
    obtain ⟨⟨st2, es2⟩, h2⟩ := ih { groupSetup arc grp st with et := et1 }
    simp only [doGroups, doGroupOffset, h1, h2]
    exact ⟨_, rfl⟩

/-- FULL index safety of the frame: for every list of groups (any mixture of end types, empty paths, single
points, 2-point paths) and every delta, `ExecuteInternal` issues no out-of-range `path[·]` / `norms[·]` read. -/
theorem frame_safe (g : Geo N) (prm : Params) (groups : List Group) (delta : Rat) :
    ∃ f, executeInternal g prm groups delta = .ok f := by
  unfold executeInternal
  split
  · exact ⟨_, rfl⟩
  · split
    · exact ⟨_, rfl⟩
    · obtain ⟨⟨st, es⟩, h⟩ := doGroups_safe g prm.arcTolerance groups (initSt prm delta)
      simp only [h]
      exact ⟨_, rfl⟩

/-- The per-path primitives themselves would still read out of range on an empty path (this is why the skip in
`DoGroupOffset` is needed): `OffsetOpenPath` reads `path[0]`, `OffsetOpenJoined` reads `norms[0]`. -/
theorem empty_path_primitives (g : Geo N) (jt : JoinType) (et : EndType) (tl gd : Rat) :
    offsetOpenPath g jt et tl gd [] (buildNormals g []) = .error .oob
    ∧ offsetOpenJoined g jt tl gd [] (buildNormals g []) = .error .oob
    ∧ offsetPolygon g jt tl gd [] (buildNormals g []) = .ok [.endPath] := by
  refine ⟨rfl, rfl, rfl⟩

/-! ### normal reversal -/

/-- After the "reverse normals" block of `OffsetOpenPath` (`norms[i] = -norms[i-1]` downwards, then
`norms[0] = norms[highI]`) the entries the end cap and the backward pass read, `norms[1 … highI]`, are the
normals `BuildNormals` would compute for the reversed path, at the mirrored positions.  `GetUnitNormal` is
antisymmetric (`hanti`): it negates exact integer differences before the same floating-point operations. -/
theorem reverse_normals (g : Geo N) (hanti : ∀ a b, g.unitNormal b a = g.neg (g.unitNormal a b))
    (path : Path) (h2 : 2 ≤ path.length) :
    ∃ ns', reverseNorms g (path.length - 1) (buildNormals g path) = .ok ns'
      ∧ ns'.length = path.length
      ∧ ∀ m, 1 ≤ m → m ≤ path.length - 1 →
          ns'[m]? = (buildNormals g path.reverse)[path.length - 1 - m]? := by
  have hl := buildNormals_length g path
  obtain ⟨ns', h0, hlen, hm, _⟩ := reverseNorms_spec g (path.length - 1) (buildNormals g path) (by omega) (by omega)
  refine ⟨ns', h0, by omega, ?_⟩
  intro m h1 hmle
  have hmlt : m < path.length := by omega
  rw [hm m h1 hmle, buildNormals_reverse_getElem? g path m h1 hmlt,
    buildNormals_getElem? g path (m - 1) (by omega)]
  simp only [Option.map_some]
  have e : m - 1 + 1 = m := by omega
  simp only [e]
  rw [hanti (path[m - 1]'(by omega)) (path[m]'hmlt)]

/-! ### +delta / -delta -/

theorem rabs_neg (x : Rat) : rabs (-x) = rabs x := by
  unfold rabs
  split <;> split <;> grind

/-- the part of a frame that reaches the clean-up union -/
def core (f : Frame N) : Raw N × FillRule × Bool × Bool := (f.raw, f.fill, f.reverse, f.preserveCollinear)

def negD (s : St) : St := { s with delta := -s.delta }

theorem groupSetup_negD (arc : Rat) (grp : Group) (st : St) (h : grp.et ≠ .polygon) :
    groupSetup arc grp (negD st) = negD (groupSetup arc grp st) := by
  simp [groupSetup, negD, h, rabs_neg]

theorem doGroupOffset_negD (g : Geo N) (arc : Rat) (grp : Group) (st : St) (h : grp.et ≠ .polygon) :
    doGroupOffset g arc grp (negD st) =
      match doGroupOffset g arc grp st with
      | .error e => .error e
      | .ok (s, es) => .ok (negD s, es) := by
  simp only [doGroupOffset, groupSetup_negD arc grp st h]
  have e1 : (negD (groupSetup arc grp st)).tempLim = (groupSetup arc grp st).tempLim := rfl
  have e2 : (negD (groupSetup arc grp st)).groupDelta = (groupSetup arc grp st).groupDelta := rfl
  have e3 : (negD (groupSetup arc grp st)).et = (groupSetup arc grp st).et := rfl
  rw [e1, e2, e3]
  cases doPaths g grp.jt grp.et (groupSetup arc grp st).tempLim (groupSetup arc grp st).groupDelta
    (groupSetup arc grp st).et grp.paths with
  | error e => rfl
  | ok r => rfl

theorem doGroups_negD (g : Geo N) (arc : Rat) (groups : List Group) (h : ∀ grp ∈ groups, grp.et ≠ .polygon) :
    ∀ st, doGroups g arc (negD st) groups =
      match doGroups g arc st groups with
      | .error e => .error e
      | .ok (s, es) => .ok (negD s, es) := by
  induction groups with
  | nil => intro st; rfl
  | cons grp gs ih =>
    intro st
    simp only [doGroups, doGroupOffset_negD g arc grp st (h grp (by simp))]
    cases doGroupOffset g arc grp st with
    | error e => rfl
    | ok r =>
      obtain ⟨s1, es1⟩ := r
      simp only [ih (fun x hx => h x (by simp [hx])) s1]
      cases doGroups g arc s1 gs with
      | error e => rfl
      | ok r2 => rfl

theorem checkReverse_false (groups : List Group) (h : ∀ grp ∈ groups, grp.et ≠ .polygon) :
    checkReverseOrientation groups = false := by
  induction groups with
  | nil => rfl
  | cons grp gs ih =>
    simp only [checkReverseOrientation, h grp (by simp), false_and, if_false]
    exact ih (fun x hx => h x (by simp [hx]))

/-- For groups whose end type is not `Polygon` (Joined, Butt, Square, Round) the frame — every primitive call
with every argument, the fill rule and the orientation flag of the union — is identical for `+delta` and
`-delta`; faults, if any, are the same too. -/
theorem open_delta_symm (g : Geo N) (prm : Params) (groups : List Group) (delta : Rat)
    (h : ∀ grp ∈ groups, grp.et ≠ .polygon) :
    (match executeInternal g prm groups (-delta) with
      | .error e => Except.error e
      | .ok f => .ok (f.map core))
    = (match executeInternal g prm groups delta with
      | .error e => Except.error e
      | .ok f => .ok (f.map core)) := by
  have hinit : initSt prm (-delta) = negD (initSt prm delta) := by simp [initSt, negD]
  unfold executeInternal
  rw [rabs_neg, hinit, doGroups_negD g prm.arcTolerance groups h]
  by_cases hg : groups.isEmpty = true
  · simp [hg]
  · by_cases hd : rabs delta < 1 / 2
    · simp [hg, hd]
    · simp only [hg, hd, if_false, Bool.false_eq_true]
      cases doGroups g prm.arcTolerance (initSt prm delta) groups with
      | error e => rfl
      | ok r =>
        obtain ⟨s, es⟩ := r
        simp only
        by_cases he : es.any Emit.isEnd = true
        · simp [he, core]
        · simp [he]

example : ∀ grp ∈ [mkGroup [[⟨0, 0⟩, ⟨10, 0⟩, ⟨10, 10⟩]] .round .butt], grp.et ≠ .polygon := by decide

/-- For groups whose end type is not `Polygon` an insignificant delta (`|delta| < 0.5`) hands nothing to the
clean-up union: the result is empty (the stroke of width < 1 has no area). -/
theorem small_delta_open_nothing (g : Geo N) (prm : Params) (groups : List Group) (delta : Rat)
    (h : ∀ grp ∈ groups, grp.et ≠ .polygon) (hd : rabs delta < 1 / 2) :
    executeInternal g prm groups delta = .ok none := by
  have hf : groups.filter (fun grp => grp.et = .polygon) = [] := by
    rw [List.filter_eq_nil_iff]
    intro grp hg
    simpa using h grp hg
  simp [executeInternal, hd, hf]

/-! ### locality of the frame -/

/-- the emits of a computation, the state dropped -/
def sndE : Except Fault (α × β) → Except Fault β
  | .error e => .error e
  | .ok r => .ok r.2

/-- the signed delta a group uses: a function of the group and of the call's delta only -/
def localGd (delta : Rat) (grp : Group) : Rat :=
  if grp.et = .polygon then
    (if grp.isReversed then -(if grp.lowest.isSome then delta else rabs delta)
     else (if grp.lowest.isSome then delta else rabs delta))
  else rabs delta

/-- what one path emits when nothing but the path and its group's parameters matter:
`end_type_` is the group's end type on entry -/
def localPath (g : Geo N) (tl delta : Rat) (grp : Group) (path : Path) : Except Fault (List (Emit N)) :=
  sndE (doPath g grp.jt grp.et tl (localGd delta grp) grp.et path)

def localFrame (g : Geo N) (prm : Params) (groups : List Group) (delta : Rat) : Except Fault (List (Emit N)) :=
  mapE (fun grp => mapE (localPath g (initSt prm delta).tempLim delta grp) grp.paths) groups

/-- the emits of the real frame -/
def realFrame (g : Geo N) (prm : Params) (groups : List Group) (delta : Rat) : Except Fault (List (Emit N)) :=
  sndE (doGroups g prm.arcTolerance (initSt prm delta) groups)

/-- C07 "does not depend on which other paths are offset in the same call" (and C12) at frame level: the calls
issued for a path depend only on that path and on its group's parameters. -/
def FrameLocal (g : Geo N) (prm : Params) (groups : List Group) (delta : Rat) : Prop :=
  realFrame g prm groups delta = localFrame g prm groups delta

/-- what a path emits does not depend on the `end_type_` left behind by earlier paths -/
theorem doPath_snd (g : Geo N) (jt : JoinType) (grpEt : EndType) (tl gd : Rat) (et et' : EndType) (path : Path) :
    sndE (doPath g jt grpEt tl gd et path) = sndE (doPath g jt grpEt tl gd et' path) := by
  match path with
  | [] => rfl
  | [pt] => rfl
  | a :: b :: rest => rfl

theorem doPaths_local (g : Geo N) (jt : JoinType) (grpEt : EndType) (tl gd : Rat) (ps : List Path) :
    ∀ et, sndE (doPaths g jt grpEt tl gd et ps) = mapE (fun p => sndE (doPath g jt grpEt tl gd grpEt p)) ps := by
  induction ps with
  | nil => intro et; rfl
  | cons p ps ih =>
    intro et
    simp only [doPaths, mapE]
    rw [← doPath_snd g jt grpEt tl gd et grpEt p]
    cases doPath g jt grpEt tl gd et p with
    | error e => rfl
    | ok r =>
      obtain ⟨et1, es1⟩ := r
      rw [← ih et1]
      simp only [sndE]
      cases doPaths g jt grpEt tl gd et1 ps with
      | error e => rfl
      | ok r2 => rfl

theorem groupSetup_local (arc : Rat) (grp : Group) (st : St) :
    (groupSetup arc grp st).delta = st.delta ∧ (groupSetup arc grp st).tempLim = st.tempLim
      ∧ (groupSetup arc grp st).groupDelta = localGd st.delta grp ∧ (groupSetup arc grp st).et = grp.et := by
  refine ⟨rfl, rfl, ?_, rfl⟩
  simp only [groupSetup, localGd]

theorem doGroupOffset_local (g : Geo N) (arc : Rat) (grp : Group) (st : St) :
    sndE (doGroupOffset g arc grp st) = mapE (localPath g st.tempLim st.delta grp) grp.paths
    ∧ ∀ r, doGroupOffset g arc grp st = .ok r → r.1.delta = st.delta ∧ r.1.tempLim = st.tempLim := by
  obtain ⟨e1, e2, e3, e4⟩ := groupSetup_local arc grp st
  have hl : localPath g st.tempLim st.delta grp =
      fun p => sndE (doPath g grp.jt grp.et st.tempLim (localGd st.delta grp) grp.et p) := by funext p; rfl
  have hloc := doPaths_local g grp.jt grp.et st.tempLim (localGd st.delta grp) grp.paths grp.et
  unfold doGroupOffset
  simp only
  rw [e2, e3, e4, hl, ← hloc]
  cases doPaths g grp.jt grp.et st.tempLim (localGd st.delta grp) grp.et grp.paths with
  | error e => exact ⟨rfl, by intro r hr; cases hr⟩
  | ok r =>
    refine ⟨rfl, ?_⟩
    intro r' hr
    injection hr with hr
    rw [← hr]
    exact ⟨e1, e2⟩

theorem doGroups_local (g : Geo N) (arc : Rat) (tl delta : Rat) (groups : List Group) :
    ∀ st : St, st.delta = delta → st.tempLim = tl →
      sndE (doGroups g arc st groups) = mapE (fun grp => mapE (localPath g tl delta grp) grp.paths) groups := by
  induction groups with
  | nil => intro st _ _; rfl
  | cons grp gs ih =>
    intro st hd ht
    obtain ⟨hs, hk⟩ := doGroupOffset_local g arc grp st
    have hs' : mapE (localPath g tl delta grp) grp.paths = sndE (doGroupOffset g arc grp st) := by
      rw [hs, hd, ht]
    simp only [doGroups, mapE]
    rw [hs']
    cases hgo : doGroupOffset g arc grp st with
    | error e => rfl
    | ok r =>
      obtain ⟨st1, es1⟩ := r
      obtain ⟨k1, k2⟩ := hk _ hgo
      rw [← ih st1 (k1.trans hd) (k2.trans ht)]
      simp only [sndE]
      cases doGroups g arc st1 gs with
      | error e => rfl
      | ok r2 => rfl

/-- `frame_local` (FULL): for every list of groups and every delta, every path is offset exactly as its own
group's parameters dictate — same primitives, same arguments, in the same order — whatever other paths and
groups take part in the call.  (Before the repairs bd5ab48 / 058ce9d this was false: `end_type_` and `delta_`
leaked from one path / group to the next.) -/
theorem frame_local (g : Geo N) (prm : Params) (groups : List Group) (delta : Rat) :
    FrameLocal g prm groups delta := by
  unfold FrameLocal realFrame localFrame
  exact doGroups_local g prm.arcTolerance (initSt prm delta).tempLim delta groups (initSt prm delta) rfl rfl

/-- a concrete geometry for examples: unnormalised right-hand normals, sign of cross / dot as sine / cosine -/
def geoZ : Geo Pt where
  unitNormal a b := ⟨b.y - a.y, a.x - b.x⟩
  neg := Pt.neg
  sinA n1 n2 := ((n1.x * n2.y - n1.y * n2.x).sign : Int)
  cosA n1 n2 := ((n1.x * n2.x + n1.y * n2.y).sign : Int)

def prm0 : Params := ⟨2, 0, false, false⟩

def emitCount : Except Fault (List (Emit Pt)) → Nat
  | .ok es => es.length
  | .error _ => 0

/-- the former witnesses, now instances of the theorem: in the Joined group {2-point path, triangle} the triangle
is offset by `OffsetOpenJoined` (3 emits for the segment with its square caps + 8 for the triangle); after a point-less Polygon group
the square is shrunk with `group_delta_ = -10` -/
example : emitCount (realFrame geoZ prm0
    [mkGroup [[⟨0, 0⟩, ⟨100, 0⟩], [⟨1000, 1000⟩, ⟨1100, 1000⟩, ⟨1100, 1100⟩]] .miter .joined] 10) = 11 := by
  decide +kernel

example : (match realFrame geoZ prm0
      [mkGroup [[]] .miter .polygon, mkGroup [[⟨0, 0⟩, ⟨100, 0⟩, ⟨100, 100⟩, ⟨0, 100⟩]] .miter .polygon] (-10) with
    | .ok es => es.map (fun (e : Emit Pt) => match e with
        | Emit.miter _ _ _ _ gd => gd | Emit.concave _ _ _ gd => gd | _ => (0 : Rat))
    | .error _ => []) = [-10, -10, -10, -10, 0] := by
  decide +kernel

end Clipper.Props.C07
