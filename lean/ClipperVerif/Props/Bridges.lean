/-
All bridge theorems (tie T): generated-from-source definition = hand model, one module per group of hand models so that a
change of one C++ function breaks only the obligations of the properties built on that model.
-/
import ClipperVerif.Props.Bridges.Core
import ClipperVerif.Props.Bridges.Geom
import ClipperVerif.Props.Bridges.Ael
import ClipperVerif.Props.Bridges.Sides
import ClipperVerif.Props.Bridges.Isect
import ClipperVerif.Props.Bridges.CleanUp
import ClipperVerif.Props.Bridges.Flags
import ClipperVerif.Props.Bridges.RectClip
import ClipperVerif.Props.Bridges.Offset
import ClipperVerif.Props.Bridges.Joins
import ClipperVerif.Props.Bridges.Horz
import ClipperVerif.Props.Bridges.Rings
import ClipperVerif.Props.Bridges.Trim
