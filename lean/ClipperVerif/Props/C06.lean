/-
C06 — polygon offsetting: theorems about the control frame (`ClipperVerif/Model/OffsetFrame.lean`).

What is proved here is the *frame*: which signed delta a polygon group is offset with, which fill rule and
orientation the clean-up union uses, that an insignificant delta passes the input through, and the join
selection of `OffsetPoint` as a function of the sine / cosine it compares.  The headline clause of C06 (the
result is the delta-envelope within tolerance) is decided at spec level by `OFFSETCHECK`
(`ClipperVerif/Spec/Offset.lean`, harness/C06.cpp), not by a theorem.
-/
import ClipperVerif.Model.OffsetFrame
namespace Clipper.Props.C06
open Clipper Clipper.OffsetFrame

/-- A polygon group that has at least one point is offset with `group_delta_ = -delta` when its lowest path is
negatively oriented and with `+delta` otherwise; `delta_` itself is left alone. -/
theorem polygon_delta_sign (arc : Rat) (grp : Group) (st : St)
    (hp : grp.et = .polygon) (hl : grp.lowest.isSome = true) :
    (groupSetup arc grp st).groupDelta = (if grp.isReversed then -st.delta else st.delta)
      ∧ (groupSetup arc grp st).delta = st.delta := by
  simp [groupSetup, hp, hl]

/-- No group ever writes `delta_` (a Polygon group without points uses `|delta_|` locally). -/
theorem groupSetup_keeps_delta (arc : Rat) (grp : Group) (st : St) :
    (groupSetup arc grp st).delta = st.delta := rfl

/-- `is_reversed` is exactly "the lowest path (largest y, then smallest x) has negative area". -/
theorem mkGroup_isReversed_iff (paths : Paths) (jt : JoinType) :
    (mkGroup paths jt .polygon).isReversed = true ↔
      ∃ i, getLowestClosedPathIdx (paths.map (stripDuplicates true)) = some i
        ∧ shoelace2 ((paths.map (stripDuplicates true)).getD i []) < 0 := by
  simp only [mkGroup]
  cases h : getLowestClosedPathIdx (paths.map (stripDuplicates true)) with
  | none => simp [h]
  | some i => simp [h]

/-- non-vacuity: a clockwise square is flagged reversed, its mirror image is not -/
example : (mkGroup [[⟨0, 0⟩, ⟨0, 10⟩, ⟨10, 10⟩, ⟨10, 0⟩]] .miter .polygon).isReversed = true := by decide
example : (mkGroup [[⟨0, 0⟩, ⟨10, 0⟩, ⟨10, 10⟩, ⟨0, 10⟩]] .miter .polygon).isReversed = false := by decide

/-- The clean-up union keeps the orientation convention of the input: when the first polygon group (with at
least one point) is reversed it runs with `FillRule::Negative` and `ReverseSolution(reverse_solution_ != true)`, otherwise with
`Positive` and `ReverseSolution(reverse_solution_)`. -/
theorem polygon_union_orientation (g : Geo N) (prm : Params) (grp : Group) (rest : List Group) (delta : Rat)
    (f : Frame N) (hp : grp.et = .polygon) (hl : grp.lowest.isSome = true)
    (h : executeInternal g prm (grp :: rest) delta = .ok (some f)) :
    f.fill = (if grp.isReversed then FillRule.negative else FillRule.positive)
      ∧ f.reverse = (prm.reverseSolution != grp.isReversed)
      ∧ f.preserveCollinear = prm.preserveCollinear := by
  simp only [executeInternal, List.isEmpty_cons, Bool.false_eq_true, if_false, checkReverseOrientation, hp, hl, and_self, if_true] at h
  split at h
  · split at h
    · cases h
    · injection h with h; injection h with h; subst h; exact ⟨rfl, rfl, rfl⟩
  · split at h
    · cases h
    · split at h
      · injection h with h; injection h with h; subst h; exact ⟨rfl, rfl, rfl⟩
      · injection h with h; cases h

/-- `|delta| < 0.5`: nothing is offset; the union receives the (duplicate-stripped) input paths of the
Polygon groups, and nothing from groups with an open end type. -/
theorem small_delta_identity (g : Geo N) (prm : Params) (groups : List Group) (delta : Rat)
    (hg : groups.isEmpty = false) (hd : rabs delta < 1 / 2) :
    executeInternal g prm groups delta =
      .ok (if ((groups.filter (fun grp => grp.et = .polygon)).flatMap (·.paths)).isEmpty then none else
        some ⟨.copied ((groups.filter (fun grp => grp.et = .polygon)).flatMap (·.paths)),
          if checkReverseOrientation groups then FillRule.negative else FillRule.positive,
          prm.reverseSolution != checkReverseOrientation groups, prm.preserveCollinear, none⟩) := by
  simp [executeInternal, hg, hd]

/-- in particular, when every group is a Polygon group, all stripped input paths pass through unchanged -/
theorem small_delta_identity_polygons (groups : List Group) (h : ∀ grp ∈ groups, grp.et = .polygon) :
    (groups.filter (fun grp => grp.et = .polygon)).flatMap (·.paths) = groups.flatMap (·.paths) := by
  rw [List.filter_eq_self.mpr (by simpa using h)]

example : rabs ((1 : Rat) / 4) < 1 / 2 := by decide +kernel

/-- `OffsetPoint` builds the three-point concave join exactly when the vertex is distinct from its
predecessor, delta is significant, `sin_a * group_delta_ < 0` and `cos_a > -0.999`. -/
theorem concave_branch_iff (jt : JoinType) (tl gd s c : Rat) (same : Bool) :
    branchOf jt tl gd s c same = .concave ↔
      (same = false ∧ ¬ rabs gd ≤ fpTol ∧ c > -999 / 1000 ∧ s * gd < 0) := by
  unfold branchOf
  cases same
  · simp only [Bool.false_eq_true, if_false, true_and]
    repeat' split
    all_goals simp_all
  · simp

example : branchOf .miter 1 10 (-1/2) (1/2) false = .concave := by decide +kernel

/-- All other joins: the almost-straight shortcut, then the selection by join type. -/
theorem join_branch (jt : JoinType) (tl gd s c : Rat)
    (h1 : ¬ rabs gd ≤ fpTol) (h2 : ¬ (c > -999 / 1000 ∧ s * gd < 0)) :
    branchOf jt tl gd s c false =
      if c > 999 / 1000 ∧ jt ≠ .round then .miter
      else match jt with
        | .miter => if c > tl - 1 then .miter else .square
        | .round => .round
        | .bevel => .bevel
        | .square => .square := by
  unfold branchOf
  simp only [Bool.false_eq_true, if_false, h1, h2]
  cases jt <;> simp

/-- Pure algebra behind the miter test `cos_a > temp_lim_ - 1` with `temp_lim_ = 2 / ml²`:
for `1 + cos a > 0` it says `2 / (1 + cos a) < ml²`, and `2 / (1 + cos a) = 1 / cos²(a/2)` is the square of
(miter length / delta).  So the miter is used exactly when its length is within the limit. -/
theorem miter_iff_within_limit (c ml : Rat) (hc : 0 < 1 + c) (hm : 0 < ml) :
    c > 2 / (ml * ml) - 1 ↔ 2 / (1 + c) < ml * ml := by
  have hmm : 0 < ml * ml := Rat.mul_pos hm hm
  rw [Rat.div_lt_iff hc]
  constructor
  · intro h
    have h' : 2 / (ml * ml) < 1 + c := by grind
    rw [Rat.div_lt_iff hmm] at h'
    grind
  · intro h
    have h' : 2 / (ml * ml) < 1 + c := by
      rw [Rat.div_lt_iff hmm]; grind
    grind

example : (0 : Rat) < 1 + 1 / 2 ∧ (0 : Rat) < 2 := by decide +kernel

/-- The miter branch of the model in terms of the miter limit (for `miter_limit > 1`, the case in which
`temp_lim_ = 2 / ml²`). -/
theorem miter_branch_iff (prm : Params) (delta gd s c : Rat) (hml : 1 < prm.miterLimit)
    (h1 : ¬ rabs gd ≤ fpTol) (h2 : ¬ (c > -999 / 1000 ∧ s * gd < 0)) (h3 : ¬ c > 999 / 1000) (hc : 0 < 1 + c) :
    branchOf .miter (initSt prm delta).tempLim gd s c false = .miter ↔
      2 / (1 + c) < prm.miterLimit * prm.miterLimit := by
  have hle : ¬ prm.miterLimit ≤ 1 := by grind
  have hm : 0 < prm.miterLimit := by grind
  rw [join_branch _ _ _ _ _ h1 h2]
  simp only [initSt, hle, if_false, ← miter_iff_within_limit c prm.miterLimit hc hm]
  simp [h3]

end Clipper.Props.C06
