/-
C19 — Minkowski sum and difference are the swept pattern: **every quad IS the segment sum** (DESIGN.md §10 stretch
`quad_is_segment_sum`, both directions, and the covering statement for the whole quad list).

Exact arithmetic, no division: a rational point is a triple `P = (xn, yn, d)` with `0 < d` standing for `(xn/d, yn/d)`;
"`A` lies on the segment `[a, b]`" is `A = a + (s/m)(b − a)` with integers `0 ≤ s ≤ m`, `0 < m` (`OnSegQ`);
"`P = A ± B`" is cross-multiplied (`QPt.IsPm`).  `inQuadQ` is `Spec.Minkowski.inQuad` — the membership test the
`MINKCHECK` judgement uses as its oracle — with every cross product multiplied by the denominator
(`inQuadQ_ofPt`: on integer points it *is* `inQuad`).

What is proved
  * `segment_sum_of_inQuad`   a point that passes the test of the quad `[P_g±Q_h, P_i±Q_h, P_i±Q_j, P_g±Q_j]` is
                              `A ± B` with `A ∈ [P_g, P_i]`, `B ∈ [Q_h, Q_j]` (Cramer's rule: `λ = (r × v)/(d·u×v)`,
                              `μ = (u × r)/(d·u×v)`), and the two edges are not parallel (the test rejects zero-area quads);
  * `inQuad_of_segment_sum_q` the converse for rational points (the integer-point case is `C19.inQuad_of_segment_sum`);
  * `quad_is_segment_sum`     the iff; `quad_is_segment_sum_int` the same for the integer probes of the judgement;
  * `quad_degenerate`, `segment_sum_degenerate_collinear`, `segment_sum_degenerate_on_edge`,
    `segment_sum_degenerate_on_boundary_int`
                              parallel or zero-length edges: the test contains *nothing*, while the segment sum is a
                              (non-empty) set of points that lie on the four edges of the flat quad, i.e. inside the
                              judgement's 2-unit tolerance band of the quad's edges;
  * `minkowski_quads_cover_sum_edges`, `minkowski_quads_cover_sum`
                              a rational point passes the test of some quad `detail::Minkowski` emits (any orientation
                              test) iff it is `A ± B` with `A` on an edge of the path polyline (closing edge iff
                              `isClosed`), `B` on an edge of the pattern outline, the two edges not parallel; under
                              general position (no path edge parallel to a pattern edge) iff it is `A ± B` with `A` on the
                              polyline and `B` on the outline;
  * `closed_quad_is_segment_sum`, `minkowski_quads_cover_sum_general`
                              the same with no hypothesis at all, for the *closed* quad (test passed or on one of the four
                              edges; the two notions differ only for flat quads): the union of the closed quads is exactly
                              `{A ± B : A on the path polyline, B on the pattern outline}` for every input;
  * `onOutline_iff_edgesOf`   the pattern edges of the model are the edges of the Spec's closed path (`edgesOf`, the ones
                              `onBoundary` tests).

What this does and does not say about the *result* of `MinkowskiSum/Diff`.  The region handed to the union is, by the
theorems above, exactly `path ⊕ ∂pattern`: the **boundary** of the pattern swept along the path.  The documented result
(the *filled* pattern swept along the path) additionally contains the points enclosed by the swept outline; they are
supplied by `Union(quads, FillRule::NonZero)`: `C19.quads_positive` shows that all quads have non-negative orientation, so
the winding number of the quad list is ≥ 1 on the union of the quads and the NonZero region is the set of points of
non-zero winding number, which includes the enclosed pockets.  *Unproved here*: (1) that the engine's `Union` returns the
NonZero region (property C01, abstract parameter of the wrappers); (2) that the winding number of the quad list at a point
enclosed by the swept outline, but not on it, is non-zero iff the point is `a + b` with `b` in the *filled* pattern — a
statement about winding numbers of sums of closed curves that is not formalised (for a closed path the pockets are also
filled, which is the library's behaviour).  The judgement `MINKCHECK` does not need (2): it compares the winding number of
the returned paths with "in some quad" only.
-/
import ClipperVerif.Props.C19
import ClipperVerif.Lemmas.MinkowskiQuads
namespace Clipper.Props.C19Quads
open Clipper Clipper.Model.Minkowski Clipper.Spec.Minkowski Clipper.Lemmas.MinkowskiQuads

/-- On the integer probe points of the judgement the rational test is `Spec.Minkowski.inQuad` itself. -/
theorem inQuadQ_int (q : Path) (p : Pt) : inQuadQ q (QPt.ofPt p) = inQuad q p := inQuadQ_ofPt q p

/-- **`segment_sum_of_inQuad`.**  If the rational point `P` passes the membership test of the quad
`[P_g±Q_h, P_i±Q_h, P_i±Q_j, P_g±Q_j]`, then the two edges are not parallel (and neither has length zero), and there are
rational points `A` on the path edge `[P_g, P_i]` and `B` on the pattern edge `[Q_h, Q_j]` with `P = A ± B`. -/
theorem segment_sum_of_inQuad (isSum : Bool) (pg pi qh qj : Pt) (P : QPt) (hd : 0 < P.d)
    (h : inQuadQ (quadAt isSum pg pi qh qj) P = true) :
    edgeCross pg pi qh qj ≠ 0 ∧ SegSum isSum pg pi qh qj P := by
  cases isSum with
  | true =>
    rw [quadAt_sum] at h
    refine ⟨?_, ?_⟩
    · intro h0
      have := inQuadQ_degenerate (pg.add qh) (pi.sub pg) (qj.sub qh) P (by simpa [edgeCross, Pt.sub] using h0)
      rw [this] at h; exact absurd h (by decide)
    · obtain ⟨s, t, m, hm, hs0, hsm, ht0, htm, hx, hy⟩ := param_of_inQuadQ _ _ _ P hd h
      apply segSum_of_param
      refine ⟨s, t, m, hm, hs0, hsm, ht0, htm, ?_, ?_⟩
      · simp only [Pt.add, Pt.sub] at hx; simp only [sgn, if_true]; rw [hx]; grind
      · simp only [Pt.add, Pt.sub] at hy; simp only [sgn, if_true]; rw [hy]; grind
  | false =>
    rw [quadAt_diff] at h
    refine ⟨?_, ?_⟩
    · intro h0
      have := inQuadQ_degenerate (pg.sub qh) (pi.sub pg) (qh.sub qj) P (by
        simp only [edgeCross] at h0; simp only [Pt.sub]; grind)
      rw [this] at h; exact absurd h (by decide)
    · obtain ⟨s, t, m, hm, hs0, hsm, ht0, htm, hx, hy⟩ := param_of_inQuadQ _ _ _ P hd h
      apply segSum_of_param
      refine ⟨s, t, m, hm, hs0, hsm, ht0, htm, ?_, ?_⟩
      · simp only [Pt.sub] at hx; simp only [sgn, Bool.false_eq_true, if_false]; rw [hx]; grind
      · simp only [Pt.sub] at hy; simp only [sgn, Bool.false_eq_true, if_false]; rw [hy]; grind

-- non-vacuity: the rational point (13/2, 7/3) = (39/6, 14/6) passes the test of a slanted quad …
example : inQuadQ (quadAt true ⟨0, 0⟩ ⟨10, 0⟩ ⟨0, 0⟩ ⟨2, 6⟩) ⟨39, 14, 6⟩ = true := by decide
-- … and it is (103/18, 0) + (7/9, 7/3): parameters 103/180 on the path edge and 7/18 on the pattern edge
example : SegSumParam true ⟨0, 0⟩ ⟨10, 0⟩ ⟨0, 0⟩ ⟨2, 6⟩ ⟨39, 14, 6⟩ :=
  ⟨206, 140, 360, by decide, by decide, by decide, by decide, by decide, by decide, by decide⟩

/-- The converse for rational points: every `A ± B` with `A` on the path edge and `B` on the pattern edge passes the
test of the quad spanned by the two edges, provided they are not parallel.  (`C19.inQuad_of_segment_sum` is the case of
an integer point `P`.) -/
theorem inQuad_of_segment_sum_q (isSum : Bool) (pg pi qh qj : Pt) (P : QPt) (hd : 0 < P.d)
    (hne : edgeCross pg pi qh qj ≠ 0) (h : SegSum isSum pg pi qh qj P) :
    inQuadQ (quadAt isSum pg pi qh qj) P = true := by
  obtain ⟨s, t, m, hm, hs0, hsm, ht0, htm, hx, hy⟩ := param_of_segSum h
  cases isSum with
  | true =>
    rw [quadAt_sum]
    refine inQuadQ_of_param _ _ _ P hd s t m hm hs0 hsm ht0 htm ?_ ?_ ?_
    · simp only [Pt.add, Pt.sub]; simp only [sgn, if_true] at hx; rw [hx]; grind
    · simp only [Pt.add, Pt.sub]; simp only [sgn, if_true] at hy; rw [hy]; grind
    · simpa [edgeCross, Pt.sub] using hne
  | false =>
    rw [quadAt_diff]
    refine inQuadQ_of_param _ _ _ P hd s t m hm hs0 hsm ht0 htm ?_ ?_ ?_
    · simp only [Pt.sub]; simp only [sgn, Bool.false_eq_true, if_false] at hx; rw [hx]; grind
    · simp only [Pt.sub]; simp only [sgn, Bool.false_eq_true, if_false] at hy; rw [hy]; grind
    · simp only [Pt.sub]; simp only [edgeCross] at hne
      intro h0; apply hne; grind

/-- **`quad_is_segment_sum`.**  For every pair of a path edge `P_g → P_i` and a pattern edge `Q_h → Q_j` and every rational
point `P`: `P` passes the membership test of the quad `[P_g±Q_h, P_i±Q_h, P_i±Q_j, P_g±Q_j]` **iff** the two edges are not
parallel and `P = A ± B` for some `A ∈ [P_g, P_i]`, `B ∈ [Q_h, Q_j]`.  So for non-parallel edges the set the judgement
calls "the quad" is exactly the Minkowski sum (difference) of the two closed segments. -/
theorem quad_is_segment_sum (isSum : Bool) (pg pi qh qj : Pt) (P : QPt) (hd : 0 < P.d) :
    inQuadQ (quadAt isSum pg pi qh qj) P = true ↔ edgeCross pg pi qh qj ≠ 0 ∧ SegSum isSum pg pi qh qj P :=
  ⟨segment_sum_of_inQuad isSum pg pi qh qj P hd, fun h => inQuad_of_segment_sum_q isSum pg pi qh qj P hd h.1 h.2⟩

/-- `quad_is_segment_sum` for the integer probe points of `MINKCHECK`, in terms of `Spec.Minkowski.inQuad` itself. -/
theorem quad_is_segment_sum_int (isSum : Bool) (pg pi qh qj p : Pt) :
    inQuad (quadAt isSum pg pi qh qj) p = true ↔
      edgeCross pg pi qh qj ≠ 0 ∧ SegSum isSum pg pi qh qj (QPt.ofPt p) := by
  rw [← inQuadQ_ofPt]
  exact quad_is_segment_sum isSum pg pi qh qj (QPt.ofPt p) (by show (0 : Int) < 1; decide)

example : edgeCross ⟨0, 0⟩ ⟨10, 0⟩ ⟨0, 0⟩ ⟨2, 6⟩ ≠ 0 := by decide
example : inQuad (quadAt false ⟨0, 0⟩ ⟨10, 0⟩ ⟨0, 0⟩ ⟨2, 6⟩) ⟨5, -3⟩ = true := by decide

/-- **Degenerate quads, what the test means there.**  If the two edges are parallel or one of them has length zero, the
quad has zero area and the membership test accepts no point at all. -/
theorem quad_degenerate (isSum : Bool) (pg pi qh qj : Pt) (P : QPt) (hd : 0 < P.d)
    (h0 : edgeCross pg pi qh qj = 0) : inQuadQ (quadAt isSum pg pi qh qj) P = false := by
  cases hq : inQuadQ (quadAt isSum pg pi qh qj) P with
  | false => rfl
  | true => exact absurd h0 (segment_sum_of_inQuad isSum pg pi qh qj P hd hq).1

/-- … while the segment sum of two parallel segments is not empty (it is a segment, or a point): every point of it is
collinear with each of the four sides of the flat quad (all four cross products of the test vanish).  Such points are
within distance 0 of the quad's supporting line, hence inside the tolerance band the judgement excludes; the iff of
`quad_is_segment_sum` fails for them only in the sense that the test says "no". -/
theorem segment_sum_degenerate_collinear (isSum : Bool) (pg pi qh qj : Pt) (P : QPt)
    (h0 : edgeCross pg pi qh qj = 0) (h : SegSum isSum pg pi qh qj P) :
    ∀ a b c d : Pt, quadAt isSum pg pi qh qj = [a, b, c, d] →
      crossQ a b P = 0 ∧ crossQ b c P = 0 ∧ crossQ c d P = 0 ∧ crossQ d a P = 0 := by
  obtain ⟨s, t, m, hm, hs0, hsm, ht0, htm, hx, hy⟩ := param_of_segSum h
  have key : ∀ (o u v : Pt), u.x * v.y - u.y * v.x = 0 →
      m * P.xn = P.d * (m * o.x + s * u.x + t * v.x) → m * P.yn = P.d * (m * o.y + s * u.y + t * v.y) →
      crossQ o (o.add u) P = 0 ∧ crossQ (o.add u) ((o.add u).add v) P = 0 ∧
      crossQ ((o.add u).add v) (o.add v) P = 0 ∧ crossQ (o.add v) o P = 0 := by
    intro o u v hw hx hy
    obtain ⟨c1e, c2e, c3e, c4e⟩ := crossQ_parallelogram o u v P
    obtain ⟨i1, i4⟩ := param_cross_identities o.x o.y u.x u.y v.x v.y P.xn P.yn P.d s t m hx hy
    rw [hw, Int.mul_zero, Int.mul_zero] at i1 i4
    have z1 := (Int.mul_eq_zero.mp i1).resolve_left (by omega)
    have z4 := (Int.mul_eq_zero.mp i4).resolve_left (by omega)
    rw [c1e, c2e, c3e, c4e, hw, z1, z4]; simp
  intro a b c d hq
  cases isSum with
  | true =>
    rw [quadAt_sum] at hq
    simp only [List.cons.injEq, and_true] at hq
    obtain ⟨rfl, rfl, rfl, rfl⟩ := hq
    refine key _ _ _ (by simpa [edgeCross, Pt.sub] using h0) ?_ ?_
    · simp only [Pt.add, Pt.sub]; simp only [sgn, if_true] at hx; rw [hx]; grind
    · simp only [Pt.add, Pt.sub]; simp only [sgn, if_true] at hy; rw [hy]; grind
  | false =>
    rw [quadAt_diff] at hq
    simp only [List.cons.injEq, and_true] at hq
    obtain ⟨rfl, rfl, rfl, rfl⟩ := hq
    refine key _ _ _ (by simp only [edgeCross] at h0; simp only [Pt.sub]; grind) ?_ ?_
    · simp only [Pt.sub]; simp only [sgn, Bool.false_eq_true, if_false] at hx; rw [hx]; grind
    · simp only [Pt.sub]; simp only [sgn, Bool.false_eq_true, if_false] at hy; rw [hy]; grind

/-- **Degenerate quads, where the segment sum is.**  If the two edges are parallel (or one has length zero), every point
`A ± B` of the segment sum lies on one of the four edges of the flat quad `[P_g±Q_h, P_i±Q_h, P_i±Q_j, P_g±Q_j]`. -/
theorem segment_sum_degenerate_on_edge (isSum : Bool) (pg pi qh qj : Pt) (P : QPt)
    (h0 : edgeCross pg pi qh qj = 0) (h : SegSum isSum pg pi qh qj P) :
    ∀ a b c d : Pt, quadAt isSum pg pi qh qj = [a, b, c, d] →
      OnSegQ a b P ∨ OnSegQ b c P ∨ OnSegQ c d P ∨ OnSegQ d a P := by
  obtain ⟨s, t, m, hm, hs0, hsm, ht0, htm, hx, hy⟩ := param_of_segSum h
  intro a b c d hq
  cases isSum with
  | true =>
    rw [quadAt_sum] at hq
    simp only [List.cons.injEq, and_true] at hq
    obtain ⟨rfl, rfl, rfl, rfl⟩ := hq
    refine flat_param_on_edge _ _ _ P s t m hm hs0 hsm ht0 htm ?_ ?_ (by simpa [edgeCross, Pt.sub] using h0)
    · simp only [Pt.add, Pt.sub]; simp only [sgn, if_true] at hx; rw [hx]; grind
    · simp only [Pt.add, Pt.sub]; simp only [sgn, if_true] at hy; rw [hy]; grind
  | false =>
    rw [quadAt_diff] at hq
    simp only [List.cons.injEq, and_true] at hq
    obtain ⟨rfl, rfl, rfl, rfl⟩ := hq
    refine flat_param_on_edge _ _ _ P s t m hm hs0 hsm ht0 htm ?_ ?_
      (by simp only [edgeCross] at h0; simp only [Pt.sub]; grind)
    · simp only [Pt.sub]; simp only [sgn, Bool.false_eq_true, if_false] at hx; rw [hx]; grind
    · simp only [Pt.sub]; simp only [sgn, Bool.false_eq_true, if_false] at hy; rw [hy]; grind

/-- … so an integer probe that is a segment sum of two parallel edges lies on the boundary of the flat quad (Spec
`onBoundary`), i.e. at distance 0 from one of its edges: inside the band `MINKCHECK` excludes (`nearAnyEdge … 4 1`).
The judgement therefore never asks the question on which test and segment sum disagree. -/
theorem segment_sum_degenerate_on_boundary_int (isSum : Bool) (pg pi qh qj p : Pt)
    (h0 : edgeCross pg pi qh qj = 0) (h : SegSum isSum pg pi qh qj (QPt.ofPt p)) :
    onBoundary (quadAt isSum pg pi qh qj) p = true := by
  have := segment_sum_degenerate_on_edge isSum pg pi qh qj (QPt.ofPt p) h0 h _ _ _ _ rfl
  simp only [onSegQ_ofPt_iff] at this
  simp only [onBoundary, quadAt, edgesOf, List.cons_append, List.nil_append, List.zip_cons_cons, List.zip_nil_right,
    List.any_cons, List.any_nil, Bool.or_false, Bool.or_eq_true]
  rcases this with h | h | h | h
  · exact Or.inl h
  · exact Or.inr (Or.inl h)
  · exact Or.inr (Or.inr (Or.inl h))
  · exact Or.inr (Or.inr (Or.inr h))

/-- for integer points "on the closed segment" (`OnSegQ`) is the Spec's `onSeg` -/
theorem onSegQ_int_iff (a b p : Pt) : OnSegQ a b (QPt.ofPt p) ↔ onSeg p a b = true := onSegQ_ofPt_iff a b p

-- non-vacuity of the degenerate case: two parallel edges; (3, 0) = (1, 0) + (2, 0) is a segment sum the test rejects
example : edgeCross ⟨0, 0⟩ ⟨10, 0⟩ ⟨0, 0⟩ ⟨4, 0⟩ = 0 := by decide
example : SegSumParam true ⟨0, 0⟩ ⟨10, 0⟩ ⟨0, 0⟩ ⟨4, 0⟩ (QPt.ofPt ⟨3, 0⟩) :=
  ⟨1, 5, 10, by decide, by decide, by decide, by decide, by decide, by decide, by decide⟩
example : inQuad (quadAt true ⟨0, 0⟩ ⟨10, 0⟩ ⟨0, 0⟩ ⟨4, 0⟩) ⟨3, 0⟩ = false := by decide
example : onBoundary (quadAt true ⟨0, 0⟩ ⟨10, 0⟩ ⟨0, 0⟩ ⟨4, 0⟩) ⟨3, 0⟩ = true := by decide

/-- The pattern edges the model sweeps are the edges of the Spec's closed path (`edgesOf`, the edges `onBoundary` tests):
"`B` on the pattern outline" is "`B` on some edge of the closed pattern polygon". -/
theorem onOutline_iff_edgesOf (pattern : Path) (B : QPt) :
    OnOutline pattern B ↔ ∃ e ∈ edgesOf pattern, OnSegQ e.1 e.2 B := by
  unfold OnOutline
  constructor
  · rintro ⟨e, he, h⟩; exact ⟨e, (mem_cyclicEdges_iff pattern e).mp he, h⟩
  · rintro ⟨e, he, h⟩; exact ⟨e, (mem_cyclicEdges_iff pattern e).mpr he, h⟩

/-- **`minkowski_quads_cover_sum`, edge form (no general-position hypothesis).**  For every orientation test, pattern,
path, `isSum`, `isClosed` and every rational point `P`: `P` passes the membership test of some quad in the list
`detail::Minkowski` builds **iff** there are a path edge (the closing edge included iff `isClosed`) and a pattern edge
(closing edge always included) that are not parallel, and points `A`, `B` on them with `P = A ± B`. -/
theorem minkowski_quads_cover_sum_edges (isPos : Path → Bool) (pattern path : Path) (isSum isClosed : Bool)
    (P : QPt) (hd : 0 < P.d) :
    (∃ qs, minkowskiWith isPos pattern path isSum isClosed = some qs ∧ ∃ q ∈ qs, inQuadQ q P = true) ↔
    ∃ e ∈ pathEdges isClosed path, ∃ d ∈ cyclicEdges pattern,
      edgeCross e.1 e.2 d.1 d.2 ≠ 0 ∧ SegSum isSum e.1 e.2 d.1 d.2 P := by
  rw [C19.minkowski_quads]
  constructor
  · rintro ⟨qs, hqs, q, hq, hin⟩
    injection hqs with hqs
    subst hqs
    simp only [quadsWith, List.mem_flatMap, List.mem_map] at hq
    obtain ⟨e, he, d, hd', rfl⟩ := hq
    have hin' : inQuadQ (quadAt isSum e.1 e.2 d.1 d.2) P = true := by
      have := inQuadQ_orient isPos (pm isSum e.1 d.1) (pm isSum e.2 d.1) (pm isSum e.2 d.2) (pm isSum e.1 d.2) P
      simp only [quadAt] at hin ⊢
      rw [← this]; exact hin
    exact ⟨e, he, d, hd', segment_sum_of_inQuad isSum _ _ _ _ P hd hin'⟩
  · rintro ⟨e, he, d, hd', hne, hs⟩
    refine ⟨_, rfl, orient isPos (quadAt isSum e.1 e.2 d.1 d.2), ?_, ?_⟩
    · simp only [quadsWith, List.mem_flatMap, List.mem_map]
      exact ⟨e, he, d, hd', rfl⟩
    · have := inQuadQ_orient isPos (pm isSum e.1 d.1) (pm isSum e.2 d.1) (pm isSum e.2 d.2) (pm isSum e.1 d.2) P
      simp only [quadAt]
      rw [this]
      exact inQuad_of_segment_sum_q isSum e.1 e.2 d.1 d.2 P hd hne hs

/-- **`minkowski_quads_cover_sum`.**  In general position — no edge of the path polyline (closing edge counted iff
`isClosed`) parallel to an edge of the pattern outline, no zero-length edge — a rational point `P` lies in some quad
built by `detail::Minkowski(pattern, path, isSum, isClosed)` **iff** `P = A + B` (sum) resp. `P = A − B` (difference) with
`A` on the path polyline and `B` on the boundary of the pattern polygon.  So the region handed to `Union` is exactly
`path ⊕ ∂pattern` resp. `path ⊖ ∂pattern`. -/
theorem minkowski_quads_cover_sum (isPos : Path → Bool) (pattern path : Path) (isSum isClosed : Bool)
    (P : QPt) (hd : 0 < P.d)
    (hgp : ∀ e ∈ pathEdges isClosed path, ∀ d ∈ cyclicEdges pattern, edgeCross e.1 e.2 d.1 d.2 ≠ 0) :
    (∃ qs, minkowskiWith isPos pattern path isSum isClosed = some qs ∧ ∃ q ∈ qs, inQuadQ q P = true) ↔
    ∃ A B : QPt, 0 < A.d ∧ 0 < B.d ∧ OnPolyline isClosed path A ∧ OnOutline pattern B ∧ QPt.IsPm isSum P A B := by
  rw [minkowski_quads_cover_sum_edges isPos pattern path isSum isClosed P hd]
  constructor
  · rintro ⟨e, he, d, hd', _, A, B, hA, hB, hAon, hBon, hpm⟩
    exact ⟨A, B, hA, hB, ⟨e, he, hAon⟩, ⟨d, hd', hBon⟩, hpm⟩
  · rintro ⟨A, B, hA, hB, ⟨e, he, hAon⟩, ⟨d, hd', hBon⟩, hpm⟩
    exact ⟨e, he, d, hd', hgp e he d hd', A, B, hA, hB, hAon, hBon, hpm⟩

/-- the closed quad: the point passes the membership test **or** lies on one of the four edges.  For a non-degenerate quad
the edges already pass the (closed) test; the second alternative only matters for flat quads, which the test rejects. -/
def InClosedQuad (q : Path) (P : QPt) : Prop := inQuadQ q P = true ∨ OnQuadEdge q P

/-- **`quad_is_segment_sum` without any non-degeneracy hypothesis**: the closed quad spanned by a path edge and a pattern
edge — parallel, zero-length or not — is exactly the set of points `A ± B`, `A` on the path edge, `B` on the pattern edge. -/
theorem closed_quad_is_segment_sum (isSum : Bool) (pg pi qh qj : Pt) (P : QPt) (hd : 0 < P.d) :
    InClosedQuad (quadAt isSum pg pi qh qj) P ↔ SegSum isSum pg pi qh qj P := by
  constructor
  · rintro (h | h)
    · exact (segment_sum_of_inQuad isSum pg pi qh qj P hd h).2
    · cases isSum with
      | true =>
        rw [quadAt_sum] at h
        exact segSum_of_param ((parPar_sum_iff pg pi qh qj P).mp (parPar_of_onQuadEdge _ _ _ P h))
      | false =>
        rw [quadAt_diff] at h
        exact segSum_of_param ((parPar_diff_iff pg pi qh qj P).mp (parPar_of_onQuadEdge _ _ _ P h))
  · intro h
    by_cases h0 : edgeCross pg pi qh qj = 0
    · right
      have := segment_sum_degenerate_on_edge isSum pg pi qh qj P h0 h _ _ _ _ rfl
      simpa [OnQuadEdge, quadAt] using this
    · exact Or.inl (inQuad_of_segment_sum_q isSum pg pi qh qj P hd h0 h)

/-- **`minkowski_quads_cover_sum`, no general-position hypothesis.**  For every orientation test, every pattern and path
(degenerate ones included: repeated points, parallel edges, a one-point closed path), `isSum`, `isClosed` and every rational
point `P`: `P` lies in the closed region of some quad built by `detail::Minkowski` (passes its test or lies on one of its
edges) **iff** `P = A ± B` with `A` on the path polyline (closing edge iff `isClosed`) and `B` on the pattern outline. -/
theorem minkowski_quads_cover_sum_general (isPos : Path → Bool) (pattern path : Path) (isSum isClosed : Bool)
    (P : QPt) (hd : 0 < P.d) :
    (∃ qs, minkowskiWith isPos pattern path isSum isClosed = some qs ∧ ∃ q ∈ qs, InClosedQuad q P) ↔
    ∃ A B : QPt, 0 < A.d ∧ 0 < B.d ∧ OnPolyline isClosed path A ∧ OnOutline pattern B ∧ QPt.IsPm isSum P A B := by
  rw [C19.minkowski_quads]
  have horient : ∀ (e d : Pt × Pt), InClosedQuad (orient isPos (quadAt isSum e.1 e.2 d.1 d.2)) P ↔
      InClosedQuad (quadAt isSum e.1 e.2 d.1 d.2) P := by
    intro e d
    simp only [InClosedQuad, quadAt]
    rw [inQuadQ_orient, onQuadEdge_orient]
  constructor
  · rintro ⟨qs, hqs, q, hq, hin⟩
    injection hqs with hqs
    subst hqs
    simp only [quadsWith, List.mem_flatMap, List.mem_map] at hq
    obtain ⟨e, he, d, hd', rfl⟩ := hq
    obtain ⟨A, B, hA, hB, hAon, hBon, hpm⟩ :=
      (closed_quad_is_segment_sum isSum e.1 e.2 d.1 d.2 P hd).mp ((horient e d).mp hin)
    exact ⟨A, B, hA, hB, ⟨e, he, hAon⟩, ⟨d, hd', hBon⟩, hpm⟩
  · rintro ⟨A, B, hA, hB, ⟨e, he, hAon⟩, ⟨d, hd', hBon⟩, hpm⟩
    refine ⟨_, rfl, orient isPos (quadAt isSum e.1 e.2 d.1 d.2), ?_, ?_⟩
    · simp only [quadsWith, List.mem_flatMap, List.mem_map]
      exact ⟨e, he, d, hd', rfl⟩
    · exact (horient e d).mpr
        ((closed_quad_is_segment_sum isSum e.1 e.2 d.1 d.2 P hd).mpr ⟨A, B, hA, hB, hAon, hBon, hpm⟩)

-- non-vacuity: a closed one-point path (all quads flat): the sum is the pattern outline translated by the point
example : (minkowskiWith isPositive [⟨0, 0⟩, ⟨4, 0⟩, ⟨0, 4⟩] [⟨10, 10⟩] true true).map (·.length) = some 3 := by decide
example : InClosedQuad (quadAt true ⟨10, 10⟩ ⟨10, 10⟩ ⟨0, 0⟩ ⟨4, 0⟩) (QPt.ofPt ⟨12, 10⟩) := by
  right
  simp only [OnQuadEdge, quadAt, pm, Pt.add, if_true]
  right; left
  exact ⟨1, 2, by decide, by decide, by decide, by decide, by decide⟩

/-- the same for the integer probes and the judgement's own oracle `quads.any (inQuad · p)`: after this theorem the
oracle of `MINKCHECK` ("in some quad") is justified as "is a sum `a ± b`, `a` on the path, `b` on the pattern outline". -/
theorem minkcheck_oracle (pattern path : Path) (isSum isClosed : Bool) (p : Pt)
    (hgp : ∀ e ∈ pathEdges isClosed path, ∀ d ∈ cyclicEdges pattern, edgeCross e.1 e.2 d.1 d.2 ≠ 0) :
    (quads pattern path isSum isClosed).any (fun q => inQuad q p) = true ↔
    ∃ A B : QPt, 0 < A.d ∧ 0 < B.d ∧ OnPolyline isClosed path A ∧ OnOutline pattern B ∧
      QPt.IsPm isSum (QPt.ofPt p) A B := by
  rw [← minkowski_quads_cover_sum (fun _ => true) pattern path isSum isClosed (QPt.ofPt p) (by show (0 : Int) < 1; decide) hgp,
    C19.minkowski_quads]
  have ho : orient (fun _ => true) = id := by funext q; simp [orient]
  simp only [List.any_eq_true, quads, ho, ← inQuadQ_ofPt]
  constructor
  · rintro ⟨q, hq, h⟩; exact ⟨_, rfl, q, hq, h⟩
  · rintro ⟨qs, hqs, q, hq, h⟩
    injection hqs with hqs; subst hqs; exact ⟨q, hq, h⟩

-- non-vacuity: a triangle pattern swept along an open two-edge path in general position
example : ∀ e ∈ pathEdges false [⟨10, 10⟩, ⟨20, 11⟩, ⟨23, 30⟩], ∀ d ∈ cyclicEdges [⟨0, 0⟩, ⟨4, 1⟩, ⟨1, 5⟩],
    edgeCross e.1 e.2 d.1 d.2 ≠ 0 := by decide
example : (quads [⟨0, 0⟩, ⟨4, 1⟩, ⟨1, 5⟩] [⟨10, 10⟩, ⟨20, 11⟩, ⟨23, 30⟩] true false).any (fun q => inQuad q ⟨16, 12⟩) = true := by
  decide
-- closed path: the closing edge is swept as well
example : ∀ e ∈ pathEdges true [⟨10, 10⟩, ⟨20, 11⟩, ⟨23, 30⟩], ∀ d ∈ cyclicEdges [⟨0, 0⟩, ⟨4, 1⟩, ⟨1, 5⟩],
    edgeCross e.1 e.2 d.1 d.2 ≠ 0 := by decide

end Clipper.Props.C19Quads
