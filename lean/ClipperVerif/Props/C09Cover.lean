/-
C09 — `lines_cover`: for sign-exact arithmetic the pieces `RectClipLines` returns for one polyline are exactly the
parts of the polyline inside the rectangle, described segment by segment.

Setting.  `A : Arith` is the `double` arithmetic of the C++ (sign of `CrossProduct`, `GetSegmentIntersectPt`).
The theorems below assume that `A` reports the exact sign of every cross product (`SignExact`) and always delivers
an intersection point (`IsectTotal`; the point is only ever requested for two properly crossing segments).
Instances: `exactArith` (exact integer sign, exact truncated intersection) and `hybridArith` (exact integer sign,
the *real* `double` intersection point) — so the theorems apply to every run of the compiled code on which no
`CrossProduct` sign is mis-rounded, which the driver command `LINESCOVER` decides for every generated input.
No hypothesis on segments along a rectangle side or on boundary vertices is needed for the description itself
(`lines_cover`); such hypotheses enter only where the description is read geometrically
(`through_segment_geometry`, `new_piece_only_after_leaving`, and the witness `pieces_not_maximal_witness`).

What is proved, in the terms of the task statement:
(i)   soundness — `lines_cover`: the list of `Add` calls is the concatenation, segment by segment, of the
      contributions `SegPart` allows; every call is a vertex of the input in the closed rectangle or a crossing point
      found by `GetIntersection` on that very segment; `cover_vertex_calls`: the vertex calls are exactly the vertices
      of class in, once each, in input order;
(ii)  completeness — `SegPart`: two consecutive vertices of class in are joined (no `start_new` between them); a
      segment in → out / out → in contributes exactly one crossing point (`exit_found`, `entering` — never lost);
      a segment out → out contributes nothing or a two-point piece, the latter only if it meets the closed rectangle and
      always if it enters the open rectangle (`through_segment_geometry`), and then the unchecked second
      `GetIntersection` call succeeds as well (`noLostCrossing_exact`, which discharges the hypothesis of
      `Props.C09.lines_in_rect`: `lines_in_rect_exact`);
(iii) `lines_piece_count`: number of rings = (1 if the first vertex is of class in) + number of entering events.
Where the crossing points lie is a matter of the intersection-point routine, about which nothing is assumed above;
`crossing_points_on_boundary` adds the idealisation "the point returned for a proper crossing lies on both lines"
(`IsectExactOn`, decidable per input) and concludes that every crossing point lies on its segment and on the boundary.
`meets_is_common_point` shows that the integer predicate `Meets` used in the geometric statements is the existence
of a common point of segment and rectangle.
The class of a vertex (`classes`): strictly inside = in, outside the closed rectangle = out, **on the boundary = the
class of the preceding vertex**.  Because of the last rule the pieces are *not* always maximal: a polyline that
reaches a boundary vertex from outside through the interior and goes on inside the rectangle is returned as two
pieces sharing that vertex (`pieces_not_maximal_witness`, reproduced on the real code by harness/C09.cpp, label
`cover.boundary_vertex_split`).  `new_piece_only_after_leaving` is the maximality statement that does hold.
-/
import ClipperVerif.Lemmas.RectLinesPieces
import ClipperVerif.Lemmas.RectLinesParam
import ClipperVerif.Lemmas.RectLinesPoint
import ClipperVerif.Lemmas.RectLinesCheck
import ClipperVerif.Props.C09
namespace Clipper.Props.C09Cover
open Clipper Clipper.Model.RC Clipper.Lemmas.RC Clipper.Lemmas.RCE Clipper.Lemmas.RLG Clipper.Lemmas.RLV
open Clipper.Props.C09

/-! ### the arithmetic instances -/

theorem sign_exact (x : Int) : (Int.sign x = 0 ↔ x = 0) ∧ (Int.sign x > 0 ↔ x > 0) :=
  ⟨Int.sign_eq_zero_iff_zero, Int.sign_pos_iff⟩

/-- exact integer signs, exact (truncated) intersection point -/
theorem exactArith_exact : SignExact exactArith ∧ IsectTotal exactArith := by
  refine ⟨fun a b c => sign_exact _, fun a b c d => ?_⟩
  simp only [exactArith, isectZ]
  split <;> rfl

/-- exact integer signs, the `double` intersection point of the real code -/
theorem hybridArith_exact : SignExact hybridArith ∧ IsectTotal hybridArith := by
  refine ⟨fun a b c => sign_exact _, fun a b c d => ?_⟩
  simp only [hybridArith]
  cases isectF a b c d <;> rfl

/-! ### geometric completeness of `GetIntersection` -/

/-- **`GetIntersection` from outside is sound and complete** (sign-exact arithmetic, non-empty rectangle): called
with `p` in the closed half-plane beyond side `loc` (`p.x ≤ left` for `Left`, …) and `q` such that `p q` is not
contained in the line of that side, it reports a crossing iff the closed segment `p q` meets the closed rectangle
(`Meets`: separating-axis form over the integers — no side line and not the line `p q` separates them).
This is the "segment between two outside regions meets one of the three edges tried" argument that was open. -/
theorem getIntersection_complete (A : Arith) (hA : SignExact A) (ht : IsectTotal A) (r : Rect)
    (hw : r.left < r.right) (hh : r.top < r.bottom) (loc : Location) (p q : Pt) (hr : Ready r loc p)
    (hl : loc ≠ .inside) (hnc : ¬ (OnSideLine r loc p ∧ OnSideLine r loc q)) (ip : Pt) :
    (getIntersection A r p q loc ip).1 = true ↔ Meets r p q :=
  getIntersection_outside_iff hA ht hw hh hr hl hnc ip

/-- **`Meets` means what it should**: for a non-empty rectangle, the integer separating-axis predicate `Meets r p q`
holds iff the closed segment and the closed rectangle have a common point `p + (s/t)(q - p)`, `0 ≤ s ≤ t`, `0 < t`
(`MeetsParam`, all inequalities multiplied out by `t`). -/
theorem meets_is_common_point (r : Rect) (hw : r.left < r.right) (hh : r.top < r.bottom) (p q : Pt) :
    Meets r p q ↔ MeetsParam r p q :=
  meets_iff_param hw hh p q

example : MeetsParam ⟨0, 0, 10, 10⟩ ⟨-3, -3⟩ ⟨12, 5⟩ := ⟨3, 8, by decide⟩

/-- the hypothesis "not both on the line of side `loc`" of `getIntersection_complete` is needed: the segment
`(0,2) → (0,5)` lies on the left side of `[0,10]²`, yet `GetIntersection(…, Left)` reports nothing -/
example : Meets ⟨0, 0, 10, 10⟩ ⟨0, 2⟩ ⟨0, 5⟩ ∧
    (getIntersection exactArith ⟨0, 0, 10, 10⟩ ⟨0, 2⟩ ⟨0, 5⟩ .left ⟨0, 0⟩).1 = false := by decide

/-- a non-trivial instance: from the corner region beyond the left side, through the top edge -/
example : Ready ⟨0, 0, 10, 10⟩ .left ⟨-3, -3⟩ ∧ ¬ (OnSideLine ⟨0, 0, 10, 10⟩ .left ⟨-3, -3⟩ ∧ OnSideLine ⟨0, 0, 10, 10⟩ .left ⟨12, 5⟩) ∧
    (getIntersection exactArith ⟨0, 0, 10, 10⟩ ⟨-3, -3⟩ ⟨12, 5⟩ .left ⟨0, 0⟩).1 = true :=
  ⟨by simp [Ready], by simp [OnSideLine], by decide⟩

/-- **An exiting crossing is never lost**: `cur` outside the closed rectangle in region `loc`, `prv` in the closed
rectangle (boundary included). -/
theorem exit_crossing_found (A : Arith) (hA : SignExact A) (ht : IsectTotal A) (r : Rect) (hw : r.left < r.right)
    (hh : r.top < r.bottom) (cur prv : Pt) (loc : Location) (ho : outsideLoc r cur = some loc)
    (hp : inRect r prv = true) (ip : Pt) : (getIntersection A r cur prv loc ip).1 = true :=
  exit_found hA ht hw hh ho hp ip

example : outsideLoc ⟨0, 0, 10, 10⟩ ⟨-5, -3⟩ = some .left ∧ inRect ⟨0, 0, 10, 10⟩ ⟨5, 0⟩ = true := by decide

/-! ### the description of a run -/

/-- **`lines_cover`.**  For sign-exact arithmetic, a non-empty rectangle and a polyline of at least two vertices,
the `Add` calls of `RectClipLines64::ExecuteInternal` are `es` with `Cover A r path es`:
the first vertex if it is of class in (`cls0`), followed, for every segment `k = 1 … n-1` in order, by the
contribution `SegPart A r k path[k-1] path[k] c(k-1) c(k)` (`c` = `classes r path`, computed by `clsNext`):
* in → in: `Add(path[k])`;
* in → out: `Add(ip)`, `ip` the crossing `GetIntersection(path[k], path[k-1], region of path[k])` found;
* out → in: `Add(ip, start_new)`, `ip` the crossing `GetIntersection(path[k], path[k-1], Inside)` found, then
  `Add(path[k])`;
* out → out: nothing (both end points in one closed outer half-plane, or `GetIntersection` from `path[k]` found
  nothing), or `Add(ip2, start_new); Add(ip)` with `ip` found by `GetIntersection` from `path[k]` and `ip2` left by the
  unchecked call from `path[k-1]`.
The result of `ExecuteInternal` is `assemble es` (a new ring at every `start_new`, consecutive duplicates removed,
single points dropped).  No hypothesis on boundary vertices or on segments along a side. -/
theorem lines_cover (A : Arith) (hA : SignExact A) (ht : IsectTotal A) (r : Rect) (hw : r.left < r.right)
    (hh : r.top < r.bottom) (path : Path) (hlen : 2 ≤ path.length) :
    ∃ es, emits A r path = some es ∧ executeInternal A r path = some (assemble es) ∧ Cover A r path es := by
  obtain ⟨es, he, hc⟩ := emits_cover hA ht hw hh path hlen
  exact ⟨es, he, by simp [executeInternal, he], hc⟩

/-- **The checker the harness runs is sound**: the driver command `LINESCOVER` evaluates `coverB` on the `Add` calls
of the `double` model for every generated input; a `true` answer means `Cover` holds (for any arithmetic). -/
theorem cover_checker_sound (A : Arith) (r : Rect) (path : Path) (es : List Emit)
    (h : coverB A r path es = true) : Cover A r path es :=
  coverB_sound h

/-- the hypotheses of `lines_cover` hold for the exact arithmetic on a run with an entering, an exiting and a
through-going segment; the classes of the five vertices are out, out, in, in, out -/
example : (emits exactArith ⟨0, 0, 10, 10⟩ [⟨-5, 5⟩, ⟨15, 7⟩, ⟨3, 3⟩, ⟨4, 4⟩, ⟨4, 20⟩]).map (·.map (·.kind)) =
      some [.thru1 true, .thru2, .enter, .vertex, .vertex, .exit] ∧
    classes ⟨0, 0, 10, 10⟩ [⟨-5, 5⟩, ⟨15, 7⟩, ⟨3, 3⟩, ⟨4, 4⟩, ⟨4, 20⟩] = [false, false, true, true, false] := by
  decide

/-- **`through_segment_geometry`.**  In the description of `lines_cover`, the contribution of a segment between two
vertices of class out is, geometrically: nothing, and then the segment does not enter the open rectangle (both end
points in one closed outer half-plane, or the closed segment misses the closed rectangle: `Outside2`); or the two
crossing points, and then the closed segment meets the closed rectangle and *both* `GetIntersection` calls
succeeded.  (A segment that only touches the boundary may fall in either case; a segment along a side likewise —
"may be kept or dropped" in the property statement.) -/
theorem through_segment_geometry (A : Arith) (hA : SignExact A) (ht : IsectTotal A) (r : Rect)
    (hw : r.left < r.right) (hh : r.top < r.bottom) (path : Path) (hlen : 2 ≤ path.length) :
    ∃ es, emits A r path = some es ∧
      CoverP r (fun k prv cur ip ic es => SegPart A r k prv cur ip ic es ∧
        (ip = false → ic = false →
          (es = [] ∧ Outside2 r prv cur) ∨
          (Meets r prv cur ∧ ∃ loc loc2, loc ≠ .inside ∧ Ready r loc cur ∧ loc2 ≠ .inside ∧ Ready r loc2 prv ∧
            (getIntersection A r cur prv loc ⟨0, 0⟩).1 = true ∧ (getIntersection A r prv cur loc2 ⟨0, 0⟩).1 = true ∧
            es = [⟨k, (getIntersection A r prv cur loc2 ⟨0, 0⟩).2.2, true, .thru1 true⟩,
                  ⟨k, (getIntersection A r cur prv loc ⟨0, 0⟩).2.2, false, .thru2⟩]))) path es := by
  obtain ⟨es, he, hc⟩ := emits_cover hA ht hw hh path hlen
  refine ⟨es, he, coverP_mono ?_ hc⟩
  intro k prv cur ip ic es h
  refine ⟨h, ?_⟩
  rintro rfl rfl
  exact segPart_out_out hA ht hw hh h

/-- **`crossing_points_on_boundary`** (idealised intersection-point routine).  Assume in addition that, for every
segment of the polyline and every rectangle edge it properly crosses, the point the intersection routine returns lies
on the line of the segment and on the line of the edge (`IsectExactOn`; decidable on a concrete input by
`isectExactOnB`, true for exact arithmetic exactly when those intersection points have integer coordinates).
Then in the description of `lines_cover` every `Add` call that is not an input vertex adds a point of the rectangle
boundary that lies on the closed segment `path[k-1] path[k]` it is tagged with: every piece starts and ends at a
boundary crossing of the polyline or at an end point of the polyline of class in. -/
theorem crossing_points_on_boundary (A : Arith) (hA : SignExact A) (ht : IsectTotal A) (r : Rect)
    (hw : r.left < r.right) (hh : r.top < r.bottom) (path : Path) (hlen : 2 ≤ path.length)
    (hex : IsectExactOn A r path) :
    ∃ es, emits A r path = some es ∧
      CoverP r (fun k prv cur ip ic es => SegPart A r k prv cur ip ic es ∧
        ∀ e ∈ es, e.kind ≠ .vertex → OnSeg prv cur e.pt ∧ OnBoundary r e.pt) path es := by
  obtain ⟨es, he, hc⟩ := emits_cover hA ht hw hh path hlen
  refine ⟨es, he, coverP_mono_adj ?_ hc⟩
  rintro k prv cur ip ic es ⟨t, h1, h2⟩ h
  exact ⟨h, segPart_points hA ht hw hh (hex t prv cur h1 h2).1 (hex t prv cur h1 h2).2 h⟩

/-- the idealisation holds for the exact arithmetic on a polyline whose crossings have integer coordinates, and fails
on one whose crossing `(0, 2.5)` has not -/
example : IsectExactOn exactArith ⟨0, 0, 10, 10⟩ [⟨-5, 5⟩, ⟨5, 5⟩, ⟨9, 15⟩, ⟨20, 4⟩] ∧
    isectExactOnB exactArith ⟨0, 0, 10, 10⟩ [⟨-2, 2⟩, ⟨2, 3⟩] = false :=
  ⟨isectExactOnB_sound (by decide), by decide⟩

/-- **`noLostCrossing_exact`.**  For sign-exact arithmetic the hypothesis `NoLostCrossing` of `lines_in_rect` holds
for every polyline: whenever the first `GetIntersection` call of a "passing right through" step succeeds, so does
the second one, whose result the C++ ignores.  (The defect `lines_in_rect_needs_hyp` is a rounding defect.) -/
theorem noLostCrossing_exact (A : Arith) (hA : SignExact A) (ht : IsectTotal A) (r : Rect) (hw : r.left < r.right)
    (hh : r.top < r.bottom) (path : Path) : NoLostCrossing A r path := by
  intro es he e hm
  by_cases hlen : 2 ≤ path.length
  · obtain ⟨es', he', hc⟩ := emits_cover hA ht hw hh path hlen
    rw [he] at he'
    cases he'
    exact coverP_all (Pr := fun e => e.kind ≠ .thru1 false) (segPart_no_lost hA ht hw hh) (by simp [V]) hc e hm
  · unfold emits at he
    have : decide (path.length < 2) = true := by simp; omega
    rw [this] at he
    simp at he
    subst he
    simp at hm

/-- **`lines_in_rect_exact`.**  `lines_in_rect` for sign-exact arithmetic, with its two run hypotheses discharged:
every vertex returned by `RectClipLines(rect, lines)` lies in any rectangle `R ⊇ rect` into which the intersection
routine delivers its points. -/
theorem lines_in_rect_exact (A : Arith) (hA : SignExact A) (ht : IsectTotal A) (r R : Rect) (hw : r.left < r.right)
    (hh : r.top < r.bottom) (lines : Paths) (hi : IsectIn A R) (hsub : Subrect r R)
    (out : Paths) (ho : rectClipLines A r lines = some out) :
    ∀ piece ∈ out, ∀ p ∈ piece, inRect R p = true :=
  lines_in_rect A r R lines (fun a b c _ => (hA a b c).1) hi hsub
    (fun path _ => noLostCrossing_exact A hA ht r hw hh path) out ho

/-- **`cover_vertex_calls`.**  The vertex calls of the run are exactly the vertices of class in, once each, in
input order — in particular every input vertex strictly inside the rectangle is added exactly once, and no vertex
outside the closed rectangle ever is. -/
theorem cover_vertex_calls (A : Arith) (hA : SignExact A) (ht : IsectTotal A) (r : Rect) (hw : r.left < r.right)
    (hh : r.top < r.bottom) (p0 : Pt) (rest : List Pt) (hlen : 1 ≤ rest.length) :
    ∃ es, emits A r (p0 :: rest) = some es ∧
      es.filter isVertex =
        (if cls0 r (p0 :: rest) then [V 0 p0] else []) ++ inVerts r 1 (cls0 r (p0 :: rest)) rest := by
  obtain ⟨es, he, hc⟩ := emits_cover hA ht hw hh (p0 :: rest) (by simp; omega)
  exact ⟨es, he, cover_vertices hc⟩

/-- the class of a vertex lies between "strictly inside" and "in the closed rectangle" -/
theorem class_sandwich (r : Rect) (ip : Bool) (p : Pt) :
    (sInB r p = true → clsNext r ip p = true) ∧ (clsNext r ip p = true → inRect r p = true) := by
  unfold clsNext
  refine ⟨fun h => by simp [h], fun h => ?_⟩
  simp only [Bool.or_eq_true, Bool.and_eq_true] at h
  rcases h with h | h
  · rw [inRect_iff]; have := (sInB_iff r p).mp h; unfold SIn at this; omega
  · exact h.1

/-- **`lines_piece_count`** (iii).  The number of rings `Add` builds for one polyline is one for a first vertex of
class in plus the number of entering events (`start_new` calls: the `enter` crossings and the first points `thru1`
of through-going segments, by `startNew_iff_entering`).  Rings of a single point are dropped afterwards by
`GetPath`. -/
theorem lines_piece_count (A : Arith) (hA : SignExact A) (ht : IsectTotal A) (r : Rect) (hw : r.left < r.right)
    (hh : r.top < r.bottom) (path : Path) (hlen : 2 ≤ path.length) :
    ∃ es, emits A r path = some es ∧
      (addAll (es.map (fun e => (e.pt, e.startNew)))).length =
        (if cls0 r path then 1 else 0) + (es.filter (·.startNew)).length := by
  obtain ⟨es, he, hc⟩ := emits_cover hA ht hw hh path hlen
  exact ⟨es, he, rings_count hc⟩

/-- **`pieces_are_groups`.**  From the `Add` calls to the pieces returned (any arithmetic): group the calls at every
`start_new` (`addE`), remove consecutive duplicate points inside each group (`ringR`), put groups and points in
chronological order, and drop the groups of fewer than two points.  With `lines_cover` this reads off the pieces: each
piece is an entering crossing (or the first vertex, if of class in), the following run of consecutive vertices of
class in, and the exiting crossing (or nothing, if the polyline ends inside). -/
theorem pieces_are_groups (es : List Emit) :
    assemble es =
      (((es.foldl addE []).map (fun g => ringR (g.map (·.pt)))).reverse.map List.reverse).filter
        (fun p => decide (p.length ≥ 2)) :=
  assemble_eq_groups es

/-- **`new_piece_only_after_leaving`** (the maximality that holds).  A new piece starts only on a segment whose
first vertex `path[k-1]` is of class out: that vertex is not strictly inside the rectangle and, unless it lies on the
boundary, it is outside the closed rectangle.  Together with `lines_cover` (consecutive vertices of class in are
never separated) the pieces are the maximal sub-polylines inside the closed rectangle whenever no vertex that is
reached from outside lies on the boundary; `pieces_not_maximal_witness` shows that the exception is real. -/
theorem new_piece_only_after_leaving (A : Arith) (hA : SignExact A) (ht : IsectTotal A) (r : Rect)
    (hw : r.left < r.right) (hh : r.top < r.bottom) (path : Path) (hlen : 2 ≤ path.length) :
    ∃ es, emits A r path = some es ∧ ∀ e ∈ es, e.startNew = true →
      1 ≤ e.k ∧ ∃ prv, path[e.k - 1]? = some prv ∧ sInB r prv = false ∧ (onBd r prv = false → inRect r prv = false) := by
  obtain ⟨es, he, hc⟩ := emits_cover hA ht hw hh path hlen
  refine ⟨es, he, ?_⟩
  intro e hm hs
  unfold Cover CoverP at hc
  match path, hc with
  | p0 :: rest, hc =>
    obtain ⟨e2, rfl, ht'⟩ := hc
    rcases List.mem_append.mp hm with hm | hm
    · split at hm
      · simp only [List.mem_singleton] at hm; subst hm; simp [V] at hs
      · simp at hm
    · obtain ⟨t, prv, hp, hk, hcl⟩ := tail_startNew _ _ _ _ ht' e hm hs
      refine ⟨by omega, prv, ?_, ?_⟩
      · have : e.k - 1 = t := by omega
        rw [this]; exact hp
      · exact class_false (path := p0 :: rest) (t := t) (by simpa [classes] using hcl) hp

/-! ### the pieces are not always maximal: witness -/

/-- **Negation of "the pieces are exactly the maximal sub-polylines inside the closed rectangle".**
Rectangle `[0,10]²`, polyline `(20,10) → (0,0) → (10,20)`: it enters at `(10,5)`, passes through the corner `(0,0)`
— a vertex on the boundary, reached from outside — and leaves at `(5,10)`; the part inside the closed rectangle is the
single polyline `(10,5) → (0,0) → (5,10)`.  The model (exact arithmetic) — and the compiled `RectClipLines`, harness
label `cover.boundary_vertex_split` — return it as **two** pieces that share the vertex `(0,0)`: the vertex is of
class out (it inherits the class of `(20,10)`), so the segment reaching it and the segment leaving it are both
treated as passing right through.  The union of the pieces is still the right point set. -/
theorem pieces_not_maximal_witness :
    rectClipLines exactArith ⟨0, 0, 10, 10⟩ [[⟨20, 10⟩, ⟨0, 0⟩, ⟨10, 20⟩]] =
      some [[⟨10, 5⟩, ⟨0, 0⟩], [⟨0, 0⟩, ⟨5, 10⟩]] ∧
    classes ⟨0, 0, 10, 10⟩ [⟨20, 10⟩, ⟨0, 0⟩, ⟨10, 20⟩] = [false, false, false] ∧
    onBd ⟨0, 0, 10, 10⟩ ⟨0, 0⟩ = true ∧
    (∀ p ∈ [(⟨10, 5⟩ : Pt), ⟨0, 0⟩, ⟨5, 10⟩], inRect ⟨0, 0, 10, 10⟩ p = true) := by
  decide

/-- a second witness, with the boundary vertices in the interior of sides: `(-5,3) → (0,4) → (10,6) → (5,5)` is
returned as `(0,4) → (10,6)` and `(10,6) → (5,5)` -/
theorem pieces_not_maximal_witness2 :
    rectClipLines exactArith ⟨0, 0, 10, 10⟩ [[⟨-5, 3⟩, ⟨0, 4⟩, ⟨10, 6⟩, ⟨5, 5⟩]] =
      some [[⟨0, 4⟩, ⟨10, 6⟩], [⟨10, 6⟩, ⟨5, 5⟩]] := by
  decide

/-- with no vertex on the boundary other than the first and the last (`noInnerBoundaryB`), the class of every other
vertex is simply "strictly inside", equivalently "in the closed rectangle" -/
theorem class_general_position (r : Rect) (ip : Bool) (p : Pt) (h : onBd r p = false) :
    clsNext r ip p = sInB r p ∧ (sInB r p = inRect r p) := by
  have hnb : ¬ OnBoundary r p := by
    intro hb
    have := (getLocation_fst r p .inside).mpr hb
    unfold onBd at h; rw [this] at h; cases h
  have e : sInB r p = inRect r p := by
    rw [Bool.eq_iff_iff, sInB_iff, inRect_iff]
    unfold SIn; unfold OnBoundary at hnb; omega
  refine ⟨?_, e⟩
  unfold clsNext
  rw [e]
  cases inRect r p <;> simp

example : noInnerBoundaryB ⟨0, 0, 10, 10⟩ [⟨0, 5⟩, ⟨15, 7⟩, ⟨3, 3⟩, ⟨10, 4⟩] = true ∧
    noInnerBoundaryB ⟨0, 0, 10, 10⟩ [⟨20, 10⟩, ⟨0, 0⟩, ⟨10, 20⟩] = false := by decide

end Clipper.Props.C09Cover
