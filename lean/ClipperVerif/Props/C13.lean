/-
C13 — Results are independent of representation and obey set algebra: the *algebra* of the region
predicate `Spec.inR`, and the symmetries of the AEL bookkeeping model (`Model/Ael.lean`).

Proved here: `inR` is symmetric in subject/clip for Intersection, Union, Xor; negating all winding numbers fixes
EvenOdd/NonZero and exchanges Positive/Negative; Xor = Union minus Intersection; Difference and Intersection
partition the subject region; and on the bookkeeping model, exchanging the path types (ct ≠ Difference) resp. negating
every direction while exchanging Positive/Negative commutes with every operation on closed edges, hot flags included.

NOT proved here: invariance of `Spec.wind` under geometric transformations and path re-representation, `AddPaths_`
invariances (other files of C13); equality of the real outputs (spec-level correspondence).
-/
import ClipperVerif.Lemmas.AelSim
namespace Clipper.Props.C13
open Clipper Clipper.Model

/-- **inR_symm.** Intersection, Union and Xor (and NoClip) do not care which path set is called subject. -/
theorem inR_symm (ct : ClipType) (hct : ct ≠ .difference) (fr : FillRule) (a b : Int) :
    inR ct fr a b = inR ct fr b a := by
  cases ct <;> (try exact absurd rfl hct) <;> simp only [inR] <;>
    cases inFill fr a <;> cases inFill fr b <;> rfl

/-- Difference is genuinely asymmetric (witness) -/
example : inR .difference .nonZero 1 0 ≠ inR .difference .nonZero 0 1 := by decide

/-- reversing every path negates every winding number; `Model.flipFr` exchanges Positive and Negative -/
theorem inFill_neg (fr : FillRule) (w : Int) : inFill (Model.flipFr fr) (-w) = inFill fr w :=
  Model.inFill_neg fr w

/-- **inR_neg.** Negating both winding numbers (reversing all paths) leaves EvenOdd and NonZero regions unchanged and turns
a Positive region into the Negative one and vice versa. -/
theorem inR_neg (ct : ClipType) (fr : FillRule) (a b : Int) :
    inR ct (Model.flipFr fr) (-a) (-b) = inR ct fr a b := by
  cases ct <;> simp only [inR, Model.inFill_neg]

example : Model.flipFr .positive = .negative ∧ Model.flipFr .negative = .positive ∧
    Model.flipFr .evenOdd = .evenOdd ∧ Model.flipFr .nonZero = .nonZero := ⟨rfl, rfl, rfl, rfl⟩

/-- **xor_eq_union_minus_inter.** -/
theorem xor_eq_union_minus_inter (fr : FillRule) (a b : Int) :
    inR .xor fr a b = (inR .union fr a b && !inR .intersection fr a b) := by
  simp only [inR]; cases inFill fr a <;> cases inFill fr b <;> rfl

/-- **diff_inter_partition.** Difference and Intersection are disjoint and together are the subject region. -/
theorem diff_inter_partition (fr : FillRule) (a b : Int) :
    (inR .difference fr a b || inR .intersection fr a b) = inFill fr a ∧
    (inR .difference fr a b && inR .intersection fr a b) = false := by
  simp only [inR]; cases inFill fr a <;> cases inFill fr b <;> exact ⟨rfl, rfl⟩

/-- further identities of the same kind: Union = Difference ∪ clip region; Xor = (S−C) ∪ (C−S) -/
theorem union_eq_diff_or_clip (fr : FillRule) (a b : Int) :
    inR .union fr a b = (inR .difference fr a b || inFill fr b) := by
  simp only [inR]; cases inFill fr a <;> cases inFill fr b <;> rfl
theorem xor_eq_diff_or_diff (fr : FillRule) (a b : Int) :
    inR .xor fr a b = (inR .difference fr a b || inR .difference fr b a) := by
  simp only [inR]; cases inFill fr a <;> cases inFill fr b <;> rfl

/-! ## symmetries of the bookkeeping model

`swapE` exchanges an edge's path type; `negE fr` reverses it (`dx`, `wc` negated; `wc2` negated unless it is an
EvenOdd parity); `swapOp`/`negOp` do the same to the edges an operation inserts; `negCfg` exchanges Positive/Negative.
Both statements are for sweeps with closed paths only (`AllClosed`, `OpClosed`): open paths are subject-only, so the
exchange of types is meaningless for them. -/

/-- **swapTypes_sim (one step).** For every clip type but Difference, exchanging subject and clip commutes with every
operation: same success/failure, same positions, same counts, same hot flags. -/
theorem swapTypes_sim (cfg : Cfg) (hct : cfg.ct ≠ .difference) (l : Ael) (hl : AllClosed l) (op : Op)
    (hop : OpClosed op) :
    step cfg (l.map swapE) (swapOp op) = (step cfg l op).map (fun l' => l'.map swapE) :=
  step_swap cfg hct l hl op hop

/-- **swapTypes_sim (whole runs).** -/
theorem swapTypes_sim_run (cfg : Cfg) (hct : cfg.ct ≠ .difference) (ops : List Op)
    (hops : ∀ op ∈ ops, OpClosed op) :
    run cfg [] (ops.map swapOp) = (run cfg [] ops).map (fun l' => l'.map swapE) :=
  run_swap cfg hct ops [] (fun _ h => by cases h) hops

/-- **negate_sim (one step).** Reversing every path (negating every `wind_dx`) while exchanging Positive and Negative
commutes with every operation; the stored counts are negated (EvenOdd parities unchanged), hot flags are equal. -/
theorem negate_sim (cfg : Cfg) (l : Ael) (hl : AllClosed l) (op : Op) (hop : OpClosed op) :
    step (negCfg cfg) (l.map (negE cfg.fr)) (negOp op) =
      (step cfg l op).map (fun l' => l'.map (negE cfg.fr)) :=
  step_neg cfg l hl op hop

/-- **negate_sim (whole runs).** -/
theorem negate_sim_run (cfg : Cfg) (ops : List Op) (hops : ∀ op ∈ ops, OpClosed op) :
    run (negCfg cfg) [] (ops.map negOp) = (run cfg [] ops).map (fun l' => l'.map (negE cfg.fr)) :=
  run_neg cfg ops [] (fun _ h => by cases h) hops

/-- hot flags are literally the same after reversal -/
theorem negate_hot (fr : FillRule) (l : Ael) : (l.map (negE fr)).map (·.hot) = l.map (·.hot) := by
  simp [negE, List.map_map, Function.comp_def]
theorem swap_hot (l : Ael) : (l.map swapE).map (·.hot) = l.map (·.hot) := by
  simp [swapE, List.map_map, Function.comp_def]

/-! non-vacuity -/
def sqOps : List Op := [ .insertPair 0 .subject false (-1), .insertPair 1 .clip false (-1), .intersect 2, .removePair 0 ]
example : ∀ op ∈ sqOps, OpClosed op := by simp [sqOps, OpClosed]
example : run ⟨.union, .positive⟩ [] (sqOps.take 3) ≠ none := by decide
/-- with Difference the exchange does change the hot flags (so the hypothesis `ct ≠ .difference` is needed) -/
example : (run ⟨.difference, .nonZero⟩ [] ((sqOps.take 3).map swapOp)).map (fun l => l.map (·.hot)) ≠
    (run ⟨.difference, .nonZero⟩ [] (sqOps.take 3)).map (fun l => l.map (·.hot)) := by decide
/-- without exchanging Positive/Negative a reversal does change the result -/
example : (run ⟨.union, .positive⟩ [] ((sqOps.take 3).map negOp)).map (fun l => l.map (·.hot)) ≠
    (run ⟨.union, .positive⟩ [] (sqOps.take 3)).map (fun l => l.map (·.hot)) := by decide

end Clipper.Props.C13
