/-
C15, Z accounting on the output rings: theorems on `Model/AelRingsZ.lean`, the Z layer of the ring assembly model (`Model/AelRings.lean`, C01/C03),
tied to a USINGZ build of the real engine by replaying hook traces triple for triple, callback log included (`harness/aelringsz.h`,
`harness/C15rings.cpp`, driver command `AELRINGSZ`).

Proved here for **every** event list from the empty state, every callback family `F : Nat → Callback` (`F k` = the callback's answer at its `k`-th call; any
stateful deterministic callback), every `DefaultZ`, every clip type except `NoClip` and every fill rule:

* `eraseZ_step`, `eraseZ_run` — forgetting the Z part, a step / run of the Z model *is* the step / run of the ring model on the events with z forgotten;
  `z_rings_agree` — and forgetting the z of every point, the Z rings are the rings of the ring model, point for point, and the Z emission log is its log
  (an overwrite by `SetZ` is a suppressed duplicate there): every theorem of `Props/C01Rings.lean` holds for the x, y of the Z rings.
* `ring_z_provenance` (headline) — every triple of every ring, live or finished, was stored by an emission of one of the events, and is
  (a) the triple that event was handed, z included — for the vertex events (local minimum, vertex passed in `DoTopOfScanbeam` / `DoHorizontal`, maximum) the
      input vertex with the input's z; for `Split` / `CheckJoinLeft/Right` the `pt` they were passed; for `IntersectEdges` the `pt` it was passed, **only if no
      callback is installed** (and then for every emission) **or the emission is the `AddLocalMinPoly` of a `Split`** —, or
  (b) `ZFill.setZ` of the `pt` of an `IntersectEdges` event with that event's edge end points and the callback's `k`-th call.
* `ring_z_accounting` — the Z clause of C15 in its own words, with a callback installed: every ring triple either is the triple an event supplied by value
  (an input vertex with its z for the vertex events), or was passed to the callback and carries what the callback assigned; and what the callback was shown is
  the z of the first end point (subject edge first, `bot` before `top`) the point coincides with, else `DefaultZ` (`setZ_spec`, `pickZ_at_endpoint`).
* `ring_z_no_callback` — without a callback every ring triple is the triple its event was handed: new vertices carry the z of the `pt` of
  `IntersectEdges`.  [C++: `Point64(x, y)` / a default constructed `Point64`, i.e. 0; `DefaultZ` is read only inside `SetZ`, which is never entered.  That
  the handed z is 0 for a computed point is checked on every trace by the harness; outside general position `GetSegmentIntersectPt` can hand over the z of
  an edge end point that lies elsewhere.]
* `rings_conserve_triples`, `z_not_touched_by_joins` — conservation for `(x, y, z)` triples: the triples in all rings together with the triples `SetZ`
  overwrote (an `AddOutPt` suppressed as a duplicate returns the old ring end, whose z `SetZ` then replaces) are, as a multiset, exactly the triples stored;
  `JoinOutrecPaths`, ring closing / rotation (`outrec.pts = result`) permute the triples and write nothing; `SwapOutrecs` and the ghost bookkeeping have no Z effect at all.
* `callback_log_sound` — the calls are numbered consecutively, every recorded answer is the family's answer to the recorded arguments, and every `setz k`
  emission refers to a call that was made.

NOT covered (stated explicitly, see also the model's header):
* `FixSelfIntersects` / `DoSplitOp` (in `CleanCollinear`, after the sweep): creates a vertex `ip` (`z = 0`), calls `zCallback_(prevOp->pt, splitOp->pt, splitOp->next->pt,
  nextNextOp->pt, ip)` directly (no `SetZ`, so no end-point z and no `DefaultZ`), and stores `ip` in one or two `OutPt`s.  Needs a ring that touches itself, which
  general position excludes; the seeded change C15b-m1 lives there.  Spec-level only (`ZCHECK`).
* horizontal joins: `ConvertHorzSegsToJoins` inserts `DuplicateOp` copies (x, y, z copied) during the sweep; the trace tie stops at the first one.
* `CleanCollinear` removes `OutPt`s (with their z); `BuildPath64` copies `pt` with z and skips an `OutPt` equal in x, y to the one just emitted: of two equal
  points with different z the one met first survives (the walk starts at `outrec->pts->next` — `outrec->pts` when reversed — and goes along `next` — `prev` —).
* open paths are not in this file: `Props/C15OpenRings.lean` (Z layer of the open-path assembly model, up to the returned open solution).
-/
import ClipperVerif.Lemmas.AelRingsZ
import ClipperVerif.Props.C01Rings
namespace Clipper.Props.C15Rings
open Clipper Clipper.Model Clipper.Model.ZFill

/-! ## (1) the Z model refines the ring model -/

/-- **eraseZ_step.** Forgetting the Z part, an accepted event is the same event (z forgotten) of the ring model `Model.stepR`; the Z rings change by
`Model.outStepZ`, computed from the side state before the event. -/
theorem eraseZ_step (cfg : Cfg) (zc : ZCfg) (st st' : ZState) (op : ZOp) (h : stepZ cfg zc st op = .ok st') :
    stepR cfg st.r op.erase = .ok st'.r ∧ st'.z = outStepZ cfg zc st.r.s st.z op := by
  unfold stepZ at h
  cases hs : stepR cfg st.r op.erase with
  | ok r' => simp only [hs] at h; cases h; exact ⟨rfl, rfl⟩
  | error e => simp [hs] at h

/-- **eraseZ_run.** A run of the Z model projects to a run of the ring model on the events with z forgotten. -/
theorem eraseZ_run (cfg : Cfg) (zc : ZCfg) (ops : List ZOp) : ∀ (st st' : ZState), runZ cfg zc st ops = .ok st' →
    runR cfg st.r (ops.map ZOp.erase) = .ok st'.r := by
  induction ops with
  | nil => intro st st' h; simp only [runZ] at h; cases h; rfl
  | cons op ops ih =>
    intro st st' h
    simp only [runZ] at h
    cases hs : stepZ cfg zc st op with
    | error e => simp [hs] at h
    | ok st1 =>
      simp only [hs] at h
      have h1 := (eraseZ_step cfg zc st st1 op hs).1
      simp only [List.map_cons, runR, h1]
      exact ih st1 st' h

/-! ## (2) the Z invariants along every run -/

/-- where a log entry can come from: one of the events `E` -/
def FromEvents (zc : ZCfg) (E : List ZOp) (e : ZEmit) : Prop := ∃ op ∈ E, EmitFrom zc op.isX op.ends op.ptz e

structure ZInv (zc : ZCfg) (E : List ZOp) (st : ZState) : Prop where
  agree : Agree st.z st.r.o
  perm : PermZOK st.z
  prov : ProvOK st.z
  calls : CallsOK zc st.z
  from_ : ∀ e ∈ st.z.log, FromEvents zc E e

theorem zinv_empty (zc : ZCfg) : ZInv zc [] ZState.empty := by
  refine ⟨⟨rfl, rfl⟩, ?_, ?_, ⟨rfl, ?_, ?_⟩, ?_⟩
  · simp [PermZOK, ZState.empty, ZOut.empty, allPtsZ, overOld, storedZ]
  · intro g hg; simp [ZState.empty, ZOut.empty] at hg
  · intro c hc; simp [ZState.empty, ZOut.empty] at hc
  · intro e he; simp [ZState.empty, ZOut.empty] at he
  · intro e he; simp [ZState.empty, ZOut.empty] at he

theorem zinv_step (cfg : Cfg) (zc : ZCfg) (E : List ZOp) (st st' : ZState) (op : ZOp) (h : ZInv zc E st) (hs : stepZ cfg zc st op = .ok st') :
    ZInv zc (op :: E) st' := by
  obtain ⟨h1, h2⟩ := eraseZ_step cfg zc st st' op hs
  have ho : st'.r.o = outStep cfg st.r.s st.r.o op.erase := (C01Rings.erase_ring_step cfg st.r st'.r op.erase h1).2
  refine ⟨?_, ?_, ?_, ?_, ?_⟩
  · rw [h2, ho]; exact rel_outStepZ cfg zc st.r.s st.z st.r.o op Agree (agree_prim zc _ _ _ _) h.agree
  · rw [h2]; exact rel_outStepZ cfg zc st.r.s st.z st.r.o op _ (permZOK_prim zc _ _ _ _) h.perm
  · rw [h2]; exact rel_outStepZ cfg zc st.r.s st.z st.r.o op _ (provOK_prim zc _ _ _ _) h.prov
  · rw [h2]; exact rel_outStepZ cfg zc st.r.s st.z st.r.o op _ (callsOK_prim zc _ _ _ _) h.calls
  · rw [h2]
    have := rel_outStepZ cfg zc st.r.s st.z st.r.o op _ (logFromZ_prim st.z.log zc op.isX true op.ends op.ptz) (fun e he => Or.inl he)
    intro e he
    rcases this e he with h' | h'
    · obtain ⟨op', hop', hf⟩ := h.from_ e h'
      exact ⟨op', List.mem_cons_of_mem _ hop', hf⟩
    · exact ⟨op, List.mem_cons_self, h'⟩

theorem zinv_run (cfg : Cfg) (zc : ZCfg) (ops : List ZOp) : ∀ (E : List ZOp) (st st' : ZState), ZInv zc E st → runZ cfg zc st ops = .ok st' →
    ZInv zc (ops.reverse ++ E) st' := by
  induction ops with
  | nil => intro E st st' h hr; simp only [runZ] at hr; cases hr; simpa using h
  | cons op ops ih =>
    intro E st st' h hr
    simp only [runZ] at hr
    cases hs : stepZ cfg zc st op with
    | error e => simp [hs] at hr
    | ok st1 =>
      simp only [hs] at hr
      have := ih (op :: E) st1 st' (zinv_step cfg zc E st st1 op h hs) hr
      simpa [List.append_assoc] using this

/-- **zinv_reachable.** All Z invariants hold after every event list from the empty state. -/
theorem zinv_reachable (cfg : Cfg) (zc : ZCfg) (ops : List ZOp) (st : ZState) (hr : runZ cfg zc ZState.empty ops = .ok st) : ZInv zc ops.reverse st := by
  have := zinv_run cfg zc ops [] ZState.empty st (zinv_empty zc) hr
  simpa using this

/-! ## (3) the property theorems -/

/-- **z_rings_agree.** In every reachable state the Z rings, with the z of every point forgotten, are the rings of the ring model — same records, same
state (`live` / `done` / `gone`), same points in the same order — and the Z emission log with z forgotten is the ring model's log (`over` reads `dup`).
So the x, y geometry of a USINGZ sweep is that of the plain sweep on the same events, and the theorems of `Props/C01Rings.lean` (conservation, ring ends at
the AEL, neighbours logged, runs) apply to the Z rings. -/
theorem z_rings_agree (cfg : Cfg) (zc : ZCfg) (ops : List ZOp) (st : ZState) (hr : runZ cfg zc ZState.empty ops = .ok st) :
    st.z.rings.map ZRing.erase = st.r.o.rings.map Ring.core ∧ st.z.log.map ZEmit.erase = st.r.o.log :=
  (zinv_reachable cfg zc ops st hr).agree

/-- transfer, example: `AddOutPt` is never called on a missing or dead record in the Z model either -/
theorem no_point_lost_z (cfg : Cfg) (hct : cfg.ct ≠ .noClip) (zc : ZCfg) (ops : List ZOp) (st : ZState) (hr : runZ cfg zc ZState.empty ops = .ok st) :
    ∀ e ∈ st.z.log, e.kind ≠ .lost := by
  intro e he hk
  have h2 := (z_rings_agree cfg zc ops st hr).2
  have hr' := eraseZ_run cfg zc ops ZState.empty st hr
  have := (C01Rings.rings_conserve_points cfg hct _ st.r hr').2.1 e.erase (by rw [← h2]; exact List.mem_map_of_mem he)
  apply this
  simp [ZEmit.erase, hk, ZKind.erase]

/-- **ring_z_provenance** (headline).  In every reachable state every triple `q` of every ring (under construction, finished) is the triple of a log entry `e` that stored
it (`new`, `added`, or `over` = `SetZ` wrote into the ring end `AddOutPt` returned), and `e` was made by one of the events `op`, in one of two ways:
* by value: `q` is exactly the triple `op` was handed (`op.ptz`), z included; if `op` is an `IntersectEdges` call and a callback is installed this happens only
  for the record started by a `Split` (`e.kind = new`);
* through `SetZ`: `op` is an `IntersectEdges` call, a callback family `F` is installed, and `q = setZ (some (F k)) subj e1bot e1top e2bot e2top pt DefaultZ` for
  the event's own `pt` and edge end points, some call index `k` and `subj = (GetPolyType(e1) == Subject)`. -/
theorem ring_z_provenance (cfg : Cfg) (zc : ZCfg) (ops : List ZOp) (st : ZState) (hr : runZ cfg zc ZState.empty ops = .ok st)
    (g : ZRing) (hg : g ∈ st.z.rings) (q : PtZ) (hq : q ∈ g.pts) :
    ∃ e ∈ st.z.log, e.stored = true ∧ e.ptz = q ∧ ∃ op ∈ ops,
      (e.src = .given ∧ q = op.ptz ∧ (op.isX = true → zc.cb.isSome = true → e.kind = .new)) ∨
      (∃ F k subj i pt ends, zc.cb = some F ∧ op = .intersect i pt ends ∧ e.src = .setz k ∧
        q = setZ (some (F k)) subj ends.e1bot ends.e1top ends.e2bot ends.e2top pt zc.defaultZ) := by
  have h := zinv_reachable cfg zc ops st hr
  obtain ⟨e, he, h1, h2⟩ := h.prov g hg q hq
  obtain ⟨op, hop, hf⟩ := h.from_ e he
  refine ⟨e, he, h1, h2, op, by simpa using hop, ?_⟩
  rcases hf with ⟨f1, f2, f3⟩ | ⟨hX, F, k, subj, hF, f2, f3⟩
  · left; exact ⟨f1, by rw [← h2, f2], f3⟩
  · right
    cases op with
    | intersect i pt ends => exact ⟨F, k, subj, i, pt, ends, hF, rfl, f2, by rw [← h2, f3]; rfl⟩
    | insertPair _ _ _ _ _ => cases hX
    | insertOne _ _ _ => cases hX
    | removePair _ _ => cases hX
    | removeOne _ => cases hX
    | join _ _ => cases hX
    | split _ _ => cases hX
    | update _ _ => cases hX

/-- what `SetZ` shows to the callback, spelled out: same x, y as the point; z = the z of the first end point it coincides with (order `sb, st, cb, ct`), else `DefaultZ` -/
def Shown (dz : Int) (sb st cb ct ip seen : PtZ) : Prop :=
  seen.x = ip.x ∧ seen.y = ip.y ∧
  ((∃ w ∈ [sb, st, cb, ct], samePt ip w = true ∧ seen.z = w.z) ∨
   (samePt ip sb = false ∧ samePt ip st = false ∧ samePt ip cb = false ∧ samePt ip ct = false ∧ seen.z = dz))

theorem shown_pickZ (dz : Int) (a b c d ip : PtZ) : Shown dz a b c d ip { ip with z := pickZ ip a b c d dz } := by
  refine ⟨rfl, rfl, ?_⟩
  by_cases h : samePt ip a = true ∨ samePt ip b = true ∨ samePt ip c = true ∨ samePt ip d = true
  · left
    obtain ⟨w, hw, h1, h2⟩ := Clipper.Props.C15.pickZ_at_endpoint ip a b c d dz h
    exact ⟨w, hw, h1, h2⟩
  · right
    have ha : samePt ip a = false := by cases hh : samePt ip a <;> simp_all
    have hb : samePt ip b = false := by cases hh : samePt ip b <;> simp_all
    have hc : samePt ip c = false := by cases hh : samePt ip c <;> simp_all
    have hd : samePt ip d = false := by cases hh : samePt ip d <;> simp_all
    exact ⟨ha, hb, hc, hd, Clipper.Props.C15.pickZ_default ip a b c d dz ha hb hc hd⟩

/-- **ring_z_accounting** — the Z clause of C15 on the rings, with a callback `F` installed.  Every triple `q` of every ring either
(A) is, z included, the triple one of the events supplied by value: the input vertex of a vertex event (`insertPair`: `left_bound->bot`; `update`, `removePair`:
    `e.top`), or the `pt` handed to `CheckJoinLeft/Right` / `Split` (also the `Split`s inside `IntersectEdges`: an `IntersectEdges` event supplies a by-value triple
    only as the first point of the record a `Split` starts) — points that exist only when edges are collinear and touch, never in general position; or
(B) was passed to the callback and carries what the callback assigned: for an `IntersectEdges(e1, e2, pt)` event with edge end points `ends`, the callback's
    `k`-th call received `(sb, st, cb, ct)` = `(e1.bot, e1.top, e2.bot, e2.top)` if `e1` is a subject edge and `(e2.bot, e2.top, e1.bot, e1.top)` otherwise, and the
    point `seen` with `seen.x,y = pt.x,y` and `seen.z` = the z of the first of `sb, st, cb, ct` that `pt` coincides with, else `DefaultZ`; and
    `q = (pt.x, pt.y, F k sb st cb ct seen)`. -/
theorem ring_z_accounting (cfg : Cfg) (zc : ZCfg) (F : Nat → Callback) (hF : zc.cb = some F) (ops : List ZOp) (st : ZState)
    (hr : runZ cfg zc ZState.empty ops = .ok st) (g : ZRing) (hg : g ∈ st.z.rings) (q : PtZ) (hq : q ∈ g.pts) :
    ∃ op ∈ ops,
      (q = op.ptz ∧ ∀ i pt ends, op = .intersect i pt ends → ∃ e ∈ st.z.log, e.ptz = q ∧ e.kind = .new ∧ e.src = .given) ∨
      (∃ i pt ends k sb st' cb ct seen, op = .intersect i pt ends ∧
        ((sb, st', cb, ct) = (ends.e1bot, ends.e1top, ends.e2bot, ends.e2top) ∨ (sb, st', cb, ct) = (ends.e2bot, ends.e2top, ends.e1bot, ends.e1top)) ∧
        Shown zc.defaultZ sb st' cb ct pt seen ∧ q.x = pt.x ∧ q.y = pt.y ∧ q.z = F k sb st' cb ct seen) := by
  obtain ⟨e, he, _, h2, op, hop, h3⟩ := ring_z_provenance cfg zc ops st hr g hg q hq
  refine ⟨op, hop, ?_⟩
  rcases h3 with ⟨f1, f2, f3⟩ | ⟨F', k, subj, i, pt, ends, hF', rfl, _, f3⟩
  · left
    refine ⟨f2, ?_⟩
    intro i pt ends hop'
    subst hop'
    exact ⟨e, he, h2, f3 rfl (by rw [hF]; rfl), f1⟩
  · right
    rw [hF] at hF'; cases hF'
    have spec := Clipper.Props.C15.setZ_spec (F k) subj ends.e1bot ends.e1top ends.e2bot ends.e2top pt zc.defaultZ
    cases subj with
    | true =>
      simp only [if_true] at spec
      refine ⟨i, pt, ends, k, ends.e1bot, ends.e1top, ends.e2bot, ends.e2top, _, rfl, Or.inl rfl, shown_pickZ _ _ _ _ _ pt, ?_, ?_, ?_⟩
      · rw [f3, spec]
      · rw [f3, spec]
      · rw [f3, spec]
    | false =>
      simp only [Bool.false_eq_true, if_false] at spec
      refine ⟨i, pt, ends, k, ends.e2bot, ends.e2top, ends.e1bot, ends.e1top, _, rfl, Or.inr rfl, shown_pickZ _ _ _ _ _ pt, ?_, ?_, ?_⟩
      · rw [f3, spec]
      · rw [f3, spec]
      · rw [f3, spec]

/-- **ring_z_no_callback.** Without a callback every triple of every ring is, z included, the triple one of the events was handed: input vertices keep the input's z,
and a new vertex carries the z of the `pt` passed to `IntersectEdges` (in the C++ 0 for a computed point — not `DefaultZ`, which only `SetZ` reads). -/
theorem ring_z_no_callback (cfg : Cfg) (zc : ZCfg) (hF : zc.cb = none) (ops : List ZOp) (st : ZState)
    (hr : runZ cfg zc ZState.empty ops = .ok st) (g : ZRing) (hg : g ∈ st.z.rings) (q : PtZ) (hq : q ∈ g.pts) : ∃ op ∈ ops, q = op.ptz := by
  obtain ⟨e, _, _, _, op, hop, h3⟩ := ring_z_provenance cfg zc ops st hr g hg q hq
  refine ⟨op, hop, ?_⟩
  rcases h3 with ⟨_, f2, _⟩ | ⟨F', _, _, _, _, _, hF', _⟩
  · exact f2
  · rw [hF] at hF'; cases hF'

/-- **rings_conserve_triples.** Conservation for `(x, y, z)` triples after every event list: the triples in all rings (under construction, finished) together with
the triples that `SetZ` overwrote (`over` entries: `AddOutPt` returned the existing ring end because the new point had its x, y; `SetZ` then replaced that end's z)
are, as a multiset, exactly the triples stored by `new`, `added` and `over` emissions.  Nothing else creates, destroys or changes a triple:
`JoinOutrecPaths`, `SwapOutrecs`, ring closing and `Split` neither lose nor duplicate a point nor touch a z. -/
theorem rings_conserve_triples (cfg : Cfg) (zc : ZCfg) (ops : List ZOp) (st : ZState) (hr : runZ cfg zc ZState.empty ops = .ok st) :
    (allPtsZ st.z.rings ++ (st.z.log.filter (fun e => e.kind == .over)).map (·.old)).Perm ((st.z.log.filter ZEmit.stored).map (·.ptz)) :=
  (zinv_reachable cfg zc ops st hr).perm

/-- **z_not_touched_by_joins.** The operations that rearrange rings write no z:
(a) `JoinOutrecPaths` (`joinPathsZ`) and (b) ring closing `outrec.pts = result; UncoupleOutRec` with its rotation (`finishZ`) permute the triples of the rings and leave the
emission log, the callback counter and the callback log alone, in any state;
(c) a `CheckJoinLeft/Right` event on two different records — a bare `JoinOutrecPaths` — therefore keeps the multiset of ring triples and logs nothing;
(d) `SwapOutrecs` (`handOver`) and the segment log are ghost operations of the ring model: the Z effect of an event is computed from the side state and the Z rings only
(`eraseZ_step`: `st'.z = outStepZ cfg zc st.r.s st.z op`), so they cannot touch a z. -/
theorem z_not_touched_by_joins :
    (∀ A B f z, (allPtsZ (joinPathsZ A B f z).rings).Perm (allPtsZ z.rings) ∧ (joinPathsZ A B f z).log = z.log ∧ (joinPathsZ A B f z).ncb = z.ncb ∧ (joinPathsZ A B f z).calls = z.calls) ∧
    (∀ id f z, (allPtsZ (finishZ id f z).rings).Perm (allPtsZ z.rings) ∧ (finishZ id f z).log = z.log ∧ (finishZ id f z).ncb = z.ncb ∧ (finishZ id f z).calls = z.calls) ∧
    (∀ zc i pt s z a b rest ra rb, s.ael.drop i = a :: b :: rest → a.orec = some ra → b.orec = some rb → ra.id ≠ rb.id →
      (allPtsZ (joinOutZ zc i pt s z).rings).Perm (allPtsZ z.rings) ∧ (joinOutZ zc i pt s z).log = z.log) := by
  refine ⟨joinPathsZ_triples, finishZ_triples, ?_⟩
  intro zc i pt s z a b rest ra rb hd ha hb hne
  unfold joinOutZ
  simp only [hd, ha, hb, hne, if_false]
  split
  · exact ⟨(joinPathsZ_triples _ _ _ z).1, (joinPathsZ_triples _ _ _ z).2.1⟩
  · exact ⟨(joinPathsZ_triples _ _ _ z).1, (joinPathsZ_triples _ _ _ z).2.1⟩

/-- **callback_log_sound.** In every reachable state the recorded calls are numbered `ncb-1, …, 1, 0` (most recent first): the callback was called exactly `ncb` times;
every recorded answer is the family's answer `F k a b c d seen` to the recorded arguments (what the driver compares with the harness's log is what `setZ` passed);
every emission marked `setz k` refers to a call that was made; and without a callback there is no call. -/
theorem callback_log_sound (cfg : Cfg) (zc : ZCfg) (ops : List ZOp) (st : ZState) (hr : runZ cfg zc ZState.empty ops = .ok st) :
    st.z.calls.map (·.k) = (List.range st.z.ncb).reverse ∧
    (∀ c ∈ st.z.calls, ∃ F, zc.cb = some F ∧ c.ret = F c.k c.a c.b c.c c.d c.seen) ∧
    (∀ e ∈ st.z.log, ∀ k, e.src = .setz k → k < st.z.ncb) ∧
    (zc.cb = none → st.z.ncb = 0) := by
  have h := (zinv_reachable cfg zc ops st hr).calls
  refine ⟨h.1, h.2.1, h.2.2, ?_⟩
  intro hn
  cases hc : st.z.calls with
  | nil =>
    have := h.1; rw [hc] at this
    cases hk : st.z.ncb with
    | zero => rfl
    | succ n => rw [hk, List.range_succ] at this; simp at this
  | cons c t =>
    obtain ⟨F, hF, _⟩ := h.2.1 c (by rw [hc]; exact List.mem_cons_self)
    rw [hn] at hF; cases hF

/-! ## (3b) sweeps without joins — what general position gives -/

/-- the event list contains no `CheckJoinLeft/Right` event (edges never collinear and touching; on the general-position inputs of the harness no trace has one) -/
def NoJoins (ops : List ZOp) : Prop := ∀ op ∈ ops, ∀ i pt, op ≠ .join i pt

structure ZInvU (zc : ZCfg) (E : List ZOp) (st : ZState) : Prop where
  unj : Unj st.r.s.ael
  fromU : ∀ e ∈ st.z.log, ∃ op ∈ E, (op.vertexPt = some op.ptz ∨ op.isX = true) ∧ EmitFromU zc op.isX op.ends op.ptz e

theorem zinvU_step (cfg : Cfg) (zc : ZCfg) (E : List ZOp) (st st' : ZState) (op : ZOp) (hnj : ∀ i pt, op ≠ .join i pt) (h : ZInvU zc E st)
    (hs : stepZ cfg zc st op = .ok st') : ZInvU zc (op :: E) st' := by
  obtain ⟨h1, h2⟩ := eraseZ_step cfg zc st st' op hs
  have hS := (C01Rings.erase_ring_step cfg st.r st'.r op.erase h1).1
  have old : ∀ e ∈ st.z.log, ∃ op' ∈ op :: E, (op'.vertexPt = some op'.ptz ∨ op'.isX = true) ∧ EmitFromU zc op'.isX op'.ends op'.ptz e := by
    intro e he
    obtain ⟨op', hop', hf⟩ := h.fromU e he
    exact ⟨op', List.mem_cons_of_mem _ hop', hf⟩
  have emit : (op.vertexPt = some op.ptz ∨ op.isX = true) →
      ∀ e ∈ st'.z.log, ∃ op' ∈ op :: E, (op'.vertexPt = some op'.ptz ∨ op'.isX = true) ∧ EmitFromU zc op'.isX op'.ends op'.ptz e := by
    intro hk e he
    rw [h2] at he
    have := pres_outStepZ_unj cfg zc st.r.s st.z op _ (logFromU_prim st.z.log zc op.isX op.ends op.ptz) h.unj (fun e he => Or.inl he)
    rcases this e he with h' | h'
    · exact old e h'
    · exact ⟨op, List.mem_cons_self, hk, h'⟩
  cases op with
  | join i p => exact absurd rfl (hnj i p)
  | split i p =>
    exfalso
    simp only [ZOp.erase, ROp.erase] at hS
    simp only [stepS, splitS] at hS
    cases hx : st.r.s.ael[i]? with
    | none => simp [hx] at hS
    | some x => simp [hx, h.unj x (List.mem_of_getElem? hx)] at hS
  | insertOne pos t dx =>
    simp only [ZOp.erase, ROp.erase] at hS
    refine ⟨unj_stepS cfg _ _ _ (by intro i hh; cases hh) h.unj hS, ?_⟩
    rw [h2]; exact old
  | removeOne i =>
    simp only [ZOp.erase, ROp.erase] at hS
    refine ⟨unj_stepS cfg _ _ _ (by intro i hh; cases hh) h.unj hS, ?_⟩
    rw [h2]; exact old
  | insertPair pos t isOpen dx p =>
    simp only [ZOp.erase, ROp.erase] at hS
    exact ⟨unj_stepS cfg _ _ _ (by intro i hh; cases hh) h.unj hS, emit (Or.inl rfl)⟩
  | intersect i p e =>
    simp only [ZOp.erase, ROp.erase] at hS
    exact ⟨unj_stepS cfg _ _ _ (by intro i hh; cases hh) h.unj hS, emit (Or.inr rfl)⟩
  | removePair i p =>
    simp only [ZOp.erase, ROp.erase] at hS
    exact ⟨unj_stepS cfg _ _ _ (by intro i hh; cases hh) h.unj hS, emit (Or.inl rfl)⟩
  | update i p =>
    simp only [ZOp.erase, ROp.erase] at hS
    exact ⟨by rw [hS]; exact h.unj, emit (Or.inl rfl)⟩

theorem zinvU_run (cfg : Cfg) (zc : ZCfg) (ops : List ZOp) : ∀ (E : List ZOp) (st st' : ZState), NoJoins ops → ZInvU zc E st → runZ cfg zc st ops = .ok st' →
    ZInvU zc (ops.reverse ++ E) st' := by
  induction ops with
  | nil => intro E st st' _ h hr; simp only [runZ] at hr; cases hr; simpa using h
  | cons op ops ih =>
    intro E st st' hnj h hr
    simp only [runZ] at hr
    cases hs : stepZ cfg zc st op with
    | error e => simp [hs] at hr
    | ok st1 =>
      simp only [hs] at hr
      have := ih (op :: E) st1 st' (fun o ho => hnj o (List.mem_cons_of_mem _ ho))
        (zinvU_step cfg zc E st st1 op (hnj op List.mem_cons_self) h hs) hr
      simpa [List.append_assoc] using this

/-- **no_joins_no_split.** In a sweep without `CheckJoinLeft/Right` events no edge is ever joined: `IsJoined(e)` is false at every `Split` call site, so no record is ever
started by value inside `IntersectEdges` / `DoMaxima`. -/
theorem no_joins_no_split (cfg : Cfg) (zc : ZCfg) (ops : List ZOp) (st : ZState) (hnj : NoJoins ops) (hr : runZ cfg zc ZState.empty ops = .ok st) :
    ∀ x ∈ st.r.s.ael, x.join = .none := by
  have := zinvU_run cfg zc ops [] ZState.empty st hnj ⟨by intro x hx; simp [ZState.empty, RState.empty, SState.empty] at hx, by intro e he; simp [ZState.empty, ZOut.empty] at he⟩ hr
  exact this.unj

/-- **ring_z_accounting_no_joins** — the Z clause of C15 for sweeps without join events (general position), callback `F` installed: every triple `q` of every ring either
(A) is the input vertex of a vertex event — `left_bound->bot` of a local minimum, `e.top` of a passed vertex or of a maximum — **with the z the input gave it**, or
(B) was passed to the callback by the `SetZ` of an `IntersectEdges` event and carries the callback's answer; the callback was shown the end points subject edge first
and the point with the z of the first end point it coincides with, else `DefaultZ`.
No third case: in particular no vertex carries a z that was never supplied by the input or assigned by the callback. -/
theorem ring_z_accounting_no_joins (cfg : Cfg) (zc : ZCfg) (F : Nat → Callback) (hF : zc.cb = some F) (ops : List ZOp) (st : ZState) (hnj : NoJoins ops)
    (hr : runZ cfg zc ZState.empty ops = .ok st) (g : ZRing) (hg : g ∈ st.z.rings) (q : PtZ) (hq : q ∈ g.pts) :
    ∃ op ∈ ops,
      op.vertexPt = some q ∨
      (∃ i pt ends k sb st' cb ct seen, op = .intersect i pt ends ∧
        ((sb, st', cb, ct) = (ends.e1bot, ends.e1top, ends.e2bot, ends.e2top) ∨ (sb, st', cb, ct) = (ends.e2bot, ends.e2top, ends.e1bot, ends.e1top)) ∧
        Shown zc.defaultZ sb st' cb ct pt seen ∧ q.x = pt.x ∧ q.y = pt.y ∧ q.z = F k sb st' cb ct seen) := by
  have hU := zinvU_run cfg zc ops [] ZState.empty st hnj ⟨by intro x hx; simp [ZState.empty, RState.empty, SState.empty] at hx, by intro e he; simp [ZState.empty, ZOut.empty] at he⟩ hr
  obtain ⟨e, he, _, h2⟩ := (zinv_reachable cfg zc ops st hr).prov g hg q hq
  obtain ⟨op, hop, hk, hf⟩ := hU.fromU e he
  refine ⟨op, by simpa using hop, ?_⟩
  rcases hf with ⟨_, f2, f3⟩ | ⟨hX, F', k, subj, hF', _, f3⟩
  · left
    rcases hk with hk | hk
    · rw [hk, ← f2, h2]
    · rw [f3 hk] at hF; cases hF
  · right
    rw [hF] at hF'; cases hF'
    cases op with
    | intersect i pt ends =>
      have f3' : q = setZ (some (F k)) subj ends.e1bot ends.e1top ends.e2bot ends.e2top pt zc.defaultZ := by rw [← h2, f3]; rfl
      have spec := Clipper.Props.C15.setZ_spec (F k) subj ends.e1bot ends.e1top ends.e2bot ends.e2top pt zc.defaultZ
      cases subj with
      | true =>
        simp only [if_true] at spec
        exact ⟨i, pt, ends, k, ends.e1bot, ends.e1top, ends.e2bot, ends.e2top, _, rfl, Or.inl rfl, shown_pickZ _ _ _ _ _ pt, by rw [f3', spec], by rw [f3', spec], by rw [f3', spec]⟩
      | false =>
        simp only [Bool.false_eq_true, if_false] at spec
        exact ⟨i, pt, ends, k, ends.e2bot, ends.e2top, ends.e1bot, ends.e1top, _, rfl, Or.inr rfl, shown_pickZ _ _ _ _ _ pt, by rw [f3', spec], by rw [f3', spec], by rw [f3', spec]⟩
    | insertPair _ _ _ _ _ => cases hX
    | insertOne _ _ _ => cases hX
    | removePair _ _ => cases hX
    | removeOne _ => cases hX
    | join _ _ => cases hX
    | split _ _ => cases hX
    | update _ _ => cases hX

/-- **ring_z_no_callback_no_joins.** Sweeps without join events and without a callback: every ring triple is the input vertex of a vertex event with the input's z, or exactly the
`pt` — z included — that an `IntersectEdges` call was handed (in the C++ a computed point, z = 0). -/
theorem ring_z_no_callback_no_joins (cfg : Cfg) (zc : ZCfg) (hF : zc.cb = none) (ops : List ZOp) (st : ZState) (hnj : NoJoins ops)
    (hr : runZ cfg zc ZState.empty ops = .ok st) (g : ZRing) (hg : g ∈ st.z.rings) (q : PtZ) (hq : q ∈ g.pts) :
    ∃ op ∈ ops, op.vertexPt = some q ∨ ∃ i ends, op = .intersect i q ends := by
  have hU := zinvU_run cfg zc ops [] ZState.empty st hnj ⟨by intro x hx; simp [ZState.empty, RState.empty, SState.empty] at hx, by intro e he; simp [ZState.empty, ZOut.empty] at he⟩ hr
  obtain ⟨e, he, _, h2⟩ := (zinv_reachable cfg zc ops st hr).prov g hg q hq
  obtain ⟨op, hop, hk, hf⟩ := hU.fromU e he
  refine ⟨op, by simpa using hop, ?_⟩
  rcases hf with ⟨_, f2, _⟩ | ⟨_, F', _, _, hF', _⟩
  · rcases hk with hk | hk
    · left; rw [hk, ← f2, h2]
    · right
      cases op with
      | intersect i pt ends => exact ⟨i, ends, by rw [← h2, f2]; rfl⟩
      | insertPair _ _ _ _ _ => cases hk
      | insertOne _ _ _ => cases hk
      | removePair _ _ => cases hk
      | removeOne _ => cases hk
      | join _ _ => cases hk
      | split _ _ => cases hk
      | update _ _ => cases hk
  · rw [hF] at hF'; cases hF'

/-! ## (4) the executable checkers decide what the driver checks on every trace -/

theorem checkAgree_sound (st : ZState) (h : checkAgree st = true) : Agree st.z st.r.o := by
  unfold checkAgree at h
  simp only [Bool.and_eq_true, beq_iff_eq] at h
  exact h

theorem checkProv_sound (z : ZOut) (h : checkProv z = true) : ProvOK z := by
  unfold checkProv at h
  simp only [List.all_eq_true, List.any_eq_true, Bool.and_eq_true, beq_iff_eq] at h
  intro g hg q hq
  have : q ∈ allPtsZ z.rings := by simp only [allPtsZ, List.mem_flatMap]; exact ⟨g, hg, hq⟩
  obtain ⟨e, he, h1, h2⟩ := h q this
  exact ⟨e, he, h1, h2⟩

/-! ## (5) non-vacuity: the event list of a real trace (`harness/C15rings.cpp`, corpus.triangles), with z labels -/

def ringsOfZ (x : Except Err ZState) : Option (List (RStat × List PtZ)) := x.toOption.map (fun st => st.z.rings.map (fun g => (g.stat, g.pts)))

/-- subject triangle (0,0,z=3) (100,10,6) (40,90,9), clip triangle (50,-20,12) (130,60,15) (20,50,18): the events of the real sweep with the `bot`/`top` of the two
edges at every crossing -/
def trianglesZ : List ZOp :=
  [ .insertPair 0 .subject false 1 ⟨40, 90, 9⟩,
    .insertPair 2 .clip false 1 ⟨130, 60, 15⟩,
    .intersect 1 ⟨66, 54, 0⟩ ⟨⟨40, 90, 9⟩, ⟨100, 10, 6⟩, ⟨130, 60, 15⟩, ⟨20, 50, 18⟩⟩,
    .intersect 0 ⟨22, 50, 0⟩ ⟨⟨40, 90, 9⟩, ⟨0, 0, 3⟩, ⟨130, 60, 15⟩, ⟨20, 50, 18⟩⟩,
    .update 0 ⟨20, 50, 18⟩,
    .intersect 0 ⟨21, 47, 0⟩ ⟨⟨20, 50, 18⟩, ⟨50, -20, 12⟩, ⟨40, 90, 9⟩, ⟨0, 0, 3⟩⟩,
    .intersect 2 ⟨91, 21, 0⟩ ⟨⟨40, 90, 9⟩, ⟨100, 10, 6⟩, ⟨130, 60, 15⟩, ⟨50, -20, 12⟩⟩,
    .update 3 ⟨100, 10, 6⟩,
    .intersect 2 ⟨77, 7, 0⟩ ⟨⟨130, 60, 15⟩, ⟨50, -20, 12⟩, ⟨100, 10, 6⟩, ⟨0, 0, 3⟩⟩,
    .intersect 1 ⟨39, 3, 0⟩ ⟨⟨20, 50, 18⟩, ⟨50, -20, 12⟩, ⟨100, 10, 6⟩, ⟨0, 0, 3⟩⟩,
    .removePair 0 ⟨0, 0, 3⟩,
    .removePair 0 ⟨50, -20, 12⟩ ]

/-- a stateful callback: the `k`-th call answers `1000 + k` -/
def fresh : ZCfg := { cb := some (fun k _ _ _ _ _ => 1000 + (k : Int)), defaultZ := 7 }
/-- a callback that leaves the z it is shown -/
def keep : ZCfg := { cb := some (fun _ _ _ _ _ p => p.z), defaultZ := 7 }
def nocb : ZCfg := { cb := none, defaultZ := 7 }

/-- the triangles sweep has no join event (hypothesis of the `…_no_joins` theorems) -/
example : NoJoins trianglesZ := by
  intro op hop i pt h; subst h; revert hop; simp [trianglesZ]

/-- forgetting z the events are those of `C01Rings.triangles` -/
example : trianglesZ.map ZOp.erase = C01Rings.triangles := by decide

/-- the union with the counting callback: input vertices keep their z, the six crossings carry 1000 … 1005 in the order the callback was called -/
example : ringsOfZ (runZ ⟨.union, .nonZero⟩ fresh ZState.empty trianglesZ) =
    some [(.done, [⟨50, -20, 12⟩, ⟨39, 3, 1005⟩, ⟨0, 0, 3⟩, ⟨21, 47, 1002⟩, ⟨20, 50, 18⟩, ⟨22, 50, 1001⟩, ⟨40, 90, 9⟩, ⟨66, 54, 1000⟩, ⟨130, 60, 15⟩, ⟨91, 21, 1003⟩,
      ⟨100, 10, 6⟩, ⟨77, 7, 1004⟩]), (.gone, []), (.gone, [])] := by
  decide
/-- the same with the callback that keeps what it is shown: no crossing is at an end point, so all six carry `DefaultZ = 7` -/
example : ringsOfZ (runZ ⟨.union, .nonZero⟩ keep ZState.empty trianglesZ) =
    some [(.done, [⟨50, -20, 12⟩, ⟨39, 3, 7⟩, ⟨0, 0, 3⟩, ⟨21, 47, 7⟩, ⟨20, 50, 18⟩, ⟨22, 50, 7⟩, ⟨40, 90, 9⟩, ⟨66, 54, 7⟩, ⟨130, 60, 15⟩, ⟨91, 21, 7⟩, ⟨100, 10, 6⟩, ⟨77, 7, 7⟩]),
      (.gone, []), (.gone, [])] := by
  decide
/-- without a callback the crossings keep the z they were handed (0), not `DefaultZ` -/
example : ringsOfZ (runZ ⟨.union, .nonZero⟩ nocb ZState.empty trianglesZ) =
    some [(.done, [⟨50, -20, 12⟩, ⟨39, 3, 0⟩, ⟨0, 0, 3⟩, ⟨21, 47, 0⟩, ⟨20, 50, 18⟩, ⟨22, 50, 0⟩, ⟨40, 90, 9⟩, ⟨66, 54, 0⟩, ⟨130, 60, 15⟩, ⟨91, 21, 0⟩, ⟨100, 10, 6⟩, ⟨77, 7, 0⟩]),
      (.gone, []), (.gone, [])] := by
  decide
/-- the intersection: a hexagon of six callback values; the `AddLocalMaxPoly; AddLocalMinPoly` … cases call the callback once per `OutPt` -/
example : (runZ ⟨.intersection, .evenOdd⟩ fresh ZState.empty trianglesZ).toOption.map (fun st => (st.z.rings.map (·.pts), st.z.ncb, checkAgree st && checkProv st.z)) =
    some ([[⟨39, 3, 1005⟩, ⟨21, 47, 1002⟩, ⟨22, 50, 1001⟩, ⟨66, 54, 1000⟩, ⟨91, 21, 1003⟩, ⟨77, 7, 1004⟩]], 6, true) := by
  decide

/-- `AddOutPt`'s duplicate suppression followed by `SetZ`, at the level of the primitive: the front end of a ring is the input vertex `(10,10,z=5)`; an `IntersectEdges`
whose subject edge has `top = (10,10,5)` hands over `(10,10,0)`.  `AddOutPt` returns the old end; `SetZ` shows the callback z = 5 (the end point's z) and its answer
overwrites the 5 in the ring (`over`, old triple remembered) -/
example :
    let z0 : ZOut := { rings := [{ pts := [⟨10, 10, 5⟩, ⟨0, 0, 1⟩], stat := .live }], log := [], ncb := 0, calls := [] }
    let ends : ZEnds := ⟨⟨0, 0, 1⟩, ⟨10, 10, 5⟩, ⟨20, 0, 2⟩, ⟨0, 20, 4⟩⟩
    let z1 := addOutPtZ fresh ends 0 true (some true) ⟨10, 10, 0⟩ z0
    (z1.rings.map (·.pts), z1.log.map (fun e => (e.ptz, e.kind, e.old)), z1.calls.map (fun c => (c.seen, c.ret))) =
      ([[⟨10, 10, 1000⟩, ⟨0, 0, 1⟩]], [(⟨10, 10, 1000⟩, .over, ⟨10, 10, 5⟩)], [(⟨10, 10, 5⟩, 1000)]) := by
  decide
/-- the same without a callback: the duplicate is dropped with its z, the ring keeps the 5 -/
example :
    let z0 : ZOut := { rings := [{ pts := [⟨10, 10, 5⟩, ⟨0, 0, 1⟩], stat := .live }], log := [], ncb := 0, calls := [] }
    let z1 := addOutPtZ nocb ZEnds.none 0 true (some true) ⟨10, 10, 0⟩ z0
    (z1.rings.map (·.pts), z1.log.map (fun e => (e.ptz, e.kind))) = ([[⟨10, 10, 5⟩, ⟨0, 0, 1⟩]], [(⟨10, 10, 0⟩, .dup)]) := by
  decide

end Clipper.Props.C15Rings
