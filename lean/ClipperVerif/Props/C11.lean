/-
C11 — invalid arguments are reported.  Theorems about `Gen.CheckPrecisionRange` (regenerated from source each run)
and about the hand models of the wrappers' control frames (`Model/Errors.lean`, tied by correspondence in both
exception configurations).  The "Execute always returns true" clause is decided by correspondence (every harness
asserts it on every execution); the export-layer clause is in Props/C17.
-/
import ClipperVerif.Model.Errors
namespace Clipper.Props.C11
open Clipper.Gen Clipper.Model.Errors

def badPrecision (p : Int) : Prop := p < -8 ∨ p > 8

/-- in range: no error, precision and error code untouched — in both exception configurations -/
theorem checkPrecision_ok (exc : Bool) (p ec : Int) (h : ¬ badPrecision p) :
    CheckPrecisionRange exc p ec = .ok (p, ec) := by
  unfold badPrecision at h
  simp only [CheckPrecisionRange]
  have : (decide (p ≥ -8) && decide (p ≤ 8)) = true := by simp; omega
  simp [this]

/-- out of range with exceptions: thrown as `precision_error_i` (= 1) -/
theorem checkPrecision_throws (p ec : Int) (h : badPrecision p) :
    CheckPrecisionRange true p ec = .error 1 := by
  unfold badPrecision at h
  simp only [CheckPrecisionRange]
  have : (decide (p ≥ -8) && decide (p ≤ 8)) = false := by
    rw [Bool.eq_false_iff]; simp; omega
  simp [this]

/-- out of range without exceptions: the error bit is set and the precision clamped to ±8 -/
theorem checkPrecision_flags (p : Int) (h : badPrecision p) :
    CheckPrecisionRange false p 0 = .ok (if p > 0 then 8 else -8, 1) := by
  unfold badPrecision at h
  simp only [CheckPrecisionRange]
  have : (decide (p ≥ -8) && decide (p ≤ 8)) = false := by
    rw [Bool.eq_false_iff]; simp; omega
  simp [this, intOr]

/-- **precision_reported**: every modelled entry point that checks the precision reports a bad one
(exception, or empty result with exceptions disabled) — whatever the other arguments. -/
theorem precision_reported_boolean (exc : Bool) (p : Int) (o1 o2 : Bool) (h : badPrecision p) :
    (booleanOpD exc p o1 o2).reported = true := by
  cases exc
  · simp [booleanOpD, checkPrecision_flags p h, Outcome.reported]
  · simp [booleanOpD, checkPrecision_throws p 0 h, Outcome.reported]

theorem precision_reported_rectclip (exc : Bool) (p : Int) (re pe o : Bool) (h : badPrecision p) :
    (rectClipD exc p re pe o).reported = true := by
  cases exc <;> cases re <;> cases pe <;>
    simp [rectClipD, checkPrecision_flags p h, checkPrecision_throws p 0 h, Outcome.reported]

theorem precision_reported_trim (exc : Bool) (p : Int) (o : Bool) (h : badPrecision p) :
    (trimCollinearD exc p o).reported = true := by
  cases exc
  · simp [trimCollinearD, checkPrecision_flags p h, Outcome.reported]
  · simp [trimCollinearD, checkPrecision_throws p 0 h, Outcome.reported]

theorem precision_reported_inflate (exc : Bool) (p : Int) (dz o : Bool) (h : badPrecision p) :
    (inflatePathsD exc p dz o).reported = true := by
  cases exc
  · simp [inflatePathsD, checkPrecision_flags p h, Outcome.reported]
  · simp [inflatePathsD, checkPrecision_throws p 0 h, Outcome.reported]

theorem precision_reported_minkowski (exc : Bool) (p : Int) (o : Bool) (h : badPrecision p) :
    (minkowskiD exc p o).reported = true := by
  cases exc
  · simp [minkowskiD, checkPrecision_flags p h, Outcome.reported]
  · simp [minkowskiD, checkPrecision_throws p 0 h, Outcome.reported]

/-- **range_reported** for the entry points that scale with `ScalePaths` -/
theorem range_reported_inflate (exc : Bool) (p : Int) (h : ¬ badPrecision p) :
    (inflatePathsD exc p false true).reported = true := by
  simp [inflatePathsD, checkPrecision_ok exc p 0 h, scalePaths]; cases exc <;> simp [Outcome.reported]

theorem range_reported_rectclip (exc : Bool) (p : Int) (h : ¬ badPrecision p) :
    (rectClipD exc p false false true).reported = true := by
  simp [rectClipD, checkPrecision_ok exc p 0 h, scalePaths]; cases exc <;> simp [Outcome.reported]

theorem range_reported_trim (exc : Bool) (p : Int) (h : ¬ badPrecision p) :
    (trimCollinearD exc p true).reported = true := by
  simp [trimCollinearD, checkPrecision_ok exc p 0 h, scalePath]; cases exc <;> simp [Outcome.reported]

theorem range_reported_minkowski (exc : Bool) (p : Int) (h : ¬ badPrecision p) :
    (minkowskiD exc p true).reported = true := by
  simp [minkowskiD, checkPrecision_ok exc p 0 h, scalePath]; cases exc <;> simp [Outcome.reported]

/-- valid arguments are never reported as errors: the operation runs at the requested precision -/
theorem valid_runs (exc : Bool) (p : Int) (h : ¬ badPrecision p) :
    booleanOpD exc p false false = .ran p ∧ inflatePathsD exc p false false = .ran p
    ∧ rectClipD exc p false false false = .ran p ∧ trimCollinearD exc p false = .ran p
    ∧ minkowskiD exc p false = .ran p := by
  simp [booleanOpD, inflatePathsD, rectClipD, trimCollinearD, minkowskiD, scalePaths, scalePath,
    checkPrecision_ok exc p 0 h]

/-- ClipperD constructor: bad precision throws, or leaves `precision_error_i` in `ErrorCode()` -/
theorem clipperD_ctor_reports (p : Int) (h : badPrecision p) :
    clipperDCtor true p = .error 1 ∧ clipperDCtor false p = .ok 1 := by
  simp [clipperDCtor, checkPrecision_throws p 0 h, checkPrecision_flags p h]

theorem clipperD_ctor_ok (exc : Bool) (p : Int) (h : ¬ badPrecision p) : clipperDCtor exc p = .ok 0 := by
  simp [clipperDCtor, checkPrecision_ok exc p 0 h]

/-- zero scale and odd coordinate counts are reported by exception -/
theorem zero_scale_reported (sx sy : Int) (h : sx = 0 ∨ sy = 0) : scalePathZero true sx sy = .threw 2 := by
  simp [scalePathZero, h]
theorem non_pair_reported (n : Nat) (h : n % 2 = 1) : makePath true n = .error 4 := by
  simp [makePath, h]

-- non-vacuity
example : badPrecision 9 ∧ badPrecision (-9) ∧ ¬ badPrecision 8 ∧ ¬ badPrecision (-8) := by
  unfold badPrecision; omega
example : booleanOpD true 9 false false = .threw 1 ∧ booleanOpD false (-12) false false = .empty
    ∧ booleanOpD true 3 false false = .ran 3 := by decide

end Clipper.Props.C11
