/-
C18 — geometric predicates are exact and measurements accurate (part 2: PointInPolygon, Area,
GetSegmentIntersectPt).  Theorems about the hand-written models of `Model/Geom.lean`, which the harness
`harness/C18.cpp` + `harness/C18_geom.inc` ties to the compiled code (output-level correspondence) on every run.
Helper lemmas: `Lemmas/GeomBasic.lean`, `Lemmas/PipScan.lean`, `Lemmas/PipRefine.lean`.
-/
import ClipperVerif.Lemmas.PipRefine
namespace Clipper.Props.C18Geom
open Clipper Clipper.Model Clipper.Lemmas.Geom

/-! ## PointInPolygon -/

/-- **Termination and memory safety of `PointInPolygon`.**  For every point and every vertex list the model
returns a result: the outer `while (true)` loop ends within the `2·n + 4` iterations of fuel it is given, the two
inner loops end, and no iterator is dereferenced outside the vector (`none` would be such a fault). -/
theorem pip_total (p : Pt) (poly : Path) : ∃ r, pointInPolygonX p poly = some r := by
  by_cases hn : poly.length < 3
  · exact ⟨.isOutside, by simp [pointInPolygonX, pointInPolygonG, hn]⟩
  · by_cases hfirst : findFirst p.y poly = poly.length
    · exact ⟨.isOutside, by simp [pointInPolygonX, pointInPolygonG, hn, hfirst]⟩
    · have hlt : findFirst p.y poly < poly.length := by have := findFirst_le p.y poly; omega
      exact ⟨_, pointInPolygonG_eq_cyc crossProduct p poly _ (by omega) (List.getElem?_eq_getElem hlt)⟩

/-- the total wrapper returns exactly what the fault-aware model returns -/
theorem pointInPolygon_eq (p : Pt) (poly : Path) : pointInPolygonX p poly = some (pointInPolygon p poly) := by
  obtain ⟨r, hr⟩ := pip_total p poly
  simp [pointInPolygon, hr]

/-- **`PointInPolygon` is the even-odd rule, exactly.**  For every polygon with at least three vertices that has a
vertex off the horizontal line through the point (in particular: every polygon not contained in a single horizontal
line), the result code (0 = IsOn, 1 = IsInside, 2 = IsOutside) is `Spec.pipEvenOdd`: IsOn iff the point lies on a
closed edge, otherwise IsInside iff the number of half-open crossings of the ray towards +x is odd.
Coordinates are unbounded integers here; the C++ evaluates `CrossProduct` in doubles, which is exact for
|coordinates| ≤ 2^25 (`crossProduct_fits_double`, trusted IEEE fact) — that is where the 2^25 of the property enters. -/
theorem pointInPolygon_exact (p : Pt) (poly : Path) (hn : 3 ≤ poly.length) (hoff : ∃ v ∈ poly, v.y ≠ p.y) :
    pipCode (pointInPolygon p poly) = pipEvenOdd poly p := by
  have hle := findFirst_le p.y poly
  have hlt : findFirst p.y poly < poly.length := by
    rcases Nat.lt_or_ge (findFirst p.y poly) poly.length with h | h
    · exact h
    · obtain ⟨v, hv, hvy⟩ := hoff
      exact absurd (findFirst_eq_length (by omega) v hv) hvy
  have hf : poly[findFirst p.y poly]? = some poly[findFirst p.y poly] := List.getElem?_eq_getElem hlt
  have hcyc := pointInPolygonG_eq_cyc crossProduct p poly _ hn hf
  have hfy := findFirst_at p.y poly _ hf
  have hx : pointInPolygon p poly = pipCyc crossProduct p poly[findFirst p.y poly]
      (seg poly (findFirst p.y poly + 1) poly.length ++ seg poly 0 (findFirst p.y poly)) := by
    have := pointInPolygon_eq p poly
    rw [pointInPolygonX, hcyc] at this
    exact (Option.some.inj this).symm
  rw [hx, pipCyc_spec _ hfy]
  have e1 : poly[findFirst p.y poly] :: (seg poly (findFirst p.y poly + 1) poly.length ++ seg poly 0 (findFirst p.y poly))
      = seg poly (findFirst p.y poly) poly.length ++ seg poly 0 (findFirst p.y poly) := by
    rw [seg_cons hlt hf]; rfl
  rw [e1, pipEvenOdd_rotate, ← seg_split poly (Nat.zero_le _) hle (Nat.le_refl _), seg_full]

/-- IsOn iff the point lies on a closed edge of the polygon -/
theorem pointInPolygon_on_iff (p : Pt) (poly : Path) (hn : 3 ≤ poly.length) (hoff : ∃ v ∈ poly, v.y ≠ p.y) :
    pointInPolygon p poly = .isOn ↔ onBoundary poly p = true := by
  have h := pointInPolygon_exact p poly hn hoff
  simp only [pipEvenOdd] at h
  cases hb : onBoundary poly p <;> cases hr : pointInPolygon p poly <;> simp [hb, hr, pipCode] at h ⊢ <;>
    (split at h <;> omega)

/-- off the boundary: IsInside iff the crossing number of the ray is odd -/
theorem pointInPolygon_inside_iff (p : Pt) (poly : Path) (hn : 3 ≤ poly.length) (hoff : ∃ v ∈ poly, v.y ≠ p.y)
    (hb : onBoundary poly p = false) :
    pointInPolygon p poly = .isInside ↔ windPath poly p % 2 ≠ 0 := by
  have h := pointInPolygon_exact p poly hn hoff
  simp only [pipEvenOdd, hb] at h
  cases hr : pointInPolygon p poly <;> simp [hr, pipCode] at h ⊢ <;>
    first | assumption | (split at h <;> omega) | omega

/-- the inputs the property excludes: fewer than three vertices, or every vertex on the horizontal line through the
point — the code answers IsOutside whatever the geometry (so a point *on* a degenerate horizontal polygon is
reported outside; this is why the property excludes them) -/
theorem pointInPolygon_degenerate (p : Pt) (poly : Path) (h : poly.length < 3 ∨ ∀ v ∈ poly, v.y = p.y) :
    pointInPolygon p poly = .isOutside := by
  have he := pointInPolygon_eq p poly
  by_cases hn : poly.length < 3
  · simp [pointInPolygonX, pointInPolygonG, hn] at he; exact he.symm
  · have hall : ∀ v ∈ poly, v.y = p.y := by rcases h with h | h; exact absurd h hn; exact h
    have hfirst : findFirst p.y poly = poly.length := by
      have hle := findFirst_le p.y poly
      rcases Nat.lt_or_ge (findFirst p.y poly) poly.length with hlt | hge
      · have hf := List.getElem?_eq_getElem hlt
        exact absurd (hall _ (List.getElem_mem hlt)) (findFirst_at p.y poly _ hf)
      · omega
    simp [pointInPolygonX, pointInPolygonG, hn, hfirst] at he; exact he.symm

-- non-vacuity of `pointInPolygon_degenerate`: a "polygon" on one horizontal line with the point on it
example : ∀ v ∈ ([⟨0,3⟩, ⟨5,3⟩, ⟨9,3⟩] : Path), v.y = (⟨2,3⟩ : Pt).y := by decide

-- non-vacuity: a concave hexagon with two vertices and a horizontal edge on the line through the query points;
-- the hypotheses hold and the three possible answers all occur
example : let poly : Path := [⟨0,0⟩, ⟨4,0⟩, ⟨4,2⟩, ⟨2,2⟩, ⟨2,4⟩, ⟨0,4⟩]
    3 ≤ poly.length ∧ (∃ v ∈ poly, v.y ≠ (2 : Int)) ∧ pipCode (pointInPolygon ⟨1,2⟩ poly) = 1 ∧
    pipCode (pointInPolygon ⟨3,2⟩ poly) = 0 ∧ pipCode (pointInPolygon ⟨5,2⟩ poly) = 2 := by
  intro poly
  have h1 : 3 ≤ poly.length := by decide
  have h2 : ∃ v ∈ poly, v.y ≠ (2 : Int) := by decide
  refine ⟨h1, h2, ?_, ?_, ?_⟩
  · rw [pointInPolygon_exact ⟨1,2⟩ poly h1 h2]; decide
  · rw [pointInPolygon_exact ⟨3,2⟩ poly h1 h2]; decide
  · rw [pointInPolygon_exact ⟨5,2⟩ poly h1 h2]; decide

-- the extra hypothesis of `pointInPolygon_inside_iff` (off the boundary) holds for the inside point above
example : onBoundary [⟨0,0⟩, ⟨4,0⟩, ⟨4,2⟩, ⟨2,2⟩, ⟨2,4⟩, ⟨0,4⟩] ⟨1,2⟩ = false := by decide


/-- In the range of the property (|coordinates| ≤ 2^25) every intermediate of `CrossProduct(pt1,pt2,pt3)` is an integer
of magnitude ≤ 2^53: the four differences ≤ 2^26, the two products ≤ 2^52, the result ≤ 2^53.  All of these are
exactly representable doubles, so (trusted IEEE-754 fact) the double computation returns the integer value
`crossProduct` and the tests `d == 0`, `d < 0` are exact. -/
theorem crossProduct_fits_double (a b c : Pt)
    (ha : a.x.natAbs ≤ 2^25 ∧ a.y.natAbs ≤ 2^25) (hb : b.x.natAbs ≤ 2^25 ∧ b.y.natAbs ≤ 2^25)
    (hc : c.x.natAbs ≤ 2^25 ∧ c.y.natAbs ≤ 2^25) :
    (b.x - a.x).natAbs ≤ 2^26 ∧ (c.y - b.y).natAbs ≤ 2^26 ∧ (b.y - a.y).natAbs ≤ 2^26 ∧ (c.x - b.x).natAbs ≤ 2^26 ∧
    ((b.x - a.x) * (c.y - b.y)).natAbs ≤ 2^52 ∧ ((b.y - a.y) * (c.x - b.x)).natAbs ≤ 2^52 ∧
    (crossProduct a b c).natAbs ≤ 2^53 := by
  have d1 : (b.x - a.x).natAbs ≤ 2^26 := diff26 hb.1 ha.1
  have d2 : (c.y - b.y).natAbs ≤ 2^26 := diff26 hc.2 hb.2
  have d3 : (b.y - a.y).natAbs ≤ 2^26 := diff26 hb.2 ha.2
  have d4 : (c.x - b.x).natAbs ≤ 2^26 := diff26 hc.1 hb.1
  have p1 : ((b.x - a.x) * (c.y - b.y)).natAbs ≤ 2^52 := by
    exact mul26 d1 d2
  have p2 : ((b.y - a.y) * (c.x - b.x)).natAbs ≤ 2^52 := by
    exact mul26 d3 d4
  refine ⟨d1, d2, d3, d4, p1, p2, ?_⟩
  simp only [crossProduct]
  exact sub53 p1 p2

example : ∃ a b c : Pt, (a.x.natAbs ≤ 2^25 ∧ a.y.natAbs ≤ 2^25) ∧ (b.x.natAbs ≤ 2^25 ∧ b.y.natAbs ≤ 2^25) ∧
    (c.x.natAbs ≤ 2^25 ∧ c.y.natAbs ≤ 2^25) ∧ (crossProduct a b c).natAbs = 2^52 :=
  ⟨⟨-2^25, -2^25⟩, ⟨2^25, 2^25⟩, ⟨-2^25, 2^25⟩, by decide⟩

/-! ## Area -/

/-- **`Area` equals the shoelace sum, for every length and parity.**  The two-at-a-time iterator loop of
`Area(const Path64&)` (with its `stop` adjustment for even counts and the trailing term for odd counts) never runs
an iterator out of range (`some`), and the value of `a` before the final `* 0.5` is exactly
`Spec.shoelace2 path = Σ (x_i·y_{i+1} − x_{i+1}·y_i)` — positive for counter-clockwise paths in a y-up frame —
and 0 for fewer than three points.  Over the integers; the compiled code evaluates the same sum in doubles, so it
agrees "to double rounding" (checked per run by `SPEC_AREA` with the standard forward error bound). -/
theorem area_eq_shoelace (path : Path) :
    area2X path = some (if path.length < 3 then 0 else shoelace2 path) := by
  unfold area2X
  split
  · rfl
  · cases path with
    | nil => simp at *
    | cons a rest =>
      rw [getLast?_cons_eq_lastOf]
      simp only
      rw [areaGo_eq _ _ _ _ rfl, areaSum_eq, shoelace2_eq_shoeSum]
      have : lastOf (lastOf a rest) (a :: rest) = lastOf a rest := by simp
      rw [this]; simp

/-! ## GetSegmentIntersectPt (idealised: exact arithmetic instead of doubles) -/

/-- **Parallelism is reported exactly** (idealised model): `false` is returned iff the two direction vectors are
parallel, i.e. their cross product vanishes (this includes zero-length segments). -/
theorem gsip_parallel_exact (a b c d : Pt) :
    gsipIdeal a b c d = none ↔ (b.x - a.x) * (d.y - c.y) = (b.y - a.y) * (d.x - c.x) := by
  have hdet : gsipDet a b c d = 0 ↔ (b.x - a.x) * (d.y - c.y) = (b.y - a.y) * (d.x - c.x) := by
    have : (d.y - c.y) * (b.x - a.x) = (b.x - a.x) * (d.y - c.y) := Int.mul_comm _ _
    simp only [gsipDet]; omega
  rw [← hdet]
  unfold gsipIdeal
  by_cases hd : gsipDet a b c d = 0
  · simp [hd]
  · simp only [hd, if_false]
    constructor
    · intro h; split at h
      · cases h
      · split at h <;> cases h
    · intro h; exact absurd h (by simp)

/-- In the range |coordinates| ≤ 2^25 the determinant and the numerator of `t` are integers of magnitude ≤ 2^53
whose sub-products are ≤ 2^52: the double computation of `det` and of the numerator is exact (trusted IEEE fact), so
the compiled `det == 0.0` test *is* the exact parallelism test of `gsip_parallel_exact`. -/
theorem gsip_fits_double (a b c d : Pt)
    (ha : a.x.natAbs ≤ 2^25 ∧ a.y.natAbs ≤ 2^25) (hb : b.x.natAbs ≤ 2^25 ∧ b.y.natAbs ≤ 2^25)
    (hc : c.x.natAbs ≤ 2^25 ∧ c.y.natAbs ≤ 2^25) (hd : d.x.natAbs ≤ 2^25 ∧ d.y.natAbs ≤ 2^25) :
    (gsipDet a b c d).natAbs ≤ 2^53 ∧ (gsipNum a b c d).natAbs ≤ 2^53 := by
  have p1 : ((b.y - a.y) * (d.x - c.x)).natAbs ≤ 2^52 := mul26 (diff26 hb.2 ha.2) (diff26 hd.1 hc.1)
  have p2 : ((d.y - c.y) * (b.x - a.x)).natAbs ≤ 2^52 := mul26 (diff26 hd.2 hc.2) (diff26 hb.1 ha.1)
  have p3 : ((a.x - c.x) * (d.y - c.y)).natAbs ≤ 2^52 := mul26 (diff26 ha.1 hc.1) (diff26 hd.2 hc.2)
  have p4 : ((a.y - c.y) * (d.x - c.x)).natAbs ≤ 2^52 := mul26 (diff26 ha.2 hc.2) (diff26 hd.1 hc.1)
  simp only [gsipDet, gsipNum]
  exact ⟨sub53 p1 p2, sub53 p3 p4⟩

example : ∃ a b c d : Pt, (a.x.natAbs ≤ 2^25 ∧ a.y.natAbs ≤ 2^25) ∧ (b.x.natAbs ≤ 2^25 ∧ b.y.natAbs ≤ 2^25) ∧
    (c.x.natAbs ≤ 2^25 ∧ c.y.natAbs ≤ 2^25) ∧ (d.x.natAbs ≤ 2^25 ∧ d.y.natAbs ≤ 2^25) ∧
    (gsipDet a b c d).natAbs = 2^53 :=
  ⟨⟨-2^25, -2^25⟩, ⟨2^25, 2^25⟩, ⟨-2^25, 2^25⟩, ⟨2^25, -2^25⟩, by decide⟩

/-- The exact crossing point `P = a + t·(b − a)`, `t = num/det`, written without division as `det·P`:
it lies on the line through `c d` (and on the line through `a b` by construction). -/
theorem gsip_ideal_point_on_both_lines (a b c d : Pt) :
    let det := gsipDet a b c d
    let num := gsipNum a b c d
    let px := det * a.x + num * (b.x - a.x)      -- det · P.x
    let py := det * a.y + num * (b.y - a.y)      -- det · P.y
    (d.x - c.x) * (py - det * c.y) - (d.y - c.y) * (px - det * c.x) = 0 ∧
    (b.x - a.x) * (py - det * a.y) - (b.y - a.y) * (px - det * a.x) = 0 := by
  simp only [gsipDet, gsipNum]
  constructor <;> grind

/-- **The returned point** (idealised model; `det`, `num` are the exact determinant and numerator of `t`).
Whenever an intersection is reported, the result `ip` is
* the end point `a` if `t ≤ 0`, the end point `b` if `t ≥ 1` (both on segment 1), and otherwise
* the truncation of the exact crossing point `P` (`det·P = (px, py)` of `gsip_ideal_point_on_both_lines`, which
  lies on both lines, with `0 < t < 1`, i.e. on segment 1): `|ip.x − P.x| < 1`, `|ip.y − P.y| < 1` (stated times
  `|det|`), and `ip` stays inside the bounding box of segment 1. -/
theorem gsip_on_segment (a b c d ip : Pt) (h : gsipIdeal a b c d = some ip)
    (det num : Int) (hdet : det = gsipDet a b c d) (hnum : num = gsipNum a b c d) :
    (num * det ≤ 0 ∧ ip = a) ∨ (det * det ≤ num * det ∧ ip = b) ∨
    (0 < num * det ∧ num * det < det * det ∧
      (det * ip.x - (det * a.x + num * (b.x - a.x))).natAbs < det.natAbs ∧
      (det * ip.y - (det * a.y + num * (b.y - a.y))).natAbs < det.natAbs ∧
      min a.x b.x ≤ ip.x ∧ ip.x ≤ max a.x b.x ∧ min a.y b.y ≤ ip.y ∧ ip.y ≤ max a.y b.y) := by
  simp only [gsipIdeal, ← hdet, ← hnum] at h
  by_cases hd0 : det = 0
  · rw [if_pos hd0] at h; cases h
  · rw [if_neg hd0] at h
    by_cases h1 : num * det ≤ 0
    · rw [if_pos h1] at h; exact Or.inl ⟨h1, (Option.some.inj h).symm⟩
    · rw [if_neg h1] at h
      by_cases h2 : num * det ≥ det * det
      · rw [if_pos h2] at h; exact Or.inr (Or.inl ⟨h2, (Option.some.inj h).symm⟩)
      · rw [if_neg h2] at h
        have hip := (Option.some.inj h).symm
        subst hip
        refine Or.inr (Or.inr ⟨by omega, by omega, ?_⟩)
        simp only
        have hpos : 0 < num * det := by omega
        have hlt : num * det < det * det := by omega
        have hdet' : det ≠ 0 := hd0
        have key : ∀ (u du : Int),
            (det * (det * u + num * du).tdiv det - (det * u + num * du)).natAbs < det.natAbs ∧
            min u (u + du) ≤ (det * u + num * du).tdiv det ∧ (det * u + num * du).tdiv det ≤ max u (u + du) := by
          intro u du
          have hq := Int.mul_tdiv_add_tmod (det * u + num * du) det
          have hr : ((det * u + num * du).tmod det).natAbs < det.natAbs := by
            rw [Int.natAbs_tmod]; exact Nat.mod_lt _ (by omega)
          refine ⟨by omega, ?_⟩
          rcases Int.le_total 0 du with hdu | hdu
          · have hb := trunc_between (lo := u) (hi := u + du) hdet' hq hr
              (by have e : (det * u + num * du - det * u) * det = num * det * du := by grind
                  rw [e]; exact Int.mul_nonneg (Int.le_of_lt hpos) hdu)
              (by have e : (det * (u + du) - (det * u + num * du)) * det = (det * det - num * det) * du := by grind
                  rw [e]; exact Int.mul_nonneg (by omega) hdu)
            omega
          · have hb := trunc_between (lo := u + du) (hi := u) hdet' hq hr
              (by have e : (det * u + num * du - det * (u + du)) * det = (det * det - num * det) * (-du) := by grind
                  rw [e]; exact Int.mul_nonneg (by omega) (by omega))
              (by have e : (det * u - (det * u + num * du)) * det = num * det * (-du) := by grind
                  rw [e]; exact Int.mul_nonneg (Int.le_of_lt hpos) (by omega))
            omega
        have kx := key a.x (b.x - a.x)
        have ky := key a.y (b.y - a.y)
        have ex : a.x + (b.x - a.x) = b.x := by omega
        have ey : a.y + (b.y - a.y) = b.y := by omega
        rw [ex] at kx; rw [ey] at ky
        exact ⟨kx.1, ky.1, kx.2.1, kx.2.2, ky.2.1, ky.2.2⟩

-- non-vacuity: a proper crossing whose exact point (10/3, 10/3) is not a lattice point, and a parallel pair
example : gsipIdeal ⟨0,0⟩ ⟨10,10⟩ ⟨0,5⟩ ⟨10,0⟩ = some ⟨3,3⟩ ∧ gsipIdeal ⟨0,0⟩ ⟨4,2⟩ ⟨1,1⟩ ⟨7,4⟩ = none := by decide

end Clipper.Props.C18Geom
