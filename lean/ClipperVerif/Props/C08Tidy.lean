/-
Property C08, second half of `RectClip64`: theorems about `CheckEdges`, `TidyEdges`, `GetPath` and the whole per-path body of
`RectClip64::Execute`, on the pointer-level model `Model/RectClipTidy.lean` (tied to the compiled code bit for bit, stage by
stage, by the `RCTIDY` records of harness/C08tidy.cpp).

Well-formedness.  `RingsWF h ring` (Lemmas/RectClipTidyWF.lean): `ring s` lists, in `next` order, the nodes of the ring that
`results_[s]` points into (`[]` for a null slot); rings are doubly linked cycles without repetition, a slot points into its own
ring, every node of ring `s` has `owner_idx = s` — hence no two slots point into the same ring — and all ring nodes are nodes of
`op_container_`.  `TInv h ring` adds: every non-null entry of every edge list `edges_[e]` is a node of a live ring.
(The *back pointer* `op->edge` of an entry does NOT always point to the list that holds it once `TidyEdges` has run: `cw[i] = op`
moves a node between the two lists of a side without touching `op->edge`; the model and the code agree on that, see the
correspondence harness, and nothing below depends on it.)

What is proved here: the heap `ExecuteInternal` leaves is well-formed (`rawHeap_wf`); `CheckEdges` (`checkEdges_points`),
every `TidyEdges` call (`tidyEdges_points`, `tidyEdges_results_invariant`) and every `GetPath` call (`getPath_shape`) keep it
well-formed, create or move no point, and what they do to the rings; the only fault any of them can raise on a well-formed heap
is running out of loop fuel (`*_no_fault`); and they do not: `checkEdges_terminates`, `getPath_terminates`,
`tidyEdges_terminates` (with the measures; the invariant `EdgesOK` of the edge lists that the measure of `TidyEdges` needs is
established by `CheckEdges`: `checkEdges_establishes_edgesOK`); composition with the automaton theorems:
`rectClip_points_in_rect`, `rectClipFull_total`, `rectClip_final`.
-/
import ClipperVerif.Lemmas.RectClipTidyEstab
import ClipperVerif.Lemmas.RectClipTidyWind
import ClipperVerif.Props.C08Complete
namespace Clipper.Props.C08Tidy
open Clipper Clipper.Model.RC Clipper.Model.RCT Clipper.Lemmas.RCT Clipper.Lemmas.RC Clipper.Lemmas.RCA Clipper.Lemmas.RCE Clipper.Lemmas.RCC Clipper.Props.C08

/-- **Well-formed heap**: some assignment of ring lists to the slots of `results_` satisfies `TInv` -/
def WF (h : Heap) : Prop := ∃ ring, TInv h ring

/-! ## 1. the heap `ExecuteInternal` leaves behind -/

/-- the pre-existing edge-list entries (the four corner nodes of the "path encloses the rectangle" case) are not touched by the
collinear pass of `CheckEdges`: there are none, or the ring has no collinear node -/
def RawClean (h : Heap) : Prop :=
  (∀ e k, some k ∉ h.edges e) ∨ (∀ x, x < h.n → h.collinearAt x = false)

/-- **`rawHeap_wf`.**  For every result of the automaton model, `rawHeap` returns (no fault) a well-formed heap with at most
one slot: one ring with all nodes `0 … n-1` in creation order, all `owner_idx = 0`, `results_ = {last node}`; every edge-list
entry is a node; every node carries a point that was passed to `Add`; and unless the path encloses the rectangle all edge lists
are empty. -/
theorem rawHeap_wf (pip : Pt → Path → Option PipResult) (r : Rect) (path : Path) (res : AResult) :
    ∃ h, rawHeap pip r path res = .ok h ∧ RingsWF h (rawRing h) ∧ h.results.length ≤ 1 ∧
      (∀ e k, some k ∈ h.edges e → k ∈ rawRing h 0) ∧ (∀ k, k < h.n → ∃ e ∈ res.es, e.pt = h.pt k) ∧
      (enclosing pip r path res = false → ∀ e k, some k ∉ h.edges e) := by
  obtain ⟨h, e, inv, hp, hc⟩ := rawHeap_inv pip r path res
  refine ⟨h, e, inv.wf, ?_, ?_, hp, hc⟩
  · rw [inv.res]; split <;> simp
  · intro e' k hk
    simp only [rawRing, if_true, List.mem_range]
    exact inv.entries e' k hk

/-! ## 2. `CheckEdges` -/

/-- **`checkEdges_points`.**  On the heap `ExecuteInternal` leaves (well-formed, at most one slot, `RawClean`),
`CheckEdges` — if it returns — creates no node and moves no point; the ring of slot 0 afterwards is a *subsequence* `L` of the
ring before (nodes are only unlinked; a node is unlinked only when `IsCollinear(prev, it, next)` held for its neighbours at
that moment; when the last node would go — `UnlinkOpBack` finds `op->next == op` — the slot is set to `nullptr` and `L = []`),
the heap is well-formed again and every edge-list entry is a node of the surviving ring.  The only possible fault is loop
fuel. -/
theorem checkEdges_points (r : Rect) (h : Heap) (ring : Nat → List Nat) (w : RingsWF h ring) (hlen : h.results.length ≤ 1)
    (hel : ∀ e k, some k ∈ h.edges e → k ∈ ring 0)
    (hclean : (∀ e k, some k ∉ h.edges e) ∨ (∀ x ∈ ring 0, h.collinearAt x = false)) :
    (∀ h', checkEdges r h = .ok h' → h'.n = h.n ∧ h'.pt = h.pt ∧ ∃ L, L.Sublist (ring 0) ∧ TInv h' (upd ring 0 L)) ∧
    (∀ f, checkEdges r h = .error f → f = .fuel) :=
  checkEdges_wf r h ring w hlen hel hclean

/-! ## 3. `TidyEdges` -/

/-- **`tidyEdges_points`.**  On a well-formed heap, `TidyEdges(idx, …)` — if it returns — creates no node and moves no point
(`op_container_` and every `pt` are unchanged), the heap is well-formed again (every live ring is a doubly linked cycle with at
least one node, edge-list entries are live), and the set of nodes that are in live rings is **exactly** the same as before:
a split distributes the nodes of one ring over two, a rejoin merges two rings into one, no node is dropped or duplicated.
(Rings of one or two nodes are not dropped here: `GetPath` discards them.) -/
theorem tidyEdges_points (idx : Nat) (h : Heap) (ring : Nat → List Nat) (inv : TInv h ring) (h' : Heap)
    (hrun : tidyEdges idx h = .ok h') :
    h'.n = h.n ∧ h'.pt = h.pt ∧ ∃ ring', TInv h' ring' ∧ (∀ k, (∃ t, k ∈ ring' t) ↔ ∃ t, k ∈ ring t) := by
  obtain ⟨ring', inv', e1, e2, lv, _⟩ := (tidyEdges_inv idx h ring inv).1 h' hrun
  exact ⟨e1, e2, ring', inv', lv⟩

/-- **`tidyEdges_no_fault`.**  On a well-formed heap `TidyEdges` dereferences no null pointer and indexes `results_`, `cw`, `ccw`
only in range; the only fault the model can report is exhausted loop fuel (excluded by `tidyEdges_terminates`). -/
theorem tidyEdges_no_fault (idx : Nat) (h : Heap) (hw : WF h) (f : TFault) (hrun : tidyEdges idx h = .error f) : f = .fuel := by
  obtain ⟨ring, inv⟩ := hw
  exact (tidyEdges_inv idx h ring inv).2 f hrun

/-- **`tidyEdges_results_invariant`** (what seeded change C08b-m2 broke).  In a well-formed heap — in particular after every
`TidyEdges` call — (a) a slot of `results_` points to a node whose `owner_idx` is that slot, (b) following `next` from that node
stays among nodes with that `owner_idx` and comes back (the slot's ring is a cycle containing it), hence (c) no two slots point
into the same ring, and (d) every node of a live ring is reachable from exactly one slot, the one its `owner_idx` names. -/
theorem tidyEdges_results_invariant (h : Heap) (ring : Nat → List Nat) (w : RingsWF h ring) :
    (∀ s k, h.results[s]? = some (some k) → h.owner k = s ∧ k ∈ ring s ∧ Cyc h.next h.prev (ring s)) ∧
    (∀ s t k k', h.results[s]? = some (some k) → h.results[t]? = some (some k') → k' ∈ ring s → s = t) ∧
    (∀ s k, k ∈ ring s → ∃ r, h.results[s]? = some (some r) ∧ r ∈ ring s ∧ h.owner k = s) := by
  refine ⟨?_, ?_, ?_⟩
  · intro s k hk
    have hm := w.slot_some s k hk
    exact ⟨w.owner s k hm, hm, w.cyc s (List.ne_nil_of_mem hm)⟩
  · intro s t k k' _ hk' hm
    exact w.disjoint hm (w.slot_some t k' hk')
  · intro s k hk
    obtain ⟨r, hr⟩ := w.slot_exists hk
    exact ⟨r, hr, w.slot_some s r hr, w.owner s k hk⟩

/-! ## 4. `GetPath` -/

/-- **`getPath_shape`.**  `GetPath(results_[i])` on a well-formed heap — if it returns — creates no node, moves no point, leaves
the heap well-formed with the ring of slot `i` replaced by a subsequence `L` of it (only collinear nodes are unlinked), and
the returned path is either empty or exactly the points of `L` in ring order, starting at the node the slot points to
afterwards (`L = X ++ o :: Y`, path = points of `o :: Y ++ X`).
NOT guaranteed (and false for the real code, see `getPath_short_witness`): that a non-empty path has at least 3 points — the
size test `op->next == op->prev` is made before the collinear removal only. -/
theorem getPath_shape (h : Heap) (i : Nat) (ring : Nat → List Nat) (w : RingsWF h ring) (hi : i < h.results.length)
    (p : Path) (h2 : Heap) (hrun : getPath h i = .ok (p, h2)) :
    h2.n = h.n ∧ h2.pt = h.pt ∧ ∃ L, L.Sublist (ring i) ∧ RingsWF h2 (upd ring i L) ∧
      (p = [] ∨ ∃ X o Y, L = X ++ o :: Y ∧ p = (o :: (Y ++ X)).map h.pt) := by
  obtain ⟨⟨f1, f2, _⟩, L, hL, wL, hp⟩ := (getPath_wf h i ring w hi).1 p h2 hrun
  exact ⟨f1, f2, L, hL, wL, hp⟩

/-- **`getPath_no_fault`**: the only fault `GetPath` can report on a well-formed heap is exhausted loop fuel -/
theorem getPath_no_fault (h : Heap) (i : Nat) (ring : Nat → List Nat) (w : RingsWF h ring) (hi : i < h.results.length)
    (f : TFault) (hrun : getPath h i = .error f) : f = .fuel :=
  (getPath_wf h i ring w hi).2 f hrun

/-! ## 5. the whole per-path body of `Execute` after `ExecuteInternal` -/

/-- the four `TidyEdges` calls -/
theorem tidyAll_inv (h : Heap) (ring : Nat → List Nat) (inv : TInv h ring) :
    (∀ h', tidyAll h = .ok h' → h'.n = h.n ∧ h'.pt = h.pt ∧
      ∃ ring', TInv h' ring' ∧ (∀ k, (∃ t, k ∈ ring' t) ↔ ∃ t, k ∈ ring t)) ∧
    (∀ f, tidyAll h = .error f → f = .fuel) := by
  unfold tidyAll
  have t0 := tidyEdges_inv 0 h ring inv
  cases h0 : tidyEdges 0 h with
  | error f =>
    refine ⟨?_, ?_⟩
    · intro h' e; cases e
    · intro f' e; cases e; exact t0.2 f h0
  | ok a =>
    obtain ⟨r0, i0, n0, p0, l0, _⟩ := t0.1 a h0
    have t1 := tidyEdges_inv 1 a r0 i0
    simp only
    cases h1 : tidyEdges 1 a with
    | error f =>
      refine ⟨?_, ?_⟩
      · intro h' e; cases e
      · intro f' e; cases e; exact t1.2 f h1
    | ok b =>
      obtain ⟨r1, i1, n1, p1, l1, _⟩ := t1.1 b h1
      have t2 := tidyEdges_inv 2 b r1 i1
      simp only
      cases h2 : tidyEdges 2 b with
      | error f =>
        refine ⟨?_, ?_⟩
        · intro h' e; cases e
        · intro f' e; cases e; exact t2.2 f h2
      | ok c =>
        obtain ⟨r2, i2, n2, p2, l2, _⟩ := t2.1 c h2
        have t3 := tidyEdges_inv 3 c r2 i2
        simp only
        constructor
        · intro h' e
          obtain ⟨r3, i3, n3, p3, l3, _⟩ := t3.1 h' e
          exact ⟨by rw [n3, n2, n1, n0], by rw [p3, p2, p1, p0], r3, i3,
            fun k => (l3 k).trans ((l2 k).trans ((l1 k).trans (l0 k)))⟩
        · exact t3.2

/-- **`finishPath_points`.**  `CheckEdges(); TidyEdges × 4; GetPath × results_.size()` on the heap `ExecuteInternal` leaves: every
vertex of every returned path is the point of a node of the raw ring; the only possible fault is loop fuel. -/
theorem finishPath_points (r : Rect) (h : Heap) (ring : Nat → List Nat) (w : RingsWF h ring) (hlen : h.results.length ≤ 1)
    (hel : ∀ e k, some k ∈ h.edges e → k ∈ ring 0)
    (hclean : (∀ e k, some k ∉ h.edges e) ∨ (∀ x ∈ ring 0, h.collinearAt x = false)) :
    (∀ ps, finishPath r h = .ok ps → ∀ p ∈ ps, p ≠ [] ∧ ∀ v ∈ p, ∃ t k, k ∈ ring t ∧ v = h.pt k) ∧
    (∀ f, finishPath r h = .error f → f = .fuel) := by
  unfold finishPath
  have c := checkEdges_wf r h ring w hlen hel hclean
  cases hc : checkEdges r h with
  | error f =>
    refine ⟨?_, ?_⟩
    · intro ps e; cases e
    · intro f' e; cases e; exact c.2 f hc
  | ok h1 =>
    obtain ⟨n1, p1, L, hL, inv1⟩ := c.1 h1 hc
    have t := tidyAll_inv h1 _ inv1
    simp only
    cases ht : tidyAll h1 with
    | error f =>
      refine ⟨?_, ?_⟩
      · intro ps e; cases e
      · intro f' e; cases e; exact t.2 f ht
    | ok h2 =>
      obtain ⟨n2, p2, ring2, inv2, lv⟩ := t.1 h2 ht
      have g := getPaths_wf h2.results.length 0 h2 ring2 inv2.w (by omega)
      simp only
      cases hg : Model.RCT.getPaths h2.results.length 0 h2 with
      | error f =>
        refine ⟨?_, ?_⟩
        · intro ps e; simp [Except.map] at e
        · intro f' e; simp only [Except.map, Except.error.injEq] at e; subst e; exact g.2 f hg
      | ok res =>
        obtain ⟨ps', h3⟩ := res
        obtain ⟨_, _, gg, hgg, eps⟩ := g.1 ps' h3 hg
        constructor
        · intro ps e
          simp only [Except.map, Except.ok.injEq] at e
          subst e
          intro p hp
          rw [eps] at hp
          obtain ⟨hp1, hp2⟩ := List.mem_filter.mp hp
          obtain ⟨s, _, rfl⟩ := List.mem_map.mp hp1
          have hne : gg s ≠ [] := by
            intro e; rw [e] at hp2; simp at hp2
          refine ⟨hne, ?_⟩
          rcases hgg s with e | ⟨L', X, o, Y, hL', eL, ep⟩
          · exact absurd e hne
          · intro v hv
            rw [ep] at hv
            obtain ⟨k, hk, rfl⟩ := List.mem_map.mp hv
            have hkL : k ∈ L' := by
              rw [eL]
              simp only [List.mem_cons, List.mem_append] at hk ⊢
              rcases hk with hk | hk | hk
              · exact Or.inr (Or.inl hk)
              · exact Or.inr (Or.inr hk)
              · exact Or.inl hk
            obtain ⟨t', ht'⟩ := (lv k).mp ⟨s, hL'.subset hkL⟩
            have : ∃ t'', k ∈ ring t'' := by
              by_cases e0 : t' = 0
              · subst e0
                simp only [upd_same] at ht'
                exact ⟨0, hL.subset ht'⟩
              · rw [upd_ne _ _ e0] at ht'; exact ⟨t', ht'⟩
            obtain ⟨t'', ht''⟩ := this
            exact ⟨t'', k, ht'', by rw [p2, p1]⟩
        · intro f e; simp [Except.map] at e

/-! ## 5b. termination (property C10 for this code) -/

/-- **`checkEdges_terminates`.**  On the well-formed heap `ExecuteInternal` leaves (at most one slot) `CheckEdges` returns: its
collinear pass needs at most `n (n + 1) + n` iterations for a ring of `n` nodes (measure `phi`, Lemmas/RectClipTidyTerm.lean:
ring size first, then the distance still to walk in the current round) and its classification pass walks the ring once. -/
theorem checkEdges_terminates (r : Rect) (h : Heap) (ring : Nat → List Nat) (w : RingsWF h ring) (hlen : h.results.length ≤ 1) :
    ∃ h', checkEdges r h = .ok h' :=
  checkEdges_total r h ring w hlen

/-- **`getPath_terminates`.**  On a well-formed heap `GetPath(results_[i])` returns (same measure as `checkEdges_terminates`
for its collinear pass; the copy loop walks the ring once). -/
theorem getPath_terminates (h : Heap) (i : Nat) (ring : Nat → List Nat) (w : RingsWF h ring) (hi : i < h.results.length) :
    ∃ p h2, getPath h i = .ok (p, h2) := by
  obtain ⟨⟨p, h2⟩, e⟩ := getPath_total h i ring w hi
  exact ⟨p, h2, e⟩

/-- **`tidyEdges_measure_decreases`.**  One iteration of the `while (i < cw.size())` loop of `TidyEdges(idx, …)` on a well-formed
heap whose two lists of side `idx` satisfy `SideInv` (entries on the side's line, `cw` entries heading weakly clockwise, `ccw`
entries weakly counter-clockwise, no node twice): the iteration ends the loop or strictly decreases
`μ = P (M+1)² + (|cw| - i)(M+1) + (|ccw| - j)`, `P` = total length of all links along the side's axis + number of zero-length
entries, `M = P + |cw| + |ccw|`, and re-establishes `SideInv`.  (A split/rejoin of two edges of positive length shortens the
total length by twice the overlap and creates at most one zero-length entry; one involving a zero-length entry keeps the
length and consumes that entry; `|cw| + |ccw|` grows by at most one and only then.) -/
theorem tidyEdges_measure_decreases (idx : Nat) (s : TState) (ring : Nat → List Nat) (inv : TInv s.h ring)
    (si : SideInv idx s.h) (hj : s.j ≤ (s.h.edges (idx * 2 + 1)).length) :
    tidyStep idx s = .done ∨ ∃ b s', tidyStep idx s = .next b s' ∧ SideInv idx s'.h ∧
      tidyMeasure idx s' < tidyMeasure idx s := by
  rcases tidyStep_measure idx s ring inv si hj with h | ⟨b, s', h1, h2, h3, _⟩
  · exact Or.inl h
  · exact Or.inr ⟨b, s', h1, h2, h3⟩

/-- **`tidyEdges_terminates`.**  `TidyEdges(idx, …)` returns — no fault; in particular the fuel `μ + 1` the model grants
suffices — on every well-formed heap whose eight edge lists satisfy `EdgesOK` (`SideInv` for each of the four sides and no node
registered on two sides), and `EdgesOK` holds again afterwards (so the next call terminates too). -/
theorem tidyEdges_terminates (idx : Nat) (hidx : idx < 4) (h : Heap) (ring : Nat → List Nat) (inv : TInv h ring)
    (ok : EdgesOK h) : ∃ h', tidyEdges idx h = .ok h' ∧ EdgesOK h' :=
  tidyEdges_global idx hidx h ring inv ok

/-- **`checkEdges_establishes_edgesOK`.**  Started with empty edge lists (every case but "the path encloses the rectangle") on
the heap `ExecuteInternal` leaves, `CheckEdges` establishes `EdgesOK`: every entry it makes into `edges_[2 j]` / `edges_[2 j + 1]`
is a node whose link `prev → node` lies on the line of side `j` (bits of `GetEdgesForPt`) and heads clockwise resp. not
clockwise (`IsHeadingClockwise`), and `AddToEdge`'s test of `op->edge` registers every node at most once. -/
theorem checkEdges_establishes_edgesOK (r : Rect) (h : Heap) (ring : Nat → List Nat) (w : RingsWF h ring)
    (hlen : h.results.length ≤ 1) (he : ∀ e k, some k ∉ h.edges e) (h' : Heap) (hrun : checkEdges r h = .ok h') : EdgesOK h' :=
  checkEdges_estab r h ring w hlen he h' hrun

/-! ## 6. composition with the automaton: the FINAL output -/
/-! ## 6. composition with the automaton: the FINAL output -/

/-- **`rectClipGeneral_points`.**  For every arithmetic, every `PointInPolygon`, every non-empty rectangle and every path: if
the full model of the general algorithm (`ExecuteInternal; CheckEdges; TidyEdges × 4; GetPath × n`) returns, then every returned
path is non-empty and each of its vertices is a point that `ExecuteInternal` passed to `Add`; and the part after
`ExecuteInternal` can fault only by exhausting loop fuel.  No hypothesis on the heap: well-formedness is *established* by
`rawHeap_wf`, and the pre-registered corner entries of the "path encloses the rectangle" case are never unlinked because in
that case the ring consists of the four corners only (`rawHeap_enclosing`). -/
theorem rectClipGeneral_points (A : Arith) (pip : Pt → Path → Option PipResult) (r : Rect) (hne : r.isEmpty = false)
    (path : Path) :
    (∀ out, rectClipGeneral A pip r path = .ok out → ∃ res, executeInternalA A pip r path = .ok res ∧
      ∀ p ∈ out, p ≠ [] ∧ ∀ v ∈ p, ∃ e ∈ res.es, e.pt = v) ∧
    (∀ f, rectClipGeneral A pip r path = .error (.tidy f) → f = .fuel) := by
  unfold rectClipGeneral
  cases hex : executeInternalA A pip r path with
  | error f =>
    refine ⟨?_, ?_⟩
    · intro out e; cases e
    · intro f' e; cases e
  | ok res =>
    obtain ⟨h, eh, w, hlen, hel, hpts, hcl⟩ := rawHeap_wf pip r path res
    have hclean : (∀ e k, some k ∉ h.edges e) ∨ (∀ x ∈ rawRing h 0, h.collinearAt x = false) := by
      cases henc : enclosing pip r path res with
      | false => exact Or.inl (hcl henc)
      | true =>
        obtain ⟨hp, ehp, nc, _, _⟩ := rawHeap_enclosing A pip r hne path res hex henc
        rw [eh] at ehp
        simp only [Except.ok.injEq] at ehp
        subst ehp
        right
        intro x hx
        simp only [rawRing, if_true, List.mem_range] at hx
        exact nc x hx
    have fp := finishPath_points r h (rawRing h) w hlen hel hclean
    simp only [eh]
    cases hf : finishPath r h with
    | error f =>
      refine ⟨?_, ?_⟩
      · intro out e; cases e
      · intro f' e; simp only [Except.error.injEq, XFault.tidy.injEq] at e; subst e; exact fp.2 f hf
    | ok ps =>
      refine ⟨?_, ?_⟩
      · intro out e
        simp only [Except.ok.injEq] at e
        subst e
        refine ⟨res, rfl, ?_⟩
        intro p hp
        obtain ⟨hne', hv⟩ := fp.1 ps hf p hp
        refine ⟨hne', ?_⟩
        intro v hvm
        obtain ⟨t, k, hk, rfl⟩ := hv v hvm
        have hkn : k < h.n := w.lt t k hk
        exact hpts k hkn
      · intro f e; cases e

/-- **`rectClip_points_in_rect`** — the in-rectangle / provenance statement of C08 for the FINAL output of the full model
(`rectClipFull rect path` = the loop body of `RectClip64::Execute` for one path), not just the raw ring.  For a sign-exact
arithmetic whose intersection points lie on the boundary of the rectangle and in `R ⊇ rect`, a total `PointInPolygon`, a
non-empty rectangle and every path with `int64` coordinates: every vertex of every returned path lies in `R` and is an
input vertex or a point of the rectangle's boundary (a corner or a crossing point); the automaton part does not fault at all
and the rest can fault only by exhausting loop fuel (see `tidyEdges_terminates`). -/
theorem rectClip_points_in_rect (A : Arith) (hA : SignExact A) (ht : IsectTotal A)
    (pip : Pt → Path → Option PipResult) (hpip : ∀ q poly, (pip q poly).isSome = true) (r R : Rect)
    (hne : r.isEmpty = false) (hi : IsectIn A R) (hsub : Subrect r R) (hQ : EdgeSat A r (OnBoundary r))
    (path : Path) (hr : ∀ p ∈ path, I64 p.x ∧ I64 p.y) :
    (∀ out, rectClipFull A pip r path = .ok out →
      ∀ p ∈ out, p ≠ [] ∧ ∀ v ∈ p, inRect R v = true ∧ (v ∈ path ∨ OnBoundary r v)) ∧
    (∀ f, rectClipFull A pip r path = .error f → f = .tidy .fuel) := by
  unfold rectClipFull
  cases hs : executeShortcut r path with
  | some ps =>
    simp only
    refine ⟨?_, by intro f e; cases e⟩
    intro out e
    simp only [Except.ok.injEq] at e
    subst e
    by_cases hlen : 3 ≤ path.length
    · rcases shortcut_sound r path hne hlen hr ps hs with ⟨rfl, hin⟩ | ⟨rfl, _⟩
      · intro p hp
        simp only [List.mem_singleton] at hp
        subst hp
        refine ⟨by intro e; rw [e] at hlen; simp at hlen, ?_⟩
        intro v hv
        exact ⟨inRect_mono hsub (hin v hv), Or.inl hv⟩
      · intro p hp; cases hp
    · have := shortcut_small r path (by omega)
      rw [this] at hs
      simp only [Option.some.injEq] at hs
      subst hs
      intro p hp; cases hp
  | none =>
    simp only
    have g := rectClipGeneral_points A pip r hne path
    obtain ⟨res0, hres0, _⟩ := executeInternal_total_exact A hA ht pip hpip r hne path
    refine ⟨?_, ?_⟩
    · intro out e
      obtain ⟨res, hres, hp⟩ := g.1 out e
      intro p hpm
      obtain ⟨hne', hv⟩ := hp p hpm
      refine ⟨hne', ?_⟩
      intro v hvm
      obtain ⟨em, hem, rfl⟩ := hv v hvm
      exact ⟨added_points_in_rect A pip r R path hne (crossZeroExact_of_signExact hA) hi hsub
          (noLostCrossing_exact A hA ht pip r hne path) res hres em hem,
        new_vertices_on_boundary A pip r path _ hne hQ (noLostCrossing_exact A hA ht pip r hne path) res hres em hem⟩
    · intro f e
      cases f with
      | auto fa =>
        exfalso
        unfold rectClipGeneral at e
        rw [hres0] at e
        simp only at e
        split at e
        · cases e
        · split at e <;> cases e
      | tidy ft => rw [g.2 ft e]

/-- **`rectClipGeneral_total`.**  Whenever the automaton model returns (non-empty rectangle), the rest of the per-path body
of `Execute` — `CheckEdges`, the four `TidyEdges` calls, every `GetPath` — returns as well: no null pointer is dereferenced, no
index is out of range, and every loop ends within the fuel derived from its measure. -/
theorem rectClipGeneral_total (A : Arith) (pip : Pt → Path → Option PipResult) (r : Rect) (hne : r.isEmpty = false)
    (path : Path) (res : AResult) (hex : executeInternalA A pip r path = .ok res) :
    ∃ out, rectClipGeneral A pip r path = .ok out := by
  obtain ⟨h, eh, w, hlen, hel, _, hcl⟩ := rawHeap_wf pip r path res
  obtain ⟨h1, e1⟩ := checkEdges_terminates r h (rawRing h) w hlen
  have henc_facts : (∀ e k, some k ∉ h.edges e) ∨
      ((∀ x ∈ rawRing h 0, h.collinearAt x = false) ∧ (∀ k ∈ rawRing h 0, h.edge k ≠ none) ∧ (∀ m, h.edges (m * 2 + 1) = [])) := by
    cases henc : enclosing pip r path res with
    | false => exact Or.inl (hcl henc)
    | true =>
      obtain ⟨hp, ehp, nc, g, l⟩ := rawHeap_enclosing A pip r hne path res hex henc
      rw [eh] at ehp
      simp only [Except.ok.injEq] at ehp
      subst ehp
      right
      refine ⟨?_, ?_, l⟩
      · intro x hx; simp only [rawRing, if_true, List.mem_range] at hx; exact nc x hx
      · intro k hk; simp only [rawRing, if_true, List.mem_range] at hk; exact g k hk
  have hclean : (∀ e k, some k ∉ h.edges e) ∨ (∀ x ∈ rawRing h 0, h.collinearAt x = false) :=
    henc_facts.imp id (fun x => x.1)
  obtain ⟨_, _, L, _, inv1⟩ := (checkEdges_points r h (rawRing h) w hlen hel hclean).1 h1 e1
  -- the four TidyEdges calls
  have ht : ∃ h2, tidyAll h1 = .ok h2 := by
    rcases henc_facts with he | ⟨nc, g, l⟩
    · exact tidyAll_total h1 _ inv1 (checkEdges_estab r h (rawRing h) w hlen he h1 e1)
    · have := checkEdges_lists_unchanged r h (rawRing h) w hlen g nc h1 e1
      exact ⟨h1, tidyAll_trivial h1 (fun idx _ => by rw [this]; exact l idx)⟩
  obtain ⟨h2, e2⟩ := ht
  obtain ⟨_, _, ring2, inv2, _⟩ := (tidyAll_inv h1 _ inv1).1 h2 e2
  obtain ⟨⟨ps, h3⟩, e3⟩ := getPaths_total h2.results.length 0 h2 ring2 inv2.w (by omega)
  exact ⟨ps, by simp [rectClipGeneral, hex, eh, finishPath, e1, e2, e3, Except.map]⟩

/-- **`rectClipFull_total`.**  For a sign-exact arithmetic, a total `PointInPolygon`, a non-empty rectangle and EVERY path,
the full model of the loop body of `RectClip64::Execute` returns: automaton, `CheckEdges`, `TidyEdges`, `GetPath` — no fault of
any kind, every loop terminates.  (Together with `rectClip_points_in_rect`: it returns paths all of whose vertices are in the
rectangle and are input vertices, corners or crossing points.) -/
theorem rectClipFull_total (A : Arith) (hA : SignExact A) (ht : IsectTotal A)
    (pip : Pt → Path → Option PipResult) (hpip : ∀ q poly, (pip q poly).isSome = true) (r : Rect)
    (hne : r.isEmpty = false) (path : Path) : ∃ out, rectClipFull A pip r path = .ok out := by
  unfold rectClipFull
  cases hs : executeShortcut r path with
  | some ps => exact ⟨ps, rfl⟩
  | none =>
    obtain ⟨res, hres, _⟩ := executeInternal_total_exact A hA ht pip hpip r hne path
    exact rectClipGeneral_total A pip r hne path res hres

/-- **`rectClip_final`** — totality and the vertex statement in one: for a sign-exact arithmetic whose intersection points lie on
the boundary of the rectangle and in `R ⊇ rect`, the full model returns for every path with `int64` coordinates, and every
vertex of every returned path lies in `R` and is an input vertex or a point of the rectangle's boundary. -/
theorem rectClip_final (A : Arith) (hA : SignExact A) (ht : IsectTotal A)
    (pip : Pt → Path → Option PipResult) (hpip : ∀ q poly, (pip q poly).isSome = true) (r R : Rect)
    (hne : r.isEmpty = false) (hi : IsectIn A R) (hsub : Subrect r R) (hQ : EdgeSat A r (OnBoundary r))
    (path : Path) (hr : ∀ p ∈ path, I64 p.x ∧ I64 p.y) :
    ∃ out, rectClipFull A pip r path = .ok out ∧
      ∀ p ∈ out, p ≠ [] ∧ ∀ v ∈ p, inRect R v = true ∧ (v ∈ path ∨ OnBoundary r v) := by
  obtain ⟨out, e⟩ := rectClipFull_total A hA ht pip hpip r hne path
  exact ⟨out, e, (rectClip_points_in_rect A hA ht pip hpip r R hne hi hsub hQ path hr).1 out e⟩

/-- the exact-sign arithmetic of `Props.C09` satisfies the hypotheses with `R = rect` (see the example after
`raw_ring_in_rect_exact`), so `rectClip_final` is not vacuous -/
example : let A := Props.C09.exampleArith ⟨0, 0, 10, 10⟩
    IsectIn A ⟨0, 0, 10, 10⟩ ∧ Subrect ⟨0, 0, 10, 10⟩ ⟨0, 0, 10, 10⟩ ∧
    EdgeSat A ⟨0, 0, 10, 10⟩ (OnBoundary ⟨0, 0, 10, 10⟩) := by
  refine ⟨?_, by simp [Subrect], ⟨?_, ?_⟩⟩
  · intro a b c d q h; simp [Props.C09.exampleArith] at h; subst h; decide
  · intro c hc
    simp only [Rect.asPath, List.mem_cons, List.not_mem_nil, or_false] at hc
    rcases hc with rfl | rfl | rfl | rfl <;> simp [OnBoundary, Rect.c0, Rect.c1, Rect.c2, Rect.c3]
  · intro a b c d q _ h; simp [Props.C09.exampleArith] at h; subst h; simp [OnBoundary, Rect.c0]

/-! ## 6b. winding numbers across a split / rejoin -/

/-- **`windPath_of_ring`.**  The winding number (`Spec.windPath`) of the polygon of a ring around `q` is the sum, over the nodes
`k` of the ring, of the contributions (`Spec.crossing`) of the links `prev k → k`. -/
theorem windPath_of_ring (h : Heap) (q : Pt) (c : List Nat) (hc : Cyc h.next h.prev c) :
    windPath (c.map h.pt) q = ringWind h q c :=
  windPath_ring h q c hc

/-- **`tidySplice_wind_partial`.**  A split or rejoin of `TidyEdges(idx)` (the pointer writes between "to get here we're either
splitting or rejoining" and the relisting) on a well-formed heap with `SideInv idx`: for every probe point `q` that is not on
the line of the side (in particular every point strictly inside the rectangle) the sum of the winding contributions of the
links `prev k → k` over any duplicate-free list `L` of nodes containing `cw[i]` and `ccw[j]` — e.g. the list of all nodes of all
live rings, whose polygons' winding numbers add up to exactly this sum by `windPath_of_ring` — is unchanged: the two cut edges
and the two new ones lie on the side's line, where the contributions telescope (`splice_crossing_identity`).
Full statement intended: `Spec.wind (paths returned by GetPath) q` is the same with and without the `TidyEdges` calls, for `q`
strictly inside the rectangle.  Missing: the bookkeeping that the node lists of the rings before and after are permutations of
each other as *lists* (proved here as sets: `tidyEdges_points`), and the (easy but unproved) fact that `GetPath`'s collinear
removal and its dropping of 1- and 2-node rings change no winding number off the removed segments. -/
theorem tidySplice_wind_partial (idx : Nat) (h : Heap) (ring : Nat → List Nat) (w : RingsWF h ring) (si : SideInv idx h)
    (cwI ccwJ sc sj : Nat) (hcm : some cwI ∈ h.edges (idx * 2)) (hjm : some ccwJ ∈ h.edges (idx * 2 + 1))
    (hc : cwI ∈ ring sc) (hj : ccwJ ∈ ring sj)
    (hne : (if (idx == 1 || idx == 2) then h.prev cwI else cwI) ≠ (if (idx == 1 || idx == 2) then h.prev ccwJ else ccwJ))
    (q : Pt) (hq : othOf idx q ≠ othOf idx (h.pt cwI)) :
    ∃ h5 op op2 rj, tidySplice (idx == 1 || idx == 2) h cwI ccwJ
        (if (idx == 1 || idx == 2) then h.prev cwI else cwI) (if (idx == 1 || idx == 2) then cwI else h.prev cwI)
        (if (idx == 1 || idx == 2) then ccwJ else h.prev ccwJ) (if (idx == 1 || idx == 2) then h.prev ccwJ else ccwJ) =
          .ok (h5, op, op2, rj) ∧
      ∀ L : List Nat, L.Nodup → cwI ∈ L → ccwJ ∈ L → ringWind h5 q L = ringWind h q L := by
  obtain ⟨c, hcl⟩ := si.line
  have l1 := hcl cwI (Or.inl hcm)
  have l2 := hcl ccwJ (Or.inr hjm)
  have hneq : cwI ≠ ccwJ := by
    intro e; subst e
    have := si.once cwI
    have := (occ_pos_iff cwI _).mpr hcm
    have := (occ_pos_iff cwI _).mpr hjm
    omega
  -- the four points lie on one line, and q is off it when the line is vertical
  have hline : (∃ cy, (h.pt (h.prev cwI)).y = cy ∧ (h.pt cwI).y = cy ∧ (h.pt ccwJ).y = cy ∧ (h.pt (h.prev ccwJ)).y = cy) ∨
      (∃ cx, (h.pt (h.prev cwI)).x = cx ∧ (h.pt cwI).x = cx ∧ (h.pt ccwJ).x = cx ∧ (h.pt (h.prev ccwJ)).x = cx ∧ q.x ≠ cx) := by
    unfold othOf at l1 l2 hq
    cases hH : (idx == 1 || idx == 3) with
    | true =>
      simp only [hH, if_true] at l1 l2
      exact Or.inl ⟨c, l1.2, l1.1, l2.1, l2.2⟩
    | false =>
      simp only [hH, Bool.false_eq_true, if_false] at l1 l2 hq
      exact Or.inr ⟨c, l1.2, l1.1, l2.1, l2.2, by rw [← l1.1]; exact hq⟩
  cases hTL : (idx == 1 || idx == 2) with
  | true =>
    simp only [hTL, if_true] at hne ⊢
    obtain ⟨h5, rj, ring', e5, _, fr, _⟩ := tidySplice_wf_true h ring w cwI ccwJ sc sj hc hj hne
    obtain ⟨f1, f2, f3, f4, f5, f6⟩ := fr
    refine ⟨h5, _, _, rj, e5, ?_⟩
    intro L hnd hx hy
    have hline' : (∃ cy, (h.pt (h.prev ccwJ)).y = cy ∧ (h.pt ccwJ).y = cy ∧ (h.pt cwI).y = cy ∧ (h.pt (h.prev cwI)).y = cy) ∨
        (∃ cx, (h.pt (h.prev ccwJ)).x = cx ∧ (h.pt ccwJ).x = cx ∧ (h.pt cwI).x = cx ∧ (h.pt (h.prev cwI)).x = cx ∧ q.x ≠ cx) := by
      rcases hline with ⟨cy, a, b, c', d⟩ | ⟨cx, a, b, c', d, e⟩
      · exact Or.inl ⟨cy, d, c', b, a⟩
      · exact Or.inr ⟨cx, d, c', b, a, e⟩
    exact ringWind_swap h h5 q f2 ccwJ cwI (fun e => hneq e.symm) f6 L hnd hy hx hline'
  | false =>
    simp only [hTL, Bool.false_eq_true, if_false] at hne ⊢
    obtain ⟨h5, rj, ring', e5, _, fr, _⟩ := tidySplice_wf_false h ring w cwI ccwJ sc sj hc hj hne
    obtain ⟨f1, f2, f3, f4, f5, f6⟩ := fr
    refine ⟨h5, _, _, rj, e5, ?_⟩
    intro L hnd hx hy
    exact ringWind_swap h h5 q f2 cwI ccwJ hneq f6 L hnd hx hy hline

/-! ## 7. non-vacuity: concrete runs (checked by the kernel, `rfl`)

The raw rings below are the ones `ExecuteInternal` builds for the inputs named (taken from the `RCTIDY` records of the
correspondence harness, where the real object produces exactly these heaps). -/

/-- the heap `ExecuteInternal` leaves for a list of added points (no enclosing case) -/
def heapOfPts (ps : List Pt) : Heap := match Heap.empty.addAll ps with | .ok h => h | .error _ => Heap.empty

/-- rectangle (0,0,40,20), path (100,-80) (-160,-80) (-160,160) (60,160) (0,20) (100,160) (160,160) (60,20) (0,-20) (100,20)
(seeded/C08b-m2/demo.cpp, case 1): the raw ring -/
def rawDemo1 : List Pt :=
  [⟨0,20⟩,⟨0,0⟩,⟨0,20⟩,⟨40,20⟩,⟨40,6⟩,⟨30,0⟩,⟨40,0⟩,⟨40,20⟩,⟨40,0⟩,⟨0,0⟩,⟨0,20⟩,⟨40,20⟩]

/-- rectangle (0,0,12,7), path (0,10) (5,7) (0,1) (8,10) (-3,1): the raw ring -/
def rawShort : List Pt := [⟨5,7⟩,⟨0,7⟩,⟨5,7⟩,⟨0,1⟩,⟨5,7⟩,⟨4,7⟩,⟨0,3⟩,⟨0,7⟩]

/-- the branches the four `TidyEdges` calls take after `CheckEdges` -/
def branchesOf (r : Rect) (ps : List Pt) : Except TFault (List (List Branch)) :=
  match checkEdges r (heapOfPts ps) with
  | .error f => .error f
  | .ok h1 => match tidyEdgesB 0 h1 with
    | .error f => .error f
    | .ok (h2, b0) => match tidyEdgesB 1 h2 with
      | .error f => .error f
      | .ok (h3, b1) => match tidyEdgesB 2 h3 with
        | .error f => .error f
        | .ok (h4, b2) => match tidyEdgesB 3 h4 with
          | .error f => .error f
          | .ok (_, b3) => .ok [b0, b1, b2, b3]

/-- **A run in which `TidyEdges` splits three times and rejoins once** (`splice true …` = `isRejoining`): left side one split,
top side one split, right side one rejoin followed by one split; the four rings are merged back into one. -/
example : branchesOf ⟨0, 0, 40, 20⟩ rawDemo1 =
    .ok [[.splice false 0 true, .skipCw], [.splice false 1 false], [.splice true 1 true, .splice false 0 false], []] := by rfl

example : finishPath ⟨0, 0, 40, 20⟩ (heapOfPts rawDemo1) = .ok [[⟨0,20⟩,⟨40,20⟩,⟨40,6⟩,⟨30,0⟩,⟨0,0⟩]] := by rfl

/-- **`getPath_short_witness`.**  `GetPath` can return a path of ONE point: for the rectangle (0,0,12,7) and the 5-gon
(0,10) (5,7) (0,1) (8,10) (-3,1) `TidyEdges` splits the raw ring on the bottom side, one of the two rings consists of nodes on the line `y = 7` only and is
reduced by the collinear removal of `GetPath` to the single node (5,7); since the size test `op->next == op->prev` is made
*before* that removal the path `{(5,7)}` is emitted — the real `RectClip` returns `{(0,3),(0,7),(4,7)}, {(5,7)}` for this input (harness/C08tidy.cpp
counts such outputs: `tidy.getpath_returned_1_or_2_points`).  So "a returned path has at least 3 points" is NOT a theorem. -/
theorem getPath_short_witness :
    finishPath ⟨0, 0, 12, 7⟩ (heapOfPts rawShort) = .ok [[⟨0,3⟩,⟨0,7⟩,⟨4,7⟩], [⟨5,7⟩]] := by rfl

/-- the hypotheses of `checkEdges_points`, `tidyEdges_points`, `getPath_shape` are satisfiable: the heap of `rawDemo1` is
well-formed before `CheckEdges`, `CheckEdges` returns, and the heap is well-formed (`WF`) afterwards -/
example : ∃ h1, checkEdges ⟨0, 0, 40, 20⟩ (heapOfPts rawDemo1) = .ok h1 ∧ WF h1 := by
  obtain ⟨h0, e0, inv0, ed0, _⟩ := addAll_rawInv rawDemo1 Heap.empty rawInv_empty
  have eh : heapOfPts rawDemo1 = h0 := by unfold heapOfPts; rw [e0]
  rw [eh]
  have hlen : h0.results.length ≤ 1 := by rw [inv0.res]; split <;> simp
  obtain ⟨h1, e1⟩ := checkEdges_terminates ⟨0, 0, 40, 20⟩ h0 (rawRing h0) inv0.wf hlen
  have hno : ∀ e k, some k ∉ h0.edges e := by intro e k; rw [ed0]; simp [Heap.empty]
  obtain ⟨_, _, L, _, inv1⟩ := (checkEdges_points ⟨0, 0, 40, 20⟩ h0 (rawRing h0) inv0.wf hlen
    (fun e k hk => absurd hk (hno e k)) (Or.inl hno)).1 h1 e1
  exact ⟨h1, e1, _, inv1⟩

/-- … and its eight edge lists satisfy `EdgesOK`, the hypothesis of `tidyEdges_terminates` (the lists are not empty: this is
the run above that splits three times and rejoins once) -/
example : ∃ h1, checkEdges ⟨0, 0, 40, 20⟩ (heapOfPts rawDemo1) = .ok h1 ∧ EdgesOK h1 := by
  obtain ⟨h0, e0, inv0, ed0, _⟩ := addAll_rawInv rawDemo1 Heap.empty rawInv_empty
  have eh : heapOfPts rawDemo1 = h0 := by unfold heapOfPts; rw [e0]
  rw [eh]
  have hlen : h0.results.length ≤ 1 := by rw [inv0.res]; split <;> simp
  obtain ⟨h1, e1⟩ := checkEdges_terminates ⟨0, 0, 40, 20⟩ h0 (rawRing h0) inv0.wf hlen
  have hno : ∀ e k, some k ∉ h0.edges e := by intro e k; rw [ed0]; simp [Heap.empty]
  exact ⟨h1, e1, checkEdges_establishes_edgesOK _ h0 _ inv0.wf hlen hno h1 e1⟩

end Clipper.Props.C08Tidy
