/-
C20 — path utilities keep their contracts.  Theorems about the models in `Model/PathUtil.lean`
(tied to the C++ by the bit-exact correspondence of `harness/C20.cpp`).  Helper lemmas live in
`Lemmas/{PathUtil,TrimArea,TrimCorners,Strip,Simplify,SimplifyFix}.lean`.  `isCollinear` inside the models is the
definition generated from the source (`Gen.IsCollinear`), used through `Props.C18.isCollinear_int128_exact`.
The doubles that RDP/SimplifyPath only compare are a parameter (`DistOps`); what the theorems assume about them is
stated as hypotheses (`DistLaws`, ...); `intOps` shows the hypotheses are satisfiable, `ratOps` (exact rational
distances) evaluates the two counterexamples.

One clause of the property is FALSE for the code as it is (proved on the faithful model, witnessed on the real code by
the harness record `kf.simplify-open-huge-eps`):
  * `simplify_keeps_ends_false` — SimplifyPath on an open path when `Sqr(epsilon) >= MAX_DBL`.
(The RamerDouglasPeucker defect for `path.front() == path.back()` was repaired in /repo, commit 890f843; `rdp_eps` and
`rdp_keeps_ends` are now full theorems and the old witness is the regression example `rdpWitness`.)
-/
import ClipperVerif.Lemmas.PathUtil
import ClipperVerif.Lemmas.TrimArea
import ClipperVerif.Lemmas.TrimCorners
import ClipperVerif.Lemmas.Strip
import ClipperVerif.Lemmas.Simplify
import ClipperVerif.Lemmas.SimplifyFix
namespace Clipper.Props.C20
open Clipper Clipper.Model.PathUtil Clipper.Lemmas.PathUtil

variable {D : Type}

/-- an open path keeps its end points -/
def KeepsEnds (inp out : List Pt) : Prop := out.head? = inp.head? ∧ out.getLast? = inp.getLast?

/-- integer instantiation used for the non-vacuity examples: `dist2` is the squared cross product (the squared
distance scaled by the squared length of the line) -/
def intOps : DistOps Int where
  le := fun a b => decide (a ≤ b)
  zero := 0
  maxD := 2 ^ 200
  dist2 := fun p l1 l2 =>
    ((p.x - l1.x) * (l2.y - l1.y) - (l2.x - l1.x) * (p.y - l1.y)) *
    ((p.x - l1.x) * (l2.y - l1.y) - (l2.x - l1.x) * (p.y - l1.y))

theorem intOps_laws : DistLaws intOps where
  total := by intro a b; simp only [intOps, decide_eq_true_eq]; omega
  trans := by intro a b c; simp only [intOps, decide_eq_true_eq]; omega
  ends_zero := by
    intro a b
    simp only [intOps, decide_eq_true_eq]
    constructor
    · simp
    · have : (b.x - a.x) * (b.y - a.y) - (b.x - a.x) * (b.y - a.y) = 0 := by omega
      rw [this]; simp

/-! ## subsequence -/

/-- `TrimCollinear` returns a subsequence of its input (closed and open). -/
theorem trim_subseq (p : List Pt) (isOpen : Bool) : isSubseq (trimCollinear p isOpen) p = true :=
  (isSubseq_iff_sublist _ _).mpr (trimCollinear_sublist p isOpen)

/-- `RamerDouglasPeucker` returns a subsequence of its input, for every distance function and epsilon. -/
theorem rdp_subseq (ops : DistOps D) (p : List Pt) (eps : D) :
    isSubseq (ramerDouglasPeucker ops p eps) p = true := by
  rw [isSubseq_iff_sublist]; unfold ramerDouglasPeucker
  split
  · exact List.Sublist.refl _
  · exact selectFlags_sublist _ _ _

/-- `SimplifyPath` returns a subsequence of its input, for every distance function and epsilon. -/
theorem simplify_subseq (ops : DistOps D) (p : List Pt) (eps : D) (closed : Bool) (r : List Pt)
    (h : simplifyPath ops p eps closed = some r) : isSubseq r p = true := by
  rw [isSubseq_iff_sublist]; unfold simplifyPath at h
  split at h
  · injection h with h; subst h; exact List.Sublist.refl _
  · cases hf : simplifyFlags ops p eps closed with
    | none => rw [hf] at h; simp at h
    | some f => rw [hf] at h; simp at h; subst h; exact selectFlags_sublist _ _ _

/-! ## TrimCollinear: end points and area -/

/-- `TrimCollinear` keeps both end points of an open path with at least 3 vertices, or with 2 distinct vertices.
(The code returns the empty path for an open path of one vertex or of two equal vertices: that is its explicit
first branch, so those inputs are outside the statement.) -/
theorem trim_keeps_ends (p : List Pt) (h : 3 ≤ p.length ∨ ∃ a b, p = [a, b] ∧ a ≠ b) :
    KeepsEnds p (trimCollinear p true) := by
  cases h with
  | inr h =>
    obtain ⟨a, b, rfl, hne⟩ := h
    simp [trimCollinear, hne, KeepsEnds]
  | inl h =>
    match p, h with
    | a :: c :: rest, h =>
      have hstop := trimLoop_stop a c rest
      unfold trimCollinear
      rw [if_neg (by omega)]
      simp only [if_true]
      refine ⟨rfl, ?_⟩
      rw [List.getLast?_cons_cons, hstop, List.getLast?_concat]

-- non-vacuity: an open path with a collinear run keeps its ends
example : trimCollinear [⟨0, 0⟩, ⟨1, 1⟩, ⟨2, 2⟩, ⟨5, 0⟩] true = [⟨0, 0⟩, ⟨2, 2⟩, ⟨5, 0⟩] := by decide

/-- `TrimCollinear` preserves the signed area of every closed path (twice the shoelace sum, exactly). -/
theorem trim_area (p : List Pt) : shoelace2 (trimCollinear p false) = shoelace2 p :=
  trimCollinear_closed_area p

/-! ## TrimCollinear: corner vertices -/

/-- The hypothesis of the corner clause, "no repeated points or 180-degree reversals": at every vertex `b` with
neighbours `a`, `c` (cyclically for a closed path: the chain `last :: p ++ [first]` shows every cyclic triple),
if `a, b, c` are collinear then `b` lies strictly between `a` and `c` (`(b-a)·(c-b) > 0`); in particular `a ≠ b ≠ c`. -/
def ForwardOnly (closed : Bool) (p : List Pt) : Prop :=
  AllTriples Fwd (if closed then cyclicChain p else p)

/-- no three consecutive (closed: cyclically consecutive) vertices are collinear -/
def NoCollinear (closed : Bool) (p : List Pt) : Prop :=
  AllTriples NotCol (if closed then cyclicChain p else p)

instance (a b c : Pt) : Decidable (Fwd a b c) := by unfold Fwd; infer_instance
instance (a b c : Pt) : Decidable (NotCol a b c) := by unfold NotCol; infer_instance
instance decAllTriples (P : Pt → Pt → Pt → Prop) [∀ a b c, Decidable (P a b c)] :
    (l : List Pt) → Decidable (AllTriples P l)
  | [] => isTrue trivial
  | [_] => isTrue trivial
  | [_, _] => isTrue trivial
  | a :: b :: c :: t =>
    match (inferInstance : Decidable (P a b c)), decAllTriples P (b :: c :: t) with
    | isTrue h1, isTrue h2 => isTrue ⟨h1, h2⟩
    | isFalse h1, _ => isFalse (fun h => h1 h.1)
    | _, isFalse h2 => isFalse (fun h => h2 h.2)
instance (closed : Bool) (p : List Pt) : Decidable (ForwardOnly closed p) := by unfold ForwardOnly; infer_instance
instance (closed : Bool) (p : List Pt) : Decidable (NoCollinear closed p) := by unfold NoCollinear; infer_instance

/- Full statement without the hypothesis is FALSE (and the property does not claim it): a spike defeats it, see
`trim_no_collinear_needs_hypothesis`. -/

/-- For a path without repeated points and without 180-degree reversals `TrimCollinear` leaves no three consecutive
(closed: cyclically consecutive) collinear vertices. -/
theorem trim_no_collinear (closed : Bool) (p : List Pt) (h : ForwardOnly closed p) :
    NoCollinear closed (trimCollinear p (!closed)) := by
  cases closed with
  | true => exact (trim_closed_fwd p h).1
  | false =>
    by_cases h3 : 3 ≤ p.length
    · exact (trim_open_fwd p h3 h).1
    · unfold NoCollinear
      have hs := (trimCollinear_sublist p true).length_le
      simp only [Bool.not_false, Bool.false_eq_true, if_false]
      match hr : trimCollinear p true, hs with
      | [], _ => trivial
      | [_], _ => trivial
      | [_, _], _ => trivial
      | _ :: _ :: _ :: _, hs => simp at hs; omega

/-- A path (at least 3 vertices) that already has no three consecutive collinear vertices is returned unchanged:
the result of `TrimCollinear` is exactly the set of corner vertices, in order. -/
theorem trim_fixed (closed : Bool) (p : List Pt) (h3 : 3 ≤ p.length) (h : NoCollinear closed p) :
    trimCollinear p (!closed) = p := by
  cases closed with
  | true => exact trim_fixed_closed p h3 h
  | false => exact trim_fixed_open p h3 h

/-- `TrimCollinear` is idempotent on paths without repeated points and 180-degree reversals. -/
theorem trim_idempotent (closed : Bool) (p : List Pt) (h : ForwardOnly closed p) :
    trimCollinear (trimCollinear p (!closed)) (!closed) = trimCollinear p (!closed) := by
  cases closed with
  | true =>
    obtain ⟨h1, h2⟩ := trim_closed_fwd p h
    cases h2 with
    | inl h2 => simp only [Bool.not_true] at h2 ⊢; rw [h2]; rfl
    | inr h2 => exact trim_fixed_closed _ h2 h1
  | false =>
    by_cases h3 : 3 ≤ p.length
    · obtain ⟨h1, h2⟩ := trim_open_fwd p h3 h
      cases h2 with
      | inl h2 => exact trim_fixed_open _ h2 h1
      | inr h2 =>
        obtain ⟨a, b, hab, hne⟩ := h2
        simp only [Bool.not_false] at hab ⊢
        rw [hab]; simp [trimCollinear, hne]
    · simp only [Bool.not_false]
      match p, h3 with
      | [], _ => rfl
      | [a], _ => rfl
      | [a, b], _ =>
        by_cases hab : a = b
        · subst hab; simp [trimCollinear]
        · simp [trimCollinear, hab]
      | _ :: _ :: _ :: _, h3 => simp at h3

-- non-vacuity: a square whose sides carry extra vertices, starting in the middle of a side
example : ForwardOnly true [⟨1, 0⟩, ⟨2, 0⟩, ⟨2, 2⟩, ⟨1, 2⟩, ⟨0, 2⟩, ⟨0, 0⟩] ∧
    trimCollinear [⟨1, 0⟩, ⟨2, 0⟩, ⟨2, 2⟩, ⟨1, 2⟩, ⟨0, 2⟩, ⟨0, 0⟩] false = [⟨2, 0⟩, ⟨2, 2⟩, ⟨0, 2⟩, ⟨0, 0⟩] ∧
    NoCollinear true [⟨2, 0⟩, ⟨2, 2⟩, ⟨0, 2⟩, ⟨0, 0⟩] := by decide
example : ForwardOnly false [⟨0, 0⟩, ⟨1, 1⟩, ⟨2, 2⟩, ⟨5, 0⟩] := by decide

/-- Without the hypothesis the clause fails (which is why the property states it): the spike `(10,0)→(10,5)→(10,0)`
makes `TrimCollinear` return three collinear vertices. -/
theorem trim_no_collinear_needs_hypothesis :
    trimCollinear [⟨0, 0⟩, ⟨10, 0⟩, ⟨10, 5⟩, ⟨10, 0⟩, ⟨20, 0⟩] true = [⟨0, 0⟩, ⟨10, 0⟩, ⟨20, 0⟩] ∧
    ¬ NoCollinear false [⟨0, 0⟩, ⟨10, 0⟩, ⟨20, 0⟩] ∧
    ¬ ForwardOnly false [⟨0, 0⟩, ⟨10, 0⟩, ⟨10, 5⟩, ⟨10, 0⟩, ⟨20, 0⟩] := by decide

/-! ## RamerDouglasPeucker -/

/-- The epsilon clause of the property, on the flags vector: every vertex that is not kept lies strictly between
two kept vertices `l < i < r` with nothing kept in between, and its distance from the line through
`path[l]`, `path[r]` is at most epsilon (`dist2 ≤ epsSqr`). -/
def RdpEps (ops : DistOps D) (path : List Pt) (eps : D) (flags : List Bool) : Prop :=
  ∀ i, i < path.length → flags[i]? = some false →
    ∃ l r, l < i ∧ i < r ∧ r < path.length ∧ flags[l]? = some true ∧ flags[r]? = some true ∧
      (∀ j, l < j → j < r → flags[j]? = some false) ∧
      ops.le (ops.dist2 (nth path i) (nth path l) (nth path r)) eps = true

/-- **Every vertex removed by `RamerDouglasPeucker` is within epsilon of the line through its two surviving
neighbours**, for every path — `path.front() == path.back()` included (repaired by the `fix:` commit 890f843: the
leading `while` of `RDP` now only moves `end` and `flags[end]` is set; the vertices it skips are copies of the end
point).  Hypotheses on the compared doubles: `DistLaws` (total preorder; distance 0 at the line's own points) and
`0 <= epsSqr`. -/
theorem rdp_eps (ops : DistOps D) (L : DistLaws ops) (path : List Pt) (eps : D)
    (hz : ops.le ops.zero eps = true) :
    RdpEps ops path eps (rdpFlags ops path eps) := by
  intro i hi hd
  have hlen : 1 ≤ path.length := by omega
  obtain ⟨h1, h2, h3, h4⟩ := initFlags_spec path.length hlen
  obtain ⟨g1, g2, g3⟩ := rdp_spec_full ops L path eps hz path.length 0 (path.length - 1) _
    (by omega) (by omega) (by rw [h1]; omega) h2 h3 h4
  unfold rdpFlags at hd ⊢
  simp only [] at hd ⊢
  have hkept0 := g2 0 (Or.inl (Nat.le_refl _))
  have hkeptn := g2 (path.length - 1) (Or.inr (Nat.le_refl _))
  by_cases hi0 : i = 0
  · subst hi0; rw [hkept0, h2] at hd; exact absurd hd (by simp)
  by_cases hin : i = path.length - 1
  · subst hin; rw [hkeptn, h3] at hd; exact absurd hd (by simp)
  obtain ⟨l, r, _, a2, a3, a4, a5, a6, a7, a8⟩ := g3 i (by omega) (by omega) hd
  exact ⟨l, r, a2, a3, by omega, a5, a6, a7, a8⟩

/-- `RamerDouglasPeucker` keeps both end points of every path. -/
theorem rdp_keeps_ends (ops : DistOps D) (L : DistLaws ops) (path : List Pt) (eps : D)
    (hz : ops.le ops.zero eps = true) :
    KeepsEnds path (ramerDouglasPeucker ops path eps) := by
  unfold ramerDouglasPeucker
  split
  · exact ⟨rfl, rfl⟩
  · rename_i h5
    obtain ⟨h1, h2, h3, h4⟩ := initFlags_spec path.length (by omega)
    obtain ⟨g1, g2, g3⟩ := rdp_spec_full ops L path eps hz path.length 0 (path.length - 1) _
      (by omega) (by omega) (by rw [h1]; omega) h2 h3 h4
    have hkept0 := g2 0 (Or.inl (Nat.le_refl _))
    have hkeptn := g2 (path.length - 1) (Or.inr (Nat.le_refl _))
    constructor
    · exact selectFlags_head _ _ _ (by unfold rdpFlags; simp only []; rw [hkept0]; exact h2)
    · exact selectFlags_getLast _ _ _ (by unfold rdpFlags; simp only []; rw [g1, h1])
        (by unfold rdpFlags; simp only []; rw [hkeptn]; exact h3)

/-- exact rational instantiation of the compared doubles: a value is `num/den` (`den > 0`; `1/0` is +infinity) -/
def ratOps : DistOps (Int × Int) where
  le := fun a b => decide (a.1 * b.2 ≤ b.1 * a.2)
  zero := (0, 1)
  maxD := (1, 0)
  dist2 := fun p l1 l2 =>
    let a := p.x - l1.x; let b := p.y - l1.y; let c := l2.x - l1.x; let d := l2.y - l1.y
    if c = 0 ∧ d = 0 then (0, 1) else ((a * d - c * b) * (a * d - c * b), c * c + d * d)

/-- the input of DESIGN.md §9 defect 5 (`front == back`), now a regression example -/
def rdpWitness : List Pt := [⟨0, 0⟩, ⟨10, 0⟩, ⟨20, 0⟩, ⟨20, 1000⟩, ⟨0, 0⟩]

-- before the fix the result was `{(0,0),(20,0)}`; now the far vertex and the end point stay
example : rdpFlags ratOps rdpWitness (1, 1) = [true, false, true, true, true] ∧
    ramerDouglasPeucker ratOps rdpWitness (1, 1) = [⟨0, 0⟩, ⟨20, 0⟩, ⟨20, 1000⟩, ⟨0, 0⟩] := by decide

/-! ## SimplifyPath -/

/-- `SimplifyPath` always returns: `GetNext`/`GetPrior` never run off the flags vector (at least two vertices stay
unflagged) and the `for (;;)` loop ends within `len + 1` iterations (the model's fuel), for every distance function,
every epsilon, closed or open. -/
theorem simplify_total (ops : DistOps D) (path : List Pt) (eps : D) (closed : Bool) :
    (simplifyPath ops path eps closed).isSome = true := by
  unfold simplifyPath
  split
  · rfl
  · rename_i h
    obtain ⟨f', hf', _⟩ := simplifyLoop_spec ops path eps closed (path.length + 1)
      (List.replicate path.length false) (simplifyInitDist ops path closed) 0
      (simplifyInit_inv path.length (by omega)) (by simp)
    unfold simplifyFlags
    rw [hf']; rfl

/- Full statement (FALSE for the current code when `Sqr(epsilon) >= MAX_DBL`, see `simplify_keeps_ends_false`):
   theorem simplify_keeps_ends : simplifyPath ops path eps false = some r → KeepsEnds path r -/

/-- `SimplifyPath` keeps both end points of an open path whenever `Sqr(epsilon) < MAX_DBL`
(`epsilon < 1.34e154`).  Missing for the full statement: for larger epsilon the test `distSqr[curr] > epsSqr`
no longer protects the end points (whose `distSqr` is `MAX_DBL`) and the last vertex can be flagged. -/
theorem simplify_keeps_ends_partial (ops : DistOps D) (path : List Pt) (eps : D) (r : List Pt)
    (htot : ∀ a b, ops.le a b = true ∨ ops.le b a = true)
    (htr : ∀ a b c, ops.le a b = true → ops.le b c = true → ops.le a c = true)
    (heps : ops.le ops.maxD eps = false)
    (h : simplifyPath ops path eps false = some r) : KeepsEnds path r := by
  unfold simplifyPath at h
  split at h
  · injection h with h; subst h; exact ⟨rfl, rfl⟩
  · rename_i hlen
    obtain ⟨f', hf', hl, hends⟩ := simplifyLoop_spec ops path eps false (path.length + 1)
      (List.replicate path.length false) (simplifyInitDist ops path false) 0
      (simplifyInit_inv path.length (by omega)) (by simp)
    obtain ⟨h0, hh⟩ := hends rfl htot htr heps (simplifyInit_open ops path (by omega))
    unfold simplifyFlags at h
    rw [hf'] at h
    simp only [Option.map_some, Option.some.injEq] at h
    subst h
    have conv : ∀ j, flagAt f' j = false → f'[j]? = some false := by
      intro j hj
      have hlt := flagAt_false_lt f' j hj
      unfold flagAt at hj
      rw [List.getD_eq_getElem?_getD, List.getElem?_eq_getElem hlt] at hj
      rw [List.getElem?_eq_getElem hlt]; simpa using hj
    exact ⟨selectFlags_head _ _ _ (conv 0 h0), selectFlags_getLast _ _ _ hl (conv _ hh)⟩

/-- **No removable vertex is left.**  `Nbr high f i j` says that `i` and `j` are remaining (unflagged) vertices and `j` is
the next remaining one after `i` in cyclic order.  When `SimplifyPath` exits, every remaining vertex `i` — every
interior one for an open path — whose remaining neighbours `p`, `n` are different vertices has
`PerpendicDistFromLineSqrd(path[i], path[p], path[n]) > epsSqr`; the other exit leaves two vertices (`p = n`).
Proved through the invariant "`distSqr` is current for every remaining vertex" (`DistCurrent`).
Hypothesis `hsym` (closed paths only): the distance does not depend on the order of the two line points — the C++
initialises `distSqr[high]` with the line points in the opposite order; exact for real arithmetic, in doubles the
two orders may differ in the last bits.  Paths with fewer than 4 vertices are returned unchanged by the code and
are outside the statement. -/
theorem simplify_fixpoint (ops : DistOps D) (path : List Pt) (eps : D) (closed : Bool) (hlen : 4 ≤ path.length)
    (hsym : closed = true → ∀ q a b, ops.dist2 q a b = ops.dist2 q b a)
    (f : List Bool) (h : simplifyFlags ops path eps closed = some f) :
    FixOk ops path eps closed (path.length - 1) f ∧
    simplifyPath ops path eps closed = some (selectFlags false path f) := by
  refine ⟨?_, ?_⟩
  · unfold simplifyFlags at h
    exact simplifyLoop_fix ops path eps closed (by omega) _ _ _ _
      (simplifyInit_inv path.length (by omega)) (by simp [simplifyInitDist])
      (simplifyInit_current ops path closed (by omega) hsym) f h
  · unfold simplifyPath; rw [if_neg (by omega), h]; rfl

/-- the open path of the second finding -/
def simplifyWitness : List Pt := [⟨0, 0⟩, ⟨10, 1⟩, ⟨20, 5⟩, ⟨30, 2⟩, ⟨40, 0⟩]

/-- **`SimplifyPath` drops the end point of an open path when `Sqr(epsilon) >= MAX_DBL`**: on
`{(0,0),(10,1),(20,5),(30,2),(40,0)}` with `epsSqr = +inf` the model (as the real code with epsilon = 1e200)
returns `{(0,0),(20,5)}`.  Evaluated on the faithful model with exact rational distances. -/
theorem simplify_keeps_ends_false :
    simplifyPath ratOps simplifyWitness (1, 0) false = some [⟨0, 0⟩, ⟨20, 5⟩] ∧
    ¬ KeepsEnds simplifyWitness [⟨0, 0⟩, ⟨20, 5⟩] := by
  refine ⟨by decide, ?_⟩
  unfold KeepsEnds simplifyWitness; simp

theorem intOps_symm : ∀ q a b, intOps.dist2 q a b = intOps.dist2 q b a := by
  intro q a b; simp only [intOps]; grind

-- non-vacuity of `simplify_fixpoint`: closed 6-gon, two vertices go, the remaining ones are all farther than eps
example : simplifyFlags intOps [⟨0, 0⟩, ⟨10, 1⟩, ⟨20, 0⟩, ⟨20, 20⟩, ⟨10, 21⟩, ⟨0, 20⟩] 900 true
    = some [false, true, false, false, true, false] := by decide

-- non-vacuity of `simplify_keeps_ends_partial`: lawful integer distances, finite epsilon, something is removed
example : intOps.le intOps.maxD 10000 = false ∧
    simplifyPath intOps simplifyWitness 10000 false = some [⟨0, 0⟩, ⟨20, 5⟩, ⟨40, 0⟩] := by decide

/-! ## StripDuplicates / StripNearEqual / TranslatePath / GetBounds: defining equations -/

/-- `StripDuplicates` returns exactly the input with its runs collapsed (`collapseRuns`: the first vertex, then
every vertex that differs from its predecessor; closed: minus trailing copies of the first vertex). -/
theorem stripDuplicates_eq (p : List Pt) (closed : Bool) : stripDuplicates p closed = collapseRuns p closed := by
  cases p with
  | nil => rfl
  | cons a rest =>
    unfold stripDuplicates stripGen collapseRuns
    simp only []
    rw [stripAux_eq_filterMap]
    cases closed with
    | false => rfl
    | true =>
      simp only [if_true]
      rw [popBackRev_eq_dropWhile a _ (by rw [List.getLast?_reverse]; rfl)]
      split <;> simp_all

/-- `StripNearEqual` / `StripDuplicates` (any `eqv`): the result is a subsequence that starts with the first vertex,
no vertex of it is `eqv` to the one before it, and for a closed path the last one is not `eqv` to the first unless
a single vertex is left. With `eqv := (==)` this says: no two consecutive vertices equal, closed: last ≠ first. -/
theorem stripGen_contract (eqv : Pt → Pt → Bool) (p : List Pt) (closed : Bool) :
    List.Sublist (stripGen eqv p closed) p ∧ (stripGen eqv p closed).head? = p.head? ∧
    NoAdj eqv (stripGen eqv p closed) ∧
    (closed = true → (stripGen eqv p closed).length ≤ 1 ∨
      ∃ z a, (stripGen eqv p closed).getLast? = some z ∧ p.head? = some a ∧ eqv z a = false) := by
  cases p with
  | nil => simp [stripGen, NoAdj]
  | cons a rest =>
    have hopen : stripGen eqv (a :: rest) false = a :: stripAux eqv a rest := by simp [stripGen]
    have hsub : List.Sublist (stripGen eqv (a :: rest) false) (a :: rest) := by
      rw [hopen]; exact List.Sublist.cons_cons _ (stripAux_sublist eqv a rest)
    have hadj : NoAdj eqv (stripGen eqv (a :: rest) false) := by rw [hopen]; exact stripAux_noAdj eqv a rest
    cases closed with
    | false => exact ⟨hsub, by rw [hopen]; rfl, hadj, by simp⟩
    | true =>
      have hpre := stripGen_prefix eqv a rest
      have hlast : (popBackRev eqv a (a :: stripAux eqv a rest).reverse).getLast? = some a := by
        rw [popBackRev_getLast, List.getLast?_reverse]; rfl
      refine ⟨List.Sublist.trans hpre.sublist hsub, ?_, NoAdj_prefix eqv _ _ hpre hadj, fun _ => ?_⟩
      · simp only [stripGen, if_true, List.head?_reverse]; exact hlast
      · simp only [stripGen, if_true, List.length_reverse, List.getLast?_reverse]
        cases popBackRev_head eqv a (a :: stripAux eqv a rest).reverse with
        | inl h => exact Or.inl h
        | inr h => obtain ⟨z, hz, he⟩ := h; exact Or.inr ⟨z, a, hz, rfl, he⟩

/-- `StripDuplicates` instance of the contract, in plain words -/
theorem stripDuplicates_contract (p : List Pt) (closed : Bool) :
    isSubseq (stripDuplicates p closed) p = true ∧
    NoAdj (fun a b => decide (a = b)) (stripDuplicates p closed) ∧
    (closed = true → (stripDuplicates p closed).length ≤ 1 ∨
      (stripDuplicates p closed).getLast? ≠ (stripDuplicates p closed).head?) := by
  obtain ⟨h1, h2, h3, h4⟩ := stripGen_contract (fun a b => decide (a = b)) p closed
  refine ⟨(isSubseq_iff_sublist _ _).mpr h1, h3, fun hc => ?_⟩
  cases h4 hc with
  | inl h => exact Or.inl h
  | inr h =>
    obtain ⟨z, a, hz, ha, he⟩ := h
    refine Or.inr ?_
    unfold stripDuplicates
    rw [hz, h2, ha]
    simpa using he

/-- `TranslatePath`: same length, vertex `i` is moved by `(dx, dy)`. -/
theorem translatePath_spec (p : List Pt) (dx dy : Int) :
    (translatePath p dx dy).length = p.length ∧
    ∀ i : Nat, (translatePath p dx dy)[i]? = (p[i]?).map (fun q => Pt.mk (q.x + dx) (q.y + dy)) := by
  unfold translatePath; exact ⟨List.length_map _, fun i => List.getElem?_map⟩

/-- translating by zero is the identity and translations compose additively -/
theorem translatePath_zero_add (p : List Pt) (dx dy ex ey : Int) :
    translatePath p 0 0 = p ∧
    translatePath (translatePath p dx dy) ex ey = translatePath p (dx + ex) (dy + ey) := by
  unfold translatePath
  refine ⟨?_, ?_⟩
  · induction p with
    | nil => rfl
    | cons a t ih => simp
  · simp [List.map_map, Function.comp_def, Int.add_assoc]

theorem ellipseLoop_length {S : Type} (emit : S → Pt) (next : S → S) (k : Nat) (s : S) :
    (ellipseLoop emit next k s).length = k := by
  induction k generalizing s with
  | zero => rfl
  | succ k ih => simp [ellipseLoop, ih]

/-- `Ellipse` returns exactly `steps` vertices (one vertex when `steps` is 0 or 1), whatever the trigonometry. -/
theorem ellipse_count {S : Type} (first : Pt) (emit : S → Pt) (next : S → S) (s0 : S) (steps : Nat) :
    (ellipseGen first emit next s0 steps).length = max steps 1 := by
  unfold ellipseGen; rw [List.length_cons, ellipseLoop_length]; omega

/-- `GetBounds` of the empty path is `Rect64::InvalidRect()` (max, max, lowest, lowest). -/
theorem getBounds_nil : getBounds [] = ⟨9223372036854775807, 9223372036854775807, -9223372036854775808, -9223372036854775808⟩ := rfl

/-- `GetBounds` of a non-empty path with `int64` coordinates: every vertex is inside the rectangle and each of the
four sides is attained by some vertex (so left/top are the minima and right/bottom the maxima). -/
theorem getBounds_spec (p : List Pt) (hne : p ≠ [])
    (hr : ∀ q ∈ p, int64Lowest ≤ q.x ∧ q.x ≤ int64Max ∧ int64Lowest ≤ q.y ∧ q.y ≤ int64Max) :
    (∀ q ∈ p, (getBounds p).left ≤ q.x ∧ q.x ≤ (getBounds p).right ∧
      (getBounds p).top ≤ q.y ∧ q.y ≤ (getBounds p).bottom) ∧
    (∃ q ∈ p, q.x = (getBounds p).left) ∧ (∃ q ∈ p, q.x = (getBounds p).right) ∧
    (∃ q ∈ p, q.y = (getBounds p).top) ∧ (∃ q ∈ p, q.y = (getBounds p).bottom) := by
  unfold getBounds
  obtain ⟨_, hall⟩ := bounds_fold_le p invalidRect
  obtain ⟨a, ha⟩ := List.exists_mem_of_ne_nil p hne
  have hb := hall a ha
  have hra := hr a ha
  refine ⟨hall, ?_, ?_, ?_, ?_⟩
  · cases bounds_fold_left p invalidRect with
    | inr h => exact h
    | inl h =>
      have e : invalidRect.left = int64Max := rfl
      exact ⟨a, ha, by rw [e] at h; omega⟩
  · cases bounds_fold_right p invalidRect with
    | inr h => exact h
    | inl h =>
      have e : invalidRect.right = int64Lowest := rfl
      exact ⟨a, ha, by rw [e] at h; omega⟩
  · cases bounds_fold_top p invalidRect with
    | inr h => exact h
    | inl h =>
      have e : invalidRect.top = int64Max := rfl
      exact ⟨a, ha, by rw [e] at h; omega⟩
  · cases bounds_fold_bottom p invalidRect with
    | inr h => exact h
    | inl h =>
      have e : invalidRect.bottom = int64Lowest := rfl
      exact ⟨a, ha, by rw [e] at h; omega⟩

-- non-vacuity
example : stripDuplicates [⟨1, 1⟩, ⟨1, 1⟩, ⟨2, 0⟩, ⟨2, 0⟩, ⟨1, 1⟩, ⟨1, 1⟩] true = [⟨1, 1⟩, ⟨2, 0⟩] := by decide
example : getBounds [⟨3, -1⟩, ⟨-7, 4⟩, ⟨0, 9⟩] = ⟨-7, -1, 3, 9⟩ := by decide

-- non-vacuity of `rdp_eps` / `rdp_keeps_ends` (lawful `intOps`, `0 ≤ epsSqr`): some vertices go; front ≠ back and front == back
example : intOps.le intOps.zero 10000 = true ∧
    ramerDouglasPeucker intOps [(⟨0, 0⟩ : Pt), ⟨10, 1⟩, ⟨20, 0⟩, ⟨30, 40⟩, ⟨40, 0⟩, ⟨50, 0⟩] 10000
      = [⟨0, 0⟩, ⟨20, 0⟩, ⟨30, 40⟩, ⟨40, 0⟩, ⟨50, 0⟩] ∧
    ramerDouglasPeucker intOps [(⟨0, 0⟩ : Pt), ⟨10, 1⟩, ⟨20, 0⟩, ⟨30, 40⟩, ⟨0, 0⟩, ⟨0, 0⟩] 10000
      = [⟨0, 0⟩, ⟨20, 0⟩, ⟨30, 40⟩, ⟨0, 0⟩] := by decide

end Clipper.Props.C20
