/-
C01 — THE ACTIVE EDGE LIST STAYS SORTED THROUGH THE WHOLE SWEEP (composition of the AEL-order slices).

Pieces that existed: `Props/C01Order` (what `IsValidAelOrder` means; `InsertLeftEdge`/`InsertRightEdge` keep a sorted AEL sorted),
`Props/C10Isect` (within one scanbeam `BuildIntersectList` records exactly the strict `curr_x` inversions and
`ProcessIntersectList` leaves the AEL stably sorted by `curr_x`), `Props/C01` (winding bookkeeping, *given* that list order is
geometric order).  This file composes them over the scanbeam model `Model/SweepOrder.lean`:

 1. `exact_order_between_scanlines`   two straight edges keep their exact order inside a scanbeam, or cross exactly once
                                      strictly inside it, and then their order at the top is the reverse;
 2. `scanbeam_keeps_sorted`           one scanbeam: insertion, `DoIntersections`, `DoTopOfScanbeam` keep the AEL sorted;
 3. `intersections_are_exactly_crossings`  the pairs swapped in a scanbeam are exactly the pairs that cross strictly inside it;
 4. `sweep_keeps_sorted`              induction over all scanbeams; `sweep_ael_left_to_right` (the premise of the winding theorems).
Also: `doIntersections_is_engine` (step (2) of the model IS `BuildIntersectList` + `ProcessIntersectList` of `Props/C10Isect`),
`validGen_ok` / `validGen_shared_point` (the regenerated `IsValidAelOrder` is an admissible insertion predicate),
`sweep_rounding_independent` (every rounding within 1/2 of the exact x gives the same sweep: `TopX` enters only through `Near`).

Orientation: y grows downwards, the sweep climbs from large y to small y; a scanbeam is `[y1, y0]` with `y1 < y0`.
Exact x-coordinates are fractions compared by cross-multiplication (`xlt`, `xeq`, `far`, `ltAbove`, `ltBelow` of the model).
Horizontal edges are excluded (`SEdge.Up`); joins (`join_with`) do not occur in the model.
-/
import ClipperVerif.Lemmas.SweepOrder
import ClipperVerif.Props.C10Isect
import ClipperVerif.Model.Ael
namespace Clipper.Props.C01Sweep
open Clipper Clipper.Model.AelOrder Clipper.Model.SweepOrder Clipper.Lemmas.SweepOrder
open Clipper.Model.BuildIntersectList (buildIntersectList leX)
open Clipper.Model.IntersectList (process)
open Clipper.Lemmas.BuildIntersectList (ids)

/-! ## (1) two straight edges inside one scanbeam -/

/-- **exact_order_between_scanlines.**  Two (non-horizontal) straight edges `a`, `b`, in the order `a` left of `b` just above
the scanline `y0` (`ltAbove y0 a b`: smaller exact x at `y0`, or the same point and `a` turning left of `b`), and a scanline
`y1 < y0` (the lines are compared; for edges alive on `[y1, y0]` these are the edges).

* If they are NOT in the opposite order at `y1` (`¬ xlt y1 b a`) they do not cross inside the beam: `a` is strictly left of `b`
  at EVERY rational height `yn/yd` strictly between the scanlines, and still left of `b` just below `y1` (`ltBelow y1 a b`; they
  may meet in one point ON the scanline `y1`).
* If they are in the opposite order at `y1` (`xlt y1 b a`) they were strictly apart at `y0` and cross exactly once, at the
  rational height `cn/cd` STRICTLY inside the beam: below it (`height > cn/cd`) `a` is strictly left of `b`, above it strictly
  right, at it they coincide.

x-coordinates at rational heights are `Model.AelOrder.xNum/xDen` compared by `xLt` (denominators positive for `Up` edges). -/
theorem exact_order_between_scanlines (a b : SEdge) (y0 y1 : Int) (hy : y1 < y0) (hab : ltAbove y0 a b) :
    (¬ xlt y1 b a →
        ltBelow y1 a b ∧
        ∀ yn yd : Int, 0 < yd → y1 * yd < yn → yn < y0 * yd → xLt a.bot a.top b.bot b.top yn yd) ∧
    (xlt y1 b a →
        xlt y0 a b ∧
        ∃ cn cd : Int, 0 < cd ∧ y1 * cd < cn ∧ cn < y0 * cd ∧
          ∀ yn yd : Int, 0 < yd →
            (xLt a.bot a.top b.bot b.top yn yd ↔ cn * yd < yn * cd) ∧
            (xLt b.bot b.top a.bot a.top yn yd ↔ yn * cd < cn * yd)) := by
  constructor
  · intro h1
    refine ⟨ltBelow_of_not_reversed hy hab h1, ?_⟩
    intro yn yd hyd hlo hhi
    rw [xLt_iff_G y0 a b yn yd hyd]
    refine convex_pos (delta y0 a b) (sigma a b) (y0 - y1) yd (yn - y1 * yd) (y0 * yd - yn) hyd (by omega) (by omega)
      (by grind) ((ltAbove_iff y0 a b).1 hab) ?_
    rw [← delta_affine y0 y1 a b]
    rw [xgt_iff_delta] at h1
    omega
  · intro h1
    obtain ⟨hD0, hs, hD1⟩ := reversed_facts hy hab h1
    refine ⟨(xlt_iff_delta y0 a b).2 hD0, y0 * (-(sigma a b)) - delta y0 a b, -(sigma a b), by omega, ?_, by omega, ?_⟩
    · have e := delta_affine y0 y1 a b
      have e2 : y1 * (-(sigma a b)) = y0 * (-(sigma a b)) + (y0 - y1) * sigma a b := by grind
      omega
    · intro yn yd hyd
      rw [xLt_iff_G y0 a b yn yd hyd, xGt_iff_G y0 a b yn yd hyd]
      have e : yd * delta y0 a b + (y0 * yd - yn) * sigma a b =
          yn * (-(sigma a b)) - (y0 * (-(sigma a b)) - delta y0 a b) * yd := by grind
      rw [e]
      constructor <;> omega

/-- non-vacuity, first case: `a = (0,10)→(0,0)` and `b = (4,10)→(2,0)` approach but do not cross on `[0,10]` -/
example : let a : SEdge := ⟨0, ⟨0, 10⟩, ⟨0, 0⟩⟩; let b : SEdge := ⟨1, ⟨4, 10⟩, ⟨2, 0⟩⟩
    ltAbove 10 a b ∧ ¬ xlt 0 b a ∧ xLt a.bot a.top b.bot b.top 7 2 := by decide
/-- second case: `a = (0,10)→(6,0)` and `b = (4,10)→(2,0)` cross at height 5 (strictly inside `[0,10]`): reversed at the top -/
example : let a : SEdge := ⟨0, ⟨0, 10⟩, ⟨6, 0⟩⟩; let b : SEdge := ⟨1, ⟨4, 10⟩, ⟨2, 0⟩⟩
    ltAbove 10 a b ∧ xlt 0 b a ∧ xLt a.bot a.top b.bot b.top 6 1 ∧ xLt b.bot b.top a.bot a.top 4 1 ∧
      ¬ xLt a.bot a.top b.bot b.top 5 1 ∧ ¬ xLt b.bot b.top a.bot a.top 5 1 := by decide
/-- third case: the two bounds of a local minimum leave one point: ordered by direction just above it -/
example : let a : SEdge := ⟨0, ⟨3, 10⟩, ⟨0, 0⟩⟩; let b : SEdge := ⟨1, ⟨3, 10⟩, ⟨5, 2⟩⟩
    ltAbove 10 a b ∧ ¬ xlt 10 a b ∧ ¬ xlt 2 b a := by decide

/-! ## (2) one scanbeam -/

/-- **the AEL at a scanline** `y`, before the local minima of `y` are inserted (i.e. as `DoTopOfScanbeam(y)` leaves it):
strictly sorted by exact x at `y`, any two edges more than one unit apart; every edge an input edge that continues above `y`;
an edge that starts on `y` is not a bound of a local minimum on `y` (it continues a bound). -/
structure AelAt (edges : List SEdge) (mins : Int → List (SEdge × SEdge)) (y : Int) (ael : List SEdge) : Prop where
  sorted : ael.Pairwise (fun a b => xlt y a b ∧ far y a b)
  mem : ∀ e ∈ ael, e ∈ edges ∧ AliveAbove y e ∧ (e.bot.y = y → e ∉ boundsOf (mins y))

/-- the empty AEL before the first scanline -/
theorem aelAt_nil (edges : List SEdge) (mins : Int → List (SEdge × SEdge)) (y : Int) : AelAt edges mins y [] :=
  ⟨List.Pairwise.nil, fun _ h => nomatch h⟩

/-- **scanbeam_keeps_sorted.**  Hypotheses: the AEL entering the scanline `y0` is as `AelAt` says; no input edge is horizontal
(`AllUp`); `next` continues bounds (`NextOK`); `cx` is within 1/2 of the exact x (`Near`); and for the scanbeam `[y1, y0]`
(`BeamOK`): `y1 < y0`; the local minima on `y0` are pairs of input edges leaving one point, left bound first, and every other
edge alive there is more than one unit away from them (`MinsOK`, `GPmin`); the insertion predicate answers by exact x for
edges more than one unit apart (`ValidOK` — `validGen_ok`: the regenerated `IsValidAelOrder` does); no input edge ends
strictly inside the scanbeam (`NoTopInside`: the scanlines are all vertex heights); at `y1` two edges of the scanbeam are
more than one unit apart unless they end in one point where both bounds end (`GPtop`).

Conclusions, for the three stages of `beamStep`:
 (1) after `InsertLocalMinimaIntoAEL(y0)` the AEL is sorted in the exact order just above `y0` (`ltAbove y0`: exact x, the two
     bounds of a local minimum by direction) and consists of the old edges and the bounds of the local minima of `y0`;
 (2) after `DoIntersections(y1)` it is a permutation of that, non-decreasing in `curr_x = cx · y1`, any two edges whose exact
     x at `y1` differ by more than 1 are in exact order, and it is sorted in the exact order just below `y1` (`ltBelow y1`);
 (3) after `DoTopOfScanbeam(y1)` it is again as `AelAt` says, for `y1`.
("More than 1": for exact x-coordinates exactly 1 apart, e.g. 3.5 and 4.5, `nearbyint` gives 4 and 4 and the stable sort keeps
whatever order they had; the statement with `≥ 1` is false of model and code.) -/
theorem scanbeam_keeps_sorted (edges : List SEdge) (valid : Int → SEdge → SEdge → Bool) (cx : SEdge → Int → Int)
    (next : SEdge → Option SEdge) (mins : Int → List (SEdge × SEdge)) (ael : List SEdge) (y0 y1 : Int)
    (hup : AllUp edges) (hnx : NextOK edges next mins) (hn : Near cx)
    (hb : BeamOK edges valid next mins y0 y1) (h0 : AelAt edges mins y0 ael) :
    let s := beamStep valid cx next mins ael y0 y1
    (s.inserted.Pairwise (ltAbove y0) ∧ (∀ e, e ∈ s.inserted ↔ e ∈ ael ∨ e ∈ boundsOf (mins y0))) ∧
    (s.afterIsect.Perm s.inserted ∧
      s.afterIsect.Pairwise (fun a b => cx a y1 ≤ cx b y1 ∧ (far y1 a b → xlt y1 a b)) ∧
      s.afterIsect.Pairwise (ltBelow y1)) ∧
    AelAt edges mins y1 s.afterTop := by
  obtain ⟨hy, hm, hgm, hv, hnt, hgt⟩ := hb
  intro s
  -- (1)
  have hs0 : ael.Pairwise (ltU y0) :=
    h0.sorted.imp_of_mem (fun {a b} ha hb h => ltU_of_xlt (hup a (h0.mem a ha).1) (hup b (h0.mem b hb).1) h.1)
  have hfresh : ∀ e ∈ ael, e ∉ boundsOf (mins y0) := by
    intro e he hin
    obtain ⟨p, hp, hep⟩ := mem_boundsOf.1 hin
    obtain ⟨_, _, hbot, hby, _⟩ := hm.1 p hp
    have : e.bot.y = y0 := by rcases hep with rfl | rfl; exact hby; rw [← hbot]; exact hby
    exact (h0.mem e he).2.2 this hin
  obtain ⟨i1, i2⟩ := insertMins_sorted edges (valid y0) y0 hup hv (mins y0) ael hm.1 hm.2 hgm hs0
    (fun e he => ⟨(h0.mem e he).1, (h0.mem e he).2.1⟩) hfresh
  have hmem1 : ∀ e ∈ s.inserted, e ∈ edges ∧ AliveAbove y0 e := by
    intro e he
    rcases (i2 e).1 he with h | h
    · exact ⟨(h0.mem e h).1, (h0.mem e h).2.1⟩
    · obtain ⟨p, hp, hep⟩ := mem_boundsOf.1 h
      obtain ⟨e1, e2, hbot, hby, _⟩ := hm.1 p hp
      rcases hep with rfl | rfl
      · have := hup _ e1
        exact ⟨e1, by unfold AliveAbove; unfold SEdge.Up at this; omega⟩
      · have := hup _ e2
        rw [hbot] at hby
        exact ⟨e2, by unfold AliveAbove; unfold SEdge.Up at this; omega⟩
  -- every edge of the scanbeam reaches its top
  have hmem1' : ∀ e ∈ s.inserted, e ∈ edges ∧ AliveBelow y1 e ∧ y0 ≤ e.bot.y := by
    intro e he
    obtain ⟨h1, h2⟩ := hmem1 e he
    have := hnt e h1
    exact ⟨h1, by unfold AliveBelow; unfold AliveAbove at h2; omega, h2.2⟩
  -- (2)
  have hperm : s.afterIsect.Perm s.inserted := doIntersections_perm cx y1 _
  have j1 := doIntersections_exact_of_far hn y1 s.inserted (fun e he => by
    obtain ⟨h1, h2, _⟩ := hmem1' e he
    exact ⟨hup e h1, h2.1, Int.le_of_lt h2.2⟩)
  have j2 := doIntersections_below edges next y0 y1 s.inserted hy hn hup hgt i1 (fun e he => ⟨(hmem1' e he).1, (hmem1' e he).2.1⟩)
  have hmem2 : ∀ e ∈ s.afterIsect, e ∈ edges ∧ AliveBelow y1 e ∧ y0 ≤ e.bot.y :=
    fun e he => hmem1' e (hperm.mem_iff.1 he)
  -- (3)
  have k1 := topOfBeam_sorted edges next mins y1 s.afterIsect hup hnx hgt j2 (fun e he => ⟨(hmem2 e he).1, (hmem2 e he).2.1⟩)
  have k2 := topOfBeam_mem edges next mins y0 y1 s.afterIsect hy hup hnx hmem2
  exact ⟨⟨i1.imp (fun h => h.2.2), i2⟩, ⟨hperm, j1, j2⟩, ⟨k1, k2⟩⟩

/-! ## step (2) IS what the engine does: composition with `Props/C10Isect` -/

theorem ids_keyed (cx : SEdge → Int → Int) (y1 : Int) (ael : List SEdge) : ids (keyed cx y1 ael) = idsOf ael := by
  simp [ids, keyed, idsOf, List.map_map, Function.comp_def]

/-- **doIntersections_is_engine.**  Run the model of `BuildIntersectList` (`Model/BuildIntersectList.lean`: the merge sort over
the SEL with its `jump` runs, recording `AddNewIntersectNode(*tmp, *right)`) on the AEL keyed by `curr_x = cx · y1`, hand its
node list in ANY order (`std::sort(…, IntersectListSort)` of the real code) to the model of the `ProcessIntersectList` loop
(`Model/IntersectList.process`): the loop never scans past the end of the list, and the swaps leave the AEL in exactly the
order `doIntersections` defines.  Only hypothesis: the edges have distinct identities. -/
theorem doIntersections_is_engine (cx : SEdge → Int → Int) (y1 : Int) (ael : List SEdge) (hnd : (idsOf ael).Nodup)
    (nodes : List (Nat × Nat)) (hperm : nodes.Perm (buildIntersectList (keyed cx y1 ael)).nodes) :
    process nodes.length (idsOf ael) nodes = .ok (idsOf (doIntersections cx y1 ael)) := by
  have h := Clipper.Props.C10Isect.processIntersectList_no_fault_built (keyed cx y1 ael) (by rw [ids_keyed]; exact hnd)
    nodes hperm
  rw [ids_keyed] at h
  rw [h, Clipper.Props.C10Isect.buildIntersectList_sorted]
  have hm : (doIntersections cx y1 ael).map (fun e => (e.id, cx e y1)) = (keyed cx y1 ael).mergeSort leX := by
    rw [doIntersections_eq_mergeSort]
    unfold keyed
    exact List.map_mergeSort (fun a _ b _ => by simp [leCx, leX])
  rw [← hm]
  simp [ids, idsOf, List.map_map, Function.comp_def]

/-! ## (3) the swaps of a scanbeam are exactly the crossings inside it -/

/-- in general position at `y1`, `curr_x` compares strictly exactly as the exact x does -/
theorem cx_lt_iff_xlt {edges : List SEdge} {next : SEdge → Option SEdge} {cx : SEdge → Int → Int} {y1 : Int}
    (hup : AllUp edges) (hn : Near cx) (hgt : GPtop edges next y1) {a b : SEdge} (ha : a ∈ edges) (hb : b ∈ edges)
    (hne : a ≠ b) (la : AliveBelow y1 a) (lb : AliveBelow y1 b) : cx b y1 < cx a y1 ↔ xlt y1 b a := by
  have ua := hup a ha; have ub := hup b hb
  have ra : a.top.y ≤ y1 ∧ y1 ≤ a.bot.y := by unfold AliveBelow at la; omega
  have rb : b.top.y ≤ y1 ∧ y1 ≤ b.bot.y := by unfold AliveBelow at lb; omega
  rcases hgt a ha b hb hne la lb with hf | ⟨htop, hty, _, _⟩
  · constructor
    · intro h
      rcases hf with h' | h'
      · have := near_strict hn ua ub ra rb h'; omega
      · exact xlt_of_xltBy1 ub ua h'
    · intro h
      exact near_strict hn ub ua rb ra (xltBy1_of_far_of_xlt ub ua (far_symm hf) h)
  · have ca : cx a y1 = a.top.x := near_exact hn ua ra _ (by rw [← hty]; exact exN_at_top a)
    have cb : cx b y1 = b.top.x := near_exact hn ub rb _ (by rw [← hty, htop]; exact exN_at_top b)
    have hxe := xeq_of_same_top htop hty
    constructor
    · intro h; rw [ca, cb, htop] at h; omega
    · intro h; unfold xeq at hxe; unfold xlt at h; omega

/-- **intersections_are_exactly_crossings.**  Same hypotheses as `scanbeam_keeps_sorted`, plus distinct identities of the input
edges.  Let `L` be the AEL after the insertions at `y0` and `nodes` the intersect nodes `BuildIntersectList(y1)` records for it
(model of `Props/C10Isect`, keys `cx · y1`).  Then
 * no node is recorded twice, and every node is `(a.id, b.id)` for two edges with `a` left of `b` in `L`;
 * for any two edges `a` left of `b` in `L` (`ltAbove y0 a b`: that is their exact order just above `y0`):
   the node `(a.id, b.id)` is recorded IFF their exact order at `y1` is the opposite (`xlt y1 b a`)
   IFF the two edges meet at a height `cn/cd` STRICTLY inside the scanbeam; the node `(b.id, a.id)` is never recorded.
So the pairs swapped in the scanbeam are exactly the pairs that cross strictly inside it, each once. -/
theorem intersections_are_exactly_crossings (edges : List SEdge) (valid : Int → SEdge → SEdge → Bool)
    (cx : SEdge → Int → Int) (next : SEdge → Option SEdge) (mins : Int → List (SEdge × SEdge)) (ael : List SEdge)
    (y0 y1 : Int) (hup : AllUp edges) (hnx : NextOK edges next mins) (hn : Near cx) (hid : IdsInj edges)
    (hb : BeamOK edges valid next mins y0 y1) (h0 : AelAt edges mins y0 ael) :
    let L := (beamStep valid cx next mins ael y0 y1).inserted
    let nodes := (buildIntersectList (keyed cx y1 L)).nodes
    nodes.Nodup ∧
    (∀ n ∈ nodes, ∃ a b, [a, b].Sublist L ∧ n = (a.id, b.id)) ∧
    (∀ a b, [a, b].Sublist L →
      ltAbove y0 a b ∧
      ((a.id, b.id) ∈ nodes ↔ xlt y1 b a) ∧
      (b.id, a.id) ∉ nodes ∧
      (xlt y1 b a ↔ ∃ cn cd : Int, 0 < cd ∧ y1 * cd < cn ∧ cn < y0 * cd ∧
        xNum a.bot a.top cn cd * xDen b.bot b.top cd = xNum b.bot b.top cn cd * xDen a.bot a.top cd)) := by
  obtain ⟨⟨i1, i2⟩, _, _⟩ := scanbeam_keeps_sorted edges valid cx next mins ael y0 y1 hup hnx hn hb h0
  obtain ⟨hy, hm, _, _, hnt, hgt⟩ := hb
  intro L nodes
  -- members of L
  have hmemL : ∀ e ∈ L, e ∈ edges ∧ AliveBelow y1 e := by
    intro e he
    have hh : e ∈ edges ∧ AliveAbove y0 e := by
      rcases (i2 e).1 he with h | h
      · exact ⟨(h0.mem e h).1, (h0.mem e h).2.1⟩
      · obtain ⟨p, hp, hep⟩ := mem_boundsOf.1 h
        obtain ⟨e1, e2, hbot, hby, _⟩ := hm.1 p hp
        rcases hep with rfl | rfl
        · have := hup _ e1
          exact ⟨e1, by unfold AliveAbove; unfold SEdge.Up at this; omega⟩
        · have := hup _ e2
          rw [hbot] at hby
          exact ⟨e2, by unfold AliveAbove; unfold SEdge.Up at this; omega⟩
    have := hnt e hh.1
    exact ⟨hh.1, by unfold AliveBelow; have := hh.2; unfold AliveAbove at this; omega⟩
  have hndL : L.Nodup := nodup_of_pairwise_irrefl (ltAbove_irrefl y0) i1
  have hndI : (idsOf L).Nodup := by
    unfold idsOf
    rw [List.Nodup, List.pairwise_map]
    exact (List.Pairwise.and_mem.1 hndL).imp (fun {a b} ⟨ha, hb, hne⟩ h => hne (hid a (hmemL a ha).1 b (hmemL b hb).1 h))
  -- membership in the node list, on sweep edges
  have hnode : ∀ n, n ∈ nodes ↔ ∃ a b, [a, b].Sublist L ∧ n = (a.id, b.id) ∧ xlt y1 b a := by
    intro n
    rw [Clipper.Props.C10Isect.mem_nodes_iff]
    constructor
    · rintro ⟨ka, kb, hs, hlt, rfl⟩
      obtain ⟨l', hl', hmap⟩ := List.sublist_map_iff.1 hs
      match l', hmap with
      | [a, b], hmap =>
        simp only [List.map_cons, List.map_nil, List.cons.injEq, and_true] at hmap
        obtain ⟨rfl, rfl⟩ := hmap
        have ha := hl'.subset (show a ∈ [a, b] by simp)
        have hb' := hl'.subset (show b ∈ [a, b] by simp)
        have hne : a ≠ b := by
          have := hndL.sublist hl'
          intro h; subst h; simp at this
        exact ⟨a, b, hl', rfl, (cx_lt_iff_xlt hup hn hgt (hmemL a ha).1 (hmemL b hb').1 hne (hmemL a ha).2 (hmemL b hb').2).1 hlt⟩
    · rintro ⟨a, b, hs, rfl, hx⟩
      have ha := hs.subset (show a ∈ [a, b] by simp)
      have hb' := hs.subset (show b ∈ [a, b] by simp)
      have hne : a ≠ b := by
        have := hndL.sublist hs
        intro h; subst h; simp at this
      refine ⟨(a.id, cx a y1), (b.id, cx b y1), ?_, ?_, rfl⟩
      · have := hs.map (fun e => (e.id, cx e y1))
        simpa [keyed] using this
      · exact (cx_lt_iff_xlt hup hn hgt (hmemL a ha).1 (hmemL b hb').1 hne (hmemL a ha).2 (hmemL b hb').2).2 hx
  refine ⟨Clipper.Props.C10Isect.nodes_nodup _ (by rw [ids_keyed]; exact hndI), ?_, ?_⟩
  · intro n hn'
    obtain ⟨a, b, hs, he, _⟩ := (hnode n).1 hn'
    exact ⟨a, b, hs, he⟩
  · intro a b hs
    have hab : ltAbove y0 a b := List.pairwise_iff_forall_sublist.1 i1 hs
    have ha := hs.subset (show a ∈ [a, b] by simp)
    have hb' := hs.subset (show b ∈ [a, b] by simp)
    -- a node names its two edges
    have hname : ∀ a' b', [a', b'].Sublist L → (a'.id, b'.id) = (a.id, b.id) → a' = a ∧ b' = b := by
      intro a' b' hs' he
      have ha' := hs'.subset (show a' ∈ [a', b'] by simp)
      have hb'' := hs'.subset (show b' ∈ [a', b'] by simp)
      simp only [Prod.mk.injEq] at he
      exact ⟨hid a' (hmemL a' ha').1 a (hmemL a ha).1 he.1, hid b' (hmemL b' hb'').1 b (hmemL b hb').1 he.2⟩
    refine ⟨hab, ?_, ?_, ?_⟩
    · rw [hnode]
      constructor
      · rintro ⟨a', b', hs', he, hx⟩
        obtain ⟨rfl, rfl⟩ := hname a' b' hs' he.symm
        exact hx
      · intro hx; exact ⟨a, b, hs, rfl, hx⟩
    · rw [hnode]
      rintro ⟨a', b', hs', he, _⟩
      have ha' := hs'.subset (show a' ∈ [a', b'] by simp)
      have hb'' := hs'.subset (show b' ∈ [a', b'] by simp)
      simp only [Prod.mk.injEq] at he
      have e1 : a' = b := hid a' (hmemL a' ha').1 b (hmemL b hb').1 he.1.symm
      have e2 : b' = a := hid b' (hmemL b' hb'').1 a (hmemL a ha).1 he.2.symm
      subst e1; subst e2
      exact not_both_orders hndL hs hs'
    · obtain ⟨t1, t2⟩ := exact_order_between_scanlines a b y0 y1 hy hab
      constructor
      · intro hx
        obtain ⟨_, cn, cd, c1, c2, c3, c4⟩ := t2 hx
        refine ⟨cn, cd, c1, c2, c3, ?_⟩
        obtain ⟨d1, d2⟩ := c4 cn cd c1
        unfold xLt at d1 d2
        omega
      · rintro ⟨cn, cd, c1, c2, c3, c4⟩
        apply Classical.byContradiction
        intro hx
        have := (t1 hx).2 cn cd c1 c2 c3
        unfold xLt at this
        omega

/-! ## (4) the whole sweep -/

/-- what is proved of one scanbeam snapshot -/
structure SnapSorted (edges : List SEdge) (mins : Int → List (SEdge × SEdge)) (cx : SEdge → Int → Int) (s : Snap) : Prop where
  /-- after the insertions: exact order just above the bottom scanline -/
  inserted_sorted : s.inserted.Pairwise (ltAbove s.y0)
  /-- `DoIntersections` only permutes -/
  isect_perm : s.afterIsect.Perm s.inserted
  /-- after `DoIntersections`: non-decreasing `curr_x`, exact order for edges more than 1 apart -/
  isect_sorted_cx : s.afterIsect.Pairwise (fun a b => cx a s.y1 ≤ cx b s.y1 ∧ (far s.y1 a b → xlt s.y1 a b))
  /-- after `DoIntersections`: exact order just below the top scanline -/
  isect_sorted : s.afterIsect.Pairwise (ltBelow s.y1)
  /-- after `DoTopOfScanbeam`: strictly sorted by exact x on the top scanline, all more than 1 apart -/
  top_sorted : AelAt edges mins s.y1 s.afterTop

theorem sweepFrom_cons (valid : Int → SEdge → SEdge → Bool) (cx : SEdge → Int → Int) (next : SEdge → Option SEdge)
    (mins : Int → List (SEdge × SEdge)) (ael : List SEdge) (y0 y1 : Int) (rest : List Int) :
    sweepFrom valid cx next mins ael (y0 :: y1 :: rest) =
      beamStep valid cx next mins ael y0 y1 ::
        sweepFrom valid cx next mins (beamStep valid cx next mins ael y0 y1).afterTop (y1 :: rest) := by
  simp [sweepFrom]

/-- **sweep_keeps_sorted.**  ASSUMED about the event list (all of it decidable and evaluated by the driver on every replayed
input, `SWEEPHYP`): the input `edges` are non-horizontal with distinct points as stated in `AllUp`/`NextOK`; for every two
consecutive scanlines of `ys` the conditions `BeamOK` (the scanlines descend and contain every vertex height; the local minima
are inserted at their scanline, left bound first; general position at local minima and at the top of every scanbeam; the
insertion predicate answers by exact x for edges more than 1 apart); `cx` within 1/2 of the exact x; the sweep starts from an
AEL as in `AelAt` (the empty one: `sweep_keeps_sorted_from_empty`).
PROVED: at every scanbeam of the model sweep `sweepFrom`, at all three stages, the AEL is sorted as `SnapSorted` says. -/
theorem sweep_keeps_sorted (edges : List SEdge) (valid : Int → SEdge → SEdge → Bool) (cx : SEdge → Int → Int)
    (next : SEdge → Option SEdge) (mins : Int → List (SEdge × SEdge))
    (hup : AllUp edges) (hnx : NextOK edges next mins) (hn : Near cx) :
    ∀ (ys : List Int) (ael : List SEdge), SweepOK edges valid next mins ys →
      (∀ y, ys.head? = some y → AelAt edges mins y ael) →
      ∀ s ∈ sweepFrom valid cx next mins ael ys, SnapSorted edges mins cx s := by
  intro ys
  induction ys with
  | nil => intro ael _ _ s hs; simp [sweepFrom] at hs
  | cons y0 t ih =>
    intro ael hok h0 s hs
    cases t with
    | nil => simp [sweepFrom] at hs
    | cons y1 rest =>
      rw [sweepFrom_cons] at hs
      obtain ⟨hb, hrest⟩ := hok
      obtain ⟨⟨a1, _⟩, ⟨b1, b2, b3⟩, c1⟩ :=
        scanbeam_keeps_sorted edges valid cx next mins ael y0 y1 hup hnx hn hb (h0 y0 rfl)
      rcases List.mem_cons.1 hs with rfl | hs
      · exact ⟨a1, b1, b2, b3, c1⟩
      · exact ih _ hrest (fun y hy => by simp at hy; subst hy; exact c1) s hs

/-- the sweep from the empty AEL -/
theorem sweep_keeps_sorted_from_empty (edges : List SEdge) (valid : Int → SEdge → SEdge → Bool) (cx : SEdge → Int → Int)
    (next : SEdge → Option SEdge) (mins : Int → List (SEdge × SEdge))
    (hup : AllUp edges) (hnx : NextOK edges next mins) (hn : Near cx) (ys : List Int)
    (hok : SweepOK edges valid next mins ys) :
    ∀ s ∈ sweepFrom valid cx next mins [] ys, SnapSorted edges mins cx s :=
  sweep_keeps_sorted edges valid cx next mins hup hnx hn ys [] hok (fun y _ => aelAt_nil edges mins y)

/-! ## the insertion predicate: what the regenerated `IsValidAelOrder` contributes -/

/-- **validGen_ok.**  The hypothesis `ValidOK` of the sweep theorems holds for the C++ `IsValidAelOrder` (the definition
regenerated from the source, applied to the `Active` records `toO` with `curr_x = cx · y`), whatever the fields read only by
its collinear branches (`info`) are: for a resident and a newcomer more than one unit apart at the scanline, the rounded
`curr_x` differ in the order of the exact x, and the predicate compares `curr_x`. -/
theorem validGen_ok (edges : List SEdge) (cx : SEdge → Int → Int) (info : SEdge → OInfo) (y : Int)
    (hup : AllUp edges) (hn : Near cx) : ValidOK edges (validGen cx info y) y := by
  intro r hr n hne hra hna _ hf
  have ur := hup r hr; have un := hup n hne
  have rr : r.top.y ≤ y ∧ y ≤ r.bot.y := by unfold AliveAbove at hra; omega
  have rn : n.top.y ≤ y ∧ y ≤ n.bot.y := by unfold AliveAbove at hna; omega
  unfold validGen
  rcases hf with h | h
  · have hc := near_strict hn ur un rr rn h
    rw [Clipper.Props.C01Order.isValidAelOrder_of_currX_ne _ _ (by simp only [toO]; omega), decide_eq_true_iff]
    simp only [toO]
    exact ⟨fun _ => xlt_of_xltBy1 ur un h, fun _ => hc⟩
  · have hc := near_strict hn un ur rn rr h
    rw [Clipper.Props.C01Order.isValidAelOrder_of_currX_ne _ _ (by simp only [toO]; omega), decide_eq_true_iff]
    simp only [toO]
    exact ⟨fun h' => by omega, fun h' => absurd (xlt_of_xltBy1 un ur h) (xlt_asymm h')⟩

/-- **validGen_shared_point** (beyond general position: the case `isValidAelOrder_spec_gp` describes).  A resident whose line
passes exactly through the newcomer's bottom point (same exact x on the scanline) and a different direction: both `curr_x` are
that x, the predicate takes the cross-product branch, and answers exactly `ltAbove y` — the exact order just above the scanline. -/
theorem validGen_shared_point (cx : SEdge → Int → Int) (info : SEdge → OInfo) (y : Int) (r n : SEdge) (hn : Near cx)
    (ur : r.Up) (un : n.Up) (hra : AliveAbove y r) (hny : n.bot.y = y) (hx : xeq y r n) (hs : slt r n ∨ slt n r) :
    validGen cx info y r n = true ↔ ltAbove y r n := by
  have pr := exD_pos ur; have pn := exD_pos un
  have rr : r.top.y ≤ y ∧ y ≤ r.bot.y := by unfold AliveAbove at hra; omega
  have rn : n.top.y ≤ y ∧ y ≤ n.bot.y := by unfold SEdge.Up at un; omega
  have en : exN n y = n.bot.x * exD n := by rw [← hny]; exact exN_at_bot n
  have er : exN r y = n.bot.x * exD r := by
    unfold xeq at hx
    rw [en] at hx
    have : exN r y * exD n = (n.bot.x * exD r) * exD n := by rw [hx]; grind
    exact Int.eq_of_mul_eq_mul_right (Int.ne_of_gt pn) this
  have cn : cx n y = n.bot.x := near_exact hn un rn _ en
  have cr : cx r y = n.bot.x := near_exact hn ur rr _ er
  -- the cross product of the C++ test against the difference of the slopes
  have hcr : cross r.bot r.top n.bot = n.bot.x * exD r - exN r y := by simp only [cross, exN, exD, hny.symm]; grind
  have hid : (r.top.y - n.bot.y) * sigma r n = (r.top.y - r.bot.y) * (-(cross r.top n.bot n.top))
      - cross r.bot r.top n.bot * (n.top.y - n.bot.y) := by
    simp only [sigma, run, exD, cross]; grind
  rw [hcr, er] at hid
  simp only [Int.sub_self, Int.zero_mul, Int.sub_zero] at hid
  have ha : r.top.y - n.bot.y < 0 := by unfold AliveAbove at hra; omega
  have hd : r.top.y - r.bot.y < 0 := by unfold SEdge.Up at ur; omega
  have s1 : 0 < sigma r n ↔ 0 < -(cross r.top n.bot n.top) := Clipper.Lemmas.AelOrder.pos_of_neg_mul_eq ha hd hid
  have s2 : 0 < -(sigma r n) ↔ 0 < -(-(cross r.top n.bot n.top)) :=
    Clipper.Lemmas.AelOrder.pos_of_neg_mul_eq ha hd (by rw [Int.mul_neg, Int.mul_neg, hid])
  have hsg : sigma r n ≠ 0 := by
    rcases hs with h | h
    · have := (slt_iff_sigma r n).1 h; omega
    · have := (sgt_iff_sigma r n).1 h; omega
  have hc0 : cross r.top n.bot n.top ≠ 0 := by omega
  unfold validGen
  rw [Clipper.Props.C01Order.isValidAelOrder_of_cross_ne _ _ (by simp only [toO]; omega) (by simpa only [toO] using hc0),
    decide_eq_true_iff]
  simp only [toO]
  unfold ltAbove
  rw [slt_iff_sigma]
  constructor
  · intro h; exact Or.inr ⟨hx, by omega⟩
  · rintro (h | ⟨_, h⟩)
    · unfold xeq at hx; unfold xlt at h; omega
    · omega

/-! ## the rounding does not matter: `TopX` enters only through `Near` -/

/-- `SweepOK` depends on the insertion predicate only through `ValidOK` -/
theorem sweepOK_of_validOK (edges : List SEdge) (valid valid' : Int → SEdge → SEdge → Bool) (next : SEdge → Option SEdge)
    (mins : Int → List (SEdge × SEdge)) (hv : ∀ y, ValidOK edges (valid' y) y) :
    ∀ ys, SweepOK edges valid next mins ys → SweepOK edges valid' next mins ys
  | [], _ => trivial
  | [_], _ => trivial
  | y0 :: y1 :: rest, h => by
    obtain ⟨⟨a, b, c, _, e, f⟩, hr⟩ := h
    exact ⟨⟨a, b, c, hv y0, e, f⟩, sweepOK_of_validOK edges valid valid' next mins hv (y1 :: rest) hr⟩

/-- two lists sorted by `ltAbove y` (or `ltBelow y`) with the same elements are equal -/
theorem eq_of_sorted_same_mem {R : SEdge → SEdge → Prop} (hirr : ∀ a, ¬ R a a) (hasymm : ∀ a b, R a b → ¬ R b a)
    {l₁ l₂ : List SEdge} (h1 : l₁.Pairwise R) (h2 : l₂.Pairwise R) (hm : ∀ e, e ∈ l₁ ↔ e ∈ l₂) : l₁ = l₂ :=
  List.Perm.eq_of_pairwise (fun a b _ _ hab hba => absurd hba (hasymm a b hab)) h1 h2
    ((List.perm_ext_iff_of_nodup (nodup_of_pairwise_irrefl hirr h1) (nodup_of_pairwise_irrefl hirr h2)).2 hm)

/-- **sweep_rounding_independent.**  Under the hypotheses of `sweep_keeps_sorted`, the model sweep is the same for EVERY two
rounding functions within 1/2 of the exact x (and every choice of the fields read by the collinear branches of
`IsValidAelOrder`): every AEL of every scanbeam is determined by the exact geometry.  In particular the sweep computed with the
exact x rounded half to even (`rhe`, what the driver replays) is the sweep computed with any `TopX` that satisfies `Near` —
which the harness checks of the real `TopX` values (`SWEEPHYP`). -/
theorem sweep_rounding_independent (edges : List SEdge) (cx cx' : SEdge → Int → Int) (info info' : SEdge → OInfo)
    (next : SEdge → Option SEdge) (mins : Int → List (SEdge × SEdge))
    (hup : AllUp edges) (hnx : NextOK edges next mins) (hn : Near cx) (hn' : Near cx') :
    ∀ (ys : List Int) (ael : List SEdge), SweepOK edges (validGen cx info) next mins ys →
      (∀ y, ys.head? = some y → AelAt edges mins y ael) →
      sweepFrom (validGen cx info) cx next mins ael ys = sweepFrom (validGen cx' info') cx' next mins ael ys := by
  intro ys
  induction ys with
  | nil => intro ael _ _; simp [sweepFrom]
  | cons y0 t ih =>
    intro ael hok h0
    cases t with
    | nil => simp [sweepFrom]
    | cons y1 rest =>
      have hok' := sweepOK_of_validOK edges (validGen cx info) (validGen cx' info') next mins
        (fun y => validGen_ok edges cx' info' y hup hn') _ hok
      obtain ⟨hb, hrest⟩ := hok
      obtain ⟨hb', _⟩ := hok'
      obtain ⟨⟨a1, a2⟩, ⟨b1, _, b3⟩, c1⟩ :=
        scanbeam_keeps_sorted edges (validGen cx info) cx next mins ael y0 y1 hup hnx hn hb (h0 y0 rfl)
      obtain ⟨⟨a1', a2'⟩, ⟨b1', _, b3'⟩, _⟩ :=
        scanbeam_keeps_sorted edges (validGen cx' info') cx' next mins ael y0 y1 hup hnx hn' hb' (h0 y0 rfl)
      have e1 : (beamStep (validGen cx info) cx next mins ael y0 y1).inserted =
          (beamStep (validGen cx' info') cx' next mins ael y0 y1).inserted :=
        eq_of_sorted_same_mem (ltAbove_irrefl y0) (fun a b => ltAbove_asymm) a1 a1' (fun e => by rw [a2 e, a2' e])
      have hasym : ∀ a b, ltBelow y1 a b → ¬ ltBelow y1 b a := by
        intro a b; unfold ltBelow xlt xeq slt; omega
      have e2 : (beamStep (validGen cx info) cx next mins ael y0 y1).afterIsect =
          (beamStep (validGen cx' info') cx' next mins ael y0 y1).afterIsect :=
        eq_of_sorted_same_mem (ltBelow_irrefl y1) hasym b3 b3'
          (fun e => by rw [b1.mem_iff, b1'.mem_iff, e1])
      have e3 : (beamStep (validGen cx info) cx next mins ael y0 y1).afterTop =
          (beamStep (validGen cx' info') cx' next mins ael y0 y1).afterTop := by
        show topOfBeam next y1 _ = topOfBeam next y1 _
        exact congrArg _ e2
      have es : beamStep (validGen cx info) cx next mins ael y0 y1 = beamStep (validGen cx' info') cx' next mins ael y0 y1 := by
        have : ∀ s s' : Snap, s.y0 = s'.y0 → s.y1 = s'.y1 → s.inserted = s'.inserted → s.afterIsect = s'.afterIsect →
            s.afterTop = s'.afterTop → s = s' := by
          intro s s' q1 q2 q3 q4 q5; cases s; cases s'; simp_all
        exact this _ _ rfl rfl e1 e2 e3
      rw [sweepFrom_cons, sweepFrom_cons, es]
      congr 1
      exact ih _ hrest (fun y hy => by simp at hy; subst hy; rw [← es]; exact c1)

/-- what the driver's replay (`SWEEPORDER`) rests on: for an input whose hypotheses `Built.Hyp` hold (decided by `decide`), the
sweep computed from the paths alone with `rhe` is sorted at every stage of every scanbeam … -/
theorem built_sweep_sorted (ps : Paths) (info : SEdge → OInfo) (h : (build ps).Hyp (validGen rhe info)) :
    ∀ s ∈ (build ps).sweep rhe info, SnapSorted (build ps).edges (build ps).mins rhe s :=
  sweep_keeps_sorted_from_empty _ _ _ _ _ h.1 h.2.2.1 rhe_near _ h.2.2.2

/-- … and it is the sweep for every other admissible rounding `cx` -/
theorem built_sweep_any_rounding (ps : Paths) (info info' : SEdge → OInfo) (cx : SEdge → Int → Int) (hn : Near cx)
    (h : (build ps).Hyp (validGen rhe info)) : (build ps).sweep rhe info = (build ps).sweep cx info' :=
  sweep_rounding_independent _ rhe cx info info' _ _ h.1 h.2.2.1 rhe_near hn _ [] h.2.2.2
    (fun y _ => aelAt_nil _ _ y)

/-! ## corollary: "the AEL is ordered left to right" — the premise of the winding theorems of `Props/C01.lean` -/

/-- in a list sorted by a strict order, the elements in front of position `k` are exactly the elements smaller than the `k`-th -/
theorem take_eq_filter_of_sorted {α : Type} (lt : α → α → Prop) [DecidableRel lt] (hirr : ∀ a, ¬ lt a a)
    (hasymm : ∀ a b, lt a b → ¬ lt b a) (l : List α) (hs : l.Pairwise lt) (k : Nat) (hk : k < l.length) :
    l.take k = l.filter (fun e => decide (lt e l[k])) := by
  have hsplit : l = l.take k ++ l[k] :: l.drop (k + 1) := by
    rw [List.getElem_cons_drop hk, List.take_append_drop]
  generalize l[k] = x at hsplit ⊢
  have hs' := hs
  rw [hsplit, List.pairwise_append] at hs'
  obtain ⟨_, h2, h3⟩ := hs'
  rw [List.pairwise_cons] at h2
  conv => rhs; rw [hsplit]
  rw [List.filter_append, List.filter_cons]
  have f1 : (l.take k).filter (fun e => decide (lt e x)) = l.take k :=
    List.filter_eq_self.2 (fun a ha => by simpa using h3 a ha x (by simp))
  have f2 : (l.drop (k + 1)).filter (fun e => decide (lt e x)) = [] :=
    List.filter_eq_nil_iff.2 (fun a ha => by simpa using hasymm _ _ (h2.1 a ha))
  simp [f1, f2, hirr]

/-- **sweep_ael_left_to_right.**  Under the hypotheses of `sweep_keeps_sorted`, at every scanbeam of the model sweep and for
every position `k`: the edges in front of position `k` in the AEL are exactly the AEL edges that are geometrically LEFT of the
`k`-th edge — just above the bottom scanline after the insertions, just below the top scanline after `DoIntersections`, on the
top scanline after `DoTopOfScanbeam`.  Hence for every labelling `lab` of the sweep edges by bookkeeping records
(`Model.Edge`: path type, `wind_dx`, …) the prefix sums `sumT t ((AEL.map lab).take k)` — the quantities `wind_insert`,
`inv_reachable` and `coverage_1d` of `Props/C01.lean` are about — are the winding sums over the edges to the left. -/
theorem sweep_ael_left_to_right (edges : List SEdge) (valid : Int → SEdge → SEdge → Bool) (cx : SEdge → Int → Int)
    (next : SEdge → Option SEdge) (mins : Int → List (SEdge × SEdge))
    (hup : AllUp edges) (hnx : NextOK edges next mins) (hn : Near cx) (ys : List Int)
    (hok : SweepOK edges valid next mins ys) (s : Snap) (hs : s ∈ sweepFrom valid cx next mins [] ys)
    (lab : SEdge → Clipper.Model.Edge) (t : PathType) :
    (∀ k (hk : k < s.inserted.length),
        s.inserted.take k = s.inserted.filter (fun e => decide (ltAbove s.y0 e s.inserted[k])) ∧
        Clipper.Model.sumT t ((s.inserted.map lab).take k) =
          Clipper.Model.sumT t ((s.inserted.filter (fun e => decide (ltAbove s.y0 e s.inserted[k]))).map lab)) ∧
    (∀ k (hk : k < s.afterIsect.length),
        s.afterIsect.take k = s.afterIsect.filter (fun e => decide (ltBelow s.y1 e s.afterIsect[k])) ∧
        Clipper.Model.sumT t ((s.afterIsect.map lab).take k) =
          Clipper.Model.sumT t ((s.afterIsect.filter (fun e => decide (ltBelow s.y1 e s.afterIsect[k]))).map lab)) ∧
    (∀ k (hk : k < s.afterTop.length),
        s.afterTop.take k = s.afterTop.filter (fun e => decide (xlt s.y1 e s.afterTop[k])) ∧
        Clipper.Model.sumT t ((s.afterTop.map lab).take k) =
          Clipper.Model.sumT t ((s.afterTop.filter (fun e => decide (xlt s.y1 e s.afterTop[k]))).map lab)) := by
  have h := sweep_keeps_sorted_from_empty edges valid cx next mins hup hnx hn ys hok s hs
  refine ⟨fun k hk => ?_, fun k hk => ?_, fun k hk => ?_⟩
  · have e := take_eq_filter_of_sorted (ltAbove s.y0) (ltAbove_irrefl s.y0) (fun a b => ltAbove_asymm) _ h.inserted_sorted k hk
    exact ⟨e, by rw [← List.map_take, e]⟩
  · have hasym : ∀ a b, ltBelow s.y1 a b → ¬ ltBelow s.y1 b a := by
      intro a b; unfold ltBelow xlt xeq slt; omega
    have e := take_eq_filter_of_sorted (ltBelow s.y1) (ltBelow_irrefl s.y1) hasym _ h.isect_sorted k hk
    exact ⟨e, by rw [← List.map_take, e]⟩
  · have hsx : s.afterTop.Pairwise (xlt s.y1) := h.top_sorted.sorted.imp (fun h => h.1)
    have e := take_eq_filter_of_sorted (xlt s.y1) (xlt_irrefl s.y1) (fun a b => xlt_asymm) _ hsx k hk
    exact ⟨e, by rw [← List.map_take, e]⟩

/-! ## non-vacuity: two crossing triangles swept completely

`A = (0,40) (30,3) (-30,11)` and `B = (-10,33) (-31,0) (34,20)`; edges 0–2 belong to `A`, 3–5 to `B`.  Six scanlines, five
scanbeams; in three of them edges cross (six crossings in all), one intermediate vertex per triangle, two maxima. -/

private def triA : Path := [⟨0, 40⟩, ⟨30, 3⟩, ⟨-30, 11⟩]
private def triB : Path := [⟨-10, 33⟩, ⟨-31, 0⟩, ⟨34, 20⟩]

/-- every hypothesis of the sweep theorems holds for this input (insertion predicate = the regenerated `IsValidAelOrder`,
`curr_x` = exact x rounded half to even) -/
theorem triangles_hyp : (build [triA, triB]).Hyp (validGen rhe default) := by decide +kernel

/-- the sweep the model computes: per scanbeam `(y0, y1, AEL after insertion, after DoIntersections, after DoTopOfScanbeam)`
by edge identity -/
example : ((build [triA, triB]).sweep rhe default).map
      (fun s => (s.y0, s.y1, idsOf s.inserted, idsOf s.afterIsect, idsOf s.afterTop)) =
    [(40, 33, [2, 0], [2, 0], [2, 0]),
     (33, 20, [3, 5, 2, 0], [2, 3, 0, 5], [2, 3, 0, 4]),
     (20, 11, [2, 3, 0, 4], [2, 3, 4, 0], [1, 3, 4, 0]),
     (11, 3, [1, 3, 4, 0], [3, 4, 1, 0], [3, 4]),
     (3, 0, [3, 4], [3, 4], [])] := by decide +kernel

/-- `sweep_keeps_sorted` applies to it: every snapshot of that sweep is sorted -/
example : ∀ s ∈ (build [triA, triB]).sweep rhe default, SnapSorted (build [triA, triB]).edges (build [triA, triB]).mins rhe s :=
  sweep_keeps_sorted_from_empty _ _ _ _ _ triangles_hyp.1 triangles_hyp.2.2.1 rhe_near _ triangles_hyp.2.2.2

/-- the intersect nodes `BuildIntersectList` records per scanbeam for that sweep — by `intersections_are_exactly_crossings`
exactly the pairs that cross strictly inside the scanbeam: the two triangle outlines meet in six points -/
example : ((build [triA, triB]).sweep rhe default).map
      (fun s => (buildIntersectList (keyed rhe s.y1 s.inserted)).nodes) =
    [[], [(5, 2), (3, 2), (5, 0)], [(0, 4)], [(1, 3), (1, 4)], []] := by decide +kernel

/-- `sweep_rounding_independent` on that input: rounding half up instead of half to even (they differ at ties: 5/2 becomes 2
under `rhe` and 3 under `rhu`, next example) gives the same sweep -/
example : (build [triA, triB]).sweep rhe default = (build [triA, triB]).sweep rhu default :=
  built_sweep_any_rounding _ _ _ rhu rhu_near triangles_hyp
example : rhe ⟨0, ⟨0, 2⟩, ⟨5, 0⟩⟩ 1 = 2 ∧ rhu ⟨0, ⟨0, 2⟩, ⟨5, 0⟩⟩ 1 = 3 := by decide

/-- `doIntersections_is_engine` on the AEL of the second scanbeam: the three recorded nodes handed over in reversed order -/
example : process 3 [3, 5, 2, 0] [(5, 0), (3, 2), (5, 2)] = .ok [2, 3, 0, 5] := rfl

/-- `validGen_shared_point`: the resident `(10,5)→(1,-7)` passes through the newcomer's bottom point `(4,-3)`; the newcomer
`(4,-3)→(-2,-6)` turns left of it: both `curr_x` are 4, the regenerated predicate says "not valid", and indeed the resident is
not left of the newcomer just above the scanline (the hypotheses of the theorem hold) -/
example : let r : SEdge := ⟨0, ⟨10, 5⟩, ⟨1, -7⟩⟩; let n : SEdge := ⟨1, ⟨4, -3⟩, ⟨-2, -6⟩⟩
    r.Up ∧ n.Up ∧ AliveAbove (-3) r ∧ n.bot.y = -3 ∧ xeq (-3) r n ∧ slt n r ∧
      validGen rhe default (-3) r n = false ∧ ¬ ltAbove (-3) r n ∧ ltAbove (-3) n r := by decide

/-- `validGen_ok` / `cx_lt_iff_xlt`: edges 2.4 units apart at the scanline, rounded to 0 and 2 -/
example : let r : SEdge := ⟨0, ⟨0, 10⟩, ⟨0, 0⟩⟩; let n : SEdge := ⟨1, ⟨12, 10⟩, ⟨0, 0⟩⟩
    far 2 r n ∧ rhe r 2 = 0 ∧ rhe n 2 = 2 ∧ xlt 2 r n := by decide

end Clipper.Props.C01Sweep
