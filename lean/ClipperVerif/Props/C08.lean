/-
C08 — RectClip equals intersection with the rectangle, path by path (partial by design, DESIGN.md §5 C08).

Proved here, about `Model/RectClip.lean` and the definitions *generated* from clipper.rectclip.cpp
(`Gen.GetAdjacentLocation`, `Gen.HeadingClockwise`, `Gen.AreOpposites`; `Gen.GetLocation` is characterised in
`Props/C09.lean`, theorem `getLocation_spec`):
* the bounds shortcuts of `RectClip64::Execute` (`shortcut_inside`, `shortcut_outside`, `shortcut_small`, and the
  converse `shortcut_sound`);
* the helpers' exact meaning on the four sides (`getAdjacent_cycle`, `headingClockwise_iff`, `areOpposites_iff`);
* every `do { AddCorner … } while (prev != loc)` loop runs at most 4 (3 if `prev ≠ loc`) steps and never indexes
  `rect_as_path_` out of range when neither location is `Inside` (`corner_loops_terminate`), and would never
  terminate if the target were `Inside` (`corner_loop_diverges_on_inside`).
Not modelled, hence not proved: the crossing automaton of `RectClip64::ExecuteInternal`, `CheckEdges`, `TidyEdges`,
`GetPath`.  The winding-number statement of the property is checked on the real code by the exact judge
`RECTCLIPCHECK` (Driver/C08.lean) only.
-/
import ClipperVerif.Lemmas.RectClip
namespace Clipper.Props.C08
open Clipper Clipper.Model.RC Clipper.Lemmas.RC

/-! ### the generated `Location` helpers -/

/-- next side clockwise (screen coordinates, y down): left → top → right → bottom → left -/
def cwNext : Location → Location
  | .left => .top | .top => .right | .right => .bottom | .bottom => .left | .inside => .inside
def ccwNext : Location → Location
  | .left => .bottom | .top => .left | .right => .top | .bottom => .right | .inside => .inside

/-- `GetAdjacentLocation` steps once round the four sides in the requested direction, the two directions are
inverse to each other, four steps return to the start, and the result is never `Inside`. -/
theorem getAdjacent_cycle (a : Location) (cw : Bool) :
    (a ≠ .inside → Gen.GetAdjacentLocation a cw = if cw then cwNext a else ccwNext a) ∧
    (a ≠ .inside → Gen.GetAdjacentLocation (Gen.GetAdjacentLocation a cw) (!cw) = a) ∧
    (a ≠ .inside → Gen.GetAdjacentLocation (Gen.GetAdjacentLocation (Gen.GetAdjacentLocation
        (Gen.GetAdjacentLocation a cw) cw) cw) cw = a) ∧
    Gen.GetAdjacentLocation a cw ≠ .inside := by
  cases a <;> cases cw <;> decide

/-- `HeadingClockwise(prev, curr)` holds exactly when `curr` is the next side clockwise (for `prev` a side). -/
theorem headingClockwise_iff (prev curr : Location) (h : prev ≠ .inside) :
    Gen.HeadingClockwise prev curr = true ↔ curr = cwNext prev := by
  cases prev <;> cases curr <;> first | exact absurd rfl h | decide

/-- `AreOpposites(prev, curr)` holds exactly for the pairs left/right and top/bottom (for sides). -/
theorem areOpposites_iff (prev curr : Location) (hp : prev ≠ .inside) (hc : curr ≠ .inside) :
    Gen.AreOpposites prev curr = true ↔ curr = cwNext (cwNext prev) := by
  cases prev <;> cases curr <;> first | exact absurd rfl hp | exact absurd rfl hc | decide

example : Gen.HeadingClockwise .bottom .left = true ∧ Gen.AreOpposites .top .bottom = true := by decide

/-! ### corner loops -/

/-- **`corner_loops_terminate`.**  Entered with `prev` and `loc` both different from `Inside`, the loops
`do { AddCorner(prev, isClockw); } while (prev != loc);` and
`do { start_locs_.emplace_back(prev); prev = GetAdjacentLocation(prev, isClockw); } while (prev != loc);`
finish within 4 iterations (3 when `prev ≠ loc` on entry), perform the same number of iterations, and every
`rect_as_path_[…]` index they use is in range (`cornerLoop` would return `none` otherwise). -/
theorem corner_loops_terminate (r : Rect) (prev loc : Location) (cw : Bool)
    (hp : prev ≠ .inside) (hl : loc ≠ .inside) :
    ∃ pts ls, cornerLoop r loc cw 4 prev = some pts ∧ startLocsLoop loc cw 4 prev = some ls ∧
      1 ≤ pts.length ∧ pts.length ≤ 4 ∧ (prev ≠ loc → pts.length ≤ 3) ∧ ls.length = pts.length := by
  cases prev <;> cases loc <;> cases cw <;>
    first | exact absurd rfl hp | exact absurd rfl hl | exact ⟨_, _, rfl, rfl, by simp⟩

example (r : Rect) : cornerLoop r .bottom true 4 .left = some [r.c0, r.c1, r.c2] := rfl

/-- The precondition `loc ≠ Inside` is needed: with target `Inside` the location loop never ends, whatever the
fuel (`GetAdjacentLocation` never returns `Inside`).  In the C++ this would be an endless loop appending to
`start_locs_`; whether `ExecuteInternal` can reach the loops with `loc == Inside` depends on the crossing automaton,
which is not modelled. -/
theorem corner_loop_diverges_on_inside (cw : Bool) (fuel : Nat) (prev : Location) :
    startLocsLoop .inside cw fuel prev = none := by
  induction fuel generalizing prev with
  | zero => rfl
  | succ fuel ih =>
    unfold startLocsLoop
    simp only
    rw [if_pos (getAdjacent_cycle prev cw).2.2.2, ih]
    rfl

/-! ### `StartLocsAreClockwise` -/

/-- a walk that goes once round clockwise is recognised, its reverse is not -/
example : startLocsAreClockwise [.left, .top, .right, .bottom, .left] = true ∧
    startLocsAreClockwise [.left, .bottom, .right, .top, .left] = false := by decide

/-- each step clockwise counts +1, each step counter-clockwise −1, anything else 0 -/
theorem startLocsSum_step (a b : Location) (rest : List Location) (ha : a ≠ .inside) (hb : b ≠ .inside) :
    startLocsSum (a :: b :: rest) =
      (if b = cwNext a then 1 else if b = ccwNext a then -1 else 0) + startLocsSum (b :: rest) := by
  cases a <;> cases b <;> first | exact absurd rfl ha | exact absurd rfl hb | (simp [startLocsSum, Location.toNat, cwNext, ccwNext])

/-! ### bounds shortcuts of `RectClip64::Execute` -/

def I64 (x : Int) : Prop := i64min ≤ x ∧ x ≤ i64max

/-- one iteration of the `GetBounds` loop -/
def bstep (b : Rect) (p : Pt) : Rect :=
  { left := if p.x < b.left then p.x else b.left
    right := if p.x > b.right then p.x else b.right
    top := if p.y < b.top then p.y else b.top
    bottom := if p.y > b.bottom then p.y else b.bottom }

theorem getBounds_eq (path : Path) :
    getBounds path = path.foldl bstep { left := i64max, top := i64max, right := i64min, bottom := i64min } := rfl

theorem bstep_spec (b : Rect) (p : Pt) :
    ((bstep b p).left ≤ b.left ∧ (bstep b p).left ≤ p.x ∧ ((bstep b p).left = b.left ∨ (bstep b p).left = p.x)) ∧
    (b.right ≤ (bstep b p).right ∧ p.x ≤ (bstep b p).right ∧ ((bstep b p).right = b.right ∨ (bstep b p).right = p.x)) ∧
    ((bstep b p).top ≤ b.top ∧ (bstep b p).top ≤ p.y ∧ ((bstep b p).top = b.top ∨ (bstep b p).top = p.y)) ∧
    (b.bottom ≤ (bstep b p).bottom ∧ p.y ≤ (bstep b p).bottom ∧ ((bstep b p).bottom = b.bottom ∨ (bstep b p).bottom = p.y)) := by
  unfold bstep
  simp only
  refine ⟨?_, ?_, ?_, ?_⟩ <;> split <;> omega

/-- invariant of the `GetBounds` fold -/
theorem getBounds_fold (path : Path) (acc : Rect) :
    ((path.foldl bstep acc).left ≤ acc.left ∧ acc.right ≤ (path.foldl bstep acc).right ∧
      (path.foldl bstep acc).top ≤ acc.top ∧ acc.bottom ≤ (path.foldl bstep acc).bottom) ∧
    (∀ p ∈ path, (path.foldl bstep acc).left ≤ p.x ∧ p.x ≤ (path.foldl bstep acc).right ∧
      (path.foldl bstep acc).top ≤ p.y ∧ p.y ≤ (path.foldl bstep acc).bottom) ∧
    ((path.foldl bstep acc).left = acc.left ∨ ∃ p ∈ path, (path.foldl bstep acc).left = p.x) ∧
    ((path.foldl bstep acc).right = acc.right ∨ ∃ p ∈ path, (path.foldl bstep acc).right = p.x) ∧
    ((path.foldl bstep acc).top = acc.top ∨ ∃ p ∈ path, (path.foldl bstep acc).top = p.y) ∧
    ((path.foldl bstep acc).bottom = acc.bottom ∨ ∃ p ∈ path, (path.foldl bstep acc).bottom = p.y) := by
  induction path generalizing acc with
  | nil => simp
  | cons q path ih =>
    simp only [List.foldl_cons]
    have hs := bstep_spec acc q
    obtain ⟨h1, h2, h3, h4, h5, h6⟩ := ih (bstep acc q)
    generalize bstep acc q = acc' at *
    generalize path.foldl bstep acc' = b at *
    refine ⟨by omega, ?_, ?_, ?_, ?_, ?_⟩
    · intro p hp
      rcases List.mem_cons.mp hp with rfl | hp
      · omega
      · exact h2 p hp
    · rcases h3 with h | ⟨p, hp, h⟩
      · rcases hs.1.2.2 with e | e
        · exact Or.inl (by omega)
        · exact Or.inr ⟨q, by simp, by omega⟩
      · exact Or.inr ⟨p, by simp [hp], h⟩
    · rcases h4 with h | ⟨p, hp, h⟩
      · rcases hs.2.1.2.2 with e | e
        · exact Or.inl (by omega)
        · exact Or.inr ⟨q, by simp, by omega⟩
      · exact Or.inr ⟨p, by simp [hp], h⟩
    · rcases h5 with h | ⟨p, hp, h⟩
      · rcases hs.2.2.1.2.2 with e | e
        · exact Or.inl (by omega)
        · exact Or.inr ⟨q, by simp, by omega⟩
      · exact Or.inr ⟨p, by simp [hp], h⟩
    · rcases h6 with h | ⟨p, hp, h⟩
      · rcases hs.2.2.2.2.2 with e | e
        · exact Or.inl (by omega)
        · exact Or.inr ⟨q, by simp, by omega⟩
      · exact Or.inr ⟨p, by simp [hp], h⟩

/-- `GetBounds` of a non-empty path with `int64` coordinates is its bounding box: it contains every vertex and
each of its four sides is attained by a vertex. -/
theorem getBounds_spec (path : Path) (hne : path ≠ []) (hr : ∀ p ∈ path, I64 p.x ∧ I64 p.y) :
    (∀ p ∈ path, (getBounds path).left ≤ p.x ∧ p.x ≤ (getBounds path).right ∧
        (getBounds path).top ≤ p.y ∧ p.y ≤ (getBounds path).bottom) ∧
    (∃ p ∈ path, (getBounds path).left = p.x) ∧ (∃ p ∈ path, (getBounds path).right = p.x) ∧
    (∃ p ∈ path, (getBounds path).top = p.y) ∧ (∃ p ∈ path, (getBounds path).bottom = p.y) := by
  have h := getBounds_fold path { left := i64max, top := i64max, right := i64min, bottom := i64min }
  rw [← getBounds_eq] at h
  simp only at h
  obtain ⟨_, h2, h3, h4, h5, h6⟩ := h
  obtain ⟨p0, hp0⟩ := List.exists_mem_of_ne_nil path hne
  have hb := h2 p0 hp0
  have hi := hr p0 hp0
  unfold I64 at hi
  refine ⟨h2, ?_, ?_, ?_, ?_⟩
  · rcases h3 with h | h
    · exact ⟨p0, hp0, by unfold i64max i64min at *; omega⟩
    · exact h
  · rcases h4 with h | h
    · exact ⟨p0, hp0, by unfold i64max i64min at *; omega⟩
    · exact h
  · rcases h5 with h | h
    · exact ⟨p0, hp0, by unfold i64max i64min at *; omega⟩
    · exact h
  · rcases h6 with h | h
    · exact ⟨p0, hp0, by unfold i64max i64min at *; omega⟩
    · exact h

/-- **`shortcut_small`.** A path of fewer than three points gives no output. -/
theorem shortcut_small (r : Rect) (path : Path) (h : path.length < 3) : executeShortcut r path = some [] := by
  unfold executeShortcut; rw [if_pos h]

/-- **`shortcut_inside`.**  A path (≥ 3 points, `int64` coordinates) all of whose vertices lie in the closed
rectangle is returned unchanged — one output path, identical to the input, whatever its orientation. -/
theorem shortcut_inside (r : Rect) (path : Path) (hlen : 3 ≤ path.length)
    (hr : ∀ p ∈ path, I64 p.x ∧ I64 p.y) (hin : ∀ p ∈ path, inRect r p = true) :
    executeShortcut r path = some [path] := by
  have hne : path ≠ [] := by intro h; rw [h] at hlen; simp at hlen
  obtain ⟨h1, ⟨pl, hpl, hl⟩, ⟨pr, hpr, hrr⟩, ⟨pt, hpt, ht⟩, ⟨pb, hpb, hb⟩⟩ := getBounds_spec path hne hr
  have il := (inRect_iff r pl).mp (hin pl hpl)
  have ir := (inRect_iff r pr).mp (hin pr hpr)
  have it := (inRect_iff r pt).mp (hin pt hpt)
  have ib := (inRect_iff r pb).mp (hin pb hpb)
  have bl := h1 pl hpl
  have bt := h1 pt hpt
  unfold executeShortcut
  rw [if_neg (by omega)]
  simp only
  have hint : r.intersects (getBounds path) = true := by
    unfold Rect.intersects
    simp only [Bool.and_eq_true, decide_eq_true_eq]
    omega
  have hcont : r.containsRect (getBounds path) = true := by
    unfold Rect.containsRect
    simp only [Bool.and_eq_true, decide_eq_true_eq]
    omega
  rw [hint, hcont]
  rfl

/-- **`shortcut_outside`.**  A path whose vertices all lie strictly to one side of the rectangle
(bounding boxes disjoint) is dropped. -/
theorem shortcut_outside (r : Rect) (path : Path) (hne : path ≠ [])
    (hr : ∀ p ∈ path, I64 p.x ∧ I64 p.y)
    (hout : (∀ p ∈ path, p.x < r.left) ∨ (∀ p ∈ path, p.x > r.right) ∨
            (∀ p ∈ path, p.y < r.top) ∨ (∀ p ∈ path, p.y > r.bottom)) :
    executeShortcut r path = some [] := by
  obtain ⟨h1, ⟨pl, hpl, hl⟩, ⟨pr, hpr, hrr⟩, ⟨pt, hpt, ht⟩, ⟨pb, hpb, hb⟩⟩ := getBounds_spec path hne hr
  unfold executeShortcut
  split
  · rfl
  · simp only
    have hint : r.intersects (getBounds path) = false := by
      unfold Rect.intersects
      rw [Bool.and_eq_false_iff]
      simp only [decide_eq_false_iff_not]
      rcases hout with h | h | h | h
      · have := h pr hpr; left; omega
      · have := h pl hpl; left; omega
      · have := h pb hpb; right; omega
      · have := h pt hpt; right; omega
    rw [hint]
    rfl

/-- **Soundness of the shortcuts** (the converse direction): when `Execute` decides a path of ≥ 3 points without
running the general algorithm (non-empty rectangle), then either it returned the path itself and every vertex is in the closed rectangle, or
it returned nothing and all vertices lie strictly to one side of the rectangle. -/
theorem shortcut_sound (r : Rect) (path : Path) (hre : r.isEmpty = false) (hlen : 3 ≤ path.length)
    (hr : ∀ p ∈ path, I64 p.x ∧ I64 p.y) (out : Paths) (h : executeShortcut r path = some out) :
    (out = [path] ∧ ∀ p ∈ path, inRect r p = true) ∨
    (out = [] ∧ ((∀ p ∈ path, p.x < r.left) ∨ (∀ p ∈ path, p.x > r.right) ∨
                 (∀ p ∈ path, p.y < r.top) ∨ (∀ p ∈ path, p.y > r.bottom))) := by
  have hne : path ≠ [] := by intro h; rw [h] at hlen; simp at hlen
  obtain ⟨h1, _⟩ := getBounds_spec path hne hr
  obtain ⟨p0, hp0⟩ := List.exists_mem_of_ne_nil path hne
  have hb0 := h1 p0 hp0
  unfold Rect.isEmpty at hre
  simp only [Bool.or_eq_false_iff, decide_eq_false_iff_not] at hre
  unfold executeShortcut at h
  rw [if_neg (by omega)] at h
  simp only at h
  split at h
  · rename_i hint
    right
    simp only [Option.some.injEq] at h
    refine ⟨h.symm, ?_⟩
    unfold Rect.intersects at hint
    simp only [Bool.not_eq_true', Bool.and_eq_false_iff, decide_eq_false_iff_not] at hint
    rcases hint with hx | hy
    · by_cases hc : (getBounds path).right < r.left
      · left; intro p hp; have := h1 p hp; omega
      · right; left; intro p hp; have := h1 p hp; omega
    · by_cases hc : (getBounds path).bottom < r.top
      · right; right; left; intro p hp; have := h1 p hp; omega
      · right; right; right; intro p hp; have := h1 p hp; omega
  · split at h
    · rename_i hcont
      left
      simp only [Option.some.injEq] at h
      refine ⟨h.symm, ?_⟩
      unfold Rect.containsRect at hcont
      simp only [Bool.and_eq_true, decide_eq_true_eq] at hcont
      intro p hp
      have := h1 p hp
      rw [inRect_iff]; omega
    · simp at h

/-- the hypotheses of the shortcut theorems are satisfiable by non-trivial inputs -/
example : executeShortcut ⟨0, 0, 10, 10⟩ [⟨1, 1⟩, ⟨9, 2⟩, ⟨5, 10⟩] = some [[⟨1, 1⟩, ⟨9, 2⟩, ⟨5, 10⟩]] ∧
    executeShortcut ⟨0, 0, 10, 10⟩ [⟨11, 1⟩, ⟨19, 2⟩, ⟨15, 10⟩] = some [] ∧
    executeShortcut ⟨0, 0, 10, 10⟩ [⟨-1, 1⟩, ⟨19, 2⟩, ⟨15, 10⟩] = none := by decide

end Clipper.Props.C08
