/-
C08 — RectClip equals intersection with the rectangle, path by path (partial by design, DESIGN.md §5 C08).

Proved here, about `Model/RectClip.lean` and the definitions *generated* from clipper.rectclip.cpp
(`Gen.GetAdjacentLocation`, `Gen.HeadingClockwise`, `Gen.AreOpposites`; `Gen.GetLocation` is characterised in
`Props/C09.lean`, theorem `getLocation_spec`):
* the bounds shortcuts of `RectClip64::Execute` (`shortcut_inside`, `shortcut_outside`, `shortcut_small`, and the
  converse `shortcut_sound`);
* the helpers' exact meaning on the four sides (`getAdjacent_cycle`, `headingClockwise_iff`, `areOpposites_iff`);
* every `do { AddCorner … } while (prev != loc)` loop runs at most 4 (3 if `prev ≠ loc`) steps and never indexes
  `rect_as_path_` out of range when neither location is `Inside` (`corner_loops_terminate`), and would never
  terminate if the target were `Inside` (`corner_loop_diverges_on_inside`).
* the location / corner automaton `RectClip64::ExecuteInternal` (model `Model/RectClipAuto.lean`, tied to the code bit
  for bit by the `RCAUTO` records: raw result ring and `start_locs_` read before `CheckEdges` runs), second half of
  this file: provenance of every point passed to `Add` (`added_points_provenance`), hence containment in the
  rectangle (`added_points_in_rect`, `raw_ring_in_rect`) and "new vertices lie on the boundary"
  (`new_vertices_on_boundary`) under the arithmetic hypotheses of C09 — `NoLostCrossingA` is needed
  (`raw_ring_needs_hyp`, the known finding kf.lost_crossing); no `path[i]` is ever read out of range
  (`executeInternal_no_path_fault`); termination within `2n+2` iterations without any fault
  (`executeInternal_total`) under the run hypothesis `RunFine`, decided input by input by `runFineB`
  (`runFineB_sound`); which corner-loop call sites can never see `Inside` and which see it exactly when a crossing
  is missed (`corner_loop_targets_never_inside`, `corner_loop_inside_reachable`); for sign-exact arithmetic no entering
  crossing is ever missed (`entering_crossing_found_exact`, geometric completeness of `GetIntersection` from inside) and
  therefore no corner loop ever gets the target `Inside` (`corner_loop_targets_never_inside_exact`);
  `inside_path_unchanged`, `outside_path_corners_or_nothing`.
Not modelled, hence not proved: `CheckEdges`, `TidyEdges`, `GetPath`.  The winding-number statement of the property is
checked on the real code by the exact judge `RECTCLIPCHECK` (Driver/C08.lean) only.
-/
import ClipperVerif.Lemmas.RectClip
import ClipperVerif.Lemmas.RectClipAuto
import ClipperVerif.Lemmas.RectClipEnter
import ClipperVerif.Lemmas.PipRefine
import ClipperVerif.Props.C09
namespace Clipper.Props.C08
open Clipper Clipper.Model.RC Clipper.Lemmas.RC Clipper.Lemmas.RCA Clipper.Lemmas.RCE

/-! ### the generated `Location` helpers -/

/-- next side clockwise (screen coordinates, y down): left → top → right → bottom → left -/
def cwNext : Location → Location
  | .left => .top | .top => .right | .right => .bottom | .bottom => .left | .inside => .inside
def ccwNext : Location → Location
  | .left => .bottom | .top => .left | .right => .top | .bottom => .right | .inside => .inside

/-- `GetAdjacentLocation` steps once round the four sides in the requested direction, the two directions are
inverse to each other, four steps return to the start, and the result is never `Inside`. -/
theorem getAdjacent_cycle (a : Location) (cw : Bool) :
    (a ≠ .inside → Gen.GetAdjacentLocation a cw = if cw then cwNext a else ccwNext a) ∧
    (a ≠ .inside → Gen.GetAdjacentLocation (Gen.GetAdjacentLocation a cw) (!cw) = a) ∧
    (a ≠ .inside → Gen.GetAdjacentLocation (Gen.GetAdjacentLocation (Gen.GetAdjacentLocation
        (Gen.GetAdjacentLocation a cw) cw) cw) cw = a) ∧
    Gen.GetAdjacentLocation a cw ≠ .inside := by
  cases a <;> cases cw <;> decide

/-- `HeadingClockwise(prev, curr)` holds exactly when `curr` is the next side clockwise (for `prev` a side). -/
theorem headingClockwise_iff (prev curr : Location) (h : prev ≠ .inside) :
    Gen.HeadingClockwise prev curr = true ↔ curr = cwNext prev := by
  cases prev <;> cases curr <;> first | exact absurd rfl h | decide

/-- `AreOpposites(prev, curr)` holds exactly for the pairs left/right and top/bottom (for sides). -/
theorem areOpposites_iff (prev curr : Location) (hp : prev ≠ .inside) (hc : curr ≠ .inside) :
    Gen.AreOpposites prev curr = true ↔ curr = cwNext (cwNext prev) := by
  cases prev <;> cases curr <;> first | exact absurd rfl hp | exact absurd rfl hc | decide

example : Gen.HeadingClockwise .bottom .left = true ∧ Gen.AreOpposites .top .bottom = true := by decide

/-! ### corner loops -/

/-- **`corner_loops_terminate`.**  Entered with `prev` and `loc` both different from `Inside`, the loops
`do { AddCorner(prev, isClockw); } while (prev != loc);` and
`do { start_locs_.emplace_back(prev); prev = GetAdjacentLocation(prev, isClockw); } while (prev != loc);`
finish within 4 iterations (3 when `prev ≠ loc` on entry), perform the same number of iterations, and every
`rect_as_path_[…]` index they use is in range (`cornerLoop` would return `none` otherwise). -/
theorem corner_loops_terminate (r : Rect) (prev loc : Location) (cw : Bool)
    (hp : prev ≠ .inside) (hl : loc ≠ .inside) :
    ∃ pts ls, cornerLoop r loc cw 4 prev = some pts ∧ startLocsLoop loc cw 4 prev = some ls ∧
      1 ≤ pts.length ∧ pts.length ≤ 4 ∧ (prev ≠ loc → pts.length ≤ 3) ∧ ls.length = pts.length := by
  cases prev <;> cases loc <;> cases cw <;>
    first | exact absurd rfl hp | exact absurd rfl hl | exact ⟨_, _, rfl, rfl, by simp⟩

example (r : Rect) : cornerLoop r .bottom true 4 .left = some [r.c0, r.c1, r.c2] := rfl

/-- The precondition `loc ≠ Inside` is needed: with target `Inside` the location loop never ends, whatever the
fuel (`GetAdjacentLocation` never returns `Inside`).  In the C++ this would be an endless loop appending to
`start_locs_`; whether `ExecuteInternal` can reach the loops with `loc == Inside` depends on the crossing automaton,
which is not modelled. -/
theorem corner_loop_diverges_on_inside (cw : Bool) (fuel : Nat) (prev : Location) :
    startLocsLoop .inside cw fuel prev = none := by
  induction fuel generalizing prev with
  | zero => rfl
  | succ fuel ih =>
    unfold startLocsLoop
    simp only
    rw [if_pos (getAdjacent_cycle prev cw).2.2.2, ih]
    rfl

/-! ### `StartLocsAreClockwise` -/

/-- a walk that goes once round clockwise is recognised, its reverse is not -/
example : startLocsAreClockwise [.left, .top, .right, .bottom, .left] = true ∧
    startLocsAreClockwise [.left, .bottom, .right, .top, .left] = false := by decide

/-- each step clockwise counts +1, each step counter-clockwise −1, anything else 0 -/
theorem startLocsSum_step (a b : Location) (rest : List Location) (ha : a ≠ .inside) (hb : b ≠ .inside) :
    startLocsSum (a :: b :: rest) =
      (if b = cwNext a then 1 else if b = ccwNext a then -1 else 0) + startLocsSum (b :: rest) := by
  cases a <;> cases b <;> first | exact absurd rfl ha | exact absurd rfl hb | (simp [startLocsSum, Location.toNat, cwNext, ccwNext])

/-! ### bounds shortcuts of `RectClip64::Execute` -/

def I64 (x : Int) : Prop := i64min ≤ x ∧ x ≤ i64max

/-- one iteration of the `GetBounds` loop -/
def bstep (b : Rect) (p : Pt) : Rect :=
  { left := if p.x < b.left then p.x else b.left
    right := if p.x > b.right then p.x else b.right
    top := if p.y < b.top then p.y else b.top
    bottom := if p.y > b.bottom then p.y else b.bottom }

theorem getBounds_eq (path : Path) :
    getBounds path = path.foldl bstep { left := i64max, top := i64max, right := i64min, bottom := i64min } := rfl

theorem bstep_spec (b : Rect) (p : Pt) :
    ((bstep b p).left ≤ b.left ∧ (bstep b p).left ≤ p.x ∧ ((bstep b p).left = b.left ∨ (bstep b p).left = p.x)) ∧
    (b.right ≤ (bstep b p).right ∧ p.x ≤ (bstep b p).right ∧ ((bstep b p).right = b.right ∨ (bstep b p).right = p.x)) ∧
    ((bstep b p).top ≤ b.top ∧ (bstep b p).top ≤ p.y ∧ ((bstep b p).top = b.top ∨ (bstep b p).top = p.y)) ∧
    (b.bottom ≤ (bstep b p).bottom ∧ p.y ≤ (bstep b p).bottom ∧ ((bstep b p).bottom = b.bottom ∨ (bstep b p).bottom = p.y)) := by
  unfold bstep
  simp only
  refine ⟨?_, ?_, ?_, ?_⟩ <;> split <;> omega

/-- invariant of the `GetBounds` fold -/
theorem getBounds_fold (path : Path) (acc : Rect) :
    ((path.foldl bstep acc).left ≤ acc.left ∧ acc.right ≤ (path.foldl bstep acc).right ∧
      (path.foldl bstep acc).top ≤ acc.top ∧ acc.bottom ≤ (path.foldl bstep acc).bottom) ∧
    (∀ p ∈ path, (path.foldl bstep acc).left ≤ p.x ∧ p.x ≤ (path.foldl bstep acc).right ∧
      (path.foldl bstep acc).top ≤ p.y ∧ p.y ≤ (path.foldl bstep acc).bottom) ∧
    ((path.foldl bstep acc).left = acc.left ∨ ∃ p ∈ path, (path.foldl bstep acc).left = p.x) ∧
    ((path.foldl bstep acc).right = acc.right ∨ ∃ p ∈ path, (path.foldl bstep acc).right = p.x) ∧
    ((path.foldl bstep acc).top = acc.top ∨ ∃ p ∈ path, (path.foldl bstep acc).top = p.y) ∧
    ((path.foldl bstep acc).bottom = acc.bottom ∨ ∃ p ∈ path, (path.foldl bstep acc).bottom = p.y) := by
  induction path generalizing acc with
  | nil => simp
  | cons q path ih =>
    simp only [List.foldl_cons]
    have hs := bstep_spec acc q
    obtain ⟨h1, h2, h3, h4, h5, h6⟩ := ih (bstep acc q)
    generalize bstep acc q = acc' at *
    generalize path.foldl bstep acc' = b at *
    refine ⟨by omega, ?_, ?_, ?_, ?_, ?_⟩
    · intro p hp
      rcases List.mem_cons.mp hp with rfl | hp
      · omega
      · exact h2 p hp
    · rcases h3 with h | ⟨p, hp, h⟩
      · rcases hs.1.2.2 with e | e
        · exact Or.inl (by omega)
        · exact Or.inr ⟨q, by simp, by omega⟩
      · exact Or.inr ⟨p, by simp [hp], h⟩
    · rcases h4 with h | ⟨p, hp, h⟩
      · rcases hs.2.1.2.2 with e | e
        · exact Or.inl (by omega)
        · exact Or.inr ⟨q, by simp, by omega⟩
      · exact Or.inr ⟨p, by simp [hp], h⟩
    · rcases h5 with h | ⟨p, hp, h⟩
      · rcases hs.2.2.1.2.2 with e | e
        · exact Or.inl (by omega)
        · exact Or.inr ⟨q, by simp, by omega⟩
      · exact Or.inr ⟨p, by simp [hp], h⟩
    · rcases h6 with h | ⟨p, hp, h⟩
      · rcases hs.2.2.2.2.2 with e | e
        · exact Or.inl (by omega)
        · exact Or.inr ⟨q, by simp, by omega⟩
      · exact Or.inr ⟨p, by simp [hp], h⟩

/-- `GetBounds` of a non-empty path with `int64` coordinates is its bounding box: it contains every vertex and
each of its four sides is attained by a vertex. -/
theorem getBounds_spec (path : Path) (hne : path ≠ []) (hr : ∀ p ∈ path, I64 p.x ∧ I64 p.y) :
    (∀ p ∈ path, (getBounds path).left ≤ p.x ∧ p.x ≤ (getBounds path).right ∧
        (getBounds path).top ≤ p.y ∧ p.y ≤ (getBounds path).bottom) ∧
    (∃ p ∈ path, (getBounds path).left = p.x) ∧ (∃ p ∈ path, (getBounds path).right = p.x) ∧
    (∃ p ∈ path, (getBounds path).top = p.y) ∧ (∃ p ∈ path, (getBounds path).bottom = p.y) := by
  have h := getBounds_fold path { left := i64max, top := i64max, right := i64min, bottom := i64min }
  rw [← getBounds_eq] at h
  simp only at h
  obtain ⟨_, h2, h3, h4, h5, h6⟩ := h
  obtain ⟨p0, hp0⟩ := List.exists_mem_of_ne_nil path hne
  have hb := h2 p0 hp0
  have hi := hr p0 hp0
  unfold I64 at hi
  refine ⟨h2, ?_, ?_, ?_, ?_⟩
  · rcases h3 with h | h
    · exact ⟨p0, hp0, by unfold i64max i64min at *; omega⟩
    · exact h
  · rcases h4 with h | h
    · exact ⟨p0, hp0, by unfold i64max i64min at *; omega⟩
    · exact h
  · rcases h5 with h | h
    · exact ⟨p0, hp0, by unfold i64max i64min at *; omega⟩
    · exact h
  · rcases h6 with h | h
    · exact ⟨p0, hp0, by unfold i64max i64min at *; omega⟩
    · exact h

/-- **`shortcut_small`.** A path of fewer than three points gives no output. -/
theorem shortcut_small (r : Rect) (path : Path) (h : path.length < 3) : executeShortcut r path = some [] := by
  unfold executeShortcut; rw [if_pos h]

/-- **`shortcut_inside`.**  A path (≥ 3 points, `int64` coordinates) all of whose vertices lie in the closed
rectangle is returned unchanged — one output path, identical to the input, whatever its orientation. -/
theorem shortcut_inside (r : Rect) (path : Path) (hlen : 3 ≤ path.length)
    (hr : ∀ p ∈ path, I64 p.x ∧ I64 p.y) (hin : ∀ p ∈ path, inRect r p = true) :
    executeShortcut r path = some [path] := by
  have hne : path ≠ [] := by intro h; rw [h] at hlen; simp at hlen
  obtain ⟨h1, ⟨pl, hpl, hl⟩, ⟨pr, hpr, hrr⟩, ⟨pt, hpt, ht⟩, ⟨pb, hpb, hb⟩⟩ := getBounds_spec path hne hr
  have il := (inRect_iff r pl).mp (hin pl hpl)
  have ir := (inRect_iff r pr).mp (hin pr hpr)
  have it := (inRect_iff r pt).mp (hin pt hpt)
  have ib := (inRect_iff r pb).mp (hin pb hpb)
  have bl := h1 pl hpl
  have bt := h1 pt hpt
  unfold executeShortcut
  rw [if_neg (by omega)]
  simp only
  have hint : r.intersects (getBounds path) = true := by
    unfold Rect.intersects
    simp only [Bool.and_eq_true, decide_eq_true_eq]
    omega
  have hcont : r.containsRect (getBounds path) = true := by
    unfold Rect.containsRect
    simp only [Bool.and_eq_true, decide_eq_true_eq]
    omega
  rw [hint, hcont]
  rfl

/-- **`shortcut_outside`.**  A path whose vertices all lie strictly to one side of the rectangle
(bounding boxes disjoint) is dropped. -/
theorem shortcut_outside (r : Rect) (path : Path) (hne : path ≠ [])
    (hr : ∀ p ∈ path, I64 p.x ∧ I64 p.y)
    (hout : (∀ p ∈ path, p.x < r.left) ∨ (∀ p ∈ path, p.x > r.right) ∨
            (∀ p ∈ path, p.y < r.top) ∨ (∀ p ∈ path, p.y > r.bottom)) :
    executeShortcut r path = some [] := by
  obtain ⟨h1, ⟨pl, hpl, hl⟩, ⟨pr, hpr, hrr⟩, ⟨pt, hpt, ht⟩, ⟨pb, hpb, hb⟩⟩ := getBounds_spec path hne hr
  unfold executeShortcut
  split
  · rfl
  · simp only
    have hint : r.intersects (getBounds path) = false := by
      unfold Rect.intersects
      rw [Bool.and_eq_false_iff]
      simp only [decide_eq_false_iff_not]
      rcases hout with h | h | h | h
      · have := h pr hpr; left; omega
      · have := h pl hpl; left; omega
      · have := h pb hpb; right; omega
      · have := h pt hpt; right; omega
    rw [hint]
    rfl

/-- **Soundness of the shortcuts** (the converse direction): when `Execute` decides a path of ≥ 3 points without
running the general algorithm (non-empty rectangle), then either it returned the path itself and every vertex is in the closed rectangle, or
it returned nothing and all vertices lie strictly to one side of the rectangle. -/
theorem shortcut_sound (r : Rect) (path : Path) (hre : r.isEmpty = false) (hlen : 3 ≤ path.length)
    (hr : ∀ p ∈ path, I64 p.x ∧ I64 p.y) (out : Paths) (h : executeShortcut r path = some out) :
    (out = [path] ∧ ∀ p ∈ path, inRect r p = true) ∨
    (out = [] ∧ ((∀ p ∈ path, p.x < r.left) ∨ (∀ p ∈ path, p.x > r.right) ∨
                 (∀ p ∈ path, p.y < r.top) ∨ (∀ p ∈ path, p.y > r.bottom))) := by
  have hne : path ≠ [] := by intro h; rw [h] at hlen; simp at hlen
  obtain ⟨h1, _⟩ := getBounds_spec path hne hr
  obtain ⟨p0, hp0⟩ := List.exists_mem_of_ne_nil path hne
  have hb0 := h1 p0 hp0
  unfold Rect.isEmpty at hre
  simp only [Bool.or_eq_false_iff, decide_eq_false_iff_not] at hre
  unfold executeShortcut at h
  rw [if_neg (by omega)] at h
  simp only at h
  split at h
  · rename_i hint
    right
    simp only [Option.some.injEq] at h
    refine ⟨h.symm, ?_⟩
    unfold Rect.intersects at hint
    simp only [Bool.not_eq_true', Bool.and_eq_false_iff, decide_eq_false_iff_not] at hint
    rcases hint with hx | hy
    · by_cases hc : (getBounds path).right < r.left
      · left; intro p hp; have := h1 p hp; omega
      · right; left; intro p hp; have := h1 p hp; omega
    · by_cases hc : (getBounds path).bottom < r.top
      · right; right; left; intro p hp; have := h1 p hp; omega
      · right; right; right; intro p hp; have := h1 p hp; omega
  · split at h
    · rename_i hcont
      left
      simp only [Option.some.injEq] at h
      refine ⟨h.symm, ?_⟩
      unfold Rect.containsRect at hcont
      simp only [Bool.and_eq_true, decide_eq_true_eq] at hcont
      intro p hp
      have := h1 p hp
      rw [inRect_iff]; omega
    · simp at h

/-- the hypotheses of the shortcut theorems are satisfiable by non-trivial inputs -/
example : executeShortcut ⟨0, 0, 10, 10⟩ [⟨1, 1⟩, ⟨9, 2⟩, ⟨5, 10⟩] = some [[⟨1, 1⟩, ⟨9, 2⟩, ⟨5, 10⟩]] ∧
    executeShortcut ⟨0, 0, 10, 10⟩ [⟨11, 1⟩, ⟨19, 2⟩, ⟨15, 10⟩] = some [] ∧
    executeShortcut ⟨0, 0, 10, 10⟩ [⟨-1, 1⟩, ⟨19, 2⟩, ⟨15, 10⟩] = none := by decide


/-! ## the location / corner automaton of `RectClip64::ExecuteInternal`

Model: `Model/RectClipAuto.lean` (`executeInternalA A pip r path`): the list of `Add` calls, each tagged with its origin,
`start_locs_` and the final values of the locals, for an abstract arithmetic `A : Arith` (`CrossProduct` signs,
`GetSegmentIntersectPt`) and an abstract `PointInPolygon`.  `Execute` calls `ExecuteInternal` only for a non-empty
rectangle; that is the hypothesis `r.isEmpty = false` below. -/

/-- **`added_points_in_rect`, provenance part.**  Every point passed to `Add` is (`AGood`)
* `vertex`: the path vertex `path[k]`, and it lies in the closed rectangle, or
* `corner`: one of the four rectangle corners, or
* `cross`: the point a *successful* `GetIntersection` call reported for the segment ending in `path[k]`, or
* `thru1 f`: the point the second `GetIntersection` call of a passing-right-through step left in `ip2`; `f` is the
  result of that call, which the C++ ignores.
Holds for every arithmetic, every `PointInPolygon` and every path. -/
theorem added_points_provenance (A : Arith) (pip : Pt → Path → Option PipResult) (r : Rect) (path : Path)
    (hne : r.isEmpty = false) (res : AResult) (h : executeInternalA A pip r path = .ok res) :
    ∀ e ∈ res.es, AGood A r path e := by
  unfold executeInternalA at h
  cases hl : path.getLast? with
  | none => rw [hl] at h; simp only [Except.ok.injEq] at h; subst h; simp
  | some last =>
    rw [hl] at h
    simp only at h
    cases hs : startLoc r path last with
    | inl es =>
      rw [hs] at h
      simp only [Except.ok.injEq] at h
      subst h
      simp only
      obtain ⟨rfl, hb⟩ := startLoc_inl hl hs
      apply good_vtx (i := 0) (j := path.length)
      intro k q hm
      have m := mem_indexFrom 0 path k q hm
      have hk : path[k]? = some q := by simpa using m.2.2
      exact ⟨hk, onBoundary_inRect (hb q (List.mem_of_getElem? hk)) hne, by omega, by omega⟩
    | inr loc0 =>
      rw [hs] at h
      simp only at h
      cases hlo : aloop A r path (afuel path) ⟨0, loc0, .inside, .inside⟩ with
      | error f => rw [hlo] at h; cases h
      | ok o =>
        rw [hlo] at h
        simp only at h
        cases hfin : afinish pip r path loc0 o with
        | error f => rw [hfin] at h; cases h
        | ok fin =>
          rw [hfin] at h
          simp only [Except.ok.injEq] at h
          subst h
          exact all_append (aloop_good A r path _ _ o hlo) (afinish_good pip r path loc0 o fin hfin)

/-- The second `GetIntersection` call of every passing-right-through step of the run — whose result the C++
ignores — found the first crossing (same hypothesis as `Props.C09.NoLostCrossing`). -/
def NoLostCrossingA (A : Arith) (pip : Pt → Path → Option PipResult) (r : Rect) (path : Path) : Prop :=
  ∀ res, executeInternalA A pip r path = .ok res → ∀ e ∈ res.es, e.kind ≠ .thru1 false

theorem corner_inRect {r : Rect} (hne : r.isEmpty = false) {p : Pt} (h : p ∈ r.asPath) : inRect r p = true := by
  unfold Rect.isEmpty at hne
  simp only [Bool.or_eq_false_iff, decide_eq_false_iff_not] at hne
  simp only [Rect.asPath, List.mem_cons, List.not_mem_nil, or_false] at h
  rw [inRect_iff]
  rcases h with rfl | rfl | rfl | rfl <;> simp only [Rect.c0, Rect.c1, Rect.c2, Rect.c3] <;> omega

theorem agood_inR {A : Arith} {r R : Rect} {path : Path} (hne : r.isEmpty = false) (hce : CrossZeroExact A)
    (hi : IsectIn A R) (hsub : Subrect r R) {e : AEmit} (hg : AGood A r path e) (hl : e.kind ≠ .thru1 false) :
    inRect R e.pt = true := by
  unfold AGood at hg
  split at hg
  · exact inRect_mono hsub hg.2
  · exact inRect_mono hsub (corner_inRect hne hg)
  · obtain ⟨cur, prv, loc, _, _, h1, h2⟩ := hg
    rw [← h2]; exact getIntersection_inR hne hce hi hsub _ _ _ _ h1
  · rename_i f hk
    obtain ⟨cur, prv, loc, _, _, h1, h2⟩ := hg
    cases f with
    | false => exact absurd hk hl
    | true => rw [← h2]; exact getIntersection_inR hne hce hi hsub _ _ _ _ h1

/-- **`added_points_in_rect`.**  Every point passed to `Add` lies in the closed rectangle `R ⊇ rect` into which
`GetSegmentIntersectPt` delivers its points (`R = rect` for an exact routine, `rect` widened by one unit for the real
one), provided `CrossProduct(a, b, c) == 0` is decided exactly when `b c` is axis-parallel and no first crossing of
a through-going segment is lost.  The last hypothesis is necessary: `raw_ring_needs_hyp`. -/
theorem added_points_in_rect (A : Arith) (pip : Pt → Path → Option PipResult) (r R : Rect) (path : Path)
    (hne : r.isEmpty = false) (hce : CrossZeroExact A) (hi : IsectIn A R) (hsub : Subrect r R)
    (hnl : NoLostCrossingA A pip r path) (res : AResult) (h : executeInternalA A pip r path = .ok res) :
    ∀ e ∈ res.es, inRect R e.pt = true :=
  fun e he => agood_inR hne hce hi hsub (added_points_provenance A pip r path hne res h e he) (hnl res h e he)

theorem agood_new {A : Arith} {r : Rect} {path : Path} (Q : Pt → Prop) (hQ : EdgeSat A r Q) {e : AEmit}
    (hg : AGood A r path e) (hl : e.kind ≠ .thru1 false) : e.pt ∈ path ∨ Q e.pt := by
  have hQ' : EdgeSat A r (fun q => q ∈ path ∨ Q q) :=
    ⟨fun c hc => Or.inr (hQ.1 c hc), fun a b c d q he hq => Or.inr (hQ.2 a b c d q he hq)⟩
  unfold AGood at hg
  split at hg
  · exact Or.inl (List.mem_of_getElem? hg.1)
  · exact Or.inr (hQ.1 _ hg)
  · obtain ⟨cur, prv, loc, hc, hp, h1, h2⟩ := hg
    rw [← h2]
    exact getIntersection_sat _ hQ' (Or.inl (List.mem_of_getElem? hc)) (Or.inl (prevPt_mem hp)) loc _ h1
  · rename_i f hk
    obtain ⟨cur, prv, loc, hc, hp, h1, h2⟩ := hg
    cases f with
    | false => exact absurd hk hl
    | true =>
      rw [← h2]
      exact getIntersection_sat _ hQ' (Or.inl (prevPt_mem hp)) (Or.inl (List.mem_of_getElem? hc)) loc _ h1

/-- **`new_vertices_on_boundary`.**  Let `Q` be any property that holds for the four rectangle corners and for every
point `GetSegmentIntersectPt` computes against a rectangle edge (`EdgeSat`; e.g. `Q` = "on the boundary" for an exact
routine, "within one unit of the boundary" for the real one).  Then every point passed to `Add` that is not an input
vertex satisfies `Q` — provided no first crossing of a through-going segment is lost. -/
theorem new_vertices_on_boundary (A : Arith) (pip : Pt → Path → Option PipResult) (r : Rect) (path : Path)
    (Q : Pt → Prop) (hne : r.isEmpty = false) (hQ : EdgeSat A r Q) (hnl : NoLostCrossingA A pip r path)
    (res : AResult) (h : executeInternalA A pip r path = .ok res) :
    ∀ e ∈ res.es, e.pt ∈ path ∨ Q e.pt :=
  fun e he => agood_new Q hQ (added_points_provenance A pip r path hne res h e he) (hnl res h e he)

theorem foldl_addRing_mem (p : Pt) : ∀ (l acc : List Pt), p ∈ l.foldl addRing acc → p ∈ acc ∨ p ∈ l := by
  intro l
  induction l with
  | nil => intro acc h; exact Or.inl h
  | cons a l ih =>
    intro acc h
    simp only [List.foldl_cons] at h
    rcases ih _ h with h | h
    · cases acc with
      | nil => simp only [addRing, List.mem_singleton] at h; exact Or.inr (by simp [h])
      | cons last tl =>
        simp only [addRing] at h
        split at h
        · exact Or.inl h
        · rcases List.mem_cons.mp h with h | h
          · exact Or.inr (by simp [h])
          · exact Or.inl h
    · exact Or.inr (by simp [h])

/-- every point of the raw result ring was passed to `Add` -/
theorem mem_ringOf {es : List AEmit} {p : Pt} (h : p ∈ ringOf es) : ∃ e ∈ es, e.pt = p := by
  unfold ringOf at h
  rcases foldl_addRing_mem p _ _ (List.mem_reverse.mp h) with h | h
  · simp at h
  · simpa using h

/-- **The raw result ring** (`results_[0]` when `ExecuteInternal` returns, before `CheckEdges` / `TidyEdges`) lies in
the closed rectangle `R`, and each of its vertices is an input vertex or lies on the boundary of the rectangle —
for an arithmetic whose intersection points lie on the boundary of `rect` (`EdgeSat … OnBoundary`, then `R = rect`
does), exact zero tests on axis-parallel edges, and no lost crossing. -/
theorem raw_ring_in_rect (A : Arith) (pip : Pt → Path → Option PipResult) (r R : Rect) (path : Path)
    (hne : r.isEmpty = false) (hce : CrossZeroExact A) (hi : IsectIn A R) (hsub : Subrect r R)
    (hQ : EdgeSat A r (OnBoundary r)) (hnl : NoLostCrossingA A pip r path)
    (res : AResult) (h : executeInternalA A pip r path = .ok res) :
    ∀ p ∈ ringOf res.es, inRect R p = true ∧ (p ∈ path ∨ OnBoundary r p) := by
  intro p hp
  obtain ⟨e, he, rfl⟩ := mem_ringOf hp
  exact ⟨added_points_in_rect A pip r R path hne hce hi hsub hnl res h e he,
    new_vertices_on_boundary A pip r path _ hne hQ hnl res h e he⟩

/-- exact `PointInPolygon` (the model of property C18) as the `pip` parameter -/
def pipX (p : Pt) (poly : Path) : Option PipResult := Clipper.Model.pointInPolygonX p poly

/-- the hypotheses of `raw_ring_in_rect` are satisfiable on a run with a through-going segment, an entering and an
exiting one (arithmetic: exact signs, every intersection "computed" as the corner `c0`) -/
example : let A := Props.C09.exampleArith ⟨0, 0, 10, 10⟩
    CrossZeroExact A ∧ IsectIn A ⟨0, 0, 10, 10⟩ ∧ EdgeSat A ⟨0, 0, 10, 10⟩ (OnBoundary ⟨0, 0, 10, 10⟩) ∧
    NoLostCrossingA A pipX ⟨0, 0, 10, 10⟩ [⟨-5, 5⟩, ⟨15, 7⟩, ⟨3, 3⟩] ∧
    (executeInternalA A pipX ⟨0, 0, 10, 10⟩ [⟨-5, 5⟩, ⟨15, 7⟩, ⟨3, 3⟩]).toOption.map (·.es.map (·.kind)) =
      some [.cross, .thru1 true, .corner, .cross, .vertex] := by
  refine ⟨?_, ?_, ⟨?_, ?_⟩, ?_, by decide⟩
  · intro a b c _; simp [Props.C09.exampleArith, Int.sign_eq_zero_iff_zero]
  · intro a b c d q h; simp [Props.C09.exampleArith] at h; subst h; decide
  · intro c hc
    simp only [Rect.asPath, List.mem_cons, List.not_mem_nil, or_false] at hc
    rcases hc with rfl | rfl | rfl | rfl <;> simp [OnBoundary, Rect.c0, Rect.c1, Rect.c2, Rect.c3]
  · intro a b c d q _ h; simp [Props.C09.exampleArith] at h; subst h; simp [OnBoundary, Rect.c0]
  · intro res hres e he
    have : (executeInternalA (Props.C09.exampleArith ⟨0, 0, 10, 10⟩) pipX ⟨0, 0, 10, 10⟩ [⟨-5, 5⟩, ⟨15, 7⟩, ⟨3, 3⟩]).toOption.map
        (·.es.all (fun e => e.kind != .thru1 false)) = some true := by decide
    rw [hres] at this
    simp only [Except.toOption, Option.map_some, Option.some.injEq, List.all_eq_true, bne_iff_ne] at this
    exact this e he

/-! ### `NoLostCrossingA` is necessary (known finding kf.lost_crossing, RectClip variant)

Real input (harness labels `kf.lost_crossing.spec`, `kf.lost_crossing.auto.model`): `RectClip(Rect64(347, 434, 67109211,
67109298), {(-28115609, 29720495), (95231410, -100663865), (1000, 1000)})`: the raw ring contains `(0,0)`, left in
`ip2` by the second `GetIntersection` call, whose failure `ExecuteInternal` ignores.  As in `Props.C09` the kernel
witness uses an arithmetic that is exact except for the one product the `double` computation rounds to zero. -/

/-- the cross product of `Props.C09.witnessArith` (exact signs except `CrossProduct(c0, b, a)`, rounded to zero as the
`double` computation does); every intersection point is "computed" as the corner `c0`, a point of the rectangle -/
def witnessArithA : Arith := ⟨Props.C09.witnessArith.cross, fun _ _ _ _ => some Props.C09.wRect.c0⟩

/-- **Negation of `added_points_in_rect` without `NoLostCrossingA`.**  The arithmetic satisfies the other hypotheses
(and `RunFine`, see `raw_ring_needs_hyp_regular`), yet the raw ring contains `(0,0)`, outside `[347, 67109211] × [434, 67109298]`. -/
theorem raw_ring_needs_hyp :
    CrossZeroExact witnessArithA ∧ IsectIn witnessArithA Props.C09.wRect ∧
    (executeInternalA witnessArithA pipX Props.C09.wRect
        [Props.C09.wA, Props.C09.wB, ⟨1000, 1000⟩]).toOption.map (fun res => ringOf res.es) =
      some [⟨347, 434⟩, ⟨0, 0⟩, ⟨347, 434⟩, ⟨1000, 1000⟩] ∧
    inRect Props.C09.wRect ⟨0, 0⟩ = false := by
  refine ⟨fun a b c h => Props.C09.witnessArith_crossZeroExact a b c h, ?_, by decide, by decide⟩
  intro a b c d q h
  simp only [witnessArithA, Option.some.injEq] at h
  subst h; decide

/-! ### termination and index safety -/

/-- **No `path[i]` is read out of range**, whatever the arithmetic: the only faults the model can raise are a
rectangle-corner index / a corner loop that cannot end (`corner`), a faulting `PointInPolygon` (`pip`), and
exhausted fuel. -/
theorem executeInternal_no_path_fault (A : Arith) (pip : Pt → Path → Option PipResult) (r : Rect) (path : Path) :
    executeInternalA A pip r path ≠ .error .path := by
  intro h
  unfold executeInternalA at h
  split at h
  · cases h
  · split at h
    · cases h
    · split at h
      · rename_i f hf
        simp only [Except.error.injEq] at h
        subst h
        rcases aloop_fault A r path _ _ _ hf with h | h <;> cases h
      · split at h
        · rename_i f hf
          simp only [Except.error.injEq] at h
          subst h
          rcases afinish_fault pip r path _ _ _ hf with h | h <;> cases h
        · cases h

/-- Run hypothesis of the termination theorem: `StepFine` (no missed crossing; a crossing found on an iteration that
does not advance `i` leaves a location from which the next iteration advances) in every control state the main loop
goes through.  These are facts about `GetIntersection` under the given arithmetic which a geometrically complete
intersection test has; they are not proved here for any arithmetic, but decided input by input (`runFineB`). -/
def RunFine (A : Arith) (r : Rect) (path : Path) : Prop :=
  ∀ last loc0, path.getLast? = some last → startLoc r path last = .inr loc0 →
    ∀ c, Reach A r path ⟨0, loc0, .inside, .inside⟩ c → c.i < path.length → StepFine A r path c

/-- the executable check `runFineB` (driver command `RCAUTOHYP`, evaluated on every generated input) is sound -/
theorem runFineB_sound (A : Arith) (r : Rect) (path : Path) (h : runFineB A r path = true) : RunFine A r path := by
  intro last loc0 hl hs c hr hi
  unfold runFineB at h
  rw [hl] at h
  simp only [hs] at h
  exact fineLoop_sound A r path _ _ h c hr hi

/-- the run of `raw_ring_needs_hyp` is regular: the lost crossing is not a termination problem -/
theorem raw_ring_needs_hyp_regular :
    RunFine witnessArithA Props.C09.wRect [Props.C09.wA, Props.C09.wB, ⟨1000, 1000⟩] :=
  runFineB_sound _ _ _ (by decide)

/-- **`executeInternal_total`** (C10 obligations of this code).  Under `RunFine` and a total `PointInPolygon`,
`ExecuteInternal` returns: the main loop ends within `2 * path.size() + 2` iterations (every iteration either advances
`i` or leaves a location from which the next one does), every `do { … } while (prev != loc)` corner loop ends within 4
iterations, no `rect_as_path_[…]` or `path[…]` index is out of range, and `start_locs_` never contains `Inside`.
Without `RunFine` the statement is false for an abstract arithmetic (`corner_loop_inside_reachable`); see
`executeInternal_no_path_fault` for the part that holds unconditionally. -/
theorem executeInternal_total (A : Arith) (pip : Pt → Path → Option PipResult) (r : Rect) (path : Path)
    (hfine : RunFine A r path) (hpip : ∀ q poly, (pip q poly).isSome = true) :
    ∃ res, executeInternalA A pip r path = .ok res ∧ ∀ l ∈ res.startLocs, l ≠ .inside := by
  unfold executeInternalA
  cases hl : path.getLast? with
  | none => exact ⟨_, rfl, by simp⟩
  | some last =>
    simp only
    cases hs : startLoc r path last with
    | inl es => exact ⟨_, rfl, by simp⟩
    | inr loc0 =>
      simp only
      obtain ⟨o, ho, hsl⟩ := aloop_total A r path ⟨0, loc0, .inside, .inside⟩ (hfine last loc0 hl hs)
        (afuel path) ⟨0, loc0, .inside, .inside⟩ Reach.init (Nat.zero_le _) (Or.inl (by simp [afuel]))
      rw [ho]
      simp only
      obtain ⟨fin, hfin⟩ := afinish_total pip r path loc0 o hpip hsl
      rw [hfin]
      exact ⟨_, rfl, hsl⟩

/-- `PointInPolygon` is total for every cross-product function, in particular for the exact and for the `double` one -/
theorem pipG_total (cp : Pt → Pt → Pt → Int) (p : Pt) (poly : Path) :
    (Clipper.Model.pointInPolygonG cp p poly).isSome = true := by
  by_cases hn : poly.length < 3
  · simp [Clipper.Model.pointInPolygonG, hn]
  · by_cases hfirst : Clipper.Model.findFirst p.y poly = poly.length
    · simp [Clipper.Model.pointInPolygonG, hn, hfirst]
    · have hlt : Clipper.Model.findFirst p.y poly < poly.length := by
        have := Clipper.Lemmas.Geom.findFirst_le p.y poly; omega
      rw [Clipper.Lemmas.Geom.pointInPolygonG_eq_cyc cp p poly _ (by omega) (List.getElem?_eq_getElem hlt)]
      rfl

/-- the hypotheses of `executeInternal_total` hold on a run that enters, leaves, passes right through and turns two
corners (exact signs); the `double` instance of `PointInPolygon` used by the correspondence is total too -/
example : RunFine (Props.C09.exampleArith ⟨0, 0, 10, 10⟩) ⟨0, 0, 10, 10⟩ [⟨-5, 5⟩, ⟨15, 7⟩, ⟨3, 3⟩, ⟨20, 20⟩, ⟨-7, 30⟩] ∧
    (∀ q poly, (pipX q poly).isSome = true) ∧ (∀ q poly, (pipFloat q poly).isSome = true) :=
  ⟨runFineB_sound _ _ _ (by decide), fun q poly => pipG_total _ q poly, fun q poly => pipG_total _ q poly⟩

/-! ### the targets of the corner loops -/

/-- **`corner_loop_targets_never_inside`.**  One iteration of the main loop, `loc`/`j` being what `GetNextLocation`
returns, `cur = path[j]`, `prv` the vertex before it, `x` the first `GetIntersection` call.  For **every** arithmetic:
* the corner loop of the entering branch (`do AddCorner(prev, cw) while (prev != crossing_loc)`) starts from a
  location `≠ Inside` and has a target `≠ Inside`;
* both two-location `AddCorner` calls of the passing-right-through branch get locations `≠ Inside`;
* the two loops of the remaining-outside branch (`do … while (prev != loc)`) have target `loc`, and `loc == Inside`
  there means precisely that `GetIntersection` reported "no crossing" for a segment whose end point `cur` lies
  strictly inside the rectangle while the automaton was outside — a missed crossing, excluded by `StepFine`.
So `corner_loop_diverges_on_inside` is unreachable exactly as long as no entering crossing is missed. -/
theorem corner_loop_targets_never_inside (A : Arith) (r : Rect) (path : Path) (c : Ctl) (cur prv : Pt)
    (hcur : path[(getNextLocation r path c.loc c.i).2.1]? = some cur) :
    let loc := (getNextLocation r path c.loc c.i).1
    let x := getIntersection A r cur prv loc ⟨0, 0⟩
    (x.1 = true → loc = .inside → c.loc ≠ .inside ∧ x.2.1 ≠ .inside) ∧
    (x.1 = true → loc ≠ .inside → c.loc ≠ .inside →
      x.2.1 ≠ .inside ∧ (getIntersection A r prv cur c.loc ⟨0, 0⟩).2.1 ≠ .inside ∧
      (getLocation r cur x.2.1).2 ≠ .inside) ∧
    (x.1 = false → loc = .inside →
      c.loc ≠ .inside ∧ (r.left < cur.x ∧ cur.x < r.right ∧ r.top < cur.y ∧ cur.y < r.bottom)) ∧
    (StepFine A r path c → prevPt path (getNextLocation r path c.loc c.i).2.1 = some prv → x.1 = false →
      loc ≠ .inside) := by
  intro loc x
  have hcne : loc = .inside → c.loc ≠ .inside := by
    intro hl hc
    have h1 : path[(getNextLocation r path .inside c.i).2.1]? = some cur := by rw [← hc]; exact hcur
    have h2 : (getNextLocation r path c.loc c.i).1 = .inside := hl
    rw [hc] at h2
    exact (gnl_from_inside r path c.i cur h1).1 h2
  refine ⟨?_, ?_, ?_, ?_⟩
  · intro hx hl
    exact ⟨hcne hl, (getIntersection_loc A r cur prv loc ⟨0, 0⟩).1 hx⟩
  · intro hx hl hc
    refine ⟨(getIntersection_loc A r cur prv loc ⟨0, 0⟩).1 hx, getIntersection_loc_ne A r prv cur c.loc ⟨0, 0⟩ hc, ?_⟩
    exact getLocation_ne_inside_of_ready ((gnl_spec r path c.loc c.i).ready cur hcur) hl _
  · intro _ hl
    exact ⟨hcne hl, gnl_inside_strict r path c.loc c.i cur (hcne hl) hcur hl⟩
  · intro hf hprv hx
    exact ((hf cur prv hcur hprv).1 hx).1

/-- **`entering_crossing_found_exact`: the missed crossing cannot happen with exact signs.**  For an arithmetic that
reports the exact sign of every cross product (`SignExact`) and always delivers an intersection point (`IsectTotal`), a
non-empty rectangle, a point `cur` strictly inside it and a point `prv` that is not strictly inside,
`GetIntersection(cur, prv, Inside)` finds a crossing: one of the four `GetSegmentIntersection` calls succeeds (the
nonlinear case analysis over the exit side is `Lemmas.RCE.exit_side`).  Together with the third clause of
`corner_loop_targets_never_inside`: with exact signs the loops of the remaining-outside branch can get the target
`Inside` only for a segment with *both* ends strictly inside the rectangle while the automaton believes it is outside. -/
theorem entering_crossing_found_exact (A : Arith) (hA : SignExact A) (ht : IsectTotal A) (r : Rect)
    (hne : r.isEmpty = false) (cur prv : Pt)
    (hin : r.left < cur.x ∧ cur.x < r.right ∧ r.top < cur.y ∧ cur.y < r.bottom)
    (hout : ¬ (r.left < prv.x ∧ prv.x < r.right ∧ r.top < prv.y ∧ prv.y < r.bottom)) (ip : Pt) :
    (getIntersection A r cur prv .inside ip).1 = true := by
  unfold Rect.isEmpty at hne
  simp only [Bool.or_eq_false_iff, decide_eq_false_iff_not] at hne
  exact getIntersection_from_inside hA ht ⟨by omega, by omega, hin.1, hin.2.1, hin.2.2.1, hin.2.2.2⟩ hout ip

/-- the hypotheses are satisfiable: the exact-sign arithmetic of `Props.C09` -/
example : SignExact (Props.C09.exampleArith ⟨0, 0, 10, 10⟩) ∧ IsectTotal (Props.C09.exampleArith ⟨0, 0, 10, 10⟩) := by
  refine ⟨fun a b c => ⟨by simp [Props.C09.exampleArith, Int.sign_eq_zero_iff_zero], ?_⟩, fun a b c d => rfl⟩
  simp only [Props.C09.exampleArith, gt_iff_lt]
  exact Int.sign_pos_iff

/-- **`corner_loop_targets_never_inside_exact`: the open question of the first round, settled for exact signs.**
For a sign-exact arithmetic and a non-empty rectangle, in every control state the main loop of `ExecuteInternal` goes
through (`Reach` from the start state), a failed `GetIntersection` call implies that `GetNextLocation` did not classify
the vertex as `Inside`: the two `do … while (prev != loc)` loops of the remaining-outside branch never get the target
`Inside`.  With the first two clauses of `corner_loop_targets_never_inside` (which hold for every arithmetic) no corner
loop of `ExecuteInternal` ever has the target `Inside`, so `corner_loop_diverges_on_inside` is unreachable.
(Proof: loop invariant `Lemmas.RCE.Inv` — while the automaton is outside, the vertex before `path[i]` is not strictly
inside, or `path[i]` is strictly outside — plus `entering_crossing_found_exact`.)  For `double` arithmetic the same
holds as long as the sign of the cross products involved is not rounded to zero, which within |coordinates| ≤ 2^40
cannot happen for this configuration (relative gap ≥ 2^-41) and does happen from about 2^53 (report, probe). -/
theorem corner_loop_targets_never_inside_exact (A : Arith) (hA : SignExact A) (ht : IsectTotal A) (r : Rect)
    (hne : r.isEmpty = false) (path : Path) (last : Pt) (loc0 : Location) (hl : path.getLast? = some last)
    (hs : startLoc r path last = .inr loc0) (c : Ctl) (hr : Reach A r path ⟨0, loc0, .inside, .inside⟩ c)
    (cur prv : Pt) (hcur : path[(getNextLocation r path c.loc c.i).2.1]? = some cur)
    (hprv : prevPt path (getNextLocation r path c.loc c.i).2.1 = some prv)
    (hx : (getIntersection A r cur prv (getNextLocation r path c.loc c.i).1 ⟨0, 0⟩).1 = false) :
    (getNextLocation r path c.loc c.i).1 ≠ .inside := by
  intro hli
  unfold Rect.isEmpty at hne
  simp only [Bool.or_eq_false_iff, decide_eq_false_iff_not] at hne
  have := no_missed_entering_exact hA ht (by omega) (by omega) (inv_init hl hs) hr hcur hprv hli ⟨0, 0⟩
  rw [hli] at hx
  rw [this] at hx
  cases hx

/-- the fault a run ends with, if any -/
def faultOf : Except Fault AResult → Option Fault
  | .ok _ => none
  | .error f => some f

/-- an arithmetic whose `CrossProduct` is always positive: `GetSegmentIntersection` never finds anything -/
def blindArith : Arith := ⟨fun _ _ _ => 1, fun _ _ _ _ => none⟩

/-- **The hypothesis is needed: with an abstract arithmetic the corner loops do get the target `Inside`.**  For the
triangle `(-5,5) (5,5) (5,6)` and the rectangle `[0,10]²` the vertex `(5,5)` is classified `Inside`, the blind
`GetIntersection` reports no crossing, and `do { start_locs_.emplace_back(prev); … } while (prev != Inside)` is entered:
the model reports the fault, `RunFine` is false, and by `corner_loop_diverges_on_inside` the loop never ends whatever
the fuel.  (With the real `double` arithmetic the same happens only outside the property's coordinate range, from
about 2^53: see the report.) -/
theorem corner_loop_inside_reachable :
    faultOf (executeInternalA blindArith pipX ⟨0, 0, 10, 10⟩ [⟨-5, 5⟩, ⟨5, 5⟩, ⟨5, 6⟩]) = some .corner ∧
    runFineB blindArith ⟨0, 0, 10, 10⟩ [⟨-5, 5⟩, ⟨5, 5⟩, ⟨5, 6⟩] = false ∧
    ∀ cw fuel prev, startLocsLoop .inside cw fuel prev = none :=
  ⟨by decide, by decide, corner_loop_diverges_on_inside⟩

/-! ### paths that stay inside, paths that never touch -/

/-- **`inside_path_unchanged`** (automaton level).  A non-empty path all of whose vertices lie in the closed
rectangle is passed to `Add` vertex by vertex, in order, and nothing else is (no corner, no crossing, `start_locs_`
stays empty) — for every arithmetic, which is never consulted. -/
theorem inside_path_unchanged (A : Arith) (pip : Pt → Path → Option PipResult) (r : Rect) (path : Path)
    (hne : path ≠ []) (hin : ∀ p ∈ path, inRect r p = true) :
    ∃ res, executeInternalA A pip r path = .ok res ∧ res.es = vtxEmits (indexFrom 0 path) ∧
      res.es.map (·.pt) = path ∧ res.startLocs = [] ∧ res.firstCross = .inside := by
  have hmap : (vtxEmits (indexFrom 0 path)).map (·.pt) = path := by
    have := indexFrom_map_snd 0 path
    simpa [vtxEmits, List.map_map, Function.comp_def] using this
  unfold executeInternalA
  cases hl : path.getLast? with
  | none => rw [List.getLast?_eq_none_iff] at hl; exact absurd hl hne
  | some last =>
    simp only
    rcases startLoc_inside r path last (List.mem_of_getLast? hl) hin with hs | hs
    · rw [hs]; exact ⟨_, rfl, rfl, hmap, rfl, rfl⟩
    · rw [hs]
      simp only [afuel]
      rw [aloop_all_inside A r path hne hin]
      simp only [afinish, if_true, ne_eq, not_true_eq_false, if_false, List.append_nil]
      exact ⟨_, rfl, rfl, hmap, rfl, rfl⟩

example : ∀ p ∈ ([⟨0, 3⟩, ⟨10, 10⟩, ⟨4, 4⟩] : Path), inRect ⟨0, 0, 10, 10⟩ p = true := by decide

/-- **`outside_path_corners_or_nothing`** (automaton level).  Let no vertex of the path lie in the closed rectangle
and let `GetIntersection` report no crossing for any of its segments.  Then `first_cross_` stays `Inside`, no point is
added during the main loop, and the result is decided by the closing logic alone: if the path's bounding box contains
the rectangle and `Path1ContainsPath2(path, rect)` answers `b = true`, the four corners are added — in the order
`c0 c1 c2 c3` when `StartLocsAreClockwise(start_locs_)`, reversed otherwise — and in every other case nothing is. -/
theorem outside_path_corners_or_nothing (A : Arith) (pip : Pt → Path → Option PipResult) (r : Rect) (path : Path)
    (hne : r.isEmpty = false) (hpne : path ≠ []) (hout : ∀ p ∈ path, outsideLoc r p ≠ none)
    (hmiss : ∀ cur prv loc, cur ∈ path → prv ∈ path → (getIntersection A r cur prv loc ⟨0, 0⟩).1 = false)
    (b : Bool) (hb : path1ContainsPath2 pip path r.asPath = some b) :
    ∃ res, executeInternalA A pip r path = .ok res ∧ res.firstCross = .inside ∧
      res.es.map (·.pt) =
        if (getBounds path).containsRect r && b then
          (if startLocsAreClockwise res.startLocs then r.asPath else r.asPath.reverse)
        else [] := by
  unfold executeInternalA
  cases hl : path.getLast? with
  | none => exact absurd (List.getLast?_eq_none_iff.mp hl) hpne
  | some last =>
    simp only
    obtain ⟨loc0, hs, hl0⟩ := startLoc_outside r hne path last (hout last (List.mem_of_getLast? hl))
    rw [hs]
    simp only
    obtain ⟨o, ho, hes, hfc⟩ := aloop_outside A r path hout hmiss (afuel path) ⟨0, loc0, .inside, .inside⟩ hl0 rfl rfl
      (by simp only [afuel]; omega)
    rw [ho]
    simp only
    unfold afinish
    simp only [hfc, if_true, ne_eq, hl0, not_false_eq_true, hb, hes, List.nil_append]
    cases hc : (getBounds path).containsRect r
    · simp only [Bool.false_eq_true, if_false, Bool.false_and]
      exact ⟨_, rfl, rfl, rfl⟩
    · cases b
      · simp only [if_true, Bool.and_false, Bool.false_eq_true, if_false]
        exact ⟨_, rfl, rfl, rfl⟩
      · simp only [if_true, Bool.and_true]
        refine ⟨_, rfl, rfl, ?_⟩
        simp only [cornerEmits, List.map_map, Function.comp_def, List.map_id']

/-- the hypotheses of `outside_path_corners_or_nothing` hold for a square around the rectangle (exact signs): the
result is the rectangle, clockwise like the path -/
example : (∀ p ∈ ([⟨-5, -5⟩, ⟨15, -5⟩, ⟨15, 15⟩, ⟨-5, 15⟩] : Path), outsideLoc ⟨0, 0, 10, 10⟩ p ≠ none) ∧
    (executeInternalA (Props.C09.exampleArith ⟨0, 0, 10, 10⟩) (fun _ _ => some .isInside) ⟨0, 0, 10, 10⟩
      [⟨-5, -5⟩, ⟨15, -5⟩, ⟨15, 15⟩, ⟨-5, 15⟩]).toOption.map (fun res => (res.es.map (·.pt), res.startLocs)) =
      some ([⟨0, 0⟩, ⟨10, 0⟩, ⟨10, 10⟩, ⟨0, 10⟩], [.left, .top, .right, .bottom]) := by
  refine ⟨by decide, by decide⟩

end Clipper.Props.C08
