/-
C01 — Boolean operations return the region defined by the fill rule and clip type.

Proved here (bookkeeping level, see DESIGN.md §5 C01 items 1–4):
the decision table `IsContributingClosed` (generated from the C++) is exactly "the filled state of
`Spec.inR` differs across the edge"; `SetWindCountForClosedPathEdge` computes the encodings of the winding
sums; the AEL invariant `Model.Inv` is preserved by every bookkeeping operation (local-minimum insertion,
`IntersectEdges`+swap in its closed and open branch, maxima removal) and therefore holds after every operation
sequence from the empty AEL — unbounded length, unbounded winding magnitudes; and in every state satisfying the
invariant the hot closed edges bound exactly the region `inR ct fr Ws Wc`, each boundary once (`coverage_1d`).

NOT proved (remains spec-level correspondence): that the real sweep presents operations in an order that keeps the
AEL geometrically sorted (IsValidAelOrder, intersect-list order), intersection rounding, ring assembly.
`ClipType::NoClip` never sweeps (`ExecuteInternal` returns before the first scanbeam), and the invariant is indeed
false for it (a cold/cold different-type crossing would call `AddLocalMinPoly`); theorems about operations carry
`ct ≠ .noClip`.
-/
import ClipperVerif.Lemmas.Ael
import ClipperVerif.Generated.Engine
namespace Clipper.Props.C01
open Clipper Clipper.Model

/-! ## (1) the decision table -/

/-- **Bridge (Tie T).** The definition generated from the current C++ `IsContributingClosed` equals the hand model
`pre fr wc && sel ct pt (otherIn fr wc2)`, for all clip types (incl. NoClip), fill rules, path types and integers.
Proved by exhaustive case analysis + arithmetic, independent of the syntactic shape of the generated code. -/
theorem isContributingClosed_bridge (ct : ClipType) (fr : FillRule) (pt : PathType) (wc wc2 : Int) :
    Gen.IsContributingClosed ct pt wc wc2 fr = isContributingClosed ct fr pt wc wc2 := by
  cases fr <;> cases ct <;> cases pt <;>
    simp [Gen.IsContributingClosed, isContributingClosed, pre, sel, otherIn, Gen.iabs, iabs] <;> grind

/-- **contributing_iff_boundary.** Let an edge of path type `pt` and direction `d = ±1` have own-type winding sum `wl` on
its left (so `wl + d` on its right) and other-type sum `w2`.  If its stored counts encode these sums (`WcOK`:
`wc` = the one of `wl`, `wl+d` with larger magnitude, any of ±1 under EvenOdd; `wc2 = w2`, its parity under EvenOdd) then
the C++ `IsContributingClosed` is true exactly when the `Spec.inR` region membership differs between the two sides
of the edge.  All clip types (incl. NoClip: both sides `false`), fill rules, path types, all integers. -/
theorem contributing_iff_boundary (ct : ClipType) (fr : FillRule) (pt : PathType) (wc wc2 wl w2 d : Int)
    (hd : d = 1 ∨ d = -1) (h : WcOK fr wc d wc2 wl w2) :
    Gen.IsContributingClosed ct pt wc wc2 fr = (filled ct fr pt wl w2 != filled ct fr pt (wl + d) w2) := by
  rw [isContributingClosed_bridge]; exact icc_boundary ct fr pt wc d wc2 wl w2 hd h

/-- the same with the canonical encodings substituted -/
theorem contributing_iff_boundary_enc (ct : ClipType) (fr : FillRule) (pt : PathType) (wl w2 d : Int)
    (hd : d = 1 ∨ d = -1) :
    Gen.IsContributingClosed ct pt (encWc fr wl d) (enc2 fr w2) fr =
      (filled ct fr pt wl w2 != filled ct fr pt (wl + d) w2) :=
  contributing_iff_boundary ct fr pt _ _ wl w2 d hd (wcOK_enc fr wl d w2 hd)

example : WcOK .nonZero 3 1 (-2) 2 (-2) := by simp [WcOK, maxabs, iabs]
example : WcOK .evenOdd (-1) 1 1 2 (-5) := by simp [WcOK]

/-! ## (2) winding counts at insertion -/

/-- **wind_insert.** In a state satisfying the invariant, `SetWindCountForClosedPathEdge` run for a new closed edge
(a fresh `Active`: `wind_cnt2 = 0`) placed after the edges `left` stores exactly the encodings of the closed-path
winding sums of `left`: own type in `wc`, other type in `wc2`; no other field changes.  Any length, any
magnitudes, open edges interleaved. -/
theorem wind_insert (cfg : Cfg) (left : List Edge) (e : Edge)
    (hinv : Inv cfg left) (ho : e.isOpen = false) (hw2 : e.wc2 = 0) (hd : e.dx = 1 ∨ e.dx = -1) :
    setWindClosed cfg.fr left e =
      { e with wc := encWc cfg.fr (sumT e.pt left) e.dx, wc2 := enc2 cfg.fr (sumT (other e.pt) left) } :=
  setWindClosed_spec cfg left e hinv ho hw2 hd

/-! ## (3) the invariant -/

/-- the executable checker decides the invariant -/
theorem checkInvFrom_iff (cfg : Cfg) (l : List Edge) : ∀ (s c : Int),
    checkInvFrom cfg s c l = true ↔ InvFrom cfg s c l := by
  induction l with
  | nil => intro s c; simp [checkInvFrom, InvFrom]
  | cons e rest ih =>
    intro s c
    simp only [checkInvFrom, InvFrom, Bool.and_eq_true, Bool.or_eq_true, ih]
    have : edgeOKb cfg e (own e.pt s c) (own (other e.pt) s c) = true ↔
        EdgeOK cfg e (own e.pt s c) (own (other e.pt) s c) := by
      simp only [edgeOKb, EdgeOK, wcOKb, WcOK]
      cases cfg.fr <;> simp [and_assoc]
    rw [this]
    cases e.isOpen <;> simp

theorem checkInv_iff (cfg : Cfg) (l : Ael) : checkInv cfg l = true ↔ Inv cfg l :=
  checkInvFrom_iff cfg l 0 0

/-- **inv_insert.** Inserting a local minimum (both bounds) at any position preserves the invariant. -/
theorem inv_insert (cfg : Cfg) (pos : Nat) (pt : PathType) (isOpen : Bool) (dxLeft : Int) (l l' : Ael)
    (h : Inv cfg l) (hs : insertPair cfg pos pt isOpen dxLeft l = some l') : Inv cfg l' := by
  unfold insertPair at hs
  split at hs
  case isFalse => cases hs
  case isTrue hc =>
    simp only [Option.some.injEq] at hs; subst hs
    obtain ⟨-, hd⟩ := hc
    unfold Model.Inv at h ⊢
    rw [← List.take_append_drop pos l, invFrom_append] at h
    rw [invFrom_append]
    refine ⟨h.1, ?_⟩
    cases isOpen
    · -- closed pair
      have hw := setWindClosed_spec cfg (l.take pos) (fresh pt false dxLeft) h.1 rfl rfl hd
      have := invFrom_insert_closed cfg _ _ pt dxLeft hd _ h.2
      simp only [own_add_sum] at this
      have hown : own pt 0 0 = 0 := by cases pt <;> rfl
      have hoth : own (other pt) 0 0 = 0 := by cases pt <;> rfl
      simp only [hown, hoth, Int.zero_add] at this
      simp only [newLeft, Bool.false_eq_true, ite_false, hw]
      simp only [fresh, Int.zero_add]
      exact this
    · -- open pair: no closed edge is added, sums are unchanged
      have hf := setWindOpen_fields cfg.fr (l.take pos) (fresh pt true dxLeft)
      simp only [newLeft, ite_true]
      rw [invFrom_cons_open _ _ _ _ (by simp only [hf.2.1]; rfl), invFrom_cons_open _ _ _ _ rfl]
      exact h.2

/-- inserting the single bound of an open path's end vertex preserves the invariant -/
theorem inv_insertOne (cfg : Cfg) (pos : Nat) (pt : PathType) (dx : Int) (l l' : Ael)
    (h : Inv cfg l) (hs : insertOne cfg pos pt dx l = some l') : Inv cfg l' := by
  unfold insertOne at hs
  split at hs
  case isFalse => cases hs
  case isTrue hc =>
    simp only [Option.some.injEq] at hs; subst hs
    unfold Model.Inv at h ⊢
    rw [← List.take_append_drop pos l, invFrom_append] at h
    rw [invFrom_append]
    refine ⟨h.1, ?_⟩
    have hf := setWindOpen_fields cfg.fr (l.take pos) (fresh pt true dx)
    simp only [newLeft, ite_true]
    rw [invFrom_cons_open _ _ _ _ (by simp only [hf.2.1]; rfl)]
    exact h.2

/-- **inv_intersect.** `IntersectEdges` + `SwapPositionsInAEL` on any adjacent pair (closed/closed of the same or of
different path types: count updates and hot/cold transitions; open/closed; open/open) preserves the invariant of the
whole list: the winding sums seen by all other edges are unchanged by an adjacent swap. -/
theorem inv_intersect (cfg : Cfg) (hct : cfg.ct ≠ .noClip) (i : Nat) (l l' : Ael)
    (h : Inv cfg l) (hs : intersect cfg i l = some l') : Inv cfg l' := by
  unfold intersect at hs
  split at hs
  next e1 e2 rest hd =>
    simp only [Option.some.injEq] at hs; subst hs
    unfold Model.Inv at h ⊢
    rw [drop_split l i _ hd, invFrom_append] at h
    rw [invFrom_append]
    exact ⟨h.1, invFrom_pair_swap cfg hct _ _ e1 e2 rest h.2⟩
  next => cases hs

/-- **inv_removePair.** Removing an adjacent maxima pair (same path, opposite directions) preserves the invariant. -/
theorem inv_removePair (cfg : Cfg) (i : Nat) (l l' : Ael)
    (h : Inv cfg l) (hs : removePair i l = some l') : Inv cfg l' := by
  unfold removePair at hs
  split at hs
  next e1 e2 rest hd =>
    split at hs
    case isFalse => cases hs
    case isTrue hc =>
      simp only [Option.some.injEq] at hs; subst hs
      obtain ⟨hpt, hop, hdx⟩ := hc
      unfold Model.Inv at h ⊢
      rw [drop_split l i _ hd, invFrom_append] at h
      rw [invFrom_append]
      refine ⟨h.1, ?_⟩
      have h2 := h.2
      simp only [InvFrom] at h2
      have hz : ∀ t, contrib t e1 + contrib t e2 = 0 := by
        intro t; simp only [contrib, hpt, hop]; split <;> omega
      have e1' := hz .subject
      have e2' := hz .clip
      have h3 := h2.2.2
      have e1'' : ∀ x : Int, x + contrib .subject e1 + contrib .subject e2 = x := by intro x; omega
      have e2'' : ∀ x : Int, x + contrib .clip e1 + contrib .clip e2 = x := by intro x; omega
      rw [e1'', e2''] at h3
      exact h3
  next => cases hs

/-- removing an open edge at its path's end preserves the invariant -/
theorem inv_removeOne (cfg : Cfg) (i : Nat) (l l' : Ael)
    (h : Inv cfg l) (hs : removeOne i l = some l') : Inv cfg l' := by
  unfold removeOne at hs
  split at hs
  next e rest hd =>
    split at hs
    case isFalse => cases hs
    case isTrue hc =>
      simp only [Option.some.injEq] at hs; subst hs
      unfold Model.Inv at h ⊢
      rw [drop_split l i _ hd, invFrom_append] at h
      rw [invFrom_append]
      exact ⟨h.1, (invFrom_cons_open _ _ _ e hc rest).mp h.2⟩
  next => cases hs

/-- **inv_step.** Every operation preserves the invariant. -/
theorem inv_step (cfg : Cfg) (hct : cfg.ct ≠ .noClip) (l l' : Ael) (op : Op)
    (h : Inv cfg l) (hs : step cfg l op = some l') : Inv cfg l' := by
  cases op with
  | insertPair pos pt isOpen dxLeft => exact inv_insert cfg pos pt isOpen dxLeft l l' h hs
  | insertOne pos pt dx => exact inv_insertOne cfg pos pt dx l l' h hs
  | intersect i => exact inv_intersect cfg hct i l l' h hs
  | removePair i => exact inv_removePair cfg i l l' h hs
  | removeOne i => exact inv_removeOne cfg i l l' h hs

theorem inv_run (cfg : Cfg) (hct : cfg.ct ≠ .noClip) (ops : List Op) : ∀ (l l' : Ael),
    Inv cfg l → run cfg l ops = some l' → Inv cfg l' := by
  induction ops with
  | nil => intro l l' h hr; simp only [run, Option.some.injEq] at hr; subst hr; exact h
  | cons op ops ih =>
    intro l l' h hr
    simp only [run] at hr
    split at hr
    next l1 hs => exact ih l1 l' (inv_step cfg hct l l1 op h hs) hr
    next => cases hr

/-- **inv_reachable.** After every sequence of operations from the empty AEL — any length, any positions, any
interleaving of closed subject, closed clip and open edges, hence any winding magnitudes — every closed edge stores
the encodings of the winding sums to its left and is hot exactly when it is contributing. -/
theorem inv_reachable (cfg : Cfg) (hct : cfg.ct ≠ .noClip) (ops : List Op) (l : Ael)
    (hr : run cfg [] ops = some l) : Inv cfg l :=
  inv_run cfg hct ops [] l (by simp [Model.Inv, InvFrom]) hr

/-! ## (4) coverage in one dimension -/

/-- **coverage_1d.** In a state satisfying the invariant, for every gap `k` (between positions `k-1` and `k`, `k = 0`
being left of everything): the point of the scanline in that gap belongs to the region `inR ct fr Ws Wc` of its
subject / clip winding numbers **iff** the number of hot closed edges to its left is odd.  Reading the hot closed
edges left to right they therefore alternately start and end the region, exactly at its boundaries — the region is
covered, nothing else is, and nothing is covered twice. -/
theorem coverage_1d (cfg : Cfg) (l : Ael) (h : Inv cfg l) (k : Nat) :
    inR cfg.ct cfg.fr (sumT .subject (l.take k)) (sumT .clip (l.take k)) =
      decide (hotCount (l.take k) % 2 = 1) := by
  have := coverage_from cfg l 0 0 k h
  rw [inR_zero, Int.zero_add, Int.zero_add] at this
  rw [this]; simp

/-- every reachable state has winding sums 0 over the whole list (each operation adds or removes a ±1 pair) … -/
theorem sum_step (cfg : Cfg) (t : PathType) (l l' : Ael) (op : Op)
    (hs : step cfg l op = some l') : sumT t l' = sumT t l := by
  cases op with
  | insertPair pos pt isOpen dxLeft =>
    simp only [step, insertPair] at hs
    split at hs
    case isFalse => cases hs
    case isTrue hc =>
      simp only [Option.some.injEq] at hs; subst hs
      conv => rhs; rw [← List.take_append_drop pos l]
      obtain ⟨g1, g2, g3⟩ := newLeft_fields cfg (l.take pos) pt isOpen dxLeft
      simp only [sumT_append, sumT, contrib, g1, g2, g3]
      split <;> omega
  | insertOne pos pt dx =>
    simp only [step, insertOne] at hs
    split at hs
    case isFalse => cases hs
    case isTrue hc =>
      simp only [Option.some.injEq] at hs; subst hs
      conv => rhs; rw [← List.take_append_drop pos l]
      obtain ⟨g1, g2, g3⟩ := newLeft_fields cfg (l.take pos) pt true dx
      simp only [sumT_append, sumT, contrib, g2]; simp
  | intersect i =>
    simp only [step, intersect] at hs
    split at hs
    next e1 e2 rest hd =>
      simp only [Option.some.injEq] at hs; subst hs
      conv => rhs; rw [drop_split l i _ hd]
      obtain ⟨f1, f2, f3, f4, f5, f6⟩ := intersectPair_fields cfg e1 e2
      simp only [sumT_append, sumT, contrib_congr t _ _ f1 f2 f3, contrib_congr t _ _ f4 f5 f6]; omega
    next => cases hs
  | removePair i =>
    simp only [step, removePair] at hs
    split at hs
    next e1 e2 rest hd =>
      split at hs
      case isFalse => cases hs
      case isTrue hc =>
        simp only [Option.some.injEq] at hs; subst hs
        conv => rhs; rw [drop_split l i _ hd]
        simp only [sumT_append, sumT, contrib, hc.1, hc.2.1]; split <;> omega
    next => cases hs
  | removeOne i =>
    simp only [step, removeOne] at hs
    split at hs
    next e rest hd =>
      split at hs
      case isFalse => cases hs
      case isTrue hc =>
        simp only [Option.some.injEq] at hs; subst hs
        conv => rhs; rw [drop_split l i _ hd]
        simp only [sumT_append, sumT, contrib_open t e hc]; omega
    next => cases hs

theorem sum_reachable (cfg : Cfg) (t : PathType) (ops : List Op) : ∀ (l l' : Ael),
    run cfg l ops = some l' → sumT t l' = sumT t l := by
  induction ops with
  | nil => intro l l' hr; simp only [run, Option.some.injEq] at hr; subst hr; rfl
  | cons op ops ih =>
    intro l l' hr
    simp only [run] at hr
    split at hr
    next l1 hs => rw [ih l1 l' hr, sum_step cfg t l l1 op hs]
    next => cases hr

/-- … hence **the hot closed edges of a reachable state are even in number** (every started region is ended). -/
theorem hot_even (cfg : Cfg) (hct : cfg.ct ≠ .noClip) (ops : List Op) (l : Ael)
    (hr : run cfg [] ops = some l) : hotCount l % 2 = 0 := by
  have h := coverage_1d cfg l (inv_reachable cfg hct ops l hr) l.length
  rw [List.take_length, sum_reachable cfg .subject ops [] l hr, sum_reachable cfg .clip ops [] l hr] at h
  simp only [sumT, inR_zero] at h
  have := of_decide_eq_false h.symm
  omega

/-! ## (5) non-vacuity: the scanbeams of two overlapping squares

Subject square x∈[0,10], clip square x∈[5,15], both counter-clockwise (left edge descending, `wind_dx = −1`; right edge
ascending), clip starting higher than subject and ending higher; NonZero. -/

/-- the sequence as the real sweep would produce it -/
def squaresGood : List Op :=
  [ .insertPair 0 .subject false (-1),   -- S- S+
    .insertPair 1 .clip false (-1),      -- S- C- C+ S+
    .intersect 2 ]                       -- S- C- S+ C+   (x = 0, 5, 10, 15)

example : run ⟨.intersection, .nonZero⟩ [] squaresGood = some
    [ ⟨.subject, false, -1, -1, 0, false⟩, ⟨.clip, false, -1, -1, -1, true⟩,
      ⟨.subject, false, 1, -1, -1, true⟩, ⟨.clip, false, 1, -1, 0, false⟩ ] := by decide
example : run ⟨.union, .nonZero⟩ [] squaresGood = some
    [ ⟨.subject, false, -1, -1, 0, true⟩, ⟨.clip, false, -1, -1, -1, false⟩,
      ⟨.subject, false, 1, -1, -1, false⟩, ⟨.clip, false, 1, -1, 0, true⟩ ] := by decide
example : run ⟨.difference, .nonZero⟩ [] squaresGood = some
    [ ⟨.subject, false, -1, -1, 0, true⟩, ⟨.clip, false, -1, -1, -1, true⟩,
      ⟨.subject, false, 1, -1, -1, false⟩, ⟨.clip, false, 1, -1, 0, false⟩ ] := by decide
example : run ⟨.xor, .evenOdd⟩ [] squaresGood = some
    [ ⟨.subject, false, -1, -1, 0, true⟩, ⟨.clip, false, -1, -1, 1, true⟩,
      ⟨.subject, false, 1, -1, 1, true⟩, ⟨.clip, false, 1, -1, 0, true⟩ ] := by decide
example : (run ⟨.intersection, .nonZero⟩ [] squaresGood).map (checkInv ⟨.intersection, .nonZero⟩) = some true := by decide
/-- `coverage_1d` on that state: the gaps are x<0, (0,5), (5,10), (10,15), x>15; only (5,10) is in the intersection and
exactly there the number of hot edges to the left is odd -/
example : (run ⟨.intersection, .nonZero⟩ [] squaresGood).map (fun l => (List.range 5).map (fun k =>
      (inR .intersection .nonZero (sumT .subject (l.take k)) (sumT .clip (l.take k)), hotCount (l.take k)))) =
    some [(false, 0), (false, 0), (true, 1), (false, 2), (false, 2)] := by decide
/-- the subject square ends first: `DoMaxima` on `S-` swaps it past `C-` (`intersect 0`), then `S-`,`S+` are adjacent at
positions 1,2 and leave; what remains is the clip square alone, cold under Intersection -/
example : (run ⟨.intersection, .nonZero⟩ [] (squaresGood ++ [.intersect 0, .removePair 1])).map
    (fun l => l.map (fun e => (e.wc, e.wc2, e.hot))) = some [(-1, 0, false), (-1, 0, false)] := by decide
/-- an op that is not a maxima pair (`S-`,`C-` at positions 0,1) is rejected rather than silently accepted -/
example : run ⟨.intersection, .nonZero⟩ [] (squaresGood ++ [.removePair 0]) = none := by decide
/-- the checker is not vacuous: it rejects a state with a wrong count and one with a wrong hot flag -/
example : checkInv ⟨.union, .nonZero⟩ [⟨.subject, false, -1, -1, 0, true⟩, ⟨.subject, false, 1, -1, 0, true⟩] = true := by decide
example : checkInv ⟨.union, .nonZero⟩ [⟨.subject, false, -1, -2, 0, true⟩, ⟨.subject, false, 1, -1, 0, true⟩] = false := by decide
example : checkInv ⟨.union, .nonZero⟩ [⟨.subject, false, -1, -1, 0, false⟩, ⟨.subject, false, 1, -1, 0, true⟩] = false := by decide
/-- the invariant genuinely fails for NoClip (which never sweeps): a different-type crossing heats two edges
that `IsContributingClosed` calls non-contributing -/
example : (run ⟨.noClip, .nonZero⟩ [] squaresGood).map (checkInv ⟨.noClip, .nonZero⟩) = some false := by decide

end Clipper.Props.C01
