/-
C05 — Open subject paths are cut exactly at the clip region boundary (bookkeeping level).

Proved here: the generated `IsContributingOpen` is `Spec.keepOpen` of the winding sums; `SetWindCountForOpenPathEdge`
computes those sums; along every operation sequence an open edge is hot exactly when `keepOpen` holds at its current
position (crossing a closed edge toggles it iff that edge bounds the relevant region — for Union this uses C01's
invariant on the closed edge's hot flag); and open edges never change `wc/wc2/hot` of closed edges.

NOT proved: where the cut points are placed, stitching of the pieces into paths (spec-level correspondence).
Assumption made explicit: open paths are *subject* paths (`OpenSubj`), as `AddOpenSubject` guarantees;
`SetWindCountForOpenPathEdge` would count an open clip edge as a clip boundary.
-/
import ClipperVerif.Lemmas.AelOpen
import ClipperVerif.Props.C01
namespace Clipper.Props.C05
open Clipper Clipper.Model

/-- **Bridge (Tie T).** The definition generated from the current C++ `IsContributingOpen` equals the hand model, for all
clip types (incl. NoClip, which takes the `default:` branch), fill rules and integers. -/
theorem isContributingOpen_bridge (ct : ClipType) (fr : FillRule) (wc wc2 : Int) :
    Gen.IsContributingOpen ct wc wc2 fr = isContributingOpen ct fr wc wc2 := by
  cases fr <;> cases ct <;>
    simp [Gen.IsContributingOpen, isContributingOpen, otherIn] <;> grind

/-- stored counts of an open edge: the closed-subject sum `ws` and the clip sum `wcl` to its left
(their parities under EvenOdd) -/
def OpenWcOK (fr : FillRule) (wc wc2 ws wcl : Int) : Prop :=
  match fr with
  | .evenOdd => wc = ws % 2 ∧ wc2 = wcl % 2
  | _ => wc = ws ∧ wc2 = wcl

/-- **open_contributing_iff_keep.** With counts that encode the winding sums, the C++ `IsContributingOpen` is exactly the
Spec's `keepOpen`: inside the clip region for Intersection, outside it for Difference and Xor, outside both the
closed-subject and the clip region for Union.  All fill rules, all integers. -/
theorem open_contributing_iff_keep (ct : ClipType) (hct : ct ≠ .noClip) (fr : FillRule) (wc wc2 ws wcl : Int)
    (h : OpenWcOK fr wc wc2 ws wcl) :
    Gen.IsContributingOpen ct wc wc2 fr = keepOpen ct fr ws wcl := by
  rw [isContributingOpen_bridge]
  apply ico_keep ct hct
  · apply otherIn_iff; cases fr <;> simp_all [OpenWcOK]
  · apply otherIn_iff; cases fr <;> simp_all [OpenWcOK]

example : OpenWcOK .nonZero 2 (-1) 2 (-1) := by simp [OpenWcOK]
example : OpenWcOK .evenOdd 1 0 (-3) 4 := by simp [OpenWcOK]

/-- **open_wind_insert.** `SetWindCountForOpenPathEdge` for a new open edge (fresh `Active`, counts 0) placed after `left`
stores the closed-subject winding sum in `wc` and the clip winding sum in `wc2` (parities under EvenOdd),
provided every open edge in `left` is a subject edge and closed edges have direction ±1 (part of C01's `Inv`). -/
theorem open_wind_insert (fr : FillRule) (left : List Edge) (e : Edge)
    (hs : OpenSubj left) (hd : ClosedDx left) (hw : e.wc = 0) (hw2 : e.wc2 = 0) :
    setWindOpen fr left e =
      { e with wc := enc2 fr (sumT .subject left), wc2 := enc2 fr (sumT .clip left) } ∧
    OpenWcOK fr (enc2 fr (sumT .subject left)) (enc2 fr (sumT .clip left))
      (sumT .subject left) (sumT .clip left) :=
  ⟨setWindOpen_spec fr left e hs hd hw hw2, by cases fr <;> simp [OpenWcOK, enc2]⟩

/-! ## closed edges are unaffected -/

/-- **closed_unaffected (pair).** When one of the two edges is open, `IntersectEdges` returns the other one unchanged
(all fields: `wc`, `wc2`, `hot`, …), and the open one stays open. -/
theorem closed_unaffected_pair (cfg : Cfg) (e1 e2 : Edge) (h : e1.isOpen = true ∨ e2.isOpen = true) :
    (e1.isOpen = false → (intersectPair cfg e1 e2).1 = e1) ∧
    (e2.isOpen = false → (intersectPair cfg e1 e2).2 = e2) := by
  cases ho1 : e1.isOpen <;> cases ho2 : e2.isOpen <;> simp_all [intersectPair]

/-- **closed_unaffected.** An `IntersectEdges`+swap involving an open edge leaves the sequence of closed edges — their
order and all their fields — exactly as it was: the open branch returns before the winding update. -/
theorem closed_unaffected (cfg : Cfg) (i : Nat) (l l' : Ael) (e1 e2 : Edge) (rest : List Edge)
    (hd : l.drop i = e1 :: e2 :: rest) (h : e1.isOpen = true ∨ e2.isOpen = true)
    (hs : intersect cfg i l = some l') : closedPart l' = closedPart l := by
  simp only [intersect, hd, Option.some.injEq] at hs
  subst hs
  conv => rhs; rw [drop_split l i _ hd]
  simp only [closedPart, List.filter_append, List.filter_cons]
  cases ho1 : e1.isOpen <;> cases ho2 : e2.isOpen
  · simp_all
  · simp [intersectPair, ho1, ho2, intersectOpen_isOpen]
  · simp [intersectPair, ho1, ho2, intersectOpen_isOpen]
  · simp [intersectPair, ho1, ho2]

/-- **closed_unaffected (one step).** Erase the open edges from the AEL (`closedPart`).  Every operation of a sweep
with open paths either leaves the erased AEL untouched (`projOp = none`: it only concerned open edges) or is, on the
erased AEL, the corresponding operation of the sweep without open paths (`projOp = some op'`, positions counted among
closed edges) with exactly the same resulting counts and hot flags. -/
theorem closed_unaffected_step (cfg : Cfg) (l l' : Ael) (op : Op) (hs : step cfg l op = some l') :
    match projOp l op with
    | none => closedPart l' = closedPart l
    | some op' => step cfg (closedPart l) op' = some (closedPart l') :=
  step_closedPart cfg l l' op hs

/-- **closed_unaffected (whole runs)** — the model half of "adding open subjects does not change the closed solution":
the closed edges of the final AEL of any run are the final AEL of the run obtained by deleting everything that concerns
open edges (`projOps`), so `wc`, `wc2` and `hot` of every closed edge are what they would be without open paths. -/
theorem closed_unaffected_run (cfg : Cfg) (ops : List Op) (l : Ael) (hr : run cfg [] ops = some l) :
    run cfg [] (projOps cfg [] ops) = some (closedPart l) :=
  run_closedPart cfg ops [] l hr

/-! ## hot ⇔ keep, along every run -/

/-- the combined invariant: C01's invariant for closed edges, "hot iff `keepOpen` at the current position" for
open edges, and open edges are subject edges -/
def OpenInv (cfg : Cfg) (l : Ael) : Prop :=
  Model.Inv cfg l ∧ InvOpenFrom (keepOpen cfg.ct cfg.fr) 0 0 l ∧ OpenSubj l

/-- an operation that adds an open edge adds an open *subject* edge -/
def OpOK : Op → Prop
  | .insertPair _ pt isOpen _ => isOpen = true → pt = .subject
  | .insertOne _ pt _ => pt = .subject
  | _ => True

theorem newLeft_open (cfg : Cfg) (hct : cfg.ct ≠ .noClip) (left : List Edge) (pt : PathType) (dx : Int)
    (hs : OpenSubj left) (hd : ClosedDx left) :
    (newLeft cfg left pt true dx).2 = keepOpen cfg.ct cfg.fr (sumT .subject left) (sumT .clip left) := by
  simp only [newLeft, ite_true]
  rw [setWindOpen_spec cfg.fr left _ hs hd rfl rfl]
  exact ico_keep cfg.ct hct cfg.fr _ _ _ _ (otherIn_enc2 _ _) (otherIn_enc2 _ _)

/-- **open_toggle_step.** Every operation preserves the combined invariant. -/
theorem open_toggle_step (cfg : Cfg) (hct : cfg.ct ≠ .noClip) (l l' : Ael) (op : Op) (hop : OpOK op)
    (h : OpenInv cfg l) (hs : step cfg l op = some l') : OpenInv cfg l' := by
  obtain ⟨hI, hO, hS⟩ := h
  refine ⟨C01.inv_step cfg hct l l' op hI hs, ?_⟩
  cases op with
  | insertPair pos pt isOpen dxLeft =>
    simp only [step, insertPair] at hs
    split at hs
    case isFalse => cases hs
    case isTrue hc =>
      simp only [Option.some.injEq] at hs; subst hs
      obtain ⟨g1, g2, g3⟩ := newLeft_fields cfg (l.take pos) pt isOpen dxLeft
      unfold Model.Inv at hI
      rw [← List.take_append_drop pos l, invOpenFrom_append] at hO
      rw [← List.take_append_drop pos l, openSubj_append] at hS
      rw [← List.take_append_drop pos l, invFrom_append] at hI
      have hcd := invFrom_closedDx _ _ _ _ hI.1
      rw [invOpenFrom_append, openSubj_append, openSubj_cons, openSubj_cons]
      simp only [Int.zero_add] at hO ⊢
      refine ⟨⟨hO.1, ?_⟩, hS.1, ?_, ?_, hS.2⟩
      · cases isOpen
        · refine (invOpenFrom_insert_closed _ _ _ _ _ _ ?_ ?_ ?_).mpr hO.2
          · exact g2
          · rfl
          · intro t; simp only [contrib, g1, g2, g3]; split <;> omega
        · have hk := newLeft_open cfg hct (l.take pos) pt dxLeft hS.1 hcd
          refine (invOpenFrom_cons_open _ _ _ _ _ ?_).mpr ⟨hk, ?_⟩
          · exact g2
          · exact (invOpenFrom_cons_open _ _ _ _ _ rfl).mpr ⟨hk, hO.2⟩
      · intro h
        have ho : isOpen = true := by rw [← g2]; exact h
        show (newLeft cfg (List.take pos l) pt isOpen dxLeft).1.pt = _
        rw [g1]; exact hop ho
      · exact hop
  | insertOne pos pt dx =>
    simp only [step, insertOne] at hs
    split at hs
    case isFalse => cases hs
    case isTrue hc =>
      simp only [Option.some.injEq] at hs; subst hs
      obtain ⟨g1, g2, g3⟩ := newLeft_fields cfg (l.take pos) pt true dx
      unfold Model.Inv at hI
      rw [← List.take_append_drop pos l, invOpenFrom_append] at hO
      rw [← List.take_append_drop pos l, openSubj_append] at hS
      rw [← List.take_append_drop pos l, invFrom_append] at hI
      have hcd := invFrom_closedDx _ _ _ _ hI.1
      rw [invOpenFrom_append, openSubj_append, openSubj_cons]
      simp only [Int.zero_add] at hO ⊢
      refine ⟨⟨hO.1, ?_⟩, hS.1, ?_, hS.2⟩
      · have hk := newLeft_open cfg hct (l.take pos) pt dx hS.1 hcd
        refine (invOpenFrom_cons_open _ _ _ _ _ ?_).mpr ⟨hk, hO.2⟩
        exact g2
      · intro _
        show (newLeft cfg (List.take pos l) pt true dx).1.pt = _
        rw [g1]; exact hop
  | intersect i =>
    simp only [step, intersect] at hs
    split at hs
    next e1 e2 rest hd =>
      simp only [Option.some.injEq] at hs; subst hs
      obtain ⟨f1, f2, f3, f4, f5, f6⟩ := intersectPair_fields cfg e1 e2
      unfold Model.Inv at hI
      rw [drop_split l i _ hd, invOpenFrom_append] at hO
      rw [drop_split l i _ hd, openSubj_append, openSubj_cons, openSubj_cons] at hS
      rw [drop_split l i _ hd, invFrom_append] at hI
      rw [invOpenFrom_append, openSubj_append, openSubj_cons, openSubj_cons]
      refine ⟨⟨hO.1, invOpenFrom_pair_swap cfg hct _ _ e1 e2 rest hI.2 hO.2⟩, hS.1, ?_, ?_, hS.2.2.2⟩
      · rw [f4, f5]; exact hS.2.2.1
      · rw [f1, f2]; exact hS.2.1
    next => cases hs
  | removePair i =>
    simp only [step, removePair] at hs
    split at hs
    next e1 e2 rest hd =>
      split at hs
      case isFalse => cases hs
      case isTrue hc =>
        simp only [Option.some.injEq] at hs; subst hs
        obtain ⟨hpt, hop', hdx⟩ := hc
        rw [drop_split l i _ hd, invOpenFrom_append] at hO
        rw [drop_split l i _ hd, openSubj_append, openSubj_cons, openSubj_cons] at hS
        rw [invOpenFrom_append, openSubj_append]
        refine ⟨⟨hO.1, ?_⟩, hS.1, hS.2.2.2⟩
        have h2 := hO.2
        simp only [InvOpenFrom] at h2
        have hz : ∀ (t : PathType) (x : Int), x + contrib t e1 + contrib t e2 = x := by
          intro t x; simp only [contrib, hpt, hop']; split <;> omega
        have h3 := h2.2.2
        rw [hz, hz] at h3
        exact h3
    next => cases hs
  | removeOne i =>
    simp only [step, removeOne] at hs
    split at hs
    next e rest hd =>
      split at hs
      case isFalse => cases hs
      case isTrue hc =>
        simp only [Option.some.injEq] at hs; subst hs
        rw [drop_split l i _ hd, invOpenFrom_append] at hO
        rw [drop_split l i _ hd, openSubj_append, openSubj_cons] at hS
        rw [invOpenFrom_append, openSubj_append]
        refine ⟨⟨hO.1, ?_⟩, hS.1, hS.2.2⟩
        have h2 := hO.2
        simp only [InvOpenFrom, contrib_open _ e hc, Int.add_zero] at h2
        exact h2.2
    next => cases hs

/-- **open_toggle_inv.** After every operation sequence from the empty AEL in which open edges are subject edges, every
open edge is hot exactly when `keepOpen ct fr Ws Wc` holds for the closed-subject / clip winding sums at its current
position (and C01's invariant holds for the closed edges). -/
theorem open_toggle_inv (cfg : Cfg) (hct : cfg.ct ≠ .noClip) (ops : List Op) (hops : ∀ op ∈ ops, OpOK op)
    (l : Ael) (hr : run cfg [] ops = some l) : OpenInv cfg l := by
  have key : ∀ (ops : List Op), (∀ op ∈ ops, OpOK op) → ∀ (l0 l1 : Ael), OpenInv cfg l0 →
      run cfg l0 ops = some l1 → OpenInv cfg l1 := by
    intro ops
    induction ops with
    | nil => intro _ l0 l1 h hr; simp only [run, Option.some.injEq] at hr; subst hr; exact h
    | cons op ops ih =>
      intro hops l0 l1 h hr
      simp only [run] at hr
      split at hr
      next l2 hs =>
        exact ih (fun o ho => hops o (List.mem_cons_of_mem _ ho)) l2 l1
          (open_toggle_step cfg hct l0 l2 op (hops op List.mem_cons_self) h hs) hr
      next => cases hr
  refine key ops hops [] l ⟨by simp [Model.Inv, InvFrom], by simp [InvOpenFrom], ?_⟩ hr
  intro x hx; cases hx

theorem checkInvOpenFrom_iff (keep : Int → Int → Bool) (l : List Edge) : ∀ (s c : Int),
    checkInvOpenFrom keep s c l = true ↔ InvOpenFrom keep s c l := by
  induction l with
  | nil => intro s c; simp [checkInvOpenFrom, InvOpenFrom]
  | cons e rest ih =>
    intro s c
    simp only [checkInvOpenFrom, InvOpenFrom, Bool.and_eq_true, Bool.or_eq_true, ih]
    cases e.isOpen <;> simp

theorem checkOpenInv_iff (cfg : Cfg) (l : Ael) : checkOpenInv cfg l = true ↔ OpenInv cfg l := by
  simp only [checkOpenInv, OpenInv, Bool.and_eq_true, C01.checkInv_iff, checkInvOpenFrom_iff, and_assoc]
  refine and_congr_right (fun _ => and_congr_right (fun _ => ?_))
  simp only [List.all_eq_true, OpenSubj, Bool.or_eq_true]
  constructor
  · intro h x hx ho; have := h x hx; simp_all
  · intro h x hx; cases ho : x.isOpen <;> simp_all

/-! ## non-vacuity: an open path crossing a clip square

Clip square (x ∈ [5,15], edges `C-` descending on the left, `C+` on the right), an open subject edge `O` that starts left
of it and crosses both clip edges. -/

def openOps : List Op :=
  [ .insertPair 0 .clip false (-1),   -- C- C+
    .insertOne 0 .subject 1,          -- O C- C+     open edge starts outside the clip region
    .intersect 0,                     -- C- O C+     … enters it
    .intersect 1 ]                    -- C- C+ O     … leaves it

example : OpOK (.insertOne 0 .subject 1) := rfl
-- hot flags, left to right (the clip edges are cold: there is no closed subject, the closed solution is empty)
example : (run ⟨.intersection, .nonZero⟩ [] (openOps.take 2)).map (fun l => l.map (·.hot)) =
    some [false, false, false] := by decide      -- O is outside the clip region: cold
example : (run ⟨.intersection, .nonZero⟩ [] (openOps.take 3)).map (fun l => l.map (·.hot)) =
    some [false, true, false] := by decide       -- O has entered the clip region: hot
example : (run ⟨.intersection, .nonZero⟩ [] openOps).map (fun l => l.map (·.hot)) =
    some [false, false, false] := by decide      -- O has left it again: cold
example : (run ⟨.difference, .nonZero⟩ [] (openOps.take 2)).map (fun l => l.map (·.hot)) =
    some [true, false, false] := by decide       -- Difference keeps the outside part
example : (run ⟨.difference, .nonZero⟩ [] (openOps.take 3)).map (fun l => l.map (·.hot)) =
    some [false, false, false] := by decide
example : (run ⟨.intersection, .evenOdd⟩ [] openOps).map (checkOpenInv ⟨.intersection, .evenOdd⟩) = some true := by
  decide
/-- erasing the open edge from `openOps` leaves the insertion of the clip square -/
example : projOps ⟨.intersection, .nonZero⟩ [] openOps = [.insertPair 0 .clip false (-1)] := by decide
/-- the checker is not vacuous -/
example : checkOpenInv ⟨.intersection, .nonZero⟩ [⟨.subject, true, 1, 0, 0, true⟩] = false := by decide

end Clipper.Props.C05
