/-
C16 — The floating-point API is the integer API on scaled coordinates.

Proved here, about `Model/Scale.lean`:
  * `clipperD_scale_pow2`      for each precision −8…8 the ClipperD scale `2^(ilogb(10^p)+1)` is the least power of
                               two strictly above `10^p` (sandwich `2^(k-1) ≤ 10^p < 2^k`; exact fractions; the
                               quantifier is the finite table, so `decide` is a proof); `scale_is_least` turns the
                               sandwich into minimality among all powers of two;
  * `clipperD_scale_robust`    the sandwich holds with a relative margin of 2^-50, so `ilogb` of the *rounded*
                               double `pow(10,p)` is `ilogb` of the exact `10^p`;
  * `ilogbFrac_spec`           the `ilogb` model is the floor of the binary logarithm for every positive fraction;
  * `round_nearest`, `round_nearest_among_integers`, `round_ties_away`, `round_of_int`
                               the `std::round` model returns a nearest integer, ties away from zero;
  * `d_api_is_64_api` and the per-wrapper theorems: each PathsD entry point is
                               `descale ∘ op64 ∘ scale` with `delta` and `arc_tolerance` multiplied by the same scale
                               (`miter_limit`, a ratio, is passed unchanged), for every value of the abstract
                               arithmetic and 64-bit operations; PolyTreeD has the shape of the PolyTree64.
  * two deviations of the code from the property text, as theorems on the faithful model plus concrete witnesses:
      `inflatePathsD_delta0`        `delta == 0` returns the *unrounded* input,
      `clipperD_open_filtered`      ClipperD's open solution is the descaled 64-bit one *minus* the paths `BuildPathD`
                                    rejects (3 points, two of them closer than 2 units), which `BuildPath64` keeps.
Trusted: that `Model/Scale.lean` Part 2 mirrors the C++ wrappers (hand model; the harness checks the real
wrappers against the real 64-bit operations on inputs scaled by this rule), IEEE/libm facts listed in propconf.
-/
import ClipperVerif.Model.Scale
namespace Clipper.Props.C16
open Clipper Clipper.Model.Scale

/-! ## the scale -/

theorem mem_precisions (p : Int) : p ∈ precisions ↔ -8 ≤ p ∧ p ≤ 8 := by
  simp only [precisions, List.mem_cons, List.not_mem_nil, or_false]
  omega

/-- For each precision in −8…8: `2^(k-1) ≤ 10^p < 2^k` where `2^k` is the ClipperD scale
`2^(ilogb(10^p)+1)`: the scale is the least power of two strictly above `10^p`. -/
theorem clipperD_scale_pow2 : ∀ p ∈ precisions,
    fracLt (pow10Frac p) (clipperDScale p) ∧ fracLe (pow2Frac (clipperDExp p - 1)) (pow10Frac p) := by
  decide

/-- the table itself: exponents of the ClipperD scale for precisions −8…8 -/
theorem clipperD_exp_table :
    precisions.map clipperDExp = [-26, -23, -19, -16, -13, -9, -6, -3, 1, 4, 7, 10, 14, 17, 20, 24, 27] := by
  decide

theorem pow2Frac_pos (k : Int) : 0 < (pow2Frac k).1 ∧ 0 < (pow2Frac k).2 := by
  unfold pow2Frac; split <;> exact ⟨by simp [Nat.pow_pos], by simp [Nat.pow_pos]⟩

theorem pow2Frac_mono {a b : Int} (h : a ≤ b) : fracLe (pow2Frac a) (pow2Frac b) := by
  unfold fracLe pow2Frac
  by_cases ha : 0 ≤ a <;> by_cases hb : 0 ≤ b <;> simp only [ha, hb, if_true, if_false, Nat.mul_one, Nat.one_mul]
  · exact Nat.pow_le_pow_right (by decide) (by omega)
  · omega
  · have h1 : 1 ≤ 2 ^ b.toNat := Nat.one_le_two_pow
    have h2 : 1 ≤ 2 ^ (-a).toNat := Nat.one_le_two_pow
    have h3 := Nat.mul_le_mul h1 h2
    simpa using h3
  · exact Nat.pow_le_pow_right (by decide) (by omega)

/-- Minimality: a power of two `2^j` strictly above `x`, where `2^(k-1) ≤ x`, has `j ≥ k`. -/
theorem scale_is_least (x : Nat × Nat) (hx : 0 < x.2) (k j : Int)
    (hlow : fracLe (pow2Frac (k - 1)) x) (habove : fracLt x (pow2Frac j)) : k ≤ j := by
  by_cases h : k ≤ j
  · exact h
  · exfalso
    have hm : fracLe (pow2Frac j) (pow2Frac (k - 1)) := pow2Frac_mono (by omega)
    unfold fracLe at hlow hm
    unfold fracLt at habove
    -- j ≤ k-1:  2^j ≤ 2^(k-1) ≤ x < 2^j
    have p1 := (pow2Frac_pos j)
    have p2 := (pow2Frac_pos (k - 1))
    generalize pow2Frac j = J at *
    generalize pow2Frac (k - 1) = K at *
    obtain ⟨jn, jd⟩ := J
    obtain ⟨kn, kd⟩ := K
    obtain ⟨xn, xd⟩ := x
    simp only at *
    -- jn*kd ≤ kn*jd ; kn*xd ≤ xn*kd ; xn*jd < jn*xd.  Multiply out.
    have a1 : jn * kd * xd ≤ kn * jd * xd := Nat.mul_le_mul_right _ hm
    have a2 : kn * xd * jd ≤ xn * kd * jd := Nat.mul_le_mul_right _ hlow
    have a3 : xn * jd * kd < jn * xd * kd := Nat.mul_lt_mul_of_pos_right habove p2.2
    have e1 : kn * jd * xd = kn * xd * jd := by rw [Nat.mul_assoc, Nat.mul_comm jd xd, ← Nat.mul_assoc]
    have e2 : xn * kd * jd = xn * jd * kd := by rw [Nat.mul_assoc, Nat.mul_comm kd jd, ← Nat.mul_assoc]
    have e3 : jn * xd * kd = jn * kd * xd := by rw [Nat.mul_assoc, Nat.mul_comm xd kd, ← Nat.mul_assoc]
    omega

/-- The ClipperD scale is the least power of two strictly above `10^p`, among *all* powers of two. -/
theorem clipperD_scale_least (p : Int) (hp : p ∈ precisions) (j : Int)
    (habove : fracLt (pow10Frac p) (pow2Frac j)) : clipperDExp p ≤ j := by
  have hden : 0 < (pow10Frac p).2 := by
    unfold pow10Frac; split <;> simp [Nat.pow_pos]
  exact scale_is_least _ hden _ _ (clipperD_scale_pow2 p hp).2 habove

/-- The sandwich holds with relative margin 2^-50 on both sides (except at `10^0 = 2^0`, which is an exact
double): `std::ilogb` applied to the rounded double `std::pow(10,p)` (relative error ≤ 2^-52) returns the
`ilogb` of the exact power. -/
theorem clipperD_scale_robust : ∀ p ∈ precisions, p ≠ 0 →
    let x := pow10Frac p
    let lo := pow2Frac (clipperDExp p - 1)
    let hi := clipperDScale p
    fracLe (lo.1 * (2 ^ 50 + 1), lo.2 * 2 ^ 50) x ∧ fracLe x (hi.1 * (2 ^ 50 - 1), hi.2 * 2 ^ 50) := by
  decide

example : clipperDScale 2 = (128, 1) ∧ clipperDScale (-3) = (1, 512) ∧ clipperDScale 0 = (2, 1) := by decide

/-! ## `ilogb` -/

theorem clog2_spec (c : Nat) (hc : 2 ≤ c) : c ≤ 2 ^ clog2 c ∧ 2 ^ (clog2 c - 1) ≤ c - 1 := by
  unfold clog2
  have h1 : ¬ c ≤ 1 := by omega
  simp only [h1, if_false, Nat.add_sub_cancel]
  have hne : c - 1 ≠ 0 := by omega
  exact ⟨by have := @Nat.lt_log2_self (c - 1); omega, Nat.log2_self_le hne⟩

/-- `ilogbFrac n d` is the floor of the binary logarithm of `n/d`: `2^k ≤ n/d < 2^(k+1)`. -/
theorem ilogbFrac_spec (n d : Nat) (hn : 0 < n) (hd : 0 < d) :
    fracLe (pow2Frac (ilogbFrac n d)) (n, d) ∧ fracLt (n, d) (pow2Frac (ilogbFrac n d + 1)) := by
  unfold ilogbFrac
  by_cases h : d ≤ n
  · simp only [h, if_true]
    have hq : n / d ≠ 0 := by
      have : 1 ≤ n / d := (Nat.le_div_iff_mul_le hd).2 (by omega)
      omega
    have h1 : 2 ^ (n / d).log2 ≤ n / d := Nat.log2_self_le hq
    have h2 : n / d < 2 ^ ((n / d).log2 + 1) := Nat.lt_log2_self
    have h3 : n / d * d ≤ n := Nat.div_mul_le_self n d
    have h4 : n < n / d * d + d := Nat.lt_div_mul_add hd
    generalize (n / d).log2 = k at *
    have e1 : pow2Frac (k : Int) = (2 ^ k, 1) := by simp [pow2Frac]
    have e2 : pow2Frac ((k : Int) + 1) = (2 ^ (k + 1), 1) := by
      have : (0 : Int) ≤ (k : Int) + 1 := by omega
      simp only [pow2Frac, this, if_true]
      congr 2
    rw [e1, e2]
    unfold fracLe fracLt
    simp only [Nat.mul_one]
    constructor
    · exact Nat.le_trans (Nat.mul_le_mul_right d h1) h3
    · have : (n / d + 1) * d ≤ 2 ^ (k + 1) * d := Nat.mul_le_mul_right d (by omega)
      rw [Nat.add_mul, Nat.one_mul] at this
      omega
  · simp only [h, if_false]
    -- c = ceil(d/n) ≥ 2
    have hc2 : 2 ≤ (d + n - 1) / n := (Nat.le_div_iff_mul_le hn).2 (by omega)
    have hup : d ≤ (d + n - 1) / n * n := by
      have := Nat.lt_div_mul_add (a := d + n - 1) hn
      omega
    have hlo : ((d + n - 1) / n - 1) * n < d := by
      have := Nat.div_mul_le_self (d + n - 1) n
      rw [Nat.sub_mul, Nat.one_mul]
      omega
    obtain ⟨s1, s2⟩ := clog2_spec _ hc2
    have hj : 1 ≤ clog2 ((d + n - 1) / n) := by
      unfold clog2; split <;> omega
    generalize (d + n - 1) / n = c at *
    generalize clog2 c = j at *
    have e1 : pow2Frac (-(j : Int)) = (1, 2 ^ j) := by
      have : ¬ (0 : Int) ≤ -(j : Int) := by omega
      simp only [pow2Frac, this, if_false, Int.neg_neg, Int.toNat_natCast]
    rw [e1]
    constructor
    · unfold fracLe
      simp only [Nat.one_mul]
      exact Nat.le_trans hup (by rw [Nat.mul_comm]; exact Nat.mul_le_mul_left n s1)
    · by_cases hj1 : j = 1
      · subst hj1
        have : pow2Frac (-((1 : Nat) : Int) + 1) = (1, 1) := by decide
        rw [this]; unfold fracLt; simp only [Nat.mul_one, Nat.one_mul]; omega
      · have hneg : ¬ (0 : Int) ≤ -(j : Int) + 1 := by omega
        have e2 : pow2Frac (-(j : Int) + 1) = (1, 2 ^ (j - 1)) := by
          simp only [pow2Frac, hneg, if_false]
          congr 2
          omega
        rw [e2]; unfold fracLt; simp only [Nat.one_mul]
        calc n * 2 ^ (j - 1) ≤ n * (c - 1) := Nat.mul_le_mul_left n s2
          _ = (c - 1) * n := Nat.mul_comm _ _
          _ < d := hlo

example : ilogbFrac 100 1 = 6 ∧ ilogbFrac 1 1000 = -10 ∧ ilogbFrac 1 1 = 0 ∧ ilogbFrac 3 2 = 0 ∧ ilogbFrac 1 4 = -2 := by
  decide

/-! ## `std::round` -/

private theorem natAbs_cases (n : Int) : (0 ≤ n ∧ (n.natAbs : Int) = n) ∨ (n < 0 ∧ (n.natAbs : Int) = -n) := by omega

/-- the model of `std::round` written with the quotient and remainder as parameters -/
private theorem round_core (n : Int) (d : Nat) (hd : 0 < d) :
    ∃ q r : Nat, n.natAbs = q * d + r ∧ r < d ∧
      roundHalfAway n d = (if n < 0 then -1 else 1) * ((if d ≤ 2 * r then q + 1 else q : Nat) : Int) := by
  refine ⟨n.natAbs / d, n.natAbs % d, ?_, Nat.mod_lt _ hd, ?_⟩
  · have := Nat.div_add_mod n.natAbs d
    rw [Nat.mul_comm] at this; omega
  · unfold roundHalfAway
    simp only
    split <;> simp

/-- `roundHalfAway n d` is within one half of `n/d`: `|round·d − n| ≤ d/2`. -/
theorem round_nearest (n : Int) (d : Nat) (hd : 0 < d) :
    2 * (roundHalfAway n d * d - n) ≤ d ∧ -(d : Int) ≤ 2 * (roundHalfAway n d * d - n) := by
  obtain ⟨q, r, hq, hr, he⟩ := round_core n d hd
  rw [he]
  have hqd : ((q * d : Nat) : Int) = (q : Int) * d := by simp
  rcases natAbs_cases n with ⟨h0, ha⟩ | ⟨h0, ha⟩
  · have hn : n = (q : Int) * d + r := by rw [← ha, hq]; simp
    have : ¬ n < 0 := by omega
    simp only [this, if_false, Int.one_mul]
    generalize hX : (q : Int) * d = X at *
    split
    · have : ((q + 1 : Nat) : Int) * d = X + d := by rw [← hX]; simp [Int.add_mul]
      rw [this]; omega
    · rw [hX]; omega
  · have hn : -n = (q : Int) * d + r := by rw [← ha, hq]; simp
    simp only [h0, if_true]
    generalize hX : (q : Int) * d = X at *
    split
    · have : (-1 : Int) * ((q + 1 : Nat) : Int) * d = -(X + d) := by rw [← hX]; simp [Int.add_mul, Int.neg_mul]
      rw [this]; omega
    · have : (-1 : Int) * ((q : Nat) : Int) * d = -X := by rw [← hX]; simp [Int.neg_mul]
      rw [this]; omega

/-- ties go away from zero: if `n/d` is exactly half-way then `|round| · d > |n|`. -/
theorem round_ties_away (n : Int) (d : Nat) (hd : 0 < d)
    (htie : 2 * (roundHalfAway n d * d - n) = d ∨ 2 * (roundHalfAway n d * d - n) = -(d : Int)) :
    (n.natAbs : Int) < (roundHalfAway n d).natAbs * d := by
  obtain ⟨q, r, hq, hr, he⟩ := round_core n d hd
  rw [he] at htie ⊢
  rcases natAbs_cases n with ⟨h0, ha⟩ | ⟨h0, ha⟩
  · have hn : n = (q : Int) * d + r := by rw [← ha, hq]; simp
    have hneg : ¬ n < 0 := by omega
    simp only [hneg, if_false, Int.one_mul] at htie ⊢
    rw [ha]
    generalize hX : (q : Int) * d = X at *
    split at htie
    · rename_i h2
      simp only [h2, if_true]
      have e : ((q + 1 : Nat) : Int) * d = X + d := by rw [← hX]; simp [Int.add_mul]
      have hna : ((((q + 1 : Nat) : Int)).natAbs : Int) = ((q + 1 : Nat) : Int) := by omega
      rw [hna, e]; omega
    · rename_i h2
      rw [hX] at htie; omega
  · have hn : -n = (q : Int) * d + r := by rw [← ha, hq]; simp
    simp only [h0, if_true] at htie ⊢
    rw [ha]
    generalize hX : (q : Int) * d = X at *
    split at htie
    · rename_i h2
      simp only [h2, if_true]
      have hna : (((-1 : Int) * ((q + 1 : Nat) : Int)).natAbs : Int) = ((q + 1 : Nat) : Int) := by omega
      have e : ((q + 1 : Nat) : Int) * d = X + d := by rw [← hX]; simp [Int.add_mul]
      rw [hna, e]; omega
    · rename_i h2
      have : (-1 : Int) * ((q : Nat) : Int) * d = -X := by rw [← hX]; simp [Int.neg_mul]
      rw [this] at htie; omega

/-- no integer is nearer to `n/d` than `roundHalfAway n d`. -/
theorem round_nearest_among_integers (n : Int) (d : Nat) (hd : 0 < d) (z : Int) :
    (roundHalfAway n d * d - n).natAbs ≤ (z * d - n).natAbs := by
  obtain ⟨h1, h2⟩ := round_nearest n d hd
  generalize roundHalfAway n d = r at *
  -- z = r + j
  obtain ⟨j, rfl⟩ : ∃ j, z = r + j := ⟨z - r, by omega⟩
  rw [Int.add_mul]
  by_cases hj : j = 0
  · subst hj; simp
  · have hjd : (d : Int) ≤ j * d ∨ j * d ≤ -(d : Int) := by
      by_cases hp : 0 < j
      · left
        have : 0 ≤ (j - 1) * (d : Int) := Int.mul_nonneg (by omega) (by omega)
        rw [Int.sub_mul, Int.one_mul] at this; omega
      · right
        have : 0 ≤ (-j - 1) * (d : Int) := Int.mul_nonneg (by omega) (by omega)
        rw [Int.sub_mul, Int.neg_mul, Int.one_mul] at this; omega
    generalize j * (d : Int) = Y at *
    generalize r * (d : Int) = X at *
    omega

/-- integers are fixed points. -/
theorem round_of_int (n : Int) : roundHalfAway n 1 = n := by
  unfold roundHalfAway
  simp only [Nat.div_one, Nat.mod_one, Nat.mul_zero]
  have : ¬ 1 ≤ 0 := by omega
  simp only [this, if_false]
  split <;> omega

/-- the model on doubles given by bit pattern: 0.5 → 1, −0.5 → −1, 2.5 → 3, −2.5 → −3,
0.49999999999999994 → 0, 1.5 → 2, 2^52+1 → itself, +∞ → none -/
example :
    roundDouble 0x3FE0000000000000 = some 1 ∧ roundDouble 0xBFE0000000000000 = some (-1) ∧
    roundDouble 0x4004000000000000 = some 3 ∧ roundDouble 0xC004000000000000 = some (-3) ∧
    roundDouble 0x3FDFFFFFFFFFFFFF = some 0 ∧ roundDouble 0x3FF8000000000000 = some 2 ∧
    roundDouble 0x4330000000000001 = some (2 ^ 52 + 1) ∧
    roundDouble 0x7FF0000000000000 = none := by decide

/-! ## the wrappers -/

variable {R : Type} (N : Num R) (O : Ops64 R)

/-- `BooleanOp(PathsD)` / `ClipperD` closed solution: scale `2^(ilogb(10^p)+1)`, range-checked `ScalePaths`,
descale by `invScale_ = 1/scale`. -/
theorem booleanOpD_is_64 (ct : ClipType) (fr : FillRule) (subj clp : PathsD R) (prec : Int)
    (hp : precisionOk prec = true)
    (hs : O.inRange subj (N.pow2scale prec) = true) (hc : O.inRange clp (N.pow2scale prec) = true) :
    booleanOpD N O ct fr subj clp prec
      = descalePaths N (N.inv (N.pow2scale prec))
          (O.clip ct fr (scalePaths N (N.pow2scale prec) subj) [] (scalePaths N (N.pow2scale prec) clp)).1 := by
  simp [booleanOpD, hp, clipperDExec, addD, scalePathsChecked, hs, hc]

/-- `ClipperD` with open subjects: the closed solution is the descaled 64-bit closed solution; the open solution
is the descaled 64-bit open solution **after removing the paths `BuildPathD` rejects**. -/
theorem clipperD_open_filtered (ct : ClipType) (fr : FillRule) (subj opn clp : PathsD R) (prec : Int)
    (hs : O.inRange subj (N.pow2scale prec) = true) (ho : O.inRange opn (N.pow2scale prec) = true)
    (hc : O.inRange clp (N.pow2scale prec) = true) :
    let s := N.pow2scale prec
    let r64 := O.clip ct fr (scalePaths N s subj) (scalePaths N s opn) (scalePaths N s clp)
    clipperD N O prec ct fr subj opn clp
      = (descalePaths N (N.inv s) r64.1, descalePaths N (N.inv s) (r64.2.filter O.keepOpenD)) := by
  simp [clipperD, clipperDExec, addD, scalePathsChecked, hs, ho, hc]

/-- If `BuildPathD` kept every open path (as `BuildPath64` does) ClipperD would be `descale ∘ Clipper64 ∘ scale`. -/
theorem clipperD_is_64_if_open_kept (ct : ClipType) (fr : FillRule) (subj opn clp : PathsD R) (prec : Int)
    (hs : O.inRange subj (N.pow2scale prec) = true) (ho : O.inRange opn (N.pow2scale prec) = true)
    (hc : O.inRange clp (N.pow2scale prec) = true) (hk : ∀ p, O.keepOpenD p = true) :
    let s := N.pow2scale prec
    let r64 := O.clip ct fr (scalePaths N s subj) (scalePaths N s opn) (scalePaths N s clp)
    clipperD N O prec ct fr subj opn clp = (descalePaths N (N.inv s) r64.1, descalePaths N (N.inv s) r64.2) := by
  have : ∀ l : Paths, l.filter O.keepOpenD = l := by
    intro l; exact List.filter_eq_self.2 (fun p _ => hk p)
  simp [clipperD, clipperDExec, addD, scalePathsChecked, hs, ho, hc, this]

theorem Tree.shape_map {α β : Type} (f : α → β) (t : Tree α) : (t.map f).shape = t.shape := by
  unfold Tree.shape
  refine Tree.rec (motive_1 := fun t => (t.map f).map (fun _ => ()) = t.map (fun _ => ()))
    (motive_2 := fun cs => Tree.map.mapList (fun _ => ()) (Tree.map.mapList f cs) = Tree.map.mapList (fun _ => ()) cs)
    ?_ ?_ ?_ t
  · intro a cs ih; simp [Tree.map, ih]
  · simp [Tree.map.mapList]
  · intro c cs ih1 ih2; simp [Tree.map.mapList, ih1, ih2]

/-- number of children of the root, and recursively: the shape determines every child count -/
def Tree.childCount : Tree α → Nat
  | .node _ cs => cs.length

/-- PolyTreeD has the shape of the PolyTree64 of the scaled input, node for node, and every polygon is the
descaled polygon of the corresponding node. -/
theorem polyTreeD_same_shape (ct : ClipType) (fr : FillRule) (subj clp : PathsD R) (prec : Int)
    (hp : precisionOk prec = true)
    (hs : O.inRange subj (N.pow2scale prec) = true) (hc : O.inRange clp (N.pow2scale prec) = true) :
    let s := N.pow2scale prec
    let t64 := (O.clipTree ct fr (scalePaths N s subj) [] (scalePaths N s clp)).1
    booleanOpTreeD N O ct fr subj clp prec = some (t64.map (descalePath N (N.inv s))) ∧
    (t64.map (descalePath N (N.inv s))).shape = t64.shape := by
  refine ⟨?_, Tree.shape_map _ _⟩
  simp [booleanOpTreeD, hp, clipperDExecTree, addD, scalePathsChecked, hs, hc]

/-- `InflatePaths(PathsD)`: scale `10^precision`; **`delta` and `arc_tolerance` are multiplied by the scale,
`miter_limit` is not**; descale by `1/scale`.  Holds when `delta ≠ 0`. -/
theorem inflatePathsD_is_64 (paths : PathsD R) (delta : R) (jt : JoinType) (et : EndType) (ml : R) (prec : Int) (arc : R)
    (hp : precisionOk prec = true) (hd : N.isZero delta = false) (hr : O.inRange paths (N.pow10 prec) = true) :
    let s := N.pow10 prec
    inflatePathsD N O paths delta jt et ml prec arc
      = descalePaths N (N.inv s) (O.inflate (scalePaths N s paths) (N.mul delta s) jt et ml (N.mul arc s)) := by
  simp [inflatePathsD, hp, hd, scalePathsChecked, hr]

/-- Deviation: with `delta == 0` the D wrapper returns its argument untouched (not scaled, rounded and descaled). -/
theorem inflatePathsD_delta0 (paths : PathsD R) (delta : R) (jt : JoinType) (et : EndType) (ml : R) (prec : Int) (arc : R)
    (hd : N.isZero delta = true) : inflatePathsD N O paths delta jt et ml prec arc = paths := by
  simp [inflatePathsD, hd]

/-- `RectClip(RectD, PathsD)`: scale `10^precision` for the rectangle (`ScaleRect`, rounded) and the paths. -/
theorem rectClipD_is_64 (rect : RectOf R) (paths : PathsD R) (prec : Int)
    (hne : paths ≠ []) (hp : precisionOk prec = true) (hr : O.inRange paths (N.pow10 prec) = true) :
    let s := N.pow10 prec
    rectClipD N O false rect paths prec
      = descalePaths N (N.inv s) (O.rectClip (scaleRect N s rect) (scalePaths N s paths)) := by
  have : paths.isEmpty = false := by cases paths <;> simp_all
  simp [rectClipD, hp, scalePathsChecked, hr, this]

theorem rectClipLinesD_is_64 (rect : RectOf R) (lines : PathsD R) (prec : Int)
    (hne : lines ≠ []) (hp : precisionOk prec = true) (hr : O.inRange lines (N.pow10 prec) = true) :
    let s := N.pow10 prec
    rectClipLinesD N O false rect lines prec
      = descalePaths N (N.inv s) (O.rectClipLines (scaleRect N s rect) (scalePaths N s lines)) := by
  have : lines.isEmpty = false := by cases lines <;> simp_all
  simp [rectClipLinesD, hp, scalePathsChecked, hr, this]

/-- `MinkowskiSum/Diff(PathD)`: scale `10^decimalPlaces`, no precision check and no range check. -/
theorem minkowskiD_is_64 (isSum : Bool) (pattern path : PathD R) (isClosed : Bool) (prec : Int) :
    let s := N.pow10 prec
    minkowskiD N O isSum pattern path isClosed prec
      = descalePaths N (N.inv s) (O.minkowski (scalePath N s pattern) (scalePath N s path) isSum isClosed) := rfl

/-- `TrimCollinear(PathD)`: scale `10^precision`, precision check, no range check. -/
theorem trimCollinearD_is_64 (path : PathD R) (prec : Int) (isOpen : Bool) (hp : precisionOk prec = true) :
    let s := N.pow10 prec
    trimCollinearD N O path prec isOpen = descalePath N (N.inv s) (O.trimCollinear (scalePath N s path) isOpen) := by
  simp [trimCollinearD, hp]

/-- Scaling is pointwise `round(x·s)`, descaling pointwise `x·inv`: the two maps every wrapper composes with. -/
theorem scale_descale_pointwise (s inv : R) (p : PathD R) (q : Path) :
    scalePath N s p = p.map (fun v => (⟨N.round (N.mul v.1 s), N.round (N.mul v.2 s)⟩ : Pt)) ∧
    descalePath N inv q = q.map (fun v => (N.mul (N.ofInt v.x) inv, N.mul (N.ofInt v.y) inv)) := ⟨rfl, rfl⟩

/-- Summary (the property's algebraic clause): for valid precision and in-range input every PathsD entry point is
`descale ∘ op64 ∘ scale`; ClipperD/BooleanOp/PolyTreeD use the power-of-two scale, the others `10^precision`;
`delta` and `arc_tolerance` are scaled, `miter_limit` is not.  Exceptions (both are the code's behaviour, see
the two deviation theorems): `InflatePaths` with `delta = 0`, open solution paths of ClipperD. -/
theorem d_api_is_64_api (prec : Int) (hp : precisionOk prec = true) :
    (∀ ct fr subj clp, O.inRange subj (N.pow2scale prec) = true → O.inRange clp (N.pow2scale prec) = true →
      booleanOpD N O ct fr subj clp prec
        = descalePaths N (N.inv (N.pow2scale prec))
            (O.clip ct fr (scalePaths N (N.pow2scale prec) subj) [] (scalePaths N (N.pow2scale prec) clp)).1) ∧
    (∀ paths delta jt et ml arc, N.isZero delta = false → O.inRange paths (N.pow10 prec) = true →
      inflatePathsD N O paths delta jt et ml prec arc
        = descalePaths N (N.inv (N.pow10 prec))
            (O.inflate (scalePaths N (N.pow10 prec) paths) (N.mul delta (N.pow10 prec)) jt et ml (N.mul arc (N.pow10 prec)))) ∧
    (∀ rect paths, paths ≠ [] → O.inRange paths (N.pow10 prec) = true →
      rectClipD N O false rect paths prec
        = descalePaths N (N.inv (N.pow10 prec)) (O.rectClip (scaleRect N (N.pow10 prec) rect) (scalePaths N (N.pow10 prec) paths))) ∧
    (∀ rect lines, lines ≠ [] → O.inRange lines (N.pow10 prec) = true →
      rectClipLinesD N O false rect lines prec
        = descalePaths N (N.inv (N.pow10 prec)) (O.rectClipLines (scaleRect N (N.pow10 prec) rect) (scalePaths N (N.pow10 prec) lines))) ∧
    (∀ isSum pattern path isClosed,
      minkowskiD N O isSum pattern path isClosed prec
        = descalePaths N (N.inv (N.pow10 prec)) (O.minkowski (scalePath N (N.pow10 prec) pattern) (scalePath N (N.pow10 prec) path) isSum isClosed)) ∧
    (∀ path isOpen,
      trimCollinearD N O path prec isOpen
        = descalePath N (N.inv (N.pow10 prec)) (O.trimCollinear (scalePath N (N.pow10 prec) path) isOpen)) :=
  ⟨fun ct fr subj clp hs hc => booleanOpD_is_64 N O ct fr subj clp prec hp hs hc,
   fun paths delta jt et ml arc hd hr => inflatePathsD_is_64 N O paths delta jt et ml prec arc hp hd hr,
   fun rect paths hne hr => rectClipD_is_64 N O rect paths prec hne hp hr,
   fun rect lines hne hr => rectClipLinesD_is_64 N O rect lines prec hne hp hr,
   fun isSum pattern path isClosed => minkowskiD_is_64 N O isSum pattern path isClosed prec,
   fun path isOpen => trimCollinearD_is_64 N O path prec isOpen hp⟩

/-! ## concrete witnesses for the two deviations

A small exact number system: a value `v : Int` stands for `v / 1000` (three decimals), enough to replay the
harness's `kf.` inputs inside the model. -/

/-- thousandths -/
def milli : Num Int where
  mul a b := a * b / 1000
  inv a := 1000000 / a
  ofInt z := 1000 * z
  round v := roundHalfAway v 1000
  pow10 p := if 0 ≤ p then 1000 * 10 ^ p.toNat else 1000 / 10 ^ (-p).toNat
  pow2scale p := 1000 * 2 ^ (clipperDExp p).toNat
  isZero v := v == 0

/-- 64-bit operations that matter for the witnesses: `InflatePaths(Paths64)` starts with
`if (!delta) return paths;`, Clipper64 returns an open subject that nothing clips unchanged; `BuildPathD`'s test. -/
def ops0 : Ops64 Int where
  clip _ _ _ opn _ := ([], opn)
  clipTree _ _ _ opn _ := (.node [] [], opn)
  inflate ps delta _ _ _ _ := if delta = 0 then ps else []
  rectClip _ ps := ps
  rectClipLines _ ps := ps
  minkowski _ _ _ _ := []
  trimCollinear p _ := p
  inRange _ _ := true
  keepOpenD p := match p with
    | [a, b, c] => !((decide ((a.x - b.x).natAbs < 2) && decide ((a.y - b.y).natAbs < 2)) ||
                     (decide ((b.x - c.x).natAbs < 2) && decide ((b.y - c.y).natAbs < 2)) ||
                     (decide ((a.x - c.x).natAbs < 2) && decide ((a.y - c.y).natAbs < 2)))
    | _ => true

/-- The property's equation fails for `InflatePaths(PathsD, delta = 0)` on `{(0.123, 0.456), (10.789, 0.2), (5.5, 9.99)}`
at precision 2: the wrapper returns the input, the 64-bit route returns `{(0.12,0.46),(10.79,0.2),(5.5,9.99)}`. -/
theorem inflatePathsD_delta0_not_64 :
    let paths : PathsD Int := [[(123, 456), (10789, 200), (5500, 9990)]]
    let s := milli.pow10 2
    inflatePathsD milli ops0 paths 0 .miter .polygon 2000 2 0 = paths ∧
    descalePaths milli (milli.inv s) (ops0.inflate (scalePaths milli s paths) (milli.mul 0 s) .miter .polygon 2000 (milli.mul 0 s))
      = [[(120, 460), (10790, 200), (5500, 9990)]] := by
  decide

/-- The property's equation fails for ClipperD's open solution on the open subject `{(0,0),(0.008,0),(10,10)}` at
precision 2 (scale 128): Clipper64 on the scaled input returns the path, ClipperD returns nothing. -/
theorem clipperD_open_not_64 :
    let opn : PathsD Int := [[(0, 0), (8, 0), (10000, 10000)]]
    let s := milli.pow2scale 2
    scalePaths milli s opn = [[⟨0, 0⟩, ⟨1, 0⟩, ⟨1280, 1280⟩]] ∧
    (ops0.clip .union .nonZero [] (scalePaths milli s opn) []).2 = [[⟨0, 0⟩, ⟨1, 0⟩, ⟨1280, 1280⟩]] ∧
    (clipperD milli ops0 2 .union .nonZero [] opn []).2 = [] := by
  decide

end Clipper.Props.C16
