import ClipperVerif.Props.C04
open Clipper.Props.C04
#print axioms addChild_toPaths
#print axioms addChild_polyTreeToPaths
#print axioms addChild_area2
#print axioms addChild_at
#print axioms tree_area
#print axioms root_area
#print axioms area_perm
#print axioms tree_parent_sound
#print axioms owner_chain_length
#print axioms buildTree_acyclic
#print axioms tree_paths_complete_partial
#print axioms tree_paths_sound_partial
#print axioms tree_paths_perm_placed
#print axioms isValidOwner_sound
#print axioms isValidOwner_terminates
#print axioms getRealOutRec_terminates
#print axioms set_valid_owner_acyclic
#print axioms skip_owner_acyclic
#print axioms checkSplitOwner_sound
#print axioms ownerLoop_sound
#print axioms divergence_942
#print axioms setOwner_spec
