import ClipperVerif.Props.C09Cover
open Clipper.Props.C09Cover
#print axioms exactArith_exact
#print axioms hybridArith_exact
#print axioms getIntersection_complete
#print axioms exit_crossing_found
#print axioms meets_is_common_point
#print axioms crossing_points_on_boundary
#print axioms lines_cover
#print axioms cover_checker_sound
#print axioms through_segment_geometry
#print axioms noLostCrossing_exact
#print axioms lines_in_rect_exact
#print axioms cover_vertex_calls
#print axioms class_sandwich
#print axioms lines_piece_count
#print axioms pieces_are_groups
#print axioms new_piece_only_after_leaving
#print axioms pieces_not_maximal_witness
#print axioms pieces_not_maximal_witness2
#print axioms class_general_position
