import ClipperVerif.Props.C11Sides
open Clipper.Props.C11Sides
#print axioms checkSInv_iff
#print axioms stepS_spec
#print axioms sinv_step
#print axioms step_never_faults
#print axioms sinv_reachable
#print axioms recs_reachable
#print axioms checkRecs_decides
#print axioms execute_never_fails
#print axioms erase_step
#print axioms adjacent_hot_sides_differ
#print axioms front_iff_unfilled_left
