import ClipperVerif.Props.C15
open Clipper.Props.C15
#print axioms setZ_no_callback
#print axioms setZ_xy
#print axioms setZ_spec
#print axioms pickZ_at_endpoint
#print axioms pickZ_default
#print axioms zcb_only_z
