import ClipperVerif.Props.C10AddPathsBridge
open Clipper.Props.C10AddPathsBridge
#print axioms counting_model_cnt
#print axioms counting_model_cursor
#print axioms counting_model_cursor_all
