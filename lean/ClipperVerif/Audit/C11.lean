import ClipperVerif.Props.C11
open Clipper.Props.C11
#print axioms checkPrecision_ok
#print axioms checkPrecision_throws
#print axioms checkPrecision_flags
#print axioms precision_reported_boolean
#print axioms precision_reported_rectclip
#print axioms precision_reported_trim
#print axioms precision_reported_inflate
#print axioms precision_reported_minkowski
#print axioms range_reported_inflate
#print axioms range_reported_rectclip
#print axioms range_reported_trim
#print axioms range_reported_minkowski
#print axioms valid_runs
#print axioms clipperD_ctor_reports
#print axioms clipperD_ctor_ok
#print axioms zero_scale_reported
#print axioms non_pair_reported
