import ClipperVerif.Props.C03Trim
open Clipper.Props.C03Trim
#print axioms loop_adv_le
#print axioms loop_row
#print axioms loop_stops_nopc
#print axioms trimHorz_merges_run
