/- Axiom audit of the bridge theorems of `Props/Bridges/Joins.lean` (generated-from-source definition = hand model). -/
import ClipperVerif.Props.Bridges.Joins
open Clipper.Props.Bridges
#print axioms checkJoinLeft_bridge
#print axioms checkJoinRight_bridge
#print axioms joinLeft_right_mirror
#print axioms joinLeft_requires
#print axioms joinRight_requires
#print axioms join_requires
#print axioms updateEdgeIntoAEL_bridge
#print axioms joinCallSites_bridge
#print axioms siteFlags_table
#print axioms joinS_accepts_decided
#print axioms joinOut_by_decision
