import ClipperVerif.Props.C19Quads
open Clipper.Props.C19Quads
#print axioms inQuadQ_int
#print axioms segment_sum_of_inQuad
#print axioms inQuad_of_segment_sum_q
#print axioms quad_is_segment_sum
#print axioms quad_is_segment_sum_int
#print axioms quad_degenerate
#print axioms segment_sum_degenerate_collinear
#print axioms onOutline_iff_edgesOf
#print axioms minkowski_quads_cover_sum_edges
#print axioms minkowski_quads_cover_sum
#print axioms minkcheck_oracle
#print axioms segment_sum_degenerate_on_edge
#print axioms segment_sum_degenerate_on_boundary_int
#print axioms onSegQ_int_iff
#print axioms closed_quad_is_segment_sum
#print axioms minkowski_quads_cover_sum_general
