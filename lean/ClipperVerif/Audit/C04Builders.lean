import ClipperVerif.Props.C04Builders
open Clipper.Props.C04Builders
#print axioms builders_reread_size
#print axioms dynLoop_size_mono
#print axioms dynLoop_visits_all
#print axioms hoisted_misses_appended
