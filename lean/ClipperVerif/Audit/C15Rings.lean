import ClipperVerif.Props.C15Rings
open Clipper.Props.C15Rings
#print axioms eraseZ_step
#print axioms eraseZ_run
#print axioms zinv_reachable
#print axioms z_rings_agree
#print axioms no_point_lost_z
#print axioms ring_z_provenance
#print axioms ring_z_accounting
#print axioms ring_z_no_callback
#print axioms rings_conserve_triples
#print axioms z_not_touched_by_joins
#print axioms callback_log_sound
#print axioms no_joins_no_split
#print axioms ring_z_accounting_no_joins
#print axioms ring_z_no_callback_no_joins
#print axioms checkAgree_sound
#print axioms checkProv_sound
