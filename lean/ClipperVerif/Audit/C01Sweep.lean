import ClipperVerif.Props.C01Sweep
open Clipper.Props.C01Sweep
#print axioms exact_order_between_scanlines
#print axioms aelAt_nil
#print axioms scanbeam_keeps_sorted
#print axioms ids_keyed
#print axioms doIntersections_is_engine
#print axioms cx_lt_iff_xlt
#print axioms intersections_are_exactly_crossings
#print axioms sweepFrom_cons
#print axioms sweep_keeps_sorted
#print axioms sweep_keeps_sorted_from_empty
#print axioms validGen_ok
#print axioms validGen_shared_point
#print axioms sweepOK_of_validOK
#print axioms eq_of_sorted_same_mem
#print axioms sweep_rounding_independent
#print axioms built_sweep_sorted
#print axioms built_sweep_any_rounding
#print axioms take_eq_filter_of_sorted
#print axioms sweep_ael_left_to_right
#print axioms triangles_hyp
