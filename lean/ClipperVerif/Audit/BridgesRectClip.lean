/- Axiom audit of the bridge theorems of `Props/Bridges/RectClip.lean` (generated-from-source definition = hand model). -/
import ClipperVerif.Props.Bridges.RectClip
open Clipper.Props.Bridges
#print axioms cornerAt_locIdx
#print axioms addCorner1_bridge
#print axioms addCorner2_bridge
#print axioms startLocsSum_cons_bridge
#print axioms getNextLocation_side_bridge
#print axioms isClockwise_bridge
#print axioms segIntersection_bridge
