import ClipperVerif.Props.C13
open Clipper.Props.C13
#print axioms inR_symm
#print axioms inFill_neg
#print axioms inR_neg
#print axioms xor_eq_union_minus_inter
#print axioms diff_inter_partition
#print axioms union_eq_diff_or_clip
#print axioms xor_eq_diff_or_diff
#print axioms swapTypes_sim
#print axioms swapTypes_sim_run
#print axioms negate_sim
#print axioms negate_sim_run
