import ClipperVerif.Props.C02
open Clipper.Props.C02
#print axioms windR_cell_const
#print axioms windR_cell_const_between
#print axioms windR_cell_const_left
#print axioms shoelace_cells
#print axioms area_of_cells
#print axioms rectCheck_sound
#print axioms rectCheck_sound_lattice
