import ClipperVerif.Props.C18Geom
open Clipper.Props.C18Geom
#print axioms pip_total
#print axioms pointInPolygon_eq
#print axioms pointInPolygon_exact
#print axioms pointInPolygon_on_iff
#print axioms pointInPolygon_inside_iff
#print axioms pointInPolygon_degenerate
#print axioms crossProduct_fits_double
#print axioms area_eq_shoelace
#print axioms gsip_parallel_exact
#print axioms gsip_fits_double
#print axioms gsip_ideal_point_on_both_lines
#print axioms gsip_on_segment
