import ClipperVerif.Props.C05
open Clipper.Props.C05
#print axioms isContributingOpen_bridge
#print axioms open_contributing_iff_keep
#print axioms open_wind_insert
#print axioms closed_unaffected_pair
#print axioms closed_unaffected
#print axioms closed_unaffected_step
#print axioms closed_unaffected_run
#print axioms open_toggle_step
#print axioms open_toggle_inv
#print axioms checkOpenInv_iff
