/- Axiom audit of the bridge theorems of `Props/Bridges/Flags.lean` (generated-from-source definition = hand model). -/
import ClipperVerif.Props.Bridges.Flags
open Clipper.Props.Bridges
#print axioms isMaximaV_bridge
#print axioms isOpenEndV_bridge
