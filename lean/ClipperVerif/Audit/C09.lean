import ClipperVerif.Props.C09
open Clipper.Props.C09
#print axioms getLocation_spec
#print axioms getLocation_inside_iff
#print axioms rectClipLines_total
#print axioms lines_in_rect
#print axioms lines_in_rect_needs_hyp
#print axioms lines_order
#print axioms startNew_iff_entering
#print axioms lines_pieces_count
