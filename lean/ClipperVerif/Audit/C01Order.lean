import ClipperVerif.Props.C01Order
open Clipper.Props.C01Order
#print axioms aelOrder_bridge
#print axioms isValidAelOrder_of_currX_ne
#print axioms isValidAelOrder_of_cross_ne
#print axioms cross_sign_right_above
#print axioms isValidAelOrder_spec_gp
#print axioms rounding_preserves_order
#print axioms rounding_preserves_order_fn
#print axioms insertLeft_shape
#print axioms insertLeft_shape_linked
#print axioms insertLeft_sorted
#print axioms insertLeft_sorted_nojoin
#print axioms insertRight_shape
#print axioms insertRight_eq_settle
#print axioms insertRight_sorted
