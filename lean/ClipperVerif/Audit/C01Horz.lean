import ClipperVerif.Props.C01Horz
open Clipper.Props.C01Horz
#print axioms updateEdge_bridge
#print axioms doHorizontal_terminates
#print axioms walk_visits_each_once
#print axioms doHorizontal_turns_bounded
#print axioms doHorizontal_keeps_sorted
#print axioms doHorizontal_events_are_crossings
#print axioms horzPhase_keeps_sorted
#print axioms sortedX_to_exact
#print axioms beam_with_horizontals_keeps_sorted
#print axioms horzPhaseTrace_sorted
#print axioms sweep_with_horizontals_keeps_sorted
#print axioms square_triangle_hyp
#print axioms doHorizontal_events_accepted
#print axioms horizontal_phase_region
