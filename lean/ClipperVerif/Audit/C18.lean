import ClipperVerif.Props.C18
open Clipper.Props.C18
#print axioms multiply_exact
#print axioms productsAreEqual_int128_iff
#print axioms productsAreEqual_portable_iff
#print axioms crossProductSign_int128_exact
#print axioms portable_crossProductSign_exact
#print axioms isCollinear_int128_exact
#print axioms isCollinear_portable_exact
#print axioms portable_agrees
