import ClipperVerif.Props.C20
open Clipper.Props.C20
#print axioms trim_subseq
#print axioms rdp_subseq
#print axioms simplify_subseq
#print axioms trim_keeps_ends
#print axioms trim_area
#print axioms trim_no_collinear
#print axioms trim_fixed
#print axioms trim_idempotent
#print axioms trim_no_collinear_needs_hypothesis
#print axioms rdp_eps
#print axioms rdp_keeps_ends
#print axioms simplify_total
#print axioms simplify_keeps_ends_partial
#print axioms simplify_fixpoint
#print axioms intOps_symm
#print axioms simplify_keeps_ends_false
#print axioms stripDuplicates_eq
#print axioms stripGen_contract
#print axioms stripDuplicates_contract
#print axioms translatePath_spec
#print axioms translatePath_zero_add
#print axioms ellipse_count
#print axioms getBounds_nil
#print axioms getBounds_spec
#print axioms intOps_laws
