/- Axiom audit of the bridge theorems of `Props/Bridges/Sides.lean` (generated-from-source definition = hand model). -/
import ClipperVerif.Props.Bridges.Sides
open Clipper.Props.Bridges
#print axioms isHot_logical_bridge
#print axioms isFront_bridge
#print axioms prevHot_cons_bridge
#print axioms prevHot_nil_bridge
#print axioms split_bridge
#print axioms addLocalMinPoly_closed_bridge
#print axioms addLocalMax_sides_bridge
#print axioms addLocalMax_join_bridge
#print axioms swapOutrecs_same_bridge
#print axioms swapOutrecs_diff_bridge
