import ClipperVerif.Props.C07
open Clipper.Props.C07
#print axioms open_indices_safe
#print axioms doPath_safe
#print axioms empty_path_faults
#print axioms empty_path_group_faults
#print axioms reverse_normals
#print axioms open_delta_symm
#print axioms frame_local_false_endtype
#print axioms frame_local_false_delta
#print axioms frame_local_partial
