import ClipperVerif.Props.C07
open Clipper.Props.C07
#print axioms open_indices_safe
#print axioms empty_path_no_call
#print axioms doPath_safe
#print axioms frame_safe
#print axioms empty_path_primitives
#print axioms reverse_normals
#print axioms open_delta_symm
#print axioms small_delta_open_nothing
#print axioms frame_local
