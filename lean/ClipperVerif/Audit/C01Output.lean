import ClipperVerif.Props.C01Output
open Clipper.Props.C01Output
#print axioms denOK_lcmList
#print axioms sweepEventsP_accepted
#print axioms sweepEventsP_same_hot
#print axioms emission_on_edge
#print axioms ring_ends_on_edges
#print axioms sweepEventsP_bottom_up
#print axioms emissions_bottom_up
#print axioms ring_segments_on_input_edges
#print axioms crossing_dens_pos
#print axioms output_rings_on_input_edges
#print axioms output_rings_on_input_edges_lcm
#print axioms output_edges_cross_scanline_partial
#print axioms triangles_hyp
#print axioms triangles_hypR
#print axioms triangles_den
