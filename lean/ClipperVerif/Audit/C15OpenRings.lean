import ClipperVerif.Props.C15OpenRings
open Clipper.Props.C15OpenRings
#print axioms eraseOZ_step
#print axioms eraseOZ_run
#print axioms zoinv_reachable
#print axioms zo_records_agree
#print axioms open_record_z_provenance
#print axioms open_solution_z_provenance
#print axioms open_solution_accounting
#print axioms open_solution_erase
#print axioms open_records_conserve_triples
#print axioms callback_log_sound_open
#print axioms checkAgreeO_sound
