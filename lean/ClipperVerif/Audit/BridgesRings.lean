/- Axiom audit of the bridge theorems of `Props/Bridges/Rings.lean` (generated-from-source definition = hand model). -/
import ClipperVerif.Props.Bridges.Rings
open Clipper.Props.Bridges
#print axioms addOutPt_bridge
#print axioms joinOutrecPaths_bridge
#print axioms joinPaths_by_front
#print axioms relabelFn_side
#print axioms startOpenPath_bridge
#print axioms setSides_bridge
#print axioms addLocalMinPoly_open_bridge
