import ClipperVerif.Props.C08Tidy
open Clipper.Props.C08Tidy
#print axioms rawHeap_wf
#print axioms checkEdges_points
#print axioms tidyEdges_points
#print axioms tidyEdges_no_fault
#print axioms tidyEdges_results_invariant
#print axioms getPath_shape
#print axioms getPath_no_fault
#print axioms tidyAll_inv
#print axioms finishPath_points
#print axioms checkEdges_terminates
#print axioms getPath_terminates
#print axioms tidyEdges_measure_decreases
#print axioms tidyEdges_terminates
#print axioms checkEdges_establishes_edgesOK
#print axioms rectClipGeneral_points
#print axioms rectClip_points_in_rect
#print axioms rectClipGeneral_total
#print axioms rectClipFull_total
#print axioms rectClip_final
#print axioms windPath_of_ring
#print axioms tidySplice_wind_partial
#print axioms getPath_short_witness
