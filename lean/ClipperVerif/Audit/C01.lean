import ClipperVerif.Props.C01
open Clipper.Props.C01
#print axioms isContributingClosed_bridge
#print axioms contributing_iff_boundary
#print axioms contributing_iff_boundary_enc
#print axioms wind_insert
#print axioms checkInv_iff
#print axioms inv_insert
#print axioms inv_insertOne
#print axioms inv_intersect
#print axioms inv_removePair
#print axioms inv_removeOne
#print axioms inv_step
#print axioms inv_reachable
#print axioms coverage_1d
#print axioms sum_reachable
#print axioms hot_even
