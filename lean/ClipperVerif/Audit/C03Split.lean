import ClipperVerif.Props.C03Split
open Clipper.Props.C03Split
#print axioms segsInt_eq_segsIntersect
#print axioms segsInt_endpoints_distinct
#print axioms exact_instance_sound
#print axioms doSplitOp_no_equal_neighbours
#print axioms guard_both_halves_needed
#print axioms doSplitOp_shrinks
#print axioms fsiLoop_no_equal_neighbours
#print axioms fixSelfIntersects_no_equal_neighbours
#print axioms fixSelfIntersects_points
#print axioms fixSelfIntersects_no_fault
#print axioms fixSelfIntersects_fuel_partial
#print axioms fsiLoop_fuel
#print axioms fixSelfIntersects_diverges_for_some_isect
#print axioms fixOk_fixMain
#print axioms solutionPath_shape
#print axioms cleanCollinearX_eq
#print axioms buildPaths_shape
