import ClipperVerif.Props.C01Region
import ClipperVerif.Props.C01RegionRings
open Clipper.Props.C01Region
#print axioms sweepEvents_accepted
#print axioms sweepEvents_snaps
#print axioms hot_determined_by_order
#print axioms tracks_closed
#print axioms isect_order_irrelevant
#print axioms tbl_sum
#print axioms ray_winding
#print axioms region_on_scanline
#print axioms mul_lt_cancel
#print axioms beam_alive
#print axioms scanline_sums
#print axioms scanline_region_stage
#print axioms inserted_in_order_of_no_crossing
#print axioms odd_left_iff_interval
#print axioms scanline_region
#print axioms scanline_region_intervals
#print axioms scanline_region_states
#print axioms split_at
#print axioms triangles_hyp
#print axioms triangles_hypR
open Clipper.Props.C01RegionRings
#print axioms erase_runS
#print axioms region_of_rings_partial
