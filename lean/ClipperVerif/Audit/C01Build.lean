import ClipperVerif.Props.C01Build
open Clipper.Props.C01Build
#print axioms build_allUp
#print axioms build_edges_distinct
#print axioms build_nextOK
#print axioms build_scanlines
#print axioms build_minsOK
#print axioms build_mins_iff
#print axioms build_labels
#print axioms build_starts
#print axioms build_two_per_maximum
#print axioms build_topStart
#print axioms build_hyp
#print axioms build_hypR
#print axioms gpAll_of_hyp
#print axioms build_hyp_iff
#print axioms build_sweep_ends_empty
#print axioms output_region_reduced
#print axioms c01_model_level_reduced
#print axioms c01_model_level_reduced_lcm
#print axioms tri_inputGP
#print axioms tri_gpAll
#print axioms Clipper.Lemmas.C01Build.build_wf
#print axioms Clipper.Lemmas.C01Build.sweep_ends_empty
#print axioms Clipper.Lemmas.C01Build.scanlinesOf_sorted
#print axioms Clipper.Lemmas.C01Build.wf_maxOK
