/- Axiom audit of the bridge theorems of `Props/Bridges/CleanUp.lean` (generated-from-source definition = hand model). -/
import ClipperVerif.Props.Bridges.CleanUp
open Clipper.Props.Bridges
#print axioms isVerySmallTriangle_one_bridge
#print axioms isVerySmallTriangle_two_bridge
#print axioms isVerySmallTriangle_three_bridge
#print axioms isVerySmallTriangle_many_bridge
#print axioms isValidClosedPath_nil_bridge
#print axioms isValidClosedPath_one_bridge
#print axioms isValidClosedPath_two_bridge
#print axioms isValidClosedPath_three_bridge
#print axioms isValidClosedPath_many_bridge
#print axioms buildPath64_guard_bridge
#print axioms removable_bridge
#print axioms trimHorz_loop_bridge
