/- Axiom audit of the bridge theorems of `Props/Bridges/Ael.lean` (generated-from-source definition = hand model). -/
import ClipperVerif.Props.Bridges.Ael
open Clipper.Props.Bridges
#print axioms findPrev_nil_bridge
#print axioms findPrev_cons_bridge
#print axioms wc2Loop_cons_bridge
#print axioms setWindClosed_bridge
#print axioms wcFrom_bridge
#print axioms openCounts_cons_bridge
#print axioms openSums_cons_bridge
#print axioms setWindOpen_bridge
#print axioms intersectEdges_closed_bridge
#print axioms intersectEdges_open1_bridge
#print axioms intersectEdges_open2_bridge
#print axioms intersectOpen_hot_bridge
#print axioms intersectEdges_bothOpen_bridge
