import ClipperVerif.Props.C05Rings
open Clipper.Props.C05Rings
#print axioms erase_open_rings_step
#print axioms erase_open_rings_run
#print axioms closed_rings_conserve_points
#print axioms reach_step
#print axioms reach_reachable
#print axioms open_layer_in_sync
#print axioms open_inv_reachable
#print axioms open_max_never_bad
#print axioms open_rings_conserve_points
#print axioms open_ring_points_from_open_events
#print axioms buildOpenPath_pairs
#print axioms open_path_is_monotone_piece_partial
#print axioms open_piece_ends
#print axioms sweep_end_all_finished
#print axioms solution_path_ends
#print axioms buildOpenPath_none_iff
#print axioms cut_iff_keep_changes
#print axioms olocalOK_iff
#print axioms open_run_follows_active
#print axioms open_runs_below_nrun
#print axioms open_update_emits_on_holder
