import ClipperVerif.Props.C10Isect
open Clipper.Props.C10Isect

-- BuildIntersectList records exactly the inversions, leaves the SEL stably sorted, and feeds ProcessIntersectList's scan
#print axioms buildIntersectList_nodes_eq_inversions
#print axioms mem_nodes_iff
#print axioms nodes_nodup
#print axioms ret_iff_not_sorted
#print axioms buildIntersectList_sorted
#print axioms buildIntersectList_sorted_spelled
#print axioms rank_inversion_iff
#print axioms built_nodes_are_rank_inversions
#print axioms processIntersectList_no_fault_built_ranks
#print axioms processIntersectList_no_fault_built
#print axioms scan_never_past_end
