/- Axiom audit of the bridge theorems of `Props/Bridges/Offset.lean` (generated-from-source definition = hand model). -/
import ClipperVerif.Props.Bridges.Offset
open Clipper.Props.Bridges
#print axioms lowestStep_bridge
#print axioms group_isJoined_bridge
