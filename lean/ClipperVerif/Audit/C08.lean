import ClipperVerif.Props.C08
open Clipper.Props.C08
#print axioms getAdjacent_cycle
#print axioms headingClockwise_iff
#print axioms areOpposites_iff
#print axioms corner_loops_terminate
#print axioms corner_loop_diverges_on_inside
#print axioms startLocsSum_step
#print axioms getBounds_spec
#print axioms shortcut_small
#print axioms shortcut_inside
#print axioms shortcut_outside
#print axioms shortcut_sound
