import ClipperVerif.Props.C13AddPaths
open Clipper.Props.C13AddPaths
#print axioms written_spec
#print axioms written_unique
#print axioms addPath_ring
#print axioms addPath_dup
#print axioms addPath_stutter
#print axioms addPath_closing
#print axioms closing_two_vertex_quirk
#print axioms closed_two_written_no_minima
#print axioms minima_are_flagged
#print axioms minima_are_minima_closed
#print axioms minima_are_minima_open
#print axioms extrema_alternate_closed
#print axioms extrema_alternate_open
#print axioms addPath_rotate
#print axioms addPath_rotate_perm
#print axioms minimaPts_eq
#print axioms addPath_rotate_minima
#print axioms addPath_rotate_two_vertex_quirk
#print axioms addPaths_no_fault
#print axioms leV_eq_locMinLe
#print axioms stableSort_toHist
#print axioms sorted_minima_perm
#print axioms sorted_minima_perm_history
#print axioms sorted_minima_perm_needs_distinct
