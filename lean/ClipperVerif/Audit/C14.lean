import ClipperVerif.Props.C14
open Clipper.Props.C14
#print axioms interleaving_eq_sequential
#print axioms interleaving_objects_eq
#print axioms globals_readonly
#print axioms no_unexplained_writable_symbol
#print axioms toolchain_symbols_known
#print axioms vertex_written_only_when_loading
