import ClipperVerif.Props.C03
open Clipper.Props.C03
#print axioms cycNoDup_index
#print axioms cycTriples_index
#print axioms linPairs_index
#print axioms isCollinear_iff_cross
#print axioms cleanLoop_fuel
#print axioms cleanCollinear_terminates
#print axioms cleanLoop_shape
#print axioms clean_noAdjDup
#print axioms clean_cycNoDup
#print axioms clean_noCollinear
#print axioms clean_noSpike
#print axioms cleanCollinear_shape
#print axioms buildPath_shape
#print axioms buildPath_wraparound_not_checked
#print axioms buildPath_short_possible
#print axioms buildPath_of_clean
#print axioms builtPath_eq
#print axioms builtPath_props
#print axioms solutionPath_terminates
#print axioms buildPath_rejects_short
#print axioms solutionPath_shape_partial
#print axioms solutionPath_shape_nofix
#print axioms clean_bounds_nonempty
