import ClipperVerif.Props.C19
open Clipper.Props.C19
#print axioms minkowski_quads
#print axioms minkowski_index_safe
#print axioms minkowski_empty
#print axioms minkowski_count
#print axioms area2_eq_shoelace2
#print axioms shoelace2_reverse_quad
#print axioms orient_positive
#print axioms quads_positive
#print axioms quads_have_four_points
#print axioms orient_eq_or_reverse
#print axioms segment_sum_cross_signs
#print axioms inQuad_parallelogram
#print axioms inQuad_of_segment_sum
