import ClipperVerif.Props.C10
-- fault-freedom / termination theorems proved in the other slices (C10 counts them as evidence):
import ClipperVerif.Props.C18Geom
import ClipperVerif.Props.C09
import ClipperVerif.Props.C08
import ClipperVerif.Props.C20
import ClipperVerif.Props.C19
import ClipperVerif.Props.C17
import ClipperVerif.Props.C07
import ClipperVerif.Props.C03
import ClipperVerif.Props.C04
import ClipperVerif.Props.C18
open Clipper.Props.C10

-- (i) ProcessIntersectList's adjacent-node scan
#print axioms adjacent_inversion_exists
#print axioms has_inversion_iff_not_sorted
#print axioms inversion_iff
#print axioms scan_finds_node
#print axioms step_preserves_invariant
#print axioms done_iff_sorted
#print axioms processIntersectList_no_fault
-- (iii) AddPaths_ sizing
#print axioms written_le
#print axioms addPaths_vertex_count
#print axioms addPaths_nothing_written_of_total_zero
-- (ii) overflow freedom up to 2^29 and the TopX condition
#print axioms crossProductSign_intermediates
#print axioms crossProductSign_spec
#print axioms portable_abs_intermediates
#print axioms ptsReallyClose_intermediates
#print axioms areaTerm_intermediates
#print axioms location_arith_small
#print axioms no_overflow_2p29
#print axioms topX_fits_inside_edge
#print axioms topX_fits_2p30
#print axioms topX_does_not_fit_witness

-- (iv) index of fault-freedom theorems of other slices: every name must exist …
#check @Clipper.Props.C18Geom.pip_total
#check @Clipper.Props.C09.rectClipLines_total
#check @Clipper.Props.C08.corner_loops_terminate
#check @Clipper.Props.C20.simplify_total
#check @Clipper.Props.C19.minkowski_index_safe
#check @Clipper.Props.C17.cpaths_no_oob_writer
#check @Clipper.Props.C17.cpaths_no_oob_reader
#check @Clipper.Props.C17.cpolytree_no_oob
#check @Clipper.Props.C07.open_indices_safe
#check @Clipper.Props.C07.doPath_safe
#check @Clipper.Props.C03.cleanCollinear_terminates
#check @Clipper.Props.C04.isValidOwner_terminates
#check @Clipper.Props.C04.getRealOutRec_terminates
#check @Clipper.Props.C04.divergence_942
-- … and rest on the permitted axioms only
#print axioms Clipper.Props.C18Geom.pip_total
#print axioms Clipper.Props.C09.rectClipLines_total
#print axioms Clipper.Props.C08.corner_loops_terminate
#print axioms Clipper.Props.C20.simplify_total
#print axioms Clipper.Props.C19.minkowski_index_safe
#print axioms Clipper.Props.C17.cpaths_no_oob_writer
#print axioms Clipper.Props.C17.cpaths_no_oob_reader
#print axioms Clipper.Props.C17.cpolytree_no_oob
#print axioms Clipper.Props.C07.open_indices_safe
#print axioms Clipper.Props.C07.doPath_safe
#print axioms Clipper.Props.C03.cleanCollinear_terminates
#print axioms Clipper.Props.C04.isValidOwner_terminates
#print axioms Clipper.Props.C04.getRealOutRec_terminates
#print axioms Clipper.Props.C04.divergence_942
