/- Axiom audit of the bridge theorems of `Props/Bridges/Horz.lean` (generated-from-source definition = hand model). -/
import ClipperVerif.Props.Bridges.Horz
open Clipper.Props.Bridges
#print axioms getLastOp_bridge
#print axioms setHeading_bridge
#print axioms runEnds_walkP1_bridge
#print axioms runEnds_walkN1_bridge
#print axioms runEnds_walkP2_bridge
#print axioms runEnds_walkN2_bridge
#print axioms markSegment_bridge
#print axioms horzSegSorter_bridge
#print axioms duplicateOp_log_bridge
#print axioms duplicateOp_bridge
