import ClipperVerif.Props.C01Crown
open Clipper.Props.C01Crown
#print axioms finished_rings_sides_cross_scanline_sum
#print axioms output_region
#print axioms c01_model_level
#print axioms sweep_end_no_ring_open
#print axioms Clipper.Lemmas.C01Crown.crown_main
#print axioms Clipper.Lemmas.C01Crown.isect_split_sorted
#print axioms Clipper.Lemmas.C01Crown.acct_run
#print axioms Clipper.Lemmas.C01Crown.phi_below_run
#print axioms Clipper.Lemmas.C01Crown.probe_crQ
#print axioms Clipper.Lemmas.C01Crown.edgeK_eq
#print axioms Clipper.Lemmas.C01Crown.rsum_alt
#print axioms Clipper.Lemmas.C01Crown.wind_output
