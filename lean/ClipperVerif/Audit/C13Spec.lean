import ClipperVerif.Props.C13Spec
open Clipper.Props.C13Spec
#print axioms wind_translate
#print axioms wind_scale
#print axioms wind_mirrorY
#print axioms wind_mirrorX
#print axioms wind_perm
#print axioms windPath_rotate
#print axioms wind_rotate
#print axioms windPath_dup
#print axioms windPath_closing
#print axioms wind_dup
#print axioms wind_closing
#print axioms windPath_reverse
#print axioms wind_reverse
#print axioms inFill_neg
#print axioms wind_mirrorX_offBoundary
#print axioms offSpan_of_not_onBoundary
#print axioms crossing_transpose
#print axioms crossing_sub_crossingV
#print axioms windPathV_eq_windPath
#print axioms windV_eq_wind
#print axioms wind_transpose_eq_windV
#print axioms wind_transpose
#print axioms inFill_transpose
