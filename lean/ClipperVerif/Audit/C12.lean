import ClipperVerif.Props.C12
import ClipperVerif.Props.C12Offset
open Clipper.Props.C12
#print axioms stableSort_append_sorted
#print axioms locMinSorter_total_preorder
#print axioms scratch_empty_after
#print axioms sel_empty_after
#print axioms sweep_start_state
#print axioms execute_eq_fresh
#print axioms execute_history_independent
#print axioms inputsOf_replay
#print axioms used_eq_fresh_replay
#print axioms reuseable_shared
#print axioms execute_eq_fresh_paths
#print axioms execute_history_independent_paths
#print axioms pinputsOf_replay
#print axioms used_eq_fresh_replay_paths
#print axioms execute_path_order_independent
#print axioms offset_frame_local
#print axioms delta_member_unchanged
#print axioms refFrame_is_alone
#print axioms round_steps_fresh
#print axioms insignificant_delta
#print axioms rectclip_per_path
#print axioms rectclip_scratch_clean_after
#print axioms lmBefore_is_generated
#print axioms intersectListSort_spec
