/- Axiom audit of the bridge theorems of `Props/Bridges/Trim.lean` (generated-from-source definition = hand model). -/
import ClipperVerif.Props.Bridges.Trim
open Clipper.Props.Bridges
#print axioms trimHorz_isMax_bridge
#print axioms trimHorz_tail_bridge
