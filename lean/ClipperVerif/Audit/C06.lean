import ClipperVerif.Props.C06
open Clipper.Props.C06
#print axioms polygon_delta_sign
#print axioms groupSetup_keeps_delta
#print axioms mkGroup_isReversed_iff
#print axioms polygon_union_orientation
#print axioms small_delta_identity
#print axioms small_delta_identity_polygons
#print axioms concave_branch_iff
#print axioms join_branch
#print axioms miter_iff_within_limit
#print axioms miter_branch_iff
