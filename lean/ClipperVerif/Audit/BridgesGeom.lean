/- Axiom audit of the bridge theorems of `Props/Bridges/Geom.lean` (generated-from-source definition = hand model). -/
import ClipperVerif.Props.Bridges.Geom
open Clipper.Props.Bridges
#print axioms vertexStep_bridge
