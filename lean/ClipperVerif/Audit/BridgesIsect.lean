/- Axiom audit of the bridge theorems of `Props/Bridges/Isect.lean` (generated-from-source definition = hand model). -/
import ClipperVerif.Props.Bridges.Isect
open Clipper.Props.Bridges
#print axioms adjacent_bridge
