import ClipperVerif.Props.C01Rings
open Clipper.Props.C01Rings
#print axioms erase_ring_step
#print axioms erase_ring_run
#print axioms sinv_rings
#print axioms recs_rings
#print axioms run_never_faults
#print axioms front_edge_unfilled_left
#print axioms oinv_step
#print axioms rinv_step
#print axioms rinv_reachable
#print axioms rings_conserve_points
#print axioms ring_points_from_events
#print axioms ring_ends_at_edges
#print axioms addOutPt_end
#print axioms ring_segments_on_edges_partial
#print axioms run_follows_active
#print axioms runs_below_nrun
#print axioms run_follows_active_run
#print axioms update_emits_on_holder
#print axioms checkOut_sound
