import ClipperVerif.Props.C17
import ClipperVerif.Props.C11Export
open Clipper.Props.C17
#print axioms createCPaths_layout
#print axioms cpaths_roundtrip
#print axioms cpaths_header
#print axioms cpaths_no_oob_writer
#print axioms cpaths_no_oob_reader
#print axioms cpathsD_roundtrip
#print axioms cpathsDfrom64_roundtrip
#print axioms createCPolyTree_layout
#print axioms cpolytree_roundtrip
#print axioms cpolytree_header
#print axioms cpolytree_no_oob
#print axioms table_complete
#print axioms forwarding
open Clipper.Props.C11Export
#print axioms export_rejects_BooleanOp64
#print axioms export_rejects_BooleanOp_PolyTree64
#print axioms export_rejects_BooleanOpD
#print axioms export_rejects_BooleanOp_PolyTreeD
#print axioms export_rejects
#print axioms export_rejects_InflatePathsD
#print axioms export_rejects_InflatePathD
#print axioms export_rejects_RectClipD
#print axioms export_rejects_RectClipLinesD
#print axioms export_rejects_RectClip64
#print axioms export_rejects_RectClipLines64
