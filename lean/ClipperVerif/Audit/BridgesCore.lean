/- Axiom audit of the bridge theorems of `Props/Bridges/Core.lean` (generated-from-source definition = hand model). -/
import ClipperVerif.Props.Bridges.Core
open Clipper.Props.Bridges
#print axioms rectIsEmpty_bridge
#print axioms rectIsEmpty_owner_bridge
#print axioms rectContainsRect_bridge
#print axioms rectContainsRect_owner_bridge
#print axioms rectIntersects_bridge
#print axioms rectMidPoint_bridge
#print axioms rectContainsPt_inRect
