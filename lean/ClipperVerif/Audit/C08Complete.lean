import ClipperVerif.Props.C08Complete
open Clipper.Props.C08
#print axioms exit_crossing_found_exact
#print axioms crossing_location_ready_exact
#print axioms runFine_exact
#print axioms executeInternal_total_exact
#print axioms executeInternal_no_fault_exact
#print axioms through_crossing_found_exact
#print axioms noLostCrossing_exact
#print axioms raw_ring_in_rect_exact
#print axioms inside_vertices_kept_exact
#print axioms emits_in_path_order
#print axioms raw_ring_order
#print axioms inside_vertices_in_ring_exact
#print axioms between_kept_vertices_provenance
#print axioms between_kept_vertices
#print axioms between_kept_vertices_exact
#print axioms inside_vertices_sublist_exact
#print axioms raw_ring_complete_exact
