import ClipperVerif.Props.C04Inside
open Clipper.Props.C04Inside
#print axioms pointInOpPolygon_is_evenOdd
#print axioms classify_inside
#print axioms classify_outside
#print axioms vote_semantics
#print axioms vote_closed_form
#print axioms vote_undecided_iff
#print axioms vote_threshold_witness
#print axioms inside_of_first_two_inside
#print axioms outside_of_first_two_outside
#print axioms inside_of_all_strictly_inside
#print axioms outside_of_all_strictly_outside
#print axioms one_vertex_falls_back
#print axioms fallback_semantics
#print axioms fallback_degenerate
#print axioms boundary_midpoint_witness
#print axioms cleanPath_sublist
#print axioms cleanPath_ne_nil
#print axioms cleanPath_step
#print axioms cleanPath_id_of_axisClean
#print axioms cleanPath_keeps_collinear_witness
#print axioms inside_respects_nesting
#print axioms tree_parent_geometric
#print axioms insideOf_respects
#print axioms tree_depth_parity_geometric
#print axioms exRing_nestingPosition
