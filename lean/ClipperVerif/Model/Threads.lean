/-
C14 model: an abstract machine for "independent objects used from different threads".

A global store `g : G` (everything with static storage duration, and the ReuseableDataContainer64s created before the
threads start), objects `σ : Nat → O` (every Clipper64/ClipperD/ClipperOffset/RectClip64 and every path vector a thread
created), and one atomic action per public call: `step g o op = (g', o', out)`.  A step receives exactly one object:
that is the library's architecture (all working state in members, anchors in properties.jsonl C14); that it also leaves
`g` alone is the hypothesis `ReadOnlyG`, whose source-level counterpart is `Props.C14.globals_readonly` over the
generated list of globals.  Sequentially consistent interleavings only: the absence of *data races* on the compiled code
is what the ThreadSanitizer harness checks.  Core Lean only.
-/
namespace Clipper.Model.Threads

structure Machine (G O Opn Out : Type) where
  step : G → O → Opn → G × O × Out

/-- no step writes the global store -/
def Machine.ReadOnlyG {G O Opn Out : Type} (m : Machine G O Opn Out) : Prop :=
  ∀ g o op, (m.step g o op).1 = g

/-- one public call made by `thread` on object number `obj` -/
structure Event (Opn : Type) where
  thread : Nat
  obj : Nat
  op : Opn

def upd {O : Type} (σ : Nat → O) (i : Nat) (v : O) : Nat → O := fun j => if j = i then v else σ j

/-- run a schedule (a total order of all calls of all threads): outputs tagged with the calling thread, final store -/
def run {G O Opn Out : Type} (m : Machine G O Opn Out) : G → (Nat → O) → List (Event Opn) → List (Nat × Out) × G × (Nat → O)
  | g, σ, [] => ([], g, σ)
  | g, σ, e :: es =>
    let r := m.step g (σ e.obj) e.op
    let rest := run m r.1 (upd σ e.obj r.2.1) es
    ((e.thread, r.2.2) :: rest.1, rest.2)

/-- the outputs thread `t` observed, in its program order -/
def outputsOf {Out : Type} (t : Nat) (l : List (Nat × Out)) : List Out := (l.filter (fun p => p.1 == t)).map (·.2)

/-- thread `t`'s own calls, in program order -/
def programOf {Opn : Type} (t : Nat) (s : List (Event Opn)) : List (Event Opn) := s.filter (fun e => e.thread == t)

end Clipper.Model.Threads
