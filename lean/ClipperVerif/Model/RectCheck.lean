/-
C02: an executable checker for Boolean operations on rectilinear (axis-parallel) closed paths.

`rectCheck ct fr rev subj clip sol` judges a solution `sol` produced by the real engine.  It evaluates the
Spec winding number (`Clipper.wind`) of `sol`, `subj` and `clip` at one probe point per cell of the grid
spanned by all vertex coordinates; probes live in doubled coordinates (all paths multiplied by 2) so that
cell centres are integer points.  `Props/C02.lean` proves that a `true` verdict implies the pointwise
specification at every (rational) point of the plane.

Core Lean only: linked into the driver executable.
-/
import ClipperVerif.Spec.Basic
namespace Clipper.RectCheck
open Clipper

/-- the two end points differ in exactly one coordinate -/
def axisEdge (e : Pt × Pt) : Bool := (e.1.x == e.2.x) != (e.1.y == e.2.y)

/-- closed path all of whose edges (closing edge included) are horizontal or vertical and non-degenerate -/
def isRectPath (p : Path) : Bool := (edgesOf p).all axisEdge

def isRectilinear (ps : Paths) : Bool := ps.all isRectPath

/-- insert into a strictly increasing list, keeping it strictly increasing -/
def insertU (a : Int) : List Int → List Int
  | [] => [a]
  | b :: r => if a < b then a :: b :: r else if a = b then b :: r else b :: insertU a r

/-- sorted list of the distinct elements -/
def sortU (l : List Int) : List Int := l.foldr insertU []

def xsOf (ps : Paths) : List Int := ps.flatMap (fun p => p.map (·.x))
def ysOf (ps : Paths) : List Int := ps.flatMap (fun p => p.map (·.y))

/-- sorted distinct x coordinates of all input and solution vertices -/
def gridXs (subj clip sol : Paths) : List Int := sortU (xsOf subj ++ (xsOf clip ++ xsOf sol))
/-- sorted distinct y coordinates of all input and solution vertices -/
def gridYs (subj clip sol : Paths) : List Int := sortU (ysOf subj ++ (ysOf clip ++ ysOf sol))

def scalePath (k : Int) (p : Path) : Path := p.map (Pt.scale k)
def scalePaths (k : Int) (ps : Paths) : Paths := ps.map (scalePath k)

/-- `a₀+a₁, a₁+a₂, …, 2·aₙ+1`: doubled mid points of consecutive grid values, then one beyond the last -/
def mids : List Int → List Int
  | [] => []
  | [a] => [2 * a + 1]
  | a :: b :: r => (a + b) :: mids (b :: r)

/-- one probe coordinate (doubled) per open interval of the line cut at the grid values `l`
(the two unbounded intervals included) -/
def probes (l : List Int) : List Int :=
  match l with
  | [] => [0]
  | a :: _ => (2 * a - 1) :: mids l

/-- one probe point (doubled coordinates) per cell of the grid, unbounded cells included -/
def cellCentres (xs ys : List Int) : List Pt :=
  (probes xs).flatMap (fun cx => (probes ys).map (fun cy => (⟨cx, cy⟩ : Pt)))

/-- the winding number the solution must have where the subject / clip winding numbers are `ws`, `wc` -/
def expected (ct : ClipType) (fr : FillRule) (rev : Bool) (ws wc : Int) : Int :=
  if inR ct fr ws wc then (if rev then -1 else 1) else 0

/-- clause (c) at one probe point; `s2 c2 o2` are subject, clip, solution in doubled coordinates -/
def cellOk (ct : ClipType) (fr : FillRule) (rev : Bool) (s2 c2 o2 : Paths) (c : Pt) : Bool :=
  wind o2 c == expected ct fr rev (wind s2 c) (wind c2 c)

/-- clause (b): every solution x is an input x, every solution y an input y -/
def provenance (subj clip sol : Paths) : Bool :=
  let ix := sortU (xsOf subj ++ xsOf clip)
  let iy := sortU (ysOf subj ++ ysOf clip)
  (xsOf sol).all (fun x => ix.contains x) && (ysOf sol).all (fun y => iy.contains y)

/-- `(a₀+a₁, a₁−a₀), …`: the bounded intervals as (doubled mid point, width) -/
def gaps : List Int → List (Int × Int)
  | [] => []
  | [_] => []
  | a :: b :: r => (a + b, b - a) :: gaps (b :: r)

/-- twice the (signed) area of the cells the operation selects: Σ over bounded cells of
`expected · 2 · width · height` -/
def selArea2 (ct : ClipType) (fr : FillRule) (rev : Bool) (subj clip : Paths) (xs ys : List Int) : Int :=
  let s2 := scalePaths 2 subj
  let c2 := scalePaths 2 clip
  ((gaps xs).map (fun gx => ((gaps ys).map (fun gy =>
      expected ct fr rev (wind s2 ⟨gx.1, gy.1⟩) (wind c2 ⟨gx.1, gy.1⟩) * (2 * (gx.2 * gy.2)))).sum)).sum

/-- The checker.  (a) rectilinear, (b) provenance of coordinates, (c) per-cell winding numbers,
(d) twice the shoelace area of the solution equals twice the exact area of the selected cells. -/
def rectCheck (ct : ClipType) (fr : FillRule) (rev : Bool) (subj clip sol : Paths) : Bool :=
  let xs := gridXs subj clip sol
  let ys := gridYs subj clip sol
  let s2 := scalePaths 2 subj
  let c2 := scalePaths 2 clip
  let o2 := scalePaths 2 sol
  isRectilinear subj && isRectilinear clip && isRectilinear sol
    && provenance subj clip sol
    && (cellCentres xs ys).all (cellOk ct fr rev s2 c2 o2)
    && shoelace2s sol == selArea2 ct fr rev subj clip xs ys

end Clipper.RectCheck
