/-
C12, path level: histories whose add ops carry the *paths* handed to the public call.  What a call contributes to
`minima_list_` is computed by the model of `AddPaths_` (`Model/AddPathsRings.lean`), and the history is lowered to the
member-level ops of `Model/History.lean`.

Naming of vertices.  The history model names the vertex a `LocalMinima` points to by `vid`.  Here `vid` = the number of
`LocalMinima` that were in `minima_list_` when this one was created, i.e. its position in order of creation since the last
`Clear()` (which is also how `harness/C12.cpp` numbers the real objects).
Core Lean only.
-/
import ClipperVerif.Model.History
import ClipperVerif.Model.AddPathsRings
namespace Clipper.Model.HistoryPaths
open Clipper Clipper.Model.History

/-- `ReuseableDataContainer64::AddPaths(paths, polytype, is_open)` on an empty container: it runs the same `AddPaths_`
(engine.cpp:729-733); `nextVid` as for `toAdded`. -/
def containerOf (polytype : PathType) (isOpen : Bool) (paths : Paths) (nextVid : Nat) : Container :=
  ⟨(AddPathsRings.toAdded polytype isOpen paths nextVid).minima⟩

/-- one public call, with the paths it is given -/
inductive POp where
  | addSubject (ps : Paths)
  | addOpenSubject (ps : Paths)
  | addClip (ps : Paths)
  | addReuseable (r : Container)     -- the container is a value built elsewhere (`containerOf`)
  | setPreserve (b : Bool)
  | setReverse (b : Bool)
  | execute (ct : ClipType) (fr : FillRule) (tree : Bool)
  | clear
  deriving DecidableEq, Repr

/-- `AddSubject` / `AddOpenSubject` / `AddClip` (engine.h:469-480) in terms of `AddPaths(paths, polytype, is_open)`;
`n` = current size of `minima_list_` -/
def lowerOp (n : Nat) : POp → Op
  | .addSubject ps => .addSubject (AddPathsRings.toAdded .subject false ps n)
  | .addOpenSubject ps => .addOpenSubject (AddPathsRings.toAdded .subject true ps n)
  | .addClip ps => .addClip (AddPathsRings.toAdded .clip false ps n)
  | .addReuseable r => .addReuseable r
  | .setPreserve b => .setPreserve b
  | .setReverse b => .setReverse b
  | .execute ct fr tree => .execute ct fr tree
  | .clear => .clear

/-- size of `minima_list_` after the op, given the size before -/
def nextCount (n : Nat) (op : POp) : Nat :=
  match op with
  | .clear => 0
  | op => n + (Op.minima (lowerOp n op)).length

/-- the member-level history of a path-level history started with `n` minima in the list -/
def lowerFrom : Nat → List POp → List Op
  | _, [] => []
  | n, op :: ops => lowerOp n op :: lowerFrom (nextCount n op) ops

/-- … on a new object -/
def lower (h : List POp) : List Op := lowerFrom 0 h

/-- the summary of a path-level history, computed from the paths alone (`Inputs` of `Model/History.lean`) -/
def pstep (i : Inputs) (op : POp) : Inputs := i.step (lowerOp i.minima.length op)

def pinputsOf (h : List POp) : Inputs := h.foldl pstep {}

/-! the fresh object "given the same paths and options", at path level -/

def POp.isAdd : POp → Bool
  | .addSubject _ | .addOpenSubject _ | .addClip _ | .addReuseable _ => true
  | _ => false

/-- the add calls since the last `Clear` -/
def psinceClear (h : List POp) : List POp :=
  h.foldl (fun acc op => match op with | .clear => [] | op => if POp.isAdd op then acc ++ [op] else acc) []

/-- what one does with a new object to reproduce the current inputs: set the two options, repeat the add calls with the
same paths -/
def preplayOf (h : List POp) : List POp :=
  [.setPreserve (pinputsOf h).preserve, .setReverse (pinputsOf h).reverse] ++ psinceClear h

/-- the `AddPaths(paths, polytype, is_open)` a path-level add op performs -/
def POp.call : POp → Option (PathType × Bool × Paths)
  | .addSubject ps => some (.subject, false, ps)
  | .addOpenSubject ps => some (.subject, true, ps)
  | .addClip ps => some (.clip, false, ps)
  | _ => none

/-- two calls that differ at most in the order of the paths handed to an add call -/
inductive POp.PermEq : POp → POp → Prop
  | addSubject {ps ps' : Paths} : ps.Perm ps' → POp.PermEq (.addSubject ps) (.addSubject ps')
  | addOpenSubject {ps ps' : Paths} : ps.Perm ps' → POp.PermEq (.addOpenSubject ps) (.addOpenSubject ps')
  | addClip {ps ps' : Paths} : ps.Perm ps' → POp.PermEq (.addClip ps) (.addClip ps')
  | same (op : POp) : POp.PermEq op op

end Clipper.Model.HistoryPaths
