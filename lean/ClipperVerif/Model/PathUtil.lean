/-
Executable models of the path utilities of clipper.h / clipper.core.h (property C20):
`TrimCollinear(Path64)`, `RDP`/`RamerDouglasPeucker`, `SimplifyPath` with `GetNext`/`GetPrior`,
`StripDuplicates`, `StripNearEqual`, `TranslatePath`, `GetBounds`.

Conventions (DESIGN.md §3): `int64_t` is `Int` (the coordinate differences formed by `IsCollinear` and
`PerpendicDistFromLineSqrd` are assumed not to overflow: |coordinate| ≤ 2^62); iterators and indices are list
positions; a loop is structural recursion over the part of the vector it walks, or takes fuel.
Double-valued quantities that are only *compared* (`PerpendicDistFromLineSqrd`, `Sqr(epsilon)`, `MAX_DBL`,
`NearEqual`) are parameters (`DistOps`, `near`); the driver instantiates them with `Float` bit for bit.
Core Lean only.
-/
import ClipperVerif.Generated.Core
namespace Clipper.Model.PathUtil
open Clipper

/-- `IsCollinear(pt1, sharedPt, pt2)` on `Point64`: the definition generated from the current source. -/
def isCollinear (p1 s p2 : Pt) : Bool := Gen.IsCollinear p1.x p1.y p2.x p2.y s.x s.y

/-- `path[i]`; every use below is at an index the C++ also reads (in range whenever the C++ is defined). -/
def nth (path : List Pt) (i : Nat) : Pt := path.getD i ⟨0, 0⟩

/-! ## TrimCollinear (Path64) -/

/-- `while (srcIt != stop && IsCollinear(*stop, *srcIt, *(srcIt + 1))) ++srcIt;`
The argument is the range `[srcIt, stop]`; `last` is `*stop`. -/
def trimFront (last : Pt) : List Pt → List Pt
  | a :: b :: rest => if isCollinear last a b then trimFront last (b :: rest) else a :: b :: rest
  | l => l

/-- `while (srcIt != stop && IsCollinear(*(stop - 1), *stop, *srcIt)) --stop;`
The argument is the range `[srcIt, stop]` reversed (head = `*stop`); `first` is `*srcIt`. -/
def trimBackRev (first : Pt) : List Pt → List Pt
  | z :: y :: rest => if isCollinear y z first then trimBackRev first (y :: rest) else z :: y :: rest
  | l => l

/-- The `for (; srcIt != stop; ++srcIt)` loop. `prev = *prevIt`, `cur = *srcIt`, the list is `(srcIt, stop]`.
Returns the vertices appended to `dst`, the final `*prevIt`, and `*stop` (= `*srcIt` on exit). -/
def trimLoop (prev cur : Pt) : List Pt → List Pt × Pt × Pt
  | [] => ([], prev, cur)
  | n :: rest =>
      if isCollinear prev cur n then trimLoop prev n rest
      else let r := trimLoop cur n rest; (cur :: r.1, r.2.1, r.2.2)

/-- `while (dst.size() > 2 && IsCollinear(dst[size-1], dst[size-2], dst[0])) dst.pop_back();`
on `dst` reversed; `first = dst[0]`. -/
def trimPopRev (first : Pt) : List Pt → List Pt
  | z :: y :: w :: rest =>
      if isCollinear z y first then trimPopRev first (y :: w :: rest) else z :: y :: w :: rest
  | l => l

/-- the part of `TrimCollinear` after the two trimming loops of a closed path; `seg = [srcIt, stop]`. -/
def trimClosedBody : List Pt → List Pt
  | a :: c :: rest =>
      let r := trimLoop a c rest
      let dst := a :: r.1
      if !isCollinear r.2.1 r.2.2 a then dst ++ [r.2.2]
      else
        let dst' := (trimPopRev a dst.reverse).reverse
        if dst'.length < 3 then [] else dst'
  | _ => []          -- `if (srcIt == stop) return Path64();`

/-- `[srcIt, stop]` after the two trimming loops of a closed path -/
def trimEnds (p : List Pt) : List Pt :=
  match p.getLast? with
  | none => []
  | some last =>
    let s1 := trimFront last p
    match s1 with
    | [] => []
    | first :: _ => (trimBackRev first s1.reverse).reverse

/-- `TrimCollinear(const Path64& p, bool is_open_path)` -/
def trimCollinear (p : List Pt) (isOpen : Bool) : List Pt :=
  if p.length < 3 then
    (if isOpen then
      match p with
      | [a, b] => if a = b then [] else p
      | _ => []
    else [])
  else if isOpen then
    match p with
    | a :: c :: rest => let r := trimLoop a c rest; a :: r.1 ++ [r.2.2]
    | _ => []
  else trimClosedBody (trimEnds p)

/-! ## StripDuplicates / StripNearEqual -/

/-- `std::unique` / the copy loop of `StripNearEqual`: drop an element when it is `eqv` to the last kept one -/
def stripAux (eqv : Pt → Pt → Bool) (last : Pt) : List Pt → List Pt
  | [] => []
  | b :: rest => if eqv b last then stripAux eqv last rest else b :: stripAux eqv b rest

/-- `while (size() > 1 && eqv(back(), first)) pop_back();` on the reversed vector -/
def popBackRev (eqv : Pt → Pt → Bool) (first : Pt) : List Pt → List Pt
  | z :: y :: rest => if eqv z first then popBackRev eqv first (y :: rest) else z :: y :: rest
  | l => l

/-- common shape of `StripDuplicates` (`eqv` is `==`) and `StripNearEqual` (`eqv` is `NearEqual(·,·,max_dist_sqrd)`) -/
def stripGen (eqv : Pt → Pt → Bool) (path : List Pt) (isClosed : Bool) : List Pt :=
  match path with
  | [] => []
  | a :: rest =>
    let r := a :: stripAux eqv a rest
    if isClosed then (popBackRev eqv a r.reverse).reverse else r

def stripDuplicates (path : List Pt) (isClosed : Bool) : List Pt :=
  stripGen (fun a b => decide (a = b)) path isClosed

/-- `near p1 p2` is `NearEqual(p1, p2, max_dist_sqrd)` -/
def stripNearEqual (near : Pt → Pt → Bool) (path : List Pt) (isClosed : Bool) : List Pt :=
  stripGen near path isClosed

/-- Defining equation of `StripDuplicates` (specification, not a transcription of the code): keep the first vertex and
every vertex that differs from its predecessor; for a closed path then drop trailing copies of the first vertex
(never the first vertex itself). -/
def collapseRuns (inp : List Pt) (closed : Bool) : List Pt :=
  match inp with
  | [] => []
  | h :: t =>
    let o := h :: ((h :: t).zip t).filterMap (fun q => if q.1 != q.2 then some q.2 else none)
    if closed then
      let r := o.reverse.dropWhile (· == h)
      if r.isEmpty then [h] else r.reverse
    else o

/-- the open chain that exhibits every cyclic triple of consecutive vertices of a closed path: `last :: p ++ [first]`
(specification helper) -/
def cyclicChain (p : List Pt) : List Pt :=
  match p, p.getLast? with
  | a :: _, some z => z :: p ++ [a]
  | _, _ => []

/-! ## TranslatePath / GetBounds -/

def translatePath (path : List Pt) (dx dy : Int) : List Pt := path.map (fun p => ⟨p.x + dx, p.y + dy⟩)

structure Rect where
  left : Int
  top : Int
  right : Int
  bottom : Int
  deriving DecidableEq, Repr, Inhabited

def int64Max : Int := 9223372036854775807
def int64Lowest : Int := -9223372036854775808

/-- `Rect64::InvalidRect()` -/
def invalidRect : Rect := ⟨int64Max, int64Max, int64Lowest, int64Lowest⟩

/-- one iteration of the loop of `GetBounds` -/
def boundsStep (r : Rect) (p : Pt) : Rect :=
  let xmin := if p.x < r.left then p.x else r.left
  let xmax := if p.x > r.right then p.x else r.right
  let ymin := if p.y < r.top then p.y else r.top
  let ymax := if p.y > r.bottom then p.y else r.bottom
  ⟨xmin, ymin, xmax, ymax⟩

/-- `GetBounds(const Path64&)` -/
def getBounds (path : List Pt) : Rect := path.foldl boundsStep invalidRect

/-! ## Ellipse (vertex count; the trigonometry is a parameter) -/

/-- the `for (i = 1; i < steps; ++i)` loop of `Ellipse`: `emit` rounds `center + radius * (dx, dy)` to a vertex,
`next` rotates `(dx, dy)` by one step -/
def ellipseLoop {S : Type} (emit : S → Pt) (next : S → S) : Nat → S → List Pt
  | 0, _ => []
  | k + 1, s => emit s :: ellipseLoop emit next k (next s)

/-- `Ellipse(center, radiusX, radiusY, steps)` once `radiusX > 0` and `steps` has been fixed -/
def ellipseGen {S : Type} (first : Pt) (emit : S → Pt) (next : S → S) (s0 : S) (steps : Nat) : List Pt :=
  first :: ellipseLoop emit next (steps - 1) s0

/-! ## RDP / RamerDouglasPeucker -/

/-- The double-valued quantities that RDP and SimplifyPath only compare. `le a b` is `a <= b`;
`a > b` is modelled as `!le a b` and `a < b` as `!le b a` (exact for doubles in the absence of NaN). -/
structure DistOps (D : Type) where
  le : D → D → Bool
  /-- `0.0` -/
  zero : D
  /-- `MAX_DBL` -/
  maxD : D
  /-- `PerpendicDistFromLineSqrd(pt, line1, line2)` -/
  dist2 : Pt → Pt → Pt → D

variable {D : Type}

/-- `while (end > begin && path[begin] == path[end]) --end;` : the new `end` -/
def rdpShrink (path : List Pt) (b : Nat) : Nat → Nat
  | 0 => 0
  | e + 1 => if e + 1 > b ∧ nth path b = nth path (e + 1) then rdpShrink path b e else e + 1

/-- the `for (i = begin + 1; i < end; ++i)` loop: returns `(idx, max_d)` -/
def rdpMax (ops : DistOps D) (path : List Pt) (b e : Nat) : Nat × D :=
  (List.range' (b + 1) (e - (b + 1))).foldl (fun (acc : Nat × D) i =>
    let d := ops.dist2 (nth path i) (nth path b) (nth path e)
    if ops.le d acc.2 then acc else (i, d)) (0, ops.zero)

/-- `RDP(path, begin, end, epsSqrd, flags)`; the first argument is recursion fuel
(any fuel above `end - begin` suffices: `Lemmas.PathUtil.rdp_spec`; `RamerDouglasPeucker` passes `len`). -/
def rdp (ops : DistOps D) (path : List Pt) (eps : D) : Nat → Nat → Nat → List Bool → List Bool
  | 0, _, _, flags => flags
  | fuel + 1, b, e, flags =>
    let e' := rdpShrink path b e
    -- `flags[end] = true;`
    let flags := flags.set e' true
    let m := rdpMax ops path b e'
    let idx := m.1
    if ops.le m.2 eps then flags else
    let flags := flags.set idx true
    let flags := if idx > b + 1 then rdp ops path eps fuel b idx flags else flags
    if idx < e' - 1 then rdp ops path eps fuel idx e' flags else flags

/-- the vertices whose flag is `keep` -/
def selectFlags (keep : Bool) : List Pt → List Bool → List Pt
  | p :: ps, f :: fs => if f = keep then p :: selectFlags keep ps fs else selectFlags keep ps fs
  | _, _ => []

def rdpFlags (ops : DistOps D) (path : List Pt) (epsSqr : D) : List Bool :=
  let len := path.length
  let flags := ((List.replicate len false).set 0 true).set (len - 1) true
  rdp ops path epsSqr len 0 (len - 1) flags

/-- `RamerDouglasPeucker(path, epsilon)`; `epsSqr` is `Sqr(epsilon)` -/
def ramerDouglasPeucker (ops : DistOps D) (path : List Pt) (epsSqr : D) : List Pt :=
  if path.length < 5 then path else selectFlags true path (rdpFlags ops path epsSqr)

/-! ## SimplifyPath -/

def flagAt (flags : List Bool) (i : Nat) : Bool := flags.getD i true
def distAt (ops : DistOps D) (dist : List D) (i : Nat) : D := dist.getD i ops.zero

/-- first unflagged index in `[i, high]` -/
def firstUp (flags : List Bool) (i high : Nat) : Option Nat :=
  (List.range' i (high + 1 - i)).find? (fun j => !flagAt flags j)

/-- first unflagged index going down from `i` to `0` -/
def firstDown (flags : List Bool) (i : Nat) : Option Nat :=
  (List.range (i + 1)).reverse.find? (fun j => !flagAt flags j)

/-- `GetNext(current, high, flags)`; `none`: every flag is set and the C++ reads past the end -/
def getNext (cur high : Nat) (flags : List Bool) : Option Nat :=
  match firstUp flags (cur + 1) high with
  | some j => some j
  | none => firstUp flags 0 high

/-- `GetPrior(current, high, flags)`; `none`: every flag is set and the C++ reads before the start -/
def getPrior (cur high : Nat) (flags : List Bool) : Option Nat :=
  match firstDown flags (if cur = 0 then high else cur - 1) with
  | some j => some j
  | none => firstDown flags high

/-- The `do curr = GetNext(curr) while (curr != start && distSqr[curr] > epsSqr)` loop, entered from
`start` (unflagged). Iterating `GetNext` visits the unflagged indices in cyclic order, so the loop is a search
through `start+1 … high, 0 … start-1`; `none` = came back to `start` (`break`). -/
def scan (ops : DistOps D) (eps : D) (high : Nat) (flags : List Bool) (dist : List D) (start : Nat) : Option Nat :=
  (List.range' (start + 1) (high - start) ++ List.range start).find?
    (fun j => !flagAt flags j && ops.le (distAt ops dist j) eps)

/-- result of one iteration of the `for (;;)` loop -/
inductive Step (D : Type) where
  | exit : Step D
  | cont (flags : List Bool) (dist : List D) (curr : Nat) : Step D
  | fault : Step D

/-- one iteration of the `for (;;)` loop of `SimplifyPath` -/
def simplifyStep (ops : DistOps D) (path : List Pt) (eps : D) (closed : Bool) (high : Nat)
    (flags : List Bool) (dist : List D) (curr : Nat) : Step D :=
  let curr? := if !ops.le (distAt ops dist curr) eps then scan ops eps high flags dist curr else some curr
  match curr? with
  | none => .exit
  | some curr =>
    match getPrior curr high flags, getNext curr high flags with
    | some prior, some next =>
      if next = prior then .exit else
      -- `if (distSqr[next] < distSqr[curr])`
      let sel : Option (Nat × Nat × Nat × Nat) :=
        if !ops.le (distAt ops dist curr) (distAt ops dist next) then
          (getNext next high flags).map (fun n2 => (prior, curr, next, n2))
        else (getPrior prior high flags).map (fun p2 => (p2, prior, curr, next))
      match sel with
      | none => .fault
      | some (prior2, prior, curr, next) =>
        let flags := flags.set curr true
        let curr := next
        match getNext next high flags with
        | none => .fault
        | some next =>
          let dist := if closed || (curr != high && curr != 0)
            then dist.set curr (ops.dist2 (nth path curr) (nth path prior) (nth path next)) else dist
          let dist := if closed || (prior != 0 && prior != high)
            then dist.set prior (ops.dist2 (nth path prior) (nth path prior2) (nth path curr)) else dist
          .cont flags dist curr
    | _, _ => .fault

/-- the `for (;;)` loop with fuel; `none` = fault or fuel exhausted -/
def simplifyLoop (ops : DistOps D) (path : List Pt) (eps : D) (closed : Bool) (high : Nat) :
    Nat → List Bool → List D → Nat → Option (List Bool)
  | 0, _, _, _ => none
  | fuel + 1, flags, dist, curr =>
    match simplifyStep ops path eps closed high flags dist curr with
    | .exit => some flags
    | .fault => none
    | .cont flags dist curr => simplifyLoop ops path eps closed high fuel flags dist curr

/-- initial `distSqr` -/
def simplifyInitDist (ops : DistOps D) (path : List Pt) (closed : Bool) : List D :=
  let high := path.length - 1
  (List.range path.length).map (fun i =>
    if i = 0 then (if closed then ops.dist2 (nth path 0) (nth path high) (nth path 1) else ops.maxD)
    else if i = high then (if closed then ops.dist2 (nth path high) (nth path 0) (nth path (high - 1)) else ops.maxD)
    else ops.dist2 (nth path i) (nth path (i - 1)) (nth path (i + 1)))

def simplifyFlags (ops : DistOps D) (path : List Pt) (epsSqr : D) (closed : Bool) : Option (List Bool) :=
  simplifyLoop ops path epsSqr closed (path.length - 1) (path.length + 1)
    (List.replicate path.length false) (simplifyInitDist ops path closed) 0

/-- `SimplifyPath(path, epsilon, isClosedPath)`; `epsSqr` is `Sqr(epsilon)`. `none` never occurs
(`Props.C20.simplify_total`). -/
def simplifyPath (ops : DistOps D) (path : List Pt) (epsSqr : D) (closed : Bool) : Option (List Pt) :=
  if path.length < 4 then some path
  else (simplifyFlags ops path epsSqr closed).map (selectFlags false path)

end Clipper.Model.PathUtil
