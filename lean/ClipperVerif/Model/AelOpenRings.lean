/-
Assembly of the OPEN solution paths of the Vatti sweep (property C05), layered on the ring model of `Model/AelRings.lean`.

What is added: for every *open* edge of the AEL its output record (`outrec`, as the record's rank among the open records, and `IsFront(e)`),
for every open output record its list of `OutPt`s, and the code that builds them:

  `StartOpenPath` (in `InsertLocalMinimaIntoAEL` for an end vertex of an open path that is a local minimum, and in `IntersectEdges`),
  the open branch of `AddLocalMinPoly` (`SetSides` by `wind_dx`) for a local minimum inside an open path,
  the `if (has_open_paths_ && (IsOpen(e1) || IsOpen(e2)))` block of `IntersectEdges`, branch by branch:
      both open ⇒ return;  `abs(edge_c->wind_cnt) != 1` ⇒ return;  Union: `!IsHotEdge(*edge_c)` ⇒ return, other clip types: `edge_c` is a subject edge ⇒ return;
      the fill-rule switch ⇒ return;  then "toggle contribution":
        `IsHotEdge(*edge_o)`      ⇒ `AddOutPt(*edge_o, pt)`; `front_edge / back_edge = nullptr`; `edge_o->outrec = nullptr`      (the piece ends: `stopOpen`)
        `pt == edge_o->local_min->vertex->pt && !IsOpenEnd(…)`, `FindEdgeWithMatchingLocMin` finds a hot `e3`
                                  ⇒ `edge_o->outrec = e3->outrec`; `SetSides` by `wind_dx`; return without a point             (`locMinX` event)
        otherwise                 ⇒ `StartOpenPath(*edge_o, pt)`                                                              (a piece starts: `startOpen`)
  `AddOutPt` on open records (same code as for closed ones: `Model.addOutPt`), `UpdateEdgeIntoAEL`'s / `DoHorizontal`'s `AddOutPt(e, e.top)` (`update`),
  `AddLocalMaxPoly` for open edges (`IsFront(e1) == IsFront(e2)` test, `AddOutPt(e1, pt)`, `JoinOutrecPaths(e1, e2)` if `e1.wind_dx < 0` else `(e2, e1)`),
  `JoinOutrecPaths` (pointer surgery as in `Model.joinPaths`; `front_edge` / `back_edge` of the emptied record are inherited, also when they are null),
  `DoMaxima` / `DoHorizontal` at `IsOpenEnd` (`AddOutPt(e, e.top)`; the end is released),
  and `BuildPath64` for open records (`reverse` flag, consecutive duplicates dropped, a single-`OutPt` record gives no path).

Representation.  As in `Model/AelRings.lean` a record is the list of points met from `outrec->pts` following `->prev` (front end first, back end last); the
records live in a second `Model.Out` (`oo`), so `Model.addOutPt`, `newRec`, `joinPaths`, `logSeg`, `handOver` are *the same functions* as for closed records.
An open record is never closed into a cycle: its `stat` is `live` as long as it has points and `gone` once `JoinOutrecPaths` has emptied it; which of its
two ends is still held by an edge (`front_edge != nullptr`, `back_edge != nullptr`) is recorded in `om`: `none` = held, `some mark` = not held, where the
(ghost) mark remembers the point and the kind of event at which the end was fixed.  A record is *finished* when both ends carry a mark.

The AEL of this layer (`ol`) carries its own copy of the bookkeeping fields of `Model/Ael.lean`, updated by the same functions (`newLeft`, `intersectPair`),
the open edge's record in `orec`, and nothing for closed edges (`orec = none`, `join = none`): the closed side lives in the `RState` that goes along
(`OState.r`), and one event is the `Model.stepR` step there paired with `openStep` here.  Forgetting the open layer is therefore the identity on the ring model
(`Props/C05Rings.lean`, `erase_open_rings_step`), and the two copies of the bookkeeping fields agree (`open_layer_in_sync`).

Events: those of `Model.ROp` (now `insertOne` carries `left_bound->bot` and `removeOne` carries `e.top`), plus `locMinX i pt e3` = an `intersect i` at
`pt` for which the C++ condition `pt == edge_o->local_min->vertex->pt && !IsOpenEnd(*edge_o->local_min->vertex)` holds, `e3` = position (before the swap)
of the edge returned by `FindEdgeWithMatchingLocMin(edge_o)`, if any.  [Geometry is an input of the model, as everywhere in the AEL models.]

Rejected (= the event does not fit the state; never seen on a real trace, every real trace is replayed):
  * a local maximum whose two open edges hold the two ends of one record (an open path is not a cycle);
  * `locMinX` whose `e3` is not an open edge with the opposite `wind_dx`, or whose record's other end is still held by an edge (`SetSides` would orphan it).
`bad` is set when the C++ would misbehave: `AddLocalMaxPoly` on open edges with `IsFront(e1) == IsFront(e2)` (⇒ `succeeded_ = false`: the local maximum vertex
is not an open end), or a maxima pair of which exactly one edge is hot (`IsFront` on a null `outrec` / a record left with a dangling edge pointer).
`Props/C05Rings.lean`, `open_max_never_bad`: unreachable.

Not modelled: the `IsOpenEnd(e1)` quirk at the end of `JoinOutrecPaths` (`e2.outrec->pts = e1.outrec->pts; e1.outrec->pts = nullptr`): both arguments of
an open `JoinOutrecPaths` are at a local maximum vertex that is not an end of the path (`DoMaxima` tests `IsOpenEnd(e)` first; in `DoHorizontal` no second edge
ends at an open end vertex); the trace sink `harness/aelopenrings.h` checks `!IsOpenEnd` at every open `removePair`.  Z values.  `PolyTree` output (same `BuildPath64`).

Core Lean only (the driver executable links this file).
-/
import ClipperVerif.Model.AelRings
namespace Clipper.Model

/-- ghost: at which kind of event an end of an open record was fixed -/
inductive MarkKind
  | pathStart   -- `StartOpenPath` in `InsertLocalMinimaIntoAEL`: an end vertex of the input path that is a local minimum (`OpenStart` / `OpenEnd`)
  | cutStart    -- `StartOpenPath` in `IntersectEdges`: the open edge became hot crossing a closed edge
  | pathStop    -- `DoMaxima` / `DoHorizontal` at `IsOpenEnd(e)`: an end vertex of the input path that is a local maximum
  | cutStop     -- `IntersectEdges`: the hot open edge became cold crossing a closed edge
  deriving DecidableEq, Repr, Inhabited

structure Mark where
  pt : Pt
  kind : MarkKind
  deriving DecidableEq, Repr, Inhabited

/-- the two ends of an open record: `none` = `front_edge` (`back_edge`) is set; `some m` = it is null -/
structure EndMarks where
  f : Option Mark
  b : Option Mark
  deriving DecidableEq, Repr, Inhabited

def EndMarks.side (m : EndMarks) (front : Bool) : Option Mark := if front then m.f else m.b
def EndMarks.put (m : EndMarks) (front : Bool) (v : Option Mark) : EndMarks := if front then { m with f := v } else { m with b := v }

/-- the open layer -/
structure OX where
  /-- the AEL: bookkeeping fields of every edge, and the record `(rank among open records, IsFront)` of every hot open edge -/
  ol : List SEdge
  /-- the open output records, by rank -/
  oo : Out
  /-- per record: which ends are free -/
  om : List EndMarks
  /-- the C++ would have misbehaved (see the file header) -/
  bad : Bool
  deriving DecidableEq, Repr, Inhabited

def OX.empty : OX := { ol := [], oo := Out.empty, om := [], bad := false }

/-- `IsFront(e)` for an open edge as `StartOpenPath`, `AddLocalMinPoly` and the `SetSides` of `IntersectEdges` set it: `e.wind_dx > 0` -/
def isFrontDx (dx : Int) : Bool := decide (dx > 0)

def markAt (om : List EndMarks) (id : Nat) (front : Bool) : Option Mark := (om[id]?).bind (·.side front)

def setMark (id : Nat) (front : Bool) (v : Option Mark) (om : List EndMarks) : List EndMarks :=
  match om[id]? with
  | some m => om.set id (m.put front v)
  | none => om

/-- `StartOpenPath(e, pt)`: a new open record with the single point `pt`, held by `e` at its front end when `e.wind_dx > 0`, at its back end otherwise;
the other end is free.  Result: `e.outrec`, the records, the marks. -/
def startOpen (dx : Int) (pt : Pt) (kind : MarkKind) (oo : Out) (om : List EndMarks) : Rec × Out × List EndMarks :=
  (⟨oo.rings.length, isFrontDx dx⟩, newRec pt oo, om ++ [EndMarks.put ⟨none, none⟩ (!isFrontDx dx) (some ⟨pt, kind⟩)])

/-- `AddOutPt(e, pt); if (IsFront(e)) e.outrec->front_edge = nullptr; else e.outrec->back_edge = nullptr; e.outrec = nullptr;` -/
def stopOpen (k : Rec) (pt : Pt) (kind : MarkKind) (oo : Out) (om : List EndMarks) : Out × List EndMarks :=
  (addOutPt k.id k.front pt oo, setMark k.id k.front (some ⟨pt, kind⟩) om)

/-! ## `IntersectEdges`, open branch -/

/-- the three `return`s before "toggle contribution" (`abs(edge_c->wind_cnt) != 1`, the clip-type switch, the fill-rule switch) all fail -/
def openToggles (cfg : Cfg) (ec : Edge) : Bool :=
  !(decide (iabs ec.wc ≠ 1) || openSkipCt cfg.ct ec.pt ec.hot || openSkipFr cfg.fr ec.wc)

/-- "toggle contribution" for the open edge `eo` at position `io` (before the swap) crossing the closed edge `ec`; `l` = the AEL.
`lm = some e3` : `pt == edge_o->local_min->vertex->pt && !IsOpenEnd(*edge_o->local_min->vertex)` and `FindEdgeWithMatchingLocMin(edge_o)` returned the edge at
position `e3` (`none`: `nullptr`).  Result: the new `edge_o->outrec`, the records, the marks; `none` = rejected. -/
def openBranch (cfg : Cfg) (l : List SEdge) (io : Nat) (eo ec : SEdge) (pt : Pt) (lm : Option (Option Nat)) (oo : Out) (om : List EndMarks) :
    Option (Option Rec × Out × List EndMarks) :=
  if openToggles cfg ec.e then
    match eo.orec with
    | some k =>
      let r := stopOpen k pt .cutStop oo om
      some (none, r.1, r.2)
    | none =>
      match lm with
      | some (some j) =>
        match l[j]? with
        | some e3 =>
          if e3.e.isOpen = true ∧ j ≠ io ∧ e3.e.dx + eo.e.dx = 0 then
            match e3.orec with
            | some r =>
              -- `edge_o->outrec = e3->outrec; SetSides(...)`: `edge_o` takes the end `wind_dx > 0 ? front : back`, `e3` the other one (which it holds already)
              if r.front = !isFrontDx eo.e.dx ∧ (markAt om r.id (isFrontDx eo.e.dx)).isSome then
                some (some ⟨r.id, isFrontDx eo.e.dx⟩, handOver r.id (isFrontDx eo.e.dx) oo, setMark r.id (isFrontDx eo.e.dx) none om)
              else none
            | none =>
              let s := startOpen eo.e.dx pt .cutStart oo om
              some (some s.1, s.2.1, s.2.2)
          else none
        | none => none
      | _ =>
        let s := startOpen eo.e.dx pt .cutStart oo om
        some (some s.1, s.2.1, s.2.2)
  else some (eo.orec, oo, om)

/-- `IntersectEdges(e1, e2, pt); SwapPositionsInAEL(e1, e2);` with `e1` at position `i`, `e2` at `i+1`: the bookkeeping fields change by `Model.intersectPair`
(as in `Model.intersect`); when exactly one of the two is open, its record changes by `openBranch` -/
def oIntersect (cfg : Cfg) (i : Nat) (pt : Pt) (lm : Option (Option Nat)) (x : OX) : Option OX :=
  match x.ol.drop i with
  | a :: b :: rest =>
    let p := intersectPair cfg a.e b.e
    if a.e.isOpen = b.e.isOpen then
      some { x with ol := x.ol.take i ++ { b with e := p.2 } :: { a with e := p.1 } :: rest }
    else if a.e.isOpen then
      match openBranch cfg x.ol i a b pt lm x.oo x.om with
      | some r => some { x with ol := x.ol.take i ++ { b with e := p.2 } :: { a with e := p.1, orec := r.1 } :: rest, oo := r.2.1, om := r.2.2 }
      | none => none
    else
      match openBranch cfg x.ol (i + 1) b a pt lm x.oo x.om with
      | some r => some { x with ol := x.ol.take i ++ { b with e := p.2, orec := r.1 } :: { a with e := p.1 } :: rest, oo := r.2.1, om := r.2.2 }
      | none => none
  | _ => none

/-! ## the other events -/

/-- `InsertLocalMinimaIntoAEL`, local minimum with both bounds.  Open and contributing: `AddLocalMinPoly(left, right, bot, true)`, open branch:
`if (e1.wind_dx > 0) SetSides(outrec, e1, e2) else SetSides(outrec, e2, e1)`, one record with the single point `bot`, both ends held. -/
def oInsertPair (cfg : Cfg) (pos : Nat) (pt : PathType) (isOpen : Bool) (dxLeft : Int) (bot : Pt) (x : OX) : Option OX :=
  if pos ≤ x.ol.length ∧ (dxLeft = 1 ∨ dxLeft = -1) then
    let r := newLeft cfg (erase (x.ol.take pos)) pt isOpen dxLeft
    let lb : Edge := { r.1 with hot := r.2 }
    let rb : Edge := { pt := pt, isOpen := isOpen, dx := -dxLeft, wc := r.1.wc, wc2 := r.1.wc2, hot := r.2 }
    if r.2 && isOpen then
      some { x with ol := x.ol.take pos ++ ⟨lb, .none, some ⟨x.oo.rings.length, isFrontDx dxLeft⟩⟩ :: ⟨rb, .none, some ⟨x.oo.rings.length, !isFrontDx dxLeft⟩⟩ :: x.ol.drop pos,
                    oo := newRec bot x.oo, om := x.om ++ [⟨none, none⟩] }
    else some { x with ol := x.ol.take pos ++ ⟨lb, .none, none⟩ :: ⟨rb, .none, none⟩ :: x.ol.drop pos }
  else none

/-- `InsertLocalMinimaIntoAEL` for an end vertex of an open path (one bound): `if (contributing) StartOpenPath(*left_bound, left_bound->bot)` -/
def oInsertOne (cfg : Cfg) (pos : Nat) (pt : PathType) (dx : Int) (bot : Pt) (x : OX) : Option OX :=
  if pos ≤ x.ol.length ∧ (dx = 1 ∨ dx = -1) then
    let r := newLeft cfg (erase (x.ol.take pos)) pt true dx
    let lb : Edge := { r.1 with hot := r.2 }
    if r.2 then
      let s := startOpen dx bot .pathStart x.oo x.om
      some { x with ol := x.ol.take pos ++ ⟨lb, .none, some s.1⟩ :: x.ol.drop pos, oo := s.2.1, om := s.2.2 }
    else some { x with ol := x.ol.take pos ++ ⟨lb, .none, none⟩ :: x.ol.drop pos }
  else none

/-- end of `DoMaxima` / `DoHorizontal` at a local maximum with two bounds.  Open edges: `if (IsHotEdge(e)) AddLocalMaxPoly(e, *max_pair, e.top)` with `e1` the
left one of the two: `AddOutPt(e1, pt)`, then `JoinOutrecPaths(e1, e2)` if `e1.wind_dx < 0`, `JoinOutrecPaths(e2, e1)` otherwise — the record of the edge
with `wind_dx < 0` survives, the edge holding the far end of the other record (if any) is handed the surviving record. -/
def oRemovePair (i : Nat) (top : Pt) (x : OX) : Option OX :=
  match x.ol.drop i with
  | a :: b :: rest =>
    if a.e.pt = b.e.pt ∧ a.e.isOpen = b.e.isOpen ∧ a.e.dx + b.e.dx = 0 then
      if a.e.isOpen then
        match a.orec, b.orec with
        | none, none => some { x with ol := x.ol.take i ++ rest }
        | some ra, some rb =>
          if ra.front = rb.front then some { x with ol := x.ol.take i ++ rest, bad := true }
          else if ra.id = rb.id then none
          else
            let o1 := logSeg .meet rb.id rb.front ra.id ra.front (addOutPt ra.id ra.front top x.oo)
            let X := if a.e.dx < 0 then ra else rb
            let Y := if a.e.dx < 0 then rb else ra
            some { x with ol := (x.ol.take i ++ rest).map (relabelFn Y.id X.front X.id), oo := joinPaths X.id Y.id X.front o1,
                          om := setMark X.id X.front (markAt x.om Y.id X.front) x.om }
        | _, _ => some { x with ol := x.ol.take i ++ rest, bad := true }
      else some { x with ol := x.ol.take i ++ rest }
    else none
  | _ => none

/-- `DoMaxima` / `DoHorizontal` at `IsOpenEnd(e)`: `if (IsHotEdge(e)) AddOutPt(e, e.top)`, the end is released, the edge leaves the AEL -/
def oRemoveOne (i : Nat) (top : Pt) (x : OX) : Option OX :=
  match x.ol.drop i with
  | a :: rest =>
    if a.e.isOpen then
      match a.orec with
      | some k =>
        let r := stopOpen k top .pathStop x.oo x.om
        some { x with ol := x.ol.take i ++ rest, oo := r.1, om := r.2 }
      | none => some { x with ol := x.ol.take i ++ rest }
    else none
  | _ => none

/-- `if (IsHotEdge(*e)) AddOutPt(*e, e->top);` before `UpdateEdgeIntoAEL` (`DoTopOfScanbeam`, `DoHorizontal`) for the edge at position `i` -/
def oUpdate (i : Nat) (top : Pt) (x : OX) : Option OX :=
  match x.ol[i]? with
  | some a =>
    if a.e.isOpen then
      match a.orec with
      | some k => some { x with oo := addOutPt k.id k.front top x.oo }
      | none => some x
    else some x
  | none => none

/-! ## events -/

/-- the events of `Model.ROp` — `base (insertOne …) bot` now carries `left_bound->bot`, `base (removeOne i) top` carries `e.top` — plus
`locMinX i pt e3`: an `intersect i` at `pt` with `pt == edge_o->local_min->vertex->pt && !IsOpenEnd(*edge_o->local_min->vertex)`, where `e3` is the position
(before the swap) of `FindEdgeWithMatchingLocMin(edge_o)` -/
inductive OOp
  | ev (op : ROp)
  | locMinX (i : Nat) (pt : Pt) (e3 : Option Nat)
  deriving DecidableEq, Repr, Inhabited

/-- the event of the ring model -/
def OOp.erase : OOp → ROp
  | .ev op => op
  | .locMinX i pt _ => .base (.intersect i) pt

/-- the effect of an event on the open layer; `none` = rejected -/
def openStep (cfg : Cfg) (x : OX) : OOp → Option OX
  | .ev (.base (.insertPair pos pt isOpen dxLeft) bot) => oInsertPair cfg pos pt isOpen dxLeft bot x
  | .ev (.base (.insertOne pos pt dx) bot) => oInsertOne cfg pos pt dx bot x
  | .ev (.base (.intersect i) p) => oIntersect cfg i p none x
  | .locMinX i p e3 => oIntersect cfg i p (some e3) x
  | .ev (.base (.removePair i) top) => oRemovePair i top x
  | .ev (.base (.removeOne i) top) => oRemoveOne i top x
  | .ev (.join _ _) => some x
  | .ev (.split _ _) => some x
  | .ev (.update i top) => oUpdate i top x

structure OState where
  /-- the ring model of closed records (`Model/AelRings.lean`), untouched -/
  r : RState
  /-- the open layer -/
  x : OX
  deriving DecidableEq, Repr, Inhabited

def OState.empty : OState := { r := RState.empty, x := OX.empty }

/-- one event: the ring model's step, paired with the open layer's -/
def stepO (cfg : Cfg) (st : OState) (op : OOp) : Except Err OState :=
  match stepR cfg st.r op.erase with
  | .ok r' =>
    match openStep cfg st.x op with
    | some x' => .ok { r := r', x := x' }
    | none => .error .reject
  | .error e => .error e

def runO (cfg : Cfg) : OState → List OOp → Except Err OState
  | st, [] => .ok st
  | st, op :: ops =>
    match stepO cfg st op with
    | .ok st' => runO cfg st' ops
    | .error e => .error e

/-! ## `BuildPath64(op, reverse, isOpen = true, path)` -/

/-- the `while (op2 != op)` loop: a point equal to the last one emitted is skipped -/
def dedupFrom (last : Pt) : List Pt → List Pt
  | [] => []
  | p :: ps => if p = last then dedupFrom last ps else p :: dedupFrom p ps

def dedup : List Pt → List Pt
  | [] => []
  | p :: ps => p :: dedupFrom p ps

/-- `pts` = the record from `outrec->pts` following `->prev`.  `!op || op->next == op` ⇒ false (no path).  `reverse`: start at `op`, follow `->prev` = the list
as it stands; otherwise start at `op->next` (the back end) and follow `->next` = the list reversed. -/
def buildOpenPath (rev : Bool) (pts : List Pt) : Option (List Pt) :=
  match pts with
  | [] => none
  | [_] => none
  | _ => some (dedup (if rev then pts else pts.reverse))

/-- `BuildPaths64` / `BuildTree64`: the open records in `outrec_list_` order that still have points -/
def openSolution (rev : Bool) (rings : List Ring) : List (List Pt) := rings.filterMap (fun g => buildOpenPath rev g.pts)

/-! ## executable forms of the invariants (the `Prop` forms are in `Lemmas/AelOpenRings.lean`) -/

/-- per edge of the open layer: closed edges carry nothing; an open edge owns a record exactly when it is hot, and then `IsFront(e) = (wind_dx > 0)` -/
def olocalOK (y : SEdge) : Bool :=
  y.join == .none &&
  (if y.e.isOpen then (y.orec.isSome == y.e.hot) && (match y.orec with | some k => k.front == isFrontDx y.e.dx | none => true)
   else y.orec.isNone)

/-- an end is marked free exactly when no edge holds it; a marked end of a record with points is the marked point -/
def marksOK (x : OX) : Bool :=
  x.om.length == x.oo.rings.length &&
  (List.range x.om.length).all (fun k =>
    match x.oo.rings[k]? with
    | some g =>
      g.stat == .gone ||
      [true, false].all (fun f =>
        match markAt x.om k f with
        | none => (recKeys x.ol).contains (k, f)
        | some m => !(recKeys x.ol).contains (k, f) && endPt f g.pts == some m.pt)
    | none => false)

/-- a record is finished when it has points and both ends are free -/
def finished (x : OX) (k : Nat) : Bool :=
  match x.oo.rings[k]?, x.om[k]? with
  | some g, some m => g.stat == .live && m.f.isSome && m.b.isSome
  | _, _ => false

/-- all invariants of the open layer the driver checks after every event -/
def checkOpen (st : OState) : Bool :=
  erase st.x.ol == erase st.r.s.ael && st.x.ol.all olocalOK && checkRecs ⟨st.x.ol, st.x.oo.rings.length⟩ &&
  checkOut ⟨⟨st.x.ol, st.x.oo.rings.length⟩, st.x.oo⟩ && marksOK st.x && !st.x.bad &&
  st.x.oo.segs.all (fun sg => sg.kind == .extend || sg.kind == .meet)

end Clipper.Model
