/-
Model of PolyTree construction in clipper.engine.cpp (property C04):
`GetRealOutRec`, `IsValidOwner`, `SetOwner`, `CheckBounds`, `CheckSplitOwner`, `RecursiveCheckOwners`,
`BuildTree64`, `BuildPaths64` (closed/open selection), `PolyPath::Level/IsHole`, `PolyPath64::AddChild`,
`PolyTreeToPaths64`, `PolyPath64::Area`.

Representation.
* `outrec_list_` is an `Array OutRec`; an `OutRec*` is an index (`Option Nat`, `none` = nullptr).
* `OutRec::pts` is only tested for null here (`hasPts`); `OutRec::splits` is a list of indices (`[]` = nullptr or
  empty vector: every use is `x->splits && CheckSplitOwner(…, x->splits)`, and the loop over an empty vector
  returns false).
* `PolyPath*` is the address of a node in a rose tree: the list of child positions from the root
  (children are only ever appended, so addresses stay valid).

Abstract parameters (DESIGN.md §3): `clean i` = the effect of `CleanCollinear(outrec i)` followed by
`BuildPath64(outrec->pts, reverse_solution_, false, outrec->path)`; `inside i j` = `Path1InsidePath2(i->pts, j->pts)`;
`openPath i` = `BuildPath64(…, isOpen = true, …)` of an open outrec.
Assumption of this model (checked and counted by the harness): `FixSelfIntersects`/`DoSplitOp` does not append
new outrecs while the tree is built, i.e. the table has a fixed size.

Every loop whose termination depends on the shape of the owner/splits graph takes fuel;
`none` = out of fuel or dangling index.  Core Lean only.
-/
import ClipperVerif.Spec.Basic
namespace Clipper.Model.Owner
open Clipper

structure Rect where
  l : Int
  t : Int
  r : Int
  b : Int
  deriving DecidableEq, Repr, Inhabited

/-- `Rect64::IsEmpty` -/
def Rect.isEmpty (a : Rect) : Bool := decide (a.b ≤ a.t) || decide (a.r ≤ a.l)
/-- `Rect64::Contains(const Rect64& rec)` -/
def Rect.contains (a rec : Rect) : Bool :=
  decide (rec.l ≥ a.l) && decide (rec.r ≤ a.r) && decide (rec.t ≥ a.t) && decide (rec.b ≤ a.b)

def i64max : Int := 9223372036854775807
def i64min : Int := -9223372036854775808

/-- `GetBounds(const Path64&)` -/
def getBounds (p : Path) : Rect :=
  p.foldl (fun a q => ⟨if q.x < a.l then q.x else a.l, if q.y < a.t then q.y else a.t,
                        if q.x > a.r then q.x else a.r, if q.y > a.b then q.y else a.b⟩)
    ⟨i64max, i64max, i64min, i64min⟩

structure OutRec where
  owner : Option Nat := none
  splits : List Nat := []
  isOpen : Bool := false
  hasPts : Bool := true
  recursiveSplit : Option Nat := none
  bounds : Rect := ⟨0, 0, 0, 0⟩
  path : Path := []
  /-- address of the outrec's node in the tree -/
  polypath : Option (List Nat) := none
  deriving Repr, Inhabited

abbrev Table := Array OutRec

/-- result of `CleanCollinear` + `BuildPath64` on one outrec -/
inductive CleanRes
  | disposed            -- `DisposeOutPts`: `outrec->pts == nullptr` afterwards
  | invalid             -- ring kept but `BuildPath64` returned false
  | path (p : Path)
  deriving Repr, Inhabited

/-- `GetRealOutRec`: `while (outrec && !outrec->pts) outrec = outrec->owner;` -/
def getRealOutRec (T : Table) : Nat → Option Nat → Option (Option Nat)
  | 0, _ => none
  | _, none => some none
  | f + 1, some i =>
    match T[i]? with
    | none => none
    | some r => if r.hasPts then some (some i) else getRealOutRec T f r.owner

/-- `IsValidOwner(outrec, testOwner)`: `while (testOwner && testOwner != outrec) testOwner = testOwner->owner; return !testOwner;` -/
def isValidOwner (T : Table) : Nat → Nat → Option Nat → Option Bool
  | 0, _, _ => none
  | _, _, none => some true
  | f + 1, i, some t =>
    if t = i then some false
    else match T[t]? with
      | none => none
      | some r => isValidOwner T f i r.owner

/-- first loop of `SetOwner`: `while (new_owner->owner && !new_owner->owner->pts) new_owner->owner = new_owner->owner->owner;` -/
def skipDeadOwners (T : Table) : Nat → Nat → Option Table
  | 0, _ => none
  | f + 1, no =>
    match T[no]? with
    | none => none
    | some r =>
      match r.owner with
      | none => some T
      | some o =>
        match T[o]? with
        | none => none
        | some orc =>
          if orc.hasPts then some T
          else skipDeadOwners (T.modify no (fun x => { x with owner := orc.owner })) f no

/-- `SetOwner(outrec, new_owner)` -/
def setOwner (T : Table) (fuel : Nat) (i no : Nat) : Option Table :=
  match skipDeadOwners T fuel no with
  | none => none
  | some T1 =>
    -- tmp = new_owner; while (tmp && tmp != outrec) tmp = tmp->owner;   ⇒  tmp != null  ⇔  ¬ IsValidOwner
    match isValidOwner T1 fuel i (some no) with
    | none => none
    | some valid =>
      match T1[i]? with
      | none => none
      | some r =>
        let T2 := if valid then T1 else T1.modify no (fun x => { x with owner := r.owner })
        some (T2.modify i (fun x => { x with owner := some no }))

/-- `CheckBounds(outrec)` -/
def checkBounds (clean : Nat → CleanRes) (T : Table) (i : Nat) : Option (Table × Bool) :=
  match T[i]? with
  | none => none
  | some r =>
    if !r.hasPts then some (T, false)
    else if !r.bounds.isEmpty then some (T, true)
    else match clean i with
      | .disposed => some (T.modify i (fun x => { x with hasPts := false }), false)
      | .invalid => some (T, false)
      | .path p => some (T.modify i (fun x => { x with path := p, bounds := getBounds p }), true)

/-- `CheckSplitOwner(outrec, splits)`; the Boolean is the return value.  One unit of fuel per loop
iteration / nested call. -/
def checkSplitOwner (clean : Nat → CleanRes) (inside : Nat → Nat → Bool) :
    Nat → Table → Nat → List Nat → Option (Table × Bool)
  | 0, _, _, _ => none
  | _, T, _, [] => some (T, false)
  | f + 1, T, i, s :: rest =>
    match T[s]? with
    | none => none
    | some sr =>
      -- if (!split->pts && split->splits && CheckSplitOwner(outrec, split->splits)) return true; //#942
      let r1 := if !sr.hasPts && !sr.splits.isEmpty then checkSplitOwner clean inside f T i sr.splits
                else some (T, false)
      match r1 with
      | none => none
      | some (T1, true) => some (T1, true)
      | some (T1, false) =>
        -- split = GetRealOutRec(split);
        match getRealOutRec T1 (T1.size + 1) (some s) with
        | none => none
        | some none => checkSplitOwner clean inside f T1 i rest
        | some (some s') =>
          match T1[s']? with
          | none => none
          | some sr' =>
            -- if (!split || split == outrec || split->recursive_split == outrec) continue;
            if s' = i || sr'.recursiveSplit = some i then checkSplitOwner clean inside f T1 i rest
            else
              -- split->recursive_split = outrec;
              let T2 := T1.modify s' (fun x => { x with recursiveSplit := some i })
              let r2 := if !sr'.splits.isEmpty then checkSplitOwner clean inside f T2 i sr'.splits
                        else some (T2, false)
              match r2 with
              | none => none
              | some (T3, true) => some (T3, true)
              | some (T3, false) =>
                match checkBounds clean T3 s' with
                | none => none
                | some (T4, false) => checkSplitOwner clean inside f T4 i rest
                | some (T4, true) =>
                  match isValidOwner T4 (T4.size + 1) i (some s'), T4[s']?, T4[i]? with
                  | some valid, some sr4, some ir4 =>
                    if valid && sr4.bounds.contains ir4.bounds && inside i s' then
                      -- outrec->owner = split; return true;
                      some (T4.modify i (fun x => { x with owner := some s' }), true)
                    else checkSplitOwner clean inside f T4 i rest
                  | _, _, _ => none

/-- the `while (outrec->owner)` loop of `RecursiveCheckOwners` -/
def ownerLoop (clean : Nat → CleanRes) (inside : Nat → Nat → Bool) : Nat → Table → Nat → Option Table
  | 0, _, _ => none
  | f + 1, T, i =>
    match T[i]? with
    | none => none
    | some r =>
      match r.owner with
      | none => some T
      | some o =>
        match T[o]? with
        | none => none
        | some orc =>
          -- if (outrec->owner->splits && CheckSplitOwner(outrec, outrec->owner->splits)) break;
          let r1 := if !orc.splits.isEmpty then checkSplitOwner clean inside f T i orc.splits
                    else some (T, false)
          match r1 with
          | none => none
          | some (T1, true) => some T1
          | some (T1, false) =>
            -- outrec->owner = outrec->owner->owner;
            let next (T' : Table) : Option Table :=
              match T'[o]? with
              | none => none
              | some orc' => ownerLoop clean inside f (T'.modify i (fun x => { x with owner := orc'.owner })) i
            match T1[o]? with
            | none => none
            | some orc1 =>
              if !orc1.hasPts then next T1
              else match checkBounds clean T1 o with
                | none => none
                | some (T2, false) => next T2
                | some (T2, true) =>
                  match T2[o]?, T2[i]? with
                  | some orc2, some ir2 =>
                    if orc2.bounds.contains ir2.bounds && inside i o then some T2 else next T2
                  | _, _ => none

/-- a node of the PolyTree: `polygon_` and `childs_` -/
inductive Tree where
  | node (path : Path) (kids : List Tree)
  deriving Repr, Inhabited

def Tree.path : Tree → Path | .node p _ => p
def Tree.kids : Tree → List Tree | .node _ ks => ks

/-- `parent->AddChild(path)` where `parent` is the node at address `a`; returns the new tree and the
address of the new child.  `none` = invalid address (null / dangling pointer). -/
def addChild : Tree → List Nat → Path → Option (Tree × List Nat)
  | .node p ks, [], q => some (.node p (ks ++ [.node q []]), [ks.length])
  | .node p ks, k :: a, q =>
    match ks[k]? with
    | none => none
    | some c =>
      match addChild c a q with
      | none => none
      | some (c', a') => some (.node p (ks.set k c'), k :: a')

structure St where
  recs : Table
  tree : Tree := .node [] []
  openPaths : List Path := []
  deriving Repr, Inhabited

/-- `RecursiveCheckOwners(outrec, polypath)`; the root polytree has address `[]`. -/
def recursiveCheckOwners (clean : Nat → CleanRes) (inside : Nat → Nat → Bool) : Nat → St → Nat → Option St
  | 0, _, _ => none
  | f + 1, S, i =>
    match S.recs[i]? with
    | none => none
    | some r =>
      -- if (outrec->polypath || outrec->bounds.IsEmpty()) return;
      if r.polypath.isSome || r.bounds.isEmpty then some S
      else
        match ownerLoop clean inside f S.recs i with
        | none => none
        | some T1 =>
          match T1[i]? with
          | none => none
          | some r1 =>
            match r1.owner with
            | none =>
              -- outrec->polypath = polypath->AddChild(outrec->path);
              match addChild S.tree [] r1.path with
              | none => none
              | some (tr, a) =>
                some { S with recs := T1.modify i (fun x => { x with polypath := some a }), tree := tr }
            | some o =>
              match T1[o]? with
              | none => none
              | some orc =>
                let S1 : St := { S with recs := T1 }
                -- if (!outrec->owner->polypath) RecursiveCheckOwners(outrec->owner, polypath);
                let r2 := if orc.polypath.isNone then recursiveCheckOwners clean inside f S1 o else some S1
                match r2 with
                | none => none
                | some S2 =>
                  -- outrec->polypath = outrec->owner->polypath->AddChild(outrec->path);
                  match S2.recs[o]?, S2.recs[i]? with
                  | some orc2, some r2' =>
                    match orc2.polypath with
                    | none => none                       -- null dereference in the C++
                    | some pa =>
                      match addChild S2.tree pa r2'.path with
                      | none => none
                      | some (tr, a) =>
                        some { S2 with recs := S2.recs.modify i (fun x => { x with polypath := some a }), tree := tr }
                  | _, _ => none

/-- body of the `for` loop of `BuildTree64` for index `i` -/
def buildTreeStep (clean : Nat → CleanRes) (inside : Nat → Nat → Bool) (openPath : Nat → Option Path)
    (fuel : Nat) (S : St) (i : Nat) : Option St :=
  match S.recs[i]? with
  | none => none
  | some r =>
    if !r.hasPts then some S
    else if r.isOpen then
      match openPath i with
      | some p => some { S with openPaths := S.openPaths ++ [p] }
      | none => some S
    else
      match checkBounds clean S.recs i with
      | none => none
      | some (T1, false) => some { S with recs := T1 }
      | some (T1, true) => recursiveCheckOwners clean inside fuel { S with recs := T1 } i

/-- `BuildTree64`: `for (i = 0; i < outrec_list_.size(); ++i)` -/
def buildTree (clean : Nat → CleanRes) (inside : Nat → Nat → Bool) (openPath : Nat → Option Path)
    (fuel : Nat) (T : Table) : Option St :=
  (List.range T.size).foldlM (fun S i => buildTreeStep clean inside openPath fuel S i) { recs := T }

/-- `BuildPaths64`: closed and open solution paths in outrec order -/
def buildPaths (clean : Nat → CleanRes) (openPath : Nat → Option Path) (T : Table) : List Path × List Path :=
  (List.range T.size).foldl (fun (acc : List Path × List Path) i =>
    match T[i]? with
    | none => acc
    | some r =>
      if !r.hasPts then acc
      else if r.isOpen then
        match openPath i with
        | some p => (acc.1, acc.2 ++ [p])
        | none => acc
      else match clean i with
        | .path p => (acc.1 ++ [p], acc.2)
        | _ => acc) ([], [])

mutual
/-- `PolyPathToPaths64(polypath, paths)` -/
def Tree.toPaths : Tree → List Path
  | .node p ks => p :: toPathsL ks
def toPathsL : List Tree → List Path
  | [] => []
  | t :: ts => t.toPaths ++ toPathsL ts
end

/-- `PolyTreeToPaths64(polytree)`: the root's own (empty) polygon is not emitted -/
def polyTreeToPaths (root : Tree) : List Path := toPathsL root.kids

mutual
/-- `PolyPath64::Area()` in units of one half (exact: twice the shoelace area) -/
def Tree.area2 : Tree → Int
  | .node p ks => shoelace2 p + area2L ks
def area2L : List Tree → Int
  | [] => 0
  | t :: ts => t.area2 + area2L ts
end

/-- the node at an address -/
def Tree.at? : Tree → List Nat → Option Tree
  | t, [] => some t
  | .node _ ks, k :: a => match ks[k]? with
    | none => none
    | some c => c.at? a

/-- `PolyPath::Level()` of the node at address `a`: the number of `parent_` links to the root -/
def level (a : List Nat) : Nat := a.length
/-- `PolyPath::IsHole()`: `lvl && !(lvl & 1)` -/
def isHole (a : List Nat) : Bool := level a != 0 && level a % 2 == 0
/-- `PolyPath::Parent()` -/
def parentAddr (a : List Nat) : Option (List Nat) := if a = [] then none else some a.dropLast

/-- all (address, path) pairs of proper descendants, in `PolyTreeToPaths64` order -/
def flatten : Nat → Tree → List Nat → List (List Nat × Path)
  | 0, _, _ => []
  | f + 1, .node _ ks, a =>
    (ks.zipIdx).flatMap (fun (c, k) => (a ++ [k], c.path) :: flatten f c (a ++ [k]))

end Clipper.Model.Owner
