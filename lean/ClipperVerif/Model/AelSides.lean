/-
Side bookkeeping of the Vatti sweep, layered on the AEL model of `Model/Ael.lean`.

What is added: for every edge of the AEL its `join_with` flag and, for closed edges, its output record
(`outrec`, as the record's index) and whether the edge is the record's *front* edge (`IsFront(e)`), together with
the code that reads and writes them:

  `GetPrevHotEdge`, `OutrecIsAscending`, `SetSides` inside `AddLocalMinPoly` (closed branch),
  `AddLocalMaxPoly` (the `IsFront(e1) == IsFront(e2)` test that sets `succeeded_ = false`, `UncoupleOutRec`,
  the choice of the surviving record), `JoinOutrecPaths` (who inherits which edge), `SwapOutrecs`,
  the hot/hot, hot/cold and cold/cold cases of `IntersectEdges`, `Split`, `CheckJoinLeft/Right`, and the
  `AddLocalMaxPoly` calls of `DoMaxima` / `DoHorizontal`.

The representation is edge-centric: an edge carries `some ⟨id, front⟩` where the C++ has
`e.outrec == outrec_list_[id]` and `front = (outrec->front_edge == &e)`.  This is the C++ data structure exactly as
long as the pointers are consistent (an edge with an outrec is that record's `front_edge` or `back_edge`, and these two
point back): the trace sink `harness/aelsides.h` checks this on the real engine at every event.  Output records of open
paths are not tracked (open edges carry `none`); `id` counts closed records only.

The winding counts and the logical hot flag are computed by the unchanged functions of `Model/Ael.lean` on the embedded
`Edge`, so that erasing the new fields turns every step of this model into the corresponding step of the old one
(`Props/C11Sides.lean`, `erase_step`).

A step returns `Except Err`: `reject` = the event does not fit the state (as `none` in `Model/Ael.lean`),
`fault f` = the C++ would have misbehaved:
  `sidesEqual`   `AddLocalMaxPoly`: `IsFront(e1) == IsFront(e2)` for closed edges  ⇒ `succeeded_ = false`, `Execute` returns false;
  `nullDeref`    `IsFront` / `Split` would dereference a null `outrec` / neighbour (e.g. one edge of a maxima pair hot, the other cold);
  `joinSameSide` `CheckJoinLeft/Right` call `JoinOutrecPaths` on two front or two back edges (which silently corrupts the records).

Core Lean only (the driver executable links this file).
-/
import ClipperVerif.Model.Ael
namespace Clipper.Model

/-- `enum class JoinWith { NoJoin, Left, Right }` -/
inductive Join
  | none | left | right
  deriving DecidableEq, Repr, Inhabited

/-- the output record of a hot closed edge: `e.outrec->idx` (rank among the closed records) and `IsFront(e)` -/
structure Rec where
  id : Nat
  front : Bool
  deriving DecidableEq, Repr, Inhabited

/-- an edge of the AEL with its side bookkeeping -/
structure SEdge where
  /-- the fields of `Model/Ael.lean`; `e.hot` is the logical hotness `outrec != nullptr || join_with != NoJoin` -/
  e : Edge
  /-- `join_with` -/
  join : Join
  /-- `outrec` (closed edges only; `none` = `nullptr`) -/
  orec : Option Rec
  deriving DecidableEq, Repr, Inhabited

structure SState where
  /-- the AEL from left to right -/
  ael : List SEdge
  /-- number of closed output records created so far (`outrec_list_.size()` without the open ones) -/
  next : Nat
  deriving DecidableEq, Repr, Inhabited

inductive Fault
  | sidesEqual | nullDeref | joinSameSide
  deriving DecidableEq, Repr, Inhabited

inductive Err
  | reject
  | fault (f : Fault)
  deriving DecidableEq, Repr, Inhabited

/-- forget the side bookkeeping -/
def erase (l : List SEdge) : Ael := l.map (·.e)

/-- `!IsOpen(e) && IsHotEdge(e)`, and then `IsFront(e)`: what `GetPrevHotEdge` looks for, and what `OutrecIsAscending` returns -/
def tracked (x : SEdge) : Option Bool := if x.e.isOpen then none else x.orec.map (·.front)

/-- `GetPrevHotEdge(e)` followed by `OutrecIsAscending`: the argument is the AEL to the left of `e`, *nearest edge first* -/
def prevHot : List SEdge → Option Bool
  | [] => none
  | x :: xs =>
    match tracked x with
    | some f => some f
    | none => prevHot xs

/-- closed branch of `AddLocalMinPoly(e1, e2, pt, is_new)`: is `e1` the front edge of the new record?
`prev = some asc`: a previous hot edge exists and `OutrecIsAscending` returned `asc`;
`asc == is_new` ⇒ `SetSides(outrec, e2, e1)`, else `SetSides(outrec, e1, e2)`; without one `is_new` ⇒ `SetSides(outrec, e1, e2)`. -/
def minFront1 (prev : Option Bool) (isNew : Bool) : Bool :=
  match prev with
  | some asc => if asc = isNew then false else true
  | none => isNew

/-- the two `Rec`s written by `AddLocalMinPoly(e1, e2, pt, is_new)` when `pre` is the AEL to the left of `e1` and `n` the new record's index -/
def minRecs (pre : List SEdge) (isNew : Bool) (n : Nat) : Rec × Rec :=
  let f1 := minFront1 (prevHot pre.reverse) isNew
  (⟨n, f1⟩, ⟨n, !f1⟩)

/-- `AddLocalMinPoly(e1, e2, pt, is_new)` for the closed edges at positions `i`, `i+1` -/
def addLocalMin (i : Nat) (isNew : Bool) (s : SState) : SState :=
  match s.ael.drop i with
  | a :: b :: rest =>
    let r := minRecs (s.ael.take i) isNew s.next
    { ael := s.ael.take i ++ { a with orec := some r.1 } :: { b with orec := some r.2 } :: rest, next := s.next + 1 }
  | _ => s

/-- what `JoinOutrecPaths(e1, e2)` does to a third edge: the edge of record `B = e2.outrec` on the side `f = IsFront(e1)`
becomes the edge of `A = e1.outrec` on that side -/
def relabelFn (B : Nat) (f : Bool) (A : Nat) (x : SEdge) : SEdge :=
  match x.orec with
  | some r => if r.id = B ∧ r.front = f then { x with orec := some ⟨A, f⟩ } else x
  | none => x

/-- `AddLocalMaxPoly(e1, e2, pt)` for closed edges with records `ra`, `rb`: the fault, or the effect on the *other* edges of the
AEL (`e1`, `e2` themselves end with `outrec = nullptr`: `UncoupleOutRec` / the last two lines of `JoinOutrecPaths`).
The record with the smaller index survives. -/
def addLocalMaxFn (ra rb : Rec) : Except Fault (SEdge → SEdge) :=
  if ra.front = rb.front then .error .sidesEqual
  else if ra.id = rb.id then .ok id
  else if ra.id < rb.id then .ok (relabelFn rb.id ra.front ra.id)
  else .ok (relabelFn ra.id rb.front rb.id)

/-- `SwapOutrecs(e1, e2)`: new `(e1.outrec, e2.outrec)` with their sides -/
def swapOutrecs (r1 r2 : Option Rec) : Option Rec × Option Rec :=
  match r1, r2 with
  | some x, some y =>
    if x.id = y.id then (some { x with front := !x.front }, some { y with front := !y.front }) else (r2, r1)
  | _, _ => (r2, r1)

/-! ## `Split` -/

/-- `Split` once the joined pair is known to sit at positions `i`, `i+1`: both `join_with` cleared, `AddLocalMinPoly(…, true)` -/
def splitPair (i : Nat) (s : SState) : Except Err SState :=
  match s.ael.drop i with
  | a :: b :: rest =>
    .ok (addLocalMin i true
      { s with ael := s.ael.take i ++ { a with join := .none } :: { b with join := .none } :: rest })
  | _ => .error (.fault .nullDeref)

/-- `Split(e, pt)` for the edge at position `i` with `IsJoined(e)` (`Right`: partner is `next_in_ael`, otherwise `prev_in_ael`) -/
def splitJoined (i : Nat) (j : Join) (s : SState) : Except Err SState :=
  match j with
  | .right => splitPair i s
  | _ => if i = 0 then .error (.fault .nullDeref) else splitPair (i - 1) s

/-- `if (IsJoined(e)) Split(e, pt);` -/
def splitAt (i : Nat) (s : SState) : Except Err SState :=
  match s.ael[i]? with
  | some x => if x.join = .none then .ok s else splitJoined i x.join s
  | none => .error .reject

/-! ## `IntersectEdges`, closed branch -/

/-- which of the five continuations of "NOW PROCESS THE INTERSECTION" runs -/
inductive Act
  | nothing      -- one of the `return`s
  | localMax     -- `AddLocalMaxPoly`
  | maxThenMin   -- `AddLocalMaxPoly; AddLocalMinPoly`
  | swap         -- `AddOutPt …; SwapOutrecs`
  | localMin     -- `AddLocalMinPoly(e1, e2, pt, false)`
  deriving DecidableEq, Repr, Inhabited

/-- the decision as a function of Booleans (compare `decideHotB`); `front1 = IsFront(e1)`, `sameRec = (e1.outrec == e2.outrec)` -/
def decideActB (hot1 hot2 i1 i2 q1 q2 diffType notXor go front1 sameRec : Bool) : Act :=
  if (!hot1 && !i1) || (!hot2 && !i2) then .nothing
  else if hot1 && hot2 then
    if !i1 || !i2 || (diffType && notXor) then .localMax
    else if front1 || sameRec then .maxThenMin
    else .swap
  else if hot1 then .swap
  else if hot2 then .swap
  else if diffType then .localMin
  else if q1 && q2 then (if go then .localMin else .nothing)
  else .nothing

def recFront : Option Rec → Bool
  | some r => r.front
  | none => false

def sameRec : Option Rec → Option Rec → Bool
  | some x, some y => x.id == y.id
  | _, _ => false

/-- the decision read from the edges *after* the count update; `IsHotEdge(e)` is `outrec != nullptr` -/
def decideAct (cfg : Cfg) (e1 e2 : Edge) (r1 r2 : Option Rec) : Act :=
  decideActB r1.isSome r2.isSome (in01 (oldWc cfg.fr e1.wc)) (in01 (oldWc cfg.fr e2.wc))
    (oldWc cfg.fr e1.wc == 1) (oldWc cfg.fr e2.wc == 1) (e1.pt != e2.pt) (cfg.ct != .xor)
    (goSame cfg.ct e1.pt (oldWc cfg.fr e1.wc2) (oldWc cfg.fr e2.wc2)) (recFront r1) (sameRec r1 r2)

/-- closed branch after the two `Split`s: `a` at position `i` (= `e1`), `b` at `i+1` (= `e2`), `pre` to their left, `rest` to their
right; ends with `SwapPositionsInAEL` -/
def intersectCore (cfg : Cfg) (pre : List SEdge) (a b : SEdge) (rest : List SEdge) (next : Nat) : Except Err SState :=
  let w := updateWinds cfg.fr a.e b.e
  let p := intersectPair cfg a.e b.e
  match decideAct cfg w.1 w.2 a.orec b.orec with
  | .nothing =>
    .ok { ael := pre ++ { b with e := p.2 } :: { a with e := p.1 } :: rest, next := next }
  | .swap =>
    let r := swapOutrecs a.orec b.orec
    .ok { ael := pre ++ { b with e := p.2, orec := r.2 } :: { a with e := p.1, orec := r.1 } :: rest, next := next }
  | .localMin =>
    let r := minRecs pre false next
    .ok { ael := pre ++ { b with e := p.2, orec := some r.2 } :: { a with e := p.1, orec := some r.1 } :: rest, next := next + 1 }
  | .localMax =>
    match a.orec, b.orec with
    | some ra, some rb =>
      match addLocalMaxFn ra rb with
      | .ok g => .ok { ael := pre.map g ++ { b with e := p.2, orec := none } :: { a with e := p.1, orec := none } :: rest.map g, next := next }
      | .error f => .error (.fault f)
    | _, _ => .error (.fault .nullDeref)
  | .maxThenMin =>
    match a.orec, b.orec with
    | some ra, some rb =>
      match addLocalMaxFn ra rb with
      | .ok g =>
        let r := minRecs (pre.map g) false next
        .ok { ael := pre.map g ++ { b with e := p.2, orec := some r.2 } :: { a with e := p.1, orec := some r.1 } :: rest.map g, next := next + 1 }
      | .error f => .error (.fault f)
    | _, _ => .error (.fault .nullDeref)

/-- `IntersectEdges(e1, e2, pt); SwapPositionsInAEL(e1, e2);` with `e1` at position `i`, `e2` at `i+1`.
Open branch: `if (IsJoined(*edge_c)) Split(*edge_c, pt)`, then the toggling of `Model.intersectOpen` (open records are not tracked).
Closed branch: `if (IsJoined(e1)) Split(e1, pt); if (IsJoined(e2)) Split(e2, pt);` then `intersectCore`. -/
def intersectS (cfg : Cfg) (i : Nat) (s : SState) : Except Err SState :=
  match s.ael.drop i with
  | a0 :: b0 :: _ =>
    if a0.e.isOpen || b0.e.isOpen then
      (if a0.e.isOpen && b0.e.isOpen then .ok s
       else if a0.e.isOpen then splitAt (i + 1) s else splitAt i s) >>= fun s1 =>
      match s1.ael.drop i with
      | a :: b :: rest =>
        let p := intersectPair cfg a.e b.e
        .ok { s1 with ael := s1.ael.take i ++ { b with e := p.2 } :: { a with e := p.1 } :: rest }
      | _ => .error .reject
    else
      splitAt i s >>= fun s1 =>
      splitAt (i + 1) s1 >>= fun s2 =>
      match s2.ael.drop i with
      | a :: b :: rest => intersectCore cfg (s2.ael.take i) a b rest s2.next
      | _ => .error .reject
  | _ => .error .reject

/-! ## the other events -/

/-- a local minimum must not be inserted between the two edges of a joined pair (they are collinear and coincide): the position is
rejected when the edge to its left is joined to the right.  [Geometric premise, checked on every trace of the real engine.] -/
def separatesJoin (pos : Nat) (l : List SEdge) : Bool :=
  match (l.take pos).getLast? with
  | some x => x.join == .right
  | none => false

/-- `InsertLocalMinimaIntoAEL`, local minimum with both bounds (see `Model.insertPair`); `AddLocalMinPoly(left, right, bot, true)` when
contributing.  (`CheckJoinLeft` on the new left bound is the separate event `join`.) -/
def insertPairS (cfg : Cfg) (pos : Nat) (pt : PathType) (isOpen : Bool) (dxLeft : Int) (s : SState) : Except Err SState :=
  if pos ≤ s.ael.length ∧ (dxLeft = 1 ∨ dxLeft = -1) ∧ separatesJoin pos s.ael = false then
    let r := newLeft cfg (erase (s.ael.take pos)) pt isOpen dxLeft
    let lb := r.1
    let rb : Edge := { pt := pt, isOpen := isOpen, dx := -dxLeft, wc := lb.wc, wc2 := lb.wc2, hot := r.2 }
    let s1 : SState := { s with ael := s.ael.take pos ++ ⟨{ lb with hot := r.2 }, .none, none⟩ :: ⟨rb, .none, none⟩ :: s.ael.drop pos }
    .ok (if r.2 && !isOpen then addLocalMin pos true s1 else s1)
  else .error .reject

/-- open path end, single bound (`StartOpenPath`: open records are not tracked) -/
def insertOneS (cfg : Cfg) (pos : Nat) (pt : PathType) (dx : Int) (s : SState) : Except Err SState :=
  if pos ≤ s.ael.length ∧ (dx = 1 ∨ dx = -1) ∧ separatesJoin pos s.ael = false then
    let r := newLeft cfg (erase (s.ael.take pos)) pt true dx
    .ok { s with ael := s.ael.take pos ++ ⟨{ r.1 with hot := r.2 }, .none, none⟩ :: s.ael.drop pos }
  else .error .reject

/-- end of `DoMaxima` / `DoHorizontal`: the maxima pair at `i`, `i+1` leaves the AEL.
`DoMaxima`: `if (IsJoined(e)) Split(e); if (IsJoined(*max_pair)) Split(*max_pair); … if (IsHotEdge(e)) AddLocalMaxPoly(e, *max_pair, e.top);`
— with `e` hot and `max_pair` cold `IsFront(*max_pair)` dereferences a null `outrec`; with `e` cold and `max_pair` hot a hot edge is deleted
under its record: both are reported as `nullDeref`.  `DoHorizontal` tests `IsHotEdge(horz)` instead and splits only the other edge; the
two agree except in states reported as `nullDeref` here. -/
def removePairS (i : Nat) (s : SState) : Except Err SState :=
  match s.ael.drop i with
  | a0 :: b0 :: rest0 =>
    if a0.e.pt = b0.e.pt ∧ a0.e.isOpen = b0.e.isOpen ∧ a0.e.dx + b0.e.dx = 0 then
      if a0.e.isOpen then .ok { s with ael := s.ael.take i ++ rest0 }
      else
        splitAt i s >>= fun s1 =>
        splitAt (i + 1) s1 >>= fun s2 =>
        match s2.ael.drop i with
        | a :: b :: rest =>
          match a.orec, b.orec with
          | none, none => .ok { s2 with ael := s2.ael.take i ++ rest }
          | some ra, some rb =>
            match addLocalMaxFn ra rb with
            | .ok g => .ok { s2 with ael := (s2.ael.take i).map g ++ rest.map g }
            | .error f => .error (.fault f)
          | _, _ => .error (.fault .nullDeref)
        | _ => .error .reject
    else .error .reject
  | _ => .error .reject

/-- open path end leaves the AEL -/
def removeOneS (i : Nat) (s : SState) : Except Err SState :=
  match s.ael.drop i with
  | x :: rest => if x.e.isOpen then .ok { s with ael := s.ael.take i ++ rest } else .error .reject
  | _ => .error .reject

/-- `CheckJoinLeft(e)` (`prev` at `i`, `e` at `i+1`) / `CheckJoinRight(e)` (`e` at `i`, `next` at `i+1`) once the geometric tests have passed:
both edges closed and `IsHotEdge`; same record ⇒ `AddLocalMaxPoly(left, right)`, otherwise `JoinOutrecPaths(lower idx, higher idx)` *without*
a side test; then `join_with = Right / Left`. -/
def joinS (i : Nat) (s : SState) : Except Err SState :=
  match s.ael.drop i with
  | a :: b :: rest =>
    if a.e.isOpen || b.e.isOpen then .error .reject
    else
      match a.orec, b.orec with
      | some ra, some rb =>
        if ra.id ≠ rb.id ∧ ra.front = rb.front then .error (.fault .joinSameSide)
        else
          match addLocalMaxFn ra rb with
          | .ok g =>
            .ok { s with ael := (s.ael.take i).map g ++ { a with join := .right, orec := none } :: { b with join := .left, orec := none } :: rest.map g }
          | .error f => .error (.fault f)
      | _, _ => .error .reject
  | _ => .error .reject

/-- `Split(e, pt)` entered for the edge at position `i` (every call site tests `IsJoined(e)` first) -/
def splitS (i : Nat) (s : SState) : Except Err SState :=
  match s.ael[i]? with
  | some x => if x.join = .none then .error .reject else splitJoined i x.join s
  | none => .error .reject

/-- the events of `Model.Op` plus
* `join i` — emitted at the end of `CheckJoinLeft` (`i` = position of `prev`) and `CheckJoinRight` (`i` = position of `e`);
* `split i` — emitted at the entry of `Split(e, pt)`, `i` = position of `e`. -/
inductive SOp
  | base (op : Op)
  | join (i : Nat)
  | split (i : Nat)
  deriving DecidableEq, Repr, Inhabited

def stepS (cfg : Cfg) (s : SState) : SOp → Except Err SState
  | .base (.insertPair pos pt isOpen dxLeft) => insertPairS cfg pos pt isOpen dxLeft s
  | .base (.insertOne pos pt dx) => insertOneS cfg pos pt dx s
  | .base (.intersect i) => intersectS cfg i s
  | .base (.removePair i) => removePairS i s
  | .base (.removeOne i) => removeOneS i s
  | .join i => joinS i s
  | .split i => splitS i s

def runS (cfg : Cfg) : SState → List SOp → Except Err SState
  | s, [] => .ok s
  | s, op :: ops =>
    match stepS cfg s op with
    | .ok s' => runS cfg s' ops
    | .error e => .error e

def SState.empty : SState := { ael := [], next := 0 }

/-! ## The invariant (executable form; the `Prop` form `SInv` is in `Lemmas/AelSides.lean`, `checkSInv_iff` in `Props/C11Sides.lean`) -/

/-- per edge: a closed edge is (logically) hot exactly when it owns a record or is joined, never both; open edges carry neither -/
def localOK (x : SEdge) : Bool :=
  if x.e.isOpen then x.orec.isNone && x.join == .none
  else (x.e.hot == (x.orec.isSome || x.join != .none)) && (x.orec.isNone || x.join == .none)

/-- joined edges come as adjacent (`right`, `left`) pairs: automaton over the list, state = "the previous edge was `right`" -/
def joinOKFrom : Bool → List SEdge → Bool
  | p, [] => !p
  | p, x :: xs =>
    if p then x.join == .left && joinOKFrom false xs
    else
      match x.join with
      | .none => joinOKFrom false xs
      | .right => joinOKFrom true xs
      | .left => false

/-- **alternation**: reading the closed edges that own a record from left to right, `IsFront` is `b, !b, b, …` -/
def altFrom : Bool → List SEdge → Bool
  | _, [] => true
  | b, x :: xs =>
    match tracked x with
    | some f => f == b && altFrom (!b) xs
    | none => altFrom b xs

/-- the side invariant: the C01 invariant on the erased list, `localOK` everywhere, joined pairs adjacent, sides alternate starting with *front* -/
def checkSInv (cfg : Cfg) (s : SState) : Bool :=
  checkInv cfg (erase s.ael) && s.ael.all localOK && joinOKFrom false s.ael && altFrom true s.ael

/-- faithfulness of the edge-centric representation: record ids are below `next`, and no two edges claim the same side of the same record -/
def recKeys (l : List SEdge) : List (Nat × Bool) := l.filterMap (fun x => x.orec.map (fun r => (r.id, r.front)))

def checkRecs (s : SState) : Bool :=
  (recKeys s.ael).all (fun k => k.1 < s.next) && (recKeys s.ael).Nodup

end Clipper.Model
