/-
HORIZONTAL EDGES in the sweep (property C01): executable model of `ClipperBase::DoHorizontal` and of the scanline-level loop
`while (PopHorz(e)) DoHorizontal(*e);` that `ExecuteInternal` runs after `InsertLocalMinimaIntoAEL(y)` and after `DoTopOfScanbeam(y)`
(clipper.engine.cpp).  The scanbeam model `Model/SweepOrder.lean` excludes horizontal edges (`AllUp`); this file models what the engine
does with them, at the level of the ORDER of the active edge list (as `Model/SweepOrder`), and derives the bookkeeping events of
`Model/Ael.lean` (`intersect` at an index, `removePair`) so that `Model.run` can consume them.  Closed paths only.

```
void ClipperBase::DoHorizontal(Active& horz) {
  Point64 pt;  bool horzIsOpen = IsOpen(horz);  int64_t y = horz.bot.y;
  Vertex* vertex_max = horzIsOpen ? GetCurrYMaximaVertex_Open(horz) : GetCurrYMaximaVertex(horz);          // currYMaximaVertex
  int64_t horz_left, horz_right;
  bool is_left_to_right = ResetHorzDirection(horz, vertex_max, horz_left, horz_right);                      // Gen.ResetHorzDirection
  if (IsHotEdge(horz)) { ... AddOutPt, AddTrialHorzJoin: output only ... }
  while (true) {                                                                                            // outer / segStep (one SEGMENT per turn)
    Active* e = is_left_to_right ? horz.next_in_ael : horz.prev_in_ael;
    while (e) {                                                                                             // walk
      if (e->vertex_top == vertex_max) {                                                                    //   Stop.maxPair
        ... output only (AddLocalMaxPoly; `while (horz.vertex_top != vertex_max) UpdateEdgeIntoAEL(&horz)` touches `horz` only) ...
        DeleteFromAEL(*e); DeleteFromAEL(horz); return; }                                                   //   Ev.removePair
      if (vertex_max != horz.vertex_top || IsOpenEnd(horz)) {                                               //   !seg.atMax
        if ((is_left_to_right && e->curr_x > horz_right) || (!is_left_to_right && e->curr_x < horz_left)) break;          // stopHere, 1st/2nd
        if (e->curr_x == horz.top.x && !IsHorizontal(*e)) {                                                               // stopHere, 3rd
          pt = NextVertex(horz)->pt;
          if (is_left_to_right) { ... open paths ... else if (TopX(*e, pt.y) >= pt.x) break; }
          else                  { ... open paths ... else if (TopX(*e, pt.y) <= pt.x) break; } } }
      pt = Point64(e->curr_x, horz.bot.y);
      if (is_left_to_right) { IntersectEdges(horz, *e, pt); SwapPositionsInAEL(horz, *e); CheckJoinLeft(*e, pt);          // Ev.isect
                              horz.curr_x = e->curr_x; e = horz.next_in_ael; }
      else                  { IntersectEdges(*e, horz, pt); SwapPositionsInAEL(*e, horz); CheckJoinRight(*e, pt);
                              horz.curr_x = e->curr_x; e = horz.prev_in_ael; }
      ... AddTrialHorzJoin: output only ... }
    if (horzIsOpen && IsOpenEnd(horz)) { ... open paths ... }
    else if (NextVertex(horz)->pt.y != horz.top.y) break;
    if (IsHotEdge(horz)) AddOutPt(horz, horz.top);
    UpdateEdgeIntoAEL(&horz);                                                                               // updateEdge (+ TrimHorz)
    is_left_to_right = ResetHorzDirection(horz, vertex_max, horz_left, horz_right); }
  if (IsHotEdge(horz)) { ... output only ... }
  UpdateEdgeIntoAEL(&horz); }                                                                               // updateEdge (not horizontal)
```

State: the AEL as a list of `HEdge`, left to right.  An `HEdge` is what `DoHorizontal` reads of an `Active`: its identity (the `Active`
object: it survives `UpdateEdgeIntoAEL`), `bot`, `top`, `curr_x`, the identity of `vertex_top` (`e->vertex_top == vertex_max` is a
pointer comparison), the `LocalMax` flag of `vertex_top`, and the vertices that FOLLOW `vertex_top` along the bound (`NextVertex`
follows `next` or `prev` according to `wind_dx`) with their `LocalMax` flags — read for the horizontal being processed only
(`GetCurrYMaximaVertex`, `NextVertex(horz)`, `UpdateEdgeIntoAEL`, `TrimHorz`).  The C++ walks a cyclic ring; the model walks the finite
list and reports `fault` when it needs a vertex beyond it (the harness supplies one full turn of the ring).

`TopX` is a parameter `topx` (as `cx` in `Model/SweepOrder`): the driver instantiates it with the C++ expression evaluated in `Float`
(bit-exact), the kernel-checked examples with the exact x rounded half to even; the theorems hold for every `topx`.
The second half of the file states the hypotheses of the theorems (`Props/C01Horz.lean`) as decidable predicates: `CallOK`, `CallGP`,
`PhaseOK`.  The whole sweep with horizontal edges, replayed from the input paths alone, is `Model/SweepHorzReplay.lean`.
`PreserveCollinear` is the parameter `pc` (it only reaches `TrimHorz`, reused from `Model/TrimHorz.lean`).
`ResetHorzDirection` and `IsHorizontal` are the definitions REGENERATED from the source (`Generated/Engine.lean`).

Not modelled (no influence on the order of the AEL or on the modelled bookkeeping fields): output (`AddOutPt`, `AddLocalMaxPoly`,
`AddTrialHorzJoin`), joins (`CheckJoinLeft/Right`, `Split`: `hot` of `Model/Ael` is the logical hotness), open paths.
Core Lean only (linked into the driver).
-/
import ClipperVerif.Model.SweepOrder
import ClipperVerif.Model.TrimHorz
import ClipperVerif.Model.Ael
import ClipperVerif.Generated.Engine
namespace Clipper.Model.SweepHorz
open Clipper Clipper.Model.SweepOrder

/-- a vertex of the input ring: identity, point, `LocalMax` flag -/
structure HV where
  id : Nat
  pt : Pt
  isMax : Bool
  deriving DecidableEq, Repr, Inhabited

/-- what `DoHorizontal` reads of an `Active` (closed path) -/
structure HEdge where
  /-- the `Active` object -/
  id : Nat
  bot : Pt
  top : Pt
  /-- `curr_x` -/
  currX : Int
  /-- identity of `vertex_top` -/
  vtop : Nat
  /-- `IsMaxima(*vertex_top)` -/
  topIsMax : Bool
  /-- `NextVertex(e)`, `NextVertex` of that, … : the vertices after `vertex_top` in the direction of the bound -/
  rest : List HV
  deriving DecidableEq, Repr, Inhabited

/-- C++ `IsHorizontal(e)` (regenerated) -/
def HEdge.isHorz (e : HEdge) : Bool := Gen.IsHorizontal e.bot.y e.top.y

/-- the sweep edge of `Model/SweepOrder` (identity, `bot`, `top`) -/
def HEdge.toS (e : HEdge) : SEdge := ⟨e.id, e.bot, e.top⟩

/-! ## `GetCurrYMaximaVertex` -/

/-- `while (result->next->pt.y == result->pt.y) result = result->next;` — `cur` = (identity, `LocalMax` flag) of `result` -/
def maxScan (y : Int) : Nat × Bool → List HV → Nat × Bool
  | cur, [] => cur
  | cur, v :: rest => if v.pt.y = y then maxScan y (v.id, v.isMax) rest else cur

/-- C++ `GetCurrYMaximaVertex(e)`: the last vertex of the horizontal run that starts at `vertex_top`, if it is a local maximum -/
def currYMaximaVertex (e : HEdge) : Option Nat :=
  let r := maxScan e.top.y (e.vtop, e.topIsMax) e.rest
  if r.2 then some r.1 else none

/-! ## `TrimHorz` and `UpdateEdgeIntoAEL` -/

def HV.toV (v : HV) : TrimHorz.V := ⟨v.pt.x, v.pt.y, v.isMax⟩

/-- C++ `TrimHorz(e, preserveCollinear)` on an `HEdge`: `Model.TrimHorz.trimHorz` says how far `vertex_top` advances and what `top` becomes -/
def trim (pc : Bool) (e : HEdge) : HEdge :=
  let o := TrimHorz.trimHorz pc e.bot.x e.top.x e.top.y (e.rest.map HV.toV)
  match o.adv with
  | 0 => e
  | k + 1 =>
    match e.rest[k]? with
    | some v => { e with top := ⟨o.topX, o.topY⟩, vtop := v.id, topIsMax := v.isMax, rest := e.rest.drop (k + 1) }
    | none => e

/-- C++ `UpdateEdgeIntoAEL(e)` (closed path; `Split`, `InsertScanline`, `CheckJoinLeft/Right` touch nothing that is modelled):
`bot = top; vertex_top = NextVertex(e); top = vertex_top->pt; curr_x = bot.x; if (IsHorizontal(e)) TrimHorz(e, preserve_collinear_);`.
`none` = no next vertex in the supplied list. -/
def updateEdge (pc : Bool) (e : HEdge) : Option HEdge :=
  match e.rest with
  | [] => none
  | v :: rest =>
    let e1 : HEdge := { e with bot := e.top, top := v.pt, vtop := v.id, topIsMax := v.isMax, currX := e.top.x, rest := rest }
    some (if e1.isHorz then trim pc e1 else e1)

/-! ## the inner loop `while (e)`: the walk over the AEL neighbours -/

/-- what the inner loop reads of `horz` (all of it constant during one walk; `horz.curr_x` is written, never read) -/
structure Seg where
  /-- `is_left_to_right` -/
  l2r : Bool
  /-- `horz_left` -/
  hl : Int
  /-- `horz_right` -/
  hr : Int
  /-- `horz.top.x` -/
  topX : Int
  /-- `vertex_max == horz.vertex_top`: the horizontal ends in the local maximum — no break condition is tested -/
  atMax : Bool
  /-- `vertex_max` -/
  vmax : Option Nat
  /-- `NextVertex(horz)->pt` -/
  nextPt : Pt
  deriving Repr, Inhabited

/-- the three `break` conditions (tested only when `!atMax`) -/
def stopHere (topx : HEdge → Int → Int) (s : Seg) (e : HEdge) : Bool :=
  (s.l2r && decide (e.currX > s.hr)) || (!s.l2r && decide (e.currX < s.hl)) ||
  (decide (e.currX = s.topX) && !e.isHorz &&
    (if s.l2r then decide (topx e s.nextPt.y ≥ s.nextPt.x) else decide (topx e s.nextPt.y ≤ s.nextPt.x)))

/-- how the inner loop ended -/
inductive Stop
  /-- `e == nullptr` -/
  | endOfAel
  /-- `e->vertex_top == vertex_max` -/
  | maxPair
  /-- one of the `break`s -/
  | brk
  deriving DecidableEq, Repr, Inhabited

/-- the inner loop over the neighbours in walk direction, NEAREST FIRST: (edges passed = swapped with `horz`, in walk order; how it
ended; the edges not passed, beginning with the one that stopped the walk) -/
def walk (topx : HEdge → Int → Int) (s : Seg) : List HEdge → List HEdge × Stop × List HEdge
  | [] => ([], .endOfAel, [])
  | e :: rest =>
    if some e.vtop = s.vmax then ([], .maxPair, e :: rest)
    else if !s.atMax && stopHere topx s e then ([], .brk, e :: rest)
    else
      let r := walk topx s rest
      (e :: r.1, r.2.1, r.2.2)

/-! ## events -/

/-- the bookkeeping events of `DoHorizontal`, with the identities of the two `Active`s (left one first, as they stand BEFORE the event) -/
inductive Ev
  /-- `IntersectEdges(a, b, pt); SwapPositionsInAEL(a, b);` with `a` at position `pos`, `b` at `pos + 1` -/
  | isect (pos : Nat) (a b : Nat)
  /-- `DeleteFromAEL` of the maxima pair standing at `pos`, `pos + 1` -/
  | removePair (pos : Nat) (a b : Nat)
  deriving DecidableEq, Repr, Inhabited

/-- the event of `Model/Ael.lean` -/
def Ev.toOp : Ev → Op
  | .isect pos _ _ => .intersect pos
  | .removePair pos _ _ => .removePair pos

/-- the swaps of one walk: `horz` (identity `hid`) stands at position `i`; left to right it meets `passed[j]` at `i + j`, right to left
`passed[j]` stands at `i - 1 - j` -/
def walkEvents (l2r : Bool) (i hid : Nat) (passed : List HEdge) : List Ev :=
  passed.zipIdx.map (fun p => if l2r then .isect (i + p.2) hid p.1.id else .isect (i - 1 - p.2) p.1.id hid)

/-! ## `DoHorizontal` -/

structure Res where
  /-- the AEL after the call -/
  ael : List HEdge
  evs : List Ev
  /-- the model needed a vertex beyond the supplied list, ran out of fuel, or the edge is not in the AEL -/
  fault : Bool
  deriving Repr, Inhabited

/-- `horz.curr_x` after a walk: `horz.curr_x = e->curr_x` at every swap -/
def currXAfter (h : HEdge) (passed : List HEdge) : Int :=
  match passed.getLast? with
  | some e => e.currX
  | none => h.currX

/-- the `Seg` of the current horizontal: `ResetHorzDirection(horz, vertex_max, horz_left, horz_right)` with `R` = the edges behind
`horz` in the AEL (its loop `while (e && e->vertex_top != max_vertex) e = e->next_in_ael` is `R.any …`) -/
def segOf (vmax : Option Nat) (h : HEdge) (R : List HEdge) (nextPt : Pt) : Seg :=
  let d := Gen.ResetHorzDirection 0 0 (R.any (fun e => some e.vtop == vmax)) h.bot.x h.currX h.top.x
  ⟨d.1, d.2.1, d.2.2, h.top.x, decide (vmax = some h.vtop), vmax, nextPt⟩

/-- result of one turn of the `while (true)` loop -/
inductive Step
  /-- `return` (the maxima pair left the AEL), or `break` + the final `UpdateEdgeIntoAEL`, or a fault -/
  | done (r : Res)
  /-- `UpdateEdgeIntoAEL` gave another horizontal: next turn with this zipper and these events -/
  | next (L : List HEdge) (h : HEdge) (R : List HEdge) (evs : List Ev)
  deriving Repr, Inhabited

/-- ONE TURN of the `while (true)` loop = one horizontal segment.  The AEL is the zipper `L.reverse ++ h :: R` (`L` = the edges left of
`horz`, NEAREST FIRST).  Direction (`ResetHorzDirection`), walk, then either the maxima pair leaves, or `UpdateEdgeIntoAEL` moves `horz`
to the next edge of its bound — again horizontal (`Step.next`) or not (`Step.done`). -/
def segStep (pc : Bool) (topx : HEdge → Int → Int) (vmax : Option Nat) (L : List HEdge) (h : HEdge) (R : List HEdge)
    (evs : List Ev) : Step :=
  match h.rest with
  | [] => .done ⟨L.reverse ++ h :: R, evs, true⟩
  | nv :: _ =>
    let s := segOf vmax h R nv.pt
    let w := walk topx s (if s.l2r then R else L)
    let h1 : HEdge := { h with currX := currXAfter h w.1 }
    let evs1 := evs ++ walkEvents s.l2r L.length h.id w.1
    let L1 := if s.l2r then w.1.reverse ++ L else w.2.2
    let R1 := if s.l2r then w.2.2 else w.1.reverse ++ R
    match w.2.1 with
    | .maxPair =>
      if s.l2r then
        match R1 with
        | p :: R2 => .done ⟨L1.reverse ++ R2, evs1 ++ [.removePair L1.length h.id p.id], false⟩
        | [] => .done ⟨L1.reverse ++ h1 :: R1, evs1, true⟩
      else
        match L1 with
        | p :: L2 => .done ⟨L2.reverse ++ R1, evs1 ++ [.removePair L2.length p.id h.id], false⟩
        | [] => .done ⟨L1.reverse ++ h1 :: R1, evs1, true⟩
    | _ =>
      match updateEdge pc h1 with
      | none => .done ⟨L1.reverse ++ h1 :: R1, evs1, true⟩
      | some h2 =>
        if nv.pt.y ≠ h1.top.y then .done ⟨L1.reverse ++ h2 :: R1, evs1, false⟩
        else .next L1 h2 R1 evs1

/-- the `while (true)` loop: `fuel` bounds the number of turns (`doHorizontal` passes `rest.length + 1`, which always suffices:
`Props/C01Horz.doHorizontal_terminates`) -/
def outer (pc : Bool) (topx : HEdge → Int → Int) (vmax : Option Nat) :
    Nat → List HEdge → HEdge → List HEdge → List Ev → Res
  | 0, L, h, R, evs => ⟨L.reverse ++ h :: R, evs, true⟩
  | fuel + 1, L, h, R, evs =>
    match segStep pc topx vmax L h R evs with
    | .done r => r
    | .next L1 h2 R1 evs1 => outer pc topx vmax fuel L1 h2 R1 evs1

/-- split the AEL at the `Active` with identity `hid`: (edges left of it NEAREST FIRST, the edge, edges right of it) -/
def splitAt (hid : Nat) : List HEdge → List HEdge → Option (List HEdge × HEdge × List HEdge)
  | _, [] => none
  | acc, e :: rest => if e.id = hid then some (acc, e, rest) else splitAt hid (e :: acc) rest

/-- **C++ `ClipperBase::DoHorizontal(horz)`** on the AEL `ael`, `horz` = the `Active` with identity `hid` -/
def doHorizontal (pc : Bool) (topx : HEdge → Int → Int) (ael : List HEdge) (hid : Nat) : Res :=
  match splitAt hid [] ael with
  | none => ⟨ael, [], true⟩
  | some (L, h, R) => outer pc topx (currYMaximaVertex h) (h.rest.length + 1) L h R []

/-! ## the scanline-level loop `while (PopHorz(e)) DoHorizontal(*e);` -/

/-- `sel` = the stack `sel_` (`PushHorz`/`PopHorz`), TOP FIRST, as identities.  `DoHorizontal` never pushes (`UpdateEdgeIntoAEL` does
not), so the stack is fixed before the loop. -/
def horzPhase (pc : Bool) (topx : HEdge → Int → Int) : List HEdge → List Nat → Res
  | ael, [] => ⟨ael, [], false⟩
  | ael, hid :: sel =>
    let r := doHorizontal pc topx ael hid
    let r2 := horzPhase pc topx r.ael sel
    ⟨r2.ael, r.evs ++ r2.evs, r.fault || r2.fault⟩

/-- the AEL after every single call of the loop -/
def horzPhaseTrace (pc : Bool) (topx : HEdge → Int → Int) : List HEdge → List Nat → List Res
  | _, [] => []
  | ael, hid :: sel =>
    let r := doHorizontal pc topx ael hid
    r :: horzPhaseTrace pc topx r.ael sel

/-- `sel_` after `DoTopOfScanbeam(y)`: it walks the AEL left to right and pushes every edge that became horizontal, so the stack holds
them right to left -/
def selAfterTop (ael : List HEdge) : List Nat := ((ael.filter (·.isHorz)).map (·.id)).reverse

/-- `sel_` after `InsertLocalMinimaIntoAEL(y)`: per local minimum, in the order they are popped, `PushHorz(right_bound)` (if horizontal)
then `PushHorz(left_bound)` (if horizontal); the stack holds the pushes in reverse -/
def selAfterInsert (mins : List (HEdge × HEdge)) : List Nat :=
  ((mins.flatMap (fun p => (if p.2.isHorz then [p.2.id] else []) ++ (if p.1.isHorz then [p.1.id] else []))).reverse)

/-! ## the hypotheses of the theorems (`Props/C01Horz.lean`), as decidable predicates

General position, extended to horizontal edges, at the level of ONE `DoHorizontal` call on the zipper `(L, h, R)`:
the AEL is sorted by `curr_x` (a horizontal stands at its `curr_x`, which is `bot.x` when it is popped); the horizontal run of the bound
that starts with `h` (consecutive horizontal input edges, merged by `TrimHorz` or not) is strictly monotone — no 180-degree spike, no
zero-length piece; if the run ends in a local maximum, the other edge that ends there (`vertex_top == vertex_max`) is in the AEL on the
side the run heads to.  For the characterisation of the swapped edges additionally: no other edge of the AEL stands exactly at the far
end of the run, or exactly where `h` starts (no vertex of another path ON the horizontal run's end points). -/

/-- the AEL (as a zipper) flattened -/
def zip (L : List HEdge) (h : HEdge) (R : List HEdge) : List HEdge := L.reverse ++ h :: R

/-- the AEL is sorted by `curr_x` -/
def SortedX (ael : List HEdge) : Prop := ael.Pairwise (fun a b => a.currX ≤ b.currX)
instance (ael : List HEdge) : Decidable (SortedX ael) := by unfold SortedX; infer_instance

/-- `a` comes strictly before `b` in walk direction -/
def fwd (l2r : Bool) (a b : Int) : Prop := if l2r then a < b else b < a
instance (l2r : Bool) (a b : Int) : Decidable (fwd l2r a b) := by unfold fwd; infer_instance

/-- the supplied vertices on the scanline of `h`: the rest of the horizontal run of its bound -/
def flatRun (h : HEdge) : List HV := h.rest.takeWhile (fun v => decide (v.pt.y = h.top.y))

/-- the x-coordinates of the run: `bot.x`, `top.x`, then the vertices of `flatRun` -/
def runXs (h : HEdge) : List Int := h.bot.x :: h.top.x :: (flatRun h).map (·.pt.x)

/-- the x-coordinate where the whole run ends -/
def runEnd (h : HEdge) : Int := ((flatRun h).getLast?.map (·.pt.x)).getD h.top.x

/-- the run is strictly monotone in direction `l2r` -/
def RunMono (l2r : Bool) (h : HEdge) : Prop := (runXs h).Pairwise (fwd l2r)
instance (l2r : Bool) (h : HEdge) : Decidable (RunMono l2r h) := by unfold RunMono; infer_instance

/-- the neighbours in walk direction, nearest first -/
def ahead (l2r : Bool) (L R : List HEdge) : List HEdge := if l2r then R else L

/-- if the run ends in a local maximum, the other edge ending there is ahead -/
def PairAhead (l2r : Bool) (L : List HEdge) (h : HEdge) (R : List HEdge) : Prop :=
  ∀ v, currYMaximaVertex h = some v → ∃ p ∈ ahead l2r L R, p.vtop = v
instance (l2r : Bool) (L : List HEdge) (h : HEdge) (R : List HEdge) : Decidable (PairAhead l2r L h R) :=
  decidable_of_iff ((currYMaximaVertex h).all (fun v => decide (∃ p ∈ ahead l2r L R, p.vtop = v)) = true) (by
    unfold PairAhead
    cases currYMaximaVertex h <;> simp)

/-- the run leaves the scanline within the supplied vertices -/
def Leaves (h : HEdge) : Prop := ∃ v ∈ h.rest, v.pt.y ≠ h.top.y
instance (h : HEdge) : Decidable (Leaves h) := by unfold Leaves; infer_instance

/-- **what the sortedness theorem assumes of one call** (direction `l2r`) -/
structure CallOK (l2r : Bool) (L : List HEdge) (h : HEdge) (R : List HEdge) : Prop where
  sorted : SortedX (zip L h R)
  atBot : h.currX = h.bot.x
  mono : RunMono l2r h
  pair : PairAhead l2r L h R
  leaves : Leaves h

instance (l2r : Bool) (L : List HEdge) (h : HEdge) (R : List HEdge) : Decidable (CallOK l2r L h R) :=
  decidable_of_iff (SortedX (zip L h R) ∧ h.currX = h.bot.x ∧ RunMono l2r h ∧ PairAhead l2r L h R ∧ Leaves h)
    ⟨fun ⟨a, b, c, d, e⟩ => ⟨a, b, c, d, e⟩, fun ⟨a, b, c, d, e⟩ => ⟨a, b, c, d, e⟩⟩

/-- **… and the characterisation of the swapped edges, additionally**: the edges ahead are strictly sorted and strictly ahead of where
`h` starts; none of them stands exactly at the far end of the run, except the maxima pair, which stands exactly there -/
structure CallGP (l2r : Bool) (L : List HEdge) (h : HEdge) (R : List HEdge) : Prop where
  strict : (ahead l2r L R).Pairwise (fun a b => fwd l2r a.currX b.currX)
  beyond : ∀ e ∈ ahead l2r L R, fwd l2r h.currX e.currX
  noTie : ∀ e ∈ ahead l2r L R, some e.vtop ≠ currYMaximaVertex h → e.currX ≠ runEnd h
  pairAtEnd : ∀ e ∈ ahead l2r L R, some e.vtop = currYMaximaVertex h → e.currX = runEnd h

instance (l2r : Bool) (L : List HEdge) (h : HEdge) (R : List HEdge) : Decidable (CallGP l2r L h R) :=
  decidable_of_iff ((ahead l2r L R).Pairwise (fun a b => fwd l2r a.currX b.currX) ∧ (∀ e ∈ ahead l2r L R, fwd l2r h.currX e.currX) ∧
      (∀ e ∈ ahead l2r L R, some e.vtop ≠ currYMaximaVertex h → e.currX ≠ runEnd h) ∧
      (∀ e ∈ ahead l2r L R, some e.vtop = currYMaximaVertex h → e.currX = runEnd h))
    ⟨fun ⟨a, b, c, d⟩ => ⟨a, b, c, d⟩, fun ⟨a, b, c, d⟩ => ⟨a, b, c, d⟩⟩

/-- the AEL after a call in which `horz` survives as `hf`: `P` = the edges it passed (walk order), `Q` = the edges ahead it did not pass -/
def aelSurv (l2r : Bool) (L R P Q : List HEdge) (hf : HEdge) : List HEdge :=
  if l2r then L.reverse ++ P ++ hf :: Q else Q.reverse ++ hf :: (P.reverse ++ R)

/-- the AEL after a call that ends with the removal of the maxima pair (`horz` and the first edge it did not pass; `t` = the others) -/
def aelMax (l2r : Bool) (L R P t : List HEdge) : List HEdge :=
  if l2r then L.reverse ++ P ++ t else t.reverse ++ (P.reverse ++ R)

/-- the `removePair` event of that call -/
def evMax (l2r : Bool) (L P t : List HEdge) (hid pid : Nat) : Ev :=
  if l2r then .removePair (L.length + P.length) hid pid else .removePair t.length pid hid

/-- `CallOK` for the call `DoHorizontal(hid)` on the AEL `ael`, in one of the two directions -/
def CallOKAt (ael : List HEdge) (hid : Nat) : Prop :=
  match splitAt hid [] ael with
  | some (L, h, R) => CallOK true L h R ∨ CallOK false L h R
  | none => False
instance (ael : List HEdge) (hid : Nat) : Decidable (CallOKAt ael hid) := by
  unfold CallOKAt
  cases splitAt hid [] ael with
  | none => exact isFalse (fun h => h)
  | some t => obtain ⟨L, h, R⟩ := t; simp only; infer_instance

/-- **what the theorem about the scanline-level loop assumes**: `CallOK` for every call, each on the AEL the calls before it left
(evaluated by running the model; the driver decides it for every replayed loop) -/
def PhaseOK (pc : Bool) (topx : HEdge → Int → Int) : List HEdge → List Nat → Prop
  | _, [] => True
  | ael, hid :: sel => CallOKAt ael hid ∧ PhaseOK pc topx (doHorizontal pc topx ael hid).ael sel
instance (pc : Bool) (topx : HEdge → Int → Int) : (ael : List HEdge) → (sel : List Nat) → Decidable (PhaseOK pc topx ael sel)
  | _, [] => isTrue trivial
  | ael, hid :: sel =>
    have : Decidable (PhaseOK pc topx (doHorizontal pc topx ael hid).ael sel) := instDecidablePhaseOK pc topx _ sel
    (inferInstance : Decidable (CallOKAt ael hid ∧ PhaseOK pc topx (doHorizontal pc topx ael hid).ael sel))

/-- strictly between the two end points of the run, in the direction of the run -/
def between (l2r : Bool) (x0 x1 : Int) (e : HEdge) : Bool := decide (fwd l2r x0 e.currX ∧ fwd l2r e.currX x1)

/-! ## the bookkeeping run along the derived events -/

/-- `Model.run` along the events of a call (`none` = an event was rejected) -/
def runEvents (cfg : Cfg) (l : Ael) (evs : List Ev) : Option Ael := run cfg l (evs.map Ev.toOp)

end Clipper.Model.SweepHorz
