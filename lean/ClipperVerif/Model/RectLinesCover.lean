/-
Executable definitions for the C09 `lines_cover` theorems (Props/C09Cover.lean): the class of a vertex as the
automaton of `RectClipLines64::ExecuteInternal` sees it, the sign-exact arithmetic instances, and a Boolean checker
`coverB` of the per-segment description `Cover` (Lemmas/RectLinesCover.lean) that the driver evaluates on every
generated input.  Core Lean only.
-/
import ClipperVerif.Model.RectClipAuto
namespace Clipper.Model.RC
open Clipper

/-- strictly inside the rectangle -/
def sInB (r : Rect) (p : Pt) : Bool :=
  decide (r.left < p.x) && decide (p.x < r.right) && decide (r.top < p.y) && decide (p.y < r.bottom)

/-- on the boundary, as `GetLocation` decides it -/
def onBd (r : Rect) (p : Pt) : Bool := !(getLocation r p).1

/-- **Class of a vertex as the automaton sees it** (`true` = treated as inside): a vertex strictly inside is in, a
vertex outside the closed rectangle is out, and a vertex on the boundary *inherits the class of its predecessor*
(`GetNextLocation` keeps adding boundary vertices while inside and keeps skipping them while outside). -/
def clsNext (r : Rect) (prevIn : Bool) (p : Pt) : Bool := sInB r p || (inRect r p && prevIn)

/-- Class of the first vertex: strictly inside, or on the boundary with the first later vertex that is not on the
boundary strictly inside (or no such vertex). -/
def cls0 (r : Rect) : Path → Bool
  | [] => false
  | p0 :: rest =>
    sInB r p0 || (onBd r p0 && (match rest.find? (fun q => !onBd r q) with
      | none => true
      | some q => sInB r q))

/-- the `Add(path[k])` call for a vertex in the rectangle -/
def V (k : Nat) (p : Pt) : Emit := ⟨k, p, false, .vertex⟩

/-- classes of all vertices of a polyline, in order -/
def classesFrom (r : Rect) : Bool → List Pt → List Bool
  | _, [] => []
  | ip, p :: ps => clsNext r ip p :: classesFrom r (clsNext r ip p) ps

def classes (r : Rect) : Path → List Bool
  | [] => []
  | p0 :: rest => cls0 r (p0 :: rest) :: classesFrom r (cls0 r (p0 :: rest)) rest

/-- no vertex other than the first and the last lies on the rectangle boundary -/
def noInnerBoundaryB (r : Rect) (path : Path) : Bool :=
  (path.drop 1).dropLast.all (fun q => !onBd r q)

/-! ### sign-exact arithmetic instances -/

/-- exact intersection of the lines `a b` and `c d`, truncated towards zero; `a` for parallel lines -/
def isectZ (a b c d : Pt) : Option Pt :=
  let dx1 := b.x - a.x; let dy1 := b.y - a.y; let dx2 := d.x - c.x; let dy2 := d.y - c.y
  let det := dy1 * dx2 - dy2 * dx1
  if det = 0 then some a
  else
    let tn := (a.x - c.x) * dy2 - (a.y - c.y) * dx2
    some ⟨a.x + Int.tdiv (tn * dx1) det, a.y + Int.tdiv (tn * dy1) det⟩

/-- exact integer sign of `CrossProduct`, exact (truncated) intersection point -/
def exactArith : Arith := ⟨fun a b c => Int.sign (crossZ a b c), isectZ⟩

/-- exact integer sign of `CrossProduct`, the `double` intersection point of the real `GetSegmentIntersectPt`
(made total: the first point when the real function reports parallel lines) -/
def hybridArith : Arith := ⟨fun a b c => Int.sign (crossZ a b c), fun a b c d => (isectF a b c d) <|> some a⟩

/-! ### the idealisation hypothesis `IsectExactOn` of `crossing_points_on_boundary`, decided on a concrete input -/

/-- `a`, `b` strictly on both sides of the line `c d` -/
def strB (a b c d : Pt) : Bool :=
  decide (crossZ a c d ≠ 0) && decide (crossZ b c d ≠ 0) && (decide (crossZ a c d > 0) != decide (crossZ b c d > 0))

/-- if `p1 p2` and the edge `a b` cross properly, the point the intersection routine returns lies on both lines -/
def isectOkB (A : Arith) (p1 p2 a b : Pt) : Bool :=
  if strB p1 p2 a b && strB a b p1 p2 then
    match A.isect p1 p2 a b with
    | some q => decide (crossZ p1 p2 q = 0) && decide (crossZ a b q = 0)
    | none => true
  else true

def rectEdges (r : Rect) : List (Pt × Pt) := [(r.c0, r.c3), (r.c0, r.c1), (r.c1, r.c2), (r.c2, r.c3)]

def isectExactOnB (A : Arith) (r : Rect) (path : Path) : Bool :=
  (path.zip path.tail).all (fun s =>
    (rectEdges r).all (fun e => isectOkB A s.2 s.1 e.1 e.2 && isectOkB A s.1 s.2 e.1 e.2))

/-! ### Boolean checker of `Cover` -/

def outerLocs : List Location := [.left, .top, .right, .bottom]

def segPartB (A : Arith) (r : Rect) (k : Nat) (prv cur : Pt) (ip ic : Bool) (es : List Emit) : Bool :=
  match ip, ic with
  | true, true => es == [V k cur]
  | true, false =>
    match outsideLoc r cur with
    | some loc =>
      (getIntersection A r cur prv loc ⟨0, 0⟩).1 &&
        es == [⟨k, (getIntersection A r cur prv loc ⟨0, 0⟩).2.2, false, .exit⟩]
    | none => false
  | false, true =>
    (getIntersection A r cur prv .inside ⟨0, 0⟩).1 &&
      es == [⟨k, (getIntersection A r cur prv .inside ⟨0, 0⟩).2.2, true, .enter⟩, V k cur]
  | false, false =>
    (es == [] && (outerLocs.any (fun loc => readyB r loc prv && readyB r loc cur) ||
                  outerLocs.any (fun loc => readyB r loc cur && !(getIntersection A r cur prv loc ⟨0, 0⟩).1))) ||
    outerLocs.any (fun loc => outerLocs.any (fun loc2 =>
      readyB r loc cur && (getIntersection A r cur prv loc ⟨0, 0⟩).1 && readyB r loc2 prv && !readyB r loc2 cur &&
      es == [⟨k, (getIntersection A r prv cur loc2 ⟨0, 0⟩).2.2, true,
                .thru1 (getIntersection A r prv cur loc2 ⟨0, 0⟩).1⟩,
             ⟨k, (getIntersection A r cur prv loc ⟨0, 0⟩).2.2, false, .thru2⟩]))

/-- the calls tagged with segment index `k` form the contribution of segment `k` -/
def tailB (A : Arith) (r : Rect) : Nat → Bool → List Pt → List Emit → Bool
  | k, ip, prv :: cur :: rest, es =>
    let e1 := es.takeWhile (fun e => e.k == k)
    segPartB A r k prv cur ip (clsNext r ip cur) e1 &&
      tailB A r (k + 1) (clsNext r ip cur) (cur :: rest) (es.drop e1.length)
  | _, _, [], es => es.isEmpty
  | _, _, [_], es => es.isEmpty

def coverB (A : Arith) (r : Rect) (path : Path) (es : List Emit) : Bool :=
  match path with
  | [] => es.isEmpty
  | p0 :: _ =>
    let pre := if cls0 r path then [V 0 p0] else []
    es.take pre.length == pre && tailB A r 1 (cls0 r path) path (es.drop pre.length)

end Clipper.Model.RC
