/-
Model of the marshalling code of `clipper.export.h` (C17).

The exported flat arrays are `List Int` (`CPaths64`; for `CPathsD` every cell is a double, the layout is
the same).  A vertex is the list of its `dim` cells (`dim = EXPORT_VERTEX_DIMENSIONALITY`, 2 without and
3 with `USINGZ`: x, y and the raw bits of z).  Pointers are indices.  Every write `*v++ = e` goes through the
checked `Wr.put` and every read `*v++` through the checked `rd`: leaving the allocated block is a `Fault`
value, nothing is totalised.  `nullptr` is `none`.

Core Lean only.
-/
namespace Clipper.Model.Export

abbrev Vtx := List Int
abbrev VPath := List Vtx
abbrev VPaths := List VPath
/-- an exported array; `none` is `nullptr` -/
abbrev CArr := Option (List Int)

inductive Fault
  | oobWrite (pos size : Nat)   -- `*v++ = …` with `v` outside `new T[size]`
  | oobRead (pos size : Nat)    -- `*v++` outside the array
  | negCount (v : Int)          -- `static_cast<size_t>` of a negative counter
  | fuel                        -- reader recursion budget exhausted (never happens on well-formed arrays)
  deriving DecidableEq, Repr

abbrev M := Except Fault

/-! ### the write cursor -/

/-- `T* result = new T[n], *v = result + pos` -/
structure Wr where
  buf : List Int
  pos : Nat
  deriving DecidableEq, Repr

/-- `new T[n]` (content irrelevant; zeros here) with the cursor at its start -/
def Wr.alloc (n : Nat) : Wr := ⟨List.replicate n 0, 0⟩

/-- `*v++ = x` -/
def Wr.put (w : Wr) (x : Int) : M Wr :=
  if w.pos < w.buf.length then .ok ⟨w.buf.set w.pos x, w.pos + 1⟩
  else .error (.oobWrite w.pos w.buf.length)

/-- consecutive `*v++ = …` -/
def putAll (w : Wr) : List Int → M Wr
  | [] => .ok w
  | x :: xs => w.put x >>= fun w' => putAll w' xs

/-! ### `GetPathCountAndCPathsArrayLen` -/

/-- one iteration of the loop: `(cnt, array_len)` -/
def countStep (dim : Nat) (acc : Nat × Nat) (p : VPath) : Nat × Nat :=
  if p.length ≠ 0 then (acc.1 + 1, acc.2 + (p.length * dim + 2)) else acc

/-- `GetPathCountAndCPathsArrayLen`: `(cnt, array_len)` -/
def getPathCountAndCPathsArrayLen (dim : Nat) (ps : VPaths) : Nat × Nat :=
  ps.foldl (countStep dim) (0, 2)

/-! ### `CreateCPathsFromPathsT` -/

/-- `*v++ = pt.x; *v++ = pt.y; (*v++ = pt.z)` -/
def writeVtx (w : Wr) (v : Vtx) : M Wr := putAll w v

/-- loop body of `CreateCPathsFromPathsT` -/
def writePath (w : Wr) (p : VPath) : M Wr :=
  if p.length = 0 then .ok w   -- `continue`
  else do
    let w ← w.put p.length
    let w ← w.put 0
    p.foldlM writeVtx w

/-- `CreateCPathsFromPathsT`: the block and the final cursor position -/
def createCPathsW (dim : Nat) (ps : VPaths) : M Wr := do
  let (cnt, len) := getPathCountAndCPathsArrayLen dim ps
  let w := Wr.alloc len
  let w ← w.put len
  let w ← w.put cnt
  ps.foldlM writePath w

def createCPaths (dim : Nat) (ps : VPaths) : M (List Int) :=
  (createCPathsW dim ps).map (·.buf)

/-- `CreateCPathsDFromPathsD`: same, but an empty path list gives `nullptr` -/
def createCPathsD (dim : Nat) (ps : VPaths) : M CArr :=
  if ps.length = 0 then .ok none else (createCPaths dim ps).map some

/-- `pt.x * scale, pt.y * scale, (z unchanged)` -/
def scaleVtx (k : Int) : Vtx → Vtx
  | x :: y :: r => x * k :: y * k :: r
  | v => v

/-- loop body of `CreateCPathsDFromPaths64` -/
def writePathScaled (k : Int) (w : Wr) (p : VPath) : M Wr :=
  if p.length = 0 then .ok w
  else do
    let w ← w.put p.length
    let w ← w.put 0
    p.foldlM (fun w v => writeVtx w (scaleVtx k v)) w

/-- `CreateCPathsDFromPaths64(paths, scale)` for an integral `scale` -/
def createCPathsDFromPaths64W (dim : Nat) (k : Int) (ps : VPaths) : M (Option Wr) :=
  if ps.length = 0 then .ok none
  else do
    let (cnt, len) := getPathCountAndCPathsArrayLen dim ps
    let w := Wr.alloc len
    let w ← w.put len
    let w ← w.put cnt
    let w ← ps.foldlM (writePathScaled k) w
    pure (some w)

def createCPathsDFromPaths64 (dim : Nat) (k : Int) (ps : VPaths) : M CArr :=
  (createCPathsDFromPaths64W dim k ps).map (·.map (·.buf))

/-! ### `ConvertCPathToPathT`, `ConvertCPathsToPathsT`, `ConvertCPathsDToPaths64` -/

/-- `*v` -/
def rd (a : List Int) (i : Nat) : M Int :=
  match a[i]? with
  | some v => .ok v
  | none => .error (.oobRead i a.length)

/-- `static_cast<size_t>(*v)`; a negative value would become a huge count: reported as a fault -/
def toCount (v : Int) : M Nat := if v < 0 then .error (.negCount v) else .ok v.toNat

/-- `n` times `*v++` -/
def readN (a : List Int) : Nat → Nat → M (List Int × Nat)
  | 0, pos => .ok ([], pos)
  | n + 1, pos => do
    let x ← rd a pos
    let (xs, pos') ← readN a n (pos + 1)
    pure (x :: xs, pos')

/-- inner loop: `cnt` vertices of `dim` cells each -/
def readVerts (dim : Nat) (a : List Int) : Nat → Nat → M (VPath × Nat)
  | 0, pos => .ok ([], pos)
  | n + 1, pos => do
    let (v, pos) ← readN a dim pos
    let (vs, pos) ← readVerts dim a n pos
    pure (v :: vs, pos)

/-- outer loop of `ConvertCPathsToPathsT` -/
def readPaths (dim : Nat) (a : List Int) : Nat → Nat → M (VPaths × Nat)
  | 0, pos => .ok ([], pos)
  | k + 1, pos => do
    let cnt2 ← rd a pos >>= toCount
    let (p, pos) ← readVerts dim a cnt2 (pos + 2)   -- `v += 2`: the 0 cell is skipped, not read
    let (ps, pos) ← readPaths dim a k pos
    pure (p :: ps, pos)

/-- `ConvertCPathsToPathsT`: result and the index one past the last cell read -/
def convertCPathsPos (dim : Nat) : CArr → M (VPaths × Nat)
  | none => .ok ([], 0)
  | some a => do
    let cnt ← rd a 1 >>= toCount       -- `++v; cnt = *v++` : cell 0 is not read
    readPaths dim a cnt 2

def convertCPaths (dim : Nat) (a : CArr) : M VPaths := (convertCPathsPos dim a).map (·.1)

/-- `ConvertCPathToPathT` (one `CPath`: N, 0, vertices) -/
def convertCPath (dim : Nat) : CArr → M VPath
  | none => .ok []
  | some a => do
    let cnt ← rd a 0 >>= toCount
    let (p, _) ← readVerts dim a cnt 2
    pure p

/-- `ConvertCPathsDToPaths64(paths, scale)` for integral cells and scale -/
def convertCPathsDToPaths64 (dim : Nat) (k : Int) (a : CArr) : M VPaths :=
  (convertCPaths dim a).map (·.map (·.map (scaleVtx k)))

/-- `ConvertCPathDToPath64WithScale` -/
def convertCPathDToPath64WithScale (dim : Nat) (k : Int) (a : CArr) : M VPath :=
  (convertCPath dim a).map (·.map (scaleVtx k))

/-! ### polytrees -/

/-- `PolyPath64`: polygon and children (the root of a `PolyTree64` has an empty polygon) -/
inductive PPath where
  | node (poly : VPath) (kids : List PPath)
  deriving Repr

def PPath.poly : PPath → VPath | .node p _ => p
def PPath.kids : PPath → List PPath | .node _ k => k

mutual
/-- `GetPolyPathArrayLen64` -/
def getPolyPathArrayLen (dim : Nat) : PPath → Nat
  | .node poly kids => 2 + poly.length * dim + getPolyPathArrayLenList dim kids
def getPolyPathArrayLenList (dim : Nat) : List PPath → Nat
  | [] => 0
  | t :: ts => getPolyPathArrayLen dim t + getPolyPathArrayLenList dim ts
end

mutual
/-- `CreateCPolyPath64(pp, v)` -/
def createCPolyPath : PPath → Wr → M Wr
  | .node poly kids, w => do
    let w ← w.put poly.length
    let w ← w.put kids.length
    let w ← poly.foldlM writeVtx w
    createCPolyPathList kids w
/-- `for (i < pp->Count()) CreateCPolyPath64(pp->Child(i), v)` -/
def createCPolyPathList : List PPath → Wr → M Wr
  | [], w => .ok w
  | t :: ts, w => createCPolyPath t w >>= createCPolyPathList ts
end

/-- `CreateCPolyTree64`: `nullptr` for a tree without children -/
def createCPolyTreeW (dim : Nat) (tree : PPath) : M (Option Wr) :=
  let cnt := tree.kids.length
  let len := getPolyPathArrayLen dim tree
  if cnt = 0 then .ok none
  else do
    let w := Wr.alloc len
    let w ← w.put len
    let w ← w.put tree.kids.length
    let w ← createCPolyPathList tree.kids w
    pure (some w)

def createCPolyTree (dim : Nat) (tree : PPath) : M CArr :=
  (createCPolyTreeW dim tree).map (·.map (·.buf))

/-- `k` consecutive items, each parsed by `rd1` -/
def readMany {α : Type} (rd1 : Nat → M (α × Nat)) : Nat → Nat → M (List α × Nat)
  | 0, pos => .ok ([], pos)
  | k + 1, pos => do
    let (x, pos) ← rd1 pos
    let (xs, pos) ← readMany rd1 k pos
    pure (x :: xs, pos)

/-- reader of one `CPolyPath` as documented at the top of clipper.export.h:
`N, C, N vertices, C nested CPolyPath`.  (The library has no reader; this is the client side.)
`fuel` bounds the nesting depth. -/
def readPolyPath (dim : Nat) (a : List Int) : Nat → Nat → M (PPath × Nat)
  | 0, _ => .error .fuel
  | fuel + 1, pos => do
    let n ← rd a pos >>= toCount
    let c ← rd a (pos + 1) >>= toCount
    let (poly, pos) ← readVerts dim a n (pos + 2)
    let (kids, pos) ← readMany (readPolyPath dim a fuel) c pos
    pure (.node poly kids, pos)

/-- reader of a `CPolyTree`: `A, C, C top-level CPolyPath`; `nullptr` is the empty tree.
Returns the tree and the index one past the last cell read. -/
def readPolyTreePos (dim : Nat) : CArr → M (PPath × Nat)
  | none => .ok (.node [] [], 0)
  | some a => do
    let c ← rd a 1 >>= toCount
    let (kids, pos) ← readMany (readPolyPath dim a a.length) c 2
    pure (.node [] kids, pos)

def readPolyTree (dim : Nat) (a : CArr) : M PPath := (readPolyTreePos dim a).map (·.1)

/-! ### the layout as a pure function (the grammar of the header comment) -/

/-- a non-empty path: `N, 0, vertices`; an empty path is not written -/
def encPath (p : VPath) : List Int :=
  if p.length = 0 then [] else (p.length : Int) :: 0 :: p.flatten

def encBody (ps : VPaths) : List Int := (ps.map encPath).flatten

/-- `A, C, path1 … pathC` -/
def flatCPaths (ps : VPaths) : List Int :=
  let body := encBody ps
  ((body.length + 2 : Nat) : Int) :: (((ps.filter (· ≠ [])).length : Nat) : Int) :: body

mutual
def encPolyPath : PPath → List Int
  | .node poly kids => (poly.length : Int) :: (kids.length : Int) :: (poly.flatten ++ encPolyPathList kids)
def encPolyPathList : List PPath → List Int
  | [] => []
  | t :: ts => encPolyPath t ++ encPolyPathList ts
end

def flatCPolyTree (tree : PPath) : List Int :=
  let body := encPolyPathList tree.kids
  ((body.length + 2 : Nat) : Int) :: (tree.kids.length : Int) :: body

/-- every vertex has exactly `dim` cells -/
def WellDim (dim : Nat) (ps : VPaths) : Prop := ∀ p ∈ ps, ∀ v ∈ p, v.length = dim

instance (dim : Nat) (ps : VPaths) : Decidable (WellDim dim ps) := by unfold WellDim; infer_instance

mutual
def PPath.WellDim (dim : Nat) : PPath → Prop
  | .node poly kids => (∀ v ∈ poly, v.length = dim) ∧ PPath.WellDimList dim kids
def PPath.WellDimList (dim : Nat) : List PPath → Prop
  | [] => True
  | t :: ts => PPath.WellDim dim t ∧ PPath.WellDimList dim ts
end

mutual
def PPath.beq : PPath → PPath → Bool
  | .node p1 k1, .node p2 k2 => p1 == p2 && PPath.beqList k1 k2
def PPath.beqList : List PPath → List PPath → Bool
  | [], [] => true
  | a :: as, b :: bs => PPath.beq a b && PPath.beqList as bs
  | _, _ => false
end

end Clipper.Model.Export
