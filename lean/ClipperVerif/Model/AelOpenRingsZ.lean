/-
Z layer on the open-path assembly model (`Model/AelOpenRings.lean`, C05): the output records of OPEN paths in a `USINGZ` build with the z of every point,
next to the Z rings of the closed records (`Model/AelRingsZ.lean`), and `BuildPath64` for open records with z.  The code that writes a z on an open record:

  * `StartOpenPath(e, pt)`: `new OutPt(pt, outrec)` copies the whole `Point64`.  In `InsertLocalMinimaIntoAEL` the point is `left_bound->bot` (an end vertex of the input
    path, with the input's z) and nothing follows; in `IntersectEdges` `if (zCallback_) SetZ(*edge_o, *edge_c, resultOp->pt)` follows.
  * the open branch of `AddLocalMinPoly` (a local minimum inside an open path): `left_bound->bot`, by value.
  * `IntersectEdges`, block `if (has_open_paths_ && (IsOpen(e1) || IsOpen(e2)))`, "toggle contribution": `resultOp = AddOutPt(*edge_o, pt)` (the piece ends) or
    `resultOp = StartOpenPath(*edge_o, pt)` (a piece starts), then `if (zCallback_) SetZ(*edge_o, *edge_c, resultOp->pt)`: **the open edge is passed as `e1`** whichever side it
    is on, so the callback sees the open edge's `bot, top` first whenever `GetPolyType(edge_o) == Subject` (always: only subjects can be open).  The branch that re-attaches the
    edge to the record of its local minimum's other bound (`FindEdgeWithMatchingLocMin`) returns before: no point, no `SetZ`.
  * `AddOutPt(e, e.top)` (`DoTopOfScanbeam`, `DoHorizontal`, and at `IsOpenEnd` in `DoMaxima` / `DoHorizontal`), `AddLocalMaxPoly(e, *max_pair, e.top)`: input vertices by value.
  * `JoinOutrecPaths` relinks; `BuildPath64(op, reverse, true, path)` copies `pt` with its z and skips an `OutPt` equal in x, y to the last one copied (so of consecutive
    equal points with different z the first one met survives); open paths do not go through `CleanCollinear`: the triples of the record are the triples returned.

Layering: the state is the open model's state (`OState`: ring model + open layer) paired with the closed Z rings and the open Z records; a step is `Model.stepO` on the former
and, on the latter two, `Model.outStepZ` (closed records; its open branch only `Split`s) and `openStepZ` (twin of `Model.openStep`, computed from the open layer before the step).
The callback's call counter and log are shared: they are carried over from one Z output to the other (`withCounter`) so that `F k` is the `k`-th call of the `Execute`.

Core Lean only (the driver executable links this file).
-/
import ClipperVerif.Model.AelOpenRings
import ClipperVerif.Model.AelRingsZ
namespace Clipper.Model
open Clipper.Model.ZFill

/-- `SetZ(*edge_o, *edge_c, …)` when the open edge is the right one of the two: the roles of `e1` and `e2` are exchanged -/
def ZEnds.swap (e : ZEnds) : ZEnds := ⟨e.e2bot, e.e2top, e.e1bot, e.e1top⟩

/-- take the callback counter and log of `src` -/
def ZOut.withCounter (z src : ZOut) : ZOut := { z with ncb := src.ncb, calls := src.calls }

/-- "toggle contribution" for the open edge `eo` crossing the closed edge `ec` (twin of `Model.openBranch`); `ends` = `bot/top` of `(edge_o, edge_c)` in this order -/
def openBranchZ (cfg : Cfg) (zc : ZCfg) (l : List SEdge) (io : Nat) (eo ec : SEdge) (pt : PtZ) (ends : ZEnds) (lm : Option (Option Nat)) (zo : ZOut) : ZOut :=
  let how : Option Bool := some (eo.e.pt == .subject)
  if openToggles cfg ec.e then
    match eo.orec with
    | some k => addOutPtZ zc ends k.id k.front how pt zo
    | none =>
      match lm with
      | some (some j) =>
        match l[j]? with
        | some e3 =>
          if e3.e.isOpen = true ∧ j ≠ io ∧ e3.e.dx + eo.e.dx = 0 then
            match e3.orec with
            | some _ => zo
            | none => newRecZ zc ends how pt zo
          else zo
        | none => zo
      | _ => newRecZ zc ends how pt zo
  else zo

def oIntersectZ (cfg : Cfg) (zc : ZCfg) (i : Nat) (pt : PtZ) (ends : ZEnds) (lm : Option (Option Nat)) (x : OX) (zo : ZOut) : ZOut :=
  match x.ol.drop i with
  | a :: b :: _ =>
    if a.e.isOpen = b.e.isOpen then zo
    else if a.e.isOpen then openBranchZ cfg zc x.ol i a b pt ends lm zo
    else openBranchZ cfg zc x.ol (i + 1) b a pt ends.swap lm zo
  | _ => zo

def oInsertPairZ (cfg : Cfg) (zc : ZCfg) (pos : Nat) (pt : PathType) (isOpen : Bool) (dxLeft : Int) (bot : PtZ) (x : OX) (zo : ZOut) : ZOut :=
  let r := newLeft cfg (erase (x.ol.take pos)) pt isOpen dxLeft
  if r.2 && isOpen then newRecZ zc ZEnds.none none bot zo else zo

def oInsertOneZ (cfg : Cfg) (zc : ZCfg) (pos : Nat) (pt : PathType) (dx : Int) (bot : PtZ) (x : OX) (zo : ZOut) : ZOut :=
  let r := newLeft cfg (erase (x.ol.take pos)) pt true dx
  if r.2 then newRecZ zc ZEnds.none none bot zo else zo

def oRemovePairZ (zc : ZCfg) (i : Nat) (top : PtZ) (x : OX) (zo : ZOut) : ZOut :=
  match x.ol.drop i with
  | a :: b :: _ =>
    if a.e.isOpen then
      match a.orec, b.orec with
      | some ra, some rb =>
        if ra.front = rb.front then zo
        else if ra.id = rb.id then zo
        else
          let z1 := addOutPtZ zc ZEnds.none ra.id ra.front none top zo
          let X := if a.e.dx < 0 then ra else rb
          let Y := if a.e.dx < 0 then rb else ra
          joinPathsZ X.id Y.id X.front z1
      | _, _ => zo
    else zo
  | _ => zo

def oRemoveOneZ (zc : ZCfg) (i : Nat) (top : PtZ) (x : OX) (zo : ZOut) : ZOut :=
  match x.ol.drop i with
  | a :: _ =>
    if a.e.isOpen then
      match a.orec with
      | some k => addOutPtZ zc ZEnds.none k.id k.front none top zo
      | none => zo
    else zo
  | _ => zo

def oUpdateZ (zc : ZCfg) (i : Nat) (top : PtZ) (x : OX) (zo : ZOut) : ZOut :=
  match x.ol[i]? with
  | some a =>
    if a.e.isOpen then
      match a.orec with
      | some k => addOutPtZ zc ZEnds.none k.id k.front none top zo
      | none => zo
    else zo
  | none => zo

/-- the events of `Model.OOp` with the triples the C++ has in hand: those of `Model.ZOp` (`ev`), the open-path ends with their vertex (`insertOne … bot`, `removeOne i top`),
and `locMinX` (an `IntersectEdges` at the open edge's local minimum vertex, see `Model.OOp`) -/
inductive ZOOp
  | ev (op : ZOp)
  | insertOne (pos : Nat) (pt : PathType) (dx : Int) (bot : PtZ)
  | removeOne (i : Nat) (top : PtZ)
  | locMinX (i : Nat) (pt : PtZ) (ends : ZEnds) (e3 : Option Nat)
  deriving DecidableEq, Repr, Inhabited

/-- the event of the open model: forget z -/
def ZOOp.erase : ZOOp → OOp
  | .ev op => .ev op.erase
  | .insertOne pos pt dx bot => .ev (.base (.insertOne pos pt dx) (xy bot))
  | .removeOne i top => .ev (.base (.removeOne i) (xy top))
  | .locMinX i pt _ e3 => .locMinX i (xy pt) e3

/-- the event as the closed Z layer sees it -/
def ZOOp.toZOp : ZOOp → ZOp
  | .ev op => op
  | .insertOne pos pt dx _ => .insertOne pos pt dx
  | .removeOne i _ => .removeOne i
  | .locMinX i pt ends _ => .intersect i pt ends

def ZOOp.ptz : ZOOp → PtZ
  | .ev op => op.ptz
  | .insertOne _ _ _ p => p
  | .removeOne _ p => p
  | .locMinX _ p _ _ => p

/-- the Z effect of an event on the open records, computed from the open layer before the event (twin of `Model.openStep`) -/
def openStepZ (cfg : Cfg) (zc : ZCfg) (x : OX) (zo : ZOut) : ZOOp → ZOut
  | .ev (.insertPair pos pt isOpen dxLeft bot) => oInsertPairZ cfg zc pos pt isOpen dxLeft bot x zo
  | .ev (.insertOne pos pt dx) => oInsertOneZ cfg zc pos pt dx ⟨0, 0, 0⟩ x zo     -- the closed layer's event, which carries no vertex: reads `(0,0,0)`; the sink emits `insertOne … bot`
  | .insertOne pos pt dx bot => oInsertOneZ cfg zc pos pt dx bot x zo
  | .ev (.intersect i p ends) => oIntersectZ cfg zc i p ends none x zo
  | .locMinX i p ends e3 => oIntersectZ cfg zc i p ends (some e3) x zo
  | .ev (.removePair i top) => oRemovePairZ zc i top x zo
  | .ev (.removeOne i) => oRemoveOneZ zc i ⟨0, 0, 0⟩ x zo
  | .removeOne i top => oRemoveOneZ zc i top x zo
  | .ev (.join _ _) => zo
  | .ev (.split _ _) => zo
  | .ev (.update i top) => oUpdateZ zc i top x zo

structure ZOState where
  /-- the open model's state: ring model `o.r`, open layer `o.x` -/
  o : OState
  /-- the closed Z rings -/
  z : ZOut
  /-- the open Z records -/
  zo : ZOut
  deriving Repr, Inhabited

def ZOState.empty : ZOState := { o := OState.empty, z := ZOut.empty, zo := ZOut.empty }

/-- one event: the open model's step, paired with the Z effects on the closed rings and on the open records (the callback counter runs through both) -/
def stepOZ (cfg : Cfg) (zc : ZCfg) (st : ZOState) (op : ZOOp) : Except Err ZOState :=
  match stepO cfg st.o op.erase with
  | .ok o' =>
    let z1 := outStepZ cfg zc st.o.r.s st.z op.toZOp
    let zo1 := openStepZ cfg zc st.o.x (st.zo.withCounter z1) op
    .ok { o := o', z := z1.withCounter zo1, zo := zo1 }
  | .error e => .error e

def runOZ (cfg : Cfg) (zc : ZCfg) : ZOState → List ZOOp → Except Err ZOState
  | st, [] => .ok st
  | st, op :: ops =>
    match stepOZ cfg zc st op with
    | .ok st' => runOZ cfg zc st' ops
    | .error e => .error e

/-! ## `BuildPath64(op, reverse, isOpen = true, path)` with z -/

/-- the `while (op2 != op)` loop: `if (op2->pt != lastPt) { lastPt = op2->pt; path.emplace_back(lastPt.x, lastPt.y, lastPt.z); }` — the comparison ignores z -/
def dedupFromZ (last : PtZ) : List PtZ → List PtZ
  | [] => []
  | p :: ps => if xy p = xy last then dedupFromZ last ps else p :: dedupFromZ p ps

def dedupZ : List PtZ → List PtZ
  | [] => []
  | p :: ps => p :: dedupFromZ p ps

/-- `PtsReallyClose` (z ignored) -/
def reallyCloseZ (a b : PtZ) : Bool := decide ((a.x - b.x).natAbs < 2) && decide ((a.y - b.y).natAbs < 2)

/-- `IsVerySmallTriangle(*op)` for a record of exactly three `OutPt`s -/
def verySmallTriangleZ : List PtZ → Bool
  | [a, b, c] => reallyCloseZ a b || reallyCloseZ b c || reallyCloseZ a c
  | _ => false

/-- `BuildPath64(op, reverse, true, path)` (`dApi = false`) and `BuildPathD(op, reverse, true, path, inv_scale)` (`dApi = true`: its last line
`if (path.size() == 3 && IsVerySmallTriangle(*op2)) return false;` lacks the `!isOpen` of `BuildPath64` — recorded finding kf.d-api.ClipperD.open-3pt; modelled as it is) -/
def buildOpenPathZ (rev dApi : Bool) (pts : List PtZ) : Option (List PtZ) :=
  match pts with
  | [] => none
  | [_] => none
  | _ =>
    let path := dedupZ (if rev then pts else pts.reverse)
    if dApi && path.length == 3 && verySmallTriangleZ pts then none else some path

def openSolutionZ (rev dApi : Bool) (rings : List ZRing) : List (List PtZ) := rings.filterMap (fun g => buildOpenPathZ rev dApi g.pts)

/-! ## executable forms of the invariants -/

def checkAgreeO (st : ZOState) : Bool :=
  st.zo.rings.map ZRing.erase == st.o.x.oo.rings.map Ring.core && st.zo.log.map ZEmit.erase == st.o.x.oo.log &&
  st.z.rings.map ZRing.erase == st.o.r.o.rings.map Ring.core && st.z.log.map ZEmit.erase == st.o.r.o.log && st.z.ncb == st.zo.ncb

end Clipper.Model
