/-
Model of `Clipper2Lib::detail::Minkowski(pattern, path, isSum, isClosed)`
(CPP/Clipper2Lib/include/clipper2/clipper.minkowski.h:20-72), statement by statement.

* `tmp`      — the list of translated copies of the pattern, one per path point
               (`p + pt2` for the sum, `p - pt2` for the difference);
* the loops  — `for (h = patLen-1, i = delta; i < pathLen; ++i) for (j = 0; j < patLen; ++j)` with the
               carried indices `g` (previous path index, `pathLen-1` or `0` at the start) and `h`
               (previous pattern index, which persists across iterations of the outer loop);
* every `tmp[a][b]` is a *checked* access (`[·]?`), so the model returns `Option`: `none` would be an
  out-of-range subscript in the C++.  `Props/C19.lean` proves that `none` never happens.
* `IsPositive(quad)` is `Area(quad) >= 0`.  `Area` is computed in `double`; the model takes the test as a
  parameter `isPos`, and the canonical instance `isPositive` uses the *exact* integer value of the very
  expression `Area` evaluates (`area2Quad`, the unrolled two-at-a-time loop for 4 points).  The two agree
  whenever the double computation is exact (all |tmp coordinates| ≤ 2^24, i.e. inputs ≤ 2^23; trusted
  IEEE fact).  The driver also carries a `Float` instance of the test (`Driver/C19.lean`, `MINKF`), which
  is compared bit for bit with the compiled code at every magnitude.
* The final `Union(…, FillRule::NonZero)` is not part of this model (abstract parameter of the wrappers).
-/
import ClipperVerif.Spec.Basic
namespace Clipper.Model.Minkowski
open Clipper

/-- twice the value `Area` computes for a 4-point path, in the order the C++ loop adds the terms:
`(y3+y0)(x3-x0) + (y0+y1)(x0-x1) + (y1+y2)(x1-x2) + (y2+y3)(x2-x3)` -/
def area2Quad (a b c d : Pt) : Int :=
  (d.y + a.y) * (d.x - a.x) + (a.y + b.y) * (a.x - b.x) + (b.y + c.y) * (b.x - c.x) + (c.y + d.y) * (c.x - d.x)

/-- twice `Area(path)` for the paths this model builds (4 points); other lengths go through the shoelace sum -/
def area2 : Path → Int
  | [a, b, c, d] => area2Quad a b c d
  | p => shoelace2 p

/-- `IsPositive(poly)`: `Area(poly) >= 0`, exact integer version -/
def isPositive (q : Path) : Bool := decide (0 ≤ area2 q)

/-- the lambda of `std::transform`: `p + pt2` or `p - pt2` -/
def shift (isSum : Bool) (p q : Pt) : Pt := if isSum then p.add q else p.sub q

/-- `path2`: the pattern translated by (or reflected about) `p` -/
def translate (isSum : Bool) (pattern : Path) (p : Pt) : Path := pattern.map (shift isSum p)

/-- `tmp` -/
def tmpOf (isSum : Bool) (pattern path : Path) : Paths := path.map (translate isSum pattern)

/-- the four `emplace_back(tmp[·][·])`; `none` = subscript out of range -/
def mkQuad (tmp : Paths) (g h i j : Nat) : Option Path :=
  match tmp[g]?, tmp[i]? with
  | some rg, some ri =>
    match rg[h]?, ri[h]?, ri[j]?, rg[j]? with
    | some a, some b, some c, some d => some [a, b, c, d]
    | _, _, _, _ => none
  | _, _ => none

/-- `if (!IsPositive(quad)) std::reverse(quad.begin(), quad.end());` -/
def orient (isPos : Path → Bool) (q : Path) : Path := if isPos q then q else q.reverse

/-- inner loop `for (j = 0; j < patLen; j++) { …; h = j; }` over the remaining values of `j`;
state: `h` and `result` -/
def inner (isPos : Path → Bool) (tmp : Paths) (g i : Nat) : List Nat → Nat × Paths → Option (Nat × Paths)
  | [], st => some st
  | j :: js, (h, res) =>
    match mkQuad tmp g h i j with
    | none => none
    | some q => inner isPos tmp g i js (j, res ++ [orient isPos q])

/-- outer loop `for (…; i < pathLen; ++i) { inner; g = i; }` over the remaining values of `i`;
state: `g`, `h`, `result` -/
def outer (isPos : Path → Bool) (tmp : Paths) (patLen : Nat) : List Nat → Nat × Nat × Paths → Option (Nat × Nat × Paths)
  | [], st => some st
  | i :: is, (g, h, res) =>
    match inner isPos tmp g i (List.range' 0 patLen) (h, res) with
    | none => none
    | some (h', res') => outer isPos tmp patLen is (i, h', res')

/-- `detail::Minkowski` with the orientation test as a parameter -/
def minkowskiWith (isPos : Path → Bool) (pattern path : Path) (isSum isClosed : Bool) : Option Paths :=
  let delta := if isClosed then 0 else 1
  let patLen := pattern.length
  let pathLen := path.length
  if patLen = 0 ∨ pathLen = 0 then some []
  else
    let tmp := tmpOf isSum pattern path
    let g := if isClosed then pathLen - 1 else 0
    match outer isPos tmp patLen (List.range' delta (pathLen - delta)) (g, patLen - 1, []) with
    | none => none
    | some (_, _, res) => some res

/-- `detail::Minkowski` (exact `IsPositive`) -/
def minkowski (pattern path : Path) (isSum isClosed : Bool) : Option Paths :=
  minkowskiWith isPositive pattern path isSum isClosed

end Clipper.Model.Minkowski

/-! ### Specification side: the parallelograms of the swept pattern (no loops, no indices) -/
namespace Clipper.Spec.Minkowski
open Clipper

/-- the directed edges (prev, cur) of a closed outline, starting with the closing edge last→first:
`(l[n-1], l[0]), (l[0], l[1]), …, (l[n-2], l[n-1])` -/
def cyclicEdges (l : Path) : List (Pt × Pt) :=
  match l.getLast? with
  | none => []
  | some z => (z :: l).zip l

/-- the path edges swept: all cyclic edges when closed, the `n-1` segments when open -/
def pathEdges (isClosed : Bool) (path : Path) : List (Pt × Pt) :=
  if isClosed then cyclicEdges path else segsOf path

def pm (isSum : Bool) (p q : Pt) : Pt := if isSum then p.add q else p.sub q

/-- the parallelogram spanned by path edge `pg → pi` and pattern edge `qh → qj`, in the code's vertex order -/
def quadAt (isSum : Bool) (pg pi qh qj : Pt) : Path :=
  [pm isSum pg qh, pm isSum pi qh, pm isSum pi qj, pm isSum pg qj]

/-- all parallelograms, path edge major, pattern edge minor; `f` post-processes a quad (orientation) -/
def quadsWith (f : Path → Path) (pattern path : Path) (isSum isClosed : Bool) : Paths :=
  (pathEdges isClosed path).flatMap (fun e =>
    (cyclicEdges pattern).map (fun d => f (quadAt isSum e.1 e.2 d.1 d.2)))

/-- the raw parallelograms -/
def quads (pattern path : Path) (isSum isClosed : Bool) : Paths := quadsWith id pattern path isSum isClosed

/-- closed convex quad membership by cross-product signs; a zero-area quad contains nothing
(all its points lie on its edges) -/
def inQuad (q : Path) (p : Pt) : Bool :=
  match q with
  | [a, b, c, d] =>
    let s1 := cross a b p; let s2 := cross b c p; let s3 := cross c d p; let s4 := cross d a p
    decide (shoelace2 q ≠ 0) &&
      ((decide (0 ≤ s1) && decide (0 ≤ s2) && decide (0 ≤ s3) && decide (0 ≤ s4)) ||
       (decide (s1 ≤ 0) && decide (s2 ≤ 0) && decide (s3 ≤ 0) && decide (s4 ≤ 0)))
  | _ => false

end Clipper.Spec.Minkowski
