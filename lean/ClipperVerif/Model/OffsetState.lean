/-
C12 (and C06/C07) model: the *frame* of `ClipperOffset::ExecuteInternal` / `DoGroupOffset` (clipper.offset.cpp:431-533,
572-611) — which values of the members `delta_`, `group_delta_`, `join_type_`, `end_type_` and of the arc parameters
(`steps_per_rad_`, `step_sin_`, `step_cos_`) are in force while each path is offset, and which routine offsets it.
The geometry (`OffsetPolygon`, `OffsetOpenJoined`, `OffsetOpenPath`, the single-point branch, the final union) is not
modelled (a fuller frame, down to the primitives emitted per vertex, is Model/OffsetFrame.lean of the C06/C07 slice;
this one keeps only the members whose life time matters for C12).  No delta callback (`deltaCallback64_ == nullptr`).  `delta` is an integer here: the frame only negates it,
takes its absolute value and compares it with 1 and 0.5 (`|delta| < 0.5` is `delta = 0`).  Core Lean only.
-/
import ClipperVerif.Spec.Basic
import ClipperVerif.Spec.Enums
namespace Clipper.Model.OffsetState
open Clipper

-- `JoinType` / `EndType` are `Clipper.JoinType` / `Clipper.EndType` of Spec/Enums.lean (C++ declaration order)

/-- `std::abs` on `delta_` -/
def iabs (x : Int) : Int := (x.natAbs : Int)

/-- `std::unique` -/
def unique : Path → Path
  | [] => []
  | [a] => [a]
  | a :: b :: l => if a = b then unique (b :: l) else a :: unique (b :: l)

/-- `StripDuplicates(path, is_closed_path)` (clipper.core.h:662-668) -/
def stripDuplicates (p : Path) (closed : Bool) : Path :=
  let u := unique p
  if closed then
    match u with
    | [] => []
    | f :: _ => (dropClosingRev f u.reverse).reverse
  else u
where
  /-- pop from the back while more than one element is left and the back equals the front -/
  dropClosingRev (front : Pt) : Path → Path
    | [] => []
    | [a] => [a]
    | a :: b :: l => if a = front then dropClosingRev front (b :: l) else a :: b :: l

/-- the sum whose half `Area(path)` returns (clipper.core.h:854-871): Σ (y_prev + y_cur)·(x_prev − x_cur) -/
def areaSum (p : Path) : Int :=
  if p.length < 3 then 0 else
  match p.getLast? with
  | none => 0
  | some last => go last p
where
  go (prev : Pt) : Path → Int
    | [] => 0
    | c :: l => (prev.y + c.y) * (prev.x - c.x) + go c l

/-- `GetLowestClosedPathIdx` (clipper.offset.cpp:36-53): scan all points, keep the index of the path holding the
point with the greatest y (then smallest x); `botPt` starts at `(INT64_MAX, INT64_MIN)`. -/
def getLowestClosedPathIdx (paths : Paths) : Option Nat :=
  (scan paths 0 (none, (2^63 - 1 : Int), (-(2^63) : Int))).1
where
  scanPath (i : Nat) : Path → Option Nat × Int × Int → Option Nat × Int × Int
    | [], acc => acc
    | pt :: l, (r, bx, by') =>
      if pt.y < by' ∨ (pt.y = by' ∧ pt.x ≥ bx) then scanPath i l (r, bx, by')
      else scanPath i l (some i, pt.x, pt.y)
  scan : Paths → Nat → Option Nat × Int × Int → Option Nat × Int × Int
    | [], _, acc => acc
    | p :: ps, i, acc => scan ps (i + 1) (scanPath i p acc)

/-- `ClipperOffset::Group` -/
structure Group where
  pathsIn : Paths
  lowest : Option Nat
  isReversed : Bool
  joinType : JoinType
  endType : EndType
  deriving DecidableEq, Repr

/-- `Group::Group(paths, join_type, end_type)` (clipper.offset.cpp:134-158) -/
def mkGroup (paths : Paths) (jt : JoinType) (et : EndType) : Group :=
  let isJoined := et = .polygon ∨ et = .joined
  let ps := paths.map (fun p => stripDuplicates p isJoined)
  if et = .polygon then
    let low := getLowestClosedPathIdx ps
    { pathsIn := ps, lowest := low,
      isReversed := (match low with | none => false | some i => decide (areaSum (ps.getD i []) < 0)),
      joinType := jt, endType := et }
  else { pathsIn := ps, lowest := none, isReversed := false, joinType := jt, endType := et }

/-- the members of `ClipperOffset` the frame reads and writes -/
structure OState where
  delta : Int := 0                  -- delta_
  groupDelta : Int := 0             -- group_delta_
  joinType : JoinType := .bevel     -- join_type_
  endType : EndType := .polygon     -- end_type_
  stepsFor : Option Int := none     -- the group_delta_ from which steps_per_rad_/step_sin_/step_cos_ were last computed
  deriving DecidableEq, Repr

/-- which routine offsets a path -/
inductive Kind | skipped | point | polygon | joined | openPath
  deriving DecidableEq, Repr

/-- what is in force while one path is offset (only what that routine reads) -/
structure Frame where
  kind : Kind
  groupDelta : Int
  joinType : JoinType
  endType : EndType            -- `.polygon` for single points (not read there)
  steps : Option Int           -- arc parameters, if a Round join or cap can be produced
  deriving DecidableEq, Repr

def usesRound (jt : JoinType) (et : EndType) : Bool := decide (jt = .round) || decide (et = .round)

/-- the loop over `group.paths_in` in `DoGroupOffset` (clipper.offset.cpp:483-535) -/
def pathLoop (g : Group) : OState → Paths → OState × List Frame
  | st, [] => (st, [])
  | st, p :: ps =>
    if p.length = 0 then
      -- `if (pathLen == 0) continue;` : nothing is read, no member is written
      let f : Frame := { kind := .skipped, groupDelta := st.groupDelta, joinType := g.joinType, endType := .polygon, steps := none }
      let (st', fs) := pathLoop g st ps
      (st', f :: fs)
    else if p.length = 1 then
      -- single point: `if (group_delta_ < 1) continue;` else circle/square from group.join_type, abs_delta, steps_per_rad_
      let f : Frame := { kind := (if st.groupDelta < 1 then .skipped else .point), groupDelta := st.groupDelta,
                         joinType := g.joinType, endType := .polygon,
                         steps := (if g.joinType = .round then st.stepsFor else none) }
      let (st', fs) := pathLoop g st ps
      (st', f :: fs)
    else
      -- `end_type_ = group.end_type; if ((pathLen == 2) && (group.end_type == EndType::Joined)) end_type_ = …` (member)
      let st1 : OState := { st with endType := (if p.length = 2 ∧ g.endType = .joined then
                   (if g.joinType = .round then .round else .square) else g.endType) }
      let k : Kind := if st1.endType = .polygon then .polygon else if st1.endType = .joined then .joined else .openPath
      let f : Frame := { kind := k, groupDelta := st1.groupDelta, joinType := st1.joinType, endType := st1.endType,
                         steps := (if usesRound st1.joinType st1.endType then st1.stepsFor else none) }
      let (st', fs) := pathLoop g st1 ps
      (st', f :: fs)

/-- `DoGroupOffset` up to the path loop (clipper.offset.cpp:446-480) -/
def groupHeader (st : OState) (g : Group) : OState :=
  let st1 : OState :=
    if g.endType = .polygon then
      let d := if g.lowest.isNone then iabs st.delta else st.delta      -- the local `d`; `delta_` is left alone
      { st with groupDelta := (if g.isReversed then -d else d) }
    else { st with groupDelta := iabs st.delta }
  let st2 := { st1 with joinType := g.joinType, endType := g.endType }
  if g.joinType = .round ∨ g.endType = .round then { st2 with stepsFor := some st2.groupDelta } else st2

def doGroupOffset (st : OState) (g : Group) : OState × List Frame :=
  pathLoop g (groupHeader st g) g.pathsIn

/-- the loop over `groups_` in `ExecuteInternal` -/
def groupLoop : OState → List Group → OState × List (List Frame)
  | st, [] => (st, [])
  | st, g :: gs =>
    let (st1, fs) := doGroupOffset st g
    let (st2, fss) := groupLoop st1 gs
    (st2, fs :: fss)

/-- `ExecuteInternal(delta)`, frame only.  `|delta| < 0.5` (integer: `delta = 0`): the groups' paths are copied (Polygon
groups only), no path is offset and no member of the frame is written.  Otherwise `delta_ = delta`, then the groups.
`st` is the object's state left by whatever happened before. -/
def executeFrames (st : OState) (delta : Int) (gs : List Group) : OState × List (List Frame) :=
  if delta = 0 then (st, []) else groupLoop { st with delta := delta } gs

/-- what the `|delta| < 0.5` branch puts into the raw solution: the (duplicate-stripped) paths of the Polygon groups -/
def insignificantCopy (gs : List Group) : Paths :=
  (gs.filter (fun g => decide (g.endType = .polygon))).flatMap (·.pathsIn)

/-- `delta_` as group `g` sees it when nothing came before it -/
def refDelta (delta : Int) (g : Group) : Int :=
  if g.endType = .polygon ∧ g.lowest.isNone then iabs delta else delta

/-- `group_delta_` of group `g` as a function of `delta` and the group's own parameters -/
def refGroupDelta (delta : Int) (g : Group) : Int :=
  if g.endType = .polygon then (if g.isReversed then -(refDelta delta g) else refDelta delta g) else iabs delta

/-- the `end_type_` in force for a path of `n` vertices in group `g` -/
def refEndType (g : Group) (n : Nat) : EndType :=
  if n = 2 ∧ g.endType = .joined then (if g.joinType = .round then .round else .square) else g.endType

/-- What the frame of path `p` of group `g` is when nothing but `delta`, the group's own parameters and the path's
length enters (the frame a fresh object uses when `p` is the group's only path — `refFrame_is_alone` in Props/C12Offset). -/
def refFrame (delta : Int) (g : Group) (p : Path) : Frame :=
  let gd := refGroupDelta delta g
  if p.length = 0 then
    { kind := .skipped, groupDelta := gd, joinType := g.joinType, endType := .polygon, steps := none }
  else if p.length = 1 then
    { kind := (if gd < 1 then .skipped else .point), groupDelta := gd, joinType := g.joinType, endType := .polygon,
      steps := (if g.joinType = .round then some gd else none) }
  else
    let et := refEndType g p.length
    { kind := (if et = .polygon then .polygon else if et = .joined then .joined else .openPath),
      groupDelta := gd, joinType := g.joinType, endType := et,
      steps := (if usesRound g.joinType et then some gd else none) }

end Clipper.Model.OffsetState
