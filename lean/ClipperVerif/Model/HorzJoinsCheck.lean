/-
Executable judges for the horizontal-join slice (driver command `HORZJOINSHYP`): they *decide the very propositions* the theorems of
`Props/C02Horz.lean` are stated with (`Rings`, `RectEdges`, `JoinFlat`, `JoinsOK`, `OnY`, the `takeWhile` characterisation of
`UpdateHorzSegment`'s walks) — through `Decidable` instances, so there is no checker-soundness gap — on the heaps the real engine
had before and after `ConvertHorzSegsToJoins` / `ProcessHorzJoins` / `UpdateHorzSegment`.
`strict = true` (heaps of real sweeps, and hand-built heaps of the intended shape): a violated premise is a FAIL;
`strict = false` (hand-built heaps that violate a premise on purpose): it is reported as `ok skip …`.
Core Lean only.
-/
import ClipperVerif.Model.HorzJoins
import ClipperVerif.Lemmas.HorzJoinsConvert
import ClipperVerif.Lemmas.HorzJoinsOwner
import ClipperVerif.Lemmas.HorzJoinsProcWF
namespace Clipper.Model.HorzJoins

instance decLinkF (nx pv : PF) (a b : Nat) : Decidable (LinkF nx pv a b) := by unfold LinkF; exact inferInstance

def decChainF (nx pv : PF) : (l : List Nat) → Decidable (ChainF nx pv l)
  | [] => isTrue trivial
  | [_] => isTrue trivial
  | a :: b :: r =>
    match decLinkF nx pv a b, decChainF nx pv (b :: r) with
    | isTrue h1, isTrue h2 => isTrue ⟨h1, h2⟩
    | isFalse h1, _ => isFalse (fun h => h1 h.1)
    | _, isFalse h2 => isFalse (fun h => h2 h.2)

instance (nx pv : PF) (l : List Nat) : Decidable (ChainF nx pv l) := decChainF nx pv l

instance decIsRingF (nx pv : PF) : (c : List Nat) → Decidable (IsRingF nx pv c)
  | [] => isFalse (fun h => h)
  | a :: t => by unfold IsRingF; exact inferInstance

instance (H : Heap) (rs : List (List Nat)) : Decidable (Rings H rs) :=
  decidable_of_iff ((∀ c ∈ rs, IsRingF (nextOf H) (prevOf H) c) ∧ rs.flatten.Perm (List.range H.ops.size))
    ⟨fun h => ⟨h.1, h.2⟩, fun h => ⟨h.ring, h.perm⟩⟩

instance (P : Nat → Option Pt) (a b : Nat) : Decidable (Aligned P a b) :=
  match h1 : P a, h2 : P b with
  | some p, some q =>
    if h : p.x = q.x ∨ p.y = q.y then isTrue ⟨p, q, h1, h2, h⟩
    else isFalse (fun ⟨p', q', e1, e2, e3⟩ => by rw [h1] at e1; rw [h2] at e2; cases e1; cases e2; exact h e3)
  | none, _ => isFalse (fun ⟨_, _, e1, _, _⟩ => by rw [h1] at e1; cases e1)
  | _, none => isFalse (fun ⟨_, _, _, e2, _⟩ => by rw [h2] at e2; cases e2)

/-- `RectEdges` over the valid indices (for an invalid index `nextOf` is `none`) -/
def rectEdgesB (H : Heap) : Bool :=
  (List.range H.ops.size).all (fun a => match nextOf H a with
    | some b => decide (Aligned (ptOf H) a b)
    | none => true)

theorem rectEdgesB_iff (H : Heap) : rectEdgesB H = true ↔ RectEdges H := by
  unfold rectEdgesB RectEdges
  simp only [List.all_eq_true, List.mem_range]
  constructor
  · intro h a b hab
    have ha : a < H.ops.size := by
      obtain ⟨n, hn, _⟩ := nextOf_some.1 hab; exact lt_of_node hn
    have := h a ha
    rw [hab] at this; simpa using this
  · intro h a _
    cases hab : nextOf H a with
    | none => rfl
    | some b => simpa using h a b hab

def onYB (H : Heap) (y0 : Int) (v : Nat) : Bool :=
  match ptOf H v with
  | some p => p.y == y0
  | none => false

theorem onYB_iff (H : Heap) (y0 : Int) (v : Nat) : onYB H y0 v = true ↔ OnY H y0 v := by
  unfold onYB OnY
  cases ptOf H v <;> simp

def joinFlatB (H : Heap) (j : HorzJoin) : Bool :=
  match nextOf H j.op1, prevOf H j.op2, ptOf H j.op1, ptOf H j.op2 with
  | some a, some b, some p1, some p2 =>
    (match ptOf H a, ptOf H b with
     | some pa, some pb => p2.y == p1.y && pa.y == p1.y && pb.y == p1.y
     | _, _ => false)
  | _, _, _, _ => false

theorem joinFlatB_iff (H : Heap) (j : HorzJoin) : joinFlatB H j = true ↔ JoinFlat H j := by
  unfold joinFlatB JoinFlat
  constructor
  · intro h
    split at h
    · rename_i a b p1 p2 h1 h2 h3 h4
      split at h
      · rename_i pa pb h5 h6
        simp only [Bool.and_eq_true, beq_iff_eq] at h
        exact ⟨a, b, p1, p2, pa, pb, h1, h2, h3, h4, h5, h6, h.1.1, h.1.2, h.2⟩
      · cases h
    · cases h
  · rintro ⟨a, b, p1, p2, pa, pb, h1, h2, h3, h4, h5, h6, e1, e2, e3⟩
    simp [h1, h2, h3, h4, h5, h6, e1, e2, e3]

instance (H : Heap) (js : List HorzJoin) : Decidable (JoinsOK H js) := by unfold JoinsOK; exact inferInstance

/-- the rings of the heap, read from the `pts` of the records that have them -/
def ringsOf (H : Heap) : List (List Nat) :=
  H.recs.toList.filterMap (fun r => match r.pts with
    | some p => (match ring H p with | .ok l => some l | .error _ => none)
    | none => none)

def resolvesB (H : Heap) (o r : Nat) : Bool :=
  match realOf H o with
  | .ok (some r') => r' == r
  | _ => false

theorem resolvesB_iff (H : Heap) (o r : Nat) : resolvesB H o r = true ↔ realOf H o = .ok (some r) := by
  unfold resolvesB
  cases h : realOf H o with
  | error e => simp
  | ok v => cases v <;> simp

/-- `RecsOK H rs`, decided: every ring's `OutPt`s resolve to one record whose `pts` is on that ring, and the `pts` of every
record that has them resolves to the record -/
def recsOKB (H : Heap) (rs : List (List Nat)) : Bool :=
  rs.all (fun c => (List.range H.recs.size).any (fun r =>
      (match (H.recs[r]?).bind (·.pts) with
       | some p => c.contains p
       | none => false) &&
      c.all (fun i => match orecOf H i with
        | some o => resolvesB H o r
        | none => true))) &&
  (List.range H.recs.size).all (fun r => match (H.recs[r]?).bind (·.pts) with
    | some p => (match orecOf H p with
      | some o => resolvesB H o r
      | none => false)
    | none => true)

theorem recsOKB_sound {H : Heap} {rs : List (List Nat)} (h : recsOKB H rs = true) : RecsOK H rs := by
  unfold recsOKB at h
  simp only [Bool.and_eq_true, List.all_eq_true, List.any_eq_true, List.mem_range] at h
  obtain ⟨h1, h2⟩ := h
  constructor
  · intro c hc
    obtain ⟨r, _, hp, hall⟩ := h1 c hc
    cases hpp : (H.recs[r]?).bind (·.pts) with
    | none => rw [hpp] at hp; simp at hp
    | some p =>
      rw [hpp] at hp
      refine ⟨r, p, hpp, by simpa using hp, ?_⟩
      intro i hi o hio
      have := hall i hi
      rw [hio] at this
      exact (resolvesB_iff H o r).1 this
  · intro r rc p hrc hp
    have hr : r < H.recs.size := lt_of_rec hrc
    have := h2 r hr
    simp only [hrc, Option.bind_some, hp] at this
    cases ho : orecOf H p with
    | none => rw [ho] at this; simp at this
    | some o => rw [ho] at this; exact ⟨o, rfl, (resolvesB_iff H o r).1 this⟩

namespace Check

def fmtList (l : List Nat) : String := " ".intercalate (l.map toString)

/-- `ConvertHorzSegsToJoins`: premises and conclusions of `convertHorzSegsToJoins_keeps` on the engine's own before/after heaps -/
def judgeConvert (strict : Bool) (H : Heap) (ls : List Nat) (js0 : List HorzJoin) (H1 : Heap) (js1 : List HorzJoin) : String :=
  let rs := ringsOf H
  if !decide (Rings H rs) then "FAIL the heap before ConvertHorzSegsToJoins is not a set of rings each owned by one record"
  else if !recsOKB H rs then "FAIL before ConvertHorzSegsToJoins some OutPt's outrec does not resolve to the record owning its ring"
  else
    match ls with
    | [] => "ok no segments"
    | l0 :: _ =>
      match ptOf H l0 with
      | none => "FAIL a trial OutPt is not in the heap"
      | some p0 =>
        let y0 := p0.y
        if !ls.all (onYB H y0) then
          (if strict then s!"FAIL the trial OutPts are not all on the scanline y={y0}: " ++ fmtList ls
           else "ok skip premise violated on purpose: trial OutPts on several lines")
        else
          -- conclusions, on what the engine produced
          let rs1 := ringsOf H1
          let n0 := H.ops.size
          let m := js1.length - js0.length
          if !decide (Rings H1 rs1) then "FAIL after ConvertHorzSegsToJoins the heap is not a set of rings"
          else if !recsOKB H1 rs1 then "FAIL after ConvertHorzSegsToJoins some OutPt's outrec does not resolve to the record owning its ring"
          else if rs1.length != rs.length then "FAIL the number of rings changed"
          else if H1.recs != H.recs then "FAIL ConvertHorzSegsToJoins changed a record"
          else if H1.ops.size != n0 + 2 * m then "FAIL the number of new OutPts is not twice the number of new joins"
          else if js1 != js0 ++ (List.range m).map (newJoin n0) then "FAIL the new joins are not (n0+2t, n0+2t+1)"
          else if !(List.range n0).all (fun i => ptOf H1 i == ptOf H i && orecOf H1 i == orecOf H i) then "FAIL an old OutPt changed its point or outrec"
          else if !((List.range (2 * m)).all (fun t => onYB H1 y0 (n0 + t) &&
                    (List.range n0).any (fun a => ptOf H1 (n0 + t) == ptOf H a && orecOf H1 (n0 + t) == orecOf H a))) then
            "FAIL a new OutPt is not a duplicate of an old one on the scanline"
          else if rectEdgesB H && !rectEdgesB H1 then "FAIL a diagonal edge appeared"
          else if !((js1.drop js0.length).all (joinFlatB H1)) then
            s!"FAIL a join made by ConvertHorzSegsToJoins is not flat (op1, op2, op1->next, op2->prev on one line)"
          else s!"ok joins={m} rect={rectEdgesB H}"

/-- `ProcessHorzJoins`: premises and conclusions of `processHorzJoins_keeps` -/
def judgeProcess (strict : Bool) (_tree : Bool) (H : Heap) (js : List HorzJoin) (H1 : Heap) : String :=
  let rs := ringsOf H
  if !decide (Rings H rs) then "FAIL the heap before ProcessHorzJoins is not a set of rings each owned by one record"
  else if !recsOKB H rs then "FAIL before ProcessHorzJoins some OutPt's outrec does not resolve to the record owning its ring"
  else if !decide (JoinsOK H js) then
    (if strict then "FAIL the ops of horz_join_list_ are not distinct valid OutPts" else "ok skip premise violated on purpose: join ops not distinct")
  else
    let flat := js.all (joinFlatB H)
    if strict && !flat then "FAIL a join of horz_join_list_ is not flat when ProcessHorzJoins starts"
    else
      let rs1 := ringsOf H1
      -- two records sharing a ring after the pass (`op1->next == op2` for a same-ring join) are reported
      if !decide (Rings H1 rs1) then
        (if strict then "FAIL after ProcessHorzJoins the heap is not a set of rings each owned by one record"
         else "ok skip degenerate join (op1->next == op2): two records share a ring")
      else if !recsOKB H1 rs1 then
        (if strict then "FAIL after ProcessHorzJoins some OutPt's outrec does not resolve to the record owning its ring"
         else "ok skip degenerate join: an outrec does not resolve to the owner of its ring")
      else if H1.ops.size != H.ops.size then "FAIL ProcessHorzJoins changed the number of OutPts"
      else if !(List.range H.ops.size).all (fun i => ptOf H1 i == ptOf H i) then "FAIL ProcessHorzJoins moved a point"
      else if flat && rectEdgesB H && !rectEdgesB H1 then "FAIL flat joins created a diagonal edge"
      else
        let splits := H1.recs.size - H.recs.size
        let merges := js.length - splits
        if rs1.length + merges != rs.length + splits then "FAIL ring count: not one more per split and one less per merge"
        else s!"ok joins={js.length} splits={splits} merges={merges} flat={flat} rect={rectEdgesB H}"

/-- `UpdateHorzSegment`: the run ends the engine found against the `takeWhile` characterisation (`runEnds_none_spec` /
`runEnds_some_spec`), recomputed here from the ring -/
def judgeUpdate (H : Heap) (l : Nat) (res : Bool) (left : Nat) (right : Option Nat) (ltr : Bool) : String :=
  let rs := ringsOf H
  if !decide (Rings H rs) then "FAIL the heap is not a set of rings"
  else
    match ptOf H l, orecOf H l with
    | some p, some o =>
      match realOf H o with
      | .ok (some r) =>
        match H.recs[r]?, ring H l with
        | some rc, .ok c =>
          let y := p.y
          let rest := c.drop 1
          -- the expected run ends
          let ends : Option (Nat × Nat) :=
            if rc.hasEdges then
              match rc.pts with
              | some opA =>
                -- the ring read from opZ = opA->next: X ++ l :: Y
                (match ring H opA with
                 | .ok ca =>
                   let cz := ca.drop 1 ++ ca.take 1
                   let X := cz.takeWhile (· != l)
                   let Y := (cz.dropWhile (· != l)).drop 1
                   some ((X.reverse.takeWhile (onLine H y)).getLastD l, (Y.takeWhile (onLine H y)).getLastD l)
                 | .error _ => none)
              | none => none
            else
              let opP := ((rest.reverse ++ [l]).takeWhile (fun v => v != l && onLine H y v)).getLastD l
              some (opP, ((rest ++ [l]).takeWhile (fun v => v != opP && onLine H y v)).getLastD l)
          match ends with
          | none => "FAIL could not read the ring of the record"
          | some (opP, opN) =>
            match ptOf H opP, ptOf H opN with
            | some pP, some pN =>
              -- SetHorzSegHeadingForward and the horz mark
              let hd := setHeading { leftOp := l } opP opN pP.x pN.x
              let marked := ((H.ops[hd.1.leftOp]?).map (·.horz)).getD false
              let expRes := hd.2 && !marked
              let expRight := if expRes then hd.1.rightOp else none
              if res != expRes then s!"FAIL result {res}, the specification gives {expRes}"
              else if left != hd.1.leftOp then s!"FAIL left_op {left}, the run end is {hd.1.leftOp}"
              else if right != expRight then "FAIL right_op differs from the run end"
              else if ltr != hd.1.ltr then "FAIL left_to_right differs"
              else s!"ok edges={rc.hasEdges} result={res} run={opP}..{opN}"
            | _, _ => "FAIL run end outside the heap"
        | _, _ => "FAIL record or ring unreadable"
      | _ => "FAIL outrec does not resolve"
    | _, _ => "FAIL the OutPt is not in the heap"

end Check
end Clipper.Model.HorzJoins
