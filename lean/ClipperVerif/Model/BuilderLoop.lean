/-
The outrec loop shared by the four solution builders (`Clipper64::BuildPaths64`, `Clipper64::BuildTree64`,
`ClipperD::BuildPathsD`, `ClipperD::BuildTreeD`):

    for (size_t i = 0; i < outrec_list_.size(); ++i) { body(i); }

where the body (`CleanCollinear` -> `FixSelfIntersects` -> `DoSplitOp`, directly or through `CheckBounds`) may APPEND records to
`outrec_list_`.  `dynLoop` is that loop over an abstract state: `size` reads `outrec_list_.size()`, `body` is one turn.
`hoistedLoop` is the variant with the bound read once before the loop.  Core Lean only.
-/
namespace Clipper.Model.BuilderLoop

variable {σ : Type}

/-- `for (i = i0; i < size(); ++i) body(i)` with the size re-read on every turn; the result is the final state and the
indices visited, in order.  `none` = out of fuel. -/
def dynLoop (size : σ → Nat) (body : σ → Nat → σ) : Nat → Nat → σ → Option (σ × List Nat)
  | 0, _, _ => none
  | fuel + 1, i, s =>
    if i < size s then
      match dynLoop size body fuel (i + 1) (body s i) with
      | some (s', vis) => some (s', i :: vis)
      | none => none
    else some (s, [])

/-- `for (i = i0, cnt = size(); i < cnt; ++i) body(i)`: the bound is read once -/
def hoistedLoop (size : σ → Nat) (body : σ → Nat → σ) (i0 : Nat) (s : σ) : σ × List Nat :=
  (List.range' i0 (size s - i0)).foldl (fun (acc : σ × List Nat) i => (body acc.1 i, acc.2 ++ [i])) (s, [])

end Clipper.Model.BuilderLoop
