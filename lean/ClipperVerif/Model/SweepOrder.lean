/-
Geometric sweep model at the level of SCANBEAMS (property C01, capstone of the AEL-order slices).

`ClipperBase::ExecuteInternal` (clipper.engine.cpp):
```
    while (succeeded_) {
      InsertLocalMinimaIntoAEL(y);                    // (1)  y = y₀, bottom of the scanbeam
      while (PopHorz(e)) DoHorizontal(*e);            //      -- horizontal edges: NOT modelled in this version
      ...
      bot_y_ = y;
      if (!PopScanline(y)) break;                     //      y = y₁ < y₀, top of the scanbeam
      DoIntersections(y);                             // (2)  BuildIntersectList(y₁) + ProcessIntersectList
      DoTopOfScanbeam(y);                             // (3)  maxima leave, UpdateEdgeIntoAEL at intermediate vertices
      while (PopHorz(e)) DoHorizontal(*e);
    }
```
The sweep runs towards SMALLER y (`bot.y > top.y` for every edge).  This file models the ORDER of the active edge list only
(no winding counts, no output): an edge is `(id, bot, top)` with integer end points; an AEL is a `List SEdge`, left to right.

* (1) `insertMins`: for every local minimum popped at `y₀` the pair (left bound, right bound) — already put in this order, as
      the C++ does by comparing `dx` — is inserted with `Model.AelOrder.insertLeft` (`InsertLeftEdge`) and
      `Model.AelOrder.insertRight` (`InsertRightEdge` + the settling loop).  The predicate `valid` is a parameter; the sweep
      theorems assume what `Props/C01Sweep.isValidAelOrder_agrees` proves of the regenerated `IsValidAelOrder`.
      No joined edges (`join_with` is `NoJoin` throughout: `joinRight = fun _ => false`).
* (2) `doIntersections`: the stable sort of the AEL by the key `cx e y₁` (`curr_x` as `AdjustCurrXAndCopyToSEL` sets it,
      `TopX(e, y₁)`).  That this is what `BuildIntersectList` + `ProcessIntersectList` do to the AEL is the theorem
      `Props/C01Sweep.doIntersections_is_engine` (composition with `Props/C10Isect`), not an assumption.  (Written as a structural
      insertion sort so that the kernel can evaluate examples; equal to core's `List.mergeSort`: `doIntersections_eq_mergeSort`.)
* (3) `topOfBeam`: an edge whose top is on the scanline is removed (`DoMaxima`: `next e = none`) or replaced IN PLACE by the
      next edge of its bound (`UpdateEdgeIntoAEL`: same position, `bot := old top`).

`cx : SEdge → Int → Int` stands for `TopX`: ANY function within 1/2 of the exact x (`Near`).  (No monotonicity is needed: general
position is stated on the exact x-coordinates.)  `rhe` — exact value rounded half to even — is one such function
(`Lemmas/SweepOrder.rhe_near`) and is what the driver uses to replay real sweeps.

The second half of the file derives the event list (edges, bound continuation, local minima, scanlines) from closed paths
(`build`) and states the hypotheses of the sweep theorems as decidable predicates (`Built.Hyp`).

Horizontal edges are excluded (`SEdge.Up`), and so are open paths.  Core Lean only.
-/
import ClipperVerif.Model.AelOrder
import ClipperVerif.Model.BuildIntersectList
import ClipperVerif.Model.IntersectList
namespace Clipper.Model.SweepOrder
open Clipper Clipper.Model.AelOrder

/-- an edge of the sweep: identity (stands for the input edge), lower end point `bot`, upper end point `top` -/
structure SEdge where
  id : Nat
  bot : Pt
  top : Pt
  deriving DecidableEq, Repr, Inhabited

/-- not horizontal, `bot` below `top` (y grows downwards) -/
def SEdge.Up (e : SEdge) : Prop := e.top.y < e.bot.y
instance (e : SEdge) : Decidable e.Up := by unfold SEdge.Up; infer_instance

/-! ## exact x-coordinate at a scanline: the fraction `exN e y / exD e` -/

/-- denominator of the exact x (positive for an `Up` edge) -/
def exD (e : SEdge) : Int := e.bot.y - e.top.y
/-- numerator of the exact x of the line through `bot` and `top` at the integer height `y`
(`= Model.AelOrder.xNum bot top y 1`, see `Lemmas/SweepOrder.exN_eq_xNum`) -/
def exN (e : SEdge) (y : Int) : Int := e.bot.x * (e.bot.y - e.top.y) + (e.top.x - e.bot.x) * (e.bot.y - y)
/-- horizontal run of the edge from bottom to top; `run e / exD e` is the change of x per unit of height climbed -/
def run (e : SEdge) : Int := e.top.x - e.bot.x

/-- `a` is strictly left of `b` at height `y` (cross-multiplied) -/
def xlt (y : Int) (a b : SEdge) : Prop := exN a y * exD b < exN b y * exD a
/-- `a` and `b` have the same exact x at height `y` -/
def xeq (y : Int) (a b : SEdge) : Prop := exN a y * exD b = exN b y * exD a
/-- `a` is left of `b` by MORE than one unit at height `y`:  `x_a + 1 < x_b` -/
def xltBy1 (y : Int) (a b : SEdge) : Prop := (exN a y + exD a) * exD b < exN b y * exD a
/-- the exact x of `a` and `b` at height `y` differ by more than 1 -/
def far (y : Int) (a b : SEdge) : Prop := xltBy1 y a b ∨ xltBy1 y b a
/-- going up, `a` turns to the left of `b`: `run a / exD a < run b / exD b` -/
def slt (a b : SEdge) : Prop := run a * exD b < run b * exD a

/-- **the order of the AEL just ABOVE the scanline `y`** (at `y - ε`): by exact x at `y`; edges through one point by their
direction.  This is the order `IsValidAelOrder` decides (`Props/C01Order.isValidAelOrder_spec_gp`). -/
def ltAbove (y : Int) (a b : SEdge) : Prop := xlt y a b ∨ (xeq y a b ∧ slt a b)
/-- the order just BELOW the scanline `y` (at `y + ε`, inside the scanbeam whose top is `y`) -/
def ltBelow (y : Int) (a b : SEdge) : Prop := xlt y a b ∨ (xeq y a b ∧ slt b a)

instance (y : Int) (a b : SEdge) : Decidable (xlt y a b) := by unfold xlt; infer_instance
instance (y : Int) (a b : SEdge) : Decidable (xeq y a b) := by unfold xeq; infer_instance
instance (y : Int) (a b : SEdge) : Decidable (xltBy1 y a b) := by unfold xltBy1; infer_instance
instance (y : Int) (a b : SEdge) : Decidable (far y a b) := by unfold far; infer_instance
instance (a b : SEdge) : Decidable (slt a b) := by unfold slt; infer_instance
instance (y : Int) (a b : SEdge) : Decidable (ltAbove y a b) := by unfold ltAbove; infer_instance
instance (y : Int) (a b : SEdge) : Decidable (ltBelow y a b) := by unfold ltBelow; infer_instance

/-! ## rounding -/

/-- what is assumed of `TopX`: for an edge that reaches the height `y`, the value is within 1/2 of the exact x -/
def Near (cx : SEdge → Int → Int) : Prop :=
  ∀ e y, e.Up → e.top.y ≤ y → y ≤ e.bot.y →
    2 * (cx e y * exD e - exN e y) ≤ exD e ∧ -(exD e) ≤ 2 * (cx e y * exD e - exN e y)

/-- `n/d` rounded to nearest, ties to even (`d > 0`) — `nearbyint` in the default rounding mode on the exact quotient -/
def roundHalfEven (n d : Int) : Int :=
  let q := (2 * n + d) / (2 * d)
  if (2 * n + d) % (2 * d) = 0 ∧ q % 2 = 1 then q - 1 else q

/-- the exact x rounded half to even: one admissible `cx` -/
def rhe (e : SEdge) (y : Int) : Int := roundHalfEven (exN e y) (exD e)
/-- the exact x rounded half up: another one (differs from `rhe` at ties) -/
def rhu (e : SEdge) (y : Int) : Int := (2 * exN e y + exD e) / (2 * exD e)

/-! ## the three steps of a scanbeam -/

/-- one local minimum: `InsertLeftEdge(left bound)`, then `InsertRightEdge(left, right)` + settling loop.
(`insertLeftPos = none` — the `if (!e2) return` path of `InsertLeftEdge` — needs a joined edge: unreachable here.) -/
def insertBound (valid : SEdge → SEdge → Bool) (ael : List SEdge) (p : SEdge × SEdge) : List SEdge :=
  match insertLeftPos valid (fun _ => false) ael p.1 with
  | some i => insertRight valid (insertLeft valid (fun _ => false) ael p.1) i p.2
  | none => insertLeft valid (fun _ => false) ael p.1

/-- step (1): `InsertLocalMinimaIntoAEL(y₀)` for the local minima `ms` in the order they are popped -/
def insertMins (valid : SEdge → SEdge → Bool) (ael : List SEdge) (ms : List (SEdge × SEdge)) : List SEdge :=
  ms.foldl (insertBound valid) ael

/-- the comparison of the stable sort of step (2) -/
def leCx (cx : SEdge → Int → Int) (y1 : Int) (a b : SEdge) : Bool := decide (cx a y1 ≤ cx b y1)

/-- insert `a` in front of the first element that is not smaller -/
def insertBefore {α : Type} (le : α → α → Bool) (a : α) : List α → List α
  | [] => [a]
  | b :: l => if le a b then a :: b :: l else b :: insertBefore le a l

/-- a stable sort by structural recursion (the kernel can evaluate it, unlike core's `List.mergeSort`, which is defined by
well-founded recursion); equal to `List.mergeSort` for every total preorder: `Lemmas/SweepOrder.stableSort_eq_mergeSort` -/
def stableSort {α : Type} (le : α → α → Bool) (l : List α) : List α := l.foldr (insertBefore le) []

/-- step (2): `DoIntersections(y₁)` — the AEL stably sorted by `curr_x = cx · y₁`
(`= ael.mergeSort (leCx cx y₁)`: `Lemmas/SweepOrder.doIntersections_eq_mergeSort`) -/
def doIntersections (cx : SEdge → Int → Int) (y1 : Int) (ael : List SEdge) : List SEdge :=
  stableSort (leCx cx y1) ael

/-- the AEL as `BuildIntersectList` sees it: `(Active*, curr_x)` -/
def keyed (cx : SEdge → Int → Int) (y1 : Int) (ael : List SEdge) : List BuildIntersectList.Edge :=
  ael.map (fun e => (e.id, cx e y1))

/-- the identities, left to right -/
def idsOf (ael : List SEdge) : List Nat := ael.map (·.id)

/-- step (3), one edge: `DoTopOfScanbeam(y₁)` -/
def topStep (next : SEdge → Option SEdge) (y1 : Int) (e : SEdge) : Option SEdge :=
  if e.top.y = y1 then next e else some e

/-- step (3): `DoTopOfScanbeam(y₁)` -/
def topOfBeam (next : SEdge → Option SEdge) (y1 : Int) (ael : List SEdge) : List SEdge :=
  ael.filterMap (topStep next y1)

/-! ## the sweep -/

/-- the AEL at the three stages of one scanbeam -/
structure Snap where
  y0 : Int
  y1 : Int
  /-- after `InsertLocalMinimaIntoAEL(y₀)` -/
  inserted : List SEdge
  /-- after `DoIntersections(y₁)` -/
  afterIsect : List SEdge
  /-- after `DoTopOfScanbeam(y₁)` -/
  afterTop : List SEdge
  deriving Repr, Inhabited

/-- one scanbeam -/
def beamStep (valid : Int → SEdge → SEdge → Bool) (cx : SEdge → Int → Int) (next : SEdge → Option SEdge)
    (mins : Int → List (SEdge × SEdge)) (ael : List SEdge) (y0 y1 : Int) : Snap :=
  let a1 := insertMins (valid y0) ael (mins y0)
  let a2 := doIntersections cx y1 a1
  ⟨y0, y1, a1, a2, topOfBeam next y1 a2⟩

/-- the whole sweep over the scanlines `ys` (descending), starting with the AEL `ael` before the insertions of the first
scanline.  (On the last scanline the C++ loop only calls `InsertLocalMinimaIntoAEL` once more; nothing starts at the topmost
scanline, so no snapshot is recorded for it.) -/
def sweepFrom (valid : Int → SEdge → SEdge → Bool) (cx : SEdge → Int → Int) (next : SEdge → Option SEdge)
    (mins : Int → List (SEdge × SEdge)) : List SEdge → List Int → List Snap
  | ael, y0 :: y1 :: rest =>
    let s := beamStep valid cx next mins ael y0 y1
    s :: sweepFrom valid cx next mins s.afterTop (y1 :: rest)
  | _, _ => []

/-! ## the hypotheses of the sweep theorems, as decidable predicates over the input edges

`edges` = all input edges (each oriented upwards), `next e` = the edge that continues `e`'s bound (`none` at a local maximum),
`mins y` = the local minima on the scanline `y` as (left bound, right bound), in the order they are popped.  The driver
evaluates these predicates on every real input (`SWEEPHYP`), so the evidence counts how often the theorems apply. -/

/-- `e` reaches the scanline `y` from below and continues above it: it is in the AEL while the scanbeam ABOVE `y` is swept -/
def AliveAbove (y : Int) (e : SEdge) : Prop := e.top.y < y ∧ y ≤ e.bot.y
/-- `e` is in the AEL while the scanbeam BELOW `y` (whose top is `y`) is swept -/
def AliveBelow (y : Int) (e : SEdge) : Prop := e.top.y ≤ y ∧ y < e.bot.y
instance (y : Int) (e : SEdge) : Decidable (AliveAbove y e) := by unfold AliveAbove; infer_instance
instance (y : Int) (e : SEdge) : Decidable (AliveBelow y e) := by unfold AliveBelow; infer_instance

/-- the two bounds of one local minimum of `ms` -/
def IsMinPair (ms : List (SEdge × SEdge)) (a b : SEdge) : Prop := (a, b) ∈ ms ∨ (b, a) ∈ ms
instance (ms : List (SEdge × SEdge)) (a b : SEdge) : Decidable (IsMinPair ms a b) := by unfold IsMinPair; infer_instance

/-- the edges of the local minima `ms`, flattened -/
def boundsOf (ms : List (SEdge × SEdge)) : List SEdge := ms.flatMap (fun p => [p.1, p.2])

/-- no horizontal input edge -/
def AllUp (edges : List SEdge) : Prop := ∀ e ∈ edges, e.Up
/-- every vertex height is a scanline: no edge ends strictly inside the scanbeam `[y1, y0]` -/
def NoTopInside (edges : List SEdge) (y0 y1 : Int) : Prop := ∀ e ∈ edges, ¬ (y1 < e.top.y ∧ e.top.y < y0)
/-- the local minima on the scanline `y`: input edges leaving one point on the scanline, left bound turning left of the right
bound (the C++ orders the two by `dx`), no edge in two of them -/
def MinsOK (edges : List SEdge) (ms : List (SEdge × SEdge)) (y : Int) : Prop :=
  (∀ p ∈ ms, p.1 ∈ edges ∧ p.2 ∈ edges ∧ p.1.bot = p.2.bot ∧ p.1.bot.y = y ∧ slt p.1 p.2) ∧ (boundsOf ms).Nodup
/-- `next` continues a bound: the successor is an input edge starting at the old top, and is not the bound of a local minimum -/
def NextOK (edges : List SEdge) (next : SEdge → Option SEdge) (mins : Int → List (SEdge × SEdge)) : Prop :=
  ∀ e ∈ edges, ∀ e', next e = some e' → e' ∈ edges ∧ e'.bot = e.top ∧ e' ∉ boundsOf (mins e'.bot.y)
/-- **general position at a local minimum on the scanline `y`**: every other edge that continues above `y` is more than one
unit away (at `y`) from the two bounds of the local minimum, i.e. from its vertex -/
def GPmin (edges : List SEdge) (ms : List (SEdge × SEdge)) (y : Int) : Prop :=
  ∀ p ∈ ms, ∀ r ∈ edges, AliveAbove y r → r ≠ p.1 → r ≠ p.2 → far y r p.1 ∧ far y r p.2
/-- **general position at the top `y` of a scanbeam**: two different edges of the scanbeam are more than one unit apart at `y`,
unless they end in the same point on `y` and both bounds end there (a local maximum) -/
def GPtop (edges : List SEdge) (next : SEdge → Option SEdge) (y : Int) : Prop :=
  ∀ a ∈ edges, ∀ b ∈ edges, a ≠ b → AliveBelow y a → AliveBelow y b →
    far y a b ∨ (a.top = b.top ∧ a.top.y = y ∧ next a = none ∧ next b = none)
/-- what the sweep theorems assume of the insertion predicate: for a resident and a newcomer more than one unit apart at the
scanline it answers "resident left of newcomer" (proved of the regenerated `IsValidAelOrder`: `Props/C01Sweep.validGen_ok`) -/
def ValidOK (edges : List SEdge) (valid : SEdge → SEdge → Bool) (y : Int) : Prop :=
  ∀ r ∈ edges, ∀ n ∈ edges, AliveAbove y r → AliveAbove y n → n.bot.y = y → far y r n → (valid r n = true ↔ xlt y r n)
/-- different input edges have different identities -/
def IdsInj (edges : List SEdge) : Prop := ∀ a ∈ edges, ∀ b ∈ edges, a.id = b.id → a = b

instance (edges : List SEdge) : Decidable (AllUp edges) := by unfold AllUp; infer_instance
instance (edges : List SEdge) (y0 y1 : Int) : Decidable (NoTopInside edges y0 y1) := by unfold NoTopInside; infer_instance
instance (edges : List SEdge) (ms : List (SEdge × SEdge)) (y : Int) : Decidable (MinsOK edges ms y) := by
  unfold MinsOK; infer_instance
instance (edges : List SEdge) (ms : List (SEdge × SEdge)) (y : Int) : Decidable (GPmin edges ms y) := by
  unfold GPmin; infer_instance
instance (edges : List SEdge) (next : SEdge → Option SEdge) (y : Int) : Decidable (GPtop edges next y) := by
  unfold GPtop; infer_instance
instance (edges : List SEdge) : Decidable (IdsInj edges) := by unfold IdsInj; infer_instance

/-- everything assumed about one scanbeam `[y1, y0]`: the local minima on `y0` and general position there, the insertion
predicate, no vertex strictly inside, general position at the top -/
def BeamOK (edges : List SEdge) (valid : Int → SEdge → SEdge → Bool) (next : SEdge → Option SEdge)
    (mins : Int → List (SEdge × SEdge)) (y0 y1 : Int) : Prop :=
  y1 < y0 ∧ MinsOK edges (mins y0) y0 ∧ GPmin edges (mins y0) y0 ∧ ValidOK edges (valid y0) y0 ∧ NoTopInside edges y0 y1 ∧
    GPtop edges next y1

/-- … about all scanbeams of the scanline list `ys` (descending) -/
def SweepOK (edges : List SEdge) (valid : Int → SEdge → SEdge → Bool) (next : SEdge → Option SEdge)
    (mins : Int → List (SEdge × SEdge)) : List Int → Prop
  | y0 :: y1 :: rest => BeamOK edges valid next mins y0 y1 ∧ SweepOK edges valid next mins (y1 :: rest)
  | _ => True

/-! ## the instance of `valid`: the regenerated `IsValidAelOrder` -/

/-- the fields of an `Active` that `IsValidAelOrder` reads besides `curr_x`, `bot`, `top` (they matter in its collinear
branches only) -/
structure OInfo where
  isLeftBound : Bool
  isMaxima : Bool
  nextVertexPt : Pt
  prevPrevVertexPt : Pt
  localMinY : Int
  deriving Repr, Inhabited

/-- the `Active` of a sweep edge at the scanline `y`: `curr_x = cx e y` -/
def toO (cx : SEdge → Int → Int) (info : SEdge → OInfo) (y : Int) (e : SEdge) : OEdge :=
  { currX := cx e y, bot := e.bot, top := e.top, isLeftBound := (info e).isLeftBound, isMaxima := (info e).isMaxima,
    nextVertexPt := (info e).nextVertexPt, prevPrevVertexPt := (info e).prevPrevVertexPt, localMinY := (info e).localMinY,
    joinRight := false }

/-- C++ `IsValidAelOrder(resident, newcomer)` (the regenerated definition) at the scanline `y` -/
def validGen (cx : SEdge → Int → Int) (info : SEdge → OInfo) (y : Int) (r n : SEdge) : Bool :=
  isValidAelOrder (toO cx info y r) (toO cx info y n)

/-! ## the event list of an input: edges, bound continuation, local minima, scanlines — derived from closed paths alone

What `AddPaths` / `Reset` prepare (vertex rings, the local-minima list, the scanline queue), reduced to what the order of the AEL
depends on.  Closed paths with at least 3 vertices, no horizontal edge (an input with one fails `AllUp` and is out of scope).
Edge `i` of a path runs from vertex `i` to vertex `i+1`; its identity is the global index of vertex `i` (paths concatenated). -/

/-- the undirected edge between consecutive vertices `a`, `b`, oriented upwards -/
def mkEdge (id : Nat) (a b : Pt) : SEdge := if a.y > b.y then ⟨id, a, b⟩ else ⟨id, b, a⟩

/-- the edges of one closed path, identities `off, off+1, …` -/
def pathEdges (off : Nat) (p : Path) : List SEdge :=
  (edgesOf p).zipIdx.map (fun ei => mkEdge (off + ei.2) ei.1.1 ei.1.2)

/-- (edge i, edge i+1, their common vertex i+1), cyclically -/
def corners (off : Nat) (p : Path) : List ((SEdge × SEdge) × Pt) :=
  let es := pathEdges off p
  (es.zip (es.rotateLeft 1)).zip (p.rotateLeft 1)

/-- bound continuation at an intermediate vertex: (edge ending there, edge starting there) -/
def cornerNext (c : (SEdge × SEdge) × Pt) : Option (SEdge × SEdge) :=
  if c.1.1.top = c.2 ∧ c.1.2.bot = c.2 then some (c.1.1, c.1.2)
  else if c.1.1.bot = c.2 ∧ c.1.2.top = c.2 then some (c.1.2, c.1.1)
  else none

/-- a local minimum: both edges start at the vertex; (left bound, right bound) by direction -/
def cornerMin (c : (SEdge × SEdge) × Pt) : Option (SEdge × SEdge) :=
  if c.1.1.bot = c.2 ∧ c.1.2.bot = c.2 then some (if slt c.1.1 c.1.2 then (c.1.1, c.1.2) else (c.1.2, c.1.1))
  else none

/-- the event data of a set of closed paths -/
structure Built where
  edges : List SEdge
  nextTbl : List (SEdge × SEdge)
  allMins : List (SEdge × SEdge)
  /-- the scanlines: all vertex heights, descending, without repetition -/
  ys : List Int
  deriving Repr

def buildFrom : Nat → Paths → Built
  | _, [] => ⟨[], [], [], []⟩
  | off, p :: ps =>
    let r := buildFrom (off + p.length) ps
    if p.length < 3 then r
    else
      let cs := corners off p
      ⟨pathEdges off p ++ r.edges, cs.filterMap cornerNext ++ r.nextTbl, cs.filterMap cornerMin ++ r.allMins, r.ys⟩

def scanlinesOf (ps : Paths) : List Int :=
  (stableSort (fun a b => decide (b ≤ a)) ((ps.filter (fun p => decide (3 ≤ p.length))).flatten.map (·.y))).eraseDups

def build (ps : Paths) : Built := { buildFrom 0 ps with ys := scanlinesOf ps }

def Built.next (b : Built) (e : SEdge) : Option SEdge := (b.nextTbl.find? (fun p => p.1 == e)).map (·.2)
def Built.mins (b : Built) (y : Int) : List (SEdge × SEdge) := b.allMins.filter (fun p => p.1.bot.y == y)

/-- the model sweep of an input, with the regenerated `IsValidAelOrder` as insertion predicate -/
def Built.sweep (b : Built) (cx : SEdge → Int → Int) (info : SEdge → OInfo) : List Snap :=
  sweepFrom (validGen cx info) cx b.next b.mins [] b.ys

instance (edges : List SEdge) (next : SEdge → Option SEdge) (mins : Int → List (SEdge × SEdge)) :
    Decidable (NextOK edges next mins) :=
  decidable_of_iff (∀ e ∈ edges, (next e).all (fun e' => decide (e' ∈ edges ∧ e'.bot = e.top ∧ e' ∉ boundsOf (mins e'.bot.y))) = true) (by
    unfold NextOK
    constructor
    · intro h e he e' hn
      have := h e he
      rw [hn] at this
      simpa using this
    · intro h e he
      cases hn : next e with
      | none => simp
      | some e' => simpa using h e he e' hn)

instance (edges : List SEdge) (valid : SEdge → SEdge → Bool) (y : Int) : Decidable (ValidOK edges valid y) := by
  unfold ValidOK; infer_instance

instance (edges : List SEdge) (valid : Int → SEdge → SEdge → Bool) (next : SEdge → Option SEdge)
    (mins : Int → List (SEdge × SEdge)) (y0 y1 : Int) : Decidable (BeamOK edges valid next mins y0 y1) := by
  unfold BeamOK; infer_instance

instance decSweepOK (edges : List SEdge) (valid : Int → SEdge → SEdge → Bool) (next : SEdge → Option SEdge)
    (mins : Int → List (SEdge × SEdge)) : (ys : List Int) → Decidable (SweepOK edges valid next mins ys)
  | [] => isTrue trivial
  | [_] => isTrue trivial
  | y0 :: y1 :: rest =>
    have : Decidable (SweepOK edges valid next mins (y1 :: rest)) := decSweepOK edges valid next mins (y1 :: rest)
    (inferInstance : Decidable (BeamOK edges valid next mins y0 y1 ∧ SweepOK edges valid next mins (y1 :: rest)))

/-- all hypotheses of `sweep_keeps_sorted` / `intersections_are_exactly_crossings` for a built input (`Near cx` aside) -/
def Built.Hyp (b : Built) (valid : Int → SEdge → SEdge → Bool) : Prop :=
  AllUp b.edges ∧ IdsInj b.edges ∧ NextOK b.edges b.next b.mins ∧ SweepOK b.edges valid b.next b.mins b.ys
instance (b : Built) (valid : Int → SEdge → SEdge → Bool) : Decidable (b.Hyp valid) := by unfold Built.Hyp; infer_instance

end Clipper.Model.SweepOrder
