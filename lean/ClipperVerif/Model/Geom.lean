/-
Hand-written executable models of three geometry functions of clipper.core.h (property C18, geometry half):

* `PointInPolygon<int64_t>`          → `pointInPolygonX` / `pointInPolygon`  (iterators are indices)
* `Area<int64_t>(const Path64&)`     → `area2X` (the integer sum before `* 0.5`) and `areaF` (the double computation)
* `GetSegmentIntersectPt<int64_t>`   → `gsipF` (double computation, non-HI_PRECISION variant) and
                                       `gsipIdeal` (exact idealisation over ℤ / ℚ-as-fractions)

Conventions (DESIGN.md §3): `int64_t` is `Int` (theorems/harness carry the range), an out-of-bounds iterator
dereference or exhausted fuel is the value `none` / `.fault` (theorems show it never happens), doubles are `Float`
only in the `…F` functions that exist for bit-exact correspondence; theorems never mention `Float`.
Core Lean only.
-/
import ClipperVerif.Spec.Enums
namespace Clipper.Model

/-! ## PointInPolygon -/

/-- `CrossProduct(pt1, pt2, pt3)` (clipper.core.h:810) with the double arithmetic replaced by exact integers.
For |coordinates| ≤ 2^25 every intermediate of the C++ expression is an integer below 2^53, hence exact. -/
def crossProduct (p1 p2 p3 : Pt) : Int :=
  (p2.x - p1.x) * (p3.y - p2.y) - (p2.y - p1.y) * (p3.x - p2.x)

/-- the same expression evaluated like the C++ does: int64 differences converted to double, two rounded
products, one rounded subtraction.  Returned as the sign (-1, 0, 1) — the only thing `PointInPolygon` uses. -/
def crossProductFSign (p1 p2 p3 : Pt) : Int :=
  let f (v : Int) : Float := (Int64.ofInt v).toFloat
  let d := f (p2.x - p1.x) * f (p3.y - p2.y) - f (p2.y - p1.y) * f (p3.x - p2.x)
  if d == 0 then 0 else if d < 0 then -1 else 1

/-- `while (first != cend && first->y == pt.y) ++first;` starting from `cbegin` with `cend = polygon.cend()`:
the number of leading vertices on the horizontal line through the point. -/
def findFirst (py : Int) : List Pt → Nat
  | [] => 0
  | v :: rest => if v.y = py then findFirst py rest + 1 else 0

/-- The two inner loops `while (curr != cend && curr->y < pt.y) ++curr;` (`above = true`) and
`while (curr != cend && curr->y > pt.y) ++curr;` (`above = false`).  `none` = dereference outside the vector. -/
def skipSide (poly : List Pt) (py : Int) (above : Bool) (cend curr : Nat) : Option Nat :=
  if curr = cend then some curr
  else match h : poly[curr]? with
    | none => none
    | some v =>
      if (if above then v.y < py else v.y > py) then skipSide poly py above cend (curr + 1) else some curr
termination_by poly.length - curr
decreasing_by
  have := (List.getElem?_eq_some_iff.mp h).1
  omega

/-- what the loop body does with the vertex `c = *curr` (and `pr = *prev`) once the skipping loops have stopped -/
inductive VStep
  | on                  -- return IsOn
  | onLine              -- `curr->y == pt.y`, not on: `++curr; if (curr == first) break; continue;`
  | cross (val : Int)   -- an edge to the other side: `is_above = !is_above; ++curr;` with the new `val`
  deriving DecidableEq, Repr

/-- lines 1089–1111 of clipper.core.h; `cp` is the cross product (sign suffices) -/
def vertexStep (cp : Pt → Pt → Pt → Int) (pt pr c : Pt) (isAbove : Bool) (val : Int) : VStep :=
  if c.y = pt.y then
    if c.x = pt.x ∨ (c.y = pr.y ∧ (decide (pt.x < pr.x) != decide (pt.x < c.x))) then .on
    else .onLine
  else if pt.x < c.x ∧ pt.x < pr.x then .cross val        -- only edges crossing on the left matter
  else if pt.x > pr.x ∧ pt.x > c.x then .cross (1 - val)   -- toggle val
  else
    let d := cp pr c pt
    if d = 0 then .on
    else if decide (d < 0) == isAbove then .cross (1 - val) else .cross val

inductive LoopOut
  | on                                              -- returned IsOn from inside the loop
  | exit (curr : Nat) (isAbove : Bool) (val : Int)  -- left the loop through one of the two `break`s
  | fault                                           -- out-of-range dereference or fuel exhausted
  deriving DecidableEq, Repr

/-- index of `prev`: `if (curr == cbegin) prev = polygon.cend() - 1; else prev = curr - 1;` -/
def prevIdx (n curr : Nat) : Nat := if curr = 0 then n - 1 else curr - 1

/-- The `while (true)` loop (lines 1066–1113).  One unit of fuel per iteration of the outer loop;
`first` is fixed, `curr`, `cend`, `is_above`, `val` are the mutable locals. -/
def pipLoop (cp : Pt → Pt → Pt → Int) (pt : Pt) (poly : List Pt) (first : Nat) :
    Nat → Nat → Nat → Bool → Int → LoopOut
  | 0, _, _, _, _ => .fault
  | fuel + 1, curr, cend, isAbove, val =>
    -- if (curr == cend) { if (cend == first || first == cbegin) break; cend = first; curr = cbegin; }
    if curr = cend ∧ (cend = first ∨ first = 0) then .exit curr isAbove val
    else
      let curr1 := if curr = cend then 0 else curr
      let cend1 := if curr = cend then first else cend
      -- if (is_above) { while …; if (curr == cend) continue; } else { while …; if (curr == cend) continue; }
      match skipSide poly pt.y isAbove cend1 curr1 with
      | none => .fault
      | some curr2 =>
        if curr2 = cend1 then pipLoop cp pt poly first fuel curr2 cend1 isAbove val
        else
          match poly[curr2]?, poly[prevIdx poly.length curr2]? with
          | some c, some pr =>
            match vertexStep cp pt pr c isAbove val with
            | .on => .on
            | .onLine =>
              if curr2 + 1 = first then .exit (curr2 + 1) isAbove val
              else pipLoop cp pt poly first fuel (curr2 + 1) cend1 isAbove val
            | .cross val' => pipLoop cp pt poly first fuel (curr2 + 1) cend1 (!isAbove) val'
          | _, _ => .fault

/-- the part after the loop (lines 1115–1129) -/
def pipFinish (cp : Pt → Pt → Pt → Int) (pt : Pt) (poly : List Pt) (startingAbove : Bool)
    (curr : Nat) (isAbove : Bool) (val : Int) : Option PipResult :=
  if isAbove != startingAbove then
    let curr1 := if curr = poly.length then 0 else curr
    match poly[curr1]?, poly[prevIdx poly.length curr1]? with
    | some c, some pr =>
      let d := cp pr c pt
      if d = 0 then some .isOn
      else
        let val1 := if decide (d < 0) == isAbove then 1 - val else val
        some (if val1 = 0 then .isOutside else .isInside)
    | _, _ => none
  else some (if val = 0 then .isOutside else .isInside)

/-- `PointInPolygon(pt, polygon)` generic in the cross product. `none` = the C++ would read outside the vector or
not terminate within `2·n + 4` iterations of the outer loop (proved impossible: `Props.C18Geom.pip_total`). -/
def pointInPolygonG (cp : Pt → Pt → Pt → Int) (pt : Pt) (poly : List Pt) : Option PipResult :=
  if poly.length < 3 then some .isOutside
  else
    let first := findFirst pt.y poly
    if first = poly.length then some .isOutside   -- not a proper polygon
    else match poly[first]? with
      | none => none
      | some f =>
        let startingAbove := decide (f.y < pt.y)
        match pipLoop cp pt poly first (2 * poly.length + 4) (first + 1) poly.length startingAbove 0 with
        | .fault => none
        | .on => some .isOn
        | .exit curr isAbove val => pipFinish cp pt poly startingAbove curr isAbove val

/-- the model the theorems are about: exact integer cross product -/
def pointInPolygonX (pt : Pt) (poly : Path) : Option PipResult := pointInPolygonG crossProduct pt poly

/-- the double instantiation (what the compiled code computes at any magnitude) -/
def pointInPolygonF (pt : Pt) (poly : Path) : Option PipResult := pointInPolygonG crossProductFSign pt poly

/-- Total version.  The fallback value is never used: `pointInPolygonX` is `some _` on every input
(`Props.C18Geom.pip_total`), so this is not a totalisation that hides a fault. -/
def pointInPolygon (pt : Pt) (poly : Path) : PipResult :=
  match pointInPolygonX pt poly with
  | some r => r
  | none => .isOutside

/-! ### The same computation as a fold over the vertex cycle starting behind `first` (used by the proofs;
`Lemmas.PipRefine` shows the index/fuel model above equals it) -/

/-- one vertex: skipping loops, then `vertexStep`.  `none` = IsOn. -/
def scanStep (cp : Pt → Pt → Pt → Int) (pt pr c : Pt) (isAbove : Bool) (val : Int) : Option (Bool × Int) :=
  if (if isAbove then c.y < pt.y else c.y > pt.y) then some (isAbove, val)
  else match vertexStep cp pt pr c isAbove val with
    | .on => none
    | .onLine => some (isAbove, val)
    | .cross v => some (!isAbove, v)

/-- fold `scanStep` along a list of vertices; returns the last vertex and the final `(is_above, val)`, `none` = IsOn -/
def pipScan (cp : Pt → Pt → Pt → Int) (pt : Pt) : Pt → Bool → Int → List Pt → Option (Pt × Bool × Int)
  | pr, ia, val, [] => some (pr, ia, val)
  | pr, ia, val, c :: rest =>
    match scanStep cp pt pr c ia val with
    | none => none
    | some (ia', val') => pipScan cp pt c ia' val' rest

/-- the part after the loop, for the closing edge `l → f` (`l` = last vertex of the cycle) -/
def pipClose (cp : Pt → Pt → Pt → Int) (pt l f : Pt) (sa ia : Bool) (val : Int) : PipResult :=
  if ia != sa then
    let d := cp l f pt
    if d = 0 then .isOn
    else
      let val1 := if decide (d < 0) == ia then 1 - val else val
      if val1 = 0 then .isOutside else .isInside
  else if val = 0 then .isOutside else .isInside

/-- result of the cyclic fold for the polygon `f :: seq` (`f` = `*first`, off the line) -/
def pipCyc (cp : Pt → Pt → Pt → Int) (pt f : Pt) (seq : List Pt) : PipResult :=
  match pipScan cp pt f (decide (f.y < pt.y)) 0 seq with
  | none => .isOn
  | some (l, ia, val) => pipClose cp pt l f (decide (f.y < pt.y)) ia val

/-- the C++ enum order: IsOn = 0, IsInside = 1, IsOutside = 2 -/
def pipCode : PipResult → Nat
  | .isOn => 0 | .isInside => 1 | .isOutside => 2

/-! ## Area -/

/-- one summand `(it2->y + it1->y) * (it2->x - it1->x)` -/
def areaTerm (p2 p1 : Pt) : Int := (p2.y + p1.y) * (p2.x - p1.x)

/-- The `for (it1 = path.cbegin(); it1 != stop;)` loop of `Area` plus the trailing `if (cnt & 1)` statement.
The list argument is the suffix of the path starting at `it1`; `odd` is `cnt & 1` (so `stop` is `cend - 1` when
odd, `cend` when even).  `none` = the C++ would run `it1` past `stop` or dereference `cend`. -/
def areaGo (odd : Bool) : Pt → Int → List Pt → Option Int
  | _, a, [] => if odd then none else some a             -- it1 == cend: fine only if stop == cend
  | it2, a, [l] =>
    if odd then some (a + areaTerm it2 l)                 -- it1 == stop == cend-1; then the `if (cnt & 1)` term
    else none                                             -- even count but one element left: `it1 + 1` is cend
  | it2, a, p :: q :: rest =>
    -- a += term(it2, it1); it2 = it1 + 1; a += term(it1, it2); it1 += 2;
    areaGo odd q (a + areaTerm it2 p + areaTerm p q) rest

/-- twice `Area(path)` in exact integers (the value of `a` before `return a * 0.5`). `none` = iterator fault. -/
def area2X (path : Path) : Option Int :=
  if path.length < 3 then some 0
  else match path.getLast? with
    | none => none
    | some last => areaGo (path.length % 2 == 1) last 0 path

def i64f (v : Int) : Float := (Int64.ofInt v).toFloat

/-- the double computation: `a += static_cast<double>(it2->y + it1->y) * (it2->x - it1->x)` -/
def areaTermF (p2 p1 : Pt) : Float := i64f (p2.y + p1.y) * i64f (p2.x - p1.x)

def areaGoF (odd : Bool) : Pt → Float → List Pt → Option Float
  | _, a, [] => if odd then none else some a
  | it2, a, [l] => if odd then some (a + areaTermF it2 l) else none
  | it2, a, p :: q :: rest => areaGoF odd q ((a + areaTermF it2 p) + areaTermF p q) rest

/-- `Area(path)` as the compiled code computes it -/
def areaF (path : Path) : Option Float :=
  if path.length < 3 then some 0.0
  else match path.getLast? with
    | none => none
    | some last => (areaGoF (path.length % 2 == 1) last 0.0 path).map (· * 0.5)

/-! ## GetSegmentIntersectPt (the `#else` variant: CLIPPER2_HI_PRECISION off) -/

/-- double computation, statement by statement. `none` = `return false`. -/
def gsipF (a b c d : Pt) : Option Pt :=
  let dx1 := i64f (b.x - a.x)
  let dy1 := i64f (b.y - a.y)
  let dx2 := i64f (d.x - c.x)
  let dy2 := i64f (d.y - c.y)
  let det := dy1 * dx2 - dy2 * dx1
  if det == 0.0 then none
  else
    let t := (i64f (a.x - c.x) * dy2 - i64f (a.y - c.y) * dx2) / det
    if t <= 0.0 then some a
    else if t >= 1.0 then some b
    else some ⟨(Float.toInt64 (i64f a.x + t * dx1)).toInt, (Float.toInt64 (i64f a.y + t * dy1)).toInt⟩

/-- `nearbyint` in the default rounding mode (to nearest, ties to even), by the ±2^52 trick -/
def rint (x : Float) : Float :=
  if x.abs >= 4503599627370496.0 then x
  else if x >= 0.0 then (x + 4503599627370496.0) - 4503599627370496.0
  else (x - 4503599627370496.0) + 4503599627370496.0

/-- the `#if CLIPPER2_HI_PRECISION` variant (integral `T`), statement by statement; `>> 1` on `int64_t` is floor
division by two.  `none` = `return false`.  (The C++ is undefined when `nearbyint(hit)` does not fit `int64_t` —
nearly parallel lines crossing far away; the harness keeps away from those inputs.) -/
def gsipHiF (a b c d : Pt) : Option Pt :=
  let ln1dy := i64f (b.y - a.y)
  let ln1dx := i64f (a.x - b.x)
  let ln2dy := i64f (d.y - c.y)
  let ln2dx := i64f (c.x - d.x)
  let det := (ln2dy * ln1dx) - (ln1dy * ln2dx)
  if det == 0.0 then none
  else
    let bb0minx := min a.x b.x; let bb0miny := min a.y b.y
    let bb0maxx := max a.x b.x; let bb0maxy := max a.y b.y
    let bb1minx := min c.x d.x; let bb1miny := min c.y d.y
    let bb1maxx := max c.x d.x; let bb1maxy := max c.y d.y
    let originx := (min bb0maxx bb1maxx + max bb0minx bb1minx) / 2
    let originy := (min bb0maxy bb1maxy + max bb0miny bb1miny) / 2
    let ln0c := (ln1dy * i64f (a.x - originx)) + (ln1dx * i64f (a.y - originy))
    let ln1c := (ln2dy * i64f (c.x - originx)) + (ln2dx * i64f (c.y - originy))
    let hitx := ((ln1dx * ln1c) - (ln2dx * ln0c)) / det
    let hity := ((ln2dy * ln0c) - (ln1dy * ln1c)) / det
    some ⟨originx + (Float.toInt64 (rint hitx)).toInt, originy + (Float.toInt64 (rint hity)).toInt⟩

/-- `det` of the C++ in exact integers: the cross product of the two direction vectors -/
def gsipDet (a b c d : Pt) : Int := (b.y - a.y) * (d.x - c.x) - (d.y - c.y) * (b.x - a.x)

/-- numerator of `t` in exact integers -/
def gsipNum (a _b c d : Pt) : Int := (a.x - c.x) * (d.y - c.y) - (a.y - c.y) * (d.x - c.x)

/-- Idealised `GetSegmentIntersectPt`: exact arithmetic, `t = num/det` is never rounded;
`static_cast<int64_t>` of the exact rational `ln1a.x + t·dx1 = (det·ln1a.x + num·dx1)/det` is truncation
towards zero (`Int.tdiv`). -/
def gsipIdeal (a b c d : Pt) : Option Pt :=
  let det := gsipDet a b c d
  if det = 0 then none
  else
    let num := gsipNum a b c d
    -- t ≤ 0  ⇔  num and det have opposite signs or num = 0
    if num * det ≤ 0 then some a
    -- t ≥ 1  ⇔  num/det ≥ 1
    else if num * det ≥ det * det then some b
    else some ⟨(det * a.x + num * (b.x - a.x)).tdiv det, (det * a.y + num * (b.y - a.y)).tdiv det⟩

end Clipper.Model
