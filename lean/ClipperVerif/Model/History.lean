/-
C12 model: `ClipperBase` (clipper.engine.h / clipper.engine.cpp) as a state machine over its members.

What is modelled statement by statement: `AddPaths`, `AddReuseableData`, `CleanUp`, `Clear`, `Reset`,
`PreserveCollinear(bool)`, `ReverseSolution(bool)`, and the frame of `ExecuteInternal` + `Clipper64::Execute`
(assign the three call parameters, `Reset()`, sweep, build the result, `CleanUp()`, return `succeeded_`).
What is a parameter: `AddPaths_` (which local minima a path set produces: the op carries them) and the sweep
itself (`run`): it may read every member and may leave anything in every *scratch* member; by its type it cannot
write the persistent members (`minima_list_`, `vertex_lists_`, `minima_list_sorted_`, `has_open_paths_`, the options).
`std::stable_sort(…, LocMinSorter())` is `List.mergeSort` with the comparator below.
Core Lean only.
-/
import ClipperVerif.Spec.Basic
namespace Clipper.Model.History
open Clipper

/-- `LocalMinima`: the vertex it points to is identified by `vid` (the pointer; everything reachable from it —
the vertex ring and its flags — is determined by it and is never written after `AddPaths_`). -/
structure LocalMin where
  y : Int
  x : Int
  polytype : PathType
  isOpen : Bool
  vid : Nat
  deriving DecidableEq, Repr

/-- `LocMinSorter::operator()(locMin1, locMin2)` (clipper.engine.cpp:49-58): "locMin1 goes before locMin2". -/
def locMinBefore (a b : LocalMin) : Bool :=
  if b.y ≠ a.y then decide (b.y < a.y) else decide (b.x > a.x)

/-- the non-strict order `std::stable_sort` sorts by when given the strict comparator `comp`: `¬ comp b a` -/
def locMinLe (a b : LocalMin) : Bool := !locMinBefore b a

/-- `std::stable_sort(minima_list_.begin(), minima_list_.end(), LocMinSorter())` -/
def stableSort (l : List LocalMin) : List LocalMin := l.mergeSort locMinLe

/-- the per-execution members.  Lists stand for the containers (`[]` = empty / `nullptr`); their element type is
irrelevant here (the sweep is abstract), so it is `Nat` (an id). -/
structure Scratch where
  actives : List Nat := []          -- actives_   (AEL)
  sel : List Nat := []              -- sel_       (SEL / horizontal stack)
  scanlines : List Int := []        -- scanline_list_ (priority queue; only its content matters)
  intersectNodes : List Nat := []   -- intersect_nodes_
  outrecs : List Nat := []          -- outrec_list_
  horzSegs : List Nat := []         -- horz_seg_list_
  horzJoins : List Nat := []        -- horz_join_list_
  botY : Int := 0                   -- bot_y_
  deriving DecidableEq, Repr

/-- All data members of `ClipperBase` (USINGZ off). -/
structure Clipper where
  -- inputs retained across executions
  minima : List LocalMin := []      -- minima_list_
  vertexLists : Nat := 0            -- vertex_lists_.size() (arrays owned by this object)
  sorted : Bool := false            -- minima_list_sorted_
  hasOpen : Bool := false           -- has_open_paths_
  preserve : Bool := true           -- preserve_collinear_
  reverse : Bool := false           -- reverse_solution_
  -- parameters of the running call (assigned first thing in ExecuteInternal)
  cliptype : ClipType := .noClip
  fillrule : FillRule := .evenOdd
  usingPolytree : Bool := false
  -- per-execution state
  s : Scratch := {}
  locminIter : Option Nat := none   -- current_locmin_iter_ as an index; `none` = singular or invalidated by emplace_back
  succeeded : Bool := true          -- succeeded_
  deriving DecidableEq, Repr

/-- a freshly constructed object (the default member initialisers of the class) -/
def fresh : Clipper := {}

/-- `ReuseableDataContainer64`: owns the vertices; clippers copy its minima (same `vid`s = same vertices). -/
structure Container where
  minima : List LocalMin
  deriving DecidableEq, Repr

/-- What a call of `AddPaths(paths, polytype, is_open)` contributes according to `AddPaths_`:
the new local minima in order, and whether a vertex array was allocated (`total_vertex_count != 0`). -/
structure Added where
  isOpen : Bool
  minima : List LocalMin
  allocates : Bool
  deriving DecidableEq, Repr

/-- `ClipperBase::AddPaths` (engine.cpp:836-841) -/
def addPaths (c : Clipper) (a : Added) : Clipper :=
  { c with hasOpen := (if a.isOpen then true else c.hasOpen),
           sorted := false,
           minima := c.minima ++ a.minima,
           vertexLists := c.vertexLists + (if a.allocates then 1 else 0),
           locminIter := (if a.minima.isEmpty then c.locminIter else none) }

/-- `ClipperBase::AddReuseableData` (engine.cpp:843-855) -/
def addReuseable (c : Clipper) (r : Container) : Clipper :=
  { c with succeeded := false,
           sorted := false,
           minima := c.minima ++ r.minima,
           hasOpen := c.hasOpen || r.minima.any (·.isOpen),
           locminIter := (if r.minima.isEmpty then c.locminIter else none) }

/-- `ClipperBase::CleanUp` (engine.cpp:765-773): `DeleteEdges(actives_)` leaves `actives_ == nullptr`;
`sel_`, `bot_y_`, `current_locmin_iter_`, `succeeded_` are *not* touched. -/
def cleanUp (c : Clipper) : Clipper :=
  { c with s := { c.s with actives := [], scanlines := [], intersectNodes := [], outrecs := [],
                           horzSegs := [], horzJoins := [] } }

/-- `ClipperBase::Clear` (engine.cpp:776-783) -/
def clear (c : Clipper) : Clipper :=
  let c := cleanUp c
  { c with minima := [], vertexLists := 0,      -- DisposeVerticesAndLocalMinima
           locminIter := some 0, sorted := false, hasOpen := false }

/-- `ClipperBase::Reset` (engine.cpp:786-801): sort if needed, push every minimum's y (last to first, so the list
reads first to last) on the scanline queue *that is there*, rewind the iterator, null `actives_`/`sel_`,
`succeeded_ = true`. -/
def reset (c : Clipper) : Clipper :=
  let m := if c.sorted then c.minima else stableSort c.minima
  { c with minima := m, sorted := true,
           s := { c.s with scanlines := m.map (·.y) ++ c.s.scanlines, actives := [], sel := [] },
           locminIter := some 0, succeeded := true }

/-- what the sweep (the loop of `ExecuteInternal`, then `BuildPaths64`/`BuildTree64`) hands back -/
structure SweepOut (R : Type) where
  result : R
  s : Scratch
  locminIter : Option Nat
  succeeded : Bool

/-- the sweep: reads the whole object as `Reset()` left it -/
abbrev Sweep (R : Type) := Clipper → SweepOut R

/-- `Clipper64::Execute(ct, fr, …)` (engine.h:489-516): returns (result, `succeeded_`) and the object afterwards -/
def execute {R : Type} (run : Sweep R) (c : Clipper) (ct : ClipType) (fr : FillRule) (tree : Bool) : (R × Bool) × Clipper :=
  let c1 := { c with cliptype := ct, fillrule := fr, usingPolytree := tree }
  let c2 := reset c1
  let out := run c2
  let c3 := { c2 with s := out.s, locminIter := out.locminIter, succeeded := out.succeeded }
  let c4 := cleanUp c3
  ((out.result, c4.succeeded), c4)

inductive Op where
  | addSubject (a : Added)          -- a.isOpen = false, minima of polytype subject
  | addOpenSubject (a : Added)      -- a.isOpen = true
  | addClip (a : Added)
  | addReuseable (r : Container)
  | setPreserve (b : Bool)
  | setReverse (b : Bool)
  | execute (ct : ClipType) (fr : FillRule) (tree : Bool)
  | clear
  deriving DecidableEq, Repr

/-- one public call; `some` result for Execute -/
def step {R : Type} (run : Sweep R) (c : Clipper) : Op → Clipper × Option (R × Bool)
  | .addSubject a => (addPaths c a, none)
  | .addOpenSubject a => (addPaths c a, none)
  | .addClip a => (addPaths c a, none)
  | .addReuseable r => (addReuseable c r, none)
  | .setPreserve b => ({ c with preserve := b }, none)
  | .setReverse b => ({ c with reverse := b }, none)
  | .execute ct fr tree => let r := execute run c ct fr tree; (r.2, some r.1)
  | .clear => (clear c, none)

/-- run a history from a given object: final object and the outputs of the calls -/
def runFrom {R : Type} (run : Sweep R) (c : Clipper) : List Op → Clipper × List (Option (R × Bool))
  | [] => (c, [])
  | op :: ops =>
    let (c', o) := step run c op
    let (c'', os) := runFrom run c' ops
    (c'', o :: os)

def runHist {R : Type} (run : Sweep R) (ops : List Op) : Clipper × List (Option (R × Bool)) :=
  runFrom run fresh ops

/-- object after a history -/
def after {R : Type} (run : Sweep R) (ops : List Op) : Clipper := ops.foldl (fun c op => (step run c op).1) fresh

/-! ### what a history has put into the object since the last `Clear` (computed from the ops alone) -/

/-- the minima added by one op -/
def Op.minima : Op → List LocalMin
  | .addSubject a | .addOpenSubject a | .addClip a => a.minima
  | .addReuseable r => r.minima
  | _ => []

def Op.setsOpen : Op → Bool
  | .addSubject a | .addOpenSubject a | .addClip a => a.isOpen
  | .addReuseable r => r.minima.any (·.isOpen)
  | _ => false

def Op.allocs : Op → Nat
  | .addSubject a | .addOpenSubject a | .addClip a => if a.allocates then 1 else 0
  | _ => 0

/-- summary of a history: everything a later Execute may depend on -/
structure Inputs where
  minima : List LocalMin := []     -- in order of addition since the last Clear
  hasOpen : Bool := false
  allocs : Nat := 0
  preserve : Bool := true
  reverse : Bool := false
  deriving DecidableEq, Repr

def Inputs.step (i : Inputs) : Op → Inputs
  | .clear => { i with minima := [], hasOpen := false, allocs := 0 }
  | .setPreserve b => { i with preserve := b }
  | .setReverse b => { i with reverse := b }
  | .execute .. => i
  | op => { i with minima := i.minima ++ op.minima, hasOpen := i.hasOpen || op.setsOpen, allocs := i.allocs + op.allocs }

def inputsOf (ops : List Op) : Inputs := ops.foldl Inputs.step {}

/-- The object on which the sweep of `Execute(ct, fr, tree)` starts when the inputs are `i`, in closed form
(`bot_y_` aside, which holds whatever the previous sweep left). -/
def sweepStart (i : Inputs) (ct : ClipType) (fr : FillRule) (tree : Bool) : Clipper :=
  let m := stableSort i.minima
  { minima := m, vertexLists := i.allocs, sorted := true, hasOpen := i.hasOpen, preserve := i.preserve, reverse := i.reverse,
    cliptype := ct, fillrule := fr, usingPolytree := tree,
    s := { scanlines := m.map (·.y) },
    locminIter := some 0, succeeded := true }

/-- the six containers `CleanUp` is responsible for are empty -/
def Scratch.cleaned (s : Scratch) : Prop :=
  s.actives = [] ∧ s.scanlines = [] ∧ s.intersectNodes = [] ∧ s.outrecs = [] ∧ s.horzSegs = [] ∧ s.horzJoins = []

instance (s : Scratch) : Decidable s.cleaned := by unfold Scratch.cleaned; infer_instance

/-- Reading of the source used as hypothesis where needed: `bot_y_` is assigned (engine.cpp:2149) in every loop
iteration before `DoIntersections` — its only reader (2365, 2383) — runs, so the sweep does not depend on the value
it finds there. -/
def SweepIgnoresBotY {R : Type} (run : Sweep R) : Prop :=
  ∀ (c : Clipper) (b : Int), (run { c with s := { c.s with botY := b } }).result = (run c).result ∧
                              (run { c with s := { c.s with botY := b } }).succeeded = (run c).succeeded

/-- Reading of the source used as hypothesis for `sel_` only: every path out of the loop of `ExecuteInternal` passes
`while (PopHorz(e))`, which ends with `sel_ == nullptr` (`Reset` nulls it for the early return). -/
def SweepDrainsSel {R : Type} (run : Sweep R) : Prop := ∀ c, (run c).s.sel = []

/-! ### nominal sweep for the driver: consumes every local minimum unless `ct = NoClip`, succeeds, leaves the
members a completed real sweep leaves (`outrec_list_` etc. populated: CleanUp has to empty them). -/
def nominalSweep : Sweep Unit := fun c =>
  { result := (),
    s := { c.s with actives := [], sel := [], scanlines := (if c.cliptype = .noClip then c.s.scanlines else []),
                    outrecs := (if c.cliptype = .noClip then [] else [0]), horzJoins := (if c.cliptype = .noClip then [] else [0]),
                    botY := (c.minima.getLast?.map (·.y)).getD 0 },
    locminIter := some (if c.cliptype = .noClip then 0 else c.minima.length),
    succeeded := true }

end Clipper.Model.History
