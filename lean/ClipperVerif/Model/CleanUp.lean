/-
Model of the closed-path clean-up pipeline of clipper.engine.cpp (property C03):
`PtsReallyClose` (generated), `IsVerySmallTriangle`, `IsValidClosedPath`, `CleanCollinear` (with
`FixSelfIntersects` as a parameter) and `BuildPath64`.

Representation.  A circular doubly linked `OutPt` ring is a `List Pt` in `next` order whose head is the
node a pointer (`outrec->pts`, `op`, `op2`) refers to: for `r = p0 :: p1 :: … :: [pn]`,
`op->pt = p0`, `op->next->pt = p1`, `op->prev->pt = pn`.  A null pointer is `[]`.
Core Lean only.
-/
import ClipperVerif.Spec.Basic
import ClipperVerif.Generated.Core
import ClipperVerif.Generated.Engine
namespace Clipper.Model.CleanUp
open Clipper

abbrev Ring := List Pt

/-- `PtsReallyClose(pt1, pt2)` (generated from the source) on points -/
def ptsReallyClose (a b : Pt) : Bool := Gen.PtsReallyClose a.x a.y b.x b.y

/-- `IsCollinear(pt1, sharedPt, pt2)` (generated from the source) on points, C++ argument order -/
def isCollinear (p1 s p2 : Pt) : Bool :=
  Gen.IsCollinear (pt1_x := p1.x) (pt1_y := p1.y) (pt2_x := p2.x) (pt2_y := p2.y)
    (sharedPt_x := s.x) (sharedPt_y := s.y)

/-- `DotProduct(pt1, pt2, pt3)` over the integers.  The C++ computes it in doubles, but it is only
evaluated (short-circuit `&&`) when the three points are collinear, where both products have the same sign,
so the sign of the double result is the sign of the exact value. -/
def dot (a b c : Pt) : Int := (b.x - a.x) * (c.x - b.x) + (b.y - a.y) * (c.y - b.y)

/-- `IsVerySmallTriangle(op)`: `op.next->next == op.prev` holds exactly for rings of one or three nodes. -/
def isVerySmallTriangle : Ring → Bool
  | [_] => true
  | [op, nx, pv] => ptsReallyClose pv nx || ptsReallyClose op nx || ptsReallyClose op pv
  | _ => false

/-- `IsValidClosedPath(op)`: `op && op->next != op && op->next != op->prev && !IsVerySmallTriangle(*op)` -/
def isValidClosedPath : Ring → Bool
  | [] => false
  | [_] => false
  | [_, _] => false
  | r => !isVerySmallTriangle r

/-- the body of the `while (op2 != op)` loop of `BuildPath64`: append every point that differs from `lastPt` -/
def pushDedup (lastPt : Pt) : List Pt → List Pt
  | [] => []
  | p :: ps => if p ≠ lastPt then p :: pushDedup p ps else pushDedup lastPt ps

/-- `BuildPath64(op, reverse, isOpen, path)`; `none` = `return false`.
Forward: starts at `op->next` and follows `next` back to it; reverse: starts at `op` and follows `prev`. -/
def buildPath64 (ring : Ring) (reverse isOpen : Bool) : Option Path :=
  match ring with
  | [] => none                                   -- !op
  | [_] => none                                  -- op->next == op
  | op :: rest =>
    if !isOpen && rest.length == 1 then none     -- !isOpen && op->next == op->prev
    else
      -- the node `op` refers to when the loop ends (`op = op->next` in the forward case)
      let ring' : Ring := if reverse then op :: rest else rest ++ [op]
      let seq : List Pt := if reverse then op :: rest.reverse else rest ++ [op]
      match seq with
      | [] => none
      | s :: ss =>
        let path := s :: pushDedup s ss
        if !isOpen && path.length == 3 && isVerySmallTriangle ring' then none else some path

/-- the removal test of `CleanCollinear`'s loop for `op2` with neighbours `prev`, `next` -/
def removable (preserveCollinear : Bool) (prev cur next : Pt) : Bool :=
  isCollinear prev cur next &&
    (cur == prev || cur == next || !preserveCollinear || decide (dot prev cur next < 0))

/-- `l` rotated left by `k` (the ring seen from the node `k` steps further along `next`) -/
def rotl (l : List Pt) (k : Nat) : List Pt := l.drop (k % l.length) ++ l.take (k % l.length)

/-- The `for(;;)` loop of `CleanCollinear`.
State: `done` = nodes visited since the last restart, most recent first (`startOp` is its last element);
`todo` = `op2 :: …` the nodes still to visit, in `next` order, up to `startOp->prev`;
so the ring in `next` order from `startOp` is `done.reverse ++ todo`; `pts` = position of `outrec->pts` in it.
Result: `none` = out of fuel; `some none` = `DisposeOutPts`; `some (some r)` = loop left normally with ring `r`
(head = `outrec->pts`). -/
def cleanLoop (pc : Bool) : Nat → List Pt → List Pt → Nat → Option (Option Ring)
  | 0, _, _, _ => none
  | fuel + 1, done, todo, pts =>
    match todo with
    | [] => some (some (rotl done.reverse pts))            -- op2 == startOp  ⇒  break
    | cur :: rest =>
      let prev := match done with
        | p :: _ => p
        | [] => todo.getLastD cur
      let next := match rest with
        | q :: _ => q
        | [] => done.getLastD cur
      if removable pc prev cur next then
        let d := done.length
        let n := d + todo.length
        -- if (op2 == outrec->pts) outrec->pts = op2->prev;
        let pts1 := if pts = d then (if d > 0 then d - 1 else n - 1) else pts
        -- op2 = DisposeOutPt(op2)  (returns op2->next);  startOp = op2
        let ring' := rest ++ done.reverse
        let pts2 := if pts1 > d then pts1 - d - 1 else pts1 + rest.length
        if !isValidClosedPath ring' then some none
        else cleanLoop pc fuel [] ring' pts2
      else
        cleanLoop pc fuel (cur :: done) rest pts           -- op2 = op2->next

/-- fuel that always suffices for a ring of `n` nodes (`cleanLoop_fuel`) -/
def cleanFuel (n : Nat) : Nat := n * n + n + 1

/-- `CleanCollinear(outrec)` for a live closed outrec whose ring is `ring` (head = `outrec->pts`).
`fix` is `FixSelfIntersects` acting on the outrec's own ring (`none` = it disposed the ring); outrecs it
splits off are appended to `outrec_list_` and cleaned separately.
`none` = out of fuel, `some none` = disposed, `some (some r)` = the ring afterwards. -/
def cleanCollinear (pc : Bool) (fix : Ring → Option Ring) (ring : Ring) : Option (Option Ring) :=
  if !isValidClosedPath ring then some none
  else match cleanLoop pc (cleanFuel ring.length) [] ring 0 with
    | none => none
    | some none => some none
    | some (some r) => some (fix r)

/-- `SegmentsIntersect(a, b, c, d)` (non-inclusive) with exact cross products -/
def segsIntersect (a b c d : Pt) : Bool :=
  decide (Int.sign (cross a c d) * Int.sign (cross b c d) < 0) &&
  decide (Int.sign (cross c a b) * Int.sign (cross d a b) < 0)

/-- would `FixSelfIntersects` act on this ring?  (some `op2` with `prev→op2` crossing `next→next.next`);
rings of three nodes are returned untouched. -/
def needsFix (r : Ring) : Bool :=
  match r with
  | [] | [_] | [_, _] | [_, _, _] => false
  | _ =>
    let n := r.length
    (List.range n).any (fun i =>
      match r[(i + n - 1) % n]?, r[i]?, r[(i + 1) % n]?, r[(i + 2) % n]? with
      | some a, some b, some c, some d => segsIntersect a b c d
      | _, _, _, _ => false)

/-- the whole closed branch of `BuildPaths64` for one live outrec: `CleanCollinear` then `BuildPath64` -/
def solutionPath (pc reverse : Bool) (fix : Ring → Option Ring) (ring : Ring) : Option (Option Path) :=
  match cleanCollinear pc fix ring with
  | none => none
  | some none => some none
  | some (some r) => some (buildPath64 r reverse false)

end Clipper.Model.CleanUp
