/-
C11: error reporting of the double-precision entry points (clipper.h, clipper.minkowski.h, clipper.engine.h).
Hand models of the *control frame* of each wrapper: which checks run in which order and what is returned when
one fails.  The 64-bit operation inside is irrelevant here (outcome `ran`).  `CheckPrecisionRange` is the
definition generated from the source (`Gen.CheckPrecisionRange`).

`exc` = the library is built with C++ exceptions (then `DoError` throws).
-/
import ClipperVerif.Generated.Core
namespace Clipper.Model.Errors
open Clipper.Gen

/-- what a caller of a PathsD entry point observes -/
inductive Outcome
  | threw (code : Int)          -- Clipper2Exception; code = error bit (1 precision, 2 scale, 4 non-pair, 64 range)
  | empty                       -- empty result (with exceptions disabled the only visible report for free functions)
  | unchanged                   -- input returned unchanged
  | ran (precision : Int)       -- the integer operation ran at this (validated) precision
  deriving DecidableEq, Repr

/-- the coordinates·scale leave ±MAX_COORD (evaluated by the caller in exact arithmetic) -/
abbrev OutOfRange := Bool

/-- `ScalePaths<int64_t,double>` : range check on the bounding box, then per-path scaling -/
def scalePaths (exc : Bool) (oor : OutOfRange) (k : Unit → Outcome) : Outcome :=
  if oor then (if exc then .threw 64 else .empty) else k ()

/-- `BooleanOp(ct, fr, PathsD, PathsD, precision)` and the PolyTreeD overload -/
def booleanOpD (exc : Bool) (precision : Int) (oorSubj oorClip : OutOfRange) : Outcome :=
  match CheckPrecisionRange exc precision 0 with
  | .error c => .threw c
  | .ok (p, ec) =>
    if ec ≠ 0 then .empty
    else
      -- ClipperD(p): CheckPrecisionRange again (cannot fail now); AddSubject/AddClip scale with range check
      match CheckPrecisionRange exc p 0 with
      | .error c => .threw c
      | .ok (p', _) =>
        if oorSubj ∨ oorClip then (if exc then .threw 64 else .ran p')   -- range error drops that path set; error_code_ set
        else .ran p'

/-- `InflatePaths(PathsD, delta, jt, et, miter_limit, precision, arc_tolerance)` -/
def inflatePathsD (exc : Bool) (precision : Int) (deltaIsZero : Bool) (oor : OutOfRange) : Outcome :=
  match CheckPrecisionRange exc precision 0 with
  | .error c => .threw c
  | .ok (p, ec) =>
    if ec ≠ 0 then .empty
    else if deltaIsZero then .unchanged
    else scalePaths exc oor (fun _ => .ran p)

/-- `RectClip(RectD, PathsD, precision)` and `RectClipLines(RectD, PathsD, precision)` -/
def rectClipD (exc : Bool) (precision : Int) (rectEmpty pathsEmpty : Bool) (oor : OutOfRange) : Outcome :=
  if rectEmpty ∨ pathsEmpty then .empty
  else match CheckPrecisionRange exc precision 0 with
  | .error c => .threw c
  | .ok (p, ec) =>
    if ec ≠ 0 then .empty
    else scalePaths exc oor (fun _ => .ran p)

/-- `ScalePath<int64_t,double>` : the same range check as `ScalePaths`, on one path -/
def scalePath (exc : Bool) (oor : OutOfRange) (k : Unit → Outcome) : Outcome :=
  if oor then (if exc then .threw 64 else .empty) else k ()

/-- `TrimCollinear(PathD, precision, is_open)` : precision check, then `ScalePath` and its error code -/
def trimCollinearD (exc : Bool) (precision : Int) (oor : OutOfRange) : Outcome :=
  match CheckPrecisionRange exc precision 0 with
  | .error c => .threw c
  | .ok (p, ec) =>
    if ec ≠ 0 then .empty
    else scalePath exc oor (fun _ => .ran p)

/-- `MinkowskiSum/Diff(PathD, PathD, isClosed, decimalPlaces)` : precision check, `ScalePath` of pattern and path -/
def minkowskiD (exc : Bool) (precision : Int) (oor : OutOfRange) : Outcome :=
  match CheckPrecisionRange exc precision 0 with
  | .error c => .threw c
  | .ok (p, ec) =>
    if ec ≠ 0 then .empty
    else scalePath exc oor (fun _ => .ran p)

/-- `ClipperD(precision)` constructor: returns the error code left in the object, or the exception -/
def clipperDCtor (exc : Bool) (precision : Int) : Except Int Int :=
  match CheckPrecisionRange exc precision 0 with
  | .error c => .error c
  | .ok (_, ec) => .ok ec

/-- `ScalePath(path, 0, …)`: zero scale -/
def scalePathZero (exc : Bool) (sx sy : Int) : Outcome :=
  if sx = 0 ∨ sy = 0 then (if exc then .threw 2 else .ran 0) else .ran 0

/-- `MakePath(vector)` with n values -/
def makePath (exc : Bool) (n : Nat) : Except Int Nat :=
  if n % 2 ≠ 0 then (if exc then .error 4 else .ok (n / 2)) else .ok (n / 2)

/-- is the outcome a *report* (exception, or empty result when exceptions are off) -/
def Outcome.reported : Outcome → Bool
  | .threw _ => true
  | .empty => true
  | _ => false

end Clipper.Model.Errors
