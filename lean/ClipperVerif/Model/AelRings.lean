/-
Output ring assembly of the Vatti sweep, layered on the side bookkeeping model of `Model/AelSides.lean`.

What is added: for every *closed* output record its ring of `OutPt`s, and the code that builds the rings:

  `AddOutPt` (with its duplicate suppression), `NewOutRec` + `new OutPt(pt, outrec)` at the end of `AddLocalMinPoly`,
  `AddLocalMaxPoly` (`AddOutPt(e1, pt)`, then: same record ⇒ `outrec.pts = result; UncoupleOutRec`, the ring is finished;
  different records ⇒ `JoinOutrecPaths(e1, e2)` or `(e2, e1)` by `idx`), `JoinOutrecPaths` (the pointer surgery of both
  branches), `SwapOutrecs` (no ring changes hands, only its holder), `Split` (a fresh one-point ring), `CheckJoinLeft/Right`
  (`AddLocalMaxPoly` for one record, `JoinOutrecPaths` *without* a new point for two), the `AddOutPt(e, e.top)` that precedes
  `UpdateEdgeIntoAEL` in `DoTopOfScanbeam`, and the point emitting branches of `IntersectEdges`.

Representation.  `OutRec::pts` is a circular doubly linked list with `op_front = outrec->pts` and `op_back = op_front->next`.
A ring is the list of points met from `outrec->pts` following `->prev` until the start is reached again:

    pts = [front, front->prev, …, back]         (front end first, back end last;  `back->prev == front` closes the circle)

so `AddOutPt` to the front is `pt :: pts`, to the back `pts ++ [pt]`; `JoinOutrecPaths(e1, e2)` is `pts2 ++ pts1` when `IsFront(e1)`
and `pts1 ++ pts2` otherwise (see `joinPaths`); the `outrec.pts = result` of `AddLocalMaxPoly` is a rotation by one when `e1` is the
back edge (see `finish`).  The trace sink `harness/aelrings.h` dumps every ring of the real engine in exactly this order.

The side state (`SState`: AEL with wind counts, hot flags, `join_with`, `(outrec idx, IsFront)`) is *not* re-modelled: a step of this
model is the step of `Model.stepS` on the side state, paired with the effect on the rings, which is computed from the side state
*before* the step (`…Out` functions, following the same control flow).  Forgetting the rings is therefore the identity on the side
model (`Props/C01Rings.lean`, `erase_ring_step`).

What an event needs in addition to the side model's event is the point the C++ passes along: `bot` of the local minimum
(`insertPair`), the intersection point (`intersect`), `e.top` (`removePair`), the `pt` argument of `Split` and of `CheckJoinLeft/Right`;
and one new event `update i pt` = `if (IsHotEdge(*e)) AddOutPt(*e, e->top);` of `DoTopOfScanbeam` (the side state does not change).

Not modelled: output records of open paths (as in the side model); horizontal *joins* (`horz_seg_list_`, `ConvertHorzSegsToJoins` — which
inserts duplicated `OutPt`s during the sweep — and `ProcessHorzJoins`): horizontal edges themselves need nothing new (`DoHorizontal` emits through
`AddOutPt`, `IntersectEdges`, `AddLocalMaxPoly`: the events above; its first `AddOutPt(horz, (curr_x, y))` is always suppressed as a duplicate), and the
trace tie follows a sweep up to the first horizontal join; everything after the sweep (`CleanCollinear`, `FixSelfIntersects`, `BuildPaths`: properties C03/C04).

Ghost fields (not compared with the engine, used by the theorems): the emission log, the run id of each ring end (a *run* is a
maximal period during which one `Active` holds that end of that ring), and the segment log.

Core Lean only (the driver executable links this file).
-/
import ClipperVerif.Model.AelSides
namespace Clipper.Model

/-- state of an output record: `live` = owned by two edges of the AEL (`front_edge`, `back_edge` set); `done` = closed at a local
maximum (`UncoupleOutRec`; `pts` kept); `gone` = emptied by `JoinOutrecPaths` (`pts == nullptr`) -/
inductive RStat
  | live | done | gone
  deriving DecidableEq, Repr, Inhabited

/-- one closed output record -/
structure Ring where
  /-- the points from `outrec->pts` following `->prev` (front end first) -/
  pts : List Pt
  stat : RStat
  /-- ghost: run ids of the front end and of the back end -/
  frun : Nat
  brun : Nat
  /-- ghost: the last point handed to `AddOutPt` (suppressed or not) / `AddLocalMinPoly` for the edge holding the front end, the back end -/
  flast : Pt
  blast : Pt
  deriving DecidableEq, Repr, Inhabited

/-- ghost: what happened to a point handed to the output: `new` = first `OutPt` of a new record; `added` = `AddOutPt` created an `OutPt`;
`dup` = `AddOutPt` returned the existing end (`pt == op_front->pt` / `pt == op_back->pt`); `lost` = `AddOutPt` on a record that does not
exist or is not live (the C++ would dereference a null or dangling `outrec`; unreachable, theorem `no_point_lost`) -/
inductive EmitKind
  | new | added | dup | lost
  deriving DecidableEq, Repr, Inhabited

structure Emit where
  pt : Pt
  kind : EmitKind
  deriving DecidableEq, Repr, Inhabited

/-- ghost: how two consecutive ring points came to be neighbours.
* `extend`  — `AddOutPt` put `q` next to the end point `p` of the run `run` (both emitted on the `Active` holding that end);
* `meet`    — `AddLocalMaxPoly(e1, e2, pt)` from `IntersectEdges` / `DoMaxima`: `p` is the end point of `e2`'s run, `q = pt` the point just
  emitted on `e1`; the two become neighbours by closing the ring or by `JoinOutrecPaths` (the stretch of `e2` up to the meeting point);
* `joinMeet` — the same from `CheckJoinLeft/Right` (both edges on one record);
* `joinSeam` — `CheckJoinLeft/Right` with two records: `JoinOutrecPaths` without a new point, `p` and `q` are the end points of the two runs. -/
inductive SegKind
  | extend | meet | joinMeet | joinSeam
  deriving DecidableEq, Repr, Inhabited

structure Seg where
  run : Nat
  p : Pt
  q : Pt
  kind : SegKind
  deriving DecidableEq, Repr, Inhabited

/-- the output side of the engine: `outrec_list_` (closed records, by rank) plus ghost logs (most recent entry first) -/
structure Out where
  rings : List Ring
  log : List Emit
  segs : List Seg
  /-- ghost: next unused run id -/
  nrun : Nat
  deriving DecidableEq, Repr, Inhabited

def Out.empty : Out := { rings := [], log := [], segs := [], nrun := 0 }

/-! ## primitives -/

/-- `NewOutRec()` … `OutPt* op = new OutPt(pt, outrec); outrec->pts = op;` (end of `AddLocalMinPoly`): a ring with one point, which is
both its front and its back end -/
def newRec (pt : Pt) (o : Out) : Out :=
  { o with rings := o.rings ++ [{ pts := [pt], stat := .live, frun := o.nrun, brun := o.nrun + 1, flast := pt, blast := pt }],
           log := ⟨pt, .new⟩ :: o.log, nrun := o.nrun + 2 }

/-- the point at the front (`outrec->pts->pt`) or back (`outrec->pts->next->pt`) end -/
def endPt (front : Bool) (pts : List Pt) : Option Pt := if front then pts.head? else pts.getLast?

def Ring.run (r : Ring) (front : Bool) : Nat := if front then r.frun else r.brun

/-- `AddOutPt(e, pt)` on one ring, `front = IsFront(e)`: the new ring, and the log entries -/
def Ring.setLast (r : Ring) (front : Bool) (pt : Pt) : Ring := if front then { r with flast := pt } else { r with blast := pt }

def addPt (front : Bool) (pt : Pt) (r : Ring) : Ring × EmitKind × List Seg :=
  match endPt front r.pts with
  | some p =>
    if pt = p then (r.setLast front pt, .dup, [])
    else ({ r.setLast front pt with pts := if front then pt :: r.pts else r.pts ++ [pt] }, .added, [⟨r.run front, p, pt, .extend⟩])
  | none => ({ r.setLast front pt with pts := [pt] }, .added, [])

/-- `AddOutPt(e, pt)` where `e.outrec` is record `id` and `front = IsFront(e)` -/
def addOutPt (id : Nat) (front : Bool) (pt : Pt) (o : Out) : Out :=
  match o.rings[id]? with
  | some r =>
    if r.stat = .live then
      let a := addPt front pt r
      { o with rings := o.rings.set id a.1, log := ⟨pt, a.2.1⟩ :: o.log, segs := a.2.2 ++ o.segs }
    else { o with log := ⟨pt, .lost⟩ :: o.log }
  | none => { o with log := ⟨pt, .lost⟩ :: o.log }

/-- ghost: the end `front` of record `id` passes to another `Active` (`SwapOutrecs`): a new run starts -/
def handOver (id : Nat) (front : Bool) (o : Out) : Out :=
  match o.rings[id]? with
  | some r => { o with rings := o.rings.set id (if front then { r with frun := o.nrun } else { r with brun := o.nrun }), nrun := o.nrun + 1 }
  | none => o

/-- `outrec.pts = result; UncoupleOutRec(e1);` in `AddLocalMaxPoly` when both edges belong to record `id`; `result` is the `OutPt` at `e1`'s end,
so the list read from the new `outrec.pts` is unchanged when `e1` is the front edge and rotated by one (`back :: front … `) when it is the back edge -/
def finish (id : Nat) (e1front : Bool) (o : Out) : Out :=
  match o.rings[id]? with
  | some r =>
    let pts' : List Pt := if e1front then r.pts else (match r.pts.getLast? with | some b => b :: r.pts.dropLast | none => r.pts)
    { o with rings := o.rings.set id { r with stat := .done, pts := pts' } }
  | none => o

/-- `JoinOutrecPaths(e1, e2)` with `e1.outrec` = record `A`, `e2.outrec` = record `B`, `e1front = IsFront(e1)`:
* `IsFront(e1)`: `p2_end->prev = p1_st; p1_st->next = p2_end; p2_st->next = p1_end; p1_end->prev = p2_st; e1.outrec->pts = p2_st;` — following `->prev`
  from `p2_st` one walks ring 2 to its back end `p2_end`, continues at `p1_st`, walks ring 1 to `p1_end` and is back at `p2_st`: `pts2 ++ pts1`;
  `front_edge = e2.outrec->front_edge` (the front run of `B` continues as the front run of `A`);
* otherwise: `p1_end->prev = p2_st; p2_st->next = p1_end; p1_st->next = p2_end; p2_end->prev = p1_st;` with `pts` unchanged: `pts1 ++ pts2`,
  `back_edge = e2.outrec->back_edge`.
`e2.outrec->pts = nullptr`.  Nothing happens unless both records are live and different (the C++ would corrupt its lists). -/
def joinPaths (A B : Nat) (e1front : Bool) (o : Out) : Out :=
  match o.rings[A]?, o.rings[B]? with
  | some ra, some rb =>
    if A ≠ B ∧ ra.stat = .live ∧ rb.stat = .live then
      let ra' : Ring := if e1front then { ra with pts := rb.pts ++ ra.pts, frun := rb.frun, flast := rb.flast }
        else { ra with pts := ra.pts ++ rb.pts, brun := rb.brun, blast := rb.blast }
      { o with rings := (o.rings.set A ra').set B { rb with pts := [], stat := .gone } }
    else o
  | _, _ => o

/-- ghost: note that the end points of the ends `(id1, f1)` and `(id2, f2)` become (or are about to become) ring neighbours -/
def logSeg (kind : SegKind) (id1 : Nat) (f1 : Bool) (id2 : Nat) (f2 : Bool) (o : Out) : Out :=
  match o.rings[id1]?, o.rings[id2]? with
  | some r1, some r2 =>
    match endPt f1 r1.pts, endPt f2 r2.pts with
    | some p, some q => { o with segs := ⟨r1.run f1, p, q, kind⟩ :: o.segs }
    | _, _ => o
  | _, _ => o

/-! ## the ring effects of the engine's functions -/

/-- `AddLocalMaxPoly(e1, e2, pt)` for closed edges with records `ra`, `rb` (their sides differ, otherwise the side model faults):
`AddOutPt(e1, pt)`; same record ⇒ the ring is finished; else `JoinOutrecPaths(e1, e2)` if `e1.outrec->idx < e2.outrec->idx`, `JoinOutrecPaths(e2, e1)` otherwise -/
def localMaxOut (kind : SegKind) (ra rb : Rec) (pt : Pt) (o : Out) : Out :=
  let o1 := logSeg kind rb.id rb.front ra.id ra.front (addOutPt ra.id ra.front pt o)
  if ra.id = rb.id then finish ra.id ra.front o1
  else if ra.id < rb.id then joinPaths ra.id rb.id ra.front o1
  else joinPaths rb.id ra.id rb.front o1

/-- `AddOutPt(e, pt)` for an edge that may be cold, followed (ghost) by the change of holder that `SwapOutrecs` brings -/
def addOn (r : Option Rec) (pt : Pt) (o : Out) : Out :=
  match r with
  | some x => addOutPt x.id x.front pt o
  | none => o

def handOn (r : Option Rec) (o : Out) : Out :=
  match r with
  | some x => handOver x.id x.front o
  | none => o

/-- the three `AddOutPt … SwapOutrecs(e1, e2)` branches of `IntersectEdges`: `AddOutPt(e1, pt)` if `e1` is hot, `AddOutPt(e2, pt)` if `e2` is hot;
`SwapOutrecs` moves no point -/
def swapOut (r1 r2 : Option Rec) (pt : Pt) (o : Out) : Out :=
  handOn r2 (handOn r1 (addOn r2 pt (addOn r1 pt o)))

/-- "NOW PROCESS THE INTERSECTION" of `IntersectEdges(e1, e2, pt)`, closed branch, `a = e1`, `b = e2` after the two `Split`s -/
def coreOut (cfg : Cfg) (a b : SEdge) (pt : Pt) (o : Out) : Out :=
  let w := updateWinds cfg.fr a.e b.e
  match decideAct cfg w.1 w.2 a.orec b.orec with
  | .nothing => o
  | .swap => swapOut a.orec b.orec pt o
  | .localMin => newRec pt o
  | .localMax =>
    match a.orec, b.orec with
    | some ra, some rb => localMaxOut .meet ra rb pt o
    | _, _ => o
  | .maxThenMin =>
    match a.orec, b.orec with
    | some ra, some rb => newRec pt (localMaxOut .meet ra rb pt o)
    | _, _ => o

/-- `if (IsJoined(e)) Split(e, pt);` for the edge at position `i`: `Split` ends with `AddLocalMinPoly(…, pt, true)` -/
def splitOut (i : Nat) (pt : Pt) (s : SState) (o : Out) : Out :=
  match s.ael[i]? with
  | some x => if x.join = .none then o else newRec pt o
  | none => o

/-- `if (IsJoined(e1)) Split(e1, pt); if (IsJoined(e2)) Split(e2, pt);` for the edges at `i`, `i+1`: the rings, and the two edges afterwards -/
def twoSplitsOut (i : Nat) (pt : Pt) (s : SState) (o : Out) : Out × Option (SEdge × SEdge) :=
  let o1 := splitOut i pt s o
  match splitAt i s with
  | .ok s1 =>
    let o2 := splitOut (i + 1) pt s1 o1
    match splitAt (i + 1) s1 with
    | .ok s2 =>
      match s2.ael.drop i with
      | a :: b :: _ => (o2, some (a, b))
      | _ => (o2, none)
    | .error _ => (o2, none)
  | .error _ => (o1, none)

/-- `IntersectEdges(e1, e2, pt)` with `e1` at position `i`, `e2` at `i+1`.  Open branch: only `Split(*edge_c, pt)` touches a closed record. -/
def intersectOut (cfg : Cfg) (i : Nat) (pt : Pt) (s : SState) (o : Out) : Out :=
  match s.ael.drop i with
  | a0 :: b0 :: _ =>
    if a0.e.isOpen || b0.e.isOpen then
      if a0.e.isOpen && b0.e.isOpen then o
      else if a0.e.isOpen then splitOut (i + 1) pt s o else splitOut i pt s o
    else
      match twoSplitsOut i pt s o with
      | (o2, some (a, b)) => coreOut cfg a b pt o2
      | (o2, none) => o2
  | _ => o

/-- `InsertLocalMinimaIntoAEL`: `AddLocalMinPoly(*left_bound, *right_bound, left_bound->bot, true)` when contributing (closed paths) -/
def insertPairOut (cfg : Cfg) (pos : Nat) (pt : PathType) (isOpen : Bool) (dxLeft : Int) (bot : Pt) (s : SState) (o : Out) : Out :=
  let r := newLeft cfg (erase (s.ael.take pos)) pt isOpen dxLeft
  if r.2 && !isOpen then newRec bot o else o

/-- end of `DoMaxima`: `if (IsJoined(e)) Split(e, e.top); if (IsJoined(*max_pair)) Split(*max_pair, max_pair->top); … if (IsHotEdge(e)) AddLocalMaxPoly(e, *max_pair, e.top);` -/
def removePairOut (i : Nat) (top : Pt) (s : SState) (o : Out) : Out :=
  match s.ael.drop i with
  | a0 :: _ :: _ =>
    if a0.e.isOpen then o
    else
      match twoSplitsOut i top s o with
      | (o2, some (a, b)) =>
        match a.orec, b.orec with
        | some ra, some rb => localMaxOut .meet ra rb top o2
        | _, _ => o2
      | (o2, none) => o2
  | _ => o

/-- `CheckJoinLeft/Right` once the geometric tests have passed, edges at `i`, `i+1`: one record ⇒ `AddLocalMaxPoly(left, right, pt)`;
two records ⇒ `JoinOutrecPaths(lower idx, higher idx)`, no point is added -/
def joinOut (i : Nat) (pt : Pt) (s : SState) (o : Out) : Out :=
  match s.ael.drop i with
  | a :: b :: _ =>
    match a.orec, b.orec with
    | some ra, some rb =>
      if ra.id = rb.id then localMaxOut .joinMeet ra rb pt o
      else
        let o1 := logSeg .joinSeam ra.id ra.front rb.id rb.front o
        if ra.id < rb.id then joinPaths ra.id rb.id ra.front o1 else joinPaths rb.id ra.id rb.front o1
    | _, _ => o
  | _ => o

/-- `if (IsHotEdge(*e)) AddOutPt(*e, e->top);` (before `UpdateEdgeIntoAEL`) for the closed edge at position `i` -/
def updateOut (i : Nat) (top : Pt) (s : SState) (o : Out) : Out :=
  match s.ael[i]? with
  | some x => if x.e.isOpen then o else addOn x.orec top o
  | none => o

/-! ## events -/

structure RState where
  s : SState
  o : Out
  deriving DecidableEq, Repr, Inhabited

def RState.empty : RState := { s := SState.empty, o := Out.empty }

/-- the events of `Model.SOp`, each with the point the C++ has in hand, plus `update`:
* `base (insertPair …) bot` — `bot = left_bound->bot`;  `base (insertOne …) _`, `base (removeOne _) _` — open paths, the point is not used;
* `base (intersect i) pt`   — the `pt` of `IntersectEdges(e1, e2, pt)`;
* `base (removePair i) top` — `e.top` in `DoMaxima`;
* `join i pt`, `split i pt` — the `pt` argument of `CheckJoinLeft/Right`, `Split`;
* `update i top`            — `DoTopOfScanbeam`'s `if (IsHotEdge(*e)) AddOutPt(*e, e->top);` for the edge at position `i`. -/
inductive ROp
  | base (op : Op) (pt : Pt)
  | join (i : Nat) (pt : Pt)
  | split (i : Nat) (pt : Pt)
  | update (i : Nat) (pt : Pt)
  deriving DecidableEq, Repr, Inhabited

/-- the event of the side model (`update` is invisible there) -/
def ROp.erase : ROp → Option SOp
  | .base op _ => some (.base op)
  | .join i _ => some (.join i)
  | .split i _ => some (.split i)
  | .update _ _ => none

/-- the ring effect of an event, computed from the side state before the event -/
def outStep (cfg : Cfg) (s : SState) (o : Out) : ROp → Out
  | .base (.insertPair pos pt isOpen dxLeft) bot => insertPairOut cfg pos pt isOpen dxLeft bot s o
  | .base (.insertOne _ _ _) _ => o
  | .base (.intersect i) pt => intersectOut cfg i pt s o
  | .base (.removePair i) top => removePairOut i top s o
  | .base (.removeOne _) _ => o
  | .join i pt => joinOut i pt s o
  | .split i pt => splitOut i pt s o
  | .update i top => updateOut i top s o

/-- one event: the side model's step, paired with the ring effect -/
def stepR (cfg : Cfg) (r : RState) (op : ROp) : Except Err RState :=
  match op.erase with
  | some sop =>
    match stepS cfg r.s sop with
    | .ok s' => .ok { s := s', o := outStep cfg r.s r.o op }
    | .error e => .error e
  | none =>
    match op with
    | .update i _ => if i < r.s.ael.length then .ok { r with o := outStep cfg r.s r.o op } else .error .reject
    | _ => .error .reject

def runR (cfg : Cfg) : RState → List ROp → Except Err RState
  | r, [] => .ok r
  | r, op :: ops =>
    match stepR cfg r op with
    | .ok r' => runR cfg r' ops
    | .error e => .error e

/-! ## executable forms of the invariants (the `Prop` forms are in `Lemmas/AelRings.lean`) -/

/-- all points of all rings -/
def allPts (rings : List Ring) : List Pt := rings.flatMap (·.pts)

def Emit.kept (e : Emit) : Bool := e.kind == .new || e.kind == .added

/-- every hot closed edge's record is a live ring with at least one point; there are as many rings as records -/
def checkOut (r : RState) : Bool :=
  r.o.rings.length == r.s.next &&
  r.s.ael.all (fun x => match x.orec with
    | some k => (match r.o.rings[k.id]? with | some g => g.stat == .live && !g.pts.isEmpty | none => false)
    | none => true) &&
  r.o.log.all (fun e => e.kind != .lost)

/-- cyclically consecutive pairs of a closed ring -/
def cycPairs : List Pt → List (Pt × Pt)
  | [] => []
  | a :: rest => (a :: rest).zip (rest ++ [a])

/-- consecutive pairs of a ring under construction -/
def linPairs : List Pt → List (Pt × Pt)
  | [] => []
  | a :: rest => (a :: rest).zip rest

def segMatches (sg : Seg) (pq : Pt × Pt) : Bool := (sg.p == pq.1 && sg.q == pq.2) || (sg.p == pq.2 && sg.q == pq.1)

/-- every pair of neighbours of every ring is in the segment log -/
def checkSegs (o : Out) : Bool :=
  o.rings.all (fun g =>
    (match g.stat with | .done => cycPairs g.pts | _ => linPairs g.pts).all (fun pq => o.segs.any (fun sg => segMatches sg pq)))

end Clipper.Model
