/-
Model of the *geometric order* of the active edge list (properties C01, C13, C10):

  * `isValidAelOrder r n`   = the C++ `IsValidAelOrder(resident, newcomer)` — the definition REGENERATED from the source
                              (`Gen.IsValidAelOrder`, tools/cpp2lean.py), applied to the record of the fields it reads;
  * `insertLeft`            = `ClipperBase::InsertLeftEdge`   (clipper.engine.cpp), statement by statement;
  * `insertRightEdge`       = `InsertRightEdge(e, e2)`        (e2 goes right behind e);
  * `settleRight`           = the loop of `InsertLocalMinimaIntoAEL` that follows InsertRightEdge:
                              `while (rb->next_in_ael && IsValidAelOrder(*rb->next_in_ael, *rb)) { IntersectEdges; SwapPositionsInAEL }`
                              (only its effect on the order of the list);  `insertRight` = the two together.

The list functions are generic in the edge type and in the two things they read from an edge (`valid`, `joinRight`), so that
the theorems of `Props/C01Order.lean` hold for every predicate; `OEdge` instantiates them with the generated predicate.
Core Lean only (linked into the driver).
-/
import ClipperVerif.Spec.Basic
import ClipperVerif.Generated.Engine
namespace Clipper.Model.AelOrder

/-- The fields of a C++ `Active` that `IsValidAelOrder` and `InsertLeftEdge` read (pointer chasing resolved). -/
structure OEdge where
  currX : Int              -- curr_x
  bot : Pt                 -- bot
  top : Pt                 -- top
  isLeftBound : Bool       -- is_left_bound
  isMaxima : Bool          -- IsMaxima(e)                 (vertex_top carries the LocalMax flag)
  nextVertexPt : Pt        -- NextVertex(e)->pt
  prevPrevVertexPt : Pt    -- PrevPrevVertex(e)->pt
  localMinY : Int          -- e.local_min->vertex->pt.y
  joinRight : Bool         -- e.join_with == JoinWith::Right   (read by InsertLeftEdge only)
  deriving DecidableEq, Repr, Inhabited

/-- C++ `IsValidAelOrder(resident, newcomer)`: the generated definition on the fields of the two edges. -/
def isValidAelOrder (r n : OEdge) : Bool :=
  Gen.IsValidAelOrder n.isMaxima n.nextVertexPt.x n.nextVertexPt.y n.prevPrevVertexPt.x n.prevPrevVertexPt.y
    n.bot.x n.bot.y n.currX n.isLeftBound n.top.x n.top.y
    r.isMaxima r.nextVertexPt.x r.nextVertexPt.y r.prevPrevVertexPt.x r.prevPrevVertexPt.y
    r.bot.x r.bot.y r.currX r.isLeftBound r.localMinY r.top.x r.top.y

/-- Hand-readable form of `IsValidAelOrder` (equal to the generated one: `aelOrder_bridge`).  `cross a b c` is the exact
integer cross product `(b-a) × (c-a)` = `(b-a) × (c-b)`, whose sign `CrossProductSign(a,b,c)` computes.  Returns the
Boolean and the number of the branch that decided (statistics of the correspondence harness):
0 curr_x differ · 1 cross sign · 2 resident continues higher · 3 newcomer continues higher · 4 resident not inserted at
this minimum · 5 different sides · 6 resident's bounds collinear · 7 turn of the alternate bounds. -/
def aelOrderSpecB (r n : OEdge) : Bool × Nat :=
  if n.currX ≠ r.currX then (decide (r.currX < n.currX), 0)
  else if cross r.top n.bot n.top ≠ 0 then (decide (cross r.top n.bot n.top < 0), 1)
  else if r.isMaxima = false ∧ r.top.y > n.top.y then (decide (cross n.bot r.top r.nextVertexPt ≤ 0), 2)
  else if n.isMaxima = false ∧ n.top.y > r.top.y then (decide (cross n.bot n.top n.nextVertexPt ≥ 0), 3)
  else if r.bot.y ≠ n.bot.y ∨ r.localMinY ≠ n.bot.y then (n.isLeftBound, 4)
  else if r.isLeftBound ≠ n.isLeftBound then (n.isLeftBound, 5)
  else if cross r.prevPrevVertexPt r.bot r.top = 0 then (true, 6)
  else (decide (cross r.prevPrevVertexPt n.bot n.prevPrevVertexPt > 0) == n.isLeftBound, 7)

def aelOrderSpec (r n : OEdge) : Bool := (aelOrderSpecB r n).1

/-! ## the list operations, generic -/
section Generic
variable {E : Type} (valid : E → E → Bool) (joinRight : E → Bool)

/-- The `else` branch of `InsertLeftEdge`, cursor `e2 = cur`, `rest` = the edges behind it:
```
while (e2->next_in_ael && IsValidAelOrder(*e2->next_in_ael, e)) e2 = e2->next_in_ael;
if (e2->join_with == JoinWith::Right) e2 = e2->next_in_ael;
if (!e2) return;                  // e is NOT linked into the list
... link e behind e2
``` -/
def walkInsert (e : E) : E → List E → List E
  | cur, [] => if joinRight cur then [cur] else [cur, e]
  | cur, nxt :: rest =>
    if valid nxt e then cur :: walkInsert e nxt rest
    else if joinRight cur then cur :: nxt :: e :: rest
    else cur :: e :: nxt :: rest

/-- C++ `ClipperBase::InsertLeftEdge(e)` on the AEL `l` (head = `actives_`). -/
def insertLeft (l : List E) (e : E) : List E :=
  match l with
  | [] => [e]
  | first :: rest => if !valid first e then e :: first :: rest else walkInsert valid joinRight e first rest

/-- index at which `walkInsert` links `e` (counted in `cur :: rest`), `none` on the `if (!e2) return` path -/
def walkPos (e : E) : E → List E → Option Nat
  | cur, [] => if joinRight cur then none else some 1
  | cur, nxt :: rest =>
    if valid nxt e then (walkPos e nxt rest).map (· + 1)
    else if joinRight cur then some 2
    else some 1

/-- index of `e` in the AEL after `InsertLeftEdge`, `none` when the edge was not linked -/
def insertLeftPos (l : List E) (e : E) : Option Nat :=
  match l with
  | [] => some 0
  | first :: rest => if !valid first e then some 0 else walkPos valid joinRight e first rest

/-- C++ `InsertRightEdge(e, e2)`: `e` is the edge at index `i`, `e2` is linked right behind it. -/
def insertRightEdge (l : List E) (i : Nat) (e2 : E) : List E := l.take (i + 1) ++ e2 :: l.drop (i + 1)

/-- The loop `while (rb->next_in_ael && IsValidAelOrder(*rb->next_in_ael, *rb)) SwapPositionsInAEL(*rb, *rb->next_in_ael)`
on the edges behind `rb` (the IntersectEdges calls change no field that is read here). -/
def bubble (rb : E) : List E → List E
  | [] => [rb]
  | nxt :: rest => if valid nxt rb then nxt :: bubble rb rest else rb :: nxt :: rest

/-- number of swaps of that loop -/
def bubbleCount (rb : E) : List E → Nat
  | [] => 0
  | nxt :: rest => if valid nxt rb then bubbleCount rb rest + 1 else 0

/-- the AEL after the settling loop, `rb` being the edge at index `j` -/
def settleRight (l : List E) (j : Nat) : List E :=
  match l.drop j with
  | [] => l
  | rb :: rest => l.take j ++ bubble valid rb rest

/-- `InsertRightEdge(left, rb)` followed by the settling loop; `i` = index of the left bound
(= `settleRight (insertRightEdge l i rb) (i+1)` when `i < l.length`: `Props.C01Order.insertRight_eq_settle`) -/
def insertRight (l : List E) (i : Nat) (rb : E) : List E := l.take (i + 1) ++ bubble valid rb (l.drop (i + 1))

/-- final index of the right bound -/
def insertRightPos (l : List E) (i : Nat) (rb : E) : Nat := i + 1 + bubbleCount valid rb (l.drop (i + 1))

end Generic

/-! ## exact x-coordinate of an edge at a rational height (no division) -/

/-- numerator of the x-coordinate at height `yn/yd` of the line through `b` (bot) and `t` (top); the denominator is `xDen` -/
def xNum (b t : Pt) (yn yd : Int) : Int := b.x * ((b.y - t.y) * yd) + (t.x - b.x) * (b.y * yd - yn)
/-- denominator: positive when `t.y < b.y` (the edge is not horizontal) and `yd > 0` -/
def xDen (b t : Pt) (yd : Int) : Int := (b.y - t.y) * yd
/-- edge 1 is strictly left of edge 2 at height `yn/yd` (cross-multiplied comparison of the two fractions) -/
def xLt (b1 t1 b2 t2 : Pt) (yn yd : Int) : Prop := xNum b1 t1 yn yd * xDen b2 t2 yd < xNum b2 t2 yn yd * xDen b1 t1 yd
instance (b1 t1 b2 t2 : Pt) (yn yd : Int) : Decidable (xLt b1 t1 b2 t2 yn yd) := by unfold xLt; infer_instance
/-- edge 1 is left of edge 2 by more than `tol` units at height `yn/yd`:  `x1 + tol < x2` -/
def xLtBy (tol : Int) (b1 t1 b2 t2 : Pt) (yn yd : Int) : Prop :=
  (xNum b1 t1 yn yd + tol * xDen b1 t1 yd) * xDen b2 t2 yd < xNum b2 t2 yn yd * xDen b1 t1 yd
instance (tol : Int) (b1 t1 b2 t2 : Pt) (yn yd : Int) : Decidable (xLtBy tol b1 t1 b2 t2 yn yd) := by unfold xLtBy; infer_instance

end Clipper.Model.AelOrder
