/-
Executable model of the second half of `RectClip64` (clipper.rectclip.cpp:606-910): `CheckEdges`, `TidyEdges`, `GetPath`
and the per-path part of `RectClip64::Execute`, on a pointer-level heap of `OutPt2` nodes.

Representation.  `op_container_` is the index range `0 … n-1`; a pointer `OutPt2*` is an index (`nullptr` = `none`);
the fields of the nodes are five maps `pt next prev owner edge` (struct of arrays: a statement that writes `op->next`
visibly leaves every other field alone).  `op->edge` (a pointer to one of the eight lists `edges_[0..7]`) is the index of
that list.  `results_` is a `List (Option Nat)`, `edges_[e]` is `edges e : List (Option Nat)` (the `nullptr` slots that
`TidyEdges` leaves behind are kept).  Nodes are numbered in the order `RectClip64::Add` creates them, which is the
order of `op_container_` — the correspondence harness (harness/C08tidy.cpp) numbers the real nodes the same way and
compares *every* field of *every* node, `results_` and the eight edge lists after each stage.

Transcribed statement by statement, in the order the C++ executes them (sequential writes read the heap left by the
previous write): `Add`, `AddToEdge`, `UncoupleEdge`, `SetNewOwner`, `UnlinkOp`, `UnlinkOpBack`, `CheckEdges`, `TidyEdges`
(every branch, including the `nullptr` scans), `GetPath`, the loop body of `Execute`.  `IsCollinear`, `GetEdgesForPt`,
`IsHeadingClockwise`, `HasHorzOverlap`, `HasVertOverlap` are the definitions *generated* from the C++ source.

Faults (`Except TFault`): `null` = a null pointer would be dereferenced, `oob` = `results_[k]` / `cw[i]` / `ccw[j]` indexed
out of range, `fuel` = a loop did not finish within its fuel (Props/C08Tidy.lean proves that none of them occurs on
well-formed heaps and gives the measures).  Core Lean only.
-/
import ClipperVerif.Model.RectClipAuto
import ClipperVerif.Model.CleanUp
import ClipperVerif.Generated.RectClip
namespace Clipper.Model.RCT
open Clipper Clipper.Model.RC

/-- `f[k] := v` -/
def upd {α : Type} (f : Nat → α) (k : Nat) (v : α) : Nat → α := fun x => if x = k then v else f x

inductive TFault
  /-- a null `OutPt2*` would be dereferenced -/
  | null
  /-- `results_[k]`, `cw[i]` or `ccw[j]` indexed out of range -/
  | oob
  /-- a loop did not finish within its fuel -/
  | fuel
  deriving DecidableEq, Repr

/-- `op_container_` (nodes `0 … n-1`, fields as maps), `results_`, `edges_[8]` -/
structure Heap where
  n : Nat
  pt : Nat → Pt
  next : Nat → Nat
  prev : Nat → Nat
  owner : Nat → Nat
  edge : Nat → Option Nat
  results : List (Option Nat)
  edges : Nat → List (Option Nat)

/-- the state of a `RectClip64` object between two paths -/
def Heap.empty : Heap := ⟨0, fun _ => ⟨0, 0⟩, fun k => k, fun k => k, fun _ => 0, fun _ => none, [], fun _ => []⟩

/-- `IsCollinear(a, b, c)` (generated) -/
abbrev isCollinear (a b c : Pt) : Bool := Clipper.Model.CleanUp.isCollinear a b c

/-- `IsCollinear(op->prev->pt, op->pt, op->next->pt)` -/
def Heap.collinearAt (h : Heap) (op : Nat) : Bool := isCollinear (h.pt (h.prev op)) (h.pt op) (h.pt (h.next op))

/-! ### the small helpers -/

/-- `RectClip64::Add(pt)` (`start_new == false`) -/
def Heap.add (h : Heap) (p : Pt) : Except TFault Heap :=
  match h.results.getLast? with
  | none =>
    -- curr_idx == 0: result = &op_container_.emplace_back(OutPt2()); result->next = result->prev = result; results_.emplace_back(result)
    let k := h.n
    .ok { h with n := k + 1, pt := upd h.pt k p, next := upd h.next k k, prev := upd h.prev k k,
                 owner := upd h.owner k 0, edge := upd h.edge k none, results := h.results ++ [some k] }
  | some none => .error .null
  | some (some prevOp) =>
    if h.pt prevOp = p then .ok h else
      let k := h.n
      let ci := h.results.length - 1
      let nx := h.next prevOp
      -- result->next = prevOp->next; prevOp->next->prev = result; prevOp->next = result; result->prev = prevOp;
      .ok { h with n := k + 1, pt := upd h.pt k p, owner := upd h.owner k ci, edge := upd h.edge k none,
                   next := upd (upd h.next k nx) prevOp k,
                   prev := upd (upd h.prev nx k) k prevOp,
                   results := h.results.set ci (some k) }

def Heap.addAll (h : Heap) : List Pt → Except TFault Heap
  | [] => .ok h
  | p :: ps => match h.add p with
    | .error f => .error f
    | .ok h' => h'.addAll ps

/-- `AddToEdge(edges_[e], op)` -/
def Heap.addToEdge (h : Heap) (e op : Nat) : Heap :=
  match h.edge op with
  | some _ => h
  | none => { h with edge := upd h.edge op (some e), edges := upd h.edges e (h.edges e ++ [some op]) }

/-- the loop of `UncoupleEdge`: the first entry equal to `op` becomes `nullptr` -/
def nullFirst (op : Nat) : List (Option Nat) → List (Option Nat)
  | [] => []
  | x :: xs => if x = some op then none :: xs else x :: nullFirst op xs

/-- `UncoupleEdge(op)` -/
def Heap.uncoupleEdge (h : Heap) (op : Nat) : Heap :=
  match h.edge op with
  | none => h
  | some e => { h with edges := upd h.edges e (nullFirst op (h.edges e)), edge := upd h.edge op none }

/-- the `while (op2 != op)` loop of `SetNewOwner` -/
def setOwnerLoop (op newIdx : Nat) : Nat → Heap → Nat → Except TFault Heap
  | 0, _, _ => .error .fuel
  | fuel + 1, h, op2 =>
    if op2 ≠ op then setOwnerLoop op newIdx fuel { h with owner := upd h.owner op2 newIdx } (h.next op2)
    else .ok h

/-- `SetNewOwner(op, new_idx)` -/
def Heap.setNewOwner (h : Heap) (op newIdx : Nat) : Except TFault Heap :=
  setOwnerLoop op newIdx (h.n + 1) { h with owner := upd h.owner op newIdx } (h.next op)

/-- the two writes shared by `UnlinkOp` and `UnlinkOpBack`: `op->prev->next = op->next; op->next->prev = op->prev;` -/
def Heap.unlink (h : Heap) (op : Nat) : Heap :=
  let h1 := { h with next := upd h.next (h.prev op) (h.next op) }
  { h1 with prev := upd h1.prev (h1.next op) (h1.prev op) }

/-- `UnlinkOp(op)` -/
def Heap.unlinkOp (h : Heap) (op : Nat) : Option Nat × Heap :=
  if h.next op = op then (none, h) else
    let h' := h.unlink op
    (some (h'.next op), h')

/-- `UnlinkOpBack(op)` -/
def Heap.unlinkOpBack (h : Heap) (op : Nat) : Option Nat × Heap :=
  if h.next op = op then (none, h) else
    let h' := h.unlink op
    (some (h'.prev op), h')

/-- `results_[k] = v` -/
def Heap.setResult (h : Heap) (k : Nat) (v : Option Nat) : Except TFault Heap :=
  if k < h.results.length then .ok { h with results := h.results.set k v } else .error .oob

/-! ### `CheckEdges` -/

/-- The first `do … while (op2 != op)` loop of `CheckEdges` (removal of collinear nodes), entered with the body.
Returns the heap, `op`, and `op2` (`none` = the ring vanished). -/
def collinearLoop : Nat → Heap → Nat → Nat → Except TFault (Heap × Nat × Option Nat)
  | 0, _, _, _ => .error .fuel
  | fuel + 1, h, op, op2 =>
    if h.collinearAt op2 then
      if op2 = op then
        match h.unlinkOpBack op2 with
        | (none, h') => .ok (h', op, none)
        | (some q, h') =>
          let op' := h'.prev q
          if q ≠ op' then collinearLoop fuel h' op' q else .ok (h', op', some q)
      else
        match h.unlinkOpBack op2 with
        | (none, h') => .ok (h', op, none)
        | (some q, h') => if q ≠ op then collinearLoop fuel h' op q else .ok (h', op, some q)
    else
      let q := h.next op2
      if q ≠ op then collinearLoop fuel h op q else .ok (h, op, some q)

/-- `GetEdgesForPt(pt, rect_)` (generated) -/
def edgesForPt (r : Rect) (p : Pt) : UInt64 := Gen.GetEdgesForPt p.x p.y r.bottom r.left r.right r.top

/-- `IsHeadingClockwise(pt1, pt2, edgeIdx)` (generated) -/
def isHeadingClockwise (p1 p2 : Pt) (j : Nat) : Bool := Gen.IsHeadingClockwise (j : Int) p1.x p1.y p2.x p2.y

/-- `combinedSet & (1 << j)` -/
def bitSet (s : UInt64) (j : Nat) : Bool := (s &&& ((1 : UInt64) <<< j.toUInt64)) != 0

/-- the body of `for (int j = 0; j < 4; ++j)` of `CheckEdges` -/
def classifyOne (h : Heap) (op2 : Nat) (combined : UInt64) (j : Nat) : Heap :=
  if bitSet combined j then
    if isHeadingClockwise (h.pt (h.prev op2)) (h.pt op2) j then h.addToEdge (j * 2) op2
    else h.addToEdge (j * 2 + 1) op2
  else h

/-- the second `do … while (op2 != op)` loop of `CheckEdges` (classification of the boundary edges) -/
def edgeLoop (r : Rect) (op : Nat) : Nat → Heap → UInt64 → Nat → Except TFault Heap
  | 0, _, _, _ => .error .fuel
  | fuel + 1, h, edgeSet1, op2 =>
    let edgeSet2 := edgesForPt r (h.pt op2)
    let h' :=
      if edgeSet2 != 0 && (h.edge op2).isNone then
        let combined := edgeSet1 &&& edgeSet2
        [0, 1, 2, 3].foldl (fun hh j => classifyOne hh op2 combined j) h
      else h
    let q := h'.next op2
    if q ≠ op then edgeLoop r op fuel h' edgeSet2 q else .ok h'

/-- fuel of `collinearLoop`: every iteration removes a node or advances, and a removal costs at most one full round -/
def collFuel (h : Heap) : Nat := (h.n + 1) * (h.n + 2)

/-- the body of `for (size_t i = 0; i < results_.size(); ++i)` of `CheckEdges` -/
def checkRing (r : Rect) (h : Heap) (i : Nat) : Except TFault Heap :=
  match h.results[i]? with
  | none => .error .oob
  | some none => .ok h
  | some (some op) =>
    match collinearLoop (collFuel h) h op op with
    | .error f => .error f
    | .ok (h1, _, none) => h1.setResult i none
    | .ok (h1, op1, some _) =>
      match h1.setResult i (some op1) with
      | .error f => .error f
      | .ok h2 => edgeLoop r op1 (h2.n + 1) h2 (edgesForPt r (h2.pt (h2.prev op1))) op1

def checkRings (r : Rect) : Nat → Nat → Heap → Except TFault Heap
  | 0, _, h => .ok h
  | k + 1, i, h => match checkRing r h i with
    | .error f => .error f
    | .ok h' => checkRings r k (i + 1) h'

/-- `RectClip64::CheckEdges()` -/
def checkEdges (r : Rect) (h : Heap) : Except TFault Heap := checkRings r h.results.length 0 h

/-! ### `TidyEdges` -/

/-- which path through the loop body of `TidyEdges` an iteration took -/
inductive Branch
  /-- `if (!p1 || p1->next == p1->prev) { cw[i++] = nullptr; j = 0; continue; }` -/
  | skipCw
  /-- `if (j == jLim) { ++i; j = 0; continue; }` -/
  | ccwExhausted
  /-- no overlap: `++j` -/
  | noOverlap
  /-- split or rejoin, then the arm of the final `if … else if … else if … else` (0 … 3) and its inner test -/
  | splice (rejoin : Bool) (arm : Nat) (first : Bool)
  deriving DecidableEq, Repr

/-- `!ccw[j] || ccw[j]->next == ccw[j]->prev` -/
def skipEntry (h : Heap) : Option Nat → Bool
  | none => true
  | some k => h.next k == h.prev k

/-- `while (j < jLim && (!ccw[j] || ccw[j]->next == ccw[j]->prev)) ++j;` -/
def scanCcw (h : Heap) (ccw : List (Option Nat)) (j : Nat) : Nat := j + ((ccw.drop j).takeWhile (skipEntry h)).length

/-- control state of the `while (i < cw.size())` loop -/
structure TState where
  h : Heap
  i : Nat
  j : Nat

inductive TStep
  | done
  | next (b : Branch) (s : TState)
  | fault (f : TFault)

def Heap.setEdge (h : Heap) (e k : Nat) (v : Option Nat) : Heap := { h with edges := upd h.edges e ((h.edges e).set k v) }

/-- `opIsLarger = op->pt.x > op->prev->pt.x` (horizontal sides) resp. `op->pt.y > op->prev->pt.y` -/
def isLarger (isHorz : Bool) (h : Heap) (op : Nat) : Bool :=
  if isHorz then decide ((h.pt op).x > (h.pt (h.prev op)).x) else decide ((h.pt op).y > (h.pt (h.prev op)).y)

/-- "and now lots of work to get ready for the next loop": the final `if … else if … else if … else` of the loop body -/
def tidyRelist (cwE ccwE : Nat) (cwTL isHorz : Bool) (h : Heap) (i j op op2 : Nat) (rejoin : Bool) : TStep :=
  let opIsLarger := isLarger isHorz h op
  let op2IsLarger := isLarger isHorz h op2
  if h.next op = h.prev op ∨ h.pt op = h.pt (h.prev op) then
    if op2IsLarger = cwTL then
      -- cw[i] = op2; ccw[j++] = nullptr;
      .next (.splice rejoin 0 true) ⟨(h.setEdge cwE i (some op2)).setEdge ccwE j none, i, j + 1⟩
    else
      -- ccw[j] = op2; cw[i++] = nullptr;
      .next (.splice rejoin 0 false) ⟨(h.setEdge ccwE j (some op2)).setEdge cwE i none, i + 1, j⟩
  else if h.next op2 = h.prev op2 ∨ h.pt op2 = h.pt (h.prev op2) then
    if opIsLarger = cwTL then
      .next (.splice rejoin 1 true) ⟨(h.setEdge cwE i (some op)).setEdge ccwE j none, i, j + 1⟩
    else
      .next (.splice rejoin 1 false) ⟨(h.setEdge ccwE j (some op)).setEdge cwE i none, i + 1, j⟩
  else if opIsLarger = op2IsLarger then
    if opIsLarger = cwTL then
      -- cw[i] = op; UncoupleEdge(op2); AddToEdge(cw, op2); ccw[j++] = nullptr;
      .next (.splice rejoin 2 true) ⟨((((h.setEdge cwE i (some op)).uncoupleEdge op2).addToEdge cwE op2).setEdge ccwE j none), i, j + 1⟩
    else
      -- cw[i++] = nullptr; ccw[j] = op2; UncoupleEdge(op); AddToEdge(ccw, op); j = 0;
      .next (.splice rejoin 2 false) ⟨((((h.setEdge cwE i none).setEdge ccwE j (some op2)).uncoupleEdge op).addToEdge ccwE op), i + 1, 0⟩
  else
    -- if (opIsLarger == cwIsTowardLarger) cw[i] = op; else ccw[j] = op;
    let h1 := if opIsLarger = cwTL then h.setEdge cwE i (some op) else h.setEdge ccwE j (some op)
    -- if (op2IsLarger == cwIsTowardLarger) cw[i] = op2; else ccw[j] = op2;
    let h2 := if op2IsLarger = cwTL then h1.setEdge cwE i (some op2) else h1.setEdge ccwE j (some op2)
    .next (.splice rejoin 3 (opIsLarger = cwTL)) ⟨h2, i, j⟩

/-- `if (isRejoining) { results_[p2->owner_idx] = nullptr; SetNewOwner(p2, p1->owner_idx); }` -/
def splicePre (h : Heap) (rejoin : Bool) (p1 p2 : Nat) : Except TFault Heap :=
  if rejoin then
    match h.setResult (h.owner p2) none with
    | .error f => .error f
    | .ok h1 => h1.setNewOwner p2 (h1.owner p1)
  else .ok h

/-- "do the split or re-join": the four pointer writes -/
def spliceLink (cwTL : Bool) (h1 : Heap) (p1 p1a p2 p2a : Nat) : Heap :=
  if cwTL then
    -- p1->next = p2; p2->prev = p1; p1a->prev = p2a; p2a->next = p1a;
    let a := { h1 with next := upd h1.next p1 p2 }
    let b := { a with prev := upd a.prev p2 p1 }
    let c := { b with prev := upd b.prev p1a p2a }
    { c with next := upd c.next p2a p1a }
  else
    -- p1->prev = p2; p2->next = p1; p1a->next = p2a; p2a->prev = p1a;
    let a := { h1 with prev := upd h1.prev p1 p2 }
    let b := { a with next := upd a.next p2 p1 }
    let c := { b with next := upd b.next p1a p2a }
    { c with prev := upd c.prev p2a p1a }

/-- `if (!isRejoining) { size_t new_idx = results_.size(); results_.emplace_back(p1a); SetNewOwner(p1a, new_idx); }` -/
def splicePost (h2 : Heap) (rejoin : Bool) (p1a : Nat) : Except TFault Heap :=
  if !rejoin then
    let newIdx := h2.results.length
    ({ h2 with results := h2.results ++ [some p1a] } : Heap).setNewOwner p1a newIdx
  else .ok h2

/-- `results_[op->owner_idx] = op; results_[op2->owner_idx] = op2;` -/
def spliceSlots (h3 : Heap) (op op2 : Nat) : Except TFault Heap :=
  match h3.setResult (h3.owner op) (some op) with
  | .error f => .error f
  | .ok h4 => h4.setResult (h4.owner op2) (some op2)

/-- from "to get here we're either splitting or rejoining" to the two `results_[…] = …` writes; returns the heap,
`op`, `op2` and `isRejoining` -/
def tidySplice (cwTL : Bool) (h : Heap) (cwI ccwJ p1 p1a p2 p2a : Nat) : Except TFault (Heap × Nat × Nat × Bool) :=
  let rejoin := decide (h.owner cwI ≠ h.owner ccwJ)
  match splicePre h rejoin p1 p2 with
  | .error f => .error f
  | .ok h1 =>
    match splicePost (spliceLink cwTL h1 p1 p1a p2 p2a) rejoin p1a with
    | .error f => .error f
    | .ok h3 =>
      let op := if cwTL then p2 else p1
      let op2 := if cwTL then p1a else p2a
      match spliceSlots h3 op op2 with
      | .error f => .error f
      | .ok h5 => .ok (h5, op, op2, rejoin)

/-- `isHorz ? HasHorzOverlap(p1->pt, p1a->pt, p2->pt, p2a->pt) : HasVertOverlap(p1->pt, p1a->pt, p2->pt, p2a->pt)` -/
def hasOverlap (isHorz : Bool) (h : Heap) (p1 p1a p2 p2a : Nat) : Bool :=
  if isHorz then Gen.HasHorzOverlap (left1_x := (h.pt p1).x) (right1_x := (h.pt p1a).x) (left2_x := (h.pt p2).x) (right2_x := (h.pt p2a).x)
  else Gen.HasVertOverlap (top1_y := (h.pt p1).y) (bottom1_y := (h.pt p1a).y) (top2_y := (h.pt p2).y) (bottom2_y := (h.pt p2a).y)

/-- One iteration of `while (i < cw.size())` of `TidyEdges(idx, edges_[2 idx], edges_[2 idx + 1])`. -/
def tidyStep (idx : Nat) (s : TState) : TStep :=
  let cwE := idx * 2
  let ccwE := idx * 2 + 1
  let isHorz := idx == 1 || idx == 3
  let cwTL := idx == 1 || idx == 2
  let h := s.h
  let cw := h.edges cwE
  if s.i < cw.length then
    match cw[s.i]? with
    | none => .fault .oob
    | some e =>
      -- p1 = cw[i]; if (!p1 || p1->next == p1->prev) { cw[i++] = nullptr; j = 0; continue; }
      if skipEntry h e then .next .skipCw ⟨h.setEdge cwE s.i none, s.i + 1, 0⟩
      else match e with
      | none => .fault .null
      | some cwI =>
        let ccw := h.edges ccwE
        let jLim := ccw.length
        let j := scanCcw h ccw s.j
        if j = jLim then .next .ccwExhausted ⟨h, s.i + 1, 0⟩
        else match ccw[j]? with
          | none => .fault .oob
          | some none => .fault .null
          | some (some ccwJ) =>
            let p1 := if cwTL then h.prev cwI else cwI
            let p1a := if cwTL then cwI else h.prev cwI
            let p2 := if cwTL then ccwJ else h.prev ccwJ
            let p2a := if cwTL then h.prev ccwJ else ccwJ
            if !hasOverlap isHorz h p1 p1a p2 p2a then .next .noOverlap ⟨h, s.i, j + 1⟩
            else
              match tidySplice cwTL h cwI ccwJ p1 p1a p2 p2a with
              | .error f => .fault f
              | .ok (h5, op, op2, rejoin) => tidyRelist cwE ccwE cwTL isHorz h5 s.i j op op2 rejoin
  else .done

/-- the `while (i < cw.size())` loop; the branches taken are collected for the statistics -/
def tidyLoop (idx : Nat) : Nat → TState → Except TFault (Heap × List Branch)
  | 0, _ => .error .fuel
  | fuel + 1, s =>
    match tidyStep idx s with
    | .done => .ok (s.h, [])
    | .fault f => .error f
    | .next b s' =>
      match tidyLoop idx fuel s' with
      | .error f => .error f
      | .ok (h, bs) => .ok (h, b :: bs)

/-- coordinate along side `idx` (x for the horizontal sides 1 and 3) -/
def axisOf (idx : Nat) (p : Pt) : Int := if idx == 1 || idx == 3 then p.x else p.y

/-- total length along the axis of side `idx` of the links `prev k → k` of the first `n` nodes -/
def axisLen (idx : Nat) (h : Heap) : Nat → Nat
  | 0 => 0
  | k + 1 => axisLen idx h k + (axisOf idx (h.pt k) - axisOf idx (h.pt (h.prev k))).natAbs

/-- 1 for an edge-list entry whose link `prev k → k` has length zero (`op->pt == op->prev->pt`) -/
def zeroLen (h : Heap) : Option Nat → Nat
  | some k => if h.pt k = h.pt (h.prev k) then 1 else 0
  | none => 0

/-- `P` = total length along the axis of side `idx` of all links, plus the number of zero-length entries of the two lists of
the side -/
def tidyP (idx : Nat) (h : Heap) : Nat :=
  axisLen idx h h.n + ((h.edges (idx * 2)).map (zeroLen h)).sum + ((h.edges (idx * 2 + 1)).map (zeroLen h)).sum

/-- The termination measure of the `TidyEdges` loop (theorem `tidyEdges_terminates`).  A split/rejoin of two edges of positive
length shortens the links along the side by twice the overlap (≥ 2) and creates at most one new zero-length entry; a
split/rejoin involving a zero-length entry keeps the total length and consumes that entry: `P` drops by at least one, and at
most one entry is appended to one of the two lists, so `M = P + |cw| + |ccw|` never grows.  Every other iteration advances `i`
(resetting `j`) or `j`.  `μ = P (M+1)² + (|cw| - i)(M+1) + (|ccw| - j)`. -/
def tidyMeasure (idx : Nat) (s : TState) : Nat :=
  let cw := (s.h.edges (idx * 2)).length
  let ccw := (s.h.edges (idx * 2 + 1)).length
  let P := tidyP idx s.h
  P * (P + cw + ccw + 1) * (P + cw + ccw + 1) + (cw - s.i) * (P + cw + ccw + 1) + (ccw - s.j)

/-- iterations granted to the `TidyEdges` loop -/
def tidyFuel (idx : Nat) (h : Heap) : Nat := tidyMeasure idx ⟨h, 0, 0⟩ + 1

/-- `RectClip64::TidyEdges(idx, edges_[idx * 2], edges_[idx * 2 + 1])` -/
def tidyEdgesB (idx : Nat) (h : Heap) : Except TFault (Heap × List Branch) :=
  if (h.edges (idx * 2 + 1)).isEmpty then .ok (h, [])        -- if (ccw.empty()) return;
  else tidyLoop idx (tidyFuel idx h) ⟨h, 0, 0⟩

def tidyEdges (idx : Nat) (h : Heap) : Except TFault Heap := (tidyEdgesB idx h).map (·.1)

/-! ### `GetPath` -/

/-- the `while (op2 && op2 != op)` loop of `GetPath`; returns the heap and `op2` -/
def getPathLoop : Nat → Heap → Nat → Nat → Except TFault (Heap × Option Nat)
  | 0, _, _, _ => .error .fuel
  | fuel + 1, h, op, op2 =>
    if op2 ≠ op then
      if h.collinearAt op2 then
        -- op = op2->prev; op2 = UnlinkOp(op2);
        let op' := h.prev op2
        match h.unlinkOp op2 with
        | (none, h') => .ok (h', none)
        | (some q, h') => getPathLoop fuel h' op' q
      else getPathLoop fuel h op (h.next op2)
    else .ok (h, some op2)

/-- `while (op2 != op) { result.emplace_back(op2->pt); op2 = op2->next; }` -/
def collectLoop (h : Heap) (op : Nat) : Nat → Nat → Except TFault Path
  | 0, _ => .error .fuel
  | fuel + 1, op2 =>
    if op2 ≠ op then
      match collectLoop h op fuel (h.next op2) with
      | .error f => .error f
      | .ok l => .ok (h.pt op2 :: l)
    else .ok []

/-- `RectClip64::GetPath(OutPt2*& op)` for `op = results_[i]`: the path, and the heap with `results_[i]` as the
reference parameter leaves it -/
def getPath (h : Heap) (i : Nat) : Except TFault (Path × Heap) :=
  match h.results[i]? with
  | none => .error .oob
  | some none => .ok ([], h)                                         -- !op
  | some (some op) =>
    if h.next op = h.prev op then .ok ([], h)                        -- op->next == op->prev
    else
      match getPathLoop (collFuel h) h op (h.next op) with
      | .error f => .error f
      | .ok (h1, op2) =>
        -- op = op2; if (!op2) return Path64();
        match h1.setResult i op2 with
        | .error f => .error f
        | .ok h2 =>
          match op2 with
          | none => .ok ([], h2)
          | some o =>
            match collectLoop h2 o (h2.n + 1) (h2.next o) with
            | .error f => .error f
            | .ok l => .ok (h2.pt o :: l, h2)

/-- `for (OutPt2*& op : results_) { Path64 tmp = GetPath(op); if (!tmp.empty()) result.emplace_back(std::move(tmp)); }` -/
def getPaths : Nat → Nat → Heap → Except TFault (Paths × Heap)
  | 0, _, h => .ok ([], h)
  | k + 1, i, h =>
    match getPath h i with
    | .error f => .error f
    | .ok (p, h') =>
      match getPaths k (i + 1) h' with
      | .error f => .error f
      | .ok (ps, h'') => .ok (if p.isEmpty then ps else p :: ps, h'')

/-! ### the heap `ExecuteInternal` leaves behind, and `Execute` -/

/-- `path_bounds_.Contains(rect_) && Path1ContainsPath2(path, rect_as_path_)` was reached and true: the four corners were
added with `AddToEdge(edges_[k * 2], results_[0])` after each -/
def enclosing (pip : Pt → Path → Option PipResult) (r : Rect) (path : Path) (res : AResult) : Bool :=
  res.firstCross == .inside && res.startingLoc != .inside && (getBounds path).containsRect r &&
    (path1ContainsPath2 pip path r.asPath == some true)

/-- `Add(rect_as_path_[k]); AddToEdge(edges_[k * 2], results_[0]);` for the four corner `Add` calls -/
def addCorners (h : Heap) : List (Pt × Nat) → Except TFault Heap
  | [] => .ok h
  | (p, k) :: rest =>
    match h.add p with
    | .error f => .error f
    | .ok h1 =>
      match h1.results.head? with
      | some (some op) => addCorners (h1.addToEdge (k * 2) op) rest
      | _ => .error .null

/-- The heap (`op_container_`, `results_`, `edges_`) after `ExecuteInternal(path)` on a clean object, from the `Add`
calls recorded by the automaton model. -/
def rawHeap (pip : Pt → Path → Option PipResult) (r : Rect) (path : Path) (res : AResult) : Except TFault Heap :=
  let pts := res.es.map (·.pt)
  if enclosing pip r path res then
    let ks : List Nat := if startLocsAreClockwise res.startLocs then [0, 1, 2, 3] else [3, 2, 1, 0]
    match Heap.empty.addAll (pts.take (pts.length - 4)) with
    | .error f => .error f
    | .ok h => addCorners h ((pts.drop (pts.length - 4)).zip ks)
  else Heap.empty.addAll pts

/-- `for (size_t i = 0; i < 4; ++i) TidyEdges(i, edges_[i * 2], edges_[i * 2 + 1]);` -/
def tidyAll (h : Heap) : Except TFault Heap :=
  match tidyEdges 0 h with
  | .error f => .error f
  | .ok h0 => match tidyEdges 1 h0 with
    | .error f => .error f
    | .ok h1 => match tidyEdges 2 h1 with
      | .error f => .error f
      | .ok h2 => tidyEdges 3 h2

/-- everything after `ExecuteInternal` in the loop body of `Execute` -/
def finishPath (r : Rect) (h : Heap) : Except TFault Paths :=
  match checkEdges r h with
  | .error f => .error f
  | .ok h1 =>
    match tidyAll h1 with
    | .error f => .error f
    | .ok h2 => (getPaths h2.results.length 0 h2).map (·.1)

inductive XFault
  | auto (f : Fault)
  | tidy (f : TFault)
  deriving DecidableEq, Repr

/-- `ExecuteInternal(path); CheckEdges(); TidyEdges × 4; GetPath × results_.size()` on a clean object -/
def rectClipGeneral (A : Arith) (pip : Pt → Path → Option PipResult) (r : Rect) (path : Path) : Except XFault Paths :=
  match executeInternalA A pip r path with
  | .error f => .error (.auto f)
  | .ok res =>
    match rawHeap pip r path res with
    | .error f => .error (.tidy f)
    | .ok h =>
      match finishPath r h with
      | .error f => .error (.tidy f)
      | .ok ps => .ok ps

/-- the loop body of `RectClip64::Execute` for one path (the clean-up at its end restores the clean object) -/
def rectClipFull (A : Arith) (pip : Pt → Path → Option PipResult) (r : Rect) (path : Path) : Except XFault Paths :=
  match executeShortcut r path with
  | some ps => .ok ps
  | none => rectClipGeneral A pip r path

/-- `RectClip64::Execute(paths)` -/
def execute (A : Arith) (pip : Pt → Path → Option PipResult) (r : Rect) : Paths → Except XFault Paths
  | [] => .ok []
  | p :: ps =>
    if r.isEmpty then .ok [] else
    match rectClipFull A pip r p with
    | .error f => .error f
    | .ok out =>
      match execute A pip r ps with
      | .error f => .error f
      | .ok rest => .ok (out ++ rest)

/-- bit-exact instances -/
def rectClipFullF (r : Rect) (path : Path) : Except XFault Paths := rectClipFull floatArith pipFloat r path
def executeF (r : Rect) (paths : Paths) : Except XFault Paths := execute floatArith pipFloat r paths

end Clipper.Model.RCT
