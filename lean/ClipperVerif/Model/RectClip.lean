/-
Executable model of the parts of `RectClip64` (clipper.rectclip.cpp) that the C08 theorems talk about:
the bounds shortcuts of `Execute`, `StartLocsAreClockwise`, both `AddCorner` overloads and the two
`do { … } while (prev != loc)` corner loops of `ExecuteInternal`.  `GetAdjacentLocation`,
`HeadingClockwise`, `AreOpposites` are the *generated* definitions.  `CheckEdges`/`TidyEdges` and the
crossing automaton of `RectClip64::ExecuteInternal` are not modelled (they are covered by the spec-level
search `RECTCLIPCHECK` only).
-/
import ClipperVerif.Model.RectClipLines
namespace Clipper.Model.RC
open Clipper

/-- `rect_as_path_[static_cast<size_t>(loc)]`; `none` = index 4, out of range -/
def cornerAt (r : Rect) : Location → Option Pt
  | .left => some r.c0
  | .top => some r.c1
  | .right => some r.c2
  | .bottom => some r.c3
  | .inside => none

/-- `RectClip64::AddCorner(Location prev, Location curr)`: the point handed to `Add` -/
def addCorner1 (r : Rect) (prev curr : Location) : Option Pt :=
  if Gen.HeadingClockwise prev curr then cornerAt r prev else cornerAt r curr

/-- `RectClip64::AddCorner(Location& loc, bool isClockwise)`: the point handed to `Add` and the new `loc` -/
def addCorner2 (r : Rect) (loc : Location) (isClockwise : Bool) : Option Pt × Location :=
  if isClockwise then (cornerAt r loc, Gen.GetAdjacentLocation loc true)
  else
    let loc' := Gen.GetAdjacentLocation loc false
    (cornerAt r loc', loc')

/-- `do { AddCorner(prev, isClockw); } while (prev != loc);`
`none`: fuel exhausted or a corner index out of range. Returns the points added. -/
def cornerLoop (r : Rect) (loc : Location) (isClockw : Bool) : Nat → Location → Option (List Pt)
  | 0, _ => none
  | fuel + 1, prev =>
    match addCorner2 r prev isClockw with
    | (none, _) => none
    | (some p, prev') =>
      if prev' ≠ loc then (cornerLoop r loc isClockw fuel prev').map (p :: ·) else some [p]

/-- `do { start_locs_.emplace_back(prev); prev = GetAdjacentLocation(prev, isClockw); } while (prev != loc);` -/
def startLocsLoop (loc : Location) (isClockw : Bool) : Nat → Location → Option (List Location)
  | 0, _ => none
  | fuel + 1, prev =>
    let prev' := Gen.GetAdjacentLocation prev isClockw
    if prev' ≠ loc then (startLocsLoop loc isClockw fuel prev').map (prev :: ·) else some [prev]

/-- `StartLocsAreClockwise` -/
def startLocsSum : List Location → Int
  | a :: b :: rest =>
    let d : Int := (b.toNat : Int) - (a.toNat : Int)
    (if d = -1 then -1 else if d = 1 then 1 else if d = -3 then 1 else if d = 3 then -1 else 0)
      + startLocsSum (b :: rest)
  | _ => 0

def startLocsAreClockwise (l : List Location) : Bool := decide (startLocsSum l > 0)

/-- The part of the loop body of `RectClip64::Execute` before `ExecuteInternal`:
`some result` when one of the shortcuts decides the path, `none` when the general algorithm runs. -/
def executeShortcut (r : Rect) (path : Path) : Option Paths :=
  if path.length < 3 then some []
  else
    let b := getBounds path
    if !(r.intersects b) then some []
    else if r.containsRect b then some [path]
    else none

end Clipper.Model.RC
