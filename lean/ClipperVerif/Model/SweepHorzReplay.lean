/-
WHOLE SWEEPS WITH HORIZONTAL EDGES, replayed from the input paths alone (property C01; `Model/SweepHorz.lean` is the model of
`DoHorizontal`, this file puts it into the loop of `ClipperBase::ExecuteInternal`):

```
    while (succeeded_) {
      InsertLocalMinimaIntoAEL(y);                    // insertMinsH      (I)   horizontal bounds are pushed on sel_
      while (PopHorz(e)) DoHorizontal(*e);            // horzPhaseTrace   (H…)
      ...
      if (!PopScanline(y)) break;
      DoIntersections(y);                             // doIntersectionsH (X)
      DoTopOfScanbeam(y);                             // topOfBeamH       (T)   edges that become horizontal are pushed on sel_
      while (PopHorz(e)) DoHorizontal(*e);            // horzPhaseTrace   (H…)
    }
```

What is new against `Model/SweepOrder.lean`: the AEL holds `HEdge`s (with `curr_x`, `vertex_top` and the rest of the bound), the vertex rings,
`LocalMax` flags and the local-minima list come from the model of `AddPaths_` (`Model/AddPathsRings.lean`, compared bit for bit with the
real arrays elsewhere), `InsertLocalMinimaIntoAEL` knows horizontal bounds (`IsHeadingRightHorz` / `IsHeadingLeftHorz`), `DoTopOfScanbeam`
keeps an edge whose maxima pair is still a pending horizontal (`DoMaxima`: `if (!max_pair) return next_e;`), runs `UpdateEdgeIntoAEL` with
`TrimHorz`, and both leave the stack `sel_` for the horizontal phase.  The identity of an `Active` is `2 * slot + (wind_dx > 0)` with `slot` =
the array slot of its local minimum's vertex (subject array first, then the clip array); the identity of a vertex is its array slot.

Not modelled: joins (`CheckJoinLeft/Right`, `Split`; a joined edge is swept with its neighbour's `curr_x` and `InsertLeftEdge` steps over a
joined pair) — the harness cuts a trace at the first join —, open paths, output.  `TopX` and the comparison of the `dx` of the two bounds
of a local minimum are parameters (the driver evaluates the C++ expressions in `Float`).  Executable only: the theorems about horizontals
(`Props/C01Horz.lean`) are about `doHorizontal` / `horzPhase`, the theorems about the rest of the loop are `Props/C01Sweep.lean`.
Core Lean only.
-/
import ClipperVerif.Model.SweepHorz
import ClipperVerif.Model.AddPathsRings
import ClipperVerif.Model.AelOrder
namespace Clipper.Model.SweepHorzReplay
open Clipper Clipper.Model.SweepHorz Clipper.Model.AelOrder
open Clipper.Model.SweepOrder (stableSort)

/-- a vertex ring in `next` order -/
abbrev Ring := List HV

/-- the rings of one `AddPaths_` call; `off` = identity of slot 0 of its array -/
def ringsOf (off : Nat) (o : AddPathsRings.Out) : List Ring :=
  o.rings.map (fun r => (AddPathsRings.enum (r.out.pts.zip r.out.flags)).map (fun q => ⟨off + r.base + q.1, q.2.1, q.2.2.localMax⟩))

/-- a local minimum: identity of its vertex, its ring, the index of the vertex in the ring -/
structure LM where
  slot : Nat
  pt : Pt
  ring : Ring
  idx : Nat
  deriving Repr, Inhabited

def lmsOf (off : Nat) (o : AddPathsRings.Out) : List LM :=
  o.recs.flatMap (fun r =>
    let ring : Ring := (AddPathsRings.enum (r.out.pts.zip r.out.flags)).map (fun q => ⟨off + r.base + q.1, q.2.1, q.2.2.localMax⟩)
    r.minima.map (fun m => ⟨off + m.slot, m.pt, ring, m.idx⟩))

/-- `std::stable_sort(minima_list_, LocMinSorter())` (`Reset`): larger y first, then smaller x; the regenerated comparator -/
def sortLMs (l : List LM) : List LM :=
  stableSort (fun a b => !Gen.LocMinSorter b.pt.x b.pt.y a.pt.x a.pt.y) l

/-- what `IsValidAelOrder` reads of an `Active` beyond `HEdge`: `is_left_bound`, `local_min->vertex->pt.y`, `PrevPrevVertex(e)->pt` at the
time the edge was created -/
structure Info where
  isLeft : Bool
  lmY : Int
  ppv : Pt
  deriving Repr, Inhabited

/-- the two `Active`s `InsertLocalMinimaIntoAEL` creates for a local minimum: (descending bound `wind_dx = -1` along `prev`, ascending
bound `wind_dx = 1` along `next`), each with one full turn of the ring behind its `vertex_top` -/
def boundsOfLM (m : LM) : Option (HEdge × HEdge) :=
  match m.ring.rotateLeft (m.idx + 1), (m.ring.rotateLeft m.idx).reverse with
  | vu :: ru, vd :: rd =>
    some (⟨2 * m.slot, m.pt, vd.pt, m.pt.x, vd.id, vd.isMax, rd⟩, ⟨2 * m.slot + 1, m.pt, vu.pt, m.pt.x, vu.id, vu.isMax, ru⟩)
  | _, _ => none

/-- `IsHeadingRightHorz` (`dx == -max`): a horizontal edge with `top.x > bot.x` -/
def headingRight (e : HEdge) : Bool := decide (e.top.x > e.bot.x)

/-- the `SwapActives` decision of `InsertLocalMinimaIntoAEL`; `dxLt l r` = `l.dx < r.dx` for two non-horizontal edges -/
def orderBounds (dxLt : HEdge → HEdge → Bool) (desc asc : HEdge) : HEdge × HEdge :=
  if desc.isHorz then (if headingRight desc then (asc, desc) else (desc, asc))
  else if asc.isHorz then (if !headingRight asc then (asc, desc) else (desc, asc))
  else if dxLt desc asc then (asc, desc) else (desc, asc)

/-- (left bound, right bound) of every local minimum, in the order they are popped, with the static `Info` of the two `Active`s -/
def allMins (dxLt : HEdge → HEdge → Bool) (lms : List LM) : List ((HEdge × HEdge) × (Info × Info)) :=
  (sortLMs lms).filterMap (fun m =>
    (boundsOfLM m).map (fun b =>
      let p := orderBounds dxLt b.1 b.2
      -- PrevPrevVertex of a fresh bound = vertex_top of the other bound
      (p, (⟨true, m.pt.y, p.2.top⟩, ⟨false, m.pt.y, p.1.top⟩))))

/-- the `Active` record `IsValidAelOrder` reads -/
def toO (info : Nat → Info) (e : HEdge) : OEdge :=
  { currX := e.currX, bot := e.bot, top := e.top, isLeftBound := (info e.id).isLeft, isMaxima := e.topIsMax,
    nextVertexPt := (e.rest.head?.map (·.pt)).getD ⟨0, 0⟩, prevPrevVertexPt := (info e.id).ppv, localMinY := (info e.id).lmY,
    joinRight := false }

/-- C++ `IsValidAelOrder(resident, newcomer)` (regenerated) -/
def validH (info : Nat → Info) (r n : HEdge) : Bool := isValidAelOrder (toO info r) (toO info n)

/-- one local minimum: `InsertLeftEdge`, `InsertRightEdge` + the settling loop (`Model/AelOrder.lean`) -/
def insertBoundH (info : Nat → Info) (ael : List HEdge) (p : HEdge × HEdge) : List HEdge :=
  match insertLeftPos (validH info) (fun _ => false) ael p.1 with
  | some i => insertRight (validH info) (insertLeft (validH info) (fun _ => false) ael p.1) i p.2
  | none => insertLeft (validH info) (fun _ => false) ael p.1

/-- `InsertLocalMinimaIntoAEL(y)` -/
def insertMinsH (info : Nat → Info) (ael : List HEdge) (ms : List (HEdge × HEdge)) : List HEdge :=
  ms.foldl (insertBoundH info) ael

/-- `DoIntersections(y)`: `curr_x = TopX(e, y)` (`AdjustCurrXAndCopyToSEL`), then the stable sort by `curr_x`
(`Props/C01Sweep.doIntersections_is_engine`); with fewer than two edges `BuildIntersectList` returns at once -/
def doIntersectionsH (topx : HEdge → Int → Int) (y : Int) (ael : List HEdge) : List HEdge :=
  match ael with
  | [] => ael
  | [_] => ael
  | _ => stableSort (fun a b => decide (a.currX ≤ b.currX)) (ael.map (fun e => { e with currX := topx e y }))

/-- split at the first edge with `vertex_top = v` (`GetMaximaPair`) -/
def splitPair (v : Nat) : List HEdge → Option (List HEdge × HEdge × List HEdge)
  | [] => none
  | e :: rest =>
    if e.vtop = v then some ([], e, rest)
    else (splitPair v rest).map (fun r => (e :: r.1, r.2.1, r.2.2))

/-- `DoTopOfScanbeam(y)`: `done` = the edges already visited (reversed), the list = the edges still to visit.  An edge that ends on `y`:
at a local maximum `DoMaxima` — its pair to the right found: both leave (the edges between them are swapped past it and visited next);
not found (the pair is still below a pending horizontal): it stays — otherwise `UpdateEdgeIntoAEL` in place.  Any other edge:
`curr_x = TopX(e, y)`. -/
def topGo (pc : Bool) (topx : HEdge → Int → Int) (y : Int) : Nat → List HEdge → List HEdge → List HEdge
  | 0, done, todo => done.reverse ++ todo
  | _, done, [] => done.reverse
  | fuel + 1, done, e :: rest =>
    if e.top.y = y then
      let e1 : HEdge := { e with currX := e.top.x }
      if e.topIsMax then
        match splitPair e.vtop rest with
        | none => topGo pc topx y fuel (e1 :: done) rest
        | some (between, _, after) => topGo pc topx y fuel done (between ++ after)
      else
        match updateEdge pc e1 with
        | some e2 => topGo pc topx y fuel (e2 :: done) rest
        | none => topGo pc topx y fuel (e1 :: done) rest
    else topGo pc topx y fuel ({ e with currX := topx e y } :: done) rest

def topOfBeamH (pc : Bool) (topx : HEdge → Int → Int) (y : Int) (ael : List HEdge) : List HEdge :=
  topGo pc topx y (ael.length + 1) [] ael

/-- one observable stage of the sweep, with the AEL itself -/
inductive StageX
  /-- the AEL after `InsertLocalMinimaIntoAEL(y)` -/
  | ins (y : Int) (ael : List HEdge)
  /-- after one `DoHorizontal(hid)`: AEL and events -/
  | horz (hid : Nat) (ael : List HEdge) (evs : List Ev)
  /-- after `DoIntersections(y)` -/
  | isect (y : Int) (ael : List HEdge)
  /-- after `DoTopOfScanbeam(y)` -/
  | top (y : Int) (ael : List HEdge)
  deriving Repr, Inhabited

def StageX.ael : StageX → List HEdge
  | .ins _ a => a
  | .horz _ a _ => a
  | .isect _ a => a
  | .top _ a => a

/-- … as the harness observes it: identities only -/
inductive Stage
  | ins (y : Int) (ael : List Nat)
  | horz (hid : Nat) (ael : List Nat) (evs : List Ev)
  | isect (y : Int) (ael : List Nat)
  | top (y : Int) (ael : List Nat)
  deriving DecidableEq, Repr, Inhabited

def idsOf (ael : List HEdge) : List Nat := ael.map (·.id)

def StageX.toStage : StageX → Stage
  | .ins y a => .ins y (idsOf a)
  | .horz h a e => .horz h (idsOf a) e
  | .isect y a => .isect y (idsOf a)
  | .top y a => .top y (idsOf a)

def phaseStages (pc : Bool) (topx : HEdge → Int → Int) (ael : List HEdge) (sel : List Nat) : List StageX :=
  ((horzPhaseTrace pc topx ael sel).zip sel).map (fun p => .horz p.2 p.1.ael p.1.evs)

/-- the whole sweep over the scanlines `ys` (descending), starting with the AEL `ael` -/
def sweepX (pc : Bool) (topx : HEdge → Int → Int) (info : Nat → Info) (mins : Int → List (HEdge × HEdge)) :
    List HEdge → List Int → List StageX
  | _, [] => []
  | ael, y0 :: rest =>
    let a1 := insertMinsH info ael (mins y0)
    let selB := selAfterInsert (mins y0)
    let a2 := (horzPhase pc topx a1 selB).ael
    let st1 := StageX.ins y0 a1 :: phaseStages pc topx a1 selB
    match rest with
    | [] => st1
    | y1 :: _ =>
      let a3 := doIntersectionsH topx y1 a2
      let a4 := topOfBeamH pc topx y1 a3
      let selA := selAfterTop a4
      let a5 := (horzPhase pc topx a4 selA).ael
      st1 ++ StageX.isect y1 a3 :: StageX.top y1 a4 :: phaseStages pc topx a4 selA ++
        sweepX pc topx info mins a5 rest

def sweepH (pc : Bool) (topx : HEdge → Int → Int) (info : Nat → Info) (mins : Int → List (HEdge × HEdge))
    (ael : List HEdge) (ys : List Int) : List Stage :=
  (sweepX pc topx info mins ael ys).map StageX.toStage

/-- everything derived from the input paths -/
structure Input where
  lms : List LM
  ys : List Int

/-- the scanlines: the heights of all vertices of the rings that have a local minimum, descending, without repetition -/
def build (subj clip : Paths) : Input :=
  let os := AddPathsRings.addPaths .subject false subj
  let oc := AddPathsRings.addPaths .clip false clip
  let lms := lmsOf 0 os ++ lmsOf os.total oc
  let ys := (stableSort (fun a b => decide (b ≤ a)) (lms.flatMap (fun m => m.ring.map (·.pt.y)))).eraseDups
  ⟨lms, ys⟩

/-- the static `Info` of the `Active`s of an input -/
def infoOf (ms : List ((HEdge × HEdge) × (Info × Info))) (id : Nat) : Info :=
  match ms.find? (fun m => m.1.1.id == id || m.1.2.id == id) with
  | some m => if m.1.1.id == id then m.2.1 else m.2.2
  | none => default

/-- the local minima popped at the scanline `y`, as (left bound, right bound) -/
def minsOf (ms : List ((HEdge × HEdge) × (Info × Info))) (y : Int) : List (HEdge × HEdge) :=
  (ms.filter (fun m => m.1.1.bot.y == y)).map (·.1)

/-- the model sweep of an input, with the AELs -/
def replayX (pc : Bool) (topx : HEdge → Int → Int) (dxLt : HEdge → HEdge → Bool) (subj clip : Paths) : List StageX :=
  let inp := build subj clip
  let ms := allMins dxLt inp.lms
  sweepX pc topx (infoOf ms) (minsOf ms) [] inp.ys

/-- the model sweep of an input, as the harness observes the real one -/
def replay (pc : Bool) (topx : HEdge → Int → Int) (dxLt : HEdge → HEdge → Bool) (subj clip : Paths) : List Stage :=
  (replayX pc topx dxLt subj clip).map StageX.toStage

/-- an exact instance of `TopX` (the C++ case distinction, the quotient rounded half to even instead of computed in `double`) and of the
`dx` comparison, for kernel-checked examples; the driver uses the `Float` expressions -/
def topXE (e : HEdge) (y : Int) : Int :=
  if y = e.top.y ∨ e.top.x = e.bot.x then e.top.x
  else if y = e.bot.y then e.bot.x
  else Clipper.Model.SweepOrder.rhe e.toS y

def dxLtE (l r : HEdge) : Bool := decide (Clipper.Model.SweepOrder.slt r.toS l.toS)

/-! ## the hypotheses of `Props/C01Horz.sweep_with_horizontals_keeps_sorted`, decidable -/

/-- both horizontal phases of every scanline meet `PhaseOK` (each on the AEL the model has at that point) -/
def SweepPhasesOK (pc : Bool) (topx : HEdge → Int → Int) (info : Nat → Info) (mins : Int → List (HEdge × HEdge)) :
    List HEdge → List Int → Prop
  | _, [] => True
  | ael, y0 :: rest =>
    let a1 := insertMinsH info ael (mins y0)
    let selB := selAfterInsert (mins y0)
    PhaseOK pc topx a1 selB ∧
    match rest with
    | [] => True
    | y1 :: _ =>
      let a4 := topOfBeamH pc topx y1 (doIntersectionsH topx y1 (horzPhase pc topx a1 selB).ael)
      PhaseOK pc topx a4 (selAfterTop a4) ∧
        SweepPhasesOK pc topx info mins (horzPhase pc topx a4 (selAfterTop a4)).ael rest

instance decSweepPhasesOK (pc : Bool) (topx : HEdge → Int → Int) (info : Nat → Info) (mins : Int → List (HEdge × HEdge)) :
    (ael : List HEdge) → (ys : List Int) → Decidable (SweepPhasesOK pc topx info mins ael ys)
  | _, [] => isTrue trivial
  | ael, [y0] => by unfold SweepPhasesOK; infer_instance
  | ael, y0 :: y1 :: rest => by
    unfold SweepPhasesOK
    have := decSweepPhasesOK pc topx info mins
      (horzPhase pc topx (topOfBeamH pc topx y1 (doIntersectionsH topx y1 (horzPhase pc topx (insertMinsH info ael (mins y0)) (selAfterInsert (mins y0))).ael))
        (selAfterTop (topOfBeamH pc topx y1 (doIntersectionsH topx y1 (horzPhase pc topx (insertMinsH info ael (mins y0)) (selAfterInsert (mins y0))).ael)))).ael
      (y1 :: rest)
    infer_instance

end Clipper.Model.SweepHorzReplay
